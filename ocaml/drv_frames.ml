(* Correspondence driver for the frame codec (C05, C16).

   rd  <maxLen> <hex>                 ReadFrameFromWithSize on a reader holding <hex>
   rda <maxLen> <hex>                 same, result reduced to class + "big allocation?" flag
   wr  <type> <pre> <sid> <padn> <fields...> obs=<hex>     build through the API, WriteTo
   wr2 <padn2> <type> <pre> <sid> <padn> <fields...> obs=<hex>,<hex>   WriteTo twice

   The canonical strings here must match harness/cmd/h2v/frames.go exactly. *)
open Model
open Drv_common

let i = int_of_n
let b01 b = if b then "1" else "0"
let dz (x : Model.z) = dec_of_zc x

let err_name (c : n) =
  match int_of_n c with
  | 1 -> "eof" | 2 -> "too-large" | 3 -> "unknown-type" | 4 -> "frame-size" | 5 -> "missing"
  | 6 -> "padding" | 7 -> "settings-proto" | 8 -> "settings-flow" | k -> "class" ^ string_of_int k

let body_str (bd : body) : string =
  match bd with
  | BData (es, hp, d) -> Printf.sprintf "data es=%s pad=%s d=%s" (b01 es) (b01 hp) (hex_of_bytes d)
  | BHeaders (hp, st, w, es, eh, pr, raw) ->
    Printf.sprintf "headers es=%s eh=%s pr=%s dep=%s w=%d pad=%s d=%s" (b01 es) (b01 eh) (b01 pr)
      (dec_of_n st) (i w) (b01 hp) (hex_of_bytes raw)
  | BPriority (st, w) -> Printf.sprintf "priority dep=%s w=%d" (dec_of_n st) (i w)
  | BRstStream c -> Printf.sprintf "rst code=%s" (dec_of_n c)
  | BSettings st ->
    Printf.sprintf "settings ack=%s ts=%s push=%s ms=%s ws=%s fs=%s hs=%s hasws=%s present=%d" (b01 st.st_ack)
      (dec_of_n st.st_tableSize) (b01 st.st_enablePush) (dec_of_n st.st_maxStreams)
      (dec_of_n st.st_windowSize) (dec_of_n st.st_frameSize) (dec_of_n st.st_headerSize)
      (b01 st.st_hasWindowSize) (i st.st_present)
  | BPushPromise (_, ended, st, hdr) ->
    Printf.sprintf "pp eh=%s promised=%s d=%s" (b01 ended) (dec_of_n st) (hex_of_bytes hdr)
  | BPing (ack, d) -> Printf.sprintf "ping ack=%s d=%s" (b01 ack) (hex_of_bytes d)
  | BGoAway (st, c, d) -> Printf.sprintf "goaway last=%s code=%s d=%s" (dec_of_n st) (dec_of_n c) (hex_of_bytes d)
  | BWindowUpdate inc -> Printf.sprintf "wu inc=%s" (dz inc)
  | BContinuation (eh, raw) -> Printf.sprintf "cont eh=%s d=%s" (b01 eh) (hex_of_bytes raw)

let fh_str (f : fhdr) : string =
  Printf.sprintf "t=%s fl=%d sid=%s len=%s %s" (dz f.fh_kind) (i f.fh_flags) (dec_of_n f.fh_stream)
    (dec_of_n f.fh_length)
    (match f.fh_body with Some bd -> body_str bd | None -> "nobody")

let obj_str ((k, o) : obj) = (match k with PFrame -> "f" | PFrameHeader -> "h") ^ string_of_int (i o)

let ev_str (evs : pool_ev list) : string =
  match evs with
  | [] -> "-"
  | _ -> String.concat "," (List.map (function Acq (k, o) -> "A:" ^ obj_str (k, o) | Rel (k, o) -> "R:" ^ obj_str (k, o)) evs)

let kind_name = function PFrame -> "frame" | PFrameHeader -> "frameHeader"

let viol_str (r : read_out) : string =
  match pool_run r.ro_events with
  | Inr (TwoOwners (k, _)) -> "two-owners_" ^ kind_name k
  | Inr (DoubleRelease (k, _)) -> "double-release_" ^ kind_name k
  | Inl _ -> if linear r.ro_events (handed r) then "-" else "not-linear"

let rd_model (max : n) (b : n list) : string =
  let r = read_frame_with_size max b in
  let tail = Printf.sprintf "used=%s ev=%s viol=%s" (dec_of_n r.ro_used) (ev_str r.ro_events) (viol_str r) in
  match r.ro_res with
  | Ok f -> Printf.sprintf "ok %s %s" (fh_str f) tail
  | Err c -> Printf.sprintf "err %s %s" (err_name c) tail
  | Panic w -> Printf.sprintf "panic %d %s" (i w) tail

let rd_spec (max : n) (b : n list) : string =
  match spec_read (effective_limit max) b with
  | Short -> "short"
  | TooLarge -> "toolarge"
  | UnknownType k -> "unknown used=" ^ dec_of_n k
  | Malformed k -> "malformed used=" ^ dec_of_n k
  | Frame (f, k) ->
    if settings_valid f.f_body then Printf.sprintf "ok %s used=%s" (fh_str (view max f)) (dec_of_n k)
    else "badsettings used=" ^ dec_of_n k

(* ---- write side ---- *)

let nb s = n_of_dec s
let bl s = bool_of_str s

(* fields after <type>: returns the body *)
let body_of_args (ty : string) (a : string list) : body =
  let g k = List.nth a k in
  match ty with
  | "data" -> BData (bl (g 0), bl (g 1), bytes_of_hex (g 2))
  | "headers" ->
    (* hp dep w es eh pr hex *)
    BHeaders (bl (g 0), nb (g 1), nb (g 2), bl (g 3), bl (g 4), bl (g 5), bytes_of_hex (g 6))
  | "priority" -> BPriority (nb (g 0), nb (g 1))
  | "rst" -> BRstStream (nb (g 0))
  | "settings" ->
    (* ack ts push ms ws fs hs *)
    BSettings { settings_reset with st_ack = bl (g 0); st_tableSize = nb (g 1); st_enablePush = bl (g 2);
                                    st_maxStreams = nb (g 3); st_windowSize = nb (g 4); st_frameSize = nb (g 5);
                                    st_headerSize = nb (g 6) }
  | "pp" -> BPushPromise (false, bl (g 0), nb (g 1), bytes_of_hex (g 2))
  | "ping" -> BPing (bl (g 0), bytes_of_hex (g 1))
  | "goaway" -> BGoAway (nb (g 0), nb (g 1), bytes_of_hex (g 2))
  | "wu" -> BWindowUpdate (zc_of_dec (g 0))
  | "cont" -> BContinuation (bl (g 0), bytes_of_hex (g 1))
  | _ -> failwith ("unknown frame type " ^ ty)

(* canonical form of a spec-level frame, reserved bits and padding content left out
   (x/net's Framer exposes neither); pad=- means not padded *)
let pad_str = function None -> "-" | Some p -> string_of_int (List.length p)
let prio_str = function
  | None -> "-"
  | Some p -> Printf.sprintf "%s/%s/%d" (b01 p.p_excl) (dec_of_n p.p_dep) (i p.p_weight)

let frame_str (f : frame) : string =
  let h = Printf.sprintf "t=%d fl=%d sid=%s" (i (type_code f.f_body)) (i f.f_flags) (dec_of_n f.f_stream) in
  let b =
    match f.f_body with
    | Data (pad, d) -> Printf.sprintf "data pad=%s d=%s" (pad_str pad) (hex_of_bytes d)
    | Headers (pad, prio, frag) -> Printf.sprintf "headers pad=%s prio=%s d=%s" (pad_str pad) (prio_str prio) (hex_of_bytes frag)
    | Priority p -> Printf.sprintf "priority prio=%s" (prio_str (Some p))
    | RstStream c -> Printf.sprintf "rst code=%s" (dec_of_n c)
    | Settings items ->
      "settings " ^ (match items with [] -> "-" | _ ->
          String.concat "," (List.map (fun (k, v) -> dec_of_n k ^ "=" ^ dec_of_n v) items))
    | PushPromise (pad, _, pr, frag) -> Printf.sprintf "pp pad=%s promised=%s d=%s" (pad_str pad) (dec_of_n pr) (hex_of_bytes frag)
    | Ping d -> Printf.sprintf "ping d=%s" (hex_of_bytes d)
    | GoAway (_, last, c, d) -> Printf.sprintf "goaway last=%s code=%s d=%s" (dec_of_n last) (dec_of_n c) (hex_of_bytes d)
    | WindowUpdate (_, inc) -> Printf.sprintf "wu inc=%s" (dec_of_n inc)
    | Continuation frag -> Printf.sprintf "cont d=%s" (hex_of_bytes frag)
  in
  h ^ " " ^ b

(* spec verdict on the bytes the implementation wrote for (pre, sid, body, padn) *)
let wr_spec (pre : n) (sid : n) (bd : body) (padn : n) (obs : n list) : string =
  let want = frame_of pre sid bd padn in
  match spec_parse obs with
  | None -> Printf.sprintf "unparsable want=[%s]" (frame_str want)
  | Some (got, rest) ->
    if got = want && rest = [] then begin
      (* SETTINGS: the peer must end up knowing the values the accessors hold *)
      match bd, got.f_body with
      | BSettings st, Settings items when not st.st_ack && settings_value_ok st
                                         && apply_settings initial_params items <> params_of st ->
        "settings-meaning-differs " ^ frame_str got
      | _ -> "ok " ^ frame_str got
    end
    else Printf.sprintf "differs got=[%s] rest=%d want=[%s]%s" (frame_str got) (List.length rest) (frame_str want)
        (if frame_str got = frame_str want then " (reserved bit / padding content)" else "")

let split_obs (s : string) : string =
  if String.length s > 4 && String.sub s 0 4 = "obs=" then String.sub s 4 (String.length s - 4) else failwith "no obs="

let parse_wr (a : string list) =
  (* <type> <pre> <sid> <padn> <fields...> obs=... *)
  let ty = List.nth a 0 in
  let pre = nb (List.nth a 1) and sid = nb (List.nth a 2) and padn = nb (List.nth a 3) in
  let rest = List.tl (List.tl (List.tl (List.tl a))) in
  let fields = List.filter (fun s -> not (String.length s > 4 && String.sub s 0 4 = "obs=")) rest in
  let obs = split_obs (List.nth rest (List.length rest - 1)) in
  (ty, pre, sid, padn, body_of_args ty fields, obs)

let () =
  register "rd" (fun a ->
      let max = nb (List.nth a 0) and b = bytes_of_hex (List.nth a 1) in
      (rd_model max b, rd_spec max b));
  register "rds" (fun a ->
      let max = nb (List.nth a 0) and b = bytes_of_hex (List.nth a 1) in
      let starts_with p s = String.length s >= String.length p && String.sub s 0 (String.length p) = p in
      let rec loop_m b acc =
        let r = read_frame_with_size max b in
        let s = rd_model max b in
        let continue_ = match r.ro_res with Ok _ -> true | Err c -> int_of_n c = 3 | Panic _ -> false in
        if continue_ then loop_m (dropN r.ro_used b) (s :: acc) else List.rev (s :: acc) in
      let rec loop_s b acc =
        let s = rd_spec max b in
        let used = match spec_read (effective_limit max) b with
          | Frame (_, k) | UnknownType k -> Some k
          | _ -> None in
        match used with
        | Some k when starts_with "ok " s || starts_with "unknown " s -> loop_s (dropN k b) (s :: acc)
        | _ -> List.rev (s :: acc) in
      (String.concat " | " (loop_m b []), String.concat " | " (loop_s b [])));
  register "rda" (fun a ->
      let max = nb (List.nth a 0) and b = bytes_of_hex (List.nth a 1) in
      let r = read_frame_with_size max b in
      let cls = match r.ro_res with Ok _ -> "ok" | Err c -> "err " ^ err_name c | Panic w -> "panic" in
      let big = BigZ.gt (big_of_n r.ro_alloc) (BigZ.of_int (1 lsl 20)) in
      (Printf.sprintf "%s bigalloc=%s" cls (b01 big),
       (* the spec allows an allocation only up to the limit *)
       (match spec_read (effective_limit max) b with
        | TooLarge -> "err too-large bigalloc=0"
        | _ -> "-")));
  let rw_op ack a =
      (* read a frame, then WriteTo the *FrameHeader that came back (what examples/proxy does) *)
      let max = nb (List.nth a 0) and b = bytes_of_hex (List.nth a 1) in
      let obs = split_obs (List.nth a 2) in
      let m = match (read_frame_with_size max b).ro_res with
        | Ok f ->
          let f = match f.fh_body with
            | Some (BSettings st) when ack -> { f with fh_body = Some (BSettings { st with st_ack = true }) }
            | _ -> f in
          (match write_to f N0 with
           | Ok (out, _) -> "ok " ^ hex_of_bytes out
           | Err c -> "write-err " ^ err_name c
           | Panic w -> "write-panic " ^ string_of_int (i w))
        | Err c -> "err " ^ err_name c
        | Panic w -> "panic " ^ string_of_int (i w) in
      let s = match spec_read (effective_limit max) b with
        | Frame (f, _) when settings_valid f.f_body ->
          (* the forwarded frame must be a frame that reads back to the same accessor values *)
          if String.length obs < 3 || String.sub obs 0 3 <> "ok:" then "forwardable"
          else begin
            match spec_parse (bytes_of_hex (String.sub obs 3 (String.length obs - 3))) with
            | Some (g, []) when ack && (match f.f_body with Settings _ -> true | _ -> false) ->
              (* the acknowledgement: ACK set, no payload (6.5), same stream *)
              if g.f_body = Settings [] && flag g.f_flags aCK && g.f_stream = f.f_stream then "same-view"
              else Printf.sprintf "not-an-ack out=[%s]" (frame_str g)
            | Some (g, []) ->
              (match view_body f.f_flags f.f_body, g.f_body with
               | BSettings st, Settings items when not st.st_ack ->
                 (* a Settings value is the state after the frame, not the frame: what C05 asks of
                    writing it is that the peer ends up knowing the accessor values *)
                 if g.f_stream = f.f_stream && apply_settings initial_params items = params_of st
                 then "same-view" else Printf.sprintf "meaning-differs in=[%s] out=[%s]" (frame_str f) (frame_str g)
               | _ ->
              if type_code g.f_body = type_code f.f_body && g.f_stream = f.f_stream
                 && view_body g.f_flags g.f_body = view_body f.f_flags f.f_body
              then "same-view"
              else Printf.sprintf "view-differs in=[%s] out=[%s]" (frame_str f) (frame_str g))
            | Some (g, _) -> "trailing-bytes"
            | None -> Printf.sprintf "unparsable in=[%s]" (frame_str f)
          end
        | _ -> "-" in
      (m, s) in
  register "rw" (rw_op false);
  register "rwd" (fun a -> rw_op false (List.tl a));
  register "rwa" (rw_op true);
  let wr_op prev a =
      let (_, pre, sid, padn, bd, obs) = parse_wr a in
      let m = match write_to (build_on prev pre sid bd) padn with
        | Ok (out, _) -> hex_of_bytes out
        | Err c -> "err " ^ err_name c
        | Panic w -> "panic " ^ string_of_int (i w) in
      (m, wr_spec pre sid bd padn (bytes_of_hex obs)) in
  let wr2_op prev a =
      let padn2 = nb (List.hd a) in
      let (_, pre, sid, padn, bd, obs) = parse_wr (List.tl a) in
      let m = match write_to (build_on prev pre sid bd) padn with
        | Ok (out1, f1) ->
          (match write_to f1 padn2 with
           | Ok (out2, _) -> hex_of_bytes out1 ^ "," ^ hex_of_bytes out2
           | Err c -> "err " ^ err_name c
           | Panic w -> "panic " ^ string_of_int (i w))
        | Err c -> "err " ^ err_name c
        | Panic w -> "panic " ^ string_of_int (i w) in
      (* writing the same value twice must put the same frame on the wire twice
         (up to the freshly drawn pad length) *)
      let o1, o2 = match String.split_on_char ',' obs with [x; y] -> (x, y) | _ -> failwith "obs" in
      let s1 = wr_spec pre sid bd padn (bytes_of_hex o1) and s2 = wr_spec pre sid bd padn2 (bytes_of_hex o2) in
      let ok s = String.length s > 3 && String.sub s 0 3 = "ok " in
      (m, if ok s1 && ok s2 then "ok " ^ String.sub s1 3 (String.length s1 - 3) else "first: " ^ s1 ^ " second: " ^ s2) in
  register "wr" (wr_op acquire_header);
  register "wr2" (wr2_op acquire_header);
  register "wrd" (fun a ->
      (* a header recycled through the pool (Reset) that then holds a payload and a length *)
      let prev = { acquire_header with fh_payload = bytes_of_hex (List.nth a 0); fh_length = nb (List.nth a 1) } in
      match List.tl (List.tl a) with
      | "wr" :: rest -> wr_op prev rest
      | "wr2" :: rest -> wr2_op prev rest
      | _ -> failwith "wrd");
  register "wrb" (fun a ->
      (* the body object had a previous life (a frame read into it and released): AcquireFrame's Reset
         leaves nothing of it, so the model builds on a fresh body *)
      match List.tl a with
      | op :: rest when op = "wr" || op = "wr2" || op = "wrd" -> (Hashtbl.find ops op) rest
      | _ -> failwith "wrb");
  register "rdm" (fun a ->
      (* each read obeys its own limit (d = the default) and nothing else *)
      let lims = String.split_on_char ',' (List.nth a 0) and b = bytes_of_hex (List.nth a 1) in
      let lim_of t = if t = "d" then c_defaultMaxLen else nb t in
      let starts_with p s = String.length s >= String.length p && String.sub s 0 (String.length p) = p in
      let rec loop_m lims b acc =
        match lims with
        | [] -> List.rev acc
        | t :: rest ->
          let max = lim_of t in
          let r = read_frame_with_size max b in
          let s = rd_model max b in
          let continue_ = match r.ro_res with Ok _ -> true | Err c -> int_of_n c = 3 | Panic _ -> false in
          if continue_ then loop_m rest (dropN r.ro_used b) (s :: acc) else List.rev (s :: acc) in
      let rec loop_s lims b acc =
        match lims with
        | [] -> List.rev acc
        | t :: rest ->
          let max = lim_of t in
          let s = rd_spec max b in
          let used = match spec_read (effective_limit max) b with
            | Frame (_, k) | UnknownType k -> Some k
            | _ -> None in
          (match used with
           | Some k when starts_with "ok " s || starts_with "unknown " s -> loop_s rest (dropN k b) (s :: acc)
           | _ -> List.rev (s :: acc)) in
      (String.concat " | " (loop_m lims b []), String.concat " | " (loop_s lims b [])))
