open Model
open Drv_common

(* suite "pool": the connection pool model (Impl/ClientPool.v) on the event list the Go harness ran *)

let dial_of_char c = match c with 'o' -> PDialOk | 'h' -> PDialHsFail | _ -> PDialErr
let char_of_dial d = match d with PDialOk -> 'o' | PDialHsFail -> 'h' | PDialErr -> 'e'

let pool_event (tok : string) : pl_event =
  let rest = String.sub tok 1 (String.length tok - 1) in
  match tok.[0] with
  | 'P' -> PEvPick (dial_of_char rest.[0])
  | 'S' ->
    (match String.split_on_char ',' rest with
     | [id; b] -> PEvSetCan (n_of_int (int_of_string id), b = "1")
     | _ -> failwith "pool: bad S")
  | 'B' -> PEvCloseBegin (n_of_int (int_of_string rest))
  | 'E' ->
    (match String.split_on_char ',' rest with
     | [id; d] -> PEvCloseEnd (n_of_int (int_of_string id), dial_of_char d.[0])
     | _ -> failwith "pool: bad E")
  | 'X' -> PEvClientClose
  | 'Q' -> PEvPick (dial_of_char rest.[0])
  | 'F' ->
    (match String.split_on_char ',' rest with
     | [id; d] -> PEvCloseEnd (n_of_int (int_of_string id), dial_of_char d.[0])
     | _ -> failwith "pool: bad F")
  | _ -> failwith "pool: bad event"

let pool_out (o : pl_out) : string =
  match o with
  | PODial (d, None) -> Printf.sprintf "D%c-" (char_of_dial d)
  | PODial (d, Some id) -> Printf.sprintf "D%c%d" (char_of_dial d) (int_of_n id)
  | POShut id -> Printf.sprintf "K%d" (int_of_n id)

let pool_res (r : pl_res) : string =
  match r with
  | PRConn id -> "c" ^ string_of_int (int_of_n id)
  | PRErrClosed -> "ec"
  | PRErrDial -> "ed"
  | PRNone -> "-"

let () =
  register "pool" (fun a ->
      let toks = List.filter (fun s -> s <> "") (String.split_on_char ';' (List.nth a 0)) in
      let p = ref pl_init in
      let recs =
        List.map
          (fun tok ->
            let (q, (((r, o), l), c)) = pl_observe !p (pool_event tok) in
            p := q;
            (* Q and F: a Client.Close started while the dial was under way can only take effect afterwards *)
            let (o, l, c) =
              if tok.[0] = 'Q' || tok.[0] = 'F' then begin
                let (q2, (((_, o2), l2), c2)) = pl_observe !p PEvClientClose in
                p := q2; (o @ o2, l2, c2)
              end else (o, l, c) in
            pool_res r ^ "/" ^ String.concat "," (List.map pool_out o) ^ "/"
            ^ String.concat "." (List.map (fun x -> string_of_int (int_of_n x)) l)
            ^ "/" ^ (if c then "1" else "0"))
          toks in
      (String.concat ";" recs, "-"))
