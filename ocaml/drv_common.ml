(* Shared helpers for the correspondence driver: conversions between the
   extracted N / list N and OCaml ints / hex strings, and the op registry. *)
module BigZ = Z
open Model

let rec pos_of_int (i : int) : positive =
  if i = 1 then XH
  else if i land 1 = 0 then XO (pos_of_int (i lsr 1))
  else XI (pos_of_int (i lsr 1))

let n_of_int (i : int) : n = if i = 0 then N0 else Npos (pos_of_int i)

let rec int_of_pos (p : positive) : int =
  match p with XH -> 1 | XO q -> 2 * int_of_pos q | XI q -> 2 * int_of_pos q + 1

let int_of_n (x : n) : int = match x with N0 -> 0 | Npos p -> int_of_pos p

(* decimal strings of arbitrary size (values up to 2^64 and beyond), through zarith *)
let rec pos_of_big (i : BigZ.t) : positive =
  if BigZ.equal i BigZ.one then XH
  else if BigZ.is_even i then XO (pos_of_big (BigZ.shift_right i 1))
  else XI (pos_of_big (BigZ.shift_right i 1))

let n_of_big (i : BigZ.t) : n = if BigZ.sign i = 0 then N0 else Npos (pos_of_big i)

let rec big_of_pos (p : positive) : BigZ.t =
  match p with
  | XH -> BigZ.one
  | XO q -> BigZ.shift_left (big_of_pos q) 1
  | XI q -> BigZ.succ (BigZ.shift_left (big_of_pos q) 1)

let big_of_n (x : n) : BigZ.t = match x with N0 -> BigZ.zero | Npos p -> big_of_pos p

let n_of_dec (s : string) : n = n_of_big (BigZ.of_string s)
let dec_of_n (x : n) : string = BigZ.to_string (big_of_n x)

let zc_of_dec (s : string) : Model.z =
  let v = BigZ.of_string s in
  if BigZ.sign v = 0 then Z0 else if BigZ.sign v > 0 then Zpos (pos_of_big v) else Zneg (pos_of_big (BigZ.neg v))
let dec_of_zc (x : Model.z) : string =
  match x with Z0 -> "0" | Zpos p -> BigZ.to_string (big_of_pos p) | Zneg p -> "-" ^ BigZ.to_string (big_of_pos p)

let z_of_int (i : int) : Model.z =
  if i = 0 then Z0 else if i > 0 then Zpos (pos_of_int i) else Zneg (pos_of_int (-i))

let int_of_z (x : Model.z) : int =
  match x with Z0 -> 0 | Zpos p -> int_of_pos p | Zneg p -> - (int_of_pos p)

let bytes_of_hex (s : string) : n list =
  if s = "-" then []
  else begin
    let l = String.length s / 2 in
    List.init l (fun i -> n_of_int (int_of_string ("0x" ^ String.sub s (2 * i) 2)))
  end

let hex_of_bytes (b : n list) : string =
  match b with
  | [] -> "-"
  | _ ->
    let buf = Buffer.create 64 in
    List.iter (fun x -> Buffer.add_string buf (Printf.sprintf "%02x" (int_of_n x))) b;
    Buffer.contents buf

let bool_of_str s = (s = "1" || s = "true")
let str_of_bool b = if b then "1" else "0"

(* op name -> handler: arguments (without the op) -> (model result, spec result or "-") *)
let ops : (string, string list -> string * string) Hashtbl.t = Hashtbl.create 64
let register name f = Hashtbl.replace ops name f

(* the implementation's result line for the current case, when the driver was given them *)
let impl_result : string option ref = ref None
