(* Reads case lines on stdin, prints "<model result>\t<spec result>" per line. *)
let () =
  let ic = stdin in
  (try
     while true do
       let line = input_line ic in
       match String.split_on_char ' ' (String.trim line) with
       | [] | [""] -> print_string "?\t-\n"
       | op :: args ->
         (match Hashtbl.find_opt Drv_common.ops op with
          | None -> Printf.printf "unknown-op %s\t-\n" op
          | Some f ->
            let m, s =
              try f args with
              | Stack_overflow -> ("driver-stack-overflow", "-")
              | e -> ("driver-exception " ^ Printexc.to_string e, "-") in
            print_string m; print_char '\t'; print_string s; print_char '\n')
     done
   with End_of_file -> ());
  flush stdout
