(* Reads case lines on stdin, prints "<model result>\t<spec result>" per line.
   With a file name as argument, that file holds the implementation's result for each
   case (one per line, same order): ops that judge the implementation's behaviour with an
   extracted spec oracle read it from Drv_common.impl_result. *)
let () =
  let ic = stdin in
  let impl = if Array.length Sys.argv > 1 then Some (open_in Sys.argv.(1)) else None in
  (try
     while true do
       let line = input_line ic in
       (Drv_common.impl_result := match impl with
           | Some ch -> (try Some (input_line ch) with End_of_file -> None)
           | None -> None);
       match String.split_on_char ' ' (String.trim line) with
       | [] | [""] -> print_string "?\t-\n"
       | op :: args ->
         (match Hashtbl.find_opt Drv_common.ops op with
          | None -> Printf.printf "unknown-op %s\t-\n" op
          | Some f ->
            let m, s =
              try f args with
              | Stack_overflow -> ("driver-stack-overflow", "-")
              | e -> ("driver-exception " ^ Printexc.to_string e, "-") in
            print_string m; print_char '\t'; print_string s; print_char '\n')
     done
   with End_of_file -> ());
  flush stdout
