#!/bin/sh
# Build the extracted model + driver. Run after extraction (model.ml, model.mli present).
set -e
cd "$(dirname "$0")"
mkdir -p _build
cp model.ml model.mli driver.ml drv_*.ml _build/
cd _build
DRV=$(ls drv_*.ml | grep -v '^drv_common.ml$' | sort)
ocamlfind ocamlopt -package zarith -linkpkg -w -a -linkall model.mli model.ml drv_common.ml $DRV driver.ml -o model
