open Model
open Drv_common

(* suite "retry": RoundTrip's loop (Proofs/CliResRetry.v round_trip) over the outcomes the scripted connections produce *)

let attempt_of_char (c : char) : attempt =
  match c with
  | 'g' -> { at_err = CEGoAway; at_sent = true; at_disclaimed = true }
  | 'n' -> { at_err = CENoStreams; at_sent = false; at_disclaimed = false }
  | 'r' -> { at_err = CEReset (n_of_int 8); at_sent = true; at_disclaimed = false }
  | 'o' | 'p' -> { at_err = CENil; at_sent = true; at_disclaimed = false }
  | _ -> { at_err = CEConn; at_sent = false; at_disclaimed = false }   (* x, h: the dial's error *)

let () =
  register "retry" (fun a ->
      let s = List.nth a 0 in
      let s = if s = "-" then "" else s in
      (* PAIR case: the first connection disclaims this request (GOAWAY below its stream) while it still owes an older one;
         that older request completes (C11_below_last_completes) *)
      let pair = String.length s > 0 && s.[0] = 'P' in
      let s = if pair then "g" ^ String.sub s 1 (String.length s - 1) else s in
      (* when the list runs out the dial fails *)
      let outcomes = List.init (String.length s) (fun i -> attempt_of_char s.[i]) @ List.init 5 (fun _ -> attempt_of_char 'x') in
      let (made, r) = round_trip outcomes in
      let proc = List.length (List.filter processed made) in
      match r with
      | None -> ("loop-still-going", "-")
      | Some (retry, e) ->
        let cls = if cerr_is_nil e then "nil" else if cl_retryable e then "R" else "F" in
        (Printf.sprintf "retry=%d err=%s attempts=%d processed=%d" (if retry then 1 else 0) cls (List.length made) proc
         ^ (if pair then " A=nil" else ""), "-"))

(* suite "handover": a request that has not been given to any connection has no result (C12: results = 1 iff
   roundTripOnce has returned, else 0; Props/C12.v C12_results_exact) *)
let () = register "handover" (fun _ -> ("clean", "-"))
