(* Server connection-grain scenarios: replays the event list through the extracted
   server model in lockstep (one read-loop step, one stream-loop step per sframe)
   and prints, per event, what the model says the peer and the handler observe. *)
open Model
open Drv_common

let split_on_string (sep : string) (s : string) : string list =
  let ls = String.length sep and n = String.length s in
  let rec go start i acc =
    if i + ls > n then List.rev (String.sub s start (n - start) :: acc)
    else if String.sub s i ls = sep then go (i + ls) (i + ls) (String.sub s start (i - start) :: acc)
    else go start (i + 1) acc in
  go 0 0 []

let z_of_string s = zc_of_dec s

let kind_of_char = function
  | 'D' -> KData | 'H' -> KHeaders | 'P' -> KPriority | 'R' -> KRst | 'S' -> KSettings
  | 'U' -> KPush | 'G' -> KPing | 'A' -> KGoAway | 'W' -> KWinUpd | 'C' -> KCont
  | _ -> failwith "kind"

let rt_of_head (s : string) : int =
  List.fold_left (fun acc kv -> match String.split_on_char '=' kv with ["rt"; v] -> int_of_string v | _ -> acc) 0
    (String.split_on_char ',' s)

(* srvCfg.rawConfig of the harness: ct = 0: the values as they are; ct >= 1: values equal to their defaults are
   given as zero / negative; ct = 2: ConfigureServerAndConfig *)
let raw_user (ms : int) (hl : int) (mb : int) (rt : int) (ct : int) : bool * srv_user =
  let ms' = if ct >= 1 && ms = 1024 then (if (mb / 4) mod 2 = 0 then 0 else -3) else ms in
  let hl' = if ct >= 1 && hl = 1 lsl 20 then 0 else hl in
  let mb' = if ct >= 1 && mb = 4 lsl 20 then (if ct = 1 then 0 else -1) else mb in
  (ct = 2, { su_maxStreams = z_of_int ms'; su_maxHeaderList = z_of_int hl'; su_maxBody = z_of_int mb'; su_readTimeout = z_of_int rt })

let handshake_of_head (s : string) : string =
  let ms = ref 0 and hl = ref 0 and mb = ref 0 and rt = ref 0 and ct = ref 0 in
  List.iter (fun kv ->
      match String.split_on_char '=' kv with
      | ["ms"; v] -> ms := int_of_string v
      | ["hl"; v] -> hl := int_of_string v
      | ["mb"; v] -> mb := int_of_string v
      | ["rt"; v] -> rt := int_of_string v
      | ["ct"; v] -> ct := int_of_string v
      | _ -> ()) (String.split_on_char ',' s);
  let (and_config, u) = raw_user !ms !hl !mb !rt !ct in
  match srv_handshake_bytes and_config u with
  | Ok b -> hex_of_bytes b
  | Err _ -> "err"
  | Panic _ -> "panic"

let parse_cfg (s : string) : config =
  let ms = ref 0 and hl = ref 0 and mb = ref 0 and rt = ref 0 and ct = ref 0 in
  List.iter (fun kv ->
      match String.split_on_char '=' kv with
      | ["ms"; v] -> ms := int_of_string v
      | ["hl"; v] -> hl := int_of_string v
      | ["mb"; v] -> mb := int_of_string v
      | ["rt"; v] -> rt := int_of_string v
      | ["ct"; v] -> ct := int_of_string v
      | _ -> ()) (String.split_on_char ',' s);
  (* what the user hands over (harness/cmd/h2v/server.go rawConfig) goes through the model of the configuration glue *)
  let (and_config, u) = raw_user !ms !hl !mb !rt !ct in
  srv_serve_config and_config u

(* Settings.Reset + Read as far as the server looks at it: table size, hasWindowSize, windowSize *)
let settings_view (s : string) : bool * n * bool * n =
  let table = ref 4096 and hastable = ref false and haswin = ref false and win = ref 65535 in
  if s <> "-" then
    List.iter (fun kv ->
        match String.split_on_char '=' kv with
        | [k; v] ->
          let k = int_of_string k and v = int_of_string v in
          if k = 1 then (hastable := true; table := v)
          else if k = 4 then (haswin := true; win := v)
        | _ -> ()) (String.split_on_char ',' s);
  (!hastable, n_of_int !table, !haswin, n_of_int !win)

let frame_of_tokens (t : string array) : sframe =
  (* F K flags sid payload pad dep weight code inc settings *)
  let k = t.(1).[0] in
  let flags = int_of_string ("0x" ^ t.(2)) in
  let sid = (int_of_string t.(3)) land 0x7fffffff in
  let payload = bytes_of_hex t.(4) in
  let plen = List.length payload in
  let pad = if t.(5) = "-" then -1 else int_of_string t.(5) in
  let dep = if t.(6) = "-" then -1 else int_of_string t.(6) in
  let code = int_of_string t.(8) and inc = int_of_string t.(9) in
  let nsettings = if t.(10) = "-" then 0 else List.length (String.split_on_char ',' t.(10)) in
  let padbytes = if pad >= 0 then 1 + pad else 0 in
  let len = match k with
    | 'D' -> plen + padbytes
    | 'H' -> plen + padbytes + (if dep >= 0 then 5 else 0)
    | 'U' -> plen + padbytes + 4
    | 'C' | 'G' -> plen
    | 'P' -> 5 | 'R' -> 4 | 'W' -> 4
    | 'S' -> 6 * nsettings
    | 'A' -> 8 + plen
    | _ -> 0 in
  let (hastbl, tbl, haswin, win) = settings_view t.(10) in
  let depv = match k with
    | 'H' -> if dep >= 0 then dep land 0x7fffffff else 0
    | 'P' -> dep land 0x7fffffff
    | _ -> 0 in
  { sf_kind = kind_of_char k; sf_flags = n_of_int flags; sf_sid = n_of_int sid; sf_len = n_of_int len;
    sf_payload = payload; sf_dep = n_of_int depv; sf_code = n_of_int code; sf_inc = n_of_int (inc land 0x7fffffff);
    sf_set_hastable = hastbl; sf_set_table = tbl; sf_set_haswin = haswin; sf_set_win = win }

let parse_fields (s : string) : (n list * n list) list =
  if s = "-" || s = "?" then []
  else List.map (fun p ->
      match String.split_on_char ':' p with
      | [k; v] -> (bytes_of_hex k, bytes_of_hex v)
      | _ -> failwith "field") (String.split_on_char ',' s)

let parse_resp (t : string array) : response =
  (* D sid status fields body observed *)
  let status = int_of_string t.(2) in
  let body =
    let b = t.(4) in
    if String.length b >= 2 && String.sub b 0 2 = "b:" then
      BBuffered (bytes_of_hex (String.sub b 2 (String.length b - 2)))
    else begin
      match String.split_on_char ':' b with
      | [_; size; reads] ->
        let rs = if reads = "-" then [] else
            List.map (fun r ->
                match String.split_on_char '/' r with
                | [d; e] -> (bytes_of_hex d, (match e with "n" -> RNil | "e" -> REof | _ -> RFail))
                | _ -> failwith "read") (String.split_on_char ',' reads) in
        BStream (rs, z_of_string size)
      | _ -> failwith "body"
    end in
  { rs_status = n_of_int status; rs_fields = parse_fields t.(5); rs_body = body }

let hexs b = hex_of_bytes b

let fmt_req (sid : n) (r : request) : string =
  let cl = bytes_of_hex "636f6e74656e742d6c656e677468" in
  (* fasthttp keeps one user-agent and one content-type: the last one set *)
  let single = [bytes_of_hex "757365722d6167656e74"; bytes_of_hex "636f6e74656e742d74797065"] in
  let rec last_only (l : (n list * n list) list) =
    match l with
    | [] -> []
    | (k, v) :: t -> if List.mem k single && List.exists (fun (k2, _) -> k2 = k) t then last_only t else (k, v) :: last_only t in
  let fs = List.stable_sort (fun (a, _) (b, _) -> compare (hexs a) (hexs b))
      (last_only (List.filter (fun (k, _) -> k <> cl) r.rq_fields)) in
  (* sort by the name string, not its hex: hex of ASCII preserves the order *)
  let fields = if fs = [] then "-" else
      String.concat "," (List.map (fun (k, v) -> hexs k ^ "=" ^ hexs v) fs) in
  let host = match r.rq_authority with Some h when h <> [] -> hexs h | _ -> "-" in
  Printf.sprintf "X%d:%s:%s:%s:%s:%s:%s" (int_of_n sid) (hexs r.rq_method) (hexs r.rq_uri) (hexs r.rq_scheme)
    host fields (hexs r.rq_body)

let b2i b = if b then 1 else 0

let rec fmt_out (o : outev) : string option =
  match o with
  | OHeaders (sid, es, blk) -> Some (Printf.sprintf "H%d:%d:%s" (int_of_n sid) (b2i es) (hexs blk))
  | OData (sid, es, p) -> Some (Printf.sprintf "D%d:%d:%s" (int_of_n sid) (b2i es) (hexs p))
  | ORst (sid, code) -> Some (Printf.sprintf "R%d:%d" (int_of_n sid) (int_of_n code))
  | OGoAway (last, code) -> Some (Printf.sprintf "G%d:%d" (int_of_n last) (int_of_n code))
  | OWinUpd (sid, inc) -> Some (Printf.sprintf "W%d:%s" (int_of_n sid) (dec_of_zc inc))
  | OSettingsAck -> Some "SA"
  | OPingAck d -> Some ("PA" ^ hexs d)
  | ODispatch (sid, rq) -> Some (fmt_req sid rq)
  | ORelease _ -> None
  | OExit _ -> None
  | OLate _ -> None
  | OPanic _ -> Some "!panic"

let run_srv (line_parts : string list) : string =
  let parts = split_on_string " | " (String.concat " " line_parts) in
  match parts with
  | [] -> "?"
  | head :: evs ->
    let cfg = parse_cfg head in
    let now = ref 0 in
    let st = ref (init_conn cfg srv_init_hpack) in
    let seen = ref 0 in
    let groups = ref [] in
    let closed = ref false in
    let gated = ref false in
    let closed_gated = ref false in
    let maxh = ref 0 in
    let step e =
      st := srv_step cfg !st e;
      let running = List.length (List.filter (fun s -> s.st_handlerRunning) (!st).sc_strms)
                    + List.length (!st).sc_gone in
      if running > !maxh then maxh := running in
    let sl_exited () = (!st).sc_sl_done in
    let rl_exited () = (!st).sc_rl_done in
    let flush_group (extra : string list) (show_gauges : bool) =
      let out = List.rev (!st).sc_out in
      let fresh = List.filteri (fun i _ -> i >= !seen) out in
      seen := List.length out;
      let frames = List.filter_map (fun o -> match o with ODispatch _ -> None | _ -> fmt_out o) fresh in
      let disp_items = List.filter (fun o -> match o with ODispatch _ -> true | _ -> false) fresh in
      let sid_of o = match o with ODispatch (sid, _) -> int_of_n sid | _ -> 0 in
      let disp = List.filter_map fmt_out (List.stable_sort (fun a b -> compare (sid_of a) (sid_of b)) disp_items) in
      let g = if show_gauges then
          [Printf.sprintf "g%d,%s,%d,%s,%s" (List.length (!st).sc_strms) (dec_of_zc (!st).sc_open) (List.length (!st).sc_ring)
             (dec_of_zc (!st).sc_currentWindow) (dec_of_zc (!st).sc_clientWindow)]
        else [] in
      groups := String.concat ";" (frames @ disp @ extra @ g) :: !groups in
    let nudge = { sf_kind = KWinUpd; sf_flags = N0; sf_sid = N0; sf_len = n_of_int 4; sf_payload = [];
                  sf_dep = N0; sf_code = N0; sf_inc = n_of_int 1; sf_set_hastable = false; sf_set_table = n_of_int 4096;
                  sf_set_haswin = false; sf_set_win = n_of_int 65535 } in
    (* a burst "M f ~ f ~ ..." is replayed frame by frame (only used where the outcome does not depend on the schedule) *)
    let evs = List.concat_map (fun ev ->
        let ev = String.trim ev in
        if String.length ev > 2 && String.sub ev 0 2 = "M " then
          let fs = split_on_string " ~ " (String.sub ev 2 (String.length ev - 2)) in
          List.mapi (fun i f -> if i = List.length fs - 1 then "MF " ^ f else "Mf " ^ f) fs
        else [ev]) evs in
    let in_burst = ref false in
    let skip_burst_rest = ref false in   (* the connection went in the middle of the burst being replayed *)
    List.iter (fun ev ->
        if String.length ev > 3 && String.sub ev 0 3 = "Mf " && !closed then ()
        else if String.length ev > 3 && String.sub ev 0 3 = "MF " && !closed && !skip_burst_rest then skip_burst_rest := false
        else
        if !closed then begin
          if String.trim ev = "RS" && !closed_gated then begin
            (* the stream loop is let go after the connection went: it works through its queue *)
            closed_gated := false;
            let before = List.length (List.filter (fun o -> match o with ODispatch _ -> true | _ -> false) (!st).sc_out) in
            let rec drain k = if k > 0 && (!st).sc_readerQ <> [] && not (!st).sc_sl_done then (step EvSL; drain (k - 1)) in
            drain 100000;
            let after = List.length (List.filter (fun o -> match o with ODispatch _ -> true | _ -> false) (!st).sc_out) in
            let items = List.init (after - before) (fun _ -> "Xlate") in
            groups := String.concat ";" (items @ ["E"]) :: !groups
          end else groups := "-" :: !groups
        end else begin
          let t = Array.of_list (List.filter (fun x -> x <> "") (String.split_on_char ' ' ev)) in
          let t = if t.(0) = "Mf" || t.(0) = "MF" then (in_burst := (t.(0) = "Mf"); Array.sub t 1 (Array.length t - 1)) else (in_burst := false; t) in
          (match t.(0) with
           | "GS" ->
             step (EvRL (RFrame nudge)); step EvSL; gated := true
           | "RS" ->
             gated := false;
             let rec drain k = if k > 0 && (!st).sc_readerQ <> [] && not (!st).sc_sl_done then (step EvSL; drain (k - 1)) in
             drain 100000
           | "F" ->
             step (EvRL (RFrame (frame_of_tokens t)));
             if not !gated then step EvSL
           | "B" ->
             let cls = t.(2) in
             let i = if cls = "unknown" then RUnknownType
               else if String.length cls > 7 && String.sub cls 0 7 = "goaway:" then
                 RBadFrame (Some (n_of_int (int_of_string (String.sub cls 7 (String.length cls - 7)))))
               else RBadFrame None in
             step (EvRL i);
             if not !gated then step EvSL
           | "D" ->
             step (EvDone (n_of_int (int_of_string t.(1)), parse_resp t))
           | "T" ->
             (* the harness waited the request timeout out: every stream open now is due *)
             now := !now + rt_of_head head + 1;
             step (EvClock (z_of_int !now));
             step EvTimer
           | "I" ->
             (* the idle timer fires: GOAWAY(NO_ERROR), closer closed; the stream loop sees it *)
             step EvIdle;
             step EvCloser
           | "E" ->
             step (EvRL RLEof);
             step EvSL
           | _ -> ());
          if !in_burst && not (sl_exited () || rl_exited ()) then ()
          else
          if t.(0) = "E" then begin
            closed := true;
            groups := "RET" :: !groups
          end else if sl_exited () || rl_exited () then begin
            (* the server is on its way out: the connection gets closed *)
            closed := true;
            skip_burst_rest := !in_burst;
            closed_gated := !gated;
            flush_group ["E"; "RET"] false
          end else flush_group [] true
        end) evs;
    String.concat " / " (List.rev !groups) ^ Printf.sprintf " !maxhandlers=%d" !maxh ^ " !hs=" ^ handshake_of_head head

let () =
  register "srv" (fun args -> (run_srv args, "-"))
