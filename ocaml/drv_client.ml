(* Client connection-grain scenarios: replays the event list through the extracted
   client model in lockstep and prints, per event, what the model says the scripted
   server and the callers observe. Line format: see harness/cmd/h2v/client.go. *)
open Model
open Drv_common

let c_split_on_string (sep : string) (s : string) : string list =
  let ls = String.length sep and n = String.length s in
  let rec go start i acc =
    if i + ls > n then List.rev (String.sub s start (n - start) :: acc)
    else if String.sub s i ls = sep then go (i + ls) (i + ls) (String.sub s start (i - start) :: acc)
    else go start (i + 1) acc in
  go 0 0 []

(* g<len>.<seed>: the same pattern as genBytes in client.go *)
let gen_bytes (n : int) (seed : int) : n list =
  List.init n (fun i -> n_of_int ((i * 131 + seed * 17 + (i / 256) * 29) mod 251))

let blob_of (s : string) : n list =
  if String.length s > 0 && s.[0] = 'g' then
    match String.split_on_char '.' (String.sub s 1 (String.length s - 1)) with
    | [l; seed] -> gen_bytes (int_of_string l) (int_of_string seed)
    | _ -> failwith "blob"
  else bytes_of_hex s

(* how payloads and bodies appear in result lines *)
let proj (b : n list) : string =
  let l = List.length b in
  if l <= 48 then hex_of_bytes b
  else begin
    let h = ref 0xcbf29ce484222325L in
    List.iter (fun x -> h := Int64.mul (Int64.logxor !h (Int64.of_int (int_of_n x))) 0x100000001b3L) b;
    Printf.sprintf "#%d.%016Lx" l !h
  end

let c_kind_of_char = function
  | 'D' -> KData | 'H' -> KHeaders | 'P' -> KPriority | 'R' -> KRst | 'S' -> KSettings
  | 'U' -> KPush | 'G' -> KPing | 'A' -> KGoAway | 'W' -> KWinUpd | 'C' -> KCont
  | _ -> failwith "kind"

let settings_payload (s : string) : n list =
  if s = "-" then []
  else List.concat_map (fun kv ->
      match String.split_on_char '=' kv with
      | [k; v] ->
        let k = int_of_string k and v = int_of_string v in
        List.map n_of_int [ (k lsr 8) land 255; k land 255; (v lsr 24) land 255; (v lsr 16) land 255; (v lsr 8) land 255; v land 255 ]
      | _ -> failwith "setting") (String.split_on_char ',' s)

let c_parse_fields (s : string) : (n list * n list) list =
  if s = "-" || s = "?" then []
  else List.map (fun p ->
      match String.split_on_char ':' p with
      | [k; v] -> (bytes_of_hex k, bytes_of_hex v)
      | _ -> failwith "field") (String.split_on_char ',' s)

(* what the client's ReadFrameFrom makes of a frame from the scripted server *)
let input_of_tokens (t : string array) : rl_input =
  (* F K flags sid payload pad dep weight code inc settings *)
  let k = t.(1).[0] in
  let flags = int_of_string ("0x" ^ t.(2)) in
  let sid = (int_of_string t.(3)) land 0x7fffffff in
  let payload = blob_of t.(4) in
  let plen = List.length payload in
  let pad = if t.(5) = "-" then -1 else int_of_string t.(5) in
  let dep = if t.(6) = "-" then -1 else int_of_string t.(6) in
  let code = int_of_string t.(8) and inc = int_of_string t.(9) in
  let spl = settings_payload t.(10) in
  let padbytes = if pad >= 0 then 1 + pad else 0 in
  let len = match k with
    | 'D' -> plen + padbytes
    | 'H' -> plen + padbytes + (if dep >= 0 then 5 else 0)
    | 'U' -> plen + padbytes + 4
    | 'C' | 'G' -> plen
    | 'P' -> 5 | 'R' -> 4 | 'W' -> 4
    | 'S' -> List.length spl
    | 'A' -> 8 + plen
    | _ -> 0 in
  if len > 16384 then RBadFrame None       (* ErrPayloadExceeds: the client advertises the default frame size *)
  else if k = 'G' && plen <> 8 then RBadFrame None
  else
    let depv = match k with
      | 'H' -> if dep >= 0 then dep land 0x7fffffff else 0
      | 'P' | 'A' | 'U' -> dep land 0x7fffffff
      | _ -> 0 in
    RFrame { sf_kind = c_kind_of_char k; sf_flags = n_of_int flags; sf_sid = n_of_int sid; sf_len = n_of_int len;
             sf_payload = (if k = 'S' then spl else payload); sf_dep = n_of_int depv; sf_code = n_of_int code;
             sf_inc = n_of_int (inc land 0x7fffffff);
             sf_set_hastable = false; sf_set_table = n_of_int 0; sf_set_haswin = false; sf_set_win = n_of_int 0 }

let parse_req (t : string array) : crequest =
  (* S tag q host method path scheme ua fields body *)
  let body =
    let b = t.(9) in
    if String.length b >= 2 && String.sub b 0 2 = "b:" then CBuf (blob_of (String.sub b 2 (String.length b - 2)))
    else begin
      match String.split_on_char ':' b with
      | [_; size; reads] ->
        let rs = if reads = "-" then [] else
            List.map (fun r ->
                match String.split_on_char '/' r with
                | [d; e] -> (blob_of d, (match e with "n" -> RNil | "e" -> REof | _ -> RFail))
                | _ -> failwith "read") (String.split_on_char ',' reads) in
        CStream (rs, zc_of_dec size)
      | _ -> failwith "body"
    end in
  { cq_host = bytes_of_hex t.(3); cq_method = bytes_of_hex t.(4); cq_path = bytes_of_hex t.(5); cq_scheme = bytes_of_hex t.(6);
    cq_ua = bytes_of_hex t.(7); cq_fields = c_parse_fields t.(8); cq_body = body }

let cb2i b = if b then 1 else 0

let err_class (e : cerr) : string =
  match e with
  | CENil -> "nil" | CETimeout -> "timeout" | CEGoAway -> "goaway" | CEConnClosed -> "closed"
  | CENoStreams -> "nostreams" | CENoIDs -> "noids" | CEReset c -> Printf.sprintf "reset%d" (int_of_n c)
  | CEMalformed -> "malformed" | CEConn -> "conn" | CEWrite -> "write" | CEBody -> "body"

let lower (b : n list) : n list =
  List.map (fun x -> let c = int_of_n x in if c >= 65 && c <= 90 then n_of_int (c + 32) else x) b

let resp_view (r : cresponse) : string =
  let status = let s = int_of_z r.cr_status in if s = 0 then 200 else s in
  let cl = if int_of_z r.cr_cl = -3 then "0" else dec_of_zc r.cr_cl in
  let fs = List.stable_sort (fun (a, _) (b, _) -> compare (hex_of_bytes a) (hex_of_bytes b))
      (List.map (fun (k, v) -> (lower k, v)) r.cr_fields) in
  let fields = if fs = [] then "-" else
      String.concat "," (List.map (fun (k, v) -> hex_of_bytes k ^ "=" ^ hex_of_bytes v) fs) in
  Printf.sprintf "%d:%s:%s:%s" status cl fields (proj (List.concat r.cr_body))

let run_cli (line_parts : string list) : string =
  let parts = c_split_on_string " | " (String.concat " " line_parts) in
  match parts with
  | [] -> "?"
  | head :: evs ->
    let first = ref [] and arm = ref false in
    List.iter (fun kv ->
        match String.split_on_char '=' kv with
        | "S" :: rest -> first := settings_payload (String.concat "=" rest)
        | ["arm"; v] -> arm := (v = "1")
        | _ -> ()) (String.split_on_char ' ' head);
    let cfg = { ccf_armTimers = !arm; ccf_disableAcks = false } in
    let st = ref (cli_init !first) in
    let seen = ref 0 in
    let groups = ref ["hs:" ^ hex_of_bytes cli_preface ^ ":"
                      ^ (match cli_handshake_frames with Ok b -> hex_of_bytes b | Err _ -> "err" | Panic _ -> "panic")] in
    let hung = ref false in
    let close_called = ref false and timer_gate = ref false and wl_held = ref false in
    let step e = st := cli_step cfg !st e in
    let wl_live () = not (!st).cc_wl_done && not (!st).cc_wl_stuck in
    let rl_live () = not (!st).cc_rl_done && not (!st).cc_rl_stuck in
    (* run the loops until nothing is ready: the lockstep schedule *)
    let settle (order : n list) =
      let continue = ref true and fuel = ref 10000 in
      while !continue && !fuel > 0 do
        decr fuel;
        if not !wl_held && wl_live () && (!st).cc_inQ <> [] then step CEvWLIn
        else if not !wl_held && wl_live () && (!st).cc_outQ <> [] then step CEvWLOut
        else if not !wl_held && wl_live () && (!st).cc_winCh then step (CEvWLWin order)
        else if not !wl_held && wl_live () && (!st).cc_closed then step CEvWLDone
        else if rl_live () && (!st).cc_netClosed then step (CEvRL RLEof)
        else continue := false
      done in
    List.iter (fun ev ->
        if !hung then groups := "-" :: !groups
        else begin
          let t0 = List.filter (fun x -> x <> "") (String.split_on_char ' ' ev) in
          (* the trailing o=... is the observed order of pendingIDs *)
          let order, t0 =
            match List.rev t0 with
            | last :: rest when String.length last > 2 && String.sub last 0 2 = "o=" ->
              (List.map (fun x -> n_of_int (int_of_string x)) (String.split_on_char ',' (String.sub last 2 (String.length last - 2))),
               List.rev rest)
            | _ -> ([], t0) in
          let t = Array.of_list t0 in
          let recv_tag = ref (-1) in
          (match t.(0) with
           | "S" ->
             step (CEvSubmit (n_of_int (int_of_string t.(1)), parse_req t, t.(2) = "1"));
             step (CEvSubmitCheck (n_of_int (int_of_string t.(1))))
           | "S1" -> step (CEvSubmit (n_of_int (int_of_string t.(1)), parse_req t, t.(2) = "1"))
           | "S2" -> step (CEvSubmitCheck (n_of_int (int_of_string t.(1))))
           | "F" -> step (CEvRL (input_of_tokens t))
           | "B" ->
             (match t.(2) with
              | "unknown" -> step (CEvRL RUnknownType)
              | "bad" -> step (CEvRL (RBadFrame None))
              | _ -> step CEvWriteFail; step (CEvRL RLEof))
           | "E" -> step CEvWriteFail; step (CEvRL RLEof)
           | "X" -> step CEvWriteFail
           | "R" -> recv_tag := int_of_string t.(1); step (CEvReceive (n_of_int !recv_tag))
           | "T" ->
             if not !timer_gate then begin
               step (CEvTimeout (n_of_int (int_of_string t.(1))));
               step (CEvTimeoutCancel (n_of_int (int_of_string t.(1))))
             end
           | "T1" ->
             if not !timer_gate then begin
               let before = !st in
               step (CEvTimeout (n_of_int (int_of_string t.(1))));
               (* the gate is only set when the timer really goes off *)
               if !st <> before then timer_gate := true
             end
           | "T2" ->
             if !timer_gate then begin
               let before = !st in
               step (CEvTimeoutCancel (n_of_int (int_of_string t.(1))));
               if !st <> before then timer_gate := false
             end
           | "C" ->
             if not !close_called then begin close_called := true; step CEvClose; step CEvCloseNet end
           | "C1" ->
             if not !close_called then begin close_called := true; step CEvClose end
           | "C2" -> step CEvCloseNet
           | "HW" ->
             (* a PING from the server; its acknowledgement takes the write loop round to the gate *)
             if not !wl_held then begin
               let payload = bytes_of_hex t.(1) in
               if List.length payload = 8 then begin
                 step (CEvRL (RFrame { sf_kind = KPing; sf_flags = n_of_int 0; sf_sid = n_of_int 0; sf_len = n_of_int 8; sf_payload = payload;
                                       sf_dep = n_of_int 0; sf_code = n_of_int 0; sf_inc = n_of_int 0;
                                       sf_set_hastable = false; sf_set_table = n_of_int 0; sf_set_haswin = false; sf_set_win = n_of_int 0 }));
                 settle order;
                 wl_held := true
               end
             end
           | "RW" ->
             if !wl_held then begin
               wl_held := false;
               (* the cases the write loop's select took before it took done, as observed *)
               let counts = if Array.length t > 1 && String.length t.(1) > 2 then
                   List.map int_of_string (String.split_on_char ',' (String.sub t.(1) 2 (String.length t.(1) - 2))) else [] in
               (match counts with
                | [a; b; c] ->
                  for _ = 1 to a do step CEvWLIn done;
                  for _ = 1 to b do step CEvWLOut done;
                  for _ = 1 to c do step (CEvWLWin order) done;
                  if (!st).cc_closed then step CEvWLDone
                | _ -> ())
             end
           | _ -> ());
          settle order;
          let out = List.rev (!st).cc_out in
          let fresh = List.filteri (fun i _ -> i >= !seen) out in
          seen := List.length out;
          let direct = List.filter_map (fun o -> match o with
              | COHeaders (sid, es, blk) -> Some (Printf.sprintf "H%d:%d:%s" (int_of_n sid) (cb2i es) (hex_of_bytes blk))
              | COData (sid, es, p) -> Some (Printf.sprintf "D%d:%d:%s" (int_of_n sid) (cb2i es) (proj p))
              | CORst (sid, code) when int_of_n code = 2 -> Some (Printf.sprintf "R%d:2" (int_of_n sid))
              | _ -> None) fresh in
          let queued = List.filter_map (fun o -> match o with
              | CORst (sid, code) when int_of_n code <> 2 -> Some (Printf.sprintf "R%d:%d" (int_of_n sid) (int_of_n code))
              | COWinUpd (sid, inc) -> Some (Printf.sprintf "W%d:%s" (int_of_n sid) (dec_of_zc inc))
              | COSettingsAck -> Some "SA"
              | COPing -> Some "P"
              | COPingAck d -> Some ("PA" ^ hex_of_bytes d)
              | COGoAway (last, code) -> Some (Printf.sprintf "G%d:%d" (int_of_n last) (int_of_n code))
              | _ -> None) fresh in
          let stuck = List.exists (fun o -> match o with COSelfDeadlock _ | COBlocked _ -> true | _ -> false) fresh in
          let results = List.filter_map (fun o -> match o with
              | COResult (tag, retry, e, resp) ->
                let pooled = List.exists (fun o2 -> match o2 with COPoolPut t2 -> t2 = tag | _ -> false) fresh in
                Some (Printf.sprintf "r%d:%d:%s:%s:%d" (int_of_n tag) (cb2i retry) (err_class e) (resp_view resp) (cb2i pooled))
              | _ -> None) fresh in
          let results =
            if !recv_tag >= 0 && results = [] then
              [Printf.sprintf "r%d:%s" !recv_tag (if stuck then "stuck" else "none")]
            else results in
          let panics = List.filter_map (fun o -> match o with COPanic _ -> Some "!panic" | _ -> None) fresh in
          let tail =
            if stuck then (hung := true; ["HANG"])
            else begin
              let s = !st in
              if s.cc_rl_done || s.cc_wl_done then [Printf.sprintf "x%d%d" (cb2i s.cc_rl_done) (cb2i s.cc_wl_done)]
              else [Printf.sprintf "g%s,%d,%d,%s,%s,%d,%d,%d,%d" (dec_of_zc s.cc_open) (List.length s.cc_reqQueued)
                      (List.length s.cc_pending) (dec_of_zc s.cc_connWindow) (dec_of_zc s.cc_streamWindow)
                      (int_of_n s.cc_nextID) (int_of_n s.cc_maxStreams) (int_of_n s.cc_maxFrame) (cb2i s.cc_goAway)]
            end in
          groups := String.concat ";" (direct @ queued @ results @ panics @ tail) :: !groups
        end) evs;
    String.concat " / " (List.rev !groups)

let () =
  register "cli" (fun args -> (run_cli args, "-"))
