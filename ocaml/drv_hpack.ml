(* HPACK ops (C03 decoder, C04 encoder). Case-line formats are documented in
   harness/cmd/h2v/hpack.go; both sides print the same canonical result strings. *)
open Model
open Drv_common

(* ---------- canonical printing ---------- *)

let fld_str k v s = hex_of_bytes k ^ ":" ^ hex_of_bytes v ^ ":" ^ str_of_bool s
let field_str (f : field) = fld_str f.f_key f.f_value f.f_sens
let join sep = function [] -> "-" | l -> String.concat sep l
let fields_str (fs : field list) = join "," (List.map field_str fs)
let hfields_str (fs : hfield list) = join "," (List.map (fun ((k, v), s) -> fld_str k v s) fs)

(* entries oldest first *)
let tbl_str entries mx set =
  "dyn=" ^ join "," (List.map (fun (k, v, s) -> hex_of_bytes k ^ ":" ^ hex_of_bytes v ^ (if s then "!" else "")) entries)
  ^ "/max=" ^ dec_of_n mx ^ "/set=" ^ dec_of_n set

let hp_tbl (hp : hpack_state) =
  tbl_str (List.map (fun f -> (f.f_key, f.f_value, f.f_sens)) hp.h_dynamic) hp.h_max hp.h_max_settings
let hp_enc_tbl (hp : hpack_state) =
  hp_tbl hp ^ "/pend=" ^ str_of_bool hp.h_pending ^ "/pmin=" ^ dec_of_n hp.h_pending_min
let dt_tbl (t : dtable) =
  tbl_str (List.rev_map (fun (k, v) -> (k, v, false)) t.dt_entries) t.dt_max t.dt_limit

let err_name (c : n) = match int_of_n c with
  | 1 -> "huff1" | 2 -> "huff2" | 3 -> "huff3"
  | 10 -> "size" | 11 -> "overflow" | 13 -> "notfound" | 14 -> "dynupd" | 15 -> "dynmax"
  | 20 -> "compression" | 21 -> "incomplete"
  | k -> "class" ^ string_of_int k

let split_on c s = String.split_on_char c s

let parse_field (tok : string) : field =
  match split_on ':' tok with
  | [k; v; s] -> { f_key = bytes_of_hex k; f_value = bytes_of_hex v; f_sens = bool_of_str s }
  | _ -> failwith ("bad field token " ^ tok)

(* <H|C><e|n>:<hex> *)
let parse_frame (tok : string) : hdr_frame =
  let cont = tok.[0] = 'C' and endh = tok.[1] = 'e' in
  ((bytes_of_hex (String.sub tok 3 (String.length tok - 3)), endh), cont)

let dec_init limit = set_max_table_size (hpack_init false false) limit

(* ---------- decoder ops ---------- *)

let dechist_model limit blocks =
  let rec go hp bs acc = match bs with
    | [] -> List.rev acc
    | b :: r ->
      (match block_decode hp b with
       | Ok (fs, hp') -> go hp' r (("ok " ^ fields_str fs ^ " " ^ hp_tbl hp') :: acc)
       | Err _ -> List.rev ("err" :: acc)
       | Panic w -> List.rev (("panic " ^ dec_of_n w) :: acc)) in
  String.concat " ; " (go (dec_init limit) blocks [])

let dechist_spec limit blocks =
  let rec go t bs acc = match bs with
    | [] -> List.rev acc
    | b :: r ->
      (match spec_decode_block t b with
       | Some (fs, t') -> go t' r (("ok " ^ hfields_str fs ^ " " ^ dt_tbl t') :: acc)
       | None -> List.rev ("err" :: acc)) in
  String.concat " ; " (go (dtable_init limit) blocks [])

(* group frames into blocks: HEADERS, CONTINUATION*, the last one with END_HEADERS *)
let blocks_of_frames (frs : hdr_frame list) : n list list option =
  let rec go cur inblock frs acc = match frs with
    | [] -> if inblock then None else Some (List.rev acc)
    | ((p, endh), cont) :: r ->
      if cont <> inblock then None
      else
        let cur' = cur @ p in
        if endh then go [] false r (cur' :: acc) else go cur' true r acc in
  go [] false frs []

let () =
  register "dechist" (fun a ->
      let limit = n_of_dec (List.hd a) in
      let blocks = List.map bytes_of_hex (List.tl a) in
      (dechist_model limit blocks, dechist_spec limit blocks));
  register "decframes" (fun a ->
      let limit = n_of_dec (List.hd a) in
      let frs = List.map parse_frame (List.tl a) in
      let m = match block_decode_frames (dec_init limit) frs with
        | Ok (fs, hp') -> "ok " ^ fields_str fs ^ " " ^ hp_tbl hp'
        | Err _ -> "err"
        | Panic w -> "panic " ^ dec_of_n w in
      let s = match blocks_of_frames frs with
        | None -> "-"
        | Some blocks ->
          let rec go t bs acc = match bs with
            | [] -> "ok " ^ hfields_str acc ^ " " ^ dt_tbl t
            | b :: r -> (match spec_decode_block t b with
                | Some (fs, t') -> go t' r (acc @ fs)
                | None -> "err") in
          go (dtable_init limit) blocks [] in
      (m, s));
  register "readint" (fun a ->
      let nb = n_of_dec (List.nth a 0) and b = bytes_of_hex (List.nth a 1) in
      let m = match read_int nb b with
        | Ok (rest, v) -> "ok " ^ dec_of_n v ^ " " ^ hex_of_bytes rest
        | Err c -> "err " ^ err_name c
        | Panic w -> "panic " ^ dec_of_n w in
      let s = match spec_dec_int nb b with
        | Some (v, rest) -> "ok " ^ dec_of_n v ^ " " ^ hex_of_bytes rest
        | None -> "err" in
      (m, s));
  register "readstr" (fun a ->
      let b = bytes_of_hex (List.nth a 0) in
      let m = match read_string b with
        | Ok (rest, s) -> "ok " ^ hex_of_bytes s ^ " " ^ hex_of_bytes rest
        | Err c -> "err " ^ err_name c
        | Panic w -> "panic " ^ dec_of_n w in
      let s = match spec_dec_str b with
        | Some ((_, s), rest) -> "ok " ^ hex_of_bytes s ^ " " ^ hex_of_bytes rest
        | None -> "err" in
      (m, s));
  (* nextfield <limit> <blockStart> <fieldsProcessed> <hf k:v:s> <np> <prelude block>*np <hex> *)
  register "nextfield" (fun a ->
      let limit = n_of_dec (List.nth a 0) in
      let bs = bool_of_str (List.nth a 1) in
      let fp = n_of_dec (List.nth a 2) in
      let hf = parse_field (List.nth a 3) in
      let np = int_of_string (List.nth a 4) in
      let rest = List.filteri (fun i _ -> i >= 5) a in
      let prelude = List.map bytes_of_hex (List.filteri (fun i _ -> i < np) rest) in
      let b = bytes_of_hex (List.nth rest np) in
      let rec pre hp = function
        | [] -> Some hp
        | p :: r -> (match block_decode hp p with Ok (_, hp') -> pre hp' r | _ -> None) in
      match pre (dec_init limit) prelude with
      | None -> ("prelude-err", "-")
      | Some hp ->
        let o = next_field hp hf bs fp b in
        let r = match o.nf_res with
          | Ok (rest, d) -> "ok " ^ hex_of_bytes rest ^ " " ^ str_of_bool d
          | Err c -> "err " ^ err_name c
          | Panic w -> "panic " ^ dec_of_n w in
        (r ^ " hf=" ^ field_str o.nf_hf ^ " " ^ hp_tbl o.nf_hp, "-"))

(* ---------- encoder ops ---------- *)

type eop = ESet of n | EBlock of (field * bool) list

(* tokens: S<n> | B | F<k>:<v>:<store>:<sens> ; a block is B followed by its F tokens *)
let parse_eops (toks : string list) : eop list =
  let flush cur acc = match cur with None -> acc | Some fs -> EBlock (List.rev fs) :: acc in
  let rec go toks cur acc = match toks with
    | [] -> List.rev (flush cur acc)
    | t :: r ->
      let body = String.sub t 1 (String.length t - 1) in
      (match t.[0] with
       | 'S' -> go r None (ESet (n_of_dec body) :: flush cur acc)
       | 'B' -> go r (Some []) (flush cur acc)
       | 'F' ->
         (match split_on ':' body with
          | [k; v; st; se] ->
            let f = { f_key = bytes_of_hex k; f_value = bytes_of_hex v; f_sens = bool_of_str se } in
            let cur' = match cur with None -> Some [ (f, bool_of_str st) ] | Some fs -> Some ((f, bool_of_str st) :: fs) in
            go r cur' acc
          | _ -> failwith "bad F token")
       | _ -> failwith ("bad enc token " ^ t)) in
  go toks None []

let rec n_min = function [] -> failwith "n_min" | [x] -> x | x :: r -> let m = n_min r in if N.ltb x m then x else m
let rec last = function [] -> failwith "last" | [x] -> x | _ :: r -> last r

let rec leading_updates = function SizeUpdate k :: r -> k :: leading_updates r | _ -> []
let rec drop_updates = function SizeUpdate _ :: r -> drop_updates r | l -> l

(* the spec's verdict on one encoder history, computed on the model's output *)
let enchist_run (nc : bool) (nd : bool) (ops : eop list) : string * string =
  let buf = Buffer.create 256 in
  let viol = ref None in
  let fail s = if !viol = None then viol := Some s in
  let sep () = if Buffer.length buf > 0 then Buffer.add_string buf " ; " in
  let hp = ref (hpack_init nc nd) in
  let dt = ref (dtable_init c_defaultHeaderTableSize) in
  let pend = ref [] in       (* sizes set since the last non-empty block, oldest first *)
  let bi = ref 0 in
  let size_ok () =
    let t = table_size (List.rev_map (fun f -> (f.f_key, f.f_value)) !hp.h_dynamic) in
    if not (N.leb t !dt.dt_limit) then fail (Printf.sprintf "table size %s above the peer's limit %s" (dec_of_n t) (dec_of_n !dt.dt_limit)) in
  List.iter (fun op ->
      match op with
      | ESet k ->
        hp := set_max_table_size !hp k;
        dt := spec_set_limit !dt k;
        pend := !pend @ [ k ];
        size_ok ()
      | EBlock fs ->
        incr bi;
        (match encode_block !hp fs with
         | Err c -> sep (); Buffer.add_string buf ("err " ^ err_name c)
         | Panic w -> sep (); Buffer.add_string buf ("panic " ^ dec_of_n w)
         | Ok (out, hp') ->
           sep ();
           Buffer.add_string buf (hex_of_bytes out ^ " " ^ hp_enc_tbl hp');
           let where = Printf.sprintf "block %d: " !bi in
           (* 1. the block decodes to exactly the input fields, and the tables agree *)
           (match spec_decode_block !dt out with
            | None -> fail (where ^ "rejected by spec_decode_block")
            | Some (got, dt') ->
              let want = List.map (fun (f, _) -> ((f.f_key, f.f_value), f.f_sens)) fs in
              if got <> want then fail (where ^ "decodes to " ^ hfields_str got ^ " instead of " ^ hfields_str want);
              let abs_entries = List.rev_map (fun f -> (f.f_key, f.f_value)) hp'.h_dynamic in
              (* with no field in the block nothing was emitted and a size change is still to be announced *)
              if fs <> [] && (dt'.dt_entries <> abs_entries || dt'.dt_max <> hp'.h_max) then
                fail (where ^ "decoder table " ^ dt_tbl dt' ^ " differs from encoder table " ^ hp_tbl hp');
              (* 2. size updates required by RFC 7541 4.2, 3. sensitive => never indexed *)
              (match spec_parse_block out with
               | None -> fail (where ^ "does not parse")
               | Some rs ->
                 let us = leading_updates rs in
                 let m0 = !dt.dt_max in
                 if List.length us > 2 then fail (where ^ "more than two size updates");
                 if fs <> [] && List.exists (fun k -> k <> m0) !pend then begin
                   if us = [] then fail (where ^ "size changed but no size update at the start of the block")
                   else begin
                     if last us <> last !pend then fail (where ^ "last size update is not the final size");
                     if n_min (m0 :: us) <> n_min (m0 :: !pend) then fail (where ^ "smallest size of the interval not signalled")
                   end
                 end;
                 let frs = drop_updates rs in
                 if List.length frs <> List.length fs then fail (where ^ "representation count differs from field count")
                 else List.iter2 (fun r (f, _) ->
                     if f.f_sens then match r with
                       | Literal (Never, _, _, _, _) -> ()
                       | _ -> fail (where ^ "sensitive field not emitted as a never-indexed literal")) frs fs);
              dt := dt');
           hp := hp';
           if fs <> [] then pend := [];
           size_ok ()))
    ops;
  sep ();
  Buffer.add_string buf ("end " ^ hp_enc_tbl !hp);
  let m = Buffer.contents buf in
  (m, match !viol with None -> "sat " ^ m | Some v -> "viol " ^ v)

let () =
  (* enchist <dc><dd> <op>... *)
  register "enchist" (fun a ->
      let fl = List.hd a in
      enchist_run (fl.[0] = '1') (fl.[1] = '1') (parse_eops (List.tl a)));
  (* appendint <bits> <dst> <index> *)
  register "appendint" (fun a ->
      let bits = n_of_dec (List.nth a 0) and dst = bytes_of_hex (List.nth a 1) and v = n_of_dec (List.nth a 2) in
      let m = match append_int dst bits v with
        | Ok d -> hex_of_bytes d | Err c -> "err " ^ err_name c | Panic w -> "panic " ^ dec_of_n w in
      let s = match dst with
        | [ p ] when int_of_n p land ((1 lsl int_of_n bits) - 1) = 0 -> hex_of_bytes (spec_enc_int bits p v)
        | [] -> hex_of_bytes (spec_enc_int bits N0 v)
        | _ -> "-" in
      (m, s));
  (* appendstr <dst> <src> <huffman> *)
  register "appendstr" (fun a ->
      let dst = bytes_of_hex (List.nth a 0) and src = bytes_of_hex (List.nth a 1) and h = bool_of_str (List.nth a 2) in
      let m = match append_string dst src h with
        | Ok d -> hex_of_bytes d | Err c -> "err " ^ err_name c | Panic w -> "panic " ^ dec_of_n w in
      (m, hex_of_bytes (dst @ spec_enc_str h src)))
