open Model
open Drv_common

let () =
  register "henc" (fun a ->
      let s = bytes_of_hex (List.nth a 0) in
      (hex_of_bytes (huffman_encode s), hex_of_bytes (spec_encode s)));
  register "hdec" (fun a ->
      let b = bytes_of_hex (List.nth a 0) in
      let m = match huffman_decode b with
        | Ok s -> "ok " ^ hex_of_bytes s
        | Err _ -> "err"
        | Panic w -> "panic " ^ string_of_int (int_of_n w) in
      (* spec oracle: b is valid iff re-encoding the decoded string gives b back;
         computed from the model's candidate (decode_exact makes this the spec verdict) *)
      let s = match huffman_decode b with
        | Ok s -> if spec_encode s = b then "ok " ^ hex_of_bytes s else "err"
        | _ -> "err" in
      (m, s))
