package main

// Scenario generation for the server connection-grain suites.

import (
	"encoding/binary"
	"fmt"
	"strings"

	http2 "github.com/dgrr/http2"
	"golang.org/x/net/http2/hpack"
)

func init() {
	suites["server"] = genServer
	replayers["server"] = func(line string) string { return runServerScenario(parseScenario(line)) }
}

// ---------------------------------------------------------------- a conforming HPACK encoder with free choices

type henc struct {
	r       *rng
	dyn     [][2]string // newest first
	size    int
	max     int
	static  [][2]string
	pending []int // table size updates to announce at the start of the next block
}

func newHenc(r *rng) *henc {
	e := &henc{r: r, max: 4096}
	for _, kv := range http2.VerifStaticTable() {
		e.static = append(e.static, [2]string{string(kv[0]), string(kv[1])})
	}
	return e
}

func appendVarint(dst []byte, prefixBits uint, pattern byte, v uint64) []byte {
	max := uint64(1)<<prefixBits - 1
	if v < max {
		return append(dst, pattern|byte(v))
	}
	dst = append(dst, pattern|byte(max))
	v -= max
	for v >= 128 {
		dst = append(dst, byte(v&127)|128)
		v >>= 7
	}
	return append(dst, byte(v))
}

func (e *henc) str(dst []byte, s string) []byte {
	if e.r.chance(50) {
		h := hpack.AppendHuffmanString(nil, s)
		dst = appendVarint(dst, 7, 0x80, uint64(len(h)))
		return append(dst, h...)
	}
	dst = appendVarint(dst, 7, 0, uint64(len(s)))
	return append(dst, s...)
}

func (e *henc) evict() {
	for e.size > e.max && len(e.dyn) > 0 {
		last := e.dyn[len(e.dyn)-1]
		e.size -= len(last[0]) + len(last[1]) + 32
		e.dyn = e.dyn[:len(e.dyn)-1]
	}
}

func (e *henc) insert(k, v string) {
	e.dyn = append([][2]string{{k, v}}, e.dyn...)
	e.size += len(k) + len(v) + 32
	e.evict()
}

// find returns (full match index, name match index), 0 = none
func (e *henc) find(k, v string) (int, int) {
	full, name := 0, 0
	for i, kv := range e.static {
		if kv[0] == k {
			if name == 0 {
				name = i + 1
			}
			if kv[1] == v && full == 0 {
				full = i + 1
			}
		}
	}
	for i, kv := range e.dyn {
		if kv[0] == k {
			if name == 0 || e.r.chance(50) {
				name = 62 + i
			}
			if kv[1] == v && (full == 0 || e.r.chance(50)) {
				full = 62 + i
			}
		}
	}
	return full, name
}

func (e *henc) field(dst []byte, k, v string, allowIndexing bool) []byte {
	full, name := e.find(k, v)
	if full > 0 && e.r.chance(75) {
		return appendVarint(dst, 7, 0x80, uint64(full))
	}
	useName := name > 0 && e.r.chance(70)
	mode := e.r.intn(100)
	switch {
	case mode < 45 && allowIndexing: // incremental indexing
		if useName {
			dst = appendVarint(dst, 6, 0x40, uint64(name))
		} else {
			dst = append(dst, 0x40)
			dst = e.str(dst, k)
		}
		dst = e.str(dst, v)
		e.insert(k, v)
	case mode < 85: // without indexing
		if useName {
			dst = appendVarint(dst, 4, 0x00, uint64(name))
		} else {
			dst = append(dst, 0x00)
			dst = e.str(dst, k)
		}
		dst = e.str(dst, v)
	default: // never indexed
		if useName {
			dst = appendVarint(dst, 4, 0x10, uint64(name))
		} else {
			dst = append(dst, 0x10)
			dst = e.str(dst, k)
		}
		dst = e.str(dst, v)
	}
	return dst
}

func (e *henc) block(fields [][2]string) []byte {
	var dst []byte
	// table size updates: sometimes shrink and restore, within the 4096 the server allows
	if e.r.chance(8) {
		n := e.r.pick(0, 31, 32, 100, 4096)
		e.max = n
		e.evict()
		dst = appendVarint(dst, 5, 0x20, uint64(n))
		if e.r.chance(50) && n != 4096 {
			e.max = 4096
			dst = appendVarint(dst, 5, 0x20, 4096)
		}
	}
	for _, kv := range fields {
		dst = e.field(dst, kv[0], kv[1], true)
	}
	return dst
}

// ---------------------------------------------------------------- request / scenario generation

type reqPlan struct {
	sid      uint32
	fields   [][2]string
	body     [][]byte // DATA chunks (may be empty chunks)
	trailers [][2]string
	offence  string
}

var pathVocab = []string{"/", "/index.html", "/a", "/a/b?c=d", "/x%20y", "*"}
var nameVocab = []string{"accept", "x-a", "x-b", "x-long-header-name-0123456789", "accept-language", "referer", "x-trace", "cache-control"}
var valVocab = []string{"", "a", "text/html", "v", "0123456789abcdef0123456789abcdef", "gzip, deflate", "no-cache", "x y z"}

func (c *genctx) genFields(method string, withBody bool, bodyLen int) [][2]string {
	r := c.r
	fs := [][2]string{{":method", method}}
	order := r.intn(3)
	scheme := [2]string{":scheme", []string{"https", "http"}[r.intn(2)]}
	path := [2]string{":path", pathVocab[r.intn(len(pathVocab)-1)]}
	switch order {
	case 0:
		fs = append(fs, scheme, path)
	case 1:
		fs = append(fs, path, scheme)
	default:
		fs = [][2]string{scheme, path, {":method", method}}
	}
	if r.chance(70) {
		fs = append(fs, [2]string{":authority", []string{"example.com", "localhost:8080", "h"}[r.intn(3)]})
	}
	n := r.intn(5)
	for i := 0; i < n; i++ {
		fs = append(fs, [2]string{nameVocab[r.intn(len(nameVocab))], valVocab[r.intn(len(valVocab))]})
	}
	if r.chance(25) {
		fs = append(fs, [2]string{"user-agent", "h2v/1"})
	}
	if withBody && r.chance(30) {
		fs = append(fs, [2]string{"content-type", "application/octet-stream"})
	}
	if withBody && r.chance(50) {
		fs = append(fs, [2]string{"content-length", fmt.Sprint(bodyLen)})
	}
	if r.chance(10) {
		fs = append(fs, [2]string{"te", "trailers"})
	}
	return fs
}

func (c *genctx) genBody() [][]byte {
	r := c.r
	if r.chance(45) {
		return nil
	}
	n := 1 + r.intn(3)
	var chunks [][]byte
	for i := 0; i < n; i++ {
		l := r.pick(0, 1, 5, 100, 1000)
		chunks = append(chunks, r.bytes(l))
	}
	return chunks
}

// unit: frames that must stay contiguous
type unit struct {
	evs      []event
	complete bool // after this unit the request is complete (END_STREAM sent)
}

func frameEv(f frameSpec) event {
	return event{kind: 'F', fr: f}
}

func newFrame(kind byte, flags byte, sid uint32) frameSpec {
	return frameSpec{kind: kind, flags: flags, sid: sid, pad: -1, dep: -1}
}

// headerUnit splits a header block over HEADERS + CONTINUATION frames at random bytes
func (c *genctx) headerUnit(sid uint32, block []byte, endStream bool, allowSplit bool) unit {
	r := c.r
	var frags [][]byte
	if allowSplit && r.chance(40) && len(block) > 0 {
		n := 1 + r.intn(3)
		rest := block
		for i := 0; i < n && len(rest) > 0; i++ {
			cut := r.intn(len(rest) + 1)
			frags = append(frags, rest[:cut])
			rest = rest[cut:]
		}
		frags = append(frags, rest)
	} else {
		frags = [][]byte{block}
	}
	var u unit
	for i, fg := range frags {
		last := i == len(frags)-1
		var f frameSpec
		if i == 0 {
			fl := byte(0)
			if endStream {
				fl |= 1
			}
			if last {
				fl |= 4
			}
			f = newFrame('H', fl, sid)
			if r.chance(15) {
				f.flags |= 8
				f.pad = r.pick(0, 1, 7, 255)
			}
			if r.chance(15) {
				f.flags |= 0x20
				f.dep = int64(r.pick(0, 1, 3, int(sid)+2))
				if r.chance(30) {
					f.dep |= 1 << 31 // exclusive bit
				}
				f.weight = byte(r.intn(256))
			}
		} else {
			fl := byte(0)
			if last {
				fl |= 4
			}
			f = newFrame('C', fl, sid)
		}
		f.payload = fg
		u.evs = append(u.evs, frameEv(f))
	}
	u.complete = endStream
	return u
}

func (c *genctx) dataUnit(sid uint32, chunk []byte, end bool) unit {
	fl := byte(0)
	if end {
		fl = 1
	}
	f := newFrame('D', fl, sid)
	f.payload = chunk
	if c.r.chance(15) {
		f.flags |= 8
		f.pad = c.r.pick(0, 1, 9, 255)
	}
	return unit{evs: []event{frameEv(f)}, complete: end}
}

func (c *genctx) genResp() respSpec {
	r := c.r
	rs := respSpec{status: r.pick(200, 200, 204, 404, 500, 299), size: -1}
	for i := r.intn(3); i > 0; i-- {
		rs.fields = append(rs.fields, [2]string{[]string{"x-resp", "x-r2", "etag", "x-long-response-header"}[r.intn(4)], valVocab[1+r.intn(len(valVocab)-1)]})
	}
	// distinct names only (Set overwrites)
	seen := map[string]bool{}
	var fs [][2]string
	for _, kv := range rs.fields {
		if !seen[kv[0]] {
			seen[kv[0]] = true
			fs = append(fs, kv)
		}
	}
	rs.fields = fs
	if r.chance(55) {
		rs.body = r.bytes(r.pick(0, 0, 1, 10, 1000, 16384, 16385, 40000, 70000))
		return rs
	}
	rs.streamed = true
	n := r.intn(4)
	total := 0
	for i := 0; i < n; i++ {
		l := r.pick(1, 10, 1000, 16384, 20000)
		if l > 16384 {
			l = 16384
		}
		rs.reads = append(rs.reads, readRes{r.bytes(l), 'n'})
		total += l
	}
	switch r.intn(4) {
	case 0: // last chunk carries EOF
		if n > 0 {
			rs.reads[n-1].err = 'e'
		}
	case 1: // explicit (0, EOF)
		rs.reads = append(rs.reads, readRes{nil, 'e'})
	case 2: // reader fails
		if r.chance(30) {
			rs.reads = append(rs.reads, readRes{nil, 'f'})
		}
	}
	if r.chance(50) {
		rs.size = total
	}
	return rs
}

// genServerScenario builds one scenario. bad: inject offences from the catalogue.
func (c *genctx) genServerScenario(bad bool) *scenario {
	r := c.r
	sc := &scenario{cfg: srvCfg{maxStreams: r.pick(100, 100, 5, 3), maxHeaderList: r.pick(1<<20, 1<<20, 400), maxBody: r.pick(4<<20, 4<<20, 1500)}}
	if r.chance(4) && sc.cfg.maxHeaderList == 1<<20 {
		// a negative MaxHeaderListSize switches the check off (and nothing is announced)
		sc.cfg.maxHeaderList = -1
	}
	if r.chance(10) && sc.cfg.maxStreams == 100 && sc.cfg.maxHeaderList == 1<<20 {
		// the configuration glue (Impl/ServerSetup.v): the same limits reached through defaults - zero / negative
		// values given to ConfigureServer, or no ServerConfig at all (ConfigureServerAndConfig)
		sc.cfg.maxStreams = 1024
		sc.cfg.ctor = 1 + r.intn(2)
	}
	enc := newHenc(r)
	nreq := 1 + r.intn(5)
	if nreq > sc.cfg.maxStreams && !bad {
		nreq = sc.cfg.maxStreams
	}
	if sweepPlans != nil {
		nreq = sweepN
		sc.cfg = srvCfg{maxStreams: 100, maxHeaderList: 1 << 20, maxBody: 4 << 20}
	}
	type strmq struct {
		sid   uint32
		units []unit
		done  bool // request complete
		resp  bool // D scheduled
	}
	var qs []*strmq
	sid := uint32(1)
	// Header blocks must be encoded in the order they are sent: build units lazily.
	plans := make([]*reqPlan, nreq)
	for i := range plans {
		method := []string{"GET", "POST", "PUT", "HEAD"}[r.intn(4)]
		body := c.genBody()
		total := 0
		for _, ch := range body {
			total += len(ch)
		}
		p := &reqPlan{sid: sid, body: body}
		p.fields = c.genFields(method, body != nil, total)
		// the request says which stream it is on, so that the handler's view can be matched to its
		// stream even when several are dispatched in one step
		p.fields = append(p.fields, [2]string{"x-tag", fmt.Sprint(sid)})
		if body != nil && r.chance(20) {
			p.trailers = [][2]string{{"x-trailer", "t"}}
		}
		plans[i] = p
		sid += 2
		if r.chance(10) {
			sid += 2 // skip an id
		}
	}
	if sweepPlans != nil {
		sweepPlans(plans)
	} else if bad {
		c.injectOffence(plans, sc)
	}
	for _, p := range plans {
		qs = append(qs, &strmq{sid: p.sid})
	}
	started := 0
	stage := make([]int, nreq) // 0 headers, 1.. body chunk index+1, -1 trailers pending, 99 done
	var pendingDone []uint32
	emit := func(u unit) {
		sc.evs = append(sc.evs, u.evs...)
	}
	sprinkle := func() {
		switch r.intn(14) {
		case 0:
			f := newFrame('W', 0, 0)
			f.inc = uint32(r.pick(1, 100, 65535, 1<<20))
			sc.evs = append(sc.evs, frameEv(f))
		case 1:
			if started > 0 {
				f := newFrame('W', 0, plans[r.intn(started)].sid)
				f.inc = uint32(r.pick(1, 100, 65535, 1<<20))
				sc.evs = append(sc.evs, frameEv(f))
			}
		case 2:
			f := newFrame('S', 0, 0)
			switch r.intn(4) {
			case 0:
				f.settings = [][2]uint32{{4, uint32(r.pick(0, 1, 100, 65535, 70000, 1<<20))}}
			case 1:
				f.settings = [][2]uint32{{1, uint32(r.pick(0, 100, 4096, 8192))}}
			case 2:
				f.settings = [][2]uint32{{3, 10}, {5, 16384}, {6, 1000}, {99, 7}}
			}
			sc.evs = append(sc.evs, frameEv(f))
		case 3:
			f := newFrame('G', byte(r.pick(0, 0, 1)), 0)
			f.payload = r.bytes(8)
			sc.evs = append(sc.evs, frameEv(f))
		case 4:
			// PRIORITY on an idle, open or closed id
			f := newFrame('P', 0, uint32(r.pick(1, 3, 5, 99, 101)))
			f.dep = int64(r.pick(0, 1, 3, 7))
			if int64(f.sid) == f.dep {
				f.dep = 0
			}
			f.weight = byte(r.intn(256))
			sc.evs = append(sc.evs, frameEv(f))
		}
	}
	for {
		// candidates: streams that can make progress
		var cand []int
		for i := range plans {
			if stage[i] == 99 {
				continue
			}
			if i > started { // ids must start in order
				continue
			}
			cand = append(cand, i)
		}
		if len(cand) == 0 && len(pendingDone) == 0 {
			break
		}
		sprinkle()
		if len(pendingDone) > 0 && (len(cand) == 0 || r.chance(35)) {
			k := r.intn(len(pendingDone))
			s := pendingDone[k]
			pendingDone = append(pendingDone[:k], pendingDone[k+1:]...)
			sc.evs = append(sc.evs, event{kind: 'D', sid: s, resp: c.genResp()})
			continue
		}
		if len(cand) == 0 {
			continue
		}
		i := cand[r.intn(len(cand))]
		p := plans[i]
		switch {
		case stage[i] == 0:
			endStream := p.body == nil
			block := enc.block(p.fields)
			if p.offence == "hpack-garbage" {
				block = []byte{0xff, 0xff, 0xff, 0xff, 0xff, 0xff, 0xff, 0xff, 0xff, 0xff, 0xff, 0xff}
			}
			emit(c.headerUnit(p.sid, block, endStream, true))
			if i == started {
				started++
			}
			if endStream {
				stage[i] = 99
				pendingDone = append(pendingDone, p.sid)
			} else {
				stage[i] = 1
			}
		case stage[i] >= 1 && stage[i] <= len(p.body):
			idx := stage[i] - 1
			last := idx == len(p.body)-1 && p.trailers == nil
			emit(c.dataUnit(p.sid, p.body[idx], last))
			stage[i]++
			if last {
				stage[i] = 99
				pendingDone = append(pendingDone, p.sid)
			}
		default: // trailers
			block := enc.block(p.trailers)
			u := c.headerUnit(p.sid, block, true, true)
			emit(u)
			stage[i] = 99
			pendingDone = append(pendingDone, p.sid)
		}
		// a few window updates so that large responses can finish
		if r.chance(20) {
			f := newFrame('W', 0, 0)
			f.inc = 1 << 20
			sc.evs = append(sc.evs, frameEv(f))
		}
	}
	// let responses drain: grant windows on every stream, then close
	for _, p := range plans {
		if r.chance(70) {
			f := newFrame('W', 0, p.sid)
			f.inc = 1 << 20
			sc.evs = append(sc.evs, frameEv(f))
		}
	}
	if r.chance(80) {
		f := newFrame('W', 0, 0)
		f.inc = 1 << 22
		sc.evs = append(sc.evs, frameEv(f))
	}
	sc.evs = append(sc.evs, event{kind: 'E'})
	return sc
}

// injectOffence alters one request plan (or the event stream) per the catalogue.
func (c *genctx) injectOffence(plans []*reqPlan, sc *scenario) {
	r := c.r
	if r.chance(40) {
		// message validation in bulk: most requests of the connection get a header-list edit of their own
		// (a malformed request costs its stream only, so the others still have to be served)
		for _, q := range plans {
			if r.chance(75) {
				c.headerOffence(q)
			}
		}
		return
	}
	p := plans[r.intn(len(plans))]
	off := []string{"uppercase", "pseudo-after-regular", "missing-path", "empty-path", "connection", "te", "cl-mismatch", "dup-method",
		"status-pseudo", "unknown-pseudo", "cl-nonnumeric", "cl-overflow", "body-too-large", "header-list-too-large", "hpack-garbage", "too-many-streams",
		"vocab-mix", "vocab-mix", "vocab-mix"}[r.intn(19)]
	p.offence = off
	switch off {
	case "uppercase":
		p.fields = append(p.fields, [2]string{"X-Upper", "v"})
	case "pseudo-after-regular":
		p.fields = append(p.fields, [2]string{"x-a", "1"}, [2]string{":authority", "late"})
	case "missing-path":
		var fs [][2]string
		for _, kv := range p.fields {
			if kv[0] != ":path" {
				fs = append(fs, kv)
			}
		}
		p.fields = fs
	case "empty-path":
		for i, kv := range p.fields {
			if kv[0] == ":path" {
				p.fields[i][1] = ""
			}
		}
	case "connection":
		p.fields = append(p.fields, [2]string{[]string{"connection", "keep-alive", "proxy-connection", "transfer-encoding", "upgrade"}[r.intn(5)], "x"})
	case "te":
		p.fields = append(p.fields, [2]string{"te", "gzip"})
	case "cl-mismatch":
		if p.body == nil {
			p.body = [][]byte{r.bytes(3)}
		}
		var fs [][2]string
		for _, kv := range p.fields {
			if kv[0] != "content-length" {
				fs = append(fs, kv)
			}
		}
		p.fields = append(fs, [2]string{"content-length", "9999"})
	case "dup-method":
		p.fields = append([][2]string{{":method", "GET"}}, p.fields...)
	case "status-pseudo":
		p.fields = append([][2]string{{":status", "200"}}, p.fields...)
	case "unknown-pseudo":
		p.fields = append([][2]string{{":foo", "bar"}}, p.fields...)
	case "cl-nonnumeric":
		p.fields = append(p.fields, [2]string{"content-length", "12a"})
	case "cl-overflow":
		// the body has the length the declared value wraps to in 64 bits (5) or, cut short, reads as (2)
		k := c.r.intn(6)
		p.body = [][]byte{r.bytes([]int{5, 0, 1, 2, 9, 5}[k])}
		var fs [][2]string
		for _, kv := range p.fields {
			if kv[0] != "content-length" {
				fs = append(fs, kv)
			}
		}
		// values around 2^63 and 2^64: an int that wraps could land on the real body length
		p.fields = append(fs, [2]string{"content-length", []string{"18446744073709551621", "9223372036854775808", "9223372036854775809", "92233720368547758082", "9223372036854775817", "99999999999999999999999"}[k]})
	case "body-too-large":
		sc.cfg.maxBody = 1500
		p.body = [][]byte{r.bytes(1000), r.bytes(1000)}
		if r.chance(30) {
			p.body = append(p.body, r.bytes(1000), r.bytes(700))
		}
		var fs [][2]string
		for _, kv := range p.fields {
			if kv[0] != "content-length" {
				fs = append(fs, kv)
			}
		}
		p.fields = fs
		// the limit is on what arrives, whatever length is declared: none, the true one, zero, too small, too large
		total := 0
		for _, ch := range p.body {
			total += len(ch)
		}
		if cl := []string{"", fmt.Sprint(total), "0", "5", "1500", "100000"}[r.intn(6)]; cl != "" {
			p.fields = append(p.fields, [2]string{"content-length", cl})
		}
	case "header-list-too-large":
		sc.cfg.maxHeaderList = 400
		for i := 0; i < 6; i++ {
			p.fields = append(p.fields, [2]string{"x-long-header-name-0123456789", valVocab[4]})
		}
	case "too-many-streams":
		sc.cfg.maxStreams = 1
	case "vocab-mix":
		// one to three edits of a well-formed list, drawn from a vocabulary of fields that matter to RFC 7540 8.1.2:
		// every request pseudo-header with a usual, another and an empty value (so a second :path after an empty one,
		// two different :method, ... come up), response / unknown pseudo-headers, upper case, connection-specific
		// fields, te, content-length in several shapes, an empty name
		vocab := [][2]string{{":method", "GET"}, {":method", "POST"}, {":method", ""}, {":scheme", "https"}, {":scheme", "http"}, {":scheme", ""},
			{":path", "/"}, {":path", "/other"}, {":path", ""}, {":authority", "example.org"}, {":authority", ""}, {":status", "200"}, {":foo", "x"},
			{"x-a", "1"}, {"X-A", "1"}, {"te", "trailers"}, {"te", "gzip"}, {"te", ""}, {"connection", "close"}, {"upgrade", "h2c"},
			{"content-length", "0"}, {"content-length", "3"}, {"content-length", "03"}, {"content-length", "x"}, {"content-length", ""}, {"", "v"}}
		for n := 1 + r.intn(3); n > 0; n-- {
			v := vocab[r.intn(len(vocab))]
			switch r.intn(4) {
			case 0: // in front
				p.fields = append([][2]string{v}, p.fields...)
			case 1: // at the end
				p.fields = append(p.fields, v)
			case 2: // somewhere
				i := r.intn(len(p.fields) + 1)
				p.fields = append(p.fields[:i], append([][2]string{v}, p.fields[i:]...)...)
			case 3: // in place of the first field of the same name (its old value follows: a duplicate whose first value is v's)
				done := false
				for i, kv := range p.fields {
					if kv[0] == v[0] {
						p.fields = append(p.fields[:i], append([][2]string{v}, p.fields[i:]...)...)
						done = true
						break
					}
				}
				if !done {
					p.fields = append(p.fields, v)
				}
			}
		}
	}
}

// headerOffence edits one request's header list: two pseudo-headers of one name with every pairing of a usual,
// another and an empty value (in either order), or one of the other RFC 7540 8.1.2 cases.
func (c *genctx) headerOffence(p *reqPlan) {
	r := c.r
	p.offence = "header-list"
	switch r.intn(10) {
	case 0, 1, 2, 3:
		name := []string{":method", ":scheme", ":path", ":authority"}[r.intn(4)]
		vals := map[string][]string{":method": {"GET", "POST", ""}, ":scheme": {"https", "http", ""}, ":path": {"/", "/other", ""}, ":authority": {"example.org", "b.example", ""}}[name]
		v1, v2 := vals[r.intn(3)], vals[r.intn(3)]
		var fs [][2]string
		placed := false
		for _, kv := range p.fields {
			if kv[0] == name {
				if !placed {
					fs = append(fs, [2]string{name, v1}, [2]string{name, v2})
					placed = true
				}
				continue
			}
			fs = append(fs, kv)
		}
		if !placed {
			fs = append([][2]string{{name, v1}, {name, v2}}, fs...)
		}
		p.fields = fs
	case 4, 5, 6:
		vocab := [][2]string{{":method", ""}, {":scheme", ""}, {":path", ""}, {":authority", ""}, {":status", "200"}, {":foo", "x"},
			{"x-a", "1"}, {"X-A", "1"}, {"te", "trailers"}, {"te", "gzip"}, {"te", ""}, {"connection", "close"}, {"upgrade", "h2c"},
			{"content-length", "0"}, {"content-length", "03"}, {"content-length", "x"}, {"content-length", ""}, {"", "v"}}
		v := vocab[r.intn(len(vocab))]
		i := r.intn(len(p.fields) + 1)
		p.fields = append(p.fields[:i], append([][2]string{v}, p.fields[i:]...)...)
	case 7: // one pseudo-header missing
		name := []string{":method", ":scheme", ":path"}[r.intn(3)]
		var fs [][2]string
		for _, kv := range p.fields {
			if kv[0] != name {
				fs = append(fs, kv)
			}
		}
		p.fields = fs
	case 8: // a pseudo-header after a regular field
		p.fields = append(p.fields, [2]string{[]string{":method", ":scheme", ":path", ":authority"}[r.intn(4)], "late"})
	case 9: // two content-length fields, equal or not
		p.fields = append(p.fields, [2]string{"content-length", "3"}, [2]string{"content-length", []string{"3", "4", "03"}[r.intn(3)]})
	}
}

// frame-level offences inserted at a random position
func (c *genctx) frameOffence(sc *scenario) {
	r := c.r
	pos := r.intn(len(sc.evs))
	var ev event
	maxSid := uint32(1)
	for _, e := range sc.evs[:pos] {
		if e.kind == 'F' && e.fr.sid > maxSid {
			maxSid = e.fr.sid & 0x7fffffff
		}
	}
	someSid := uint32(r.pick(1, int(maxSid), int(maxSid)+2, int(maxSid)+4))
	rawFrame := func(typ byte, flags byte, sid uint32, payload []byte) []byte {
		h := []byte{byte(len(payload) >> 16), byte(len(payload) >> 8), byte(len(payload)), typ, flags}
		h = binary.BigEndian.AppendUint32(h, sid)
		return append(h, payload...)
	}
	switch r.intn(22) {
	case 0: // RST_STREAM from the peer
		f := newFrame('R', 0, someSid)
		f.code = uint32(r.pick(0, 8, 2))
		ev = frameEv(f)
	case 1: // WINDOW_UPDATE increment 0 on a stream / connection
		f := newFrame('W', 0, uint32(r.pick(0, int(someSid))))
		ev = frameEv(f)
	case 2: // even stream id
		f := newFrame('H', 5, uint32(r.pick(2, 4, int(maxSid)+1)))
		f.payload = []byte{0x82, 0x84, 0x87}
		ev = frameEv(f)
	case 3: // HEADERS on a lower / closed id
		f := newFrame('H', 5, 1)
		f.payload = []byte{0x82, 0x84, 0x87}
		ev = frameEv(f)
	case 4: // CONTINUATION out of the blue
		f := newFrame('C', 4, someSid)
		f.payload = []byte{0x82}
		ev = frameEv(f)
	case 5: // DATA on an idle or closed stream
		f := newFrame('D', byte(r.pick(0, 1)), someSid)
		f.payload = r.bytes(r.pick(0, 1, 10))
		ev = frameEv(f)
	case 6: // unknown frame type
		ev = event{kind: 'B', raw: rawFrame(byte(r.pick(10, 11, 0x7f, 0x80, 0xff)), byte(r.intn(256)), uint32(r.pick(0, int(someSid))), r.bytes(r.pick(0, 1, 20))), class: "unknown"}
	case 7: // PING with a wrong length
		ev = event{kind: 'B', raw: rawFrame(6, 0, 0, r.bytes(r.pick(0, 7, 9))), class: "goaway:6"}
	case 8: // SETTINGS with a wrong length / ack with payload / bad values
		switch r.intn(5) {
		case 0:
			ev = event{kind: 'B', raw: rawFrame(4, 0, 0, r.bytes(5)), class: "goaway:6"}
		case 1:
			ev = event{kind: 'B', raw: rawFrame(4, 1, 0, []byte{0, 3, 0, 0, 0, 1}), class: "goaway:6"}
		case 2:
			ev = event{kind: 'B', raw: rawFrame(4, 0, 0, []byte{0, 2, 0, 0, 0, 2}), class: "goaway:1"}
		case 3:
			ev = event{kind: 'B', raw: rawFrame(4, 0, 0, []byte{0, 4, 0x80, 0, 0, 0}), class: "goaway:3"}
		default:
			ev = event{kind: 'B', raw: rawFrame(4, 0, 0, []byte{0, 5, 0, 0, 0, 100}), class: "goaway:1"}
		}
	case 9: // RST_STREAM / WINDOW_UPDATE / PRIORITY with a wrong length
		switch r.intn(5) {
		case 0:
			ev = event{kind: 'B', raw: rawFrame(3, 0, someSid, r.bytes(5)), class: "goaway:6"}
		case 1:
			ev = event{kind: 'B', raw: rawFrame(3, 0, someSid, r.bytes(3)), class: "other"}
		case 2:
			ev = event{kind: 'B', raw: rawFrame(8, 0, 0, r.bytes(5)), class: "goaway:6"}
		case 3:
			ev = event{kind: 'B', raw: rawFrame(2, 0, someSid, r.bytes(6)), class: "goaway:6"}
		default:
			ev = event{kind: 'B', raw: rawFrame(2, 0, someSid, r.bytes(4)), class: "other"}
		}
	case 10: // frame over the advertised size
		ev = event{kind: 'B', raw: rawFrame(0, 0, someSid, make([]byte, 16385)), class: "other"}
	case 11: // padding that does not fit: longer than the payload, or exactly as long as it
		pl := [][]byte{{5, 1, 2}, {3, 1, 2}, {1}, {2, 0}, {255}}[r.intn(5)]
		ev = event{kind: 'B', raw: rawFrame(byte(r.pick(0, 1)), byte(r.pick(8, 9, 0x0d)), someSid, pl), class: "other"}
	case 12: // SETTINGS on a stream, GOAWAY on a stream
		f := newFrame(byte(r.pick('S', 'A')), 0, someSid)
		if f.kind == 'A' {
			f.dep = 0
		}
		ev = frameEv(f)
	case 13: // PING on a stream / PUSH_PROMISE from the client
		if r.bool() {
			f := newFrame('G', 0, someSid)
			f.payload = r.bytes(8)
			ev = frameEv(f)
		} else {
			f := newFrame('U', 4, someSid)
			f.dep = 2
			f.payload = []byte{0x82}
			ev = frameEv(f)
		}
	case 14: // GOAWAY from the peer
		f := newFrame('A', 0, 0)
		f.dep = 0
		f.code = uint32(r.pick(0, 0, 2))
		ev = frameEv(f)
	case 15: // PRIORITY depending on itself
		f := newFrame('P', 0, someSid)
		f.dep = int64(someSid)
		ev = frameEv(f)
	case 16: // HEADERS depending on itself
		f := newFrame('H', 0x25, maxSid+2)
		f.dep = int64(maxSid + 2)
		f.payload = []byte{0x82, 0x84, 0x87}
		ev = frameEv(f)
	case 17: // WINDOW_UPDATE overflowing a stream or the connection
		f := newFrame('W', 0, uint32(r.pick(0, int(someSid))))
		f.inc = uint32(r.pick(1<<31-1, 1<<31-1-65535, 1<<31-65535))
		ev = frameEv(f)
	case 18: // flag bits that mean nothing on this frame type
		f := newFrame(byte(r.pick('P', 'W', 'R')), byte(r.pick(1, 4, 5, 0xff)), someSid)
		f.dep, f.inc, f.code = 0, 10, 8
		if f.kind != 'P' {
			f.dep = -1
		}
		ev = frameEv(f)
	case 19: // DATA / frame on stream 0
		f := newFrame(byte(r.pick('D', 'H', 'P', 'R')), 0, 0)
		if f.kind == 'P' {
			f.dep = 1
		}
		ev = frameEv(f)
	case 20: // SETTINGS_INITIAL_WINDOW_SIZE pushing windows over the limit
		f := newFrame('W', 0, someSid)
		f.inc = 1<<31 - 1 - 65535
		sc.evs = append(sc.evs[:pos], append([]event{frameEv(f)}, sc.evs[pos:]...)...)
		g := newFrame('S', 0, 0)
		g.settings = [][2]uint32{{4, 65536}}
		ev = frameEv(g)
		pos++
	default: // interleave a frame inside a header block: HEADERS without END_HEADERS then DATA
		f := newFrame('H', 0, maxSid+2)
		f.payload = []byte{0x82}
		sc.evs = append(sc.evs[:pos], append([]event{frameEv(f)}, sc.evs[pos:]...)...)
		g := newFrame('D', 0, maxSid+2)
		ev = frameEv(g)
		pos++
	}
	sc.evs = append(sc.evs[:pos], append([]event{ev}, sc.evs[pos:]...)...)
}

// genManyStreams: more requests than the closed-stream memory holds (256), then late frames on
// ids that are still remembered and on ids that have been forgotten.
func (c *genctx) genManyStreams() *scenario {
	r := c.r
	sc := &scenario{cfg: srvCfg{maxStreams: r.pick(100, 3, 1), maxHeaderList: 1 << 20, maxBody: 4 << 20}}
	n := 258 + r.intn(40)
	sid := uint32(1)
	var ids []uint32
	for i := 0; i < n; i++ {
		f := newFrame('H', 5, sid)
		f.payload = []byte{0x82, 0x84, 0x87}
		sc.evs = append(sc.evs, frameEv(f))
		switch r.intn(10) {
		case 0: // the peer gives up before the handler is done: the slot stays taken
			rst := newFrame('R', 0, sid)
			rst.code = 8
			sc.evs = append(sc.evs, frameEv(rst))
			sc.evs = append(sc.evs, event{kind: 'D', sid: sid, resp: respSpec{status: 200, size: -1}})
		default:
			sc.evs = append(sc.evs, event{kind: 'D', sid: sid, resp: respSpec{status: 204, size: -1}})
		}
		ids = append(ids, sid)
		sid += 2
	}
	// late frames
	for k := 0; k < 6; k++ {
		old := ids[r.pick(0, 1, len(ids)-257, len(ids)-256, len(ids)-255, len(ids)-2, len(ids)-1)]
		var f frameSpec
		switch r.intn(5) {
		case 0:
			f = newFrame('P', 0, old)
			f.dep = 0
		case 1:
			f = newFrame('W', 0, old)
			f.inc = 10
		case 2:
			f = newFrame('R', 0, old)
			f.code = 8
		case 3:
			f = newFrame('D', 1, old)
			f.payload = []byte{1, 2, 3}
		default:
			f = newFrame('H', 5, old)
			f.payload = []byte{0x82, 0x84, 0x87}
		}
		sc.evs = append(sc.evs, frameEv(f))
	}
	// and one more request after all that
	f := newFrame('H', 5, sid)
	f.payload = []byte{0x82, 0x84, 0x87}
	sc.evs = append(sc.evs, frameEv(f))
	sc.evs = append(sc.evs, event{kind: 'D', sid: sid, resp: respSpec{status: 200, body: []byte("ok"), size: -1}})
	sc.evs = append(sc.evs, event{kind: 'E'})
	return sc
}

// genGated: the read loop runs ahead of the stream loop (held at a tick gate), optionally ending in
// a connection error that the read loop finds while requests are still queued for the stream loop.
func (c *genctx) genGated() *scenario {
	r := c.r
	sc := &scenario{cfg: srvCfg{maxStreams: r.pick(100, 100, 2), maxHeaderList: 1 << 20, maxBody: 4 << 20}}
	enc := newHenc(r)
	req := func(sid uint32, withBody bool) {
		fs := [][2]string{{":method", "GET"}, {":scheme", "https"}, {":path", pathVocab[r.intn(4)]}, {"x-tag", fmt.Sprint(sid)}}
		if withBody {
			fs[0][1] = "POST"
		}
		u := c.headerUnit(sid, enc.block(fs), !withBody, true)
		sc.evs = append(sc.evs, u.evs...)
		if withBody {
			sc.evs = append(sc.evs, c.dataUnit(sid, r.bytes(r.pick(1, 100, 1000)), true).evs...)
		}
	}
	sid := uint32(1)
	var ids []uint32
	for i := r.intn(3); i > 0; i-- {
		req(sid, r.chance(30))
		ids = append(ids, sid)
		sid += 2
	}
	if r.chance(40) && len(ids) > 0 {
		sc.evs = append(sc.evs, event{kind: 'D', sid: ids[0], resp: c.genResp()})
		ids = ids[1:]
	}
	sc.evs = append(sc.evs, event{kind: 'g'})
	for i := 1 + r.intn(4); i > 0; i-- {
		switch r.intn(6) {
		case 0, 1, 2:
			req(sid, r.chance(30))
			ids = append(ids, sid)
			sid += 2
		case 3:
			f := newFrame('W', 0, uint32(r.pick(0, 1, 3)))
			f.inc = uint32(r.pick(1, 1000))
			sc.evs = append(sc.evs, frameEv(f))
		case 4:
			f := newFrame('S', 0, 0)
			f.settings = [][2]uint32{{4, uint32(r.pick(0, 100, 65535, 100000))}}
			sc.evs = append(sc.evs, frameEv(f))
		default:
			f := newFrame('G', 0, 0)
			f.payload = r.bytes(8)
			sc.evs = append(sc.evs, frameEv(f))
		}
	}
	rawFrame := func(typ byte, flags byte, sid uint32, payload []byte) []byte {
		h := []byte{byte(len(payload) >> 16), byte(len(payload) >> 8), byte(len(payload)), typ, flags}
		h = binary.BigEndian.AppendUint32(h, sid)
		return append(h, payload...)
	}
	switch r.intn(7) {
	case 0: // WINDOW_UPDATE(0) with increment 0: the read loop answers with GOAWAY itself
		sc.evs = append(sc.evs, frameEv(newFrame('W', 0, 0)))
	case 1:
		sc.evs = append(sc.evs, event{kind: 'B', raw: rawFrame(6, 0, 0, r.bytes(7)), class: "goaway:6"})
	case 2:
		f := newFrame('C', 4, sid)
		f.payload = []byte{0x82}
		sc.evs = append(sc.evs, frameEv(f))
	case 3:
		f := newFrame('H', 5, sid+1) // even id
		f.payload = []byte{0x82, 0x84, 0x87}
		sc.evs = append(sc.evs, frameEv(f))
	case 4: // GOAWAY from the peer
		f := newFrame('A', 0, 0)
		f.dep = 0
		sc.evs = append(sc.evs, frameEv(f))
	}
	sc.evs = append(sc.evs, event{kind: 'u'})
	for _, id := range ids {
		if r.chance(80) {
			sc.evs = append(sc.evs, event{kind: 'D', sid: id, resp: c.genResp()})
		}
	}
	f := newFrame('W', 0, 0)
	f.inc = 1 << 22
	sc.evs = append(sc.evs, frameEv(f))
	sc.evs = append(sc.evs, event{kind: 'E'})
	return sc
}

// genFollowUps: frames that are still on their way for a stream the server has refused or reset.
func (c *genctx) genFollowUps() *scenario {
	r := c.r
	sc := &scenario{cfg: srvCfg{maxStreams: r.pick(1, 1, 2), maxHeaderList: 1 << 20, maxBody: r.pick(4<<20, 1500)}}
	enc := newHenc(r)
	block := func(sid uint32, method string, extra ...[2]string) []byte {
		fs := [][2]string{{":method", method}, {":scheme", "https"}, {":path", pathVocab[r.intn(4)]}, {"x-tag", fmt.Sprint(sid)}}
		fs = append(fs, extra...)
		return enc.block(fs)
	}
	sid := uint32(1)
	var live []uint32
	// fill the slots: requests whose handlers stay busy
	for i := 0; i < sc.cfg.maxStreams; i++ {
		sc.evs = append(sc.evs, c.headerUnit(sid, block(sid, "GET"), true, true).evs...)
		live = append(live, sid)
		sid += 2
	}
	victim := sid
	sid += 2
	switch r.intn(3) {
	case 0: // refused: over the limit
		b := block(victim, "POST")
		if r.chance(35) {
			// ... and its header block does not decode (an index in neither table, the reserved index 0, or a
			// truncated literal): a compression error is a connection error whatever becomes of the stream
			b = append(b, [][]byte{{0xfe}, {0x80}, {0x40, 0x05, 0x61}}[r.intn(3)]...)
		}
		sc.evs = append(sc.evs, c.headerUnit(victim, b, false, true).evs...)
	case 1: // reset by the server: malformed (upper-case name), the limit does not matter
		sc.evs = append(sc.evs, event{kind: 'D', sid: live[0], resp: c.genResp()})
		live = live[1:]
		sc.evs = append(sc.evs, c.headerUnit(victim, block(victim, "POST", [2]string{"X-Bad", "v"}), false, true).evs...)
	default: // reset by the server: body over the limit
		sc.cfg.maxBody = 1500
		sc.evs = append(sc.evs, event{kind: 'D', sid: live[0], resp: c.genResp()})
		live = live[1:]
		sc.evs = append(sc.evs, c.headerUnit(victim, block(victim, "POST"), false, false).evs...)
		sc.evs = append(sc.evs, c.dataUnit(victim, r.bytes(1000), false).evs...)
		sc.evs = append(sc.evs, c.dataUnit(victim, r.bytes(1000), false).evs...)
	}
	// what the peer had sent before it saw the RST_STREAM
	for i := 1 + r.intn(4); i > 0; i-- {
		var f frameSpec
		switch r.intn(6) {
		case 0:
			f = newFrame('R', 0, victim)
			f.code = 8
		case 1:
			f = newFrame('D', byte(r.pick(0, 1)), victim)
			f.payload = r.bytes(r.pick(0, 1, 100))
			if r.chance(60) {
				f.flags |= 8
				f.pad = r.pick(0, 1, 100, 255)
			}
		case 2:
			f = newFrame('W', 0, victim)
			f.inc = uint32(r.pick(1, 1000))
		case 3:
			f = newFrame('P', 0, victim)
			f.dep = 0
		case 4: // trailers, possibly split
			sc.evs = append(sc.evs, c.headerUnit(victim, enc.block([][2]string{{"x-trailer", "t"}}), true, true).evs...)
			continue
		default:
			f = newFrame('D', 0, victim)
			f.payload = r.bytes(16384 - 256) // with the pad length octet and 255 octets of padding: exactly the frame size limit
			f.flags |= 8
			f.pad = 255
		}
		sc.evs = append(sc.evs, frameEv(f))
	}
	// a later request must still work, with headers that refer to what the victim's block inserted
	for _, id := range live {
		sc.evs = append(sc.evs, event{kind: 'D', sid: id, resp: c.genResp()})
	}
	sc.evs = append(sc.evs, c.headerUnit(sid, block(sid, "GET"), true, true).evs...)
	sc.evs = append(sc.evs, event{kind: 'D', sid: sid, resp: c.genResp()})
	f := newFrame('W', 0, 0)
	f.inc = 1 << 22
	sc.evs = append(sc.evs, frameEv(f), event{kind: 'E'})
	return sc
}

// genEndlessField: a header field that never completes, carried from CONTINUATION to CONTINUATION,
// on a live stream or on one whose block is being discarded.
func (c *genctx) genEndlessField() *scenario {
	r := c.r
	sc := &scenario{cfg: srvCfg{maxStreams: r.pick(1, 100), maxHeaderList: r.pick(400, 3000), maxBody: 4 << 20}}
	sid := uint32(1)
	if r.bool() { // take the only slot first, so that the block below belongs to a refused stream
		sc.cfg.maxStreams = 1
		f := newFrame('H', 5, sid)
		f.payload = []byte{0x82, 0x84, 0x87}
		sc.evs = append(sc.evs, frameEv(f))
		sid += 2
	}
	h := newFrame('H', 1, sid)
	// :method GET, :scheme https, :path /, then a literal with a name of 1 octet and a value declared 100000 octets long
	h.payload = append([]byte{0x82, 0x87, 0x84, 0x00, 0x01, 0x61, 0x7f}, 0xa1, 0x8c, 0x06)
	sc.evs = append(sc.evs, frameEv(h))
	n := 2 + r.intn(12)
	for i := 0; i < n; i++ {
		f := newFrame('C', 0, sid)
		f.payload = r.bytes(r.pick(100, 300, 1000))
		sc.evs = append(sc.evs, frameEv(f))
	}
	sc.evs = append(sc.evs, event{kind: 'E'})
	return sc
}

// genFloodAfterError: a connection error the stream loop finds, with a lot more traffic already
// written behind it in the same burst.
func (c *genctx) genFloodAfterError() *scenario {
	r := c.r
	sc := &scenario{cfg: srvCfg{maxStreams: 100, maxHeaderList: 1 << 20, maxBody: 4 << 20}}
	f := newFrame('H', 5, 1)
	f.payload = []byte{0x82, 0x84, 0x87}
	sc.evs = append(sc.evs, frameEv(f))
	var burst []frameSpec
	w := newFrame('W', 0, 0)
	w.inc = 1<<31 - 1 // overflows the connection window: the stream loop sends GOAWAY and stops
	burst = append(burst, w)
	for i := 150 + r.intn(300); i > 0; i-- {
		switch r.intn(3) {
		case 0:
			x := newFrame('W', 0, 0)
			x.inc = 1
			burst = append(burst, x)
		case 1:
			x := newFrame('W', 0, 1)
			x.inc = 1
			burst = append(burst, x)
		default:
			x := newFrame('S', 0, 0)
			burst = append(burst, x)
		}
	}
	sc.evs = append(sc.evs, event{kind: 'M', burst: burst}, event{kind: 'E'})
	return sc
}

// genBlockedOnConnWindow: several responses parked on the connection window, released by one grant.
func (c *genctx) genBlockedOnConnWindow() *scenario {
	r := c.r
	sc := &scenario{cfg: srvCfg{maxStreams: 100, maxHeaderList: 1 << 20, maxBody: 4 << 20}}
	n := 3 + r.intn(4)
	sid := uint32(1)
	var ids []uint32
	for i := 0; i < n; i++ {
		f := newFrame('H', 5, sid)
		f.payload = []byte{0x82, 0x84, 0x87}
		sc.evs = append(sc.evs, frameEv(f))
		ids = append(ids, sid)
		sid += 2
	}
	for _, id := range ids {
		rs := respSpec{status: 200, size: -1, body: r.bytes(r.pick(20000, 40000, 70000))}
		if r.chance(25) {
			rs.body = nil
			rs.streamed = true
			for k := 0; k < 3; k++ {
				rs.reads = append(rs.reads, readRes{r.bytes(16384), 'n'})
			}
			rs.reads = append(rs.reads, readRes{nil, 'e'})
		}
		sc.evs = append(sc.evs, event{kind: 'D', sid: id, resp: rs})
	}
	// stream windows first (some), then the connection window in one or two grants
	for _, id := range ids {
		if r.chance(50) {
			f := newFrame('W', 0, id)
			f.inc = 1 << 20
			sc.evs = append(sc.evs, frameEv(f))
		}
	}
	for k := 1 + r.intn(2); k > 0; k-- {
		f := newFrame('W', 0, 0)
		f.inc = uint32(r.pick(1<<20, 1<<22, 30000))
		sc.evs = append(sc.evs, frameEv(f))
	}
	if r.bool() {
		f := newFrame('S', 0, 0)
		f.settings = [][2]uint32{{4, 1 << 20}}
		sc.evs = append(sc.evs, frameEv(f))
	}
	f := newFrame('W', 0, 0)
	f.inc = 1 << 22
	sc.evs = append(sc.evs, frameEv(f), event{kind: 'E'})
	return sc
}

// genRequestTimeout: requests in every stage of their life (header block unfinished, body unfinished, handler
// running, response blocked on a window) when the server's request timer runs out; afterwards the handlers return,
// the frames that were still to come arrive for streams that have timed out, and new requests come in.
func (c *genctx) genRequestTimeout() *scenario {
	r := c.r
	var sc *scenario
	for try := 0; ; try++ {
		sc = c.genServerScenario(false)
		if len(sc.evs) >= 4 && len(sc.evs) <= 40 || try > 20 {
			break
		}
	}
	sc.cfg.reqTimeoutMs = 250
	evs := sc.evs
	if n := len(evs); n > 0 && evs[n-1].kind == 'E' {
		evs = evs[:n-1]
	}
	cut := 1 + r.intn(len(evs))
	if cut > 24 {
		cut = 24
	}
	head, tail := evs[:cut], evs[cut:]
	out := append([]event(nil), head...)
	out = append(out, event{kind: 'T'})
	// what was still to come: late frames for timed-out streams, handlers returning after the timeout
	for i := range tail {
		if i >= 12 {
			break
		}
		if r.chance(75) {
			out = append(out, tail[i])
		}
	}
	out = append(out, event{kind: 'E'})
	sc.evs = out
	return sc
}

// genIdleTimeout: the connection sits idle (with handlers running, responses blocked on a window, or nothing at
// all going on) until the server's idle timer closes it.
func (c *genctx) genIdleTimeout() *scenario {
	r := c.r
	var sc *scenario
	for try := 0; ; try++ {
		sc = c.genServerScenario(false)
		if len(sc.evs) <= 30 || try > 20 {
			break
		}
	}
	sc.cfg.idleMs = 250
	evs := sc.evs
	if n := len(evs); n > 0 && evs[n-1].kind == 'E' {
		evs = evs[:n-1]
	}
	cut := r.intn(len(evs) + 1)
	if cut > 20 {
		cut = 20
	}
	out := append([]event(nil), evs[:cut]...)
	out = append(out, event{kind: 'I'})
	// what the peer still sends does not reach anybody
	for i := cut; i < len(evs) && i < cut+3; i++ {
		out = append(out, evs[i])
	}
	out = append(out, event{kind: 'E'})
	sc.evs = out
	return sc
}

// genManyHandlers: more handlers are still running than the handlerDone channel has slots (128) when the peer
// goes away; they are let go afterwards and every one of their goroutines has to come back.
func (c *genctx) genManyHandlers() *scenario {
	r := c.r
	sc := &scenario{cfg: srvCfg{maxStreams: 1000, maxHeaderList: 1 << 20, maxBody: 4 << 20}}
	n := 131 + r.intn(30)
	sid := uint32(1)
	for i := 0; i < n; i++ {
		f := newFrame('H', 5, sid)
		f.payload = []byte{0x82, 0x84, 0x87}
		sc.evs = append(sc.evs, frameEv(f))
		if r.chance(5) {
			sc.evs = append(sc.evs, event{kind: 'D', sid: sid, resp: respSpec{status: 204, size: -1}})
		}
		sid += 2
	}
	sc.evs = append(sc.evs, event{kind: 'E'})
	return sc
}

// sweepPlans, when set, replaces the random offence of genServerScenario: the scenario has sweepN requests and
// the function edits their header lists.
var sweepPlans func(plans []*reqPlan)
var sweepN int

// genValidationSweep: one third (part 0..2) of the 36 ways of sending a request pseudo-header twice - four
// names, the first and the second value each a usual, another or an empty one - one request per way on one
// connection. Every run of the suite goes through all 36 (three scenarios), whatever the seed.
func (c *genctx) genValidationSweep(part int) *scenario {
	names := []string{":method", ":scheme", ":path", ":authority"}
	vals := map[string][]string{":method": {"GET", "POST", ""}, ":scheme": {"https", "http", ""}, ":path": {"/", "/other", ""}, ":authority": {"example.org", "b.example", ""}}
	type combo struct{ name, v1, v2 string }
	var all []combo
	for _, n := range names {
		for _, a := range vals[n] {
			for _, b := range vals[n] {
				all = append(all, combo{n, a, b})
			}
		}
	}
	mine := all[part*12 : part*12+12]
	sweepN = len(mine)
	sweepPlans = func(plans []*reqPlan) {
		for i, p := range plans {
			cb := mine[i%len(mine)]
			p.offence = "header-list"
			var fs [][2]string
			placed := false
			for _, kv := range p.fields {
				if kv[0] == cb.name {
					if !placed {
						fs = append(fs, [2]string{cb.name, cb.v1}, [2]string{cb.name, cb.v2})
						placed = true
					}
					continue
				}
				fs = append(fs, kv)
			}
			if !placed {
				fs = append([][2]string{{cb.name, cb.v1}, {cb.name, cb.v2}}, fs...)
			}
			p.fields = fs
		}
	}
	defer func() { sweepPlans = nil }()
	return c.genServerScenario(true)
}

func genServer(c *genctx) {
	n := c.n
	for i := 0; i < n; i++ {
		var sc *scenario
		kind := "good"
		switch {
		case i%128 == 17:
			sc = c.genValidationSweep((i / 128) % 3)
			kind = "validation-sweep"
		case i%400 == 231:
			sc = c.genManyHandlers()
			kind = "many-handlers-at-disconnect"
		case i%50 == 7:
			sc = c.genManyStreams()
			kind = "many-streams"
		case i%16 == 5:
			sc = c.genGated()
			kind = "gated-read-loop-ahead"
		case i%16 == 2:
			sc = c.genBlockedOnConnWindow()
			kind = "responses-blocked-on-connection-window"
		case i%16 == 9:
			sc = c.genFollowUps()
			kind = "in-flight-after-refusal-or-reset"
		case i%32 == 13:
			sc = c.genEndlessField()
			kind = "endless-header-field"
		case i%64 == 29:
			sc = c.genFloodAfterError()
			kind = "flood-after-connection-error"
		case i%32 == 22:
			sc = c.genRequestTimeout()
			kind = "request-timer"
		case i%64 == 46:
			sc = c.genIdleTimeout()
			kind = "idle-timer"
		case i%4 == 1, i%8 == 6:
			sc = c.genServerScenario(true)
			kind = "offence-message"
		case i%4 == 3:
			sc = c.genServerScenario(false)
			c.frameOffence(sc)
			kind = "offence-frame"
		default:
			sc = c.genServerScenario(false)
		}
		res := runServerScenario(sc)
		if sc.void {
			// depended on real time and the machine was too slow: regenerate as an ordinary scenario
			c.st.result("void-timer-scenario")
			sc = c.genServerScenario(false)
			kind = "good"
			res = runServerScenario(sc)
		}
		line := sc.String() // after the run: D events carry the observed response header lists
		c.st.size(len(sc.evs))
		if strings.Contains(res, "HANG") {
			c.st.result("hang")
		}
		if strings.Contains(res, ";E") {
			c.st.result("closed-by-server")
		}
		if strings.Contains(res, "G") {
			c.st.result("some-goaway-or-G")
		}
		switch sc.cfg.ctor {
		case 1:
			c.st.result("built-from-zero-or-negative-config")
		case 2:
			c.st.result("built-by-ConfigureServerAndConfig")
		}
		c.emit(kind, line, res, "-")
	}
}
