package main

import (
	"strings"

	http2 "github.com/dgrr/http2"
	"golang.org/x/net/http2/hpack"
)

func init() {
	suites["huffman"] = genHuffman
	replayers["huffman"] = runHuffman
}

// runHuffman runs one case line against the implementation.
//
//	henc <hex>  ->  <hex>
//	hdec <hex>  ->  ok <hex> | err
func runHuffman(line string) string {
	f := strings.Fields(line)
	switch f[0] {
	case "henc":
		return hx(http2.HuffmanEncode(nil, unhx(f[1])))
	case "hdec":
		d, err := http2.HuffmanDecode(nil, unhx(f[1]))
		if err != nil {
			return "err"
		}
		return "ok " + hx(d)
	}
	return "?"
}

func refHuffman(line string) string {
	f := strings.Fields(line)
	switch f[0] {
	case "henc":
		return hx(hpack.AppendHuffmanString(nil, string(unhx(f[1]))))
	case "hdec":
		d, err := hpack.HuffmanDecodeToString(unhx(f[1]))
		if err != nil {
			return "err"
		}
		return "ok " + hx([]byte(d))
	}
	return "?"
}

// long-code symbols (>= 20 bits), used to bias the random strings.
var huffLong = func() []byte {
	_, lens := http2.VerifHuffmanTables()
	var out []byte
	for i, l := range lens {
		if l >= 20 {
			out = append(out, byte(i))
		}
	}
	return out
}()

func genHuffman(c *genctx) {
	do := func(kind, line string) {
		res := runHuffman(line)
		if strings.HasPrefix(line, "hdec") {
			if res == "err" {
				c.st.result("decode-rejected")
			} else {
				c.st.result("decode-accepted")
			}
		}
		c.st.size((len(strings.Fields(line)[1])) / 2)
		c.emit(kind, line, res, refHuffman(line))
	}
	// enumerated part: every string of length <= 1 (quick) / <= 2 (thorough), both directions
	maxLen := 1
	if c.tier == "thorough" {
		maxLen = 2
	}
	var rec func(prefix []byte, depth int)
	rec = func(prefix []byte, depth int) {
		do("enum-enc", "henc "+hx(prefix))
		do("enum-dec", "hdec "+hx(prefix))
		if depth == maxLen {
			return
		}
		for b := 0; b < 256; b++ {
			rec(append(append([]byte(nil), prefix...), byte(b)), depth+1)
		}
	}
	rec(nil, 0)
	// all symbol pairs, encode then decode the result (quick: pairs with first symbol in a sample)
	for a := 0; a < 256; a++ {
		if c.tier != "thorough" && a%16 != int(c.r.s%16) {
			continue
		}
		for b := 0; b < 256; b++ {
			s := []byte{byte(a), byte(b)}
			do("pair-enc", "henc "+hx(s))
			do("pair-roundtrip", "hdec "+hx(http2.HuffmanEncode(nil, s)))
		}
	}
	// random part
	for i := 0; i < c.n; i++ {
		n := c.r.pick(0, 1, 2, 3, 4, 5, 8, 13, 21, 40, 64)
		s := make([]byte, n)
		for j := range s {
			switch {
			case c.r.chance(25) && len(huffLong) > 0:
				s[j] = huffLong[c.r.intn(len(huffLong))]
			case c.r.chance(40):
				s[j] = "abcdeilmnoprstu0123 /:-._"[c.r.intn(25)]
			default:
				s[j] = byte(c.r.u64())
			}
		}
		switch c.r.intn(5) {
		case 0:
			do("rand-enc", "henc "+hx(s))
		case 1: // valid encoding
			do("rand-dec-valid", "hdec "+hx(http2.HuffmanEncode(nil, s)))
		case 2: // valid encoding with the last byte perturbed (padding / EOS cases)
			e := http2.HuffmanEncode(nil, s)
			if len(e) > 0 {
				e[len(e)-1] ^= byte(1 << c.r.intn(8))
			}
			do("rand-dec-padflip", "hdec "+hx(e))
		case 3: // valid encoding followed by 0xff bytes (over-long padding / EOS prefix)
			e := http2.HuffmanEncode(nil, s)
			for k := c.r.intn(4) + 1; k > 0; k-- {
				e = append(e, 0xff)
			}
			do("rand-dec-eos", "hdec "+hx(e))
		default:
			do("rand-dec-soup", "hdec "+hx(s))
		}
	}
}
