package main

// h2v probe <seed> <rounds>
//
// Probes of the implementation alone at program points the lockstep suites cannot reach, because
// the model takes the surrounding code in ONE atomic step. A tick gate holds a goroutine inside
// the step while the harness makes another goroutine act; the oracle is a clause of a property
// read off the wire. This is supporting validation and a search for a failing history (like the
// free-running rounds), never a theorem.
//
//   goaway-gate (C11): the client's read loop has taken a GOAWAY in and is about to fail the
//   streams above last-stream-id (tick CliGoAwaySweep, held). A caller now starts a request and
//   the write loop takes it. "After the client receives GOAWAY it opens no further stream on that
//   connection": no HEADERS frame with a new stream id may reach the server, and the new request
//   has to end (retryable) without waiting for the read loop.
//
// Output: "probe rounds=.. void=.. bad=.." and one "BAD probe=... round=.. seed=.. <what>" per failure.

import (
	"bytes"
	"fmt"
	"io"
	"sync"
	"time"

	"github.com/dgrr/http2"
	"github.com/valyala/fasthttp"
	xhttp2 "golang.org/x/net/http2"
)

func goAwayGateProbe(seed uint64, round int) (bad string, void bool) {
	g := &rng{s: seed*0x9e3779b97f4a7c15 + uint64(round)*0xbf58476d1ce4e5b9 + 11}
	c1, c2 := newBufPipe()
	defer c1.Close()
	defer c2.Close()
	hdrs := make(chan uint32, 64)
	var wmu sync.Mutex
	fr := xhttp2.NewFramer(c1, c1)
	srvDone := make(chan struct{})
	go func() {
		defer close(srvDone)
		pre := make([]byte, len(xhttp2.ClientPreface))
		if _, err := io.ReadFull(c1, pre); err != nil || !bytes.Equal(pre, []byte(xhttp2.ClientPreface)) {
			return
		}
		wmu.Lock()
		_ = fr.WriteSettings(xhttp2.Setting{ID: xhttp2.SettingMaxConcurrentStreams, Val: 100})
		wmu.Unlock()
		for {
			f, err := fr.ReadFrame()
			if err != nil {
				return
			}
			switch f := f.(type) {
			case *xhttp2.SettingsFrame:
				if !f.IsAck() {
					wmu.Lock()
					_ = fr.WriteSettingsAck()
					wmu.Unlock()
				}
			case *xhttp2.HeadersFrame:
				hdrs <- f.StreamID
			}
		}
	}()
	conn := http2.NewConn(c2, http2.ConnOpts{PingInterval: time.Hour, DisablePingChecking: true})
	if err := conn.Handshake(); err != nil {
		return "", true
	}
	defer conn.Close()
	type inflight struct {
		ctx *http2.Ctx
		req *fasthttp.Request
		res *fasthttp.Response
	}
	submit := func(i int, withBody bool) inflight {
		req := fasthttp.AcquireRequest()
		res := fasthttp.AcquireResponse()
		req.SetRequestURI(fmt.Sprintf("https://probe.test/r%d", i))
		if withBody {
			req.Header.SetMethod("POST")
			req.SetBody(g.bytes(10 + g.intn(2000)))
		}
		ctx := http2.VerifAcquireCtx(req, res)
		conn.Write(ctx)
		return inflight{ctx, req, res}
	}
	k := 2 + g.intn(3)
	var fl []inflight
	var maxID uint32
	for i := 0; i < k; i++ {
		fl = append(fl, submit(i, g.intn(3) == 0))
		select {
		case id := <-hdrs:
			if id > maxID {
				maxID = id
			}
		case <-time.After(5 * time.Second):
			return "", true
		}
	}
	// hold the read loop where it starts failing the disclaimed streams
	before := http2.VerifClientTicks()[http2.VerifTickCliGoAwaySweep]
	open := http2.VerifGate(http2.VerifTickCliGoAwaySweep)
	opened := false
	defer func() {
		if !opened {
			open()
		}
	}()
	last := uint32(1 + 2*g.intn(k)) // some of the streams in flight are above it, or none
	if last > maxID {
		last = maxID
	}
	wmu.Lock()
	_ = fr.WriteGoAway(last, xhttp2.ErrCodeNo, nil)
	wmu.Unlock()
	for dl := time.Now().Add(5 * time.Second); http2.VerifClientTicks()[http2.VerifTickCliGoAwaySweep] == before; {
		if time.Now().After(dl) {
			return "", true
		}
		time.Sleep(20 * time.Microsecond)
	}
	// the read loop is inside its GOAWAY step: a caller starts a request now
	nw := submit(k, g.intn(2) == 0)
	got := false
	select {
	case id := <-hdrs:
		bad = fmt.Sprintf("the client opened stream %d on the connection after it had taken in GOAWAY(last-stream-id=%d) (%d requests were in flight)", id, last, k)
	case err := <-nw.ctx.Err:
		got = true
		if err == nil {
			bad = "a request started after GOAWAY ended without an error"
		} else if !http2.VerifRetryable(err) {
			bad = fmt.Sprintf("a request started after GOAWAY, never written, ended with an error that is not retryable: %v", err)
		} else {
			// the write loop turned it away; nothing may have gone out for it
			select {
			case id := <-hdrs:
				bad = fmt.Sprintf("the client opened stream %d after GOAWAY(last-stream-id=%d) although it reported %v", id, last, err)
			case <-time.After(2 * time.Millisecond):
			}
		}
	case <-time.After(3 * time.Second):
		bad = "a request started after GOAWAY was neither written nor ended within 3 s while the read loop was busy"
	}
	opened = true
	open()
	_ = conn.Close()
	_ = c1.Close()
	// let every caller have its result before the objects go back
	if !got {
		fl = append(fl, nw)
	}
	for _, f := range fl {
		select {
		case <-f.ctx.Err:
		case <-time.After(2 * time.Second):
		}
	}
	<-srvDone
	return bad, false
}

func runProbes(seed uint64, rounds int) {
	http2.VerifSetQuiet(false)
	bad, void := 0, 0
	for i := 0; i < rounds; i++ {
		msg, v := goAwayGateProbe(seed, i)
		if v {
			void++
		}
		if msg != "" {
			bad++
			if bad <= 10 {
				fmt.Printf("BAD probe=goaway-gate round=%d seed=%d %s\n", i, seed, msg)
			}
		}
	}
	fmt.Printf("probe rounds=%d void=%d bad=%d\n", rounds, void, bad)
}
