package main

// Scenario generation for the client connection-grain suite. The scripted server
// has to know the stream ids the client picks, so scenarios are generated while
// they run: the generator looks at what the client has written so far and decides
// the next event. The line that is recorded is the list of events executed, with
// their observed fields; replaying it runs the same events verbatim.

import (
	"bytes"
	"fmt"
	"strings"
)

func init() {
	suites["client"] = genClient
	replayers["client"] = func(line string) string { return runClientScenario(parseCliScenario(line)) }
}

var cliHosts = []string{"example.com", "localhost:8080", "h"}
var cliPaths = []string{"/", "/index.html", "/a", "/a/b?c=d", "/x%20y"}
var cliReqNames = []string{"Accept", "X-A", "X-B", "X_Under_Score", "X-Long-Header-Name-0123456789", "Accept-Language", "Referer", "X-Trace", "Cache-Control", "Cookie", "Content-Type"}
var cliRespNames = []string{"x-resp", "x-r2", "etag", "x-long-response-header", "cache-control", "vary"}

// cliStream is a request the client has put on the wire, as the scripted server sees it.
type cliStream struct {
	tag      int
	sid      uint32
	units    []string // what is left of the response: i(nterim) h(eaders) d(ata) t(railers)
	chunks   []blob
	status   string
	fields   [][2]string
	trailers [][2]string
	offence  string
	over     bool // END_STREAM or RST_STREAM has gone out
}

type cliGen struct {
	c        *genctx
	r        *rng
	sc       *cliScenario
	run      *cliRun
	enc      *henc
	groups   []string
	nextTag  int
	streams  []*cliStream
	tags     []int // submitted, not yet received
	goneAway bool
	// GOAWAY frames sent so far and the last stream id of the latest one
	goAways    int
	lastGoAway int64
	dead       bool // the connection has been cut, closed or broken on purpose
	kind       string
}

func (g *cliGen) do(ev *cliEvent) {
	g.sc.evs = append(g.sc.evs, ev)
	g.groups = append(g.groups, g.run.step(ev))
}

func (g *cliGen) frame(f frameSpec, pl blob) {
	f.payload = pl.b
	g.do(&cliEvent{kind: "F", fr: f, pl: pl})
}

func (g *cliGen) genBody(max int) blob {
	r := g.r
	n := r.pick(1, 5, 100, 1000, 16383, 16384, 16385, 40000, 65535, 65536, 70000, 100000)
	if n > max {
		n = r.pick(1, 5, 100, 1000)
	}
	if n <= 16 {
		return lit(r.bytes(n))
	}
	return genBlob(n, r.intn(1000))
}

func (g *cliGen) genRequest() *cliReq {
	r := g.r
	spec := &cliReq{
		host:   []byte(cliHosts[r.intn(len(cliHosts))]),
		method: []byte([]string{"GET", "POST", "PUT", "HEAD", "DELETE"}[r.intn(5)]),
		path:   []byte(cliPaths[r.intn(len(cliPaths))]),
		scheme: []byte([]string{"https", "http"}[r.intn(2)]),
	}
	switch r.intn(16) {
	case 0:
		// a stored field larger than the whole default table: RFC 7541 4.4, the insertion empties the table
		spec.path = append([]byte("/big/"), bytes.Repeat([]byte("0123456789abcdef"), 260)...)
	case 1, 2:
		// larger than a table the server has shrunk to 100 octets
		spec.path = append([]byte("/longer/"), bytes.Repeat([]byte("ab"), 30+r.intn(40))...)
	}
	for i := r.intn(5); i > 0; i-- {
		spec.fields = append(spec.fields, [2]string{cliReqNames[r.intn(len(cliReqNames))], valVocab[1+r.intn(len(valVocab)-1)]})
	}
	if r.chance(40) {
		spec.fields = append(spec.fields, [2]string{"User-Agent", "h2v/1"})
	}
	if r.chance(12) {
		spec.fields = append(spec.fields, [2]string{[]string{"Keep-Alive", "Proxy-Connection", "Upgrade"}[r.intn(3)], "x"})
	}
	maxBody := 100000
	if g.kind != "flow" && g.kind != "good" {
		maxBody = 20000
	}
	noBody := 40
	if g.kind == "flow" {
		noBody = 8
	}
	switch b := r.intn(100); {
	case b < noBody:
	case b < 70:
		spec.body = g.genBody(maxBody)
	default:
		spec.streamed = true
		n := r.intn(4)
		total := 0
		for i := 0; i < n; i++ {
			l := r.pick(1, 10, 1000, 16384, 16384)
			var d blob
			if l <= 16 {
				d = lit(r.bytes(l))
			} else {
				d = genBlob(l, r.intn(1000))
			}
			spec.reads = append(spec.reads, cliRead{d, 'n'})
			total += l
		}
		switch r.intn(5) {
		case 0: // the last chunk carries EOF
			if n > 0 {
				spec.reads[n-1].err = 'e'
			}
		case 1: // explicit (0, EOF)
			spec.reads = append(spec.reads, cliRead{blob{}, 'e'})
		case 2: // the reader fails
			if r.chance(40) {
				spec.reads = append(spec.reads, cliRead{blob{}, 'f'})
			}
		}
		spec.size = -1
		if r.chance(50) {
			spec.size = total
		}
	}
	// the views are what fasthttp makes of it; building from the views gives the same views
	v := viewRequest(buildRequest(spec), spec)
	v2 := viewRequest(buildRequest(v), v)
	if v.String() != v2.String() {
		panic("request views are not stable:\n" + v.String() + "\n" + v2.String())
	}
	return v
}

func (g *cliGen) submit() { g.submitKind("S") }

// submitKind: "S" is a whole Conn.Write, "S1" its first half (the caller must do "S2" later)
func (g *cliGen) submitKind(kind string) int {
	tag := g.nextTag
	g.nextTag++
	ev := &cliEvent{kind: kind, tag: tag, req: g.genRequest()}
	g.do(ev)
	g.tags = append(g.tags, tag)
	g.noteStreams(tag)
	return tag
}

func (g *cliGen) noteStreams(tag int) {
	for _, s := range g.streams {
		if s.tag == tag {
			return
		}
	}
	// did the client open a stream for it?
	for sid, t := range g.run.reqs {
		if t == tag {
			g.streams = append(g.streams, g.planResponse(tag, sid))
		}
	}
}

// writeRace: Conn.Write in two halves, with Close (and the write loop, held or not) in between
func (g *cliGen) writeRace() {
	r := g.r
	if g.run.wlGate != nil || g.run.closeRet != nil || g.run.writeGate != nil {
		return
	}
	held := r.chance(50)
	if held {
		g.do(&cliEvent{kind: "HW", raw: r.bytes(8)})
	}
	tag := g.submitKind("S1")
	if r.chance(20) {
		g.grant()
	}
	switch r.intn(3) {
	case 0:
		g.do(&cliEvent{kind: "C"})
	case 1:
		g.do(&cliEvent{kind: "C1"})
	default:
		g.do(&cliEvent{kind: "E"})
	}
	if held && r.chance(50) {
		g.do(&cliEvent{kind: "RW"})
		held = false
	}
	g.do(&cliEvent{kind: "S2", tag: tag})
	g.noteStreams(tag)
	if held {
		g.do(&cliEvent{kind: "RW"})
	}
	g.noteStreams(tag)
	g.do(&cliEvent{kind: "C2"})
	g.dead = true
}

func (g *cliGen) planResponse(tag int, sid uint32) *cliStream {
	r := g.r
	s := &cliStream{tag: tag, sid: sid, status: []string{"200", "200", "204", "404", "500", "299", "304"}[r.intn(7)]}
	for i := r.intn(4); i > 0; i-- {
		s.fields = append(s.fields, [2]string{cliRespNames[r.intn(len(cliRespNames))], valVocab[1+r.intn(len(valVocab)-1)]})
	}
	if r.chance(15) {
		s.units = append(s.units, "i")
	}
	s.units = append(s.units, "h")
	total := 0
	if r.chance(65) {
		for i := 1 + r.intn(3); i > 0; i-- {
			l := r.pick(0, 1, 10, 1000, 16384)
			var d blob
			if l <= 16 {
				d = lit(r.bytes(l))
			} else {
				d = genBlob(l, r.intn(1000))
			}
			s.chunks = append(s.chunks, d)
			s.units = append(s.units, "d")
			total += l
		}
		if r.chance(40) {
			s.fields = append(s.fields, [2]string{"content-length", fmt.Sprint(total)})
		}
	}
	if r.chance(15) {
		s.trailers = [][2]string{{"x-trailer", "t"}, {"x-checksum", "0123"}}[:1+r.intn(2)]
		s.units = append(s.units, "t")
	}
	if g.kind == "badmsg" && r.chance(60) {
		g.offend(s)
	}
	return s
}

// offend makes the response malformed (RFC 7540 8.1.2) or its frames out of place.
func (g *cliGen) offend(s *cliStream) {
	r := g.r
	off := []string{"uppercase", "no-status", "two-status", "pseudo-after-regular", "unknown-pseudo", "request-pseudo", "connection",
		"cl-nonnumeric", "cl-overflow", "status-low", "status-high", "status-text", "status-empty", "trailers-no-es", "trailers-status",
		"data-first", "interim-es", "second-final", "hpack-garbage", "empty-name"}[r.intn(20)]
	s.offence = off
	switch off {
	case "uppercase":
		s.fields = append(s.fields, [2]string{"X-Upper", "v"})
	case "pseudo-after-regular":
		s.fields = append([][2]string{{"x-first", "1"}}, s.fields...)
	case "unknown-pseudo":
		s.fields = append([][2]string{{":foo", "bar"}}, s.fields...)
	case "request-pseudo":
		s.fields = append([][2]string{{":path", "/"}}, s.fields...)
	case "connection":
		s.fields = append(s.fields, [2]string{[]string{"connection", "keep-alive", "proxy-connection", "transfer-encoding", "upgrade"}[r.intn(5)], "x"})
	case "cl-nonnumeric":
		s.fields = append(s.fields, [2]string{"content-length", []string{"12a", "", "-1", "1 2"}[r.intn(4)]})
	case "cl-overflow":
		s.fields = append(s.fields, [2]string{"content-length", []string{"18446744073709551621", "9223372036854775808", "9223372036854775809", "92233720368547758082", "9223372036854775817", "99999999999999999999999"}[r.intn(6)]})
	case "status-low":
		s.status = []string{"99", "0200", "00200", "020"}[r.intn(4)]
	case "status-high":
		s.status = "1000"
	case "status-text":
		s.status = "2oo"
	case "status-empty":
		s.status = ""
	case "trailers-no-es", "trailers-status":
		if len(s.trailers) == 0 {
			s.trailers = [][2]string{{"x-trailer", "t"}}
			s.units = append(s.units, "t")
		}
	case "data-first":
		s.units = append([]string{"D"}, s.units...)
	case "interim-es", "second-final":
		// handled when the unit is sent
	case "empty-name":
		s.fields = append(s.fields, [2]string{"", "v"})
	}
}

// sendUnit sends the next unit of a response: one header block (HEADERS + CONTINUATION*) or one DATA frame.
func (g *cliGen) sendUnit(s *cliStream) {
	if len(s.units) == 0 || s.over {
		return
	}
	u := s.units[0]
	s.units = s.units[1:]
	last := len(s.units) == 0
	c := g.c
	switch u {
	case "i", "h", "t":
		var fields [][2]string
		es := last
		switch u {
		case "i":
			fields = [][2]string{{":status", []string{"100", "103"}[g.r.intn(2)]}}
			if g.r.chance(50) {
				fields = append(fields, [2]string{"link", "</s.css>"})
			}
			es = s.offence == "interim-es"
		case "h":
			switch s.offence {
			case "no-status":
			case "two-status":
				// the same twice, or an empty / malformed / different one before or after
				pair := [][2]string{{s.status, s.status}, {"", s.status}, {s.status, ""}, {"2oo", s.status}, {s.status, "404"}, {"", ""}}[g.r.intn(6)]
				fields = append(fields, [2]string{":status", pair[0]}, [2]string{":status", pair[1]})
			case "pseudo-after-regular":
				fields = append(fields, s.fields[0])
				fields = append(fields, [2]string{":status", s.status})
			default:
				fields = append(fields, [2]string{":status", s.status})
			}
			if s.offence == "pseudo-after-regular" {
				fields = append(fields, s.fields[1:]...)
			} else if s.offence == "unknown-pseudo" || s.offence == "request-pseudo" {
				fields = append(append([][2]string{s.fields[0]}, fields...), s.fields[1:]...)
			} else {
				fields = append(fields, s.fields...)
			}
			if s.offence == "second-final" {
				// the same block again later
				s.units = append([]string{"h2"}, s.units...)
				es = false
			}
		case "t":
			fields = s.trailers
			if s.offence == "trailers-status" {
				fields = append([][2]string{{":status", "200"}}, fields...)
			}
			if s.offence == "trailers-no-es" {
				es = false
			}
		}
		block := g.enc.block(fields)
		if s.offence == "hpack-garbage" && u == "h" {
			block = []byte{0xff, 0xff, 0xff, 0xff, 0xff, 0xff, 0xff, 0xff, 0xff, 0xff, 0xff, 0xff}
		}
		for _, e := range c.headerUnit(s.sid, block, es, true).evs {
			g.frame(e.fr, lit(e.fr.payload))
		}
		if es {
			s.over = true
		}
	case "h2":
		block := g.enc.block([][2]string{{":status", "200"}})
		for _, e := range c.headerUnit(s.sid, block, last, true).evs {
			g.frame(e.fr, lit(e.fr.payload))
		}
		s.over = last
	case "d", "D":
		var d blob
		if u == "D" {
			d = lit([]byte("early"))
			last = g.r.chance(50)
		} else {
			d = s.chunks[0]
			s.chunks = s.chunks[1:]
		}
		e := c.dataUnit(s.sid, d.b, last).evs[0]
		g.frame(e.fr, d)
		if last {
			s.over = true
		}
	}
}

func (g *cliGen) active() []*cliStream {
	var out []*cliStream
	for _, s := range g.streams {
		if !s.over && len(s.units) > 0 {
			out = append(out, s)
		}
	}
	return out
}

func (g *cliGen) someSid() uint32 {
	if len(g.streams) > 0 && g.r.chance(80) {
		return g.streams[g.r.intn(len(g.streams))].sid
	}
	return uint32(g.r.pick(1, 3, 5, 7, 99, 2, 4))
}

// grant sends a frame that opens a send window, or changes a limit.
func (g *cliGen) grant() {
	r := g.r
	switch r.intn(9) {
	case 0, 1:
		f := newFrame('W', 0, 0)
		f.inc = uint32(r.pick(1, 100, 16384, 65535, 1<<20))
		g.frame(f, blob{})
	case 2, 3:
		f := newFrame('W', 0, g.someSid())
		f.inc = uint32(r.pick(1, 100, 16384, 65535, 1<<20))
		g.frame(f, blob{})
	case 4:
		f := newFrame('S', 0, 0)
		f.settings = [][2]uint32{{4, uint32(r.pick(0, 1, 100, 16384, 65535, 70000, 1<<20))}}
		g.frame(f, blob{})
	case 5:
		f := newFrame('S', 0, 0)
		f.settings = [][2]uint32{{5, uint32(r.pick(16384, 16385, 20000, 65536, 1<<24-1))}}
		g.frame(f, blob{})
	case 6:
		f := newFrame('S', 0, 0)
		f.settings = [][2]uint32{{3, uint32(r.pick(0, 1, 2, 2, 100, 100, 1<<31-1, 1<<31, 1<<32-1))}}
		g.frame(f, blob{})
	case 7:
		f := newFrame('S', 0, 0)
		f.settings = [][2]uint32{{1, uint32(r.pick(0, 100, 4096, 8192))}}
		g.frame(f, blob{})
	default:
		f := newFrame('S', 0, 0)
		switch r.intn(3) {
		case 0:
			f.settings = [][2]uint32{{3, 10}, {5, 16384}, {6, 1000}, {99, 7}, {4, 65535}}
		case 1:
			f.settings = [][2]uint32{{4, 100}, {4, 200000}, {2, 0}}
		}
		g.frame(f, blob{})
	}
}

// noise: frames a client has to take in its stride
func (g *cliGen) noise() {
	r := g.r
	switch r.intn(6) {
	case 0:
		f := newFrame('G', byte(r.pick(0, 0, 1)), 0)
		g.frame(f, lit(r.bytes(8)))
	case 1:
		g.do(&cliEvent{kind: "B", raw: cliRawFrame(byte(r.pick(10, 11, 0x7f, 0x80, 0xff)), byte(r.intn(256)), uint32(r.pick(0, int(g.someSid()))), r.bytes(r.pick(0, 1, 20))), class: "unknown"})
	case 2:
		f := newFrame('P', 0, g.someSid())
		f.dep = int64(r.pick(0, 1, 3))
		f.weight = byte(r.intn(256))
		g.frame(f, blob{})
	case 3:
		f := newFrame('S', 1, 0) // a SETTINGS ACK
		g.frame(f, blob{})
	case 4:
		f := newFrame('W', 0, uint32(r.pick(0, int(g.someSid()))))
		f.inc = 0
		g.frame(f, blob{})
	default:
		f := newFrame('P', 0, 0)
		f.dep = 1
		g.frame(f, blob{})
	}
}

func cliRawFrame(typ byte, flags byte, sid uint32, payload []byte) []byte {
	h := []byte{byte(len(payload) >> 16), byte(len(payload) >> 8), byte(len(payload)), typ, flags, byte(sid >> 24), byte(sid >> 16), byte(sid >> 8), byte(sid)}
	return append(h, payload...)
}

func (g *cliGen) goAway() {
	r := g.r
	f := newFrame('A', 0, 0)
	maxSid := 0
	for _, s := range g.streams {
		if int(s.sid) > maxSid {
			maxSid = int(s.sid)
		}
	}
	f.dep = int64(r.pick(0, 1, 3, maxSid, maxSid, maxSid+2, 1<<31-1))
	if f.dep > int64(maxSid) && r.chance(50) {
		f.dep = int64(maxSid)
	}
	if g.goAways == 0 && g.kind == "goaway" && r.chance(40) {
		// RFC 7540 6.8: a graceful shutdown starts with 2^31-1 and names the real last stream later
		f.dep = 1<<31 - 1
	}
	if g.goAways > 0 {
		// a later GOAWAY may only lower the last stream id
		f.dep = int64(r.pick(0, 1, 3, maxSid, maxSid-2, maxSid))
		if f.dep < 0 {
			f.dep = 0
		}
		if f.dep > g.lastGoAway {
			f.dep = g.lastGoAway
		}
	}
	g.goAways++
	g.lastGoAway = f.dep
	f.code = uint32(r.pick(0, 0, 0, 2, 11))
	g.frame(f, lit([]byte("bye")[:r.intn(4)]))
	g.goneAway = true
	// the server does not answer what it disclaimed
	for _, s := range g.streams {
		if int64(s.sid) > f.dep && r.chance(85) {
			s.over = true
		}
	}
}

func (g *cliGen) reset() {
	r := g.r
	f := newFrame('R', 0, g.someSid())
	f.code = uint32(r.pick(0, 1, 2, 7, 7, 8, 3))
	g.frame(f, blob{})
	for _, s := range g.streams {
		if s.sid == f.sid {
			s.over = true
		}
	}
}

// frameOffence: a frame no conforming server sends
func (g *cliGen) frameOffence() {
	r := g.r
	sid := g.someSid()
	switch r.intn(14) {
	case 0: // CONTINUATION out of the blue
		f := newFrame('C', 4, sid)
		g.frame(f, lit([]byte{0x88}))
		g.dead = true
	case 1: // a frame in the middle of a header block
		f := newFrame('H', 0, sid)
		g.frame(f, lit([]byte{0x88}))
		switch r.intn(3) {
		case 0:
			d := newFrame('D', 0, sid)
			g.frame(d, lit([]byte("x")))
		case 1:
			d := newFrame('C', 4, sid+2)
			g.frame(d, blob{})
		default:
			d := newFrame('G', 0, 0) // PING is fine for readNext, the block goes on
			g.frame(d, lit(r.bytes(8)))
			e := newFrame('C', 4, sid)
			g.frame(e, blob{})
			return
		}
		g.dead = true
	case 2: // PUSH_PROMISE
		f := newFrame('U', 4, sid)
		f.dep = 2
		g.frame(f, lit([]byte{0x82}))
		g.dead = true
	case 3: // a frame over the size the client advertised
		g.do(&cliEvent{kind: "B", raw: cliRawFrame(0, 0, sid, make([]byte, 16385)), class: "bad"})
		g.dead = true
	case 4: // padding that does not fit
		g.do(&cliEvent{kind: "B", raw: cliRawFrame(byte(r.pick(0, 1)), 8, sid, []byte{5, 1, 2}), class: "bad"})
		g.dead = true
	case 5: // fixed-size frames with the wrong size
		typ := byte(r.pick(3, 8, 2, 6))
		g.do(&cliEvent{kind: "B", raw: cliRawFrame(typ, 0, uint32(r.pick(0, int(sid))), r.bytes(r.pick(0, 3, 7, 9))), class: "bad"})
		g.dead = true
	case 6: // SETTINGS that is not a multiple of six / ACK with payload / bad values
		switch r.intn(5) {
		case 0:
			g.do(&cliEvent{kind: "B", raw: cliRawFrame(4, 0, 0, r.bytes(r.pick(5, 7))), class: "bad"})
			g.dead = true
		case 1:
			f := newFrame('S', 1, 0)
			f.settings = [][2]uint32{{3, 1}}
			g.frame(f, blob{})
			g.dead = true
		case 2:
			f := newFrame('S', 0, 0)
			f.settings = [][2]uint32{{2, 2}}
			g.frame(f, blob{})
			g.dead = true
		case 3:
			f := newFrame('S', 0, 0)
			f.settings = [][2]uint32{{4, 1 << 31}}
			g.frame(f, blob{})
			g.dead = true
		default:
			f := newFrame('S', 0, 0)
			f.settings = [][2]uint32{{3, 5}, {5, 100}}
			g.frame(f, blob{})
			g.dead = true
		}
	case 7: // frames on a stream nobody asked for, or one that is over
		f := newFrame(byte(r.pick('D', 'H', 'R', 'W')), byte(r.pick(0, 1, 4, 5)), uint32(r.pick(99, 2, int(sid))))
		f.inc, f.code = 10, 8
		pl := blob{}
		if f.kind == 'H' {
			f.flags |= 4
			pl = lit(g.enc.block([][2]string{{":status", "200"}, {"x-late", "1"}}))
		} else if f.kind == 'D' {
			pl = lit(r.bytes(r.pick(0, 1, 10)))
		}
		g.frame(f, pl)
	case 8: // stream-level frames on stream 0
		f := newFrame(byte(r.pick('D', 'H', 'R')), 5, 0)
		g.frame(f, blob{})
	case 9: // connection-level frames on a stream
		f := newFrame(byte(r.pick('S', 'G', 'A')), 0, sid)
		pl := blob{}
		if f.kind == 'G' {
			pl = lit(r.bytes(8))
		}
		if f.kind == 'A' {
			f.dep = 0
		}
		g.frame(f, pl)
	case 10: // RST_STREAM(FLOW_CONTROL_ERROR)
		f := newFrame('R', 0, sid)
		f.code = 3
		g.frame(f, blob{})
	case 11: // WINDOW_UPDATE that overflows a window
		f := newFrame('W', 0, uint32(r.pick(0, int(sid))))
		f.inc = 1<<31 - 1
		g.frame(f, blob{})
	case 12: // a header block that never ends, in pieces
		f := newFrame('H', 0, sid)
		g.frame(f, lit([]byte{0x00, 0x7f}))
		for i := 0; i < 2; i++ {
			c := newFrame('C', 0, sid)
			g.frame(c, genBlob(5000, i))
		}
	default: // cut in the middle of a frame
		raw := cliRawFrame(0, 0, sid, r.bytes(20))
		g.do(&cliEvent{kind: "B", raw: raw[:r.intn(len(raw))], class: "cut"})
		g.dead = true
	}
}

func (g *cliGen) receiveSome() {
	if len(g.tags) == 0 {
		return
	}
	i := g.r.intn(len(g.tags))
	tag := g.tags[i]
	g.do(&cliEvent{kind: "R", tag: tag})
	if !strings.Contains(g.groups[len(g.groups)-1], fmt.Sprintf("r%d:none", tag)) {
		g.tags = append(g.tags[:i], g.tags[i+1:]...)
	}
}

func (g *cliGen) fault() {
	r := g.r
	switch r.intn(10) {
	case 0, 1:
		g.do(&cliEvent{kind: "E"})
		g.dead = true
	case 2:
		g.do(&cliEvent{kind: "X"})
		// the next things written fail: a request's HEADERS (streamed bodies included), a frame of an upload
		for i := r.intn(3); i > 0; i-- {
			if r.chance(70) {
				g.submit()
			} else {
				g.grant()
			}
		}
	case 3, 4:
		g.do(&cliEvent{kind: "C"})
		g.dead = true
	case 5:
		g.do(&cliEvent{kind: "C1"})
		// what happens between close(done) and the socket going
		g.submit()
		for i := r.intn(3); i > 0; i-- {
			switch r.intn(3) {
			case 0:
				g.submit()
			case 1:
				g.receiveSome()
			default:
				if a := g.active(); len(a) > 0 {
					g.sendUnit(a[r.intn(len(a))])
				}
			}
		}
		g.do(&cliEvent{kind: "C2"})
		g.dead = true
	case 6:
		// Close racing Write with the write loop out of its select: held at the top of the loop
		// while Close closes done and a request is handed over, then let go with both ready
		if g.run.wlGate == nil && g.run.closeRet == nil {
			g.do(&cliEvent{kind: "HW", raw: r.bytes(8)})
			if r.chance(30) {
				g.grant()
			}
			g.do(&cliEvent{kind: "C1"})
			g.submit()
			if r.chance(30) {
				g.submit()
			}
			if r.chance(30) {
				g.receiveSome()
			}
			g.do(&cliEvent{kind: "RW"})
			if r.chance(50) {
				g.receiveSome()
			}
			g.do(&cliEvent{kind: "C2"})
			g.dead = true
		}
	case 7:
		if !g.sc.arm || r.chance(50) {
			g.writeRace()
			return
		}
		if g.sc.arm && len(g.tags) > 0 {
			g.do(&cliEvent{kind: "T", tag: g.tags[r.intn(len(g.tags))]})
		}
	default:
		if g.sc.arm && len(g.tags) > 0 && g.run.timerGate == nil {
			tag := g.tags[r.intn(len(g.tags))]
			g.do(&cliEvent{kind: "T1", tag: tag})
			for i := r.intn(3); i > 0; i-- {
				switch r.intn(3) {
				case 0:
					g.do(&cliEvent{kind: "R", tag: tag})
				case 1:
					for _, s := range g.streams {
						if s.tag == tag {
							g.sendUnit(s)
						}
					}
				default:
					g.grant()
				}
			}
			g.do(&cliEvent{kind: "T2", tag: tag})
			// the tag may have been received in between
			for i, t := range g.tags {
				if t == tag && g.run.tags[tag] != nil && g.run.tags[tag].returned {
					g.tags = append(g.tags[:i], g.tags[i+1:]...)
					break
				}
			}
		}
	}
}

// download: a response large enough for the client to hand connection credit back
func (g *cliGen) download() {
	g.submit()
	if len(g.streams) == 0 {
		return
	}
	s := g.streams[0]
	s.units = []string{"h"}
	s.chunks = nil
	s.trailers = nil
	n := 30 + g.r.intn(12)
	for i := 0; i < n; i++ {
		s.chunks = append(s.chunks, genBlob(g.r.pick(16384, 16384, 16384, 16000), g.r.intn(1000)))
		s.units = append(s.units, "d")
	}
	// one run in three: the request dies early (reset by the server, or its response ends) and the rest of
	// the DATA arrives for a stream the client no longer has: it still counts against the connection window,
	// which has to be refilled all the same
	dieAt := -1
	if g.r.chance(33) {
		dieAt = 1 + g.r.intn(4)
	}
	// one run in three: the server says GOAWAY (graceful: NO_ERROR, last-stream-id covering the request in flight)
	// early in the download and then delivers the rest, as RFC 7540 6.8 lets it: the client still has to hand
	// connection credit back, or the response it was promised starves (seeded change C14d-m2)
	goAwayAt := -1
	if g.r.chance(33) {
		goAwayAt = 1 + g.r.intn(6)
	}
	sent := 0
	for len(s.units) > 1 && !g.run.hung {
		if sent == goAwayAt {
			f := newFrame('A', 0, 0)
			f.dep = int64(s.sid)
			if g.r.chance(30) {
				f.dep = 1<<31 - 1
			}
			f.code = 0
			g.goAways++
			g.lastGoAway = f.dep
			g.goneAway = true
			g.frame(f, blob{})
		}
		if sent == dieAt {
			sid := s.sid
			if g.r.chance(50) {
				f := newFrame('R', 0, sid)
				f.code = uint32(g.r.pick(2, 7, 8))
				g.frame(f, blob{})
			} else {
				f := newFrame('D', 1, sid)
				g.frame(f, genBlob(g.r.pick(0, 10, 16384), g.r.intn(1000)))
			}
			s.over = true
			if g.r.chance(50) {
				g.receiveSome()
			}
			for i := len(s.units) - 1; i > 0 && !g.run.hung; i-- {
				f := newFrame('D', 0, sid)
				if g.r.chance(10) {
					f.flags = 8
					f.pad = g.r.pick(0, 1, 255)
				}
				g.frame(f, genBlob(g.r.pick(16384-256, 16000, 16384-256), g.r.intn(1000)))
			}
			return
		}
		g.sendUnit(s)
		sent++
		if g.r.chance(4) {
			g.noise()
		}
	}
}

func (g *cliGen) firstSettings() [][2]uint32 {
	r := g.r
	var s [][2]uint32
	if r.chance(40) {
		s = append(s, [2]uint32{3, uint32(r.pick(1, 2, 3, 100, 100, 1<<31-1, 1<<31-1, 1<<32-1))})
	}
	if r.chance(45) {
		s = append(s, [2]uint32{4, uint32(r.pick(0, 1, 1000, 16384, 65535, 70000, 1<<20))})
	}
	if r.chance(30) {
		s = append(s, [2]uint32{5, uint32(r.pick(16384, 16385, 20000, 65536))})
	}
	if r.chance(30) {
		s = append(s, [2]uint32{1, uint32(r.pick(0, 100, 4096, 8192))})
	}
	if r.chance(10) {
		s = append(s, [2]uint32{99, 7}, [2]uint32{6, 1 << 16})
	}
	return s
}

// genClientScenario generates and runs one scenario; it returns the line and the result.
func (c *genctx) genClientScenario(kind string) (string, string) {
	cliMu.Lock()
	defer cliMu.Unlock()
	r := c.r
	g := &cliGen{c: c, r: r, kind: kind, enc: newHenc(r)}
	g.sc = &cliScenario{arm: kind == "races" || r.chance(15), conforming: kind == "good" || kind == "flow" || kind == "download" || kind == "goaway"}
	g.sc.settings = g.firstSettings()
	if kind == "flow" && r.chance(50) {
		g.sc.settings = [][2]uint32{{4, uint32(r.pick(0, 1, 1000, 16384, 65535))}, {5, uint32(r.pick(16384, 16385, 65536))}}
	}
	g.run = startClientRun(g.sc)
	g.groups = []string{g.run.handshakeView()}
	nreq := 1 + r.intn(6)
	steps := 12 + r.intn(40)
	if kind == "download" {
		g.download()
		steps = 5
	}
	if (kind == "flow" || r.chance(30)) && nreq > 1 {
		// several requests at once, before the server says anything
		for i := 1 + r.intn(nreq); i > 0; i-- {
			g.submit()
		}
	}
	if kind == "races" && r.chance(25) {
		// the transport starts refusing writes with requests still to come
		if r.chance(50) {
			g.submit()
		}
		g.do(&cliEvent{kind: "X"})
		for i := 1 + r.intn(2); i > 0; i-- {
			g.submit()
		}
	}
	for i := 0; i < steps && !g.run.hung; i++ {
		if !g.dead && g.run.conn.Closed() {
			g.dead = true
		}
		a := r.intn(100)
		left := nreq - g.nextTag
		act := g.active()
		switch {
		case left > 0 && (a < 25 || (len(act) == 0 && a < 70)):
			g.submit()
		case a < 55 && len(act) > 0:
			g.sendUnit(act[r.intn(len(act))])
		case a < 70:
			g.grant()
		case a < 78:
			g.receiveSome()
		case a < 84:
			g.noise()
		case a < 88 && (kind == "goaway" || r.chance(10)) && (!g.goneAway || (g.goAways < 2 && g.lastGoAway > 0)):
			g.goAway()
		case a < 91 && (kind != "good" || r.chance(20)):
			g.reset()
		case a < 95 && kind == "badframe":
			g.frameOffence()
		case a < 97 && (kind == "races" || kind == "badframe"):
			g.fault()
		case kind == "flow":
			g.grant()
		}
		if g.dead && r.chance(60) {
			break
		}
	}
	// let everything finish: open the windows, send what is left of the responses, collect the results
	if !g.dead && !g.run.hung {
		if r.chance(85) {
			f := newFrame('W', 0, 0)
			f.inc = 1 << 24
			g.frame(f, blob{})
			f = newFrame('S', 0, 0)
			f.settings = [][2]uint32{{4, 1 << 24}}
			g.frame(f, blob{})
		}
		for _, s := range g.streams {
			for !s.over && len(s.units) > 0 && r.chance(95) && !g.run.hung {
				g.sendUnit(s)
			}
		}
	}
	for nreq-g.nextTag > 0 && r.chance(50) && !g.run.hung {
		g.submit()
	}
	if r.chance(25) && !g.run.hung {
		g.do(&cliEvent{kind: []string{"E", "C"}[r.intn(2)]})
	}
	for _, tag := range g.tags {
		if r.chance(95) && !g.run.hung {
			g.do(&cliEvent{kind: "R", tag: tag})
		}
	}
	res := strings.Join(g.groups, " / ") + g.run.finish()
	return g.sc.String(), res
}

func genClient(c *genctx) {
	kinds := []string{"good", "goaway", "badmsg", "badframe", "flow", "races", "good", "flow"}
	for i := 0; i < c.n; i++ {
		kind := kinds[i%len(kinds)]
		if i%16 == 15 {
			kind = "download"
		}
		line, res := c.genClientScenario(kind)
		c.st.size(strings.Count(line, " | "))
		for _, k := range []string{"HANG", ":goaway:", ":nostreams:", ":closed:", ":timeout:", ":malformed:", ":conn:", ":write:", ":nil:", ":reset", "!bad", "!pool"} {
			if strings.Contains(res, k) {
				c.st.result(strings.Trim(k, ":!"))
			}
		}
		c.emit(kind, line, res, "-")
	}
}
