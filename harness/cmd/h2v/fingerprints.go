package main

// h2v fingerprints <repo dir>
//
// Prints, as JSON, one hash per function (and one per file for its top-level var/const/type
// declarations) of the library's non-test sources, computed from the gofmt-normalised syntax tree
// with comments dropped.  ./check compares them with /verif/model_basis.json (the tree the
// hand-written models were last aligned with): a difference is not a violation, it tells the
// check WHERE the code moved, is listed in the evidence, and makes the correspondence suites that
// cover the file run with larger generators (DESIGN.md 3.3).

import (
	"bytes"
	"crypto/sha256"
	"encoding/hex"
	"encoding/json"
	"fmt"
	"go/ast"
	"go/parser"
	"go/printer"
	"go/token"
	"os"
	"path/filepath"
	"sort"
	"strings"
)

func fpHash(fset *token.FileSet, n interface{}) string {
	var b bytes.Buffer
	cfg := printer.Config{Mode: printer.UseSpaces | printer.TabIndent, Tabwidth: 8}
	_ = cfg.Fprint(&b, fset, n)
	h := sha256.Sum256(b.Bytes())
	return hex.EncodeToString(h[:8])
}

func recvName(fd *ast.FuncDecl) string {
	if fd.Recv == nil || len(fd.Recv.List) == 0 {
		return ""
	}
	t := fd.Recv.List[0].Type
	for {
		switch x := t.(type) {
		case *ast.StarExpr:
			t = x.X
			continue
		case *ast.IndexExpr:
			t = x.X
			continue
		case *ast.Ident:
			return x.Name + "."
		}
		return "?."
	}
}

func fingerprints(root string) {
	out := map[string]string{}
	for _, dir := range []string{".", "http2utils"} {
		ents, err := os.ReadDir(filepath.Join(root, dir))
		if err != nil {
			continue
		}
		for _, e := range ents {
			name := e.Name()
			if e.IsDir() || !strings.HasSuffix(name, ".go") || strings.HasSuffix(name, "_test.go") || strings.HasPrefix(name, "verif_") {
				continue
			}
			rel := filepath.Join(dir, name)
			fset := token.NewFileSet()
			f, err := parser.ParseFile(fset, filepath.Join(root, rel), nil, 0) // comments dropped
			if err != nil {
				out[rel+":<parse>"] = "error"
				continue
			}
			var decls []ast.Decl
			for _, d := range f.Decls {
				if fd, ok := d.(*ast.FuncDecl); ok {
					key := rel + ":" + recvName(fd) + fd.Name.Name
					if _, dup := out[key]; dup { // init() may repeat
						key += "'"
					}
					out[key] = fpHash(fset, fd)
				} else if gd, ok := d.(*ast.GenDecl); ok && gd.Tok != token.IMPORT {
					decls = append(decls, d)
				}
			}
			if len(decls) > 0 {
				var b bytes.Buffer
				for _, d := range decls {
					b.WriteString(fpHash(fset, d))
				}
				h := sha256.Sum256(b.Bytes())
				out[rel+":<decls>"] = hex.EncodeToString(h[:8])
			}
		}
	}
	keys := make([]string, 0, len(out))
	for k := range out {
		keys = append(keys, k)
	}
	sort.Strings(keys)
	ordered := make([][2]string, 0, len(keys))
	for _, k := range keys {
		ordered = append(ordered, [2]string{k, out[k]})
	}
	// stable, diff-friendly output: one "key": "hash" per line
	fmt.Println("{")
	for i, kv := range ordered {
		kb, _ := json.Marshal(kv[0])
		comma := ","
		if i == len(ordered)-1 {
			comma = ""
		}
		fmt.Printf(" %s: \"%s\"%s\n", kb, kv[1], comma)
	}
	fmt.Println("}")
}
