package main

// Connection-grain harness for the client: the real Conn (NewConn + Handshake)
// runs on one end of an in-memory duplex; this file is the scripted server, the
// callers (Conn.Write + receive on Ctx.Err through the verif shims), the cancel
// timers and whoever calls Close. A scenario is the server's first SETTINGS and
// a list of events; after every event the harness waits for quiescence (hook
// counters, no sleeps as synchronisation) and records what the client wrote and
// what the callers got (lockstep mode).
//
// Line format (one scenario per line, " | " between events):
//   cli S=<id=val,...|-> arm=<0|1>
//   S <tag> <q> <host> <method> <path> <scheme> <ua> <fields> <body>   submit (views of the fasthttp.Request, hex)
//        q: 1 if Conn.Write's first select put the Ctx on c.in (observed), body: b:<bytes> | s:<size>:<bytes>/<n|e|f>,...
//   S1 <tag> <q> ... | S2 <tag>     the same Write in two halves: up to its first select (held there by a gate), and the rest
//   F <K> <flags> <sid> <payload> <pad> <dep> <weight> <code> <inc> <settings>   a frame from the server (as in the server suite)
//   B <bytes> <unknown|bad|cut>     raw bytes from the server (cut: then the server closes)
//   R <tag>                         the caller of tag receives from Err (then reusable/takeBack/releaseCtx)
//   T <tag> | T1 <tag> | T2 <tag>   the cancel timer of tag runs out (both halves of fireTimeout / the first / the second)
//   C | C1 | C2                     a caller's Conn.Close (whole / up to close(done) / the rest)
//   E                               the server closes the connection
//   HW <8 bytes>                    the write loop is held at the top of its loop: a gate is set there and the server sends PING, whose
//                                   acknowledgement takes the loop round to the gate
//   RW w=<in>,<out>,<win>           the write loop is let go; observed: how many times it took each select case before it saw done
//   X                               writes to the socket fail from now on
//   each event may end with " o=<sid,...>": the order in which streams got DATA during the event (Go's map order, observed)
// <bytes> is hex, "-" for none, or g<len>.<seed> for the generated pattern genBytes(len, seed).

import (
	"encoding/binary"
	"errors"
	"fmt"
	"io"
	"net"
	"sort"
	"strconv"
	"strings"
	"sync"
	"sync/atomic"
	"time"

	http2 "github.com/dgrr/http2"
	"github.com/valyala/fasthttp"
	"github.com/valyala/fasthttp/fasthttputil"
	"golang.org/x/net/http2/hpack"
)

// ---------------------------------------------------------------- byte strings

// genBytes is the pattern behind g<len>.<seed>; the OCaml driver has the same function.
func genBytes(n, seed int) []byte {
	b := make([]byte, n)
	for i := range b {
		b[i] = byte((i*131 + seed*17 + (i/256)*29) % 251)
	}
	return b
}

type blob struct {
	b    []byte
	gen  bool
	seed int
}

func lit(b []byte) blob        { return blob{b: b} }
func genBlob(n, seed int) blob { return blob{b: genBytes(n, seed), gen: true, seed: seed} }

func (x blob) String() string {
	if x.gen && len(x.b) > 0 {
		return fmt.Sprintf("g%d.%d", len(x.b), x.seed)
	}
	return hx(x.b)
}

func parseBlob(s string) blob {
	if strings.HasPrefix(s, "g") {
		p := strings.SplitN(s[1:], ".", 2)
		n, _ := strconv.Atoi(p[0])
		seed, _ := strconv.Atoi(p[1])
		return genBlob(n, seed)
	}
	return lit(unhx(s))
}

// proj is how payloads and bodies appear in result lines: short ones in hex, long ones as length and FNV-1a 64.
func proj(b []byte) string {
	if len(b) <= 48 {
		return hx(b)
	}
	h := uint64(0xcbf29ce484222325)
	for _, c := range b {
		h ^= uint64(c)
		h *= 0x100000001b3
	}
	return fmt.Sprintf("#%d.%016x", len(b), h)
}

// ---------------------------------------------------------------- scenario

type cliRead struct {
	data blob
	err  byte // n nil, e EOF, f failure
}

// cliReq is a request as the connection reads it from the fasthttp.Request.
type cliReq struct {
	host, method, path, scheme, ua []byte
	fields                         [][2]string
	streamed                       bool
	body                           blob
	reads                          []cliRead
	size                           int
}

type cliEvent struct {
	kind  string // S F B R T T1 T2 C C1 C2 E X
	tag   int
	q     int
	req   *cliReq
	fr    frameSpec
	pl    blob // the frame's payload (fr.payload is its bytes)
	raw   []byte
	class string
	order []uint32
	took  [3]int // RW: cases the write loop took after it was let go
}

type cliScenario struct {
	settings [][2]uint32
	arm      bool
	// conforming: the scripted server of this scenario sends only what a conforming server may (no frame or
	// message offences), so it can hold the client to C14: its view of the client's connection receive window
	// never stays below half of what the client announced
	conforming bool
	evs        []*cliEvent
}

func (r *cliReq) String() string {
	body := "b:" + r.body.String()
	if r.streamed {
		parts := make([]string, len(r.reads))
		for i, rd := range r.reads {
			parts[i] = rd.data.String() + "/" + string(rd.err)
		}
		rs := "-"
		if len(parts) > 0 {
			rs = strings.Join(parts, ",")
		}
		body = fmt.Sprintf("s:%d:%s", r.size, rs)
	}
	return fmt.Sprintf("%s %s %s %s %s %s %s", hx(r.host), hx(r.method), hx(r.path), hx(r.scheme), hx(r.ua), fmtFields(r.fields), body)
}

func (e *cliEvent) String() string {
	var s string
	switch e.kind {
	case "S", "S1":
		s = fmt.Sprintf("%s %d %d %s", e.kind, e.tag, e.q, e.req.String())
	case "F":
		f := &e.fr
		pad, dep := "-", "-"
		if f.pad >= 0 {
			pad = strconv.Itoa(f.pad)
		}
		if f.dep >= 0 {
			dep = strconv.FormatInt(f.dep, 10)
		}
		s = fmt.Sprintf("F %c %02x %d %s %s %s %d %d %d %s", f.kind, f.flags, f.sid, e.pl.String(), pad, dep, f.weight, f.code, f.inc, fmtSettings(f.settings))
	case "B":
		s = fmt.Sprintf("B %s %s", hx(e.raw), e.class)
	case "R", "T", "T1", "T2", "S2":
		s = fmt.Sprintf("%s %d", e.kind, e.tag)
	case "HW":
		s = "HW " + hx(e.raw)
	case "RW":
		s = fmt.Sprintf("RW w=%d,%d,%d", e.took[0], e.took[1], e.took[2])
	default:
		s = e.kind
	}
	if len(e.order) > 0 {
		parts := make([]string, len(e.order))
		for i, id := range e.order {
			parts[i] = strconv.Itoa(int(id))
		}
		s += " o=" + strings.Join(parts, ",")
	}
	return s
}

func (sc *cliScenario) String() string {
	arm := 0
	if sc.arm {
		arm = 1
	}
	head := fmt.Sprintf("cli S=%s arm=%d", fmtSettings(sc.settings), arm)
	if sc.conforming {
		head += " rc=1"
	}
	parts := []string{head}
	for _, e := range sc.evs {
		parts = append(parts, e.String())
	}
	return strings.Join(parts, " | ")
}

func parseSettingsList(s string) [][2]uint32 {
	var out [][2]uint32
	if s == "-" {
		return nil
	}
	for _, kv := range strings.Split(s, ",") {
		p := strings.SplitN(kv, "=", 2)
		a, _ := strconv.ParseUint(p[0], 10, 32)
		b, _ := strconv.ParseUint(p[1], 10, 32)
		out = append(out, [2]uint32{uint32(a), uint32(b)})
	}
	return out
}

func parseCliScenario(line string) *cliScenario {
	parts := strings.Split(line, " | ")
	sc := &cliScenario{}
	for _, kv := range strings.Fields(parts[0])[1:] {
		p := strings.SplitN(kv, "=", 2)
		switch p[0] {
		case "S":
			sc.settings = parseSettingsList(p[1])
		case "arm":
			sc.arm = p[1] == "1"
		case "rc":
			sc.conforming = p[1] == "1"
		}
	}
	for _, p := range parts[1:] {
		t := strings.Fields(p)
		e := &cliEvent{kind: t[0]}
		if last := t[len(t)-1]; strings.HasPrefix(last, "o=") {
			for _, x := range strings.Split(last[2:], ",") {
				v, _ := strconv.Atoi(x)
				e.order = append(e.order, uint32(v))
			}
			t = t[:len(t)-1]
		}
		switch e.kind {
		case "S", "S1":
			e.tag, _ = strconv.Atoi(t[1])
			e.q, _ = strconv.Atoi(t[2])
			r := &cliReq{host: unhx(t[3]), method: unhx(t[4]), path: unhx(t[5]), scheme: unhx(t[6]), ua: unhx(t[7]), fields: parseFields(t[8])}
			if strings.HasPrefix(t[9], "b:") {
				r.body = parseBlob(t[9][2:])
			} else {
				q := strings.SplitN(t[9], ":", 3)
				r.streamed = true
				r.size, _ = strconv.Atoi(q[1])
				if q[2] != "-" {
					for _, rd := range strings.Split(q[2], ",") {
						x := strings.SplitN(rd, "/", 2)
						r.reads = append(r.reads, cliRead{parseBlob(x[0]), x[1][0]})
					}
				}
			}
			e.req = r
		case "F":
			f := &e.fr
			f.kind = t[1][0]
			fl, _ := strconv.ParseUint(t[2], 16, 8)
			f.flags = byte(fl)
			sid, _ := strconv.ParseUint(t[3], 10, 32)
			f.sid = uint32(sid)
			e.pl = parseBlob(t[4])
			f.payload = e.pl.b
			f.pad, f.dep = -1, -1
			if t[5] != "-" {
				f.pad, _ = strconv.Atoi(t[5])
			}
			if t[6] != "-" {
				f.dep, _ = strconv.ParseInt(t[6], 10, 64)
			}
			w, _ := strconv.Atoi(t[7])
			f.weight = byte(w)
			c, _ := strconv.ParseUint(t[8], 10, 32)
			f.code = uint32(c)
			inc, _ := strconv.ParseUint(t[9], 10, 32)
			f.inc = uint32(inc)
			f.settings = parseSettingsList(t[10])
		case "B":
			e.raw = unhx(t[1])
			e.class = t[2]
		case "R", "T", "T1", "T2", "S2":
			e.tag, _ = strconv.Atoi(t[1])
		case "HW":
			e.raw = unhx(t[1])
		case "RW":
			if len(t) > 1 && strings.HasPrefix(t[1], "w=") {
				for i, x := range strings.Split(t[1][2:], ",") {
					if i < 3 {
						e.took[i], _ = strconv.Atoi(x)
					}
				}
			}
		}
		sc.evs = append(sc.evs, e)
	}
	return sc
}

// ---------------------------------------------------------------- requests

// buildRequest makes the fasthttp.Request a cliReq describes.
func buildRequest(r *cliReq) *fasthttp.Request {
	req := fasthttp.AcquireRequest()
	req.SetRequestURI(string(r.scheme) + "://" + string(r.host) + string(r.path))
	req.Header.SetMethodBytes(r.method)
	for _, kv := range r.fields {
		switch strings.ToLower(kv[0]) {
		case "host", "content-length", "transfer-encoding":
			// derived by fasthttp from the URI and the body
		case "user-agent":
			req.Header.SetUserAgent(kv[1])
		case "content-type":
			req.Header.SetContentType(kv[1])
		default:
			req.Header.Add(kv[0], kv[1])
		}
	}
	if r.streamed {
		rs := make([]readRes, len(r.reads))
		for i, rd := range r.reads {
			rs[i] = readRes{append([]byte(nil), rd.data.b...), rd.err}
		}
		req.SetBodyStream(&scriptedReader{reads: rs}, r.size)
	} else if len(r.body.b) > 0 {
		req.SetBody(r.body.b)
	}
	return req
}

// viewRequest reads a fasthttp.Request the way writeRequest does. The body spec is taken from spec.
func viewRequest(req *fasthttp.Request, spec *cliReq) *cliReq {
	v := &cliReq{
		host:   append([]byte(nil), req.URI().Host()...),
		method: append([]byte(nil), req.Header.Method()...),
		path:   append([]byte(nil), req.URI().RequestURI()...),
		scheme: append([]byte(nil), req.URI().Scheme()...),
		ua:     append([]byte(nil), req.Header.UserAgent()...),
	}
	for k, val := range req.Header.All() {
		v.fields = append(v.fields, [2]string{string(k), string(val)})
	}
	v.streamed = req.IsBodyStream()
	if v.streamed {
		v.reads = spec.reads
		v.size = req.Header.ContentLength()
	} else {
		v.body = spec.body
		if len(req.Body()) == 0 {
			v.body = blob{}
		}
	}
	return v
}

// ---------------------------------------------------------------- runner

var errScriptedWrite = errors.New("scripted write failure")

// cliConn is the client's end of the pipe: it counts what the client has written
// and fails writes on demand.
type cliConn struct {
	net.Conn
	fail    atomic.Bool
	written atomic.Int64
}

func (c *cliConn) Write(p []byte) (int, error) {
	if c.fail.Load() {
		return 0, errScriptedWrite
	}
	n, err := c.Conn.Write(p)
	c.written.Add(int64(n))
	return n, err
}

type cliTag struct {
	req      *fasthttp.Request
	res      *fasthttp.Response
	ctx      *http2.Ctx
	returned bool
	fired    int
}

type cliRun struct {
	preface    []byte // the 24 bytes the client opened with
	sc         *cliScenario
	conn       *http2.Conn
	cc         *cliConn
	c2         net.Conn
	peer       *srvPeer
	dec        *hpack.Decoder
	tags       map[int]*cliTag
	sent       int64 // complete frames written to the client
	seen       int   // frames of peer.frames already reported
	consumed   int64 // bytes of the frames counted in consumedN
	consumedN  int
	timeouts   int64 // fireTimeout calls that have to finish
	resolvedT  int64 // fireTimeout calls that have to get past their resolve
	rlMustExit bool
	closeGate  func()
	closeRet   chan struct{}
	timerGate  func()
	wlGate     func()
	writeGate  func()
	writeRet   chan struct{}
	writeTag   int
	hung       bool
	groups     []string
	reqs       map[uint32]int // stream id -> tag, from the HEADERS observed
	bad        []string
	// the scripted server's view of the client's connection receive window (C14), and what the client announced
	recvConn, recvMax int64
	recvFlagged       bool
	goAwayLast        int64           // the smallest last-stream-id of the GOAWAY frames sent (-1: none)
	refused           map[uint32]bool // streams the server reset with REFUSED_STREAM

	// the scripted server's flow-control ledger (C07): what it has granted and what it has been sent
	connGranted, connSent int64
	strGranted, strSent   map[uint32]int64
	curInit               int64
	curMaxFrame           int
}

const cliHandshakeFrames = 3 // SETTINGS, WINDOW_UPDATE, SETTINGS ACK

func tick(t []int64, kind int) int64 { return t[kind] }

func clientTicks() []int64 {
	a := http2.VerifClientTicks()
	return a[:]
}

// startClientRun brings the connection up to the end of the handshake.
func startClientRun(sc *cliScenario) *cliRun {
	r := &cliRun{sc: sc, tags: map[int]*cliTag{}, reqs: map[uint32]int{}, connGranted: 65535, curInit: 65535, curMaxFrame: 16384,
		strGranted: map[uint32]int64{}, strSent: map[uint32]int64{}, goAwayLast: -1, refused: map[uint32]bool{}}
	r.ledgerSettings(sc.settings)
	pc := fasthttputil.NewPipeConns()
	r.cc = &cliConn{Conn: pc.Conn1()}
	r.c2 = pc.Conn2()
	http2.VerifTicksReset()
	http2.VerifPoolTrackerStart(false)
	r.peer = &srvPeer{conn: r.c2}
	r.dec = hpack.NewDecoder(4096, nil)
	go func() {
		pre := make([]byte, 24)
		if _, err := io.ReadFull(r.c2, pre); err != nil {
			return
		}
		r.peer.mu.Lock()
		r.preface = pre
		r.peer.mu.Unlock()
		go r.peer.readLoop()
		f := newFrame('S', 0, 0)
		f.settings = sc.settings
		_, _ = r.c2.Write(f.wire())
	}()
	r.conn = http2.NewConn(r.cc, http2.ConnOpts{PingInterval: time.Hour})
	if err := r.conn.Handshake(); err != nil {
		r.bad = append(r.bad, "handshake:"+err.Error())
		r.hung = true
		return r
	}
	// the three frames of the handshake
	deadline := time.Now().Add(5 * time.Second)
	for {
		n, closed := r.peer.count()
		if n >= cliHandshakeFrames || closed || time.Now().After(deadline) {
			break
		}
		time.Sleep(20 * time.Microsecond)
	}
	r.seen = cliHandshakeFrames
	r.peer.mu.Lock()
	if len(r.peer.frames) >= 2 && r.peer.frames[1].kind == 8 && len(r.peer.frames[1].payload) == 4 {
		r.recvMax = 65535 + int64(binary.BigEndian.Uint32(r.peer.frames[1].payload)&0x7fffffff)
	}
	r.peer.mu.Unlock()
	r.recvConn = r.recvMax
	for _, kv := range sc.settings {
		if kv[0] == 1 && kv[1] < 4096 {
			// the encoder will announce the smaller table; x/net's decoder accepts any size up to its own 4096
		}
	}
	r.quiesce()
	return r
}

func (r *cliRun) handshakeView() string {
	// the preface and the two frames of the handshake, byte for byte as the scripted server read them
	// (Impl/ClientSetup.v: cli_preface, cli_handshake_frames)
	r.peer.mu.Lock()
	defer r.peer.mu.Unlock()
	if len(r.peer.frames) < 2 {
		return "hs:?"
	}
	var raw []byte
	for _, f := range r.peer.frames[:2] {
		n := len(f.payload)
		raw = append(raw, byte(n>>16), byte(n>>8), byte(n), f.kind, f.flags, byte(f.sid>>24), byte(f.sid>>16), byte(f.sid>>8), byte(f.sid))
		raw = append(raw, f.payload...)
	}
	return "hs:" + hx(r.preface) + ":" + hx(raw)
}

// ledgerSettings applies a SETTINGS frame the server sends to its own ledger.
func (r *cliRun) ledgerSettings(kvs [][2]uint32) {
	for _, kv := range kvs {
		switch kv[0] {
		case 4:
			if kv[1] <= 1<<31-1 {
				delta := int64(kv[1]) - r.curInit
				for sid := range r.strGranted {
					r.strGranted[sid] += delta
				}
				r.curInit = int64(kv[1])
			}
		case 5:
			if kv[1] >= 16384 && kv[1] <= 1<<24-1 {
				r.curMaxFrame = int(kv[1])
			}
		}
	}
}

// ledgerData checks a DATA frame the client sent against the ledger.
func (r *cliRun) ledgerData(sid uint32, n int) {
	if n > r.curMaxFrame {
		r.bad = append(r.bad, fmt.Sprintf("data-frame-%d-over-max-frame-size-%d", n, r.curMaxFrame))
	}
	r.connSent += int64(n)
	r.strSent[sid] += int64(n)
	if r.connSent > r.connGranted {
		r.bad = append(r.bad, fmt.Sprintf("connection-window-exceeded-%d>%d", r.connSent, r.connGranted))
	}
	if g, ok := r.strGranted[sid]; !ok || r.strSent[sid] > g {
		r.bad = append(r.bad, fmt.Sprintf("stream-%d-window-exceeded-%d>%d", sid, r.strSent[sid], g))
	}
}

// peerConsumed is how many bytes of the client's the scripted server has read.
func (r *cliRun) peerConsumed() (int64, bool) {
	r.peer.mu.Lock()
	defer r.peer.mu.Unlock()
	for ; r.consumedN < len(r.peer.frames); r.consumedN++ {
		r.consumed += int64(9 + len(r.peer.frames[r.consumedN].payload))
	}
	return 24 + r.consumed, r.peer.closed
}

// quiesce waits until every goroutine of the connection has finished with what the
// event set off. It reports false when that does not happen (a goroutine is wedged).
func (r *cliRun) quiesce() bool {
	if r.hung {
		return false
	}
	deadline := time.Now().Add(3 * time.Second)
	stable := 0
	for {
		t := clientTicks()
		closed := r.conn.Closed()
		netClosed := tick(t, http2.VerifTickCliCloseDone) >= 1 && r.closeGate == nil
		rlOK := tick(t, http2.VerifTickCliRLExit) >= 1
		if !rlOK && !netClosed && !r.rlMustExit {
			rlOK = tick(t, http2.VerifTickCliRead) >= r.sent+1
		}
		wlOK := tick(t, http2.VerifTickCliWLExit) >= 1
		if !wlOK && r.wlGate != nil {
			// held: the loop is in its select or parked at the gate, not in the middle of a case
			taken := tick(t, http2.VerifTickCliInTaken) + tick(t, http2.VerifTickCliOutTaken) + tick(t, http2.VerifTickCliWinTaken) + tick(t, http2.VerifTickCliPingTaken)
			wlOK = tick(t, http2.VerifTickCliWLTop) == 1+taken
		} else if !wlOK && !closed {
			taken := tick(t, http2.VerifTickCliInTaken) + tick(t, http2.VerifTickCliOutTaken) + tick(t, http2.VerifTickCliWinTaken) + tick(t, http2.VerifTickCliPingTaken)
			wlOK = tick(t, http2.VerifTickCliInSent) == tick(t, http2.VerifTickCliInTaken) &&
				tick(t, http2.VerifTickCliOutSent) == tick(t, http2.VerifTickCliOutTaken) &&
				tick(t, http2.VerifTickCliWinSent) == tick(t, http2.VerifTickCliWinTaken) &&
				tick(t, http2.VerifTickCliWLTop) == 1+taken
		}
		timerOK := tick(t, http2.VerifTickCliTimeout) >= r.timeouts && tick(t, http2.VerifTickCliTimeoutResolved) >= r.resolvedT
		got, peerClosed := r.peerConsumed()
		peerOK := peerClosed || got == r.cc.written.Load()
		if rlOK && wlOK && timerOK && peerOK {
			stable++
			if stable >= 3 {
				return true
			}
			time.Sleep(10 * time.Microsecond)
			continue
		}
		stable = 0
		if time.Now().After(deadline) {
			r.hung = true
			return false
		}
		time.Sleep(20 * time.Microsecond)
	}
}

func classifyErr(err error) string {
	var h2e http2.Error
	switch {
	case err == nil:
		return "nil"
	case errors.Is(err, http2.ErrRequestCanceled):
		return "timeout"
	case errors.Is(err, http2.ErrGoAway):
		return "goaway"
	case errors.Is(err, http2.ErrConnectionClosed):
		return "closed"
	case errors.Is(err, http2.ErrNotAvailableStreams):
		return "nostreams"
	case errors.Is(err, http2.ErrNoMoreStreamIDs):
		return "noids"
	case errors.Is(err, errScriptedWrite), http2.VerifIsWriteError(err), errors.Is(err, fasthttputil.ErrConnectionClosed):
		// (the pipe's ErrConnectionClosed only ever comes out of Write)
		return "write"
	case errors.As(err, &h2e) && h2e.Debug() == "stream reset by the server":
		return fmt.Sprintf("reset%d", uint32(h2e.Code()))
	}
	msg := err.Error()
	if strings.HasPrefix(msg, "reading the request body") {
		return "body"
	}
	for _, m := range []string{"pseudo-header field after regular header field", "invalid :status pseudo-header",
		"header field name contains uppercase characters", "connection-specific header field", "invalid content-length",
		"invalid response pseudo-header"} {
		if strings.HasPrefix(msg, m) {
			return "malformed"
		}
	}
	return "conn"
}

func respView(res *fasthttp.Response) string {
	type kv struct{ k, v string }
	var fs []kv
	for k, v := range res.Header.All() {
		lk := strings.ToLower(string(k))
		if lk == "content-length" {
			continue
		}
		fs = append(fs, kv{lk, string(v)})
	}
	sort.SliceStable(fs, func(i, j int) bool { return fs[i].k < fs[j].k })
	parts := make([]string, len(fs))
	for i, f := range fs {
		parts[i] = hx([]byte(f.k)) + "=" + hx([]byte(f.v))
	}
	fields := "-"
	if len(parts) > 0 {
		fields = strings.Join(parts, ",")
	}
	cl := strconv.Itoa(res.Header.ContentLength())
	return fmt.Sprintf("%d:%s:%s:%s", res.StatusCode(), cl, fields, proj(res.Body()))
}

// gauges: what the connection thinks, or which loops have gone
func (r *cliRun) gauges() string {
	t := clientTicks()
	rl, wl := tick(t, http2.VerifTickCliRLExit) >= 1, tick(t, http2.VerifTickCliWLExit) >= 1
	if rl || wl {
		return fmt.Sprintf("x%d%d", b2i(rl), b2i(wl))
	}
	open, next, queued, pending, cw, sw, ms, mf, ga := r.conn.VerifClientGauges()
	return fmt.Sprintf("g%d,%d,%d,%d,%d,%d,%d,%d,%d", open, queued, pending, cw, sw, next, ms, mf, ga)
}

func b2i(b bool) int {
	if b {
		return 1
	}
	return 0
}

// report collects what the event produced: frames the client wrote (HEADERS and DATA, which the write
// loop writes itself, before the frames that went through c.out: the two interleave as Go's select pleases).
func (r *cliRun) report(ev *cliEvent, extra []string) string {
	r.peer.mu.Lock()
	fr := append([]obsFrame(nil), r.peer.frames[r.seen:]...)
	r.seen = len(r.peer.frames)
	r.peer.mu.Unlock()
	var direct, queued []string
	ev.order = nil
	for _, f := range fr {
		switch f.kind {
		case 0:
			direct = append(direct, fmt.Sprintf("D%d:%d:%s", f.sid, f.flags&1, proj(f.payload)))
			r.ledgerData(f.sid, len(f.payload))
			known := false
			for _, id := range ev.order {
				known = known || id == f.sid
			}
			if !known {
				ev.order = append(ev.order, f.sid)
			}
			if f.flags&^1 != 0 {
				r.bad = append(r.bad, "dataflags")
			}
		case 1:
			direct = append(direct, fmt.Sprintf("H%d:%d:%s", f.sid, f.flags&1, hx(f.payload)))
			r.strGranted[f.sid] = r.curInit
			r.checkRequestBlock(f)
		case 3:
			if code := binary.BigEndian.Uint32(f.payload); code == 2 {
				// INTERNAL_ERROR is the reset the write loop writes itself (a request body that failed)
				direct = append(direct, fmt.Sprintf("R%d:%d", f.sid, code))
			} else {
				queued = append(queued, fmt.Sprintf("R%d:%d", f.sid, code))
			}
		case 4:
			if f.flags&1 == 1 && len(f.payload) == 0 {
				queued = append(queued, "SA")
			} else {
				queued = append(queued, "S"+hx(f.payload))
			}
		case 6:
			if f.flags&1 == 1 {
				queued = append(queued, "PA"+hx(f.payload))
			} else {
				queued = append(queued, "P")
			}
		case 7:
			queued = append(queued, fmt.Sprintf("G%d:%d", binary.BigEndian.Uint32(f.payload)&0x7fffffff, binary.BigEndian.Uint32(f.payload[4:])))
		case 8:
			queued = append(queued, fmt.Sprintf("W%d:%d", f.sid, binary.BigEndian.Uint32(f.payload)&0x7fffffff))
			if f.sid == 0 {
				r.recvConn += int64(binary.BigEndian.Uint32(f.payload) & 0x7fffffff)
			}
		default:
			queued = append(queued, fmt.Sprintf("?%d", f.kind))
		}
	}
	if r.sc.conforming && !r.hung && !r.rlMustExit && r.conn != nil && !r.conn.Closed() && r.recvConn >= 0 && r.recvConn < r.recvMax/2 && !r.recvFlagged {
		r.recvFlagged = true
		r.bad = append(r.bad, fmt.Sprintf("conn-recv-window-%d-below-half-of-%d", r.recvConn, r.recvMax))
	}
	items := append(append(direct, queued...), extra...)
	if r.hung {
		items = append(items, "HANG")
	} else {
		items = append(items, r.gauges())
	}
	return strings.Join(items, ";")
}

// checkRequestBlock decodes a request's header block with x/net and compares it with the request
// that was submitted (C02, request side). HEADERS arrive in submission order.
func (r *cliRun) checkRequestBlock(f obsFrame) {
	if f.flags&4 == 0 {
		r.bad = append(r.bad, "headers-without-end-headers")
		return
	}
	hfs, err := decodeFullLenient(r.dec, f.payload)
	if err != nil {
		r.bad = append(r.bad, "block-undecodable")
		return
	}
	// the request this is: the one whose Ctx was given this stream id
	var tag = -1
	for t, tg := range r.tags {
		taken := false
		for _, t2 := range r.reqs {
			taken = taken || t2 == t
		}
		if !taken && !tg.returned && tg.ctx.VerifStreamID() == f.sid {
			tag = t
		}
	}
	if tag < 0 {
		r.bad = append(r.bad, "headers-for-nobody")
		return
	}
	r.reqs[f.sid] = tag
	var req *cliReq
	for _, e := range r.sc.evs {
		if (e.kind == "S" || e.kind == "S1") && e.tag == tag {
			req = e.req
		}
	}
	want := [][2]string{{":authority", string(req.host)}, {":method", string(req.method)}, {":path", string(req.path)}, {":scheme", string(req.scheme)}, {"user-agent", string(req.ua)}}
	for _, kv := range req.fields {
		lk := strings.ToLower(kv[0])
		switch lk {
		case "user-agent", "connection", "keep-alive", "proxy-connection", "transfer-encoding", "upgrade":
			continue
		}
		want = append(want, [2]string{lk, kv[1]})
	}
	ok := len(want) == len(hfs)
	for i := 0; ok && i < len(want); i++ {
		ok = want[i][0] == hfs[i].Name && want[i][1] == hfs[i].Value
	}
	if !ok {
		r.bad = append(r.bad, fmt.Sprintf("block-differs-from-request-%d", tag))
	}
	hasBody := req.streamed || len(req.body.b) > 0
	if (f.flags&1 == 1) == hasBody {
		r.bad = append(r.bad, "end-stream-on-headers")
	}
	if f.sid%2 != 1 {
		r.bad = append(r.bad, "even-stream-id")
	}
}

// step runs one event and returns its result group.
func (r *cliRun) step(ev *cliEvent) string {
	if r.hung {
		return "-"
	}
	var extra []string
	switch ev.kind {
	case "S", "S1":
		if r.writeGate != nil {
			// a Write is parked between its selects: another one would park at the same gate
			r.bad = append(r.bad, "submit-while-write-held")
			break
		}
		req := buildRequest(ev.req)
		res := fasthttp.AcquireResponse()
		res.Header.SetNoDefaultContentType(true)
		ctx := http2.VerifAcquireCtx(req, res)
		if r.sc.arm {
			ctx.VerifArm(time.Hour)
		}
		r.tags[ev.tag] = &cliTag{req: req, res: res, ctx: ctx}
		before := tick(clientTicks(), http2.VerifTickCliInSent)
		done := make(chan struct{})
		if ev.kind == "S1" {
			r.writeGate = http2.VerifGate(http2.VerifTickCliInSent)
			r.writeRet, r.writeTag = done, ev.tag
		}
		go func() { r.conn.Write(ctx); close(done) }()
		if ev.kind == "S" {
			select {
			case <-done:
			case <-time.After(3 * time.Second):
				r.hung = true
			}
		} else {
			// until Write has queued the Ctx and sits at the gate, or has returned (done was closed and it took that case)
			for dl := time.Now().Add(3 * time.Second); tick(clientTicks(), http2.VerifTickCliInSent) == before; {
				returned := false
				select {
				case <-done:
					returned = true
				default:
				}
				if returned {
					r.writeGate()
					r.writeGate, r.writeRet = nil, nil
					break
				}
				if time.Now().After(dl) {
					r.hung = true
					break
				}
				time.Sleep(20 * time.Microsecond)
			}
		}
		ev.q = int(tick(clientTicks(), http2.VerifTickCliInSent) - before)
	case "S2":
		if r.writeGate != nil && r.writeTag == ev.tag {
			r.writeGate()
			select {
			case <-r.writeRet:
			case <-time.After(3 * time.Second):
				r.hung = true
			}
			r.writeGate, r.writeRet = nil, nil
		}
	case "F":
		r.sent++
		if ev.fr.kind == 'S' && ev.fr.flags&1 == 0 && ev.fr.sid == 0 {
			for _, kv := range ev.fr.settings {
				if kv[0] == 1 {
					r.dec.SetAllowedMaxDynamicTableSize(kv[1])
				}
			}
			r.ledgerSettings(ev.fr.settings)
		}
		if ev.fr.kind == 'A' && ev.fr.sid == 0 {
			if last := ev.fr.dep & 0x7fffffff; r.goAwayLast < 0 || last < r.goAwayLast {
				r.goAwayLast = last
			}
		}
		if ev.fr.kind == 'R' && ev.fr.code == 7 {
			r.refused[ev.fr.sid&0x7fffffff] = true
		}
		if ev.fr.kind == 'D' {
			n := int64(len(ev.fr.payload))
			if ev.fr.pad >= 0 {
				n += 1 + int64(ev.fr.pad)
			}
			r.recvConn -= n
		}
		if ev.fr.kind == 'W' {
			if sid := ev.fr.sid & 0x7fffffff; sid == 0 {
				r.connGranted += int64(ev.fr.inc & 0x7fffffff)
			} else if _, ok := r.strGranted[sid]; ok {
				r.strGranted[sid] += int64(ev.fr.inc & 0x7fffffff)
			}
		}
		_, _ = r.c2.Write(ev.fr.wire())
	case "B":
		if ev.class == "unknown" {
			r.sent++
		} else {
			r.rlMustExit = true
		}
		if len(ev.raw) > 0 {
			_, _ = r.c2.Write(ev.raw)
		}
		if ev.class == "cut" {
			_ = r.c2.Close()
		}
	case "E":
		r.rlMustExit = true
		_ = r.c2.Close()
	case "X":
		r.cc.fail.Store(true)
	case "R":
		extra = append(extra, r.receive(ev.tag))
	case "T", "T1":
		tg := r.tags[ev.tag]
		if tg != nil && !tg.returned && r.sc.arm && tg.fired == 0 && r.timerGate == nil {
			tg.fired = 1
			if ev.kind == "T1" {
				r.timerGate = http2.VerifGate(http2.VerifTickCliTimeoutResolved)
			} else {
				r.timeouts++
			}
			r.resolvedT++
			tg.ctx.VerifFireNow()
		}
	case "T2":
		tg := r.tags[ev.tag]
		if tg != nil && tg.fired == 1 && r.timerGate != nil {
			tg.fired = 2
			r.timeouts++
			r.timerGate()
			r.timerGate = nil
		}
	case "C", "C1":
		if r.closeRet == nil {
			if ev.kind == "C1" && !r.conn.Closed() {
				r.closeGate = http2.VerifGate(http2.VerifTickCliCloseDone)
			}
			r.closeRet = make(chan struct{})
			ret := r.closeRet
			go func() { _ = r.conn.Close(); close(ret) }()
			if r.closeGate == nil {
				select {
				case <-ret:
				case <-time.After(3 * time.Second):
					r.hung = true
				}
			} else {
				// until Close has closed done and sits at the gate
				for dl := time.Now().Add(3 * time.Second); tick(clientTicks(), http2.VerifTickCliCloseDone) < 1; {
					if time.Now().After(dl) {
						r.hung = true
						break
					}
					time.Sleep(20 * time.Microsecond)
				}
			}
		}
	case "HW":
		if r.wlGate == nil && len(ev.raw) == 8 {
			r.wlGate = http2.VerifGate(http2.VerifTickCliWLTop)
			f := newFrame('G', 0, 0)
			f.payload = ev.raw
			r.sent++
			_, _ = r.c2.Write(f.wire())
			// the acknowledgement has to be out before the loop counts as held
			before := tick(clientTicks(), http2.VerifTickCliOutTaken)
			for dl := time.Now().Add(3 * time.Second); tick(clientTicks(), http2.VerifTickCliOutTaken) == before && tick(clientTicks(), http2.VerifTickCliWLExit) == 0; {
				if time.Now().After(dl) {
					break
				}
				time.Sleep(20 * time.Microsecond)
			}
		}
	case "RW":
		if r.wlGate != nil {
			t0 := clientTicks()
			r.wlGate()
			r.wlGate = nil
			r.quiesce()
			t1 := clientTicks()
			ev.took = [3]int{int(tick(t1, http2.VerifTickCliInTaken) - tick(t0, http2.VerifTickCliInTaken)),
				int(tick(t1, http2.VerifTickCliOutTaken) - tick(t0, http2.VerifTickCliOutTaken)),
				int(tick(t1, http2.VerifTickCliWinTaken) - tick(t0, http2.VerifTickCliWinTaken))}
		}
	case "C2":
		if r.closeGate != nil {
			r.closeGate()
			r.closeGate = nil
			select {
			case <-r.closeRet:
			case <-time.After(3 * time.Second):
				r.hung = true
			}
		}
	}
	r.quiesce()
	return r.report(ev, extra)
}

// receive is the tail of roundTripOnce for the caller of tag, if its result is there.
func (r *cliRun) receive(tag int) string {
	tg := r.tags[tag]
	if tg == nil || tg.returned {
		return fmt.Sprintf("r%d:none", tag)
	}
	var err error
	select {
	case err = <-tg.ctx.Err:
	default:
		return fmt.Sprintf("r%d:none", tag)
	}
	reuse := false
	done := make(chan struct{})
	go func() {
		reuse = tg.ctx.VerifReusable()
		tg.ctx.VerifTakeBack()
		close(done)
	}()
	select {
	case <-done:
	case <-time.After(3 * time.Second):
		r.hung = true
		return fmt.Sprintf("r%d:stuck", tag)
	}
	tg.returned = true
	view := respView(tg.res)
	if reuse {
		http2.VerifReleaseCtx(tg.ctx)
	} else {
		// a second delivery that arrived between the receive and takeBack would sit here
		select {
		case <-tg.ctx.Err:
			r.bad = append(r.bad, fmt.Sprintf("second-delivery-%d", tag))
		default:
		}
	}
	// C11: retryable only if the server cannot have processed the request
	if http2.VerifRetryable(err) {
		for sid, t := range r.reqs {
			if t == tag && !(r.goAwayLast >= 0 && int64(sid) > r.goAwayLast) && !r.refused[sid] {
				r.bad = append(r.bad, fmt.Sprintf("retryable-after-headers-%d", tag))
			}
		}
	}
	return fmt.Sprintf("r%d:%d:%s:%s:%d", tag, b2i(http2.VerifRetryable(err)), classifyErr(err), view, b2i(reuse))
}

// finish tears the connection down and returns the trailer of the result line.
func (r *cliRun) finish() string {
	if r.timerGate != nil {
		r.timerGate()
		r.timerGate = nil
	}
	if r.closeGate != nil {
		r.closeGate()
		r.closeGate = nil
	}
	if r.wlGate != nil {
		r.wlGate()
		r.wlGate = nil
	}
	if r.writeGate != nil {
		r.writeGate()
		r.writeGate = nil
	}
	_ = r.c2.Close()
	if r.conn != nil {
		_ = r.conn.Close()
	}
	// both loops have to be gone before the counters are reset for the next connection
	// (a loop wedged on a mutex never goes, and never ticks again either)
	for dl := time.Now().Add(2 * time.Second); time.Now().Before(dl); {
		t := clientTicks()
		if tick(t, http2.VerifTickCliRLExit) >= 1 && tick(t, http2.VerifTickCliWLExit) >= 1 {
			break
		}
		if r.hung && time.Now().After(dl.Add(-1500*time.Millisecond)) {
			break
		}
		time.Sleep(50 * time.Microsecond)
	}
	for _, tg := range r.tags {
		if !tg.returned {
			// stops an armed timer
			done := make(chan struct{})
			go func(tg *cliTag) { tg.ctx.VerifReusable(); close(done) }(tg)
			select {
			case <-done:
			case <-time.After(time.Second):
			}
		}
	}
	_, _, viol, _ := http2.VerifPoolTrackerStop()
	res := ""
	if len(viol) > 0 {
		res += " !pool:" + strings.Join(viol, ",")
	}
	if len(r.bad) > 0 {
		res += " !bad:" + strings.Join(r.bad, ",")
	}
	return res
}

var cliMu sync.Mutex

// runClientScenario executes a whole scenario and returns the canonical result line.
// The events' observed fields (q, order) are filled in.
func runClientScenario(sc *cliScenario) string {
	cliMu.Lock()
	defer cliMu.Unlock()
	r := startClientRun(sc)
	groups := []string{r.handshakeView()}
	for _, ev := range sc.evs {
		groups = append(groups, r.step(ev))
	}
	return strings.Join(groups, " / ") + r.finish()
}
