package main

// HPACK suites: "hpackdec" (C03, decoder) and "hpackenc" (C04, encoder).
//
// Case lines (bytes are lowercase hex, "-" when empty; a field is <name>:<value>:<sensitive 0|1>):
//
//	dechist <limit> <block>...                      blocks decoded one after the other by one decoder whose
//	                                                SETTINGS_HEADER_TABLE_SIZE is <limit> (SetMaxTableSize on a new HPACK)
//	    -> per block, joined by " ; ":  ok <fields> <table> | err        (decoding stops at the first err)
//	decframes <limit> <H|C><e|n>:<payload>...       HEADERS / CONTINUATION frames (e = END_HEADERS) through the
//	                                                header-block loop of serverConn.handleHeaderFrame
//	    -> ok <all fields> <table> | err
//	readint <n> <bytes>                             -> ok <value> <rest> | err <class>
//	readstr <bytes>                                 -> ok <string> <rest> | err <class>
//	nextfield <limit> <blockStart> <fieldsProcessed> <hf> <np> <prelude block>*np <bytes>
//	                                                one nextField call after decoding the prelude blocks
//	    -> ok <rest> <decoded> hf=<field> <table> | err <class> hf=<field> <table>
//	enchist <dc><dd> <op>...                        dc = DisableCompression, dd = DisableDynamicTable;
//	                                                ops: S<n> SetMaxTableSize(n) | B start of a block |
//	                                                F<name>:<value>:<store>:<sensitive> AppendHeader
//	    -> per block "<bytes> <encoder table>", then "end <encoder table>", joined by " ; "
//	appendint <bits> <dst> <index>                  -> <bytes>
//	appendstr <dst> <src> <huffman 0|1>             -> <bytes>
//
//	<fields> = f,f,... or "-"; <table> = dyn=<name>:<value>[!],...|-/max=<maxTableSize>/set=<maxTableSizeSettings>
//	(oldest entry first, "!" marks a stored sensitive flag); the encoder table adds /pend=<0|1>/pmin=<pendingMinSize>.

import (
	"errors"
	"fmt"
	"strconv"
	"strings"

	http2 "github.com/dgrr/http2"
	"golang.org/x/net/http2/hpack"
)

func init() {
	suites["hpackdec"] = genHpackDec
	replayers["hpackdec"] = runHpack
	suites["hpackenc"] = genHpackEnc
	replayers["hpackenc"] = runHpack
}

// ---------------------------------------------------------------- canonical strings

func b01(b bool) string {
	if b {
		return "1"
	}
	return "0"
}

func fldStr(k, v []byte, s bool) string { return hx(k) + ":" + hx(v) + ":" + b01(s) }

func joinOr(xs []string, sep string) string {
	if len(xs) == 0 {
		return "-"
	}
	return strings.Join(xs, sep)
}

func tblStr(hp *http2.HPACK, enc bool) string {
	entries, sens, max, set, pending := hp.VerifDynamic()
	var es []string
	for i, e := range entries {
		s := hx(e[0]) + ":" + hx(e[1])
		if sens[i] {
			s += "!"
		}
		es = append(es, s)
	}
	out := fmt.Sprintf("dyn=%s/max=%d/set=%d", joinOr(es, ","), max, set)
	if enc {
		out += fmt.Sprintf("/pend=%s/pmin=%d", b01(pending), hp.VerifPendingMinSize())
	}
	return out
}

func hpErrName(err error) string {
	var e http2.Error
	switch {
	case errors.As(err, &e):
		switch e.Code() {
		case http2.FlowControlError:
			return "notfound"
		case http2.CompressionError:
			return "compression"
		case http2.ProtocolError:
			return "incomplete"
		}
		return "code" + strconv.Itoa(int(e.Code()))
	case errors.Is(err, http2.ErrUnexpectedSize):
		return "size"
	case errors.Is(err, http2.ErrIntOverflow):
		return "overflow"
	case errors.Is(err, http2.ErrDynamicUpdate):
		return "dynupd"
	case errors.Is(err, http2.ErrDynamicUpdateMaxTableSize):
		return "dynmax"
	case strings.HasPrefix(err.Error(), "invalid huffman index"):
		return "huff1"
	case strings.HasPrefix(err.Error(), "bits left"):
		return "huff2"
	case strings.HasPrefix(err.Error(), "bits has a zero"):
		return "huff3"
	}
	return "other"
}

func atoi(s string) int {
	n, err := strconv.Atoi(s)
	if err != nil {
		panic(err)
	}
	return n
}

func atou(s string) uint64 {
	n, err := strconv.ParseUint(s, 10, 64)
	if err != nil {
		panic(err)
	}
	return n
}

// newDec returns a brand-new HPACK (never a recycled one: nothing is ever put
// back in the pool by the harness) whose table size is limit.
func newDec(limit uint64) *http2.HPACK {
	hp := http2.AcquireHPACK()
	hp.SetMaxTableSize(uint32(limit))
	return hp
}

// decodeFrame runs one frame through the server's header-block loop.
func decodeFrame(hp *http2.HPACK, strm *http2.VerifStreamBlock, payload []byte, cont, endh bool, out *[]string) error {
	return hp.VerifHandleHeaderFrame(strm, payload, cont, endh, func(hf *http2.HeaderField) {
		*out = append(*out, fldStr(hf.KeyBytes(), hf.ValueBytes(), hf.IsSensible()))
	})
}

// decodeBlock: a whole block in one HEADERS frame with END_HEADERS on a new stream.
func decodeBlock(hp *http2.HPACK, b []byte) ([]string, error) {
	var fs []string
	err := decodeFrame(hp, &http2.VerifStreamBlock{}, b, false, true, &fs)
	return fs, err
}

type hframe struct {
	cont, endh bool
	payload    []byte
}

func parseFrames(toks []string) []hframe {
	var frs []hframe
	for _, t := range toks {
		frs = append(frs, hframe{cont: t[0] == 'C', endh: t[1] == 'e', payload: unhx(t[3:])})
	}
	return frs
}

func frameTok(f hframe) string {
	t, e := "H", "n"
	if f.cont {
		t = "C"
	}
	if f.endh {
		e = "e"
	}
	return t + e + ":" + hx(f.payload)
}

// ---------------------------------------------------------------- the implementation on one case line

func runHpack(line string) (res string) {
	// a panic in the code under test is a result, not the end of the run
	defer func() {
		if r := recover(); r != nil {
			res = "panic"
		}
	}()
	return runHpackCase(line)
}

func runHpackCase(line string) string {
	f := strings.Fields(line)
	switch f[0] {
	case "dechist":
		hp := newDec(atou(f[1]))
		var res []string
		for _, t := range f[2:] {
			fs, err := decodeBlock(hp, unhx(t))
			if err != nil {
				res = append(res, "err")
				break
			}
			res = append(res, "ok "+joinOr(fs, ",")+" "+tblStr(hp, false))
		}
		return strings.Join(res, " ; ")
	case "decframes":
		hp := newDec(atou(f[1]))
		strm := &http2.VerifStreamBlock{}
		var fs []string
		for _, fr := range parseFrames(f[2:]) {
			if err := decodeFrame(hp, strm, fr.payload, fr.cont, fr.endh, &fs); err != nil {
				return "err"
			}
		}
		return "ok " + joinOr(fs, ",") + " " + tblStr(hp, false)
	case "readint":
		rest, v, err := http2.VerifReadInt(atoi(f[1]), unhx(f[2]))
		if err != nil {
			return "err " + hpErrName(err)
		}
		return fmt.Sprintf("ok %d %s", v, hx(rest))
	case "readstr":
		rest, s, err := http2.VerifReadString(nil, unhx(f[1]))
		if err != nil {
			return "err " + hpErrName(err)
		}
		return "ok " + hx(s) + " " + hx(rest)
	case "nextfield":
		hp := newDec(atou(f[1]))
		np := atoi(f[5])
		for _, t := range f[6 : 6+np] {
			if _, err := decodeBlock(hp, unhx(t)); err != nil {
				return "prelude-err"
			}
		}
		hf := http2.AcquireHeaderField()
		p := strings.Split(f[4], ":")
		hf.SetBytes(unhx(p[0]), unhx(p[1]))
		hf.VerifSetSensible(p[2] == "1")
		rest, decoded, err := hp.VerifNextField2(hf, f[2] == "1", atoi(f[3]), unhx(f[6+np]))
		var r string
		if err != nil {
			r = "err " + hpErrName(err)
		} else {
			r = "ok " + hx(rest) + " " + b01(decoded)
		}
		return r + " hf=" + fldStr(hf.KeyBytes(), hf.ValueBytes(), hf.IsSensible()) + " " + tblStr(hp, false)
	case "enchist":
		res, _ := runEncHist(f[1], f[2:])
		return res
	case "appendint":
		return hx(http2.VerifAppendInt(unhx(f[2]), uint8(atoi(f[1])), atou(f[3])))
	case "appendstr":
		return hx(http2.VerifAppendString(unhx(f[1]), unhx(f[2]), f[3] == "1"))
	}
	return "?"
}

// runEncHist returns the result line and, per block, the emitted bytes.
func runEncHist(flags string, ops []string) (string, [][]byte) {
	hp := http2.AcquireHPACK()
	hp.DisableCompression = flags[0] == '1'
	hp.DisableDynamicTable = flags[1] == '1'
	var res []string
	var blocks [][]byte
	var cur []byte
	in := false
	flush := func() {
		if in {
			res = append(res, hx(cur)+" "+tblStr(hp, true))
			blocks = append(blocks, cur)
		}
		in, cur = false, nil
	}
	for _, op := range ops {
		switch op[0] {
		case 'S':
			flush()
			hp.SetMaxTableSize(uint32(atou(op[1:])))
		case 'B':
			flush()
			in = true
		case 'F':
			in = true
			p := strings.Split(op[1:], ":")
			hf := http2.AcquireHeaderField()
			hf.SetBytes(unhx(p[0]), unhx(p[1]))
			hf.VerifSetSensible(p[3] == "1")
			cur = hp.AppendHeader(cur, hf, p[2] == "1")
		}
	}
	flush()
	res = append(res, "end "+tblStr(hp, true))
	return strings.Join(res, " ; "), blocks
}

// ---------------------------------------------------------------- the reference implementation (x/net)

// xnetDecoder feeds header blocks to golang.org/x/net's hpack.Decoder. x/net clears its
// "first field" flag after any representation, a size update included, and then refuses a
// second size update while the table is not empty; RFC 7541 4.2 allows two. The leading size
// updates of a block are therefore written one by one, each followed by Close (which re-arms
// the flag); their limit check and the eviction stay x/net's.
type xnetDecoder struct {
	d   *hpack.Decoder
	out []string
}

func newXnet(limit uint64) *xnetDecoder {
	x := &xnetDecoder{}
	x.d = hpack.NewDecoder(uint32(limit), func(f hpack.HeaderField) {
		x.out = append(x.out, fldStr([]byte(f.Name), []byte(f.Value), f.Sensitive))
	})
	return x
}

// leadingUpdate returns the length of a complete size update at the start of b, or 0.
func leadingUpdate(b []byte) int {
	if len(b) == 0 || b[0]&0xe0 != 0x20 {
		return 0
	}
	if b[0]&0x1f != 0x1f {
		return 1
	}
	for i := 1; i < len(b); i++ {
		if b[i]&0x80 == 0 {
			return i + 1
		}
	}
	return 0
}

func (x *xnetDecoder) block(b []byte) ([]string, error) {
	x.out = nil
	for {
		n := leadingUpdate(b)
		if n == 0 || n == len(b) {
			break
		}
		if _, err := x.d.Write(b[:n]); err != nil {
			return nil, err
		}
		if err := x.d.Close(); err != nil {
			return nil, err
		}
		b = b[n:]
	}
	if _, err := x.d.Write(b); err != nil {
		return nil, err
	}
	if err := x.d.Close(); err != nil {
		return nil, err
	}
	return x.out, nil
}

// refHpack is the reference column; the table is not observable on x/net ("*").
func refHpack(line string) string {
	f := strings.Fields(line)
	switch f[0] {
	case "dechist":
		x := newXnet(atou(f[1]))
		var res []string
		for _, t := range f[2:] {
			fs, err := x.block(unhx(t))
			if err != nil {
				res = append(res, "err")
				break
			}
			res = append(res, "ok "+joinOr(fs, ",")+" *")
		}
		return strings.Join(res, " ; ")
	case "decframes":
		x := newXnet(atou(f[1]))
		var all []string
		var cur []byte
		open := false
		for _, fr := range parseFrames(f[2:]) {
			if fr.cont != open {
				return "-"
			}
			cur = append(cur, fr.payload...)
			open = !fr.endh
			if fr.endh {
				fs, err := x.block(cur)
				if err != nil {
					return "err"
				}
				all = append(all, fs...)
				cur = nil
			}
		}
		if open {
			return "-"
		}
		return "ok " + joinOr(all, ",") + " *"
	case "enchist":
		// x/net decodes what the implementation emitted; the verdict is the implementation's
		// own result line when every block gives back the fields that went in
		impl, blocks := runEncHist(f[1], f[2:])
		x := newXnet(4096)
		bi := 0
		var want []string
		in := false
		check := func() string {
			if !in {
				return ""
			}
			got, err := x.block(blocks[bi])
			bi++
			if err != nil {
				return fmt.Sprintf("xnet-viol block %d rejected: %v", bi, err)
			}
			if strings.Join(got, ",") != strings.Join(want, ",") {
				return fmt.Sprintf("xnet-viol block %d decodes to %s instead of %s", bi, joinOr(got, ","), joinOr(want, ","))
			}
			in, want = false, nil
			return ""
		}
		for _, op := range f[2:] {
			switch op[0] {
			case 'S':
				if v := check(); v != "" {
					return v
				}
				x.d.SetAllowedMaxDynamicTableSize(uint32(atou(op[1:])))
			case 'B':
				if v := check(); v != "" {
					return v
				}
				in = true
			case 'F':
				in = true
				p := strings.Split(op[1:], ":")
				want = append(want, fldStr(unhx(p[0]), unhx(p[1]), p[3] == "1"))
			}
		}
		if v := check(); v != "" {
			return v
		}
		return impl
	}
	return "-"
}

// ---------------------------------------------------------------- wire writer of the generator

func putInt(dst []byte, n uint, pattern byte, v uint64, pad int) []byte {
	full := uint64(1)<<n - 1
	if v < full {
		return append(dst, pattern|byte(v))
	}
	dst = append(dst, pattern|byte(full))
	v -= full
	for v >= 128 {
		dst = append(dst, byte(v&127)|128)
		v >>= 7
	}
	if pad == 0 {
		return append(dst, byte(v))
	}
	// non-canonical: pad more-significant zero groups
	dst = append(dst, byte(v)|128)
	for i := 1; i < pad; i++ {
		dst = append(dst, 128)
	}
	return append(dst, 0)
}

func putStr(dst []byte, s []byte, huff bool) []byte {
	if huff {
		e := hpack.AppendHuffmanString(nil, string(s))
		dst = putInt(dst, 7, 0x80, uint64(len(e)), 0)
		return append(dst, e...)
	}
	dst = putInt(dst, 7, 0, uint64(len(s)), 0)
	return append(dst, s...)
}

// shadow dynamic table of the generator (newest first), used only to aim index choices
type shadow struct {
	ents        [][2][]byte
	max         uint64
	limit       uint64
	lastEvicted int // index that pointed at the most recently evicted entry, 0 if none
}

func (t *shadow) size() uint64 {
	var n uint64
	for _, e := range t.ents {
		n += uint64(len(e[0]) + len(e[1]) + 32)
	}
	return n
}

func (t *shadow) evict() {
	for len(t.ents) > 0 && t.size() > t.max {
		t.ents = t.ents[:len(t.ents)-1]
		t.lastEvicted = 62 + len(t.ents)
	}
}

func (t *shadow) add(k, v []byte) {
	t.ents = append([][2][]byte{{k, v}}, t.ents...)
	t.evict()
}

func (t *shadow) at(i uint64) ([2][]byte, bool) {
	st := http2.VerifStaticTable()
	if i >= 1 && i <= uint64(len(st)) {
		return st[i-1], true
	}
	if i >= 62 && i-62 < uint64(len(t.ents)) {
		return t.ents[i-62], true
	}
	return [2][]byte{}, false
}

var valueLens = []int{0, 1, 2, 3, 5, 8, 13, 30, 31, 32, 33, 62, 63, 64, 65, 100, 125, 126, 127, 128, 129, 130}

const lowerAlpha = "abcdefghijklmnopqrstuvwxyz0123456789-"

func (c *genctx) text(n int) []byte {
	b := make([]byte, n)
	for i := range b {
		b[i] = lowerAlpha[c.r.intn(len(lowerAlpha))]
	}
	return b
}

// genString: a name or value. sweep >= 0 forces the length.
func (c *genctx) genString(sweep int) []byte {
	if sweep >= 0 {
		if c.r.chance(30) {
			return c.r.bytes(sweep)
		}
		return c.text(sweep)
	}
	switch c.r.intn(12) {
	case 0:
		return nil
	case 1:
		return c.r.bytes(c.r.intn(6))
	case 2:
		return c.text(valueLens[c.r.intn(len(valueLens))])
	case 3:
		return c.text(c.r.intn(131))
	case 4:
		return c.text(c.r.pick(254, 255, 256, 300))
	default:
		return c.text(1 + c.r.intn(12))
	}
}

// blockGen builds one header block from the representation grammar. It returns the bytes and,
// when it planted something the decoder must refuse, what.
type blockGen struct {
	c     *genctx
	t     *shadow
	sweep *int
	bad   string
	late  bool // a size update after a field (x/net is lenient about those)
	plant bool // this history may contain something the decoder must refuse
}

func (g *blockGen) pickIndex(forName bool) (uint64, int) {
	c, t := g.c, g.t
	pad := 0
	if c.r.chance(3) {
		pad = 1 + c.r.intn(3)
	}
	if g.plant && c.r.chance(6) { // an index the decoder must refuse
		switch x := c.r.intn(10); {
		case x < 5: // just past the table: the entry evicted last lived there
			g.bad = "index-past-table"
			c.st.result("planted:index-past-table")
			return uint64(62 + len(t.ents) + c.r.intn(2)), pad
		case x < 7 && !forName:
			g.bad = "index-0"
			c.st.result("planted:index-0")
			return 0, 0
		default:
			g.bad = "index-huge"
			c.st.result("planted:index-huge")
			return []uint64{1 << 16, 1 << 32, 1<<32 + 5, 1<<63 - 1, 1 << 63, 1<<63 + 100}[c.r.intn(6)], 0
		}
	}
	if len(t.ents) > 0 && c.r.chance(45) {
		c.st.result("index:dynamic")
		switch c.r.intn(3) {
		case 0:
			return 62, pad // newest
		case 1:
			return uint64(62 + len(t.ents) - 1), pad // oldest
		}
		return uint64(62 + c.r.intn(len(t.ents))), pad
	}
	c.st.result("index:static")
	return uint64(1 + c.r.intn(61)), pad
}

func (g *blockGen) sizeUpdate(dst []byte) []byte {
	c, t := g.c, g.t
	var v uint64
	switch x := c.r.intn(100); {
	case x < 70:
		v = []uint64{0, 1, 31, 32, 33, 64, 100, 200, t.limit / 2, t.limit - 1, t.limit}[c.r.intn(11)]
		if v > t.limit {
			v = t.limit
		}
	case x < 85:
		v = uint64(c.r.intn(int(t.limit + 1)))
	case !g.plant:
		v = t.limit
	default:
		v = []uint64{t.limit + 1, 2*t.limit + 7, 1 << 32, 1<<32 + uint64(c.r.intn(100)), 1 << 62}[c.r.intn(5)]
		g.bad = "update-above-limit"
		c.st.result("planted:update-above-limit")
	}
	if v <= t.limit {
		t.max = v
		t.evict()
	}
	c.st.result("repr:size-update")
	return putInt(dst, 5, 0x20, v, 0)
}

func (g *blockGen) gen() []byte {
	c, t := g.c, g.t
	var b []byte
	if c.r.chance(18) {
		for k := 1 + c.r.intn(2); k > 0 && g.bad == ""; k-- {
			b = g.sizeUpdate(b)
		}
	}
	nf := c.r.intn(9)
	for i := 0; i < nf && g.bad == ""; i++ {
		if g.plant && i > 0 && c.r.chance(4) {
			b = g.sizeUpdate(b)
			g.bad, g.late = "update-after-field", true
			c.st.result("planted:update-after-field")
			break
		}
		kind := c.r.intn(100)
		if kind < 35 {
			idx, pad := g.pickIndex(false)
			b = putInt(b, 7, 0x80, idx, pad)
			c.st.result("repr:indexed")
			continue
		}
		var n uint
		var pat byte
		mode := ""
		switch {
		case kind < 65:
			n, pat, mode = 6, 0x40, "incremental"
		case kind < 85:
			n, pat, mode = 4, 0x00, "without"
		default:
			n, pat, mode = 4, 0x10, "never"
		}
		c.st.result("repr:literal-" + mode)
		var name []byte
		if c.r.chance(55) {
			idx, pad := g.pickIndex(true)
			b = putInt(b, n, pat, idx, pad)
			if e, ok := t.at(idx); ok {
				name = e[0]
			}
		} else {
			switch c.r.intn(4) {
			case 0:
				st := http2.VerifStaticTable()
				name = st[c.r.intn(len(st))][0]
			case 1:
				if len(t.ents) > 0 {
					name = t.ents[c.r.intn(len(t.ents))][0]
				} else {
					name = c.text(3)
				}
			default:
				name = c.genString(-1)
			}
			b = append(b, pat)
			b = g.str(b, name)
		}
		if g.bad != "" {
			break
		}
		var value []byte
		if c.r.chance(40) {
			value = c.genString(valueLens[*g.sweep%len(valueLens)])
			*g.sweep++
		} else {
			value = c.genString(-1)
		}
		b = g.str(b, value)
		if mode == "incremental" && g.bad == "" {
			t.add(name, value)
		}
	}
	return b
}

// str writes a string literal, now and then a malformed one.
func (g *blockGen) str(dst []byte, s []byte) []byte {
	c := g.c
	if g.plant && c.r.chance(3) {
		g.bad = "bad-huffman"
		c.st.result("planted:bad-huffman")
		raw := append(append([]byte(nil), s...), 0xff, byte(c.r.u64()))
		if c.r.bool() {
			raw = append(hpack.AppendHuffmanString(nil, string(s)), 0xff)
		}
		dst = putInt(dst, 7, 0x80, uint64(len(raw)), 0)
		return append(dst, raw...)
	}
	if g.plant && c.r.chance(2) {
		g.bad = "string-longer-than-block"
		c.st.result("planted:string-longer-than-block")
		dst = putInt(dst, 7, 0, uint64(len(s)+1+c.r.intn(1000)), 0)
		return append(dst, s...)
	}
	huff := c.r.bool()
	if huff {
		c.st.result("string:huffman")
	} else {
		c.st.result("string:raw")
	}
	return putStr(dst, s, huff)
}

var tableLimits = []uint64{0, 1, 32, 64, 100, 200, 512, 4096, 4096, 4096, 4096, 65536}

// genHistory: 1-8 blocks; generation stops after a block with a planted error.
func (c *genctx) genHistory(sweep *int, maxBlocks int) (limit uint64, blocks [][]byte, bad string, late bool) {
	limit = tableLimits[c.r.intn(len(tableLimits))]
	t := &shadow{max: limit, limit: limit}
	nb := 1 + c.r.intn(maxBlocks)
	plant := c.r.chance(35) // most histories are valid from end to end
	for i := 0; i < nb; i++ {
		g := &blockGen{c: c, t: t, sweep: sweep, plant: plant}
		blocks = append(blocks, g.gen())
		if g.bad != "" {
			if c.r.chance(30) { // what comes after an error must not matter
				blocks = append(blocks, []byte{0x82})
			}
			return limit, blocks, g.bad, g.late
		}
	}
	return limit, blocks, "", false
}

func hxs(bs [][]byte) string {
	var s []string
	for _, b := range bs {
		s = append(s, hx(b))
	}
	return strings.Join(s, " ")
}

// RFC 7541 Appendix C request/response examples and a few hand-made blocks
var fixedHistories = [][]string{
	{"828684410f7777772e6578616d706c652e636f6d", "828684be58086e6f2d6361636865", "828785bf400a637573746f6d2d6b65790c637573746f6d2d76616c7565"},
	{"828684418cf1e3c2e5f23a6ba0ab90f4ff", "828684be5886a8eb10649cbf", "828785bf408825a849e95ba97d7f8925a849e95bb8e8b4bf"},
	{"400a637573746f6d2d6b65790d637573746f6d2d686561646572"},
	{"040c2f73616d706c652f70617468"},
	{"100870617373776f726406736563726574"},
	{"82"},
	{"20"},
	{"3fe11f"},
	{"203fe11f82"},
	{"2040016101622082"},
	{"400161016240016301643f21be"},
}

func (c *genctx) emitDec(kind, line string, ref bool) {
	res := runHpack(line)
	r := "-"
	if ref {
		r = refHpack(line)
	}
	switch {
	case strings.Contains(res, "err"):
		c.st.result("rejected")
	default:
		c.st.result("accepted")
	}
	c.st.size(len(line) / 2)
	c.emit(kind, line, res, r)
}

// cuts b at the given sorted offsets into HEADERS + CONTINUATION frames
func fragment(b []byte, cuts []int) []hframe {
	var frs []hframe
	prev := 0
	for _, k := range append(cuts, len(b)) {
		frs = append(frs, hframe{cont: len(frs) > 0, payload: b[prev:k]})
		prev = k
	}
	frs[len(frs)-1].endh = true
	return frs
}

func frameToks(frs []hframe) string {
	var s []string
	for _, f := range frs {
		s = append(s, frameTok(f))
	}
	return strings.Join(s, " ")
}

func (c *genctx) randomCuts(n int) []int {
	k := c.r.intn(5)
	cuts := make([]int, 0, k)
	for i := 0; i < k; i++ {
		cuts = append(cuts, c.r.intn(n+1))
	}
	for i := range cuts { // insertion sort
		for j := i; j > 0 && cuts[j] < cuts[j-1]; j-- {
			cuts[j], cuts[j-1] = cuts[j-1], cuts[j]
		}
	}
	return cuts
}

func genHpackDec(c *genctx) {
	c.hugeStringLengths()
	sweep := 0
	thorough := c.tier == "thorough"

	// --- fixed histories: whole, every single split point, every truncation
	for _, h := range fixedHistories {
		// the one history with a size update after a field: x/net lets it pass while its table is empty
		ref := !(h[0] == "2040016101622082")
		c.emitDec("fixed-history", "dechist 4096 "+strings.Join(h, " "), ref)
		for bi := range h {
			b := unhx(h[bi])
			pre := ""
			for _, p := range h[:bi] {
				pre += " He:" + p
			}
			for k := 0; k <= len(b); k++ {
				c.emitDec("fixed-split", "decframes 4096"+pre+" "+frameToks(fragment(b, []int{k})), ref)
				if k < len(b) {
					c.emitDec("fixed-truncated", "dechist 4096 "+strings.Join(append(append([]string{}, h[:bi]...), hx(b[:k])), " "), ref)
					c.emitDec("fixed-truncated-call", fmt.Sprintf("nextfield 4096 1 0 -:-:0 %d %s", bi, strings.Join(append(append([]string{}, h[:bi]...), hx(b[:k])), " ")), false)
				}
			}
		}
	}

	// --- every single-field block with a value of at most 2 symbols over {a, 0, 0x00, 0xff}, in every
	// representation (3 modes x name literal raw / literal Huffman / indexed x value raw / Huffman), followed by
	// a block that refers to dynamic index 62 (valid exactly after the incremental ones)
	var vals [][]byte
	alpha := []byte{'a', '0', 0x00, 0xff}
	vals = append(vals, nil)
	for _, x := range alpha {
		vals = append(vals, []byte{x})
		for _, y := range alpha {
			vals = append(vals, []byte{x, y})
		}
	}
	for _, v := range vals {
		for _, pat := range []byte{0x40, 0x00, 0x10} {
			for nameKind := 0; nameKind < 3; nameKind++ {
				for _, huff := range []bool{false, true} {
					var blk []byte
					switch nameKind {
					case 0:
						blk = putStr([]byte{pat}, []byte("n0"), false)
					case 1:
						blk = putStr([]byte{pat}, []byte("n0"), true)
					default:
						blk = []byte{pat | 1}
					}
					blk = putStr(blk, v, huff)
					c.emitDec("enum-single-field", "dechist 4096 "+hx(blk)+" be", true)
				}
			}
		}
	}

	// --- the 2^14 boundary of a string's length integer (127 + 2^14 = 16511), names and values, raw and
	// Huffman coded (the Huffman ones only in the thorough tier: the spec-level bit decoder is slow)
	for _, n := range []int{16383, 16384, 16510, 16511, 16512} {
		for _, huff := range []bool{false, true} {
			if huff && !thorough && n != 16511 {
				continue
			}
			long := c.text(n)
			if huff { // choose the coded length, not the decoded one
				for len(hpack.AppendHuffmanString(nil, string(long))) > n {
					long = long[:len(long)-1]
				}
				for len(hpack.AppendHuffmanString(nil, string(long))) < n {
					long = append(long, '0')
				}
			}
			v := putStr(putStr([]byte{0x40}, []byte("x"), false), long, huff)
			k := putStr(putStr([]byte{0x00}, long, huff), []byte("y"), false)
			c.emitDec("string-2^14-boundary", "dechist 65536 "+hx(v)+" be", true)
			if huff && !thorough {
				continue
			}
			c.emitDec("string-2^14-boundary", "dechist 65536 "+hx(k), true)
			c.emitDec("string-2^14-boundary", "decframes 65536 "+frameToks(fragment(v, []int{3, 4, 5, 6, n / 2})), true)
		}
	}

	// --- integers: every prefix width, boundary values, over-long and overflowing continuations
	for n := 1; n <= 8; n++ {
		full := uint64(1)<<uint(n) - 1
		for _, v := range []uint64{0, 1, full - 1, full, full + 1, full + 127, full + 128, 16383 + full, 16384 + full, 1 << 21, 1<<28 - 1, 1 << 32, 1<<32 + 1, 1<<56 - 1, 1 << 56, 1<<63 - 1, 1 << 63, 1<<63 + full, 1<<64 - 1} {
			for pad := 0; pad <= 3; pad++ {
				if pad > 0 && (v < full || (!thorough && n != 5 && n != 7)) {
					continue
				}
				e := putInt(nil, uint(n), 0, v, pad)
				c.emitDec("int-boundary", fmt.Sprintf("readint %d %s", n, hx(append(e, 0x55))), false)
				c.emitDec("int-truncated", fmt.Sprintf("readint %d %s", n, hx(e[:len(e)-1])), false)
			}
		}
		// k continuation octets 0x80.. then a terminator: the 9 / 10 octet boundary
		for k := 0; k <= 12; k++ {
			for _, fill := range []byte{0x80, 0xff} {
				for _, term := range []byte{0x00, 0x01, 0x7f} {
					e := []byte{byte(full)}
					for i := 0; i < k; i++ {
						e = append(e, fill)
					}
					c.emitDec("int-overlong", fmt.Sprintf("readint %d %s", n, hx(append(e, term))), false)
					if term == 0 {
						c.emitDec("int-overlong-open", fmt.Sprintf("readint %d %s", n, hx(e)), false)
					}
				}
			}
		}
	}
	// the same over-long integers in the places a block uses them: index, name index, string length, size update
	for k := 7; k <= 11; k++ {
		tail := []byte{}
		for i := 0; i < k; i++ {
			tail = append(tail, 0x80)
		}
		tail = append(tail, 0x00)
		for _, first := range []byte{0xff, 0x7f, 0x0f, 0x1f, 0x3f} {
			blk := append([]byte{first}, tail...)
			blk = append(blk, 0x01, 0x61)
			c.emitDec("block-overlong-int", "dechist 4096 "+hx(blk), true)
		}
		c.emitDec("block-overlong-int", "dechist 4096 "+hx(append(append([]byte{0x00, 0x7f}, tail...), c.text(127)...)), true)
	}

	// --- random part
	for i := 0; i < c.n; i++ {
		switch x := c.r.intn(100); {
		case x < 55: // histories
			limit, blocks, bad, late := c.genHistory(&sweep, 8)
			kind := "history-valid"
			if bad != "" {
				kind = "history-planted-" + bad
			}
			c.emitDec(kind, fmt.Sprintf("dechist %d %s", limit, hxs(blocks)), !late)
		case x < 75: // the server's fragmenting loop on random splits
			limit, blocks, bad, late := c.genHistory(&sweep, 3)
			var toks []string
			for _, b := range blocks {
				toks = append(toks, frameToks(fragment(b, c.randomCuts(len(b)))))
			}
			kind := "frames-valid"
			if bad != "" {
				kind = "frames-planted-" + bad
			}
			if c.r.chance(3) && strings.Contains(strings.Join(toks, " "), " C") { // a HEADERS frame where a CONTINUATION is due: model = impl only
				kind = "frames-headers-midblock"
				toks = strings.Fields(strings.Replace(strings.Join(toks, " "), " C", " H", 1))
			}
			if c.r.chance(4) && len(toks) > 0 { // an unfinished block at the end: model = impl only
				kind = "frames-unfinished"
				toks[len(toks)-1] = strings.Replace(toks[len(toks)-1], "e:", "n:", 1)
			}
			c.emitDec(kind, fmt.Sprintf("decframes %d %s", limit, strings.Join(toks, " ")), !late)
		case x < 85: // truncation of a valid history's last block at a random offset, as a block and as a single call
			limit, blocks, bad, _ := c.genHistory(&sweep, 4)
			if bad != "" || len(blocks[len(blocks)-1]) == 0 {
				i--
				continue
			}
			last := blocks[len(blocks)-1]
			k := c.r.intn(len(last))
			pre := blocks[:len(blocks)-1]
			if c.r.bool() {
				c.emitDec("history-truncated", fmt.Sprintf("dechist %d %s", limit, hxs(append(append([][]byte{}, pre...), last[:k]))), true)
			} else {
				hf := fldStr(c.genString(-1), c.genString(-1), c.r.bool())
				toks := append([]string{}, strings.Fields(hxs(pre))...)
				toks = append(toks, hx(last[k:]))
				if c.r.bool() {
					toks[len(toks)-1] = hx(last[:k])
				}
				c.emitDec("nextfield-call", fmt.Sprintf("nextfield %d %s %d %s %d %s", limit, b01(c.r.chance(80)), c.r.pick(0, 0, 0, 1, 5), hf, len(pre), strings.Join(toks, " ")), false)
			}
		case x < 90: // byte soup and mutated blocks
			limit, blocks, _, _ := c.genHistory(&sweep, 2)
			last := append([]byte(nil), blocks[len(blocks)-1]...)
			if len(last) == 0 || c.r.chance(30) {
				last = c.r.bytes(1 + c.r.intn(24))
			} else {
				for k := 1 + c.r.intn(3); k > 0; k-- {
					last[c.r.intn(len(last))] ^= byte(1 << c.r.intn(8))
				}
			}
			blocks[len(blocks)-1] = last
			// x/net is lenient about late size updates, which a mutation can create
			c.emitDec("history-mutated", fmt.Sprintf("dechist %d %s", limit, hxs(blocks)), false)
		case x < 95: // strings
			s := c.genString(-1)
			var e []byte
			kind := "string-valid"
			switch c.r.intn(5) {
			case 0:
				e = putStr(nil, s, false)
			case 1:
				e = putStr(nil, s, true)
			case 2:
				kind = "string-truncated"
				e = putStr(nil, s, c.r.bool())
				e = e[:c.r.intn(len(e))]
			case 3:
				kind = "string-bad-huffman"
				e = putStr(nil, s, true)
				e[len(e)-1] ^= byte(1 << c.r.intn(8))
			default:
				kind = "string-soup"
				e = c.r.bytes(1 + c.r.intn(12))
			}
			c.emitDec(kind, "readstr "+hx(append(e, c.r.bytes(c.r.intn(3))...)), false)
		default: // integers
			n := 1 + c.r.intn(8)
			e := c.r.bytes(1 + c.r.intn(12))
			if c.r.bool() {
				e[0] |= byte(1)<<uint(n) - 1
			}
			c.emitDec("int-random", fmt.Sprintf("readint %d %s", n, hx(e)), false)
		}
	}
}

// ---------------------------------------------------------------- encoder suite

var encSizes = []uint64{0, 1, 31, 32, 33, 64, 4096, 4097, 65536}

func (c *genctx) encString(hist [][2][]byte, name bool) []byte {
	st := http2.VerifStaticTable()
	switch x := c.r.intn(100); {
	case x < 25:
		e := st[c.r.intn(len(st))]
		if name {
			return e[0]
		}
		return e[1]
	case x < 45 && len(hist) > 0:
		e := hist[c.r.intn(len(hist))]
		if name {
			return e[0]
		}
		return e[1]
	case x < 50:
		return nil
	case x < 55: // raw form ends in a zero byte
		return append(c.text(c.r.intn(4)), 0)
	case x < 60: // Huffman form ends in a zero byte: '0' is the 5-bit code 00000
		return []byte(strings.Repeat("0", 8*(1+c.r.intn(2))))
	case x < 65:
		return c.text(c.r.pick(100, 126, 127, 128, 129, 200, 255, 256, 300))
	case x < 70:
		return c.r.bytes(1 + c.r.intn(20))
	}
	return c.text(1 + c.r.intn(14))
}

func genHpackEnc(c *genctx) {
	emit := func(kind, line string, ref bool) {
		r := "-"
		if ref {
			r = refHpack(line)
		}
		c.st.size(len(line) / 2)
		c.emit(kind, line, runHpack(line), r)
	}
	thorough := c.tier == "thorough"
	// --- appendInt / appendString
	for bits := 1; bits <= 8; bits++ {
		full := uint64(1)<<uint(bits) - 1
		for _, v := range []uint64{0, 1, full - 1, full, full + 1, full + 127, full + 128, full + 16383, full + 16384, 1 << 32, 1<<63 - 1, 1 << 63, 1<<64 - 1} {
			for _, dst := range []string{"-", "00", hx([]byte{byte(0xff) << uint(bits)}), "aa00", "0001"} {
				emit("appendint", fmt.Sprintf("appendint %d %s %d", bits, dst, v), false)
			}
		}
	}
	ns := 300
	if thorough {
		ns = 3000
	}
	for i := 0; i < ns; i++ {
		dst := []string{"-", "00", "40", "1000", "6100", "ff"}[c.r.intn(6)]
		emit("appendstr", fmt.Sprintf("appendstr %s %s %s", dst, hx(c.encString(nil, c.r.bool())), b01(c.r.bool())), false)
	}
	// --- fixed histories
	for _, l := range []string{
		"enchist 00 B F3a6d6574686f64:474554:1:0 F3a736368656d65:68747470:1:0 F3a70617468:2f:1:0 F3a617574686f72697479:7777772e6578616d706c652e636f6d:1:0",
		"enchist 00 B F617574686f72697a6174696f6e:736563726574:1:1 F617574686f72697a6174696f6e:736563726574:1:1",
		"enchist 00 B F-:61:1:0 F6100:62:1:0 F3030303030303030:63:1:0 F-:-:1:0",
		"enchist 00 B F61:62:1:0 S0 S4096 B F61:62:1:0",
		"enchist 00 B F61:62:1:0 S100 S50 S4096 B F63:64:1:0 F61:62:1:0",
		"enchist 00 S0 B F61:62:1:0 F61:62:1:0",
		"enchist 00 B F61:62:1:0 S0",
		"enchist 01 B F61:62:1:0 F636f6f6b6965:62:1:0 F61:62:1:0",
		"enchist 10 B F61:62:1:0 F636f6f6b6965:62:0:0 F61:62:1:0",
	} {
		emit("fixed-history", l, true)
	}
	// --- random histories
	for i := 0; i < c.n; i++ {
		flags := b01(c.r.chance(25)) + b01(c.r.chance(25))
		var ops []string
		var hist [][2][]byte
		setmax := func() {
			v := encSizes[c.r.intn(len(encSizes))]
			if c.r.chance(15) {
				v = uint64(c.r.intn(1000))
			}
			ops = append(ops, fmt.Sprintf("S%d", v))
			c.st.result("op:setmax")
		}
		nb := 1 + c.r.intn(6)
		for b := 0; b < nb; b++ {
			if c.r.chance(35) {
				setmax()
				if c.r.chance(40) {
					setmax()
				}
			}
			ops = append(ops, "B")
			nf := c.r.intn(9)
			if c.r.chance(5) {
				nf = 0
			}
			for k := 0; k < nf; k++ {
				var name, value []byte
				if len(hist) > 0 && c.r.chance(25) { // exact repeat: a full match in the dynamic table if it was stored
					e := hist[c.r.intn(len(hist))]
					name, value = e[0], e[1]
					c.st.result("field:repeat")
				} else if c.r.chance(10) { // full match in the static table
					e := http2.VerifStaticTable()[c.r.intn(61)]
					name, value = e[0], e[1]
					c.st.result("field:static-pair")
				} else {
					name, value = c.encString(hist, true), c.encString(hist, false)
					c.st.result("field:other")
				}
				hist = append(hist, [2][]byte{name, value})
				sens := c.r.chance(15)
				if sens {
					c.st.result("field:sensitive")
				}
				ops = append(ops, fmt.Sprintf("F%s:%s:%s:%s", hx(name), hx(value), b01(c.r.chance(65)), b01(sens)))
			}
		}
		if c.r.chance(20) {
			setmax()
		}
		emit("history", "enchist "+flags+" "+strings.Join(ops, " "), true)
	}
}

// hugeLengths are string-length prefixes around the widths the decoder's integers go through
// (int, uint32, uint64): a length that wraps or turns negative on the way must still be refused.
func (c *genctx) hugeStringLengths() {
	vals := []uint64{1<<31 - 1, 1 << 31, 1<<32 - 1, 1 << 32, 1<<32 + 5, 1 << 62, 1<<63 - 1, 1 << 63, 1<<63 + 1, 1<<63 + 100, 1<<63 + 126}
	for _, v := range vals {
		for _, huff := range []byte{0x00, 0x80} {
			var e []byte
			e = append(e, huff|0x7f)
			r := v - 127
			for r >= 128 {
				e = append(e, byte(r&127)|128)
				r >>= 7
			}
			e = append(e, byte(r))
			tail := c.r.bytes(c.r.intn(6))
			c.emitDec("string-huge-length", "readstr "+hx(append(append([]byte(nil), e...), tail...)), false)
			// as the value of a literal field, and as its name
			blk := append([]byte{0x00, 0x01, 0x61}, e...)
			c.emitDec("string-huge-length", fmt.Sprintf("dechist 4096 %s", hx(append(blk, tail...))), false)
			blk2 := append([]byte{0x40}, e...)
			c.emitDec("string-huge-length", fmt.Sprintf("dechist 4096 %s", hx(append(blk2, tail...))), false)
			c.emitDec("string-huge-length", fmt.Sprintf("decframes 4096 Hn:%s Ce:%s", hx(blk), hx(tail)), false)
		}
	}
}
