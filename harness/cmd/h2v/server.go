package main

// Connection-grain harness for the server: the real Server.ServeConn runs on one
// end of an in-memory duplex, this file is the peer and the handler. A scenario
// is a list of events; after every event the harness waits for quiescence (hook
// counters, no sleeps) and records what the server did (lockstep mode).

import (
	"bytes"
	"crypto/tls"
	"encoding/binary"
	"fmt"
	"io"
	"net"
	"sort"
	"strconv"
	"strings"
	"sync"
	"time"

	http2 "github.com/dgrr/http2"
	"github.com/valyala/fasthttp"
	"github.com/valyala/fasthttp/fasthttputil"
	"golang.org/x/net/http2/hpack"
)

// ---------------------------------------------------------------- scenario

type srvCfg struct {
	maxStreams    int
	maxHeaderList int
	maxBody       int
	reqTimeoutMs  int // fasthttp.Server.ReadTimeout = the server's request timeout (0: none)
	idleMs        int // fasthttp.Server.IdleTimeout = the server's idle timeout (0: none)
	// how the server is built (Impl/ServerSetup.v): 0 = ConfigureServer with the values above; 1 = ConfigureServer with
	// every value that equals its default given as zero / negative instead; 2 = ConfigureServerAndConfig (no
	// ServerConfig at all: only for maxStreams = 1024 and maxHeaderList = 1<<20, the defaults)
	ctor int
}

// rawConfig returns what the user hands over for this scenario: ServerConfig values and the fasthttp body limit.
func (c srvCfg) rawConfig() (ms, hl, mb int) {
	ms, hl, mb = c.maxStreams, c.maxHeaderList, c.maxBody
	if c.ctor >= 1 {
		if ms == 1024 {
			ms = []int{0, -3}[(c.maxBody/4)%2]
		}
		if hl == 1<<20 {
			hl = 0
		}
		if mb == 4<<20 {
			mb = []int{0, -1}[c.ctor-1]
		}
	}
	return
}

type frameSpec struct {
	kind     byte   // D H P R S U G A W C
	flags    byte   // raw flags byte as sent
	sid      uint32 // with the reserved bit as given
	payload  []byte // D: data, H/C/U: fragment, G: ping data, A: debug data
	pad      int    // -1: no pad length byte (whatever the PADDED flag says)
	dep      int64  // -1: no priority section (H) ; P: dependency
	weight   byte
	code     uint32
	inc      uint32
	settings [][2]uint32
}

type readRes struct {
	data []byte
	err  byte // n nil, e EOF, f failure
}

type respSpec struct {
	status   int
	fields   [][2]string // headers the handler sets
	streamed bool
	body     []byte    // buffered
	reads    []readRes // streamed
	size     int       // streamed: declared size, -1 unknown
	observed [][2]string
	haveObs  bool
	effSize  chan int
}

type event struct {
	burst []frameSpec // M: frames written in one Write (the read loop may run ahead of the stream loop)
	kind  byte        // F frame, B raw bytes, D handler done, E eof, M burst, g/u gate
	fr    frameSpec
	raw   []byte
	class string // for B: unknown | goaway:<code> | other
	sid   uint32
	resp  respSpec
}

type scenario struct {
	cfg srvCfg
	evs []event
	// void: the run depended on real time (the request timer) and the machine was too slow for the
	// scenario to mean what it says; it is dropped, not compared
	void bool
}

const kindLetters = "DHPRSUGAWC"

func kindCode(k byte) byte { return byte(strings.IndexByte(kindLetters, k)) }

// wire bytes of a frame spec
func (f *frameSpec) wire() []byte {
	var p []byte
	switch f.kind {
	case 'D', 'H', 'U':
		if f.pad >= 0 {
			p = append(p, byte(f.pad))
		}
		if f.kind == 'H' && f.dep >= 0 {
			p = binary.BigEndian.AppendUint32(p, uint32(f.dep))
			p = append(p, f.weight)
		}
		if f.kind == 'U' {
			p = binary.BigEndian.AppendUint32(p, uint32(f.dep))
		}
		p = append(p, f.payload...)
		if f.pad > 0 {
			p = append(p, make([]byte, f.pad)...)
		}
	case 'C', 'G':
		p = append(p, f.payload...)
	case 'P':
		p = binary.BigEndian.AppendUint32(p, uint32(f.dep))
		p = append(p, f.weight)
	case 'R':
		p = binary.BigEndian.AppendUint32(p, f.code)
	case 'W':
		p = binary.BigEndian.AppendUint32(p, f.inc)
	case 'S':
		for _, kv := range f.settings {
			p = binary.BigEndian.AppendUint16(p, uint16(kv[0]))
			p = binary.BigEndian.AppendUint32(p, kv[1])
		}
	case 'A':
		p = binary.BigEndian.AppendUint32(p, uint32(f.dep))
		p = binary.BigEndian.AppendUint32(p, f.code)
		p = append(p, f.payload...)
	}
	h := []byte{byte(len(p) >> 16), byte(len(p) >> 8), byte(len(p)), kindCode(f.kind), f.flags}
	h = binary.BigEndian.AppendUint32(h, f.sid)
	return append(h, p...)
}

func fmtSettings(s [][2]uint32) string {
	if len(s) == 0 {
		return "-"
	}
	parts := make([]string, len(s))
	for i, kv := range s {
		parts[i] = fmt.Sprintf("%d=%d", kv[0], kv[1])
	}
	return strings.Join(parts, ",")
}

func fmtFields(fs [][2]string) string {
	if len(fs) == 0 {
		return "-"
	}
	parts := make([]string, len(fs))
	for i, kv := range fs {
		parts[i] = hx([]byte(kv[0])) + ":" + hx([]byte(kv[1]))
	}
	return strings.Join(parts, ",")
}

func parseFields(s string) [][2]string {
	if s == "-" || s == "?" {
		return nil
	}
	var out [][2]string
	for _, p := range strings.Split(s, ",") {
		kv := strings.SplitN(p, ":", 2)
		out = append(out, [2]string{string(unhx(kv[0])), string(unhx(kv[1]))})
	}
	return out
}

func (e *event) String() string {
	switch e.kind {
	case 'F':
		f := &e.fr
		pad, dep := "-", "-"
		if f.pad >= 0 {
			pad = strconv.Itoa(f.pad)
		}
		if f.dep >= 0 {
			dep = strconv.FormatInt(f.dep, 10)
		}
		return fmt.Sprintf("F %c %02x %d %s %s %s %d %d %d %s", f.kind, f.flags, f.sid, hx(f.payload), pad, dep, f.weight, f.code, f.inc, fmtSettings(f.settings))
	case 'B':
		return fmt.Sprintf("B %s %s", hx(e.raw), e.class)
	case 'D':
		r := &e.resp
		body := "b:" + hx(r.body)
		if r.streamed {
			parts := make([]string, len(r.reads))
			for i, rd := range r.reads {
				parts[i] = hx(rd.data) + "/" + string(rd.err)
			}
			rs := "-"
			if len(parts) > 0 {
				rs = strings.Join(parts, ",")
			}
			body = fmt.Sprintf("s:%d:%s", r.size, rs)
		}
		obs := "?"
		if r.haveObs {
			obs = fmtFields(r.observed)
		}
		return fmt.Sprintf("D %d %d %s %s %s", e.sid, r.status, fmtFields(r.fields), body, obs)
	case 'E':
		return "E"
	case 'T':
		return "T"
	case 'I':
		return "I"
	case 'g':
		return "GS"
	case 'u':
		return "RS"
	case 'M':
		parts := make([]string, len(e.burst))
		for i := range e.burst {
			fe := event{kind: 'F', fr: e.burst[i]}
			parts[i] = fe.String()
		}
		return "M " + strings.Join(parts, " ~ ")
	}
	return "?"
}

func (sc *scenario) String() string {
	head := fmt.Sprintf("srv ms=%d,hl=%d,mb=%d", sc.cfg.maxStreams, sc.cfg.maxHeaderList, sc.cfg.maxBody)
	if sc.cfg.reqTimeoutMs > 0 {
		head += fmt.Sprintf(",rt=%d", sc.cfg.reqTimeoutMs)
	}
	if sc.cfg.idleMs > 0 {
		head += fmt.Sprintf(",it=%d", sc.cfg.idleMs)
	}
	if sc.cfg.ctor > 0 {
		head += fmt.Sprintf(",ct=%d", sc.cfg.ctor)
	}
	parts := []string{head}
	for i := range sc.evs {
		parts = append(parts, sc.evs[i].String())
	}
	return strings.Join(parts, " | ")
}

func parseScenario(line string) *scenario {
	parts := strings.Split(line, " | ")
	sc := &scenario{}
	head := strings.Fields(parts[0])
	for _, kv := range strings.Split(head[1], ",") {
		p := strings.SplitN(kv, "=", 2)
		v, _ := strconv.Atoi(p[1])
		switch p[0] {
		case "ms":
			sc.cfg.maxStreams = v
		case "hl":
			sc.cfg.maxHeaderList = v
		case "mb":
			sc.cfg.maxBody = v
		case "rt":
			sc.cfg.reqTimeoutMs = v
		case "it":
			sc.cfg.idleMs = v
		case "ct":
			sc.cfg.ctor = v
		}
	}
	for _, p := range parts[1:] {
		if strings.HasPrefix(p, "M ") {
			var e event
			e.kind = 'M'
			for _, fp := range strings.Split(p[2:], " ~ ") {
				sub := parseScenario("srv ms=1,hl=1,mb=1 | " + fp)
				e.burst = append(e.burst, sub.evs[0].fr)
			}
			sc.evs = append(sc.evs, e)
			continue
		}
		t := strings.Fields(p)
		var e event
		e.kind = t[0][0]
		if t[0] == "GS" {
			e.kind = 'g'
		} else if t[0] == "RS" {
			e.kind = 'u'
		}
		switch e.kind {
		case 'F':
			f := &e.fr
			f.kind = t[1][0]
			fl, _ := strconv.ParseUint(t[2], 16, 8)
			f.flags = byte(fl)
			sid, _ := strconv.ParseUint(t[3], 10, 32)
			f.sid = uint32(sid)
			f.payload = unhx(t[4])
			f.pad, f.dep = -1, -1
			if t[5] != "-" {
				f.pad, _ = strconv.Atoi(t[5])
			}
			if t[6] != "-" {
				f.dep, _ = strconv.ParseInt(t[6], 10, 64)
			}
			w, _ := strconv.Atoi(t[7])
			f.weight = byte(w)
			c, _ := strconv.ParseUint(t[8], 10, 32)
			f.code = uint32(c)
			inc, _ := strconv.ParseUint(t[9], 10, 32)
			f.inc = uint32(inc)
			if t[10] != "-" {
				for _, kv := range strings.Split(t[10], ",") {
					p := strings.SplitN(kv, "=", 2)
					a, _ := strconv.ParseUint(p[0], 10, 32)
					b, _ := strconv.ParseUint(p[1], 10, 32)
					f.settings = append(f.settings, [2]uint32{uint32(a), uint32(b)})
				}
			}
		case 'B':
			e.raw = unhx(t[1])
			e.class = t[2]
		case 'D':
			sid, _ := strconv.ParseUint(t[1], 10, 32)
			e.sid = uint32(sid)
			e.resp.status, _ = strconv.Atoi(t[2])
			e.resp.fields = parseFields(t[3])
			if strings.HasPrefix(t[4], "b:") {
				e.resp.body = unhx(t[4][2:])
			} else {
				q := strings.SplitN(t[4], ":", 3)
				e.resp.streamed = true
				e.resp.size, _ = strconv.Atoi(q[1])
				if q[2] != "-" {
					for _, rd := range strings.Split(q[2], ",") {
						x := strings.SplitN(rd, "/", 2)
						e.resp.reads = append(e.resp.reads, readRes{unhx(x[0]), x[1][0]})
					}
				}
			}
		}
		sc.evs = append(sc.evs, e)
	}
	return sc
}

// ---------------------------------------------------------------- runner

type scriptedReader struct {
	reads []readRes
}

func (r *scriptedReader) Read(p []byte) (int, error) {
	if len(r.reads) == 0 {
		return 0, io.EOF
	}
	rd := r.reads[0]
	n := copy(p, rd.data)
	if n < len(rd.data) {
		// a chunk larger than the buffer: hand out the rest next time, error last
		r.reads[0].data = rd.data[n:]
		return n, nil
	}
	r.reads = r.reads[1:]
	switch rd.err {
	case 'e':
		return n, io.EOF
	case 'f':
		return n, fmt.Errorf("scripted read failure")
	}
	return n, nil
}

type parkedHandler struct {
	view    string
	tag     uint32 // the stream id the request says it is on (x-tag field), 0 if it does not say
	release chan *respSpec
}

type srvRun struct {
	mu        sync.Mutex
	parked    []*parkedHandler // handlers that have started and not been matched to a stream yet
	bySid     map[uint32]*parkedHandler
	inFlight  int
	maxFlight int
	released  int
	recycled  int // handlers that found their request context back in the pool when they were let go
	logs      []string
}

func reqView(ctx *fasthttp.RequestCtx) string {
	req := &ctx.Request
	type kv struct{ k, v string }
	var fs []kv
	for k, v := range req.Header.All() {
		lk := strings.ToLower(string(k))
		// host is :authority; content-length is fasthttp's own parsed copy (projected out)
		if lk == "host" || lk == "content-length" {
			continue
		}
		fs = append(fs, kv{lk, string(v)})
	}
	sort.SliceStable(fs, func(i, j int) bool { return fs[i].k < fs[j].k })
	parts := make([]string, len(fs))
	for i, f := range fs {
		parts[i] = hx([]byte(f.k)) + "=" + hx([]byte(f.v))
	}
	fields := "-"
	if len(parts) > 0 {
		fields = strings.Join(parts, ",")
	}
	host := "-"
	if h := req.Header.Host(); len(h) > 0 {
		host = hx(h)
	}
	return fmt.Sprintf("%s:%s:%s:%s:%s:%s", hx(req.Header.Method()), hx(req.Header.RequestURI()), hx(req.URI().Scheme()), host, fields, hx(req.Body()))
}

// observed frames from the server, parsed by hand (no dependency on the package under test)
type obsFrame struct {
	kind    byte
	flags   byte
	sid     uint32
	payload []byte
}

type srvPeer struct {
	conn    net.Conn
	mu      sync.Mutex
	frames  []obsFrame
	closed  bool
	readErr error
}

func (p *srvPeer) readLoop() {
	hdr := make([]byte, 9)
	for {
		if _, err := io.ReadFull(p.conn, hdr); err != nil {
			p.mu.Lock()
			p.closed, p.readErr = true, err
			p.mu.Unlock()
			return
		}
		n := int(hdr[0])<<16 | int(hdr[1])<<8 | int(hdr[2])
		pl := make([]byte, n)
		if _, err := io.ReadFull(p.conn, pl); err != nil {
			p.mu.Lock()
			p.closed, p.readErr = true, err
			p.mu.Unlock()
			return
		}
		p.mu.Lock()
		p.frames = append(p.frames, obsFrame{hdr[3], hdr[4], binary.BigEndian.Uint32(hdr[5:]) & 0x7fffffff, pl})
		p.mu.Unlock()
	}
}

func (p *srvPeer) count() (int, bool) {
	p.mu.Lock()
	defer p.mu.Unlock()
	return len(p.frames), p.closed
}

// runServerScenario executes the scenario against the implementation and returns the
// canonical result line. It fills in the observed response header lists of D events.
func runServerScenario(sc *scenario) string {
	run := &srvRun{bySid: map[uint32]*parkedHandler{}}
	handler := func(ctx *fasthttp.RequestCtx) {
		ph := &parkedHandler{view: reqView(ctx), release: make(chan *respSpec, 1)}
		if v := ctx.Request.Header.Peek("x-tag"); len(v) > 0 {
			if n, err := strconv.ParseUint(string(v), 10, 32); err == nil {
				ph.tag = uint32(n)
			}
		}
		run.mu.Lock()
		run.parked = append(run.parked, ph)
		run.inFlight++
		if run.inFlight > run.maxFlight {
			run.maxFlight = run.inFlight
		}
		run.mu.Unlock()
		r := <-ph.release
		run.mu.Lock()
		run.inFlight--
		// the handler still holds ctx: it must not have gone back to the pool under it (C17, C19)
		if http2.VerifPoolHolds(ctx) {
			run.recycled++
		}
		run.mu.Unlock()
		if r == nil {
			return
		}
		ctx.Response.SetStatusCode(r.status)
		for _, kv := range r.fields {
			ctx.Response.Header.Set(kv[0], kv[1])
		}
		if r.streamed {
			ctx.Response.SetBodyStream(&scriptedReader{reads: append([]readRes(nil), r.reads...)}, r.size)
			// what the server will read as the declared length (fasthttp forces 0 on 1xx/204/304)
			r.effSize <- ctx.Response.Header.ContentLength()
		} else {
			ctx.Response.SetBody(r.body)
		}
	}
	rawMS, rawHL, rawMB := sc.cfg.rawConfig()
	// the body limit is read from the fasthttp.Server when a connection is served, not when the server is configured:
	// it is set after Configure* (a user may raise it at any time)
	fs := &fasthttp.Server{Handler: handler, MaxRequestBodySize: 1, NoDefaultServerHeader: true, NoDefaultDate: true, NoDefaultContentType: true, Logger: runLogger{run},
		ReadTimeout: time.Duration(sc.cfg.reqTimeoutMs) * time.Millisecond, IdleTimeout: time.Duration(sc.cfg.idleMs) * time.Millisecond}
	var srv *http2.Server
	if sc.cfg.ctor == 2 {
		// no ServerConfig: the ping timer keeps its default of 10 s, far beyond a scenario's life
		srv = http2.ConfigureServerAndConfig(fs, &tls.Config{})
	} else {
		srv = http2.ConfigureServer(fs, http2.ServerConfig{PingInterval: -1, MaxConcurrentStreams: rawMS, MaxHeaderListSize: rawHL})
	}
	fs.MaxRequestBodySize = rawMB

	pc := fasthttputil.NewPipeConns()
	c1, c2 := pc.Conn1(), pc.Conn2()
	http2.VerifTicksReset()
	http2.VerifPoolTrackerStart(false)
	retCh := make(chan error, 1)
	go func() { retCh <- srv.ServeConn(c1) }()
	peer := &srvPeer{conn: c2}
	_, _ = c2.Write([]byte("PRI * HTTP/2.0\r\n\r\nSM\r\n\r\n"))
	go peer.readLoop()

	// the server's handshake: SETTINGS + WINDOW_UPDATE, written outside the write loop
	handshake := 2
	deadline := time.Now().Add(5 * time.Second)
	for {
		n, closed := peer.count()
		if n >= handshake || closed || time.Now().After(deadline) {
			break
		}
		time.Sleep(20 * time.Microsecond)
	}

	// the bytes of the handshake as the peer read them (compared with Impl/ServerSetup.v srv_handshake_bytes)
	hsHex := "-"
	{
		peer.mu.Lock()
		var raw []byte
		for i := 0; i < handshake && i < len(peer.frames); i++ {
			f := peer.frames[i]
			n := len(f.payload)
			raw = append(raw, byte(n>>16), byte(n>>8), byte(n), f.kind, f.flags, byte(f.sid>>24), byte(f.sid>>16), byte(f.sid>>8), byte(f.sid))
			raw = append(raw, f.payload...)
		}
		peer.mu.Unlock()
		hsHex = hx(raw)
	}

	// all three loops have to be up (first tick of the read loop and of the stream loop) before
	// any gate is set: a gate on a loop's first tick would hold it before it has ever waited
	for time.Now().Before(deadline) {
		t := http2.VerifTicks()
		if t[0] >= 1 && t[2] >= 1 {
			break
		}
		time.Sleep(20 * time.Microsecond)
	}

	dec := hpack.NewDecoder(4096, nil)
	sent := int64(0) // frames the read loop has to consume
	handlerDone := int64(0)
	seen := handshake // frames of peer.frames already reported
	returned := false
	var groups []string

	gated := false
	var openGate func()
	quiesce := func() (closed bool) {
		dl := time.Now().Add(10 * time.Second)
		stable := 0
		for {
			t := http2.VerifTicks()
			n, cl := peer.count()
			rlOK := t[0] >= sent+1
			slOK := gated || t[2] >= 1+t[1]+t[3]
			wlOK := t[4] == t[5] && int64(n-handshake) >= t[5]
			dispOK := int64(totalStarted(run)) >= t[6]
			hdOK := t[3] >= handlerDone
			if cl {
				// connection closed by the server: wait for ServeConn to return (bounded)
				return true
			}
			if rlOK && slOK && wlOK && dispOK && hdOK {
				stable++
				if stable >= 3 {
					return false
				}
				time.Sleep(10 * time.Microsecond)
				continue
			}
			stable = 0
			if time.Now().After(dl) {
				return false
			}
			time.Sleep(20 * time.Microsecond)
		}
	}

	report := func(evSid uint32, closed bool) {
		var items []string
		peer.mu.Lock()
		fr := append([]obsFrame(nil), peer.frames[seen:]...)
		seen = len(peer.frames)
		peer.mu.Unlock()
		for _, f := range fr {
			switch f.kind {
			case 0:
				items = append(items, fmt.Sprintf("D%d:%d:%s", f.sid, f.flags&1, hx(f.payload)))
			case 1:
				items = append(items, fmt.Sprintf("H%d:%d:%s", f.sid, f.flags&1, hx(f.payload)))
				// keep the reference decoder in step and remember the decoded list
				hfs, err := decodeFullLenient(dec, f.payload)
				var obs [][2]string
				if err == nil {
					for _, hf := range hfs {
						if hf.Name != ":status" {
							obs = append(obs, [2]string{hf.Name, hf.Value})
						}
					}
				}
				for i := range sc.evs {
					e := &sc.evs[i]
					if e.kind == 'D' && e.sid == f.sid && !e.resp.haveObs {
						e.resp.observed, e.resp.haveObs = obs, err == nil
						break
					}
				}
			case 3:
				items = append(items, fmt.Sprintf("R%d:%d", f.sid, binary.BigEndian.Uint32(f.payload)))
			case 4:
				if f.flags&1 == 1 {
					items = append(items, "SA")
				} else {
					items = append(items, "S"+hx(f.payload))
				}
			case 6:
				if f.flags&1 == 1 {
					items = append(items, "PA"+hx(f.payload))
				} else {
					items = append(items, "P"+hx(f.payload))
				}
			case 7:
				items = append(items, fmt.Sprintf("G%d:%d", binary.BigEndian.Uint32(f.payload)&0x7fffffff, binary.BigEndian.Uint32(f.payload[4:])))
			case 8:
				items = append(items, fmt.Sprintf("W%d:%d", f.sid, binary.BigEndian.Uint32(f.payload)&0x7fffffff))
			default:
				items = append(items, fmt.Sprintf("?%d", f.kind))
			}
		}
		// handlers started during this step belong to the stream of the frame just sent
		run.mu.Lock()
		sort.SliceStable(run.parked, func(i, j int) bool { return run.parked[i].tag < run.parked[j].tag })
		for _, ph := range run.parked {
			sid := evSid
			if ph.tag != 0 {
				sid = ph.tag
			}
			items = append(items, fmt.Sprintf("X%d:%s", sid, ph.view))
			run.bySid[sid] = ph
		}
		run.parked = nil
		run.mu.Unlock()
		if closed {
			items = append(items, "E")
		}
		cur, _ := http2.VerifGauges()
		if !closed {
			items = append(items, fmt.Sprintf("g%d,%d,%d,%d,%d", cur[0], cur[1], cur[2], cur[3], cur[4]))
		}
		groups = append(groups, strings.Join(items, ";"))
	}

	connClosed := false
	closedWhileGated := false
	started := time.Now()
	for i := range sc.evs {
		e := &sc.evs[i]
		if connClosed {
			if e.kind == 'u' && closedWhileGated && openGate != nil {
				// the connection went while the stream loop was held: let it go through what was
				// queued for it and see which requests it still hands to a handler
				gated = false
				openGate()
				openGate = nil
				waitTicksStable()
				var items []string
				run.mu.Lock()
				for range run.parked {
					items = append(items, "Xlate")
				}
				run.mu.Unlock()
				groups = append(groups, strings.Join(append(items, "E"), ";"))
				continue
			}
			groups = append(groups, "-")
			continue
		}
		var evSid uint32
		switch e.kind {
		case 'F':
			evSid = e.fr.sid & 0x7fffffff
			sent++
			if e.fr.kind == 'S' && e.fr.flags&1 == 0 {
				// we allow the server's encoder a bigger table: our reference decoder must too
				for _, kv := range e.fr.settings {
					if kv[0] == 1 {
						dec.SetAllowedMaxDynamicTableSize(kv[1])
					}
				}
			}
			if _, err := c2.Write(e.fr.wire()); err != nil {
				connClosed = true
			}
		case 'B':
			sent++
			if _, err := c2.Write(e.raw); err != nil {
				connClosed = true
			}
		case 'M':
			var all []byte
			for i := range e.burst {
				all = append(all, e.burst[i].wire()...)
			}
			sent += int64(len(e.burst))
			go func() { _, _ = c2.Write(all) }() // the server may stop reading part way
		case 'D':
			evSid = e.sid
			run.mu.Lock()
			ph := run.bySid[e.sid]
			delete(run.bySid, e.sid)
			run.mu.Unlock()
			if ph != nil {
				r := e.resp
				if r.streamed {
					r.effSize = make(chan int, 1)
				}
				handlerDone++
				run.mu.Lock()
				run.released++
				run.mu.Unlock()
				ph.release <- &r
				if r.streamed {
					select {
					case sz := <-r.effSize:
						e.resp.size = sz
					case <-time.After(5 * time.Second):
					}
				}
			}
		case 'g':
			// hold the stream loop at the top of its loop: the read loop runs ahead of it. The loop is
			// past its tick while it waits in select, so a WINDOW_UPDATE on stream 0 takes it round once.
			openGate = http2.VerifGate(2)
			nudge := newFrame('W', 0, 0)
			nudge.inc = 1
			sent++
			if _, err := c2.Write(nudge.wire()); err != nil {
				connClosed = true
			}
			if quiesce() {
				connClosed = true
			}
			gated = true
			report(0, connClosed)
			continue
		case 'u':
			gated = false
			if openGate != nil {
				openGate()
				openGate = nil
			}
		case 'T':
			// the request timer: every stream open now is older than the timeout once we have waited it out.
			// Real time: the scenario is void if the timer has fired before this point (a slow machine),
			// or if the events so far took more than half of the timeout.
			tk := http2.VerifClientTicks()
			if tk[http2.VerifTickSrvReqTimer] != 0 || time.Since(started) > time.Duration(sc.cfg.reqTimeoutMs)*time.Millisecond/2 {
				sc.void = true
			}
			time.Sleep(time.Duration(sc.cfg.reqTimeoutMs)*time.Millisecond + 30*time.Millisecond)
			waitTicksStable()
		case 'I':
			// the idle timer: no request for IdleTimeout. Real time again: void if it has fired already or
			// the events so far took more than half of the timeout.
			tk := http2.VerifClientTicks()
			if tk[http2.VerifTickSrvIdle] != 0 || time.Since(started) > time.Duration(sc.cfg.idleMs)*time.Millisecond/2 {
				sc.void = true
			}
			dl := time.Now().Add(time.Duration(sc.cfg.idleMs)*time.Millisecond + 2*time.Second)
			for time.Now().Before(dl) && http2.VerifClientTicks()[http2.VerifTickSrvIdle] == 0 {
				time.Sleep(time.Millisecond)
			}
		case 'E':
			_ = c2.Close()
			select {
			case <-retCh:
				returned = true
				groups = append(groups, "RET")
			case <-time.After(5 * time.Second):
				groups = append(groups, "HANG")
			}
			connClosed = true
			continue
		}
		closed := quiesce()
		if closed {
			connClosed = true
			closedWhileGated = gated
			select {
			case <-retCh:
				returned = true
			case <-time.After(5 * time.Second):
			}
		}
		report(evSid, closed)
		if closed {
			if returned {
				groups[len(groups)-1] += ";RET"
			} else {
				groups[len(groups)-1] += ";HANG"
			}
		}
	}
	if openGate != nil {
		openGate()
		openGate = nil
	}
	// tear down: release parked handlers, close the peer side
	run.mu.Lock()
	for _, ph := range run.bySid {
		ph.release <- nil
	}
	for _, ph := range run.parked {
		ph.release <- nil
	}
	run.mu.Unlock()
	_ = c2.Close()
	if !returned {
		select {
		case <-retCh:
		case <-time.After(5 * time.Second):
		}
	}
	// every handler that was started has to have reported back (either way) before
	// the counters are reset for the next connection
	handlersLeft := int64(0)
	for dl := time.Now().Add(10 * time.Second); ; {
		t := http2.VerifTicks()
		if t[3]+t[7] >= t[6] {
			break
		}
		if !time.Now().Before(dl) {
			// handler goroutines that neither handed their stream back nor saw the loop's stop signal,
			// ten seconds after their handlers returned and the connection was closed
			handlersLeft = t[6] - t[3] - t[7]
			break
		}
		time.Sleep(50 * time.Microsecond)
	}
	waitTicksStable()
	_, _, viol, _ := http2.VerifPoolTrackerStop()
	res := strings.Join(groups, " / ")
	run.mu.Lock()
	for _, m := range run.logs {
		if strings.Contains(m, "panicked") {
			res += " !panic"
			break
		}
	}
	res += fmt.Sprintf(" !maxhandlers=%d", run.maxFlight)
	res += " !hs=" + hsHex
	if handlersLeft > 0 {
		res += fmt.Sprintf(" !leak=%d", handlersLeft)
	}
	run.mu.Unlock()
	if run.recycled > 0 {
		viol = append(viol, fmt.Sprintf("request-context-recycled-under-its-handler(%d)", run.recycled))
	}
	if len(viol) > 0 {
		res += " !pool:" + strings.Join(viol, ",")
	}
	return res
}

// bookkeeping helpers for quiescence
func totalStarted(r *srvRun) int {
	r.mu.Lock()
	defer r.mu.Unlock()
	return len(r.parked) + len(r.bySid) + r.released
}

// runLogger keeps what the server logs: a recovered panic is only visible there.
type runLogger struct{ run *srvRun }

func (l runLogger) Printf(format string, args ...interface{}) {
	msg := fmt.Sprintf(format, args...)
	l.run.mu.Lock()
	l.run.logs = append(l.run.logs, msg)
	l.run.mu.Unlock()
}

var _ = bytes.Equal

// decodeFullLenient decodes a header block with x/net's decoder. RFC 7541 4.2
// allows two dynamic table size updates at the start of a block (the smallest
// size, then the final one); x/net only takes the first when its table is not
// empty, so leading updates are fed to it as blocks of their own.
func decodeFullLenient(dec *hpack.Decoder, b []byte) ([]hpack.HeaderField, error) {
	for len(b) > 0 && b[0]&0xe0 == 0x20 {
		n := 1
		if b[0]&0x1f == 0x1f {
			for n < len(b) && b[n]&0x80 != 0 {
				n++
			}
			n++
		}
		if n > len(b) {
			break
		}
		if _, err := dec.DecodeFull(b[:n]); err != nil {
			return nil, err
		}
		b = b[n:]
	}
	return dec.DecodeFull(b)
}

// waitTicksStable waits until the server's loops have stopped ticking (teardown only: it isolates
// one scenario's counters from the next, it does not decide any result).
func waitTicksStable() {
	last := http2.VerifTicks()
	stable := 0
	for dl := time.Now().Add(3 * time.Second); time.Now().Before(dl) && stable < 40; {
		time.Sleep(50 * time.Microsecond)
		t := http2.VerifTicks()
		if t == last {
			stable++
		} else {
			stable = 0
			last = t
		}
	}
}
