package main

// Suite "pool": the connection pool of client.go (pickConn, createConn, onConnectionDropped, Client.Close, and
// Conn.Close as the pool sees it) run for real on transports the harness hands out, against Impl/ClientPool.v.
//
// A scenario is a list of events on ONE Client made by http2.VerifNewClient:
//
//	P<d>      a caller runs pickConn; d says what Dial does if it is called: o = ok, e = tryDial fails,
//	          h = transport given but the handshake fails
//	S<id>,<b> CanOpenStream() of connection id becomes b (the harness moves nextID past / back below 2^31-1)
//	B<id>     Conn.Close on connection id, up to and including the Close of its transport
//	E<id>,<d> ... the rest of that Conn.Close: the onDisconnect callback (onConnectionDropped), with d for its dial
//	X         Client.Close
//	Q<d>      P<d> with a Client.Close started on another goroutine while Dial is running (if it is called)
//	F<id>,<d> E<id>,<d> with a Client.Close started on another goroutine while the callback's Dial is running
//
// Q and F: pickConn and onConnectionDropped dial with the client's lock held, so the Close can only run once they are
// done: the outcome must be that of the two calls one after the other (the driver runs the model's two steps and
// prints one record). A dial moved out of the lock lets the Close slip in between.
//
// The events between B<id> and its E<id> run INSIDE the transport's Close method, i.e. between the CAS on
// Conn.closed and the callback - the interleaving point the model's two halves stand for - on the same goroutine
// (the client's own lock is free there). Connections are numbered by the dial that produced their transport.
// After every event the harness records: result / dials and transport closes, in order / the Client's list, front
// first / cl.closed.  Result line: one such record per event, ';'-separated.

import (
	"bytes"
	"errors"
	"fmt"
	"io"
	"net"
	"strconv"
	"strings"
	"sync"
	"time"

	"github.com/dgrr/http2"
)

func init() {
	suites["pool"] = genPool
	replayers["pool"] = func(line string) string { return runPool(line) }
}

type poolTransport struct {
	id     int
	h      *poolHarness
	hsFail bool

	mu      sync.Mutex
	closed  bool
	closeCh chan struct{}
	rd      *bytes.Reader
}

func (t *poolTransport) Read(p []byte) (int, error) {
	if t.hsFail {
		return 0, io.EOF
	}
	t.mu.Lock()
	if t.rd.Len() > 0 {
		n, _ := t.rd.Read(p)
		t.mu.Unlock()
		return n, nil
	}
	t.mu.Unlock()
	<-t.closeCh
	return 0, io.ErrClosedPipe
}

func (t *poolTransport) Write(p []byte) (int, error) {
	t.mu.Lock()
	defer t.mu.Unlock()
	if t.closed {
		return 0, io.ErrClosedPipe
	}
	return len(p), nil
}

func (t *poolTransport) Close() error {
	t.mu.Lock()
	if t.closed {
		t.mu.Unlock()
		return nil
	}
	t.closed = true
	close(t.closeCh)
	t.mu.Unlock()
	t.h.onShut(t)
	return nil
}

type poolAddr struct{}

func (poolAddr) Network() string { return "pool" }
func (poolAddr) String() string  { return "pool" }

func (t *poolTransport) LocalAddr() net.Addr              { return poolAddr{} }
func (t *poolTransport) RemoteAddr() net.Addr             { return poolAddr{} }
func (t *poolTransport) SetDeadline(time.Time) error      { return nil }
func (t *poolTransport) SetReadDeadline(time.Time) error  { return nil }
func (t *poolTransport) SetWriteDeadline(time.Time) error { return nil }

type poolEv struct {
	kind byte // P S B E X
	id   int
	b    bool
	d    byte // o e h
}

func parsePoolEvents(s string) []poolEv {
	var out []poolEv
	for _, tok := range strings.Split(s, ";") {
		if tok == "" {
			continue
		}
		e := poolEv{kind: tok[0]}
		rest := tok[1:]
		switch e.kind {
		case 'P', 'Q':
			e.d = rest[0]
		case 'S':
			parts := strings.Split(rest, ",")
			e.id, _ = strconv.Atoi(parts[0])
			e.b = parts[1] == "1"
		case 'B':
			e.id, _ = strconv.Atoi(rest)
		case 'E', 'F':
			parts := strings.Split(rest, ",")
			e.id, _ = strconv.Atoi(parts[0])
			e.d = parts[1][0]
		case 'X':
		}
		out = append(out, e)
	}
	return out
}

type poolHarness struct {
	cl    *http2.Client
	evs   []poolEv
	pos   int // next event to run
	next  int // number of the next transport
	dial  byte
	conns map[int]*http2.Conn
	log   []string // dials / shuts since the last record
	recs  []string

	mu            sync.Mutex // guards log: a racing Client.Close logs from its own goroutine
	raceClose     bool       // the next dial starts a Client.Close on another goroutine
	raceDone      chan struct{}
	inClientClose bool
	frames        []*poolFrame // Conn.Close calls the harness has started and that have not returned
}

// poolFrame is one Conn.Close started by a B event.
type poolFrame struct {
	id    int
	hit   bool // the transport's Close was reached (the CAS succeeded)
	ended bool // the scenario's E event for it was reached
}

var errPoolDial = errors.New("pool: dial refused")

func (h *poolHarness) addLog(s string) {
	h.mu.Lock()
	h.log = append(h.log, s)
	h.mu.Unlock()
}

func (h *poolHarness) dialFn() (net.Conn, error) {
	d := h.dial
	h.dial = 'e' // one dial per event at most is what the model allows; a second one shows as De-
	if h.raceClose {
		// a Client.Close on another goroutine while this dial is under way; it gets a few milliseconds to do
		// whatever the client's lock lets it do
		h.raceClose = false
		h.inClientClose = true
		h.raceDone = make(chan struct{})
		go func() {
			defer close(h.raceDone)
			_ = h.cl.Close()
		}()
		time.Sleep(3 * time.Millisecond)
	}
	if d == 'e' {
		h.addLog("De-")
		return nil, errPoolDial
	}
	t := &poolTransport{id: h.next, h: h, hsFail: d == 'h', closeCh: make(chan struct{}),
		rd: bytes.NewReader([]byte{0, 0, 0, 4, 0, 0, 0, 0, 0})}
	h.next++
	h.addLog(fmt.Sprintf("D%c%d", d, t.id))
	return t, nil
}

// finishRace waits for the racing Client.Close, if one was started; if the dial never happened the Close is run now
// (the model's second step either way).
func (h *poolHarness) finishRace() {
	if h.raceClose {
		h.raceClose = false
		h.inClientClose = true
		_ = h.cl.Close()
	} else if h.raceDone != nil {
		select {
		case <-h.raceDone:
		case <-time.After(10 * time.Second):
			h.addLog("CLOSE-HUNG")
		}
		h.raceDone = nil
	}
	h.inClientClose = false
}

func (h *poolHarness) record(res string) {
	conns, closed := h.cl.VerifConns()
	ids := make([]string, 0, len(conns))
	for _, c := range conns {
		t := c.VerifTransport().(*poolTransport)
		h.conns[t.id] = c
		ids = append(ids, strconv.Itoa(t.id))
	}
	cl := "0"
	if closed {
		cl = "1"
	}
	h.mu.Lock()
	h.recs = append(h.recs, res+"/"+strings.Join(h.log, ",")+"/"+strings.Join(ids, ".")+"/"+cl)
	h.log = h.log[:0]
	h.mu.Unlock()
}

// onShut runs inside the transport's Close.
func (h *poolHarness) onShut(t *poolTransport) {
	h.addLog(fmt.Sprintf("K%d", t.id))
	if t.hsFail || h.inClientClose || len(h.frames) == 0 {
		return
	}
	f := h.frames[len(h.frames)-1]
	if f.id != t.id || f.hit {
		return
	}
	// first half of a Conn.Close the harness started: B<id> is complete here
	f.hit = true
	h.record("-")
	// run what the scenario puts between the halves, up to this connection's E event
	for h.pos < len(h.evs) {
		e := h.evs[h.pos]
		if (e.kind == 'E' || e.kind == 'F') && e.id == t.id {
			h.pos++
			h.dial = e.d
			h.raceClose = e.kind == 'F'
			f.ended = true
			return
		}
		h.runOne()
	}
	// scenario ended inside the Close: the callback runs with a refused dial and is not recorded
	h.dial = 'e'
}

func (h *poolHarness) runOne() {
	e := h.evs[h.pos]
	h.pos++
	switch e.kind {
	case 'P', 'Q':
		h.dial = e.d
		h.raceClose = e.kind == 'Q'
		c, err := h.cl.VerifPickConn()
		h.dial = 'e'
		if e.kind == 'Q' {
			h.finishRace()
		}
		switch {
		case err == nil && c != nil:
			t := c.VerifTransport().(*poolTransport)
			h.conns[t.id] = c
			h.record("c" + strconv.Itoa(t.id))
		case errors.Is(err, http2.ErrClientClosed):
			h.record("ec")
		default:
			h.record("ed")
		}
	case 'S':
		if c := h.conns[e.id]; c != nil {
			if e.b {
				c.VerifSetNextID(1)
			} else {
				c.VerifSetNextID(1<<31 + 1)
			}
		}
		h.record("-")
	case 'B':
		c := h.conns[e.id]
		if c == nil {
			h.record("-")
			return
		}
		f := &poolFrame{id: e.id}
		h.frames = append(h.frames, f)
		_ = c.Close() // B, the events up to E, and E all happen in here when the CAS succeeds
		h.frames = h.frames[:len(h.frames)-1]
		h.dial = 'e'
		if f.ended && h.evs[h.pos-1].kind == 'F' {
			h.finishRace()
		}
		switch {
		case !f.hit:
			h.record("-") // already closed: nothing happened
		case f.ended:
			h.record("-") // the E event: the callback has run
		}
	case 'E':
		// an E with no Conn.Close of that connection under way: nothing to run
		h.record("-")
	case 'F':
		// no callback to run: only the Client.Close happens
		h.raceClose = true
		h.finishRace()
		h.record("-")
	case 'X':
		h.inClientClose = true
		_ = h.cl.Close()
		h.inClientClose = false
		h.record("-")
	}
}

func runPool(line string) (res string) {
	defer func() {
		if r := recover(); r != nil {
			res = fmt.Sprintf("panic %v", r)
		}
	}()
	args := strings.Split(line, " ")
	evs := parsePoolEvents(args[len(args)-1])
	h := &poolHarness{evs: evs, conns: map[int]*http2.Conn{}, dial: 'e'}
	h.cl = http2.VerifNewClient(h.dialFn, http2.ClientOpts{}, time.Hour)
	defer http2.VerifForgetClient(h.cl)
	done := make(chan struct{})
	go func() {
		defer close(done)
		defer func() {
			if r := recover(); r != nil {
				h.recs = append(h.recs, fmt.Sprintf("panic %v", r))
			}
		}()
		for h.pos < len(h.evs) {
			h.runOne()
		}
	}()
	select {
	case <-done:
	case <-time.After(20 * time.Second):
		return "HANG after " + strings.Join(h.recs, ";")
	}
	// let go of everything the scenario left open
	h.inClientClose = true
	h.dial = 'e'
	_ = h.cl.Close()
	for _, c := range h.conns {
		_ = c.Close()
	}
	return strings.Join(h.recs, ";")
}

// ---------------------------------------------------------------- generator

func genPool(c *genctx) {
	fixed := []string{
		"Po;Po;S0,0;Po;B1;Ph;E1,o;S0,1;Pe",
		"Po;S0,0;Po;S1,0;Po;B1;Po;E1,o;X;Po;E1,o",
		"Po;B0;X;E0,o;Po",
		"Pe;Ph;Po;B0;B0;E0,e;E0,o;Po",
		"Po;S0,0;Po;X;X;Po;B0;E0,o;B1;E1,o",
		"Po;B0;Po;E0,o;Po",
		"Po;S0,0;Po;S1,0;Po;B0;B1;B2;E2,o;E1,h;E0,e;Po;S3,0;Po",
		"Po;B0;F0,o;Po",
		"Po;S0,0;Qo;Po",
		"Po;S0,0;Po;B1;Qh;F1,o",
		"Qo;Po",
	}
	for _, f := range fixed {
		res := runPool("pool " + f)
		c.emit("fixed", "pool "+f, res, "-")
	}
	for i := 0; i < c.n; i++ {
		n := 4 + c.r.intn(30)
		if c.tier == "thorough" && c.r.chance(10) {
			n = 40 + c.r.intn(80)
		}
		var evs []string
		var stack []int
		made := 0 // upper bound on the transports handed out so far (ids 0..made-1 may exist)
		closedClient := false
		mayClose := c.r.chance(35) // Client.Close ends most of what a pool can do: keep it to a third of the scenarios
		dialKind := func() byte {
			switch x := c.r.intn(10); {
			case x < 6:
				return 'o'
			case x < 8:
				return 'e'
			default:
				return 'h'
			}
		}
		pickID := func() int {
			if made == 0 || c.r.chance(5) {
				return made + c.r.intn(3)
			}
			return c.r.intn(made)
		}
		inStack := func(id int) bool {
			for _, x := range stack {
				if x == id {
					return true
				}
			}
			return false
		}
		for k := 0; k < n; k++ {
			x := c.r.intn(100)
			switch {
			case x < 38:
				k := "P"
				if mayClose && c.r.chance(12) {
					k = "Q"
					closedClient = true
				}
				evs = append(evs, k+string(dialKind()))
				made++ // at most one transport per pick
			case x < 58:
				b := "0"
				if c.r.chance(35) {
					b = "1"
				}
				evs = append(evs, fmt.Sprintf("S%d,%s", pickID(), b))
			case x < 74:
				// The halves of a Conn.Close nest like calls (the events in between run inside the transport's Close), so
				// the generator keeps the stack of B events whose E is still to come. A connection that is already on that
				// stack gets another B only while it is the innermost one (the CAS fails, or - if the first B came before
				// the connection existed - this is the real Close and the pending E is its callback): anything else would
				// ask for an E in the middle of another connection's Close, which one goroutine cannot do.
				id := pickID()
				switch {
				case !inStack(id):
					evs = append(evs, fmt.Sprintf("B%d", id))
					stack = append(stack, id)
				case stack[len(stack)-1] == id:
					evs = append(evs, fmt.Sprintf("B%d", id))
				}
			case x < 92:
				if len(stack) > 0 && c.r.chance(85) {
					id := stack[len(stack)-1]
					stack = stack[:len(stack)-1]
					k := "E"
					if mayClose && c.r.chance(20) {
						k = "F"
						closedClient = true
					}
					evs = append(evs, fmt.Sprintf("%s%d,%c", k, id, dialKind()))
					made++
				} else {
					id := pickID()
					if !inStack(id) {
						evs = append(evs, fmt.Sprintf("E%d,%c", id, dialKind()))
					}
				}
			default:
				if mayClose && (!closedClient || c.r.chance(30)) {
					evs = append(evs, "X")
					closedClient = true
				}
			}
		}
		for len(stack) > 0 {
			id := stack[len(stack)-1]
			stack = stack[:len(stack)-1]
			evs = append(evs, fmt.Sprintf("E%d,%c", id, dialKind()))
		}
		line := "pool " + strings.Join(evs, ";")
		res := runPool(line)
		kind := "open"
		if closedClient {
			kind = "with-client-close"
		}
		c.st.size(len(evs))
		if strings.Contains(res, "/D") {
			c.st.result("dialed")
		}
		if strings.HasPrefix(res, "HANG") || strings.Contains(res, "panic") {
			c.st.result("hang-or-panic")
		}
		c.emit(kind, line, res, "-")
	}
}
