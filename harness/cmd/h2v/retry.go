package main

// Suite "retry": Client.RoundTrip's loop over connections (client.go) run for real - pickConn, Dial, Handshake,
// roundTripOnce and the connection's loops included - against the model `round_trip` of Proofs/CliResRetry.v.
//
// A case is the list of what the successive connections do with the request, one letter per dial:
//
//	g  the server takes the HEADERS in and answers GOAWAY(last-stream-id 0): disclaimed, retryable
//	n  the server announces MAX_CONCURRENT_STREAMS = 0: the request is not written, retryable
//	r  the server answers RST_STREAM(CANCEL): the request was processed, final
//	o  the server answers 200: done
//	p  the server says GOAWAY(last-stream-id = this stream) and then answers 200: done
//	x  the dial fails: final
//	h  the handshake fails: final
//
// A list that starts with P is a PAIR case: a first caller's request (stream 1) is in flight on the first connection
// when the second caller's request (stream 3) goes out on it; the server answers GOAWAY(last-stream-id 1) - stream 3
// disclaimed, stream 1 still owed - and delivers stream 1's 200 only after the second caller's RoundTrip (whose further
// attempts follow the rest of the list) has returned. The result then ends in A=<nil|R|F|HANG>, the first caller's fate:
// RFC 7540 6.8 and C11 let it complete.
//
// Result: retry=<0|1> err=<nil|R|F> attempts=<dials made> processed=<HEADERS that reached a server and were not disclaimed>
// (R: retryable(err), F: any other error).

import (
	"bytes"
	"errors"
	"fmt"
	"io"
	"net"
	"runtime"
	"strings"
	"sync"
	"sync/atomic"
	"time"

	"github.com/dgrr/http2"
	"github.com/valyala/fasthttp"
	"github.com/valyala/fasthttp/fasthttputil"
	xhttp2 "golang.org/x/net/http2"
	"golang.org/x/net/http2/hpack"
)

func init() {
	suites["retry"] = genRetry
	replayers["retry"] = runRetry
}

type eofConn struct{ net.Conn }

func (eofConn) Read([]byte) (int, error) { return 0, io.EOF }

// pairServer: see the PAIR case above.
func pairServer(c net.Conn, sawA chan<- struct{}, releaseA <-chan struct{}, wg *sync.WaitGroup) {
	defer wg.Done()
	defer c.Close()
	pre := make([]byte, 24)
	if _, err := io.ReadFull(c, pre); err != nil {
		return
	}
	fr := xhttp2.NewFramer(c, c)
	_ = fr.WriteSettings()
	var hb bytes.Buffer
	enc := hpack.NewEncoder(&hb)
	_ = enc.WriteField(hpack.HeaderField{Name: ":status", Value: "200"})
	var wmu sync.Mutex
	seen := 0
	for {
		f, err := fr.ReadFrame()
		if err != nil {
			return
		}
		switch x := f.(type) {
		case *xhttp2.SettingsFrame:
			if !x.IsAck() {
				wmu.Lock()
				_ = fr.WriteSettingsAck()
				wmu.Unlock()
			}
		case *xhttp2.HeadersFrame:
			seen++
			if seen == 1 {
				sidA := x.StreamID
				close(sawA)
				go func() {
					<-releaseA
					wmu.Lock()
					_ = fr.WriteHeaders(xhttp2.HeadersFrameParam{StreamID: sidA, BlockFragment: hb.Bytes(), EndHeaders: true, EndStream: true})
					wmu.Unlock()
				}()
			} else {
				wmu.Lock()
				_ = fr.WriteGoAway(1, xhttp2.ErrCodeNo, nil)
				wmu.Unlock()
			}
		}
	}
}

func retryServer(c net.Conn, kind byte, processed *int64, wg *sync.WaitGroup) {
	defer wg.Done()
	defer c.Close()
	pre := make([]byte, 24)
	if _, err := io.ReadFull(c, pre); err != nil {
		return
	}
	fr := xhttp2.NewFramer(c, c)
	if kind == 'n' {
		_ = fr.WriteSettings(xhttp2.Setting{ID: xhttp2.SettingMaxConcurrentStreams, Val: 0})
	} else {
		_ = fr.WriteSettings()
	}
	for {
		f, err := fr.ReadFrame()
		if err != nil {
			return
		}
		switch x := f.(type) {
		case *xhttp2.SettingsFrame:
			if !x.IsAck() {
				_ = fr.WriteSettingsAck()
			}
		case *xhttp2.HeadersFrame:
			sid := x.StreamID
			var hb bytes.Buffer
			enc := hpack.NewEncoder(&hb)
			_ = enc.WriteField(hpack.HeaderField{Name: ":status", Value: "200"})
			switch kind {
			case 'g':
				_ = fr.WriteGoAway(0, xhttp2.ErrCodeNo, nil)
			case 'r':
				atomic.AddInt64(processed, 1)
				_ = fr.WriteRSTStream(sid, xhttp2.ErrCodeCancel)
			case 'p':
				atomic.AddInt64(processed, 1)
				_ = fr.WriteGoAway(sid, xhttp2.ErrCodeNo, nil)
				_ = fr.WriteHeaders(xhttp2.HeadersFrameParam{StreamID: sid, BlockFragment: hb.Bytes(), EndHeaders: true, EndStream: true})
			default:
				atomic.AddInt64(processed, 1)
				_ = fr.WriteHeaders(xhttp2.HeadersFrameParam{StreamID: sid, BlockFragment: hb.Bytes(), EndHeaders: true, EndStream: true})
			}
		}
	}
}

// calledFrom reports whether a function whose name ends in name is on the calling goroutine's stack.
func calledFrom(name string) bool {
	pc := make([]uintptr, 48)
	n := runtime.Callers(2, pc)
	frames := runtime.CallersFrames(pc[:n])
	for {
		f, more := frames.Next()
		if strings.HasSuffix(f.Function, "."+name) {
			return true
		}
		if !more {
			return false
		}
	}
}

func runRetry(line string) string {
	args := strings.Split(line, " ")
	outcomes := args[len(args)-1]
	if outcomes == "-" {
		outcomes = ""
	}
	pair := strings.HasPrefix(outcomes, "P")
	sawA, releaseA := make(chan struct{}), make(chan struct{})
	var dials int
	var processed int64
	var wg sync.WaitGroup
	var ends []net.Conn
	dial := func() (net.Conn, error) {
		// a connection that ends makes the client dial a replacement from its own goroutine (onConnectionDropped), racing
		// the attempts: those dials are refused (the client ignores the error), so that the k-th dial is the k-th attempt's
		if calledFrom("onConnectionDropped") {
			return nil, errors.New("retry: no replacement")
		}
		k := byte('x')
		if dials < len(outcomes) {
			k = outcomes[dials]
		}
		dials++
		switch k {
		case 'x':
			return nil, errors.New("retry: dial refused")
		case 'h':
			pc := fasthttputil.NewPipeConns()
			ends = append(ends, pc.Conn1(), pc.Conn2())
			return eofConn{pc.Conn1()}, nil
		}
		pc := fasthttputil.NewPipeConns()
		ends = append(ends, pc.Conn1(), pc.Conn2())
		wg.Add(1)
		if k == 'P' {
			go pairServer(pc.Conn2(), sawA, releaseA, &wg)
		} else {
			go retryServer(pc.Conn2(), k, &processed, &wg)
		}
		return pc.Conn1(), nil
	}
	cl := http2.VerifNewClient(dial, http2.ClientOpts{}, time.Hour)
	defer http2.VerifForgetClient(cl)
	req := fasthttp.AcquireRequest()
	res := fasthttp.AcquireResponse()
	req.Header.SetMethod("GET")
	req.SetRequestURI("https://retry.test/x")
	type rt struct {
		retry bool
		err   error
	}
	doneA := make(chan rt, 1)
	if pair {
		// the first caller: its request is on the wire before the second one starts
		reqA := fasthttp.AcquireRequest()
		resA := fasthttp.AcquireResponse()
		reqA.Header.SetMethod("GET")
		reqA.SetRequestURI("https://retry.test/a")
		go func() {
			retry, err := cl.RoundTrip(nil, reqA, resA)
			doneA <- rt{retry, err}
		}()
		select {
		case <-sawA:
		case <-time.After(5 * time.Second):
			return "HANG first request never reached the server"
		}
	}
	done := make(chan rt, 1)
	go func() {
		retry, err := cl.RoundTrip(nil, req, res)
		done <- rt{retry, err}
	}()
	var out string
	select {
	case r := <-done:
		cls := "nil"
		if r.err != nil {
			cls = "F"
			if http2.VerifRetryable(r.err) {
				cls = "R"
			}
		}
		rv := 0
		if r.retry {
			rv = 1
		}
		out = fmt.Sprintf("retry=%d err=%s attempts=%d processed=%d", rv, cls, dials, atomic.LoadInt64(&processed))
	case <-time.After(15 * time.Second):
		out = fmt.Sprintf("HANG attempts=%d", dials)
	}
	if pair {
		close(releaseA)
		select {
		case r := <-doneA:
			cls := "nil"
			if r.err != nil {
				cls = "F"
				if http2.VerifRetryable(r.err) {
					cls = "R"
				}
			}
			out += " A=" + cls
		case <-time.After(5 * time.Second):
			out += " A=HANG"
		}
	}
	_ = cl.Close()
	for _, c := range ends {
		_ = c.Close()
	}
	wg.Wait()
	return out
}

func genRetry(c *genctx) {
	emit := func(kind, o string) {
		if o == "" {
			o = "-"
		}
		line := "retry " + o
		res := runRetry(line)
		c.st.size(len(o))
		c.st.result(strings.Fields(res)[0])
		c.emit(kind, line, res, "-")
	}
	// every outcome list of length <= 4 over the retryable ones followed by one final outcome, and the all-retryable ones
	retryable := []byte{'g', 'n'}
	final := []byte{'r', 'o', 'p', 'x', 'h'}
	var rec func(prefix string, depth int)
	rec = func(prefix string, depth int) {
		for _, f := range final {
			emit("sweep", prefix+string(f))
		}
		if depth == 0 {
			return
		}
		for _, r := range retryable {
			rec(prefix+string(r), depth-1)
		}
	}
	depth := 3
	if c.tier == "thorough" {
		depth = 4
	}
	rec("", depth)
	for _, all := range []string{"gggg", "nnnn", "gngn", "nggg", "ggggo", "nnnnr", "gggng"} {
		emit("all-retryable", all)
	}
	for _, rest := range []string{"o", "go", "r", "no", "ggg", "x", "p", "ngo"} {
		emit("pair", "P"+rest)
	}
	for i := 0; i < c.n; i++ {
		n := 1 + c.r.intn(6)
		b := make([]byte, n)
		for k := range b {
			b[k] = "ggnngnroxphg"[c.r.intn(12)]
		}
		emit("random", string(b))
	}
}
