package main

// verifExtraConsts returns constants exported by later hook commits; kept in
// its own file so that tables.go does not change when hooks are added.
func verifExtraConsts() map[string]int64 { return map[string]int64{} }
