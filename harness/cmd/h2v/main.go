// Command h2v is the Go side of the verification harness: it dumps the
// tables the Coq development is generated from, and runs the implementation
// (built from /repo's working tree with -tags verif) on generated cases.
package main

import (
	"bufio"
	"encoding/hex"
	"fmt"
	"os"
	"sort"
	"strconv"
	"strings"
)

// A suite generates cases and runs the implementation on each of them.
// It writes one case per line to in and the implementation's canonical
// result for that case, one per line, to out.
type suite func(c *genctx)

// genctx carries what a suite needs: the PRNG, the requested number of random
// cases, the tier, and the three line-oriented outputs (cases, implementation
// results, results of an independent reference implementation or "-").
type genctx struct {
	r    *rng
	n    int
	tier string
	in   *bufio.Writer
	out  *bufio.Writer
	ref  *bufio.Writer
	st   *stats
}

// emit records one case with the implementation's and the reference's result.
func (c *genctx) emit(kind, line, implRes, refRes string) {
	c.in.WriteString(line)
	c.in.WriteByte('\n')
	c.out.WriteString(implRes)
	c.out.WriteByte('\n')
	c.ref.WriteString(refRes)
	c.ref.WriteByte('\n')
	c.st.Cases++
	c.st.kind(kind)
}

var suites = map[string]suite{}

// stats is the input distribution written into the evidence.
type stats struct {
	Cases  int            `json:"cases"`
	Kinds  map[string]int `json:"kinds"`
	Sizes  map[string]int `json:"sizes"`
	Result map[string]int `json:"results"`
}

func newStats() *stats {
	return &stats{Kinds: map[string]int{}, Sizes: map[string]int{}, Result: map[string]int{}}
}

func (s *stats) kind(k string)   { s.Kinds[k]++ }
func (s *stats) result(k string) { s.Result[k]++ }
func (s *stats) size(n int) {
	b := "0"
	switch {
	case n == 0:
	case n <= 2:
		b = "1-2"
	case n <= 8:
		b = "3-8"
	case n <= 32:
		b = "9-32"
	case n <= 128:
		b = "33-128"
	case n <= 1024:
		b = "129-1024"
	default:
		b = ">1024"
	}
	s.Sizes[b]++
}

func hx(b []byte) string {
	if len(b) == 0 {
		return "-"
	}
	return hex.EncodeToString(b)
}

func unhx(s string) []byte {
	if s == "-" {
		return nil
	}
	b, err := hex.DecodeString(s)
	if err != nil {
		panic(err)
	}
	return b
}

// rng is splitmix64: every random choice in a run derives from one seed.
type rng struct{ s uint64 }

func (r *rng) u64() uint64 {
	r.s += 0x9e3779b97f4a7c15
	z := r.s
	z = (z ^ (z >> 30)) * 0xbf58476d1ce4e5b9
	z = (z ^ (z >> 27)) * 0x94d049bb133111eb
	return z ^ (z >> 31)
}
func (r *rng) intn(n int) int {
	if n <= 0 {
		return 0
	}
	return int(r.u64() % uint64(n))
}
func (r *rng) bool() bool        { return r.u64()&1 == 1 }
func (r *rng) chance(p int) bool { return r.intn(100) < p }
func (r *rng) bytes(n int) []byte {
	b := make([]byte, n)
	for i := range b {
		b[i] = byte(r.u64())
	}
	return b
}
func (r *rng) pick(xs ...int) int { return xs[r.intn(len(xs))] }

func usage() {
	names := []string{}
	for k := range suites {
		names = append(names, k)
	}
	sort.Strings(names)
	fmt.Fprintf(os.Stderr, "usage: h2v dump-tables <dir> | h2v fingerprints <repo dir> | h2v probe <seed> <rounds> | h2v gen <suite> <seed> <n> <tier> <prefix> | h2v replay <suite> <case line>\nsuites: %s\n", strings.Join(names, " "))
	os.Exit(2)
}

func main() {
	if len(os.Args) < 2 {
		usage()
	}
	switch os.Args[1] {
	case "probe":
		if len(os.Args) != 4 {
			usage()
		}
		seed, _ := strconv.ParseUint(os.Args[2], 10, 64)
		n, _ := strconv.Atoi(os.Args[3])
		runProbes(seed, n)
	case "fingerprints":
		if len(os.Args) != 3 {
			usage()
		}
		fingerprints(os.Args[2])
	case "dump-tables":
		if len(os.Args) != 3 {
			usage()
		}
		dumpTables(os.Args[2])
	case "gen":
		if len(os.Args) != 7 {
			usage()
		}
		s, ok := suites[os.Args[2]]
		if !ok {
			usage()
		}
		seed, _ := strconv.ParseUint(os.Args[3], 10, 64)
		n, _ := strconv.Atoi(os.Args[4])
		tier, prefix := os.Args[5], os.Args[6]
		fin, err := os.Create(prefix + ".in")
		must(err)
		fout, err := os.Create(prefix + ".go")
		must(err)
		fref, err := os.Create(prefix + ".ref")
		must(err)
		in, out, ref := bufio.NewWriterSize(fin, 1<<20), bufio.NewWriterSize(fout, 1<<20), bufio.NewWriterSize(fref, 1<<20)
		st := newStats()
		s(&genctx{r: &rng{s: seed}, n: n, tier: tier, in: in, out: out, ref: ref, st: st})
		must(in.Flush())
		must(out.Flush())
		must(ref.Flush())
		must(fin.Close())
		must(fout.Close())
		must(fref.Close())
		writeJSON(prefix+".stats.json", st)
	case "freerun":
		// h2v freerun <seed> <rounds>: client against server, no lockstep, hooks off (for the -race build)
		if len(os.Args) != 4 {
			usage()
		}
		seed, _ := strconv.ParseUint(os.Args[2], 10, 64)
		n, _ := strconv.Atoi(os.Args[3])
		runFreeRun(seed, n)
	case "replay":
		// h2v replay <suite> <case line>: run one stored case against the implementation.
		if len(os.Args) < 4 {
			usage()
		}
		r, ok := replayers[os.Args[2]]
		if !ok {
			usage()
		}
		fmt.Println(r(strings.Join(os.Args[3:], " ")))
	default:
		usage()
	}
}

// replayers run the implementation on one case line and return its result line.
var replayers = map[string]func(line string) string{}

func must(err error) {
	if err != nil {
		fmt.Fprintln(os.Stderr, "h2v:", err)
		os.Exit(3)
	}
}
