package main

import (
	"encoding/json"
	"os"
)

func writeJSON(path string, v interface{}) {
	b, err := json.MarshalIndent(v, "", " ")
	must(err)
	must(os.WriteFile(path, b, 0o644))
}
