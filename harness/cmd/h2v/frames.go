package main

// Frame codec suites (C05, C16): "frameread" and "framewrite".
//
//	rd  <maxLen> <hex>     ReadFrameFromWithSize on a reader that holds <hex>, pool tracker on
//	rds <maxLen> <hex>     the same, repeated on one reader until an error other than unknown-type
//	rda <maxLen> <hex>     the same as rd, reduced to the error class and "did it allocate > 1 MiB"
//	wr  <type> <pre> <sid> <padn> <fields...> obs=<hex>          build through the API, WriteTo
//	wr2 <padn2> <type> <pre> <sid> <padn> <fields...> obs=<hex>,<hex>   WriteTo twice
//	wrd <junk> <len> wr|wr2 ...      the same on a FrameHeader that was used before: recycled through the
//	                                 pool, then holding payload <junk> and length <len>
//	rw  <max> <hex> obs=..           read a frame, WriteTo the returned header
//	rwd <junk> <max> <hex> obs=..    the same, the pool holding a used header (junk payload, limit 0)
//	rwa <max> <hex> obs=..           read a frame, SetAck(true) if it is SETTINGS, WriteTo on the same header
//	rdm <lims> <hex>                 reads on one reader, one per entry of <lims> (d = ReadFrameFrom,
//	                                 n = ReadFrameFromWithSize(n)), the pool holding a used header
//
// The canonical strings must match ocaml/drv_frames.ml exactly.

import (
	"bufio"
	"bytes"
	"encoding/binary"
	"errors"
	"fmt"
	"io"
	"runtime"
	"strconv"
	"strings"

	http2 "github.com/dgrr/http2"
	xhttp2 "golang.org/x/net/http2"
)

func init() {
	suites["frameread"] = genFrameRead
	replayers["frameread"] = runFrameLine
	suites["framewrite"] = genFrameWrite
	replayers["framewrite"] = runFrameLine
}

func bit01(b bool) string {
	if b {
		return "1"
	}
	return "0"
}

// ---------------------------------------------------------------- read side

func errClass(err error) string {
	if err == io.EOF || err == io.ErrUnexpectedEOF {
		return "eof"
	}
	var he http2.Error
	if errors.As(err, &he) {
		switch {
		case he == http2.ErrPayloadExceeds:
			return "too-large"
		case he == http2.ErrUnknownFrameType:
			return "unknown-type"
		case he == http2.ErrMissingBytes:
			return "missing"
		}
		if http2.VerifErrFrameType(he) == http2.FrameGoAway {
			switch he.Code() {
			case http2.FrameSizeError:
				return "frame-size"
			case http2.ProtocolError:
				return "settings-proto"
			case http2.FlowControlError:
				return "settings-flow"
			}
		}
		return "h2error"
	}
	if strings.HasPrefix(err.Error(), "out of range") { // the only plain error of the codec: CutPadding
		return "padding"
	}
	return "other"
}

func canonBody(body http2.Frame) string {
	switch b := body.(type) {
	case *http2.Data:
		return fmt.Sprintf("data es=%s pad=%s d=%s", bit01(b.EndStream()), bit01(b.Padding()), hx(b.Data()))
	case *http2.Headers:
		return fmt.Sprintf("headers es=%s eh=%s pr=%s dep=%d w=%d pad=%s d=%s", bit01(b.EndStream()), bit01(b.EndHeaders()),
			bit01(b.VerifPriority()), b.Stream(), b.Weight(), bit01(b.Padding()), hx(b.Headers()))
	case *http2.Priority:
		return fmt.Sprintf("priority dep=%d w=%d", b.Stream(), b.Weight())
	case *http2.RstStream:
		return fmt.Sprintf("rst code=%d", uint32(b.Code()))
	case *http2.Settings:
		present := 0
		for id := uint16(0); id < 16; id++ { // Has(id): which parameters the frame carried
			if b.Has(id) {
				present |= 1 << id
			}
		}
		return fmt.Sprintf("settings ack=%s ts=%d push=%s ms=%d ws=%d fs=%d hs=%d hasws=%s present=%d", bit01(b.IsAck()),
			b.HeaderTableSize(), bit01(b.Push()), b.MaxConcurrentStreams(), b.MaxWindowSize(), b.MaxFrameSize(),
			b.MaxHeaderListSize(), bit01(b.VerifHasWindowSize()), present)
	case *http2.PushPromise:
		st, ended, hdr := b.VerifGet()
		return fmt.Sprintf("pp eh=%s promised=%d d=%s", bit01(ended), st, hx(hdr))
	case *http2.Ping:
		return fmt.Sprintf("ping ack=%s d=%s", bit01(b.IsAck()), hx(b.Data()))
	case *http2.GoAway:
		return fmt.Sprintf("goaway last=%d code=%d d=%s", b.Stream(), uint32(b.Code()), hx(b.Data()))
	case *http2.WindowUpdate:
		return fmt.Sprintf("wu inc=%d", b.Increment())
	case *http2.Continuation:
		return fmt.Sprintf("cont eh=%s d=%s", bit01(b.EndHeaders()), hx(b.Headers()))
	case nil:
		return "nobody"
	}
	return "?"
}

func canonHeader(fr *http2.FrameHeader) string {
	return fmt.Sprintf("t=%d fl=%d sid=%d len=%d %s", int8(fr.Type()), uint8(fr.Flags()), fr.Stream(), fr.Len(), canonBody(fr.Body()))
}

// poolEvents turns the tracker log into A:h0,A:f1,R:f1,R:h0
func poolEvents(log []string) string {
	if len(log) == 0 {
		return "-"
	}
	ids := map[string]int{}
	var out []string
	for _, l := range log {
		f := strings.Fields(l)
		if len(f) != 3 {
			out = append(out, "?")
			continue
		}
		id, ok := ids[f[2]]
		if !ok {
			id = len(ids)
			ids[f[2]] = id
		}
		k := "?"
		switch f[1] {
		case "frame":
			k = "f"
		case "frameHeader":
			k = "h"
		}
		op := "A:"
		if f[0] == "put" {
			op = "R:"
		}
		out = append(out, fmt.Sprintf("%s%s%d", op, k, id))
	}
	return strings.Join(out, ",")
}

type posReader struct {
	src *bytes.Reader
	br  *bufio.Reader
	n   int
}

func newPosReader(in []byte) *posReader {
	src := bytes.NewReader(in)
	return &posReader{src: src, br: bufio.NewReaderSize(src, 4096), n: len(in)}
}

// pos is the number of bytes the bufio.Reader has delivered so far.
func (p *posReader) pos() int { return p.n - p.src.Len() - p.br.Buffered() }

// readOne runs ReadFrameFromWithSize once and returns the canonical result.
func readOne(p *posReader, max uint32) (res string, cls string) { return readOneWith(p, max, false) }

// readOneWith: ReadFrameFrom when deflt, else ReadFrameFromWithSize(max)
func readOneWith(p *posReader, max uint32, deflt bool) (res string, cls string) {
	before := p.pos()
	http2.VerifPoolTrackerStart(true)
	var fr *http2.FrameHeader
	var err error
	panicked := ""
	func() {
		defer func() {
			if r := recover(); r != nil {
				panicked = fmt.Sprint(r)
			}
		}()
		if deflt {
			fr, err = http2.ReadFrameFrom(p.br)
		} else {
			fr, err = http2.ReadFrameFromWithSize(p.br, max)
		}
	}()
	_, _, viol, log := http2.VerifPoolTrackerStop()
	used := p.pos() - before
	v := "-"
	if len(viol) > 0 {
		v = strings.ReplaceAll(viol[0], " ", "_")
	}
	tail := fmt.Sprintf("used=%d ev=%s viol=%s", used, poolEvents(log), v)
	switch {
	case panicked != "":
		return "panic " + tail, "panic"
	case err != nil:
		if fr != nil {
			return "err-with-frame " + tail, "other"
		}
		c := errClass(err)
		return fmt.Sprintf("err %s %s", c, tail), c
	}
	res = fmt.Sprintf("ok %s %s", canonHeader(fr), tail)
	http2.ReleaseFrameHeader(fr)
	return res, "ok"
}

func runRd(max uint32, in []byte) (string, string) {
	return readOne(newPosReader(in), max)
}

func runRds(max uint32, in []byte) string {
	p := newPosReader(in)
	var parts []string
	for {
		r, cls := readOne(p, max)
		parts = append(parts, r)
		if cls != "ok" && cls != "unknown-type" {
			break
		}
		if len(parts) > len(in)/9+2 {
			parts = append(parts, "no-progress")
			break
		}
	}
	return strings.Join(parts, " | ")
}

// runRdm: reads on one reader, each with its own limit; the pool first gets a used header
// whose limit is 0, and every header read is released again, so that each read takes over
// the header (and the bodies) the previous ones used.
func runRdm(lims []string, in []byte) string {
	usedHeaderIntoPool([]byte{1, 2, 3, 4, 5, 6, 7, 8, 9})
	p := newPosReader(in)
	var parts []string
	for _, l := range lims {
		var r, cls string
		if l == "d" {
			r, cls = readOneWith(p, 0, true)
		} else {
			r, cls = readOneWith(p, uint32(atoiU(l)), false)
		}
		parts = append(parts, r)
		if cls != "ok" && cls != "unknown-type" {
			break
		}
	}
	return strings.Join(parts, " | ")
}

func runRda(max uint32, in []byte) string {
	var m0, m1 runtime.MemStats
	runtime.GC() // twice: empties the sync.Pools, so that the payload buffer is a fresh one
	runtime.GC()
	runtime.ReadMemStats(&m0)
	p := newPosReader(in)
	fr, err := http2.ReadFrameFromWithSize(p.br, max)
	runtime.ReadMemStats(&m1)
	cls := "ok"
	if err != nil {
		cls = "err " + errClass(err)
	} else {
		http2.ReleaseFrameHeader(fr)
	}
	return fmt.Sprintf("%s bigalloc=%s", cls, bit01(m1.TotalAlloc-m0.TotalAlloc > 1<<20))
}

// ---------------------------------------------------------------- write side

type wcase struct {
	ty     string
	pre    uint8
	sid    uint32
	fields []string // as written on the case line (values read back through the getters)
	body   http2.Frame
	padded bool
}

func atoiU(s string) uint64 {
	v, err := strconv.ParseUint(s, 10, 64)
	if err != nil {
		panic(err)
	}
	return v
}

// preSparse: the body has a previous life (preRead): only the setters whose argument differs from what a
// fresh body holds are called, as a caller who relies on AcquireFrame's Reset would.
func preSparse() bool { return preRead != nil }

// buildBody makes the frame body through the public setters (plus the verif setters for
// the fields that have none) and returns the field list as the getters show it. With a previous life
// (preSparse) a setter whose argument is what a fresh body holds is not called, and the field list says
// what was asked for there: what the getters show is then the previous life's, if Reset let it through.
func buildBody(ty string, f []string) (http2.Frame, []string, bool) {
	skipped := map[int]bool{}
	fr, got, padded := buildBody0(ty, f, skipped)
	for i := range got {
		if skipped[i] {
			got[i] = f[i]
		}
	}
	return fr, got, padded
}

func buildBody0(ty string, f []string, skipped map[int]bool) (http2.Frame, []string, bool) {
	tb := func(s string) bool { return s == "1" }
	switch ty {
	case "data": // es hp hex
		d := http2.AcquireFrame(http2.FrameData).(*http2.Data)
		if !preSparse() || tb(f[0]) {
			d.SetEndStream(tb(f[0]))
		} else {
			skipped[0] = true
		}
		if !preSparse() || tb(f[1]) {
			d.SetPadding(tb(f[1]))
		} else {
			skipped[1] = true
		}
		if !preSparse() || len(f[2]) > 1 {
			d.SetData(unhx(f[2]))
		} else {
			skipped[2] = true
		}
		return d, []string{bit01(d.EndStream()), bit01(d.Padding()), hx(d.Data())}, d.Padding()
	case "headers": // hp dep w es eh pr hex
		h := http2.AcquireFrame(http2.FrameHeaders).(*http2.Headers)
		if !preSparse() || tb(f[0]) {
			h.SetPadding(tb(f[0]))
		} else {
			skipped[0] = true
		}
		if !preSparse() || atoiU(f[1]) != 0 {
			h.SetStream(uint32(atoiU(f[1])))
		} else {
			skipped[1] = true
		}
		if !preSparse() || atoiU(f[2]) != 0 {
			h.SetWeight(byte(atoiU(f[2])))
		} else {
			skipped[2] = true
		}
		if !preSparse() || tb(f[3]) {
			h.SetEndStream(tb(f[3]))
		} else {
			skipped[3] = true
		}
		if !preSparse() || tb(f[4]) {
			h.SetEndHeaders(tb(f[4]))
		} else {
			skipped[4] = true
		}
		if !preSparse() || tb(f[5]) {
			h.VerifSetPriority(tb(f[5]))
		} else {
			skipped[5] = true
		}
		if !preSparse() || len(f[6]) > 1 {
			h.SetHeaders(unhx(f[6]))
		} else {
			skipped[6] = true
		}
		return h, []string{bit01(h.Padding()), fmt.Sprint(h.Stream()), fmt.Sprint(h.Weight()), bit01(h.EndStream()),
			bit01(h.EndHeaders()), bit01(h.VerifPriority()), hx(h.Headers())}, h.Padding()
	case "priority": // dep w
		p := http2.AcquireFrame(http2.FramePriority).(*http2.Priority)
		p.SetStream(uint32(atoiU(f[0])))
		p.SetWeight(byte(atoiU(f[1])))
		return p, []string{fmt.Sprint(p.Stream()), fmt.Sprint(p.Weight())}, false
	case "rst": // code
		r := http2.AcquireFrame(http2.FrameResetStream).(*http2.RstStream)
		if !preSparse() || atoiU(f[0]) != 0 {
			r.SetCode(http2.ErrorCode(atoiU(f[0])))
		} else {
			skipped[0] = true
		}
		return r, []string{fmt.Sprint(uint32(r.Code()))}, false
	case "settings": // ack ts push ms ws fs hs
		s := http2.AcquireFrame(http2.FrameSettings).(*http2.Settings)
		s.SetAck(tb(f[0]))
		s.SetHeaderTableSize(uint32(atoiU(f[1])))
		s.SetPush(tb(f[2]))
		s.SetMaxConcurrentStreams(uint32(atoiU(f[3])))
		s.SetMaxWindowSize(uint32(atoiU(f[4])))
		s.SetMaxFrameSize(uint32(atoiU(f[5])))
		s.SetMaxHeaderListSize(uint32(atoiU(f[6])))
		return s, []string{bit01(s.IsAck()), fmt.Sprint(s.HeaderTableSize()), bit01(s.Push()), fmt.Sprint(s.MaxConcurrentStreams()),
			fmt.Sprint(s.MaxWindowSize()), fmt.Sprint(s.MaxFrameSize()), fmt.Sprint(s.MaxHeaderListSize())}, false
	case "pp": // ended promised hex
		p := http2.AcquireFrame(http2.FramePushPromise).(*http2.PushPromise)
		p.VerifSet(uint32(atoiU(f[1])), tb(f[0]))
		p.SetHeader(unhx(f[2]))
		st, ended, hdr := p.VerifGet()
		return p, []string{bit01(ended), fmt.Sprint(st), hx(hdr)}, false
	case "ping": // ack hex8
		p := http2.AcquireFrame(http2.FramePing).(*http2.Ping)
		p.SetAck(tb(f[0]))
		p.SetData(unhx(f[1]))
		return p, []string{bit01(p.IsAck()), hx(p.Data())}, false
	case "goaway": // last code hex
		g := http2.AcquireFrame(http2.FrameGoAway).(*http2.GoAway)
		if !preSparse() || atoiU(f[0]) != 0 {
			g.SetStream(uint32(atoiU(f[0])))
		} else {
			skipped[0] = true
		}
		if !preSparse() || atoiU(f[1]) != 0 {
			g.SetCode(http2.ErrorCode(atoiU(f[1])))
		} else {
			skipped[1] = true
		}
		if !preSparse() || len(f[2]) > 1 {
			g.SetData(unhx(f[2]))
		} else {
			skipped[2] = true
		}
		return g, []string{fmt.Sprint(g.Stream()), fmt.Sprint(uint32(g.Code())), hx(g.Data())}, false
	case "wu": // inc (signed)
		w := http2.AcquireFrame(http2.FrameWindowUpdate).(*http2.WindowUpdate)
		v, err := strconv.ParseInt(f[0], 10, 64)
		if err != nil {
			panic(err)
		}
		w.SetIncrement(int(v))
		return w, []string{fmt.Sprint(w.Increment())}, false
	case "cont": // eh hex
		c := http2.AcquireFrame(http2.FrameContinuation).(*http2.Continuation)
		if !preSparse() || tb(f[0]) {
			c.SetEndHeaders(tb(f[0]))
		} else {
			skipped[0] = true
		}
		if !preSparse() || len(f[1]) > 1 {
			c.SetHeader(unhx(f[1]))
		} else {
			skipped[1] = true
		}
		return c, []string{bit01(c.EndHeaders()), hx(c.Headers())}, false
	}
	panic("unknown frame type " + ty)
}

// writeFrame builds the frame and writes it `times` times; returns the outputs and the
// pad length seen in each (0 when the frame is not padded).
// dirt is the previous life of a frame header: nil = a header as AcquireFrameHeader gives it.
type dirt struct {
	junk   []byte
	length int
}

// usedHeaderIntoPool puts a FrameHeader that has been used (payload buffer, length, flags,
// stream, limit 0 and a body) back into the pool, so that the next acquire gets it.
func usedHeaderIntoPool(junk []byte) {
	h := http2.AcquireFrameHeader()
	h.VerifDirty(junk, len(junk)+3)
	h.VerifSetMaxLen(0)
	h.SetFlags(0x7f)
	h.SetStream(0xfffffff0)
	p := http2.AcquireFrame(http2.FramePing).(*http2.Ping)
	p.SetData(junk)
	h.SetBody(p)
	http2.ReleaseFrameHeader(h)
}

// preRead, when set, is a valid frame that is read (ReadFrameFrom: Deserialize into pooled objects) and
// released again just before the next frame is built, so that AcquireFrame hands buildBody a body object
// with a previous life (the pool returns what the same goroutine has just put back). The model builds on
// a fresh body: AcquireFrame's contract is that Reset leaves nothing of that life behind.
var preRead []byte

func writeFrame(ty string, pre uint8, sid uint32, f []string, times int, d *dirt) (outs [][]byte, pads []int, fields []string, err string) {
	defer func() {
		if r := recover(); r != nil {
			err = "panic"
		}
	}()
	if preRead != nil {
		p := newPosReader(preRead)
		if fr0, e := http2.ReadFrameFromWithSize(p.br, 1<<24-1); e == nil {
			http2.ReleaseFrameHeader(fr0)
		}
	}
	body, fields, padded := buildBody(ty, f)
	if d != nil {
		usedHeaderIntoPool(d.junk)
	}
	fr := http2.AcquireFrameHeader()
	if d != nil {
		fr.VerifDirty(d.junk, d.length)
	}
	fr.SetFlags(http2.FrameFlags(int8(pre)))
	fr.SetStream(sid)
	fr.SetBody(body)
	for i := 0; i < times; i++ {
		var buf bytes.Buffer
		bw := bufio.NewWriterSize(&buf, 1<<16)
		if _, e := fr.WriteTo(bw); e != nil {
			return nil, nil, fields, "write-error"
		}
		bw.Flush()
		out := append([]byte(nil), buf.Bytes()...)
		outs = append(outs, out)
		pad := 0
		if padded && len(out) > 9 {
			pad = int(out[9])
		}
		pads = append(pads, pad)
	}
	http2.ReleaseFrameHeader(fr)
	return outs, pads, fields, ""
}

// wrLine composes the case line; the implementation's result is the hex of the output.
func wrLine(ty string, pre uint8, sid uint32, f []string, twice bool, d *dirt) (line, res string, outs [][]byte) {
	times := 1
	if twice {
		times = 2
	}
	outs, pads, fields, e := writeFrame(ty, pre, sid, f, times, d)
	defer func() {
		if d != nil {
			line = fmt.Sprintf("wrd %s %d %s", hx(d.junk), d.length, line)
		}
		if preRead != nil {
			line = fmt.Sprintf("wrb %s %s", hx(preRead), line)
		}
	}()
	if e != "" {
		return fmt.Sprintf("wr %s %d %d 0 %s obs=-", ty, pre, sid, strings.Join(f, " ")), e, nil
	}
	if twice {
		line = fmt.Sprintf("wr2 %d %s %d %d %d %s obs=%s,%s", pads[1], ty, pre, sid, pads[0], strings.Join(fields, " "), hx(outs[0]), hx(outs[1]))
		return line, hx(outs[0]) + "," + hx(outs[1]), outs
	}
	line = fmt.Sprintf("wr %s %d %d %d %s obs=%s", ty, pre, sid, pads[0], strings.Join(fields, " "), hx(outs[0]))
	return line, hx(outs[0]), outs
}

// runWr replays a stored wr / wr2 line: the pad length is random in the implementation,
// so the write is repeated until the stored pad lengths come up (1 in 247 per padded write).
func runWr(f []string) string {
	var d *dirt
	if f[0] == "wrb" {
		preRead = unhx(f[1])
		defer func() { preRead = nil }()
		f = f[2:]
	}
	if f[0] == "wrd" {
		d = &dirt{junk: unhx(f[1]), length: int(atoiU(f[2]))}
		f = f[3:]
	}
	twice := f[0] == "wr2"
	var padn2 int
	if twice {
		padn2 = int(atoiU(f[1]))
		f = f[1:]
	}
	ty, pre, sid, padn := f[1], uint8(atoiU(f[2])), uint32(atoiU(f[3])), int(atoiU(f[4]))
	fields := f[5 : len(f)-1]
	times := 1
	if twice {
		times = 2
	}
	var last string
	for try := 0; try < 400000; try++ {
		outs, pads, _, e := writeFrame(ty, pre, sid, fields, times, d)
		if e != "" {
			return e
		}
		last = hx(outs[0])
		if twice {
			last += "," + hx(outs[1])
		}
		if pads[0] == padn && (!twice || pads[1] == padn2) {
			return last
		}
	}
	return last
}

// runRw reads one frame and writes the returned *FrameHeader back out.
func runRw(max uint32, in []byte, junk []byte, ackInPlace bool) (res string) {
	defer func() {
		if r := recover(); r != nil {
			res = "go-panic"
		}
	}()
	if junk != nil {
		usedHeaderIntoPool(junk)
	}
	p := newPosReader(in)
	fr, err := http2.ReadFrameFromWithSize(p.br, max)
	if err != nil {
		return "err " + errClass(err)
	}
	defer http2.ReleaseFrameHeader(fr)
	if st, ok := fr.Body().(*http2.Settings); ok && ackInPlace {
		st.SetAck(true) // the peer's SETTINGS acknowledged on the header it was read into
	}
	var buf bytes.Buffer
	bw := bufio.NewWriterSize(&buf, 1<<16)
	if _, e := fr.WriteTo(bw); e != nil {
		return "write-error"
	}
	bw.Flush()
	return "ok " + hx(buf.Bytes())
}

func runFrameLine(line string) string {
	f := strings.Fields(line)
	switch f[0] {
	case "rd":
		r, _ := runRd(uint32(atoiU(f[1])), unhx(f[2]))
		return r
	case "rds":
		return runRds(uint32(atoiU(f[1])), unhx(f[2]))
	case "rda":
		return runRda(uint32(atoiU(f[1])), unhx(f[2]))
	case "rw":
		return runRw(uint32(atoiU(f[1])), unhx(f[2]), nil, false)
	case "rwa":
		return runRw(uint32(atoiU(f[1])), unhx(f[2]), nil, true)
	case "rwd":
		return runRw(uint32(atoiU(f[2])), unhx(f[3]), append([]byte{}, unhx(f[1])...), false)
	case "rdm":
		return runRdm(strings.Split(f[1], ","), unhx(f[2]))
	case "wr", "wr2", "wrd", "wrb":
		return runWr(f)
	}
	return "?"
}

// ---------------------------------------------------------------- x/net as the independent parser (write side)

func xPad(length uint32, rest int) string { return strconv.Itoa(int(length) - 1 - rest) }

// xnetParse reads one frame with x/net's Framer and prints it in the canonical form of
// the spec-level AST (ocaml frame_str): reserved bits and padding content are not shown.
func xnetParse(b []byte) string {
	fr := xhttp2.NewFramer(nil, bytes.NewReader(b))
	fr.AllowIllegalReads = true
	fr.SetMaxReadFrameSize(1<<24 - 1)
	f, err := fr.ReadFrame()
	if err != nil {
		return "x:reject"
	}
	h := f.Header()
	head := fmt.Sprintf("t=%d fl=%d sid=%d ", uint8(h.Type), uint8(h.Flags), h.StreamID)
	padded := h.Flags&0x8 != 0
	switch v := f.(type) {
	case *xhttp2.DataFrame:
		pad := "-"
		if padded {
			pad = xPad(h.Length, len(v.Data()))
		}
		return "x:ok " + head + fmt.Sprintf("data pad=%s d=%s", pad, hx(v.Data()))
	case *xhttp2.HeadersFrame:
		pad, prio, extra := "-", "-", 0
		if v.HasPriority() {
			prio = fmt.Sprintf("%s/%d/%d", bit01(v.Priority.Exclusive), v.Priority.StreamDep, v.Priority.Weight)
			extra = 5
		}
		if padded {
			pad = xPad(h.Length, len(v.HeaderBlockFragment())+extra)
		}
		return "x:ok " + head + fmt.Sprintf("headers pad=%s prio=%s d=%s", pad, prio, hx(v.HeaderBlockFragment()))
	case *xhttp2.PriorityFrame:
		return "x:ok " + head + fmt.Sprintf("priority prio=%s/%d/%d", bit01(v.Exclusive), v.StreamDep, v.Weight)
	case *xhttp2.RSTStreamFrame:
		return "x:ok " + head + fmt.Sprintf("rst code=%d", uint32(v.ErrCode))
	case *xhttp2.SettingsFrame:
		var items []string
		for i := 0; i < v.NumSettings(); i++ {
			s := v.Setting(i)
			items = append(items, fmt.Sprintf("%d=%d", uint16(s.ID), s.Val))
		}
		if len(items) == 0 {
			return "x:ok " + head + "settings -"
		}
		return "x:ok " + head + "settings " + strings.Join(items, ",")
	case *xhttp2.PushPromiseFrame:
		pad := "-"
		if padded {
			pad = xPad(h.Length, len(v.HeaderBlockFragment())+4)
		}
		return "x:ok " + head + fmt.Sprintf("pp pad=%s promised=%d d=%s", pad, v.PromiseID, hx(v.HeaderBlockFragment()))
	case *xhttp2.PingFrame:
		return "x:ok " + head + fmt.Sprintf("ping d=%s", hx(v.Data[:]))
	case *xhttp2.GoAwayFrame:
		return "x:ok " + head + fmt.Sprintf("goaway last=%d code=%d d=%s", v.LastStreamID, uint32(v.ErrCode), hx(v.DebugData()))
	case *xhttp2.WindowUpdateFrame:
		return "x:ok " + head + fmt.Sprintf("wu inc=%d", v.Increment)
	case *xhttp2.ContinuationFrame:
		return "x:ok " + head + fmt.Sprintf("cont d=%s", hx(v.HeaderBlockFragment()))
	}
	return "x:other"
}

// x/net also enforces rules that are not layout (stream id zero / non-zero, increment 0,
// SETTINGS value ranges, a pad length octet on PUSH_PROMISE...). The reference column is
// only filled in where those rules are met.
func xnetApplicable(ty string, sid uint32, fields []string) bool {
	sid &= 1<<31 - 1
	switch ty {
	case "data", "headers", "priority", "rst", "pp", "cont":
		if sid == 0 {
			return false
		}
	case "settings", "ping", "goaway":
		if sid != 0 {
			return false
		}
	}
	switch ty {
	case "wu":
		v, _ := strconv.ParseInt(fields[0], 10, 64)
		return uint32(v)&(1<<31-1) != 0
	case "settings":
		ws, fs := atoiU(fields[4]), atoiU(fields[5])
		if ws > 1<<31-1 || (fs != 0 && (fs < 1<<14 || fs > 1<<24-1)) {
			return false
		}
	}
	return true
}

// ---------------------------------------------------------------- write-side generator

var payloadLens = []int{0, 1, 4, 5, 6, 7, 8, 9, 16383, 16384, 16385}
var streamIDs = []uint32{0, 1, 2, 1<<31 - 1, 1 << 31, 1<<31 + 5, 1<<32 - 1}

func genFrameWrite(c *genctx) {
	var emitD func(kind, ty string, pre uint8, sid uint32, f []string, twice bool, d *dirt)
	emit := func(kind, ty string, pre uint8, sid uint32, f []string, twice bool) {
		emitD(kind, ty, pre, sid, f, twice, nil)
		// the same on a header that was used before (every 3rd case, and every SETTINGS)
		if c.r.intn(3) == 0 || ty == "settings" {
			junk := c.r.bytes(c.r.pick(1, 6, 6, 12, 40))
			emitD(kind+"-dirty", ty, pre, sid, f, twice, &dirt{junk: junk, length: c.r.pick(0, len(junk), 5, 1<<20)})
		}
	}
	emitD = func(kind, ty string, pre uint8, sid uint32, f []string, twice bool, d *dirt) {
		line, res, outs := wrLine(ty, pre, sid, f, twice, d)
		ref := "-"
		if len(outs) == 1 && xnetApplicable(ty, sid, f) {
			ref = xnetParse(outs[0])
		}
		if len(outs) > 0 {
			c.st.size(len(outs[0]) - 9)
		}
		c.st.result(ty)
		c.emit(kind, line, res, ref)
	}
	thorough := c.tier == "thorough"
	payload := func(n int) string { return hx(c.r.bytes(n)) }
	u32s := []uint64{0, 1, 2, 255, 256, 65535, 65536, 1<<31 - 1, 1 << 31, 1<<32 - 1}
	someU32 := func() uint64 {
		if c.r.chance(60) {
			return u32s[c.r.intn(len(u32s))]
		}
		return c.r.u64() & (1<<32 - 1)
	}
	// fields of a random value of each type, with the variable part n bytes long
	randFields := func(ty string, n int, padded bool) []string {
		switch ty {
		case "data":
			return []string{bit01(c.r.bool()), bit01(padded), payload(n)}
		case "headers":
			return []string{bit01(padded), fmt.Sprint(someU32()), fmt.Sprint(c.r.intn(256)), bit01(c.r.bool()), bit01(c.r.bool()), bit01(c.r.bool()), payload(n)}
		case "priority":
			return []string{fmt.Sprint(someU32()), fmt.Sprint(c.r.pick(0, 1, 15, 255, c.r.intn(256)))}
		case "rst":
			return []string{fmt.Sprint(someU32())}
		case "settings":
			v := func() string {
				if c.r.chance(25) {
					return "0"
				}
				return fmt.Sprint(someU32())
			}
			return []string{bit01(c.r.chance(20)), v(), bit01(c.r.bool()), v(), v(), v(), v()}
		case "pp":
			return []string{bit01(c.r.bool()), fmt.Sprint(someU32()), payload(n)}
		case "ping":
			return []string{bit01(c.r.bool()), payload(8)}
		case "goaway":
			return []string{fmt.Sprint(someU32()), fmt.Sprint(someU32()), payload(n)}
		case "wu":
			vals := []int64{0, 1, 65535, 1<<31 - 1, 1 << 31, 1<<32 - 1, 1 << 32, -1, -(1 << 31), 1<<62 + 3, int64(c.r.u64())}
			return []string{fmt.Sprint(vals[c.r.intn(len(vals))])}
		case "cont":
			return []string{bit01(c.r.bool()), payload(n)}
		}
		panic(ty)
	}
	types := []string{"data", "headers", "priority", "rst", "settings", "pp", "ping", "goaway", "wu", "cont"}
	variable := map[string]bool{"data": true, "headers": true, "pp": true, "goaway": true, "cont": true}
	canPad := map[string]bool{"data": true, "headers": true}

	// 1. every type x every pre-set flags octet (small payload), padding off and on
	for _, ty := range types {
		for pre := 0; pre < 256; pre++ {
			n := c.r.pick(0, 1, 4, 5, 9)
			emit("flags", ty, uint8(pre), streamIDs[1+c.r.intn(3)], randFields(ty, n, false), false)
			if canPad[ty] {
				emit("flags-padded", ty, uint8(pre), streamIDs[1+c.r.intn(3)], randFields(ty, n, true), false)
			}
		}
	}
	// 2. payload lengths x padding x stream ids (clean pre-set flags)
	for _, ty := range types {
		lens := []int{0}
		if variable[ty] {
			lens = payloadLens
		}
		for _, n := range lens {
			for _, sid := range streamIDs {
				if n > 1000 && !thorough && sid != 1 && sid != 1<<31-1 {
					continue
				}
				emit("lengths", ty, 0, sid, randFields(ty, n, false), false)
				if canPad[ty] {
					emit("lengths-padded", ty, 0, sid, randFields(ty, n, true), false)
				}
			}
		}
	}
	// 3. boundary field values, every type, settings with every subset of zero values
	for _, ty := range types {
		reps := 40
		if thorough {
			reps = 600
		}
		for i := 0; i < reps; i++ {
			emit("fields", ty, 0, streamIDs[c.r.intn(len(streamIDs))], randFields(ty, c.r.pick(0, 1, 5, 8, 9, 64), c.r.chance(30)), false)
		}
	}
	for mask := 0; mask < 128; mask++ {
		f := []string{bit01(mask&64 != 0)}
		for i := 0; i < 6; i++ {
			if i == 1 { // push
				f = append(f, bit01(mask&(1<<i) != 0))
			} else if mask&(1<<i) != 0 {
				f = append(f, fmt.Sprint(16384+uint64(i)))
			} else {
				f = append(f, "0")
			}
		}
		emit("settings-subsets", "settings", 0, 0, f, false)
	}
	// 4. the same value written twice
	for _, ty := range types {
		reps := 6
		if thorough {
			reps = 60
		}
		for i := 0; i < reps; i++ {
			emit("twice", ty, 0, 1, randFields(ty, c.r.pick(0, 1, 5, 9, 40), i%2 == 1), true)
		}
	}
	// 5. random mix
	for i := 0; i < c.n; i++ {
		ty := types[c.r.intn(len(types))]
		pre := uint8(0)
		if c.r.chance(50) {
			pre = uint8(c.r.intn(256))
		}
		n := c.r.pick(0, 1, 2, 3, 4, 5, 6, 7, 8, 9, 10, 17, 100, 300)
		emit("random", ty, pre, streamIDs[c.r.intn(len(streamIDs))], randFields(ty, n, c.r.chance(40)), false)
	}
	// 5b. body objects with a previous life: a frame of the same type (any flags, priority section, padding,
	// field values) is read and released first, then the frame is built on what AcquireFrame returns
	nb := 400
	if thorough {
		nb = 8000
	}
	tyCode := map[string]int{"data": 0, "headers": 1, "priority": 2, "rst": 3, "settings": 4, "pp": 5, "ping": 6, "goaway": 7, "wu": 8, "cont": 9}
	for i := 0; i < nb; i++ {
		ty := types[i%len(types)]
		preRead = c.rawValidFrame(tyCode[ty], c.r.pick(0, 1, 5, 9, 30))
		emit("after-read", ty, 0, streamIDs[c.r.intn(len(streamIDs))], randFields(ty, c.r.pick(0, 1, 4, 9, 40), c.r.chance(30)), i%5 == 4)
		preRead = nil
	}
	// 6. read a frame, then write the returned *FrameHeader back out (the forwarding path of
	// examples/proxy): frames from x/net's writer and from the raw writer (any flags, padding)
	nrw := 1500
	if thorough {
		nrw = 30000
	}
	var corpus [][]byte
	for v := 0; v < 12; v++ {
		for _, fb := range c.xnetFrames(1, 11+v) {
			corpus = append(corpus, unhx(fb[0]))
		}
	}
	for i := 0; i < nrw; i++ {
		b := c.rawValidFrame(i%10, c.r.pick(0, 1, 4, 5, 9, 30))
		if i%3 == 0 {
			b = corpus[c.r.intn(len(corpus))]
		}
		res := runRw(16384, b, nil, false)
		c.st.result("forward")
		c.emit("forward", fmt.Sprintf("rw 16384 %s obs=%s", hx(b), strings.Replace(res, " ", ":", 1)), res, "-")
		switch i % 4 {
		case 1: // into a header the pool had in use before
			junk := c.r.bytes(c.r.pick(1, 6, 12, 40))
			res = runRw(16384, b, junk, false)
			c.emit("forward-dirty", fmt.Sprintf("rwd %s 16384 %s obs=%s", hx(junk), hx(b), strings.Replace(res, " ", ":", 1)), res, "-")
		case 2: // SETTINGS acknowledged in place
			if b[3] != 4 {
				b = c.rawValidFrame(4, 0)
			}
			res = runRw(16384, b, nil, true)
			c.emit("ack-in-place", fmt.Sprintf("rwa 16384 %s obs=%s", hx(b), strings.Replace(res, " ", ":", 1)), res, "-")
		}
	}
}

// ---------------------------------------------------------------- read-side generator

// raw frame: 9-byte header + payload
func rawFrame(length int, ty, flags byte, sid uint32, payload []byte) []byte {
	b := []byte{byte(length >> 16), byte(length >> 8), byte(length), ty, flags, 0, 0, 0, 0}
	binary.BigEndian.PutUint32(b[5:], sid)
	return append(b, payload...)
}

func be32(v uint32) []byte { var b [4]byte; binary.BigEndian.PutUint32(b[:], v); return b[:] }

// defaults of Settings.Reset as the RFC-independent expectation of the accessors
type setView struct {
	ts, ms, ws, fs, hs uint32
	push, hasws        bool
}

// x/net as the independent writer: the bytes, and what a correct reader must show
// (canonical read view), computed from the arguments given to the writer.
func (c *genctx) xnetFrames(sidIn uint32, variant int) (out [][2]string) {
	r := c.r
	var buf bytes.Buffer
	fr := xhttp2.NewFramer(&buf, nil)
	fr.AllowIllegalWrites = true
	take := func() []byte { b := append([]byte(nil), buf.Bytes()...); buf.Reset(); return b }
	sid := sidIn & (1<<31 - 1)
	add := func(b []byte, body string) {
		sid := sid
		if b[3] == 4 || b[3] == 6 || b[3] == 7 { // x/net writes connection frames on stream 0 whatever it is given
			sid = 0
		}
		exp := fmt.Sprintf("x:ok t=%d fl=%d sid=%d len=%d %s used=%d", int8(b[3]), b[4], sid, len(b)-9, body, len(b))
		out = append(out, [2]string{hx(b), exp})
	}
	n := payloadLens[variant%len(payloadLens)]
	if n > 1000 && variant >= len(payloadLens) {
		n = r.intn(40)
	}
	data := r.bytes(n)
	var pad []byte
	padded := variant%2 == 1
	if padded {
		pad = make([]byte, r.pick(0, 1, 2, 100, 255))
		if r.chance(30) { // non-zero padding is legal to receive
			for i := range pad {
				pad[i] = byte(r.u64())
			}
		}
	}
	es, eh := r.bool(), r.bool()
	// DATA
	if padded {
		fr.WriteDataPadded(sidIn, es, data, pad)
	} else {
		fr.WriteData(sidIn, es, data)
	}
	add(take(), fmt.Sprintf("data es=%s pad=0 d=%s", bit01(es), hx(data)))
	// HEADERS
	hp := xhttp2.HeadersFrameParam{StreamID: sidIn, BlockFragment: data, EndStream: es, EndHeaders: eh, PadLength: uint8(len(pad))}
	dep, w, pr := uint32(0), uint8(0), false
	if variant%3 != 0 {
		pr = true
		dep = uint32(r.u64()) & (1<<31 - 1)
		if r.chance(30) {
			dep = uint32(r.pick(0, 1, 1<<31-1))
		}
		w = uint8(r.intn(256))
		hp.Priority = xhttp2.PriorityParam{StreamDep: dep, Exclusive: r.bool(), Weight: w}
		if dep == 0 && w == 0 && !hp.Priority.Exclusive {
			pr = false // x/net omits an all-zero priority
		}
	}
	fr.WriteHeaders(hp)
	add(take(), fmt.Sprintf("headers es=%s eh=%s pr=%s dep=%d w=%d pad=0 d=%s", bit01(es), bit01(eh), bit01(pr), dep, w, hx(data)))
	// PRIORITY
	pp := xhttp2.PriorityParam{StreamDep: uint32(r.u64()) & (1<<31 - 1), Exclusive: r.bool(), Weight: uint8(r.intn(256))}
	fr.WritePriority(sidIn, pp)
	add(take(), fmt.Sprintf("priority dep=%d w=%d", pp.StreamDep, pp.Weight))
	// RST_STREAM
	code := uint32(r.u64())
	if r.chance(50) {
		code = uint32(r.intn(14))
	}
	fr.WriteRSTStream(sidIn, xhttp2.ErrCode(code))
	add(take(), fmt.Sprintf("rst code=%d", code))
	// SETTINGS
	if variant%5 == 0 {
		fr.WriteSettingsAck()
		add(take(), "settings ack=1 ts=4096 push=0 ms=100 ws=65535 fs=16384 hs=0 hasws=0 present=0")
	} else {
		v := setView{ts: 4096, ms: 100, ws: 65535, fs: 16384}
		var ss []xhttp2.Setting
		present := 0
		for k := r.intn(8); k > 0; k-- {
			id := uint16(r.pick(1, 2, 3, 4, 5, 6, 0, 7, 255, 65535))
			val := uint32(r.u64())
			if r.chance(40) {
				val = uint32(r.pick(0, 1, 100, 16384, 65535))
			}
			switch id {
			case 1:
				v.ts = val
			case 2:
				val &= 1
				v.push = val == 1
			case 3:
				v.ms = val
			case 4:
				val &= 1<<31 - 1
				v.ws, v.hasws = val, true
			case 5:
				val = 1<<14 + val%(1<<24-1<<14)
				v.fs = val
			case 6:
				v.hs = val
			}
			if id >= 1 && id <= 6 {
				present |= 1 << id
			}
			ss = append(ss, xhttp2.Setting{ID: xhttp2.SettingID(id), Val: val})
		}
		fr.WriteSettings(ss...)
		add(take(), fmt.Sprintf("settings ack=0 ts=%d push=%s ms=%d ws=%d fs=%d hs=%d hasws=%s present=%d", v.ts, bit01(v.push), v.ms, v.ws, v.fs, v.hs, bit01(v.hasws), present))
	}
	// PUSH_PROMISE
	prom := uint32(r.u64()) & (1<<31 - 1)
	fr.WritePushPromise(xhttp2.PushPromiseParam{StreamID: sidIn, PromiseID: prom, BlockFragment: data, EndHeaders: eh, PadLength: uint8(len(pad))})
	add(take(), fmt.Sprintf("pp eh=%s promised=%d d=%s", bit01(eh), prom, hx(data)))
	// PING
	var pd [8]byte
	copy(pd[:], r.bytes(8))
	ack := r.bool()
	fr.WritePing(ack, pd)
	add(take(), fmt.Sprintf("ping ack=%s d=%s", bit01(ack), hx(pd[:])))
	// GOAWAY
	last := uint32(r.u64()) & (1<<31 - 1)
	fr.WriteGoAway(last, xhttp2.ErrCode(code), data)
	add(take(), fmt.Sprintf("goaway last=%d code=%d d=%s", last, code, hx(data)))
	// WINDOW_UPDATE
	inc := uint32(r.u64()) & (1<<31 - 1)
	if r.chance(30) {
		inc = uint32(r.pick(0, 1, 1<<31-1))
	}
	fr.WriteWindowUpdate(sidIn, inc)
	add(take(), fmt.Sprintf("wu inc=%d", inc))
	// CONTINUATION
	fr.WriteContinuation(sidIn, eh, data)
	add(take(), fmt.Sprintf("cont eh=%s d=%s", bit01(eh), hx(data)))
	return out
}

// frames from the harness' own raw writer: any flags octet, reserved bits, padding with
// arbitrary content, priority section; returns bytes only (the spec column judges them)
func (c *genctx) rawValidFrame(ty int, n int) []byte {
	r := c.r
	flags := byte(r.u64())
	if r.chance(40) {
		flags &= 0x2d
	}
	sid := uint32(r.u64())
	if r.chance(50) {
		sid &= 1<<31 - 1
	}
	body := r.bytes(n)
	wrapPad := func(content []byte) []byte {
		if flags&0x8 == 0 {
			return content
		}
		pl := r.pick(0, 1, 9, 200, 255)
		p := append([]byte{byte(pl)}, content...)
		return append(p, r.bytes(pl)...)
	}
	var p []byte
	switch ty {
	case 0:
		p = wrapPad(body)
	case 1:
		var c2 []byte
		if flags&0x20 != 0 {
			c2 = append(be32(uint32(r.u64())), byte(r.u64()))
		}
		p = wrapPad(append(c2, body...))
	case 2:
		p = append(be32(uint32(r.u64())), byte(r.u64()))
	case 3, 8:
		p = be32(uint32(r.u64()))
	case 4:
		if flags&1 == 0 {
			for k := r.intn(6); k > 0; k-- {
				id := uint16(r.pick(1, 2, 3, 4, 5, 6, 9, 0))
				val := uint32(r.u64())
				switch id {
				case 2:
					val &= 1
				case 4:
					val &= 1<<31 - 1
				case 5:
					val = 1<<14 + val%1000
				}
				p = append(p, byte(id>>8), byte(id))
				p = append(p, be32(val)...)
			}
		}
	case 5:
		p = wrapPad(append(be32(uint32(r.u64())), body...))
	case 6:
		p = r.bytes(8)
	case 7:
		p = append(append(be32(uint32(r.u64())), be32(uint32(r.u64()))...), body...)
	case 9:
		p = body
	default:
		p = body
	}
	return rawFrame(len(p), byte(ty), flags, sid, p)
}

func genFrameRead(c *genctx) {
	thorough := c.tier == "thorough"
	rd := func(kind string, max uint32, b []byte, ref string) {
		res, cls := runRd(max, b)
		c.st.result(cls)
		c.st.size(len(b))
		c.emit(kind, fmt.Sprintf("rd %d %s", max, hx(b)), res, ref)
	}
	// 1. x/net as the writer: all types, padding, priority, boundary stream ids
	nvar := 44
	if thorough {
		nvar = 220
	}
	var corpus [][]byte
	for v := 0; v < nvar; v++ {
		for _, sid := range []uint32{1, 1<<31 - 1, 0, uint32(c.r.u64())} {
			if v >= 11 && sid != 1 && !thorough {
				continue
			}
			for _, fb := range c.xnetFrames(sid, v) {
				b := unhx(fb[0])
				max := uint32(16384)
				if len(b)-9 > 16384 || c.r.chance(10) {
					max = 1<<24 - 1
				}
				ref := fb[1]
				if len(b)-9 > int(max) {
					ref = "-"
				}
				rd("xnet", max, b, ref)
				if len(b) < 200 && sid == 1 {
					corpus = append(corpus, b)
				}
			}
		}
	}
	// 2. the harness' raw writer: arbitrary flags, reserved bits, padding content
	nraw := 12000
	if thorough {
		nraw = 60000
	}
	for i := 0; i < nraw; i++ {
		ty := i % 10
		n := c.r.pick(0, 1, 4, 5, 6, 7, 8, 9, 30)
		if i%500 == 499 {
			n = c.r.pick(16383, 16384, 16385-300)
		}
		b := c.rawValidFrame(ty, n)
		if c.r.chance(30) {
			b = append(b, c.r.bytes(c.r.intn(12))...) // something after the frame
		}
		rd("raw-valid", uint32(c.r.pick(16384, 16384, 16384, 1<<24-1, 0)), b, "-")
	}
	// 3. all 2^16 (type, flags) headers x short payloads
	lens := []int{0, 1, 4, 5, 6, 8, 9, 12}
	for ty := 0; ty < 256; ty++ {
		for fl := 0; fl < 256; fl++ {
			ls := []int{lens[c.r.intn(len(lens))]}
			if thorough || ty <= 10 {
				ls = lens
			}
			for _, n := range ls {
				p := c.r.bytes(n)
				if n > 0 && c.r.chance(50) {
					p[0] = byte(c.r.pick(0, 1, n-1, n, n+1)) // pad length around the boundary
				}
				rd("all-type-flags", 16384, rawFrame(n, byte(ty), byte(fl), uint32(c.r.u64()), p), "-")
			}
		}
	}
	// 4. impossible structure: fixed sizes off by a few, padding >= what remains, settings values
	for i := 0; i < 4000; i++ {
		ty := c.r.pick(0, 1, 2, 3, 4, 5, 6, 7, 8)
		want := map[int]int{2: 5, 3: 4, 4: 6 * c.r.intn(4), 6: 8, 7: 8, 8: 4, 0: 3, 1: 7, 5: 6}[ty]
		n := want + c.r.pick(-2, -1, 0, 1, 2, 6)
		if n < 0 {
			n = 0
		}
		p := c.r.bytes(n)
		fl := byte(c.r.pick(0, 1, 8, 0x20, 0x28, 0x2d, 0xff, c.r.intn(256)))
		if n > 0 && (ty == 0 || ty == 1 || ty == 5) {
			p[0] = byte(c.r.pick(0, n-6, n-5, n-2, n-1, n, n+1, 255))
		}
		if ty == 4 && n >= 6 {
			p[0], p[1] = 0, byte(c.r.pick(2, 4, 5))
			copy(p[2:6], be32(uint32(c.r.pick(0, 1, 2, 16383, 16384, 1<<24-1, 1<<24, 1<<31-1, 1<<31))))
		}
		rd("structure", 16384, rawFrame(n, byte(ty), fl, uint32(c.r.u64()), p), "-")
	}
	// 4b. SETTINGS parameters at and across the bounds of 6.5.2, unknown identifiers, repeats
	nset := 3000
	if thorough {
		nset = 40000
	}
	for i := 0; i < nset; i++ {
		var p []byte
		for k := 1 + c.r.intn(3); k > 0; k-- {
			id := uint16(c.r.pick(1, 2, 3, 4, 5, 6, 2, 4, 5, 0, 7, 0x102, 0xffff))
			val := uint32(c.r.pick(0, 1, 2, 100, 16383, 16384, 16385, 65535, 1<<24-1, 1<<24, 1<<31-1, 1<<31, 1<<32-1))
			if c.r.chance(15) {
				val = uint32(c.r.u64())
			}
			p = append(p, byte(id>>8), byte(id))
			p = append(p, be32(val)...)
		}
		fl := byte(0)
		if c.r.chance(10) {
			fl = byte(c.r.intn(256))
		}
		rd("settings-values", 16384, rawFrame(len(p), 4, fl, uint32(c.r.pick(0, 0, 1)), p), "-")
	}
	// 5. lengths around the limit, payload present or cut short
	for _, max := range []uint32{16384, 16385, 100, 9, 1, 0, 1<<24 - 1} {
		for _, d := range []int{-1, 0, 1} {
			n := int(max) + d
			if max == 0 {
				n = c.r.pick(0, 1, 16384, 16385, 70000)
			}
			if n < 0 || n > 1<<24-1 {
				continue
			}
			for _, ty := range []int{0, 1, 4, 9, 7, 0x42} {
				have := n
				if c.r.chance(40) {
					have = c.r.intn(n + 1)
				}
				if n > 100000 { // megabytes of payload: only the header and a short start of it
					have = c.r.intn(2000)
				}
				p := c.r.bytes(have)
				rd("limit", max, rawFrame(n, byte(ty), 0, 1, p), "-")
			}
		}
	}
	for _, max := range []uint32{16384, 0, 1 << 20} {
		for _, ty := range []int{0, 1, 0x42, 0x80} {
			for _, n := range []int{1<<24 - 1, 1 << 23, 1<<20 + 1} {
				b := rawFrame(n, byte(ty), 0, 1, c.r.bytes(c.r.intn(30)))
				c.st.result("alloc-probe")
				c.emit("alloc", fmt.Sprintf("rda %d %s", max, hx(b)), runRda(max, b), "-")
			}
		}
	}
	// 6. every prefix of a corpus of valid frame streams, read to the end
	nstreams := 24
	if thorough {
		nstreams = 60
	}
	for s := 0; s < nstreams && len(corpus) > 0; s++ {
		var stream []byte
		for k := 3 + c.r.intn(4); k > 0; k-- {
			stream = append(stream, corpus[c.r.intn(len(corpus))]...)
			if c.r.chance(20) {
				stream = append(stream, rawFrame(3, 0x77, 0xff, 5, []byte{1, 2, 3})...) // unknown type in between
			}
		}
		for k := 0; k <= len(stream); k++ {
			b := stream[:k]
			c.st.size(len(b))
			c.st.result("stream-prefix")
			c.emit("prefix", fmt.Sprintf("rds 16384 %s", hx(b)), runRds(16384, b), "-")
		}
	}
	// 6b. reads with different limits on one reader and one pool: each read obeys its own limit
	limTokens := []string{"d", "d", "16384", "0", "1048576", "100", "16385", "16777215", "9"}
	nrdm := 1500
	if thorough {
		nrdm = 30000
	}
	for i := 0; i < nrdm && len(corpus) > 0; i++ {
		var stream []byte
		var lims []string
		for k := 2 + c.r.intn(4); k > 0; k-- {
			lims = append(lims, limTokens[c.r.intn(len(limTokens))])
			switch c.r.intn(4) {
			case 0: // a header announcing a length around the interesting limits, payload cut short
				n := c.r.pick(101, 16384, 16385, 16385, 20000, 70000, 1<<20, 1<<20+1)
				if c.r.intn(25) == 0 {
					n = 1<<24 - 1
				}
				stream = append(stream, rawFrame(n, byte(c.r.pick(0, 1, 9, 7, 0x50)), 0, 1, c.r.bytes(c.r.intn(20)))...)
				k = 0
			case 1: // a whole frame of 101..130 bytes (above the limit 100)
				stream = append(stream, c.rawValidFrame(c.r.pick(0, 1, 9), 101+c.r.intn(30))...)
			default:
				stream = append(stream, corpus[c.r.intn(len(corpus))]...)
			}
		}
		lims = append(lims, limTokens[c.r.intn(len(limTokens))])
		l := strings.Join(lims, ",")
		c.st.result("limits-mix")
		c.emit("limits-mix", fmt.Sprintf("rdm %s %s", l, hx(stream)), runRdm(lims, stream), "-")
	}
	// 7. every prefix of single frames (first read only), larger frames sampled
	for i := 0; i < len(corpus) && i < 200; i++ {
		b := corpus[c.r.intn(len(corpus))]
		for k := 0; k < len(b); k++ {
			rd("truncated", 16384, b[:k], "-")
		}
	}
	// 8. soups
	for i := 0; i < c.n; i++ {
		n := c.r.pick(0, 1, 5, 8, 9, 10, 12, 17, 20, 30, 60)
		b := c.r.bytes(n)
		if n >= 9 {
			if c.r.chance(80) {
				b[0], b[1] = 0, 0
				b[2] = byte(c.r.intn(n - 6))
			}
			if c.r.chance(70) {
				b[3] = byte(c.r.intn(11))
			}
		}
		rd("soup", uint32(c.r.pick(16384, 16384, 10, 0)), b, "-")
	}
}
