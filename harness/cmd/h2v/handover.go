package main

// Replayer "handover": the history behind the known finding C19-ctx-resolved-after-handover, made deterministic with
// two tick gates in the client write loop.
//
//  1. A caller submits request A. The write loop takes it; writeRequest puts it on the table (stream 1) and is held at
//     the gate CliReqOnTable, before it re-checks goAway and before HEADERS are written.
//  2. The server says GOAWAY(last-stream-id 0). The read loop takes stream 1 off the table, marks the Ctx finished and
//     answers the caller with ErrGoAway.
//  3. The gate is opened: writeRequest sees goAway, finds the stream gone, returns ErrNotAvailableStreams and lets go of
//     the Ctx lock; the loop is held at the gate CliReqFailed, just before its own ctx.resolve(err).
//  4. The caller does what roundTripOnce does: reusable() - true -, takeBack(), releaseCtx(): the Ctx is in the pool.
//  5. The next request B takes a Ctx out of the pool (the same object when the pool hands it back) and is NOT submitted.
//  6. The second gate is opened: the write loop resolves "its" Ctx.
//
// Result: "stale-error-delivered-to-next-owner" when B's Err channel now holds an error although B was never given to a
// connection; "clean" when it does not; "void ..." when the pool did not hand the same object back or a step timed out.

import (
	"bytes"
	"fmt"
	"io"
	"runtime"
	"runtime/debug"
	"sync"
	"time"

	"github.com/dgrr/http2"
	"github.com/valyala/fasthttp"
	xhttp2 "golang.org/x/net/http2"
)

func init() {
	replayers["handover"] = func(string) string { return runHandover() }
	suites["handover"] = func(c *genctx) {
		for i := 0; i < 3; i++ {
			res := runHandover()
			if len(res) >= 4 && res[:4] == "void" {
				c.st.result("void")
				res = "clean" // the history could not be set up this time: nothing was observed
			} else {
				c.st.result(res)
			}
			c.emit("handover", fmt.Sprintf("handover %d", i+1), res, "-")
		}
	}
}

func runHandover() string {
	// one P and no GC: sync.Pool then hands back the object that was put last
	defer runtime.GOMAXPROCS(runtime.GOMAXPROCS(1))
	defer debug.SetGCPercent(debug.SetGCPercent(-1))
	http2.VerifSetQuiet(false)
	http2.VerifTicksReset()

	c1, c2 := newBufPipe()
	defer c1.Close()
	defer c2.Close()
	var wmu sync.Mutex
	fr := xhttp2.NewFramer(c1, c1)
	go func() {
		pre := make([]byte, len(xhttp2.ClientPreface))
		if _, err := io.ReadFull(c1, pre); err != nil || !bytes.Equal(pre, []byte(xhttp2.ClientPreface)) {
			return
		}
		wmu.Lock()
		_ = fr.WriteSettings()
		wmu.Unlock()
		for {
			f, err := fr.ReadFrame()
			if err != nil {
				return
			}
			if s, ok := f.(*xhttp2.SettingsFrame); ok && !s.IsAck() {
				wmu.Lock()
				_ = fr.WriteSettingsAck()
				wmu.Unlock()
			}
		}
	}()
	conn := http2.NewConn(c2, http2.ConnOpts{PingInterval: time.Hour})
	if err := conn.Handshake(); err != nil {
		return "void handshake: " + err.Error()
	}
	defer conn.Close()

	waitTick := func(kind int, before int64) bool {
		for dl := time.Now().Add(5 * time.Second); http2.VerifClientTicks()[kind] == before; {
			if time.Now().After(dl) {
				return false
			}
			time.Sleep(20 * time.Microsecond)
		}
		return true
	}

	// 1
	b1 := http2.VerifClientTicks()[http2.VerifTickCliReqOnTable]
	open1 := http2.VerifGate(http2.VerifTickCliReqOnTable)
	opened1 := false
	defer func() {
		if !opened1 {
			open1()
		}
	}()
	reqA, resA := fasthttp.AcquireRequest(), fasthttp.AcquireResponse()
	reqA.SetRequestURI("https://handover.test/a")
	ctxA := http2.VerifAcquireCtx(reqA, resA)
	conn.Write(ctxA)
	if !waitTick(http2.VerifTickCliReqOnTable, b1) {
		return "void the write loop never put the request on the table"
	}
	// 2
	wmu.Lock()
	_ = fr.WriteGoAway(0, xhttp2.ErrCodeNo, nil)
	wmu.Unlock()
	var errA error
	select {
	case errA = <-ctxA.Err:
	case <-time.After(5 * time.Second):
		return "void the read loop never answered the disclaimed request"
	}
	// 3
	b2 := http2.VerifClientTicks()[http2.VerifTickCliReqFailed]
	open2 := http2.VerifGate(http2.VerifTickCliReqFailed)
	opened2 := false
	defer func() {
		if !opened2 {
			open2()
		}
	}()
	opened1 = true
	open1()
	if !waitTick(http2.VerifTickCliReqFailed, b2) {
		return fmt.Sprintf("void writeRequest did not fail (caller got %v)", errA)
	}
	// 4: the tail of roundTripOnce
	reuse := ctxA.VerifReusable()
	ctxA.VerifTakeBack()
	if !reuse {
		return "void the Ctx was not reusable"
	}
	http2.VerifReleaseCtx(ctxA)
	// 5
	reqB, resB := fasthttp.AcquireRequest(), fasthttp.AcquireResponse()
	reqB.SetRequestURI("https://handover.test/b")
	ctxB := http2.VerifAcquireCtx(reqB, resB)
	if ctxB != ctxA {
		return "void the pool handed out another object"
	}
	// 6
	before := http2.VerifClientTicks()[http2.VerifTickCliWLTop]
	opened2 = true
	open2()
	waitTick(http2.VerifTickCliWLTop, before) // the loop is back at its select: the resolve has happened
	select {
	case err := <-ctxB.Err:
		return fmt.Sprintf("stale-error-delivered-to-next-owner (%v)", err)
	default:
		return "clean"
	}
}
