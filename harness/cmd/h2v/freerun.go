package main

// Free-running runs: the real client connection against the real server connection over an in-memory pipe,
// many callers at once, no lockstep and no hooks (http2.VerifSetQuiet). This is what the race-detector build
// runs besides the lockstep suites: in lockstep every goroutine is ordered with every other by the hooks'
// own atomics, so the detector can only see races between accesses the harness itself lets overlap.
//
// Every round also keeps three cheap end-to-end observations, which need no model:
//   mismatch  a caller got 200 with a body that is not the echo of what it sent (C01/C02)
//   stranded  a caller had not returned 20 s after both ends of the connection were closed (C12)
//   srvhang   ServeConn had not returned 20 s after both ends were closed (C17)
//   resent    (pool rounds) one request reached a handler twice: the client sent again what a server had processed (C11)
//   retryproc (pool rounds) RoundTrip said "retry" for a request a handler had been given (C11)
//
// Pool rounds (one round in three) go through the whole client: a Client made by http2.VerifNewClient, whose
// Dialer gets in-memory transports instead of TCP+TLS, so pickConn, createConn/Dial/Handshake, roundTripOnce,
// RoundTrip's retry loop and onConnectionDropped all run as they are; every dial gets its own ServeConn.
//
// Output: one line "freerun rounds=.. requests=.. ok=.. err=.. canceled=.. mismatch=.. stranded=.. srvhang=.."
// followed by one line per offending round ("BAD round=<i> seed=<s> <what>").

import (
	"bytes"
	"fmt"
	"io"
	"net"
	"os"
	"runtime"
	"strings"
	"sync"
	"sync/atomic"
	"time"

	"github.com/dgrr/http2"
	"github.com/valyala/fasthttp"
	"github.com/valyala/fasthttp/fasthttputil"
)

type slowReader struct {
	data  []byte
	chunk int
	delay time.Duration
}

func (s *slowReader) Read(p []byte) (int, error) {
	if len(s.data) == 0 {
		return 0, io.EOF
	}
	if s.delay > 0 {
		time.Sleep(s.delay)
	}
	n := s.chunk
	if n > len(s.data) {
		n = len(s.data)
	}
	if n > len(p) {
		n = len(p)
	}
	copy(p, s.data[:n])
	s.data = s.data[n:]
	return n, nil
}

var stallAfter = 30 * time.Second

// bufPipe is an in-memory duplex transport whose writes never block (an unbounded buffer per direction).
// fasthttputil's PipeConns holds four pending writes per direction; with both ends being this library that
// is small enough for the two read loops to end up waiting for their own write loops, which wait for the
// transport (each end's reader queues frames for its writer): a property of that transport size, noted in
// DESIGN.md, and not what these runs are after.
type bufHalf struct {
	mu     sync.Mutex
	cond   *sync.Cond
	buf    []byte
	closed bool
}

type bufConn struct {
	rd, wr *bufHalf
}

func newBufPipe() (*bufConn, *bufConn) {
	a, b := &bufHalf{}, &bufHalf{}
	a.cond, b.cond = sync.NewCond(&a.mu), sync.NewCond(&b.mu)
	return &bufConn{rd: a, wr: b}, &bufConn{rd: b, wr: a}
}

func (c *bufConn) Read(p []byte) (int, error) {
	h := c.rd
	h.mu.Lock()
	defer h.mu.Unlock()
	for len(h.buf) == 0 && !h.closed {
		h.cond.Wait()
	}
	if len(h.buf) == 0 {
		return 0, io.EOF
	}
	n := copy(p, h.buf)
	h.buf = h.buf[n:]
	return n, nil
}

func (c *bufConn) Write(p []byte) (int, error) {
	h := c.wr
	h.mu.Lock()
	defer h.mu.Unlock()
	if h.closed {
		return 0, io.ErrClosedPipe
	}
	h.buf = append(h.buf, p...)
	h.cond.Broadcast()
	return len(p), nil
}

func (c *bufConn) Close() error {
	for _, h := range []*bufHalf{c.rd, c.wr} {
		h.mu.Lock()
		h.closed = true
		h.cond.Broadcast()
		h.mu.Unlock()
	}
	return nil
}

type bufAddr struct{}

func (bufAddr) Network() string { return "mem" }
func (bufAddr) String() string  { return "mem" }

func (c *bufConn) LocalAddr() net.Addr                { return bufAddr{} }
func (c *bufConn) RemoteAddr() net.Addr               { return bufAddr{} }
func (c *bufConn) SetDeadline(t time.Time) error      { return nil }
func (c *bufConn) SetReadDeadline(t time.Time) error  { return nil }
func (c *bufConn) SetWriteDeadline(t time.Time) error { return nil }

type quietLogger struct{}

func (quietLogger) Printf(string, ...interface{}) {}

func pattern(seed uint64, n int) []byte {
	b := make([]byte, n)
	x := seed | 1
	for i := range b {
		x ^= x << 13
		x ^= x >> 7
		x ^= x << 17
		b[i] = byte(x)
	}
	return b
}

type freeStats struct {
	requests, ok, errs, canceled, mismatch, stranded, srvhang, stalled, wrongErr int64
	resent, retryProc, dials, poolRounds                                         int64
	bad                                                                          []string
	mu                                                                           sync.Mutex
	classes                                                                      map[string]int
	seen                                                                         map[string]bool
}

func (st *freeStats) note(s string) {
	st.mu.Lock()
	// one line per round and kind is enough
	key := s
	if i := strings.Index(s, " caller "); i > 0 {
		if j := strings.Index(s, " got "); j > i {
			key = s[:i] + s[j:]
		}
	}
	if st.seen == nil {
		st.seen = map[string]bool{}
	}
	if !st.seen[key] && len(st.bad) < 50 {
		st.seen[key] = true
		st.bad = append(st.bad, s)
	}
	st.mu.Unlock()
}

func freeRound(seed uint64, round int, st *freeStats) {
	if round%3 == 2 {
		poolRound(seed, round, st)
		return
	}
	g := &rng{s: seed*0x9e3779b97f4a7c15 + uint64(round)*0xbf58476d1ce4e5b9 + 1}
	maxStreams := []int{1, 3, 8, 100, 100, 1000}[g.intn(6)]
	handler := func(ctx *fasthttp.RequestCtx) {
		body := append([]byte(nil), ctx.Request.Body()...)
		mode := ctx.Request.Header.Peek("x-mode")
		if len(mode) > 0 && mode[0] == 'd' {
			time.Sleep(time.Duration(int(mode[1]-'0')) * 200 * time.Microsecond)
		}
		ctx.Response.Header.Set("x-echo", string(ctx.Request.Header.Peek("x-tag")))
		if len(mode) > 0 && mode[0] == 's' {
			ctx.Response.SetBodyStream(&slowReader{data: body, chunk: 700 + int(mode[1]-'0')*1500, delay: time.Duration(int(mode[1]-'0')%3) * 20 * time.Microsecond}, -1)
		} else {
			ctx.Response.SetBody(body)
		}
	}
	// the timers the lockstep suites leave alone (they run in real time): request timeout, idle timeout, pings both ways
	ms := func(choices ...int) time.Duration {
		return time.Duration(choices[g.intn(len(choices))]) * time.Millisecond
	}
	readTimeout, idleTimeout := ms(0, 0, 0, 2, 10), ms(0, 0, 0, 3, 20)
	srvPing := ms(-1, -1, 1, 5)
	cliPing := []time.Duration{time.Hour, time.Hour, time.Millisecond, 5 * time.Millisecond}[g.intn(4)]
	fs := &fasthttp.Server{Handler: handler, NoDefaultServerHeader: true, NoDefaultDate: true, Logger: quietLogger{}, StreamRequestBody: false,
		ReadTimeout: readTimeout, IdleTimeout: idleTimeout}
	srv := http2.ConfigureServer(fs, http2.ServerConfig{PingInterval: srvPing, MaxConcurrentStreams: maxStreams})
	var c1, c2 net.Conn
	if os.Getenv("H2V_FREERUN_PIPE") != "" {
		pc := fasthttputil.NewPipeConns()
		c1, c2 = pc.Conn1(), pc.Conn2()
	} else {
		c1, c2 = newBufPipe()
	}
	srvRet := make(chan struct{})
	go func() { _ = srv.ServeConn(c1); close(srvRet) }()
	conn := http2.NewConn(c2, http2.ConnOpts{PingInterval: cliPing, DisablePingChecking: g.intn(2) == 0})
	if err := conn.Handshake(); err != nil {
		// an idle timeout of a few milliseconds can beat the handshake: not an offence
		_ = c1.Close()
		_ = c2.Close()
		return
	}
	workers := 2 + g.intn(8)
	perWorker := 2 + g.intn(6)
	disrupt := g.intn(6) // 0: client Close mid-run, 1: cut the pipe mid-run, else none
	var wg sync.WaitGroup
	var inFlight int64
	for w := 0; w < workers; w++ {
		wseed := g.u64()
		wg.Add(1)
		go func(w int, wseed uint64) {
			defer wg.Done()
			wg2 := &rng{s: wseed | 1}
			for k := 0; k < perWorker; k++ {
				atomic.AddInt64(&st.requests, 1)
				size := []int{0, 1, 100, 5000, 16384, 16385, 40000, 70000, 140000}[wg2.intn(9)]
				body := pattern(wseed+uint64(k), size)
				req := fasthttp.AcquireRequest()
				res := fasthttp.AcquireResponse()
				req.Header.SetMethod("POST")
				req.SetRequestURI("https://free.run/echo")
				tag := fmt.Sprintf("%d-%d-%d", round, w, k)
				req.Header.Set("x-tag", tag)
				switch wg2.intn(4) {
				case 0:
					req.Header.Set("x-mode", fmt.Sprintf("s%d", wg2.intn(10)))
				case 1:
					req.Header.Set("x-mode", fmt.Sprintf("d%d", wg2.intn(10)))
				}
				var pw *io.PipeWriter
				if kind := wg2.intn(5); size > 0 && kind < 3 {
					declared := size
					if wg2.intn(3) == 0 {
						declared = -1
					}
					if kind == 2 {
						// a pipe fed by another goroutine: Read blocks, and fails once the connection has closed the stream
						var pr *io.PipeReader
						pr, pw = io.Pipe()
						chunk, delay := 500+wg2.intn(20000), time.Duration(wg2.intn(3))*30*time.Microsecond
						go func(data []byte) {
							for len(data) > 0 {
								n := chunk
								if n > len(data) {
									n = len(data)
								}
								time.Sleep(delay)
								if _, err := pw.Write(data[:n]); err != nil {
									return
								}
								data = data[n:]
							}
							_ = pw.Close()
						}(append([]byte(nil), body...))
						req.SetBodyStream(pr, declared)
					} else {
						req.SetBodyStream(&slowReader{data: append([]byte(nil), body...), chunk: 500 + wg2.intn(20000), delay: time.Duration(wg2.intn(3)) * 30 * time.Microsecond}, declared)
					}
				} else {
					req.SetBody(body)
				}
				ctx := http2.VerifAcquireCtx(req, res)
				armed := wg2.intn(4) == 0
				if armed {
					ctx.VerifArm(time.Duration(50+wg2.intn(3000)) * time.Microsecond)
				}
				atomic.AddInt64(&inFlight, 1)
				conn.Write(ctx)
				err := <-ctx.Err
				reuse := ctx.VerifReusable()
				ctx.VerifTakeBack()
				if reuse {
					http2.VerifReleaseCtx(ctx)
				}
				atomic.AddInt64(&inFlight, -1)
				switch {
				case err == nil:
					if res.StatusCode() == 200 && (!bytes.Equal(res.Body(), body) || string(res.Header.Peek("x-echo")) != tag) {
						atomic.AddInt64(&st.mismatch, 1)
						st.note(fmt.Sprintf("BAD round=%d seed=%d mismatch tag=%s sent=%d got=%d echo=%q", round, seed, tag, len(body), len(res.Body()), res.Header.Peek("x-echo")))
					}
					atomic.AddInt64(&st.ok, 1)
				case armed && err == http2.ErrRequestCanceled:
					atomic.AddInt64(&st.canceled, 1)
				default:
					atomic.AddInt64(&st.errs, 1)
					// none of the readers here fails on its own, and no code path here panics by design
					if es := err.Error(); strings.Contains(es, "runtime error") || strings.Contains(es, "reading the request body") {
						atomic.AddInt64(&st.wrongErr, 1)
						st.note(fmt.Sprintf("BAD round=%d seed=%d caller %s got %q", round, seed, tag, es))
					}
					st.mu.Lock()
					if st.classes == nil {
						st.classes = map[string]int{}
					}
					e := err.Error()
					if len(e) > 60 {
						e = e[:60]
					}
					st.classes[e]++
					st.mu.Unlock()
				}
				if pw != nil {
					_ = pw.CloseWithError(io.ErrClosedPipe) // lets the feeder go
				}
				// the caller is free to reuse both as soon as the round trip has returned
				fasthttp.ReleaseRequest(req)
				fasthttp.ReleaseResponse(res)
			}
		}(w, wseed)
	}
	done := make(chan struct{})
	go func() { wg.Wait(); close(done) }()
	switch disrupt {
	case 0:
		time.Sleep(time.Duration(g.intn(3000)) * time.Microsecond)
		_ = conn.Close()
	case 1:
		time.Sleep(time.Duration(g.intn(3000)) * time.Microsecond)
		_ = c1.Close()
	}
	select {
	case <-done:
	case <-time.After(stallAfter):
		// not finished on its own: tear the connection down, everybody has to come back then
		if atomic.AddInt64(&st.stalled, 1) == 1 && os.Getenv("H2V_STACKS") != "" {
			buf := make([]byte, 1<<22)
			buf = buf[:runtime.Stack(buf, true)]
			_, _ = os.Stderr.Write(buf)
		}
		st.note(fmt.Sprintf("STALL round=%d seed=%d callers-waiting=%d maxStreams=%d workers=%d disrupt=%d", round, seed, atomic.LoadInt64(&inFlight), maxStreams, workers, disrupt))
	}
	_ = conn.Close()
	_ = c2.Close()
	_ = c1.Close()
	select {
	case <-done:
	case <-time.After(20 * time.Second):
		atomic.AddInt64(&st.stranded, 1)
		st.note(fmt.Sprintf("BAD round=%d seed=%d stranded callers=%d", round, seed, atomic.LoadInt64(&inFlight)))
	}
	select {
	case <-srvRet:
	case <-time.After(20 * time.Second):
		atomic.AddInt64(&st.srvhang, 1)
		st.note(fmt.Sprintf("BAD round=%d seed=%d ServeConn did not return", round, seed))
	}
}

// poolRound: several callers go through Client.RoundTrip; the client dials as many connections as it sees fit.
func poolRound(seed uint64, round int, st *freeStats) {
	atomic.AddInt64(&st.poolRounds, 1)
	g := &rng{s: seed*0x9e3779b97f4a7c15 + uint64(round)*0xbf58476d1ce4e5b9 + 7}
	maxStreams := []int{1, 1, 2, 3, 8, 100}[g.intn(6)]
	var dmu sync.Mutex
	dispatched := map[string]int{}
	handler := func(ctx *fasthttp.RequestCtx) {
		tag := string(ctx.Request.Header.Peek("x-tag"))
		dmu.Lock()
		dispatched[tag]++
		n := dispatched[tag]
		dmu.Unlock()
		if n == 2 {
			atomic.AddInt64(&st.resent, 1)
			st.note(fmt.Sprintf("BAD round=%d seed=%d request %s reached a handler twice", round, seed, tag))
		}
		body := append([]byte(nil), ctx.Request.Body()...)
		mode := ctx.Request.Header.Peek("x-mode")
		if len(mode) > 0 && mode[0] == 'd' {
			time.Sleep(time.Duration(int(mode[1]-'0')) * 200 * time.Microsecond)
		}
		ctx.Response.Header.Set("x-echo", tag)
		ctx.Response.SetBody(body)
	}
	ms := func(choices ...int) time.Duration {
		return time.Duration(choices[g.intn(len(choices))]) * time.Millisecond
	}
	// an idle timeout makes the server say GOAWAY between requests: the client has to move on to another connection
	readTimeout, idleTimeout := ms(0, 0, 0, 10), ms(0, 0, 1, 3, 20)
	fs := &fasthttp.Server{Handler: handler, NoDefaultServerHeader: true, NoDefaultDate: true, Logger: quietLogger{},
		ReadTimeout: readTimeout, IdleTimeout: idleTimeout}
	srv := http2.ConfigureServer(fs, http2.ServerConfig{PingInterval: ms(-1, -1, 5), MaxConcurrentStreams: maxStreams})
	var cmu sync.Mutex
	var srvEnds []net.Conn
	var srvRets []chan struct{}
	dialFail := g.intn(8) == 0
	dial := func() (net.Conn, error) {
		atomic.AddInt64(&st.dials, 1)
		cmu.Lock()
		defer cmu.Unlock()
		if dialFail && len(srvEnds) >= 2 {
			return nil, io.ErrClosedPipe
		}
		c1, c2 := newBufPipe()
		ret := make(chan struct{})
		srvEnds = append(srvEnds, c1)
		srvRets = append(srvRets, ret)
		go func() { _ = srv.ServeConn(c1); close(ret) }()
		return c2, nil
	}
	opts := http2.ClientOpts{}
	if g.intn(3) == 0 {
		opts.MaxResponseTime = time.Duration(200+g.intn(20000)) * time.Microsecond
	}
	cl := http2.VerifNewClient(dial, opts, []time.Duration{time.Hour, 5 * time.Millisecond}[g.intn(2)])
	defer http2.VerifForgetClient(cl)
	workers := 2 + g.intn(8)
	perWorker := 2 + g.intn(6)
	disrupt := g.intn(6) // 0: Client.Close mid-run, 1: cut one server end mid-run, 2: cut every server end, else none
	var wg sync.WaitGroup
	var inFlight int64
	for w := 0; w < workers; w++ {
		wseed := g.u64()
		wg.Add(1)
		go func(w int, wseed uint64) {
			defer wg.Done()
			wg2 := &rng{s: wseed | 1}
			for k := 0; k < perWorker; k++ {
				atomic.AddInt64(&st.requests, 1)
				size := []int{0, 1, 100, 5000, 16385, 40000}[wg2.intn(6)]
				body := pattern(wseed+uint64(k), size)
				req := fasthttp.AcquireRequest()
				res := fasthttp.AcquireResponse()
				req.Header.SetMethod("POST")
				req.SetRequestURI("https://free.run/echo")
				tag := fmt.Sprintf("p%d-%d-%d", round, w, k)
				req.Header.Set("x-tag", tag)
				if wg2.intn(3) == 0 {
					req.Header.Set("x-mode", fmt.Sprintf("d%d", wg2.intn(10)))
				}
				if size > 0 && wg2.intn(3) == 0 {
					req.SetBodyStream(&slowReader{data: append([]byte(nil), body...), chunk: 500 + wg2.intn(20000)}, size)
				} else {
					req.SetBody(body)
				}
				atomic.AddInt64(&inFlight, 1)
				retry, err := cl.RoundTrip(nil, req, res)
				atomic.AddInt64(&inFlight, -1)
				if retry {
					dmu.Lock()
					n := dispatched[tag]
					dmu.Unlock()
					if n > 0 {
						atomic.AddInt64(&st.retryProc, 1)
						st.note(fmt.Sprintf("BAD round=%d seed=%d RoundTrip reported request %s retryable (%v) after a handler had been given it", round, seed, tag, err))
					}
				}
				switch {
				case err == nil:
					if res.StatusCode() == 200 && (!bytes.Equal(res.Body(), body) || string(res.Header.Peek("x-echo")) != tag) {
						atomic.AddInt64(&st.mismatch, 1)
						st.note(fmt.Sprintf("BAD round=%d seed=%d mismatch tag=%s sent=%d got=%d echo=%q", round, seed, tag, len(body), len(res.Body()), res.Header.Peek("x-echo")))
					}
					atomic.AddInt64(&st.ok, 1)
				case err == http2.ErrRequestCanceled:
					atomic.AddInt64(&st.canceled, 1)
				default:
					atomic.AddInt64(&st.errs, 1)
					if es := err.Error(); strings.Contains(es, "runtime error") || strings.Contains(es, "reading the request body") {
						atomic.AddInt64(&st.wrongErr, 1)
						st.note(fmt.Sprintf("BAD round=%d seed=%d caller %s got %q", round, seed, tag, es))
					}
				}
				fasthttp.ReleaseRequest(req)
				fasthttp.ReleaseResponse(res)
			}
		}(w, wseed)
	}
	done := make(chan struct{})
	go func() { wg.Wait(); close(done) }()
	cut := func(all bool) {
		cmu.Lock()
		ends := append([]net.Conn(nil), srvEnds...)
		cmu.Unlock()
		for i, c := range ends {
			if all || i == 0 {
				_ = c.Close()
			}
		}
	}
	switch disrupt {
	case 0:
		time.Sleep(time.Duration(g.intn(3000)) * time.Microsecond)
		_ = cl.Close()
	case 1, 2:
		time.Sleep(time.Duration(g.intn(3000)) * time.Microsecond)
		cut(disrupt == 2)
	}
	select {
	case <-done:
	case <-time.After(stallAfter):
		atomic.AddInt64(&st.stalled, 1)
		st.note(fmt.Sprintf("STALL round=%d seed=%d pool callers-waiting=%d maxStreams=%d workers=%d disrupt=%d", round, seed, atomic.LoadInt64(&inFlight), maxStreams, workers, disrupt))
	}
	_ = cl.Close()
	cut(true)
	select {
	case <-done:
	case <-time.After(20 * time.Second):
		atomic.AddInt64(&st.stranded, 1)
		st.note(fmt.Sprintf("BAD round=%d seed=%d stranded callers=%d (pool)", round, seed, atomic.LoadInt64(&inFlight)))
	}
	cmu.Lock()
	rets := append([]chan struct{}(nil), srvRets...)
	cmu.Unlock()
	deadline := time.After(20 * time.Second)
	for _, r := range rets {
		select {
		case <-r:
		case <-deadline:
			atomic.AddInt64(&st.srvhang, 1)
			st.note(fmt.Sprintf("BAD round=%d seed=%d ServeConn did not return (pool)", round, seed))
			return
		}
	}
}

func runFreeRun(seed uint64, rounds int) {
	http2.VerifSetQuiet(true)
	st := &freeStats{}
	// a few rounds at a time: more goroutines for the detector to see overlapping, still bounded memory
	const par = 8
	sem := make(chan struct{}, par)
	var wg sync.WaitGroup
	for i := 0; i < rounds; i++ {
		wg.Add(1)
		sem <- struct{}{}
		go func(i int) {
			defer wg.Done()
			freeRound(seed, i, st)
			<-sem
		}(i)
	}
	wg.Wait()
	fmt.Printf("freerun rounds=%d requests=%d ok=%d err=%d canceled=%d mismatch=%d stranded=%d srvhang=%d stalled=%d wrongerr=%d resent=%d retryproc=%d poolrounds=%d dials=%d\n",
		rounds, st.requests, st.ok, st.errs, st.canceled, st.mismatch, st.stranded, st.srvhang, st.stalled, st.wrongErr, st.resent, st.retryProc, st.poolRounds, st.dials)
	if os.Getenv("H2V_STACKS") != "" {
		fmt.Fprintln(os.Stderr, st.classes)
	}
	for _, b := range st.bad {
		fmt.Println(b)
	}
}
