#!/usr/bin/env python3
# Generates the mechanical part of coq/Proofs/CliBase.v (projection lemmas for the generated setters of
# Impl/ClientConn.v, frame lemmas for its small helpers). Output on stdout. Modes: args | upd | fun | hints
import re, sys
src = open(sys.argv[2] if len(sys.argv) > 2 else 'Impl/ClientConn.v').read()

def record_fields(recname):
    m = re.search(r'Record %s : Type := \w+ \{(.*?)\n\}\.' % recname, src, re.S)
    return re.findall(r'^\s*(\w+)\s*:', m.group(1), re.M)

cc = record_fields('cconn')
ct = record_fields('cctx')
pb = record_fields('cpending')

# definitions of the Section that take hstate (everything but these)
sec = src[src.index('Section Client.'):]
no_h = {'cl_config', 'cl_req_find', 'cl_lockres', 'cl_spres', 'cl_zmin', 'cl_wrres', 'cl_rserr', 'cl_dres', 'cevent'}
secnames = [n for n in re.findall(r'^(?:Definition|Fixpoint|Record|Inductive)\s+(\w+)', sec, re.M) if n not in no_h and n != 'cconn']
secnames += ['mkCConn'] + cc

mode = sys.argv[1]
out = []
if mode == 'args':
    for i in range(0, len(secnames), 6):
        out.append(" ".join("Arguments %s {hstate}." % n for n in secnames[i:i+6]))
elif mode == 'cbnlist':
    out.append(" ".join(cc + ['ccu_' + f[3:] for f in cc]))
elif mode == 'ctlist':
    out.append(" ".join(ct + ['ctu_' + f[3:] for f in ct] + pb + ['pbu_' + f[3:] for f in pb]))
elif mode == 'upd':
    for g in cc:
        u = 'ccu_' + g[3:]
        for f in cc:
            rhs = 'v' if f == g else '%s c' % f
            out.append("Lemma %s_%s (c : cconn hstate) v : %s (%s c v) = %s. Proof. reflexivity. Qed." % (f, u, f, u, rhs))
elif mode == 'updct':
    for (fields, pre, ty) in ((ct, 'ctu_', 'cctx'), (pb, 'pbu_', 'cpending')):
        for g in fields:
            u = pre + g[3:]
            for f in fields:
                rhs = 'v' if f == g else '%s x' % f
                out.append("Lemma %s_%s (x : %s) v : %s (%s x v) = %s. Proof. reflexivity. Qed." % (f, u, ty, f, u, rhs))

# helper functions: name -> (binders, application, changed fields)
funs = [
 ("cl_note", "o", "cl_note c o", ["cc_out"]),
 ("cl_notes", "l", "cl_notes c l", ["cc_out"]),
 ("cl_ctx_put", "x", "cl_ctx_put c x", ["cc_ctxs"]),
 ("cl_ctx_upd", "tag f", "cl_ctx_upd c tag f", ["cc_ctxs"]),
 ("cl_resolve", "tag e", "cl_resolve c tag e", ["cc_ctxs"]),
 ("cl_resolve_all", "tags e", "cl_resolve_all c tags e", ["cc_ctxs"]),
 ("cl_set_last_err", "e", "cl_set_last_err c e", ["cc_lastErr"]),
 ("cl_req_del", "id", "cl_req_del c id", ["cc_reqQueued"]),
 ("cl_take_req_count", "id", "cl_take_req_count c id", ["cc_reqQueued", "cc_open"]),
 ("cl_write_out", "o", "cl_write_out c o", ["cc_outQ"]),
 ("cl_signal_window", "", "cl_signal_window c", ["cc_winCh"]),
 ("cl_close_begin", "", "fst (cl_close_begin c)", ["cc_closed"]),
 ("cl_close_net", "", "cl_close_net c", ["cc_out", "cc_netClosed"]),
 ("cl_conn_close", "", "cl_conn_close c", ["cc_closed", "cc_out", "cc_netClosed"]),
 ("cl_go_stuck", "who held self tag", "cl_go_stuck who held c self tag", ["cc_ctxs", "cc_out", "cc_rl_stuck", "cc_wl_stuck"]),
 ("cl_close_body", "pb", "cl_close_body c pb", ["cc_ctxs", "cc_out"]),
 ("cl_delete_pending", "who held id", "fst (cl_delete_pending who held c id)", ["cc_pending", "cc_ctxs", "cc_out", "cc_rl_stuck", "cc_wl_stuck"]),
 ("cl_cancel_stream", "id code", "cl_cancel_stream c id code", ["cc_outQ"]),
 ("cl_apply_initial_window", "size", "cl_apply_initial_window c size", ["cc_streamWindow", "cc_pending", "cc_winCh"]),
 ("cl_add_window", "sid inc", "cl_add_window c sid inc", ["cc_connWindow", "cc_pending", "cc_winCh"]),
 ("cl_update_window", "sid n", "cl_update_window c sid n", ["cc_outQ"]),
 ("cl_handle_settings", "st", "cl_handle_settings c st", ["cc_serverS", "cc_maxStreams", "cc_maxFrame", "cc_encTableSize", "cc_streamWindow", "cc_pending", "cc_winCh", "cc_outQ"]),
 ("cl_finish", "tag id e", "cl_finish c tag id e", ["cc_reqQueued", "cc_open", "cc_pending", "cc_ctxs", "cc_out"]),
]
if mode == 'fun':
    for (fn, bs, app, changed) in funs:
        for f in cc:
            if f in changed: continue
            out.append("Lemma %s_%s (c : cconn hstate) %s : %s (%s) = %s c. Proof. cc_unf. Qed." % (f, fn, bs, f, app, f))
if mode == 'hints':
    names = []
    for g in cc:
        for f in cc: names.append("%s_ccu_%s" % (f, g[3:]))
    for (fn, bs, app, changed) in funs:
        for f in cc:
            if f not in changed: names.append("%s_%s" % (f, fn))
    for i in range(0, len(names), 8):
        out.append("#[export] Hint Rewrite @%s : cc." % " @".join(names[i:i+8]))
    names = []
    for (fields, pre) in ((ct, 'ctu_'), (pb, 'pbu_')):
        for g in fields:
            for f in fields: names.append("%s_%s%s" % (f, pre, g[3:]))
    for i in range(0, len(names), 8):
        out.append("#[export] Hint Rewrite %s : cc." % " ".join(names[i:i+8]))
print("\n".join(out))
