#!/usr/bin/env python3
"""Regenerate the generated parts of DESIGN.md (between the markers <!-- GEN:x --> and <!-- /GEN:x -->)
from MANIFEST.json, evidence/*.json, seeded/*/meta.json and known_findings.json. Run from /verif."""
import glob, json, os, re

root = os.path.dirname(os.path.dirname(os.path.abspath(__file__)))
os.chdir(root)
man = json.load(open("MANIFEST.json"))
props = {json.loads(l)["id"]: json.loads(l) for l in open("properties.jsonl")}
known = json.load(open("known_findings.json"))


def status_table():
    rows = ["| id | title | theorems (Props/) | lemmas in cone | correspondence per quick run | partial / refuted / findings |", "|---|---|---|---|---|---|"]
    claimed = {c["property_id"]: c for c in man["checks"]}
    for pid in sorted(props):
        if pid not in claimed:
            na = [x for x in man["not_applicable"] if x["property_id"] == pid]
            rows.append("| %s | %s | not claimed | | | %s |" % (pid, props[pid]["title"], na[0]["reason"] if na else ""))
            continue
        ev = {}
        if os.path.exists("evidence/%s.json" % pid):
            ev = json.load(open("evidence/%s.json" % pid)).get("coverage", {})
        nthm = len(ev.get("theorems", []))
        dist = ev.get("input_distribution", {})
        corr = ", ".join("%s: %s" % (s, d.get("cases", "?")) for s, d in dist.items())
        extra = []
        if ev.get("race_detector"):
            extra.append("race detector: %s lockstep scenarios" % ev["race_detector"].get("scenarios"))
        if ev.get("free_run"):
            extra.append("free run: %s rounds / %s requests%s" % (ev["free_run"].get("rounds"), ev["free_run"].get("requests"), " under -race" if ev["free_run"].get("race_build") else ""))
        text = claimed[pid]["level_claimed"]["text"]
        notes = []
        up = text.replace("Partial:", "PARTIAL:")
        if "PARTIAL" in up:
            tail = up[up.index("PARTIAL"):]
            tail = tail[len("PARTIAL:"):].strip() if tail.startswith("PARTIAL:") else tail
            notes.append("partial: " + tail[:260].rstrip() + ("…" if len(tail) > 260 else ""))
        if "REFUTED" in text:
            notes.append("refuted clause recorded as finding")
        kf = [f["id"] for f in known["findings"] if f["property"] == pid]
        if kf:
            notes.append("known findings: " + ", ".join(kf))
        rows.append("| %s | %s | %d | %s | %s | %s |" % (pid, props[pid]["title"], nthm, ev.get("supporting_lemmas", ""), "; ".join([corr] + extra), " ".join(notes)))
    return "\n".join(rows)


def seeded_table():
    rows = ["| change | what it breaks and what it needs (abridged) | first evaluation | caught by |", "|---|---|---|---|"]
    for d in sorted(glob.glob("seeded/*/meta.json")):
        m = json.load(open(d))
        name = os.path.basename(os.path.dirname(d))
        what = re.sub(r"\s+", " ", m.get("what_it_needs_to_manifest", ""))[:330]
        rows.append("| %s | %s… | %s | %s |" % (name, what.replace("|", "/"), m.get("detection", "").replace("|", "/"), "; ".join(m.get("caught_by_checks", [])).replace("|", "/")))
    n = len(rows) - 2
    missed = sum(1 for d in glob.glob("seeded/*/meta.json") if "MISSED" in json.load(open(d)).get("detection", ""))
    still = sum(1 for d in glob.glob("seeded/*/meta.json") if "still not caught" in json.load(open(d)).get("detection", ""))
    head = ("%d seeded changes kept (every one confirmed here); %d of them were missed at their first evaluation; %d of those led to a stronger "
            "generator, oracle or run mode and are caught now, %d %s still not caught (the reason is in its row and in section 17).\n\n"
            % (n, missed, missed - still, still, "is" if still == 1 else "are"))
    return head + "\n".join(rows)


def findings_table():
    rows = ["| id | property | replayed on every run | what |", "|---|---|---|---|"]
    for f in known["findings"]:
        rows.append("| %s | %s | %s | %s |" % (f["id"], f["property"], "yes (%s suite, oracle %s)" % (f.get("suite"), f.get("oracle")) if f.get("case") else "no (blocking-structure LTS only)", f["what"].replace("|", "/")))
    rows.append("")
    rows.append("%d defects repaired in /repo (`fix:` commits), one line each in `known_findings.json` → `fixed`." % len(known["fixed"]))
    return "\n".join(rows)


GEN = {"status": status_table, "seeded": seeded_table, "findings": findings_table}
s = open("DESIGN.md").read()
for k, fn in GEN.items():
    a, b = "<!-- GEN:%s -->" % k, "<!-- /GEN:%s -->" % k
    if a in s and b in s:
        s = s[:s.index(a) + len(a)] + "\n" + fn() + "\n" + s[s.index(b):]
open("DESIGN.md", "w").write(s)
print("DESIGN.md tables regenerated")
