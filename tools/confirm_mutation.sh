#!/bin/bash
# Confirm a seeded mutation in a scratch worktree:
#   tools/confirm_mutation.sh <dir with mN.diff / mN_demo_test.go> <mN> <logfile>
# 1. the change applies, builds, and the existing suite passes with it
# 2. the demonstration fails with the change and passes without it
set -u
D=$1; M=$2; LOG=$3
W=/tmp/mutconfirm
export GOFLAGS=-mod=mod GOPROXY=off
{
echo "## $D $M  $(date)"
if [ ! -d $W ]; then git -C /repo worktree add -q --detach $W HEAD; fi
git -C $W checkout -q --detach $(git -C /repo rev-parse HEAD); git -C $W checkout -q -- .; git -C $W clean -fdq
cd $W
git apply $D/$M.diff && echo "APPLY ok" || { echo "APPLY FAILED"; exit 1; }
go build ./... && echo "BUILD ok" || { echo "BUILD FAILED"; exit 1; }
if go test -vet=off -count=1 -timeout 25m ./... > /tmp/mutconfirm_suite.log 2>&1; then echo "SUITE-WITH-CHANGE pass"; else
  # one re-run of a load-sensitive stress test is allowed
  grep -E "^--- FAIL" /tmp/mutconfirm_suite.log | head -5
  if go test -vet=off -count=1 -timeout 25m ./... > /tmp/mutconfirm_suite.log 2>&1; then echo "SUITE-WITH-CHANGE pass (second run)"; else echo "SUITE-WITH-CHANGE FAIL"; grep -E "^--- FAIL" /tmp/mutconfirm_suite.log | head -5; fi
fi
cp $D/${M}_demo_test.go $W/zz_${M}_demo_test.go
names=$(grep -oE "^func (Test[A-Za-z0-9_]+)" $W/zz_${M}_demo_test.go | awk '{print $2}' | paste -sd'|')
if go test -vet=off -count=1 -run "^($names)\$" . > /tmp/mutconfirm_demo.log 2>&1; then echo "DEMO-WITH-CHANGE pass (UNEXPECTED)"; else echo "DEMO-WITH-CHANGE fail (expected)"; fi
git apply -R $D/$M.diff
if go test -vet=off -count=1 -run "^($names)\$" . > /tmp/mutconfirm_demo2.log 2>&1; then echo "DEMO-WITHOUT-CHANGE pass (expected)"; else echo "DEMO-WITHOUT-CHANGE FAIL (UNEXPECTED)"; tail -5 /tmp/mutconfirm_demo2.log; fi
git -C $W checkout -q -- .; git -C $W clean -fdq
} >> $LOG 2>&1
