#!/usr/bin/env python3
"""Store confirmed seeded changes under /verif/seeded/<pid><suffix>-<mN>/ (see tools/store_mutation.py).

  tools/store_round.py <suffix> <source text> <table.tsv>
     table lines: <dir under /tmp/mutout>\t<mN>\t<pid>\t<detection>\t<caught_by>[;...]
"""
import json, os, shutil, sys

suffix, source = sys.argv[1], sys.argv[2]
for line in open(sys.argv[3]):
    line = line.rstrip("\n")
    if not line or line.startswith("#"):
        continue
    d, m, pid, detection, caught = line.split("\t")
    src = "/tmp/mutout/" + d
    dst = "/verif/seeded/%s%s-%s" % (pid, suffix, m)
    os.makedirs(dst, exist_ok=True)
    shutil.copy(os.path.join(src, m + ".diff"), os.path.join(dst, "patch.diff"))
    shutil.copy(os.path.join(src, m + "_demo_test.go"), os.path.join(dst, "demo_test.go.txt"))
    txt = open(os.path.join(src, m + ".txt")).read().strip() if os.path.exists(os.path.join(src, m + ".txt")) else ""
    meta = {
        "property": pid,
        "source": source,
        "what_it_needs_to_manifest": txt,
        "confirmed_here": "tools/confirm_mutation.sh in a scratch worktree of /repo: patch applies, builds, the whole existing suite passes with it "
                          "(the load-sensitive TestStressManyClients / TestClientStreamedBodyDoesNotBuffer re-run when the box was busy), "
                          "the demonstration fails with the change and passes without it",
        "evaluated_with": "tools/eval_mutation.sh <property> <patch> (private copy of /verif against a private worktree of /repo with the patch applied)",
        "caught_by_checks": [c.strip() for c in caught.split(";") if c.strip()],
        "detection": detection,
        "demo": "demo_test.go.txt is the demonstration test (kept with a .txt suffix so that it is never compiled into anything)",
    }
    json.dump(meta, open(os.path.join(dst, "meta.json"), "w"), indent=1)
    print("stored", dst)
