#!/usr/bin/env python3
"""Writes the record declarations and their `upd_*` setters of Impl/ClientConn.v.

The records are declared here once; the script rewrites the regions of
coq/Impl/ClientConn.v between the markers
    (* BEGIN generated: <name> *)  ...  (* END generated: <name> *)
Run it after changing a field list:  python3 tools/gen_client_setters.py
"""
import os
import re

ROOT = os.path.dirname(os.path.dirname(os.path.abspath(__file__)))
TARGET = os.path.join(ROOT, "coq", "Impl", "ClientConn.v")

# (record, constructor, setter prefix, [(field, type, comment)])
RECORDS = {
    "cctx": ("cctx", "mkCCtx", "ctu_", [
        ("ct_tag", "N", "the caller's name for this Ctx object"),
        ("ct_req", "crequest", "Request"),
        ("ct_resp", "cresponse", "Response"),
        ("ct_sid", "N", "streamID (atomic)"),
        ("ct_conn", "bool", "conn.Load() == this connection"),
        ("ct_done", "bool", "done (under lck)"),
        ("ct_resolved", "bool", "resolved (under resLck)"),
        ("ct_finished", "bool", "finished (under resLck)"),
        ("ct_err", "option cerr", "the buffer of Err (capacity 1)"),
        ("ct_armed", "bool", "armed"),
        ("ct_fired", "bool", "the cancel timer has run out: fireTimeout has started"),
        ("ct_cancelled", "bool", "fireTimeout has got past its resolve and run cancel"),
        ("ct_gotStatus", "bool", "gotStatus"),
        ("ct_bodyClosed", "bool", "the connection has called Request.CloseBodyStream"),
        ("ct_writing", "bool", "the caller is inside Conn.Write, between its two selects"),
        ("ct_returned", "bool", "roundTripOnce has returned to its caller"),
        ("ct_pooled", "bool", "releaseCtx: back in clientCtxPool"),
        ("ct_lckStuck", "bool", "lck is held by a goroutine that will never release it"),
    ]),
    "cpending": ("cpending", "mkCPB", "pbu_", [
        ("pb_id", "N", "key in c.pending"),
        ("pb_tag", "N", "ctx"),
        ("pb_body", "bytes", "body"),
        ("pb_window", "Z", "window int32"),
        ("pb_stream", "option (list (bytes * rerr))", "stream: the reads the caller's reader will answer with; None = nil"),
        ("pb_size", "Z", "size"),
        ("pb_read", "Z", "read"),
        ("pb_drained", "bool", "drained"),
    ]),
    "cconn": ("cconn", "mkCConn", "ccu_", [
        ("cc_ctxs", "list cctx", "every Ctx handed to the connection, oldest first"),
        ("cc_nextID", "N", "nextID (atomic)"),
        ("cc_open", "Z", "openStreams (atomic int32)"),
        ("cc_maxStreams", "N", "maxStreams (atomic uint32)"),
        ("cc_maxFrame", "N", "maxFrameSize (atomic uint32)"),
        ("cc_goAway", "bool", "goAway != 0 (atomic)"),
        ("cc_closed", "bool", "closed == 1, i.e. done is closed"),
        ("cc_closing", "bool", "a Close call is between close(done) and closing the socket"),
        ("cc_netClosed", "bool", "c.c.Close() has been called"),
        ("cc_writeFail", "bool", "writes to the socket fail from now on (environment)"),
        ("cc_enc", "hstate", "enc (write loop)"),
        ("cc_encTableSize", "N", "encTableSize (atomic)"),
        ("cc_encTableSeen", "N", "encTableSizeSeen (write loop)"),
        ("cc_dec", "hstate", "dec (read loop)"),
        ("cc_currentWindow", "Z", "currentWindow int32 (read loop)"),
        ("cc_serverS", "csettings", "serverS (read loop)"),
        ("cc_hdrStream", "N", "hdrStream"),
        ("cc_hdrPrev", "bytes", "hdrPrev"),
        ("cc_hdrFields", "N", "hdrFields"),
        ("cc_hdrEndStream", "bool", "hdrEndStream"),
        ("cc_hdrRegularSeen", "bool", "hdrRegularSeen"),
        ("cc_hdrStatus", "Z", "hdrStatus"),
        ("cc_hdrErr", "option cerr", "hdrErr"),
        ("cc_stateClosed", "bool", "state == connStateClosed (read loop)"),
        ("cc_closeRef", "N", "closeRef"),
        ("cc_reqQueued", "list (N * N)", "reqQueued: stream id -> tag of the Ctx (reqLck)"),
        ("cc_pending", "list cpending", "pending (sendLck)"),
        ("cc_connWindow", "Z", "connWindow int32 (sendLck)"),
        ("cc_streamWindow", "Z", "streamWindow int32 (sendLck)"),
        ("cc_inQ", "list N", "in: tags of the queued Ctx"),
        ("cc_outQ", "list coutev", "out: frames queued by writeOut"),
        ("cc_winCh", "bool", "winCh holds its token"),
        ("cc_lastErr", "option cerr", "lastErr (lastErrLck)"),
        ("cc_unacks", "Z", "unacks (atomic)"),
        ("cc_rl_done", "bool", "readLoop has returned"),
        ("cc_wl_done", "bool", "writeLoop has returned"),
        ("cc_rl_stuck", "bool", "the read loop is parked on a mutex for ever"),
        ("cc_wl_stuck", "bool", "the write loop is parked on a mutex for ever"),
        ("cc_out", "list coutev", "the trace, newest first"),
    ]),
}


def gen(name):
    rec, ctor, pfx, fields = RECORDS[name]
    out = []
    out.append("Record %s : Type := %s {" % (rec, ctor))
    for i, (f, ty, cm) in enumerate(fields):
        sep = ";" if i < len(fields) - 1 else ""
        out.append("  %s : %s%s   (* %s *)" % (f, ty, sep, cm))
    out.append("}.")
    out.append("")
    for i, (f, ty, _) in enumerate(fields):
        args = " ".join(("v" if j == i else "(%s r)" % g) for j, (g, _, _) in enumerate(fields))
        short = f.split("_", 1)[1]
        out.append("Definition %s%s (r : %s) (v : %s) : %s :=\n  %s %s." % (pfx, short, rec, ty, rec, ctor, args))
    return "\n".join(out) + "\n"


def main():
    src = open(TARGET).read()
    for name in RECORDS:
        pat = re.compile(r"(\(\* BEGIN generated: %s \*\)\n).*?(\(\* END generated: %s \*\))" % (name, name), re.S)
        if not pat.search(src):
            raise SystemExit("marker for %s not found" % name)
        src = pat.sub(lambda m: m.group(1) + gen(name) + m.group(2), src)
    open(TARGET, "w").write(src)


if __name__ == "__main__":
    main()
