#!/bin/sh
# Rebuilds the generated parts of coq/Proofs/CliBaseProj.v in place (between the GENERATED markers).
set -e
cd "$(dirname "$0")/../coq"
python3 - <<'PY'
import subprocess
p='Proofs/CliBaseProj.v'
s=open(p).read()
def gen(mode): return subprocess.check_output(['python3','../tools/gen_clibase.py',mode],text=True)
def put(s,tag,body):
    b="(* BEGIN GENERATED %s (tools/gen_clibase.sh) *)\n"%tag; e="(* END GENERATED %s *)\n"%tag
    i=s.index(b); j=s.index(e)+len(e)
    return s[:i]+b+body+e+s[j:]
s=put(s,'args',gen('args'))
s=put(s,'tactics',
  "Ltac cc_cbn := cbn [%s fst snd].\nLtac cc_cbn_in H := cbn [%s fst snd] in H.\nLtac cc_cbn_all := cbn [%s fst snd] in *.\n" % ((gen('cbnlist').strip()+" "+gen('ctlist').strip(),)*3))
s=put(s,'upd',gen('upd')+gen('updct'))
s=put(s,'fun',gen('fun'))
s=put(s,'hints',gen('hints'))
open(p,'w').write(s)
PY
