#!/bin/bash
# Evaluate seeded mutations without touching /repo (agents are working against it):
#   tools/eval_mutation.sh <property id> <patch file> [more check ids...]
# Uses a private copy of /verif ($VE) whose harness links a private worktree of /repo ($MR).
set -u
PID=$1; PATCH=$2; shift 2
IDS="$PID $*"
VE=${VEVAL:-/tmp/veval}; MR=${MUTREPO:-/tmp/mutrepo}
if [ ! -d $MR ]; then git -C /repo worktree add -q --detach $MR HEAD; fi
git -C $MR checkout -q --detach $(git -C /repo rev-parse HEAD) 2>/dev/null
git -C $MR checkout -q -- . ; git -C $MR clean -fdq
mkdir -p $VE
# NOSYNC=1: keep the private copy as it is (other work may be half-way through an edit in /verif)
if [ "${NOSYNC:-0}" != "1" ]; then rsync -a --delete --exclude .git --exclude .build --exclude 'replays/*' /verif/ $VE/; fi
sed -i "s|=> /repo|=> $MR|; s|=> /tmp/mutrepo[0-9a-z]*|=> $MR|" $VE/harness/go.mod
if [ "$PATCH" != "none" ]; then
  git -C $MR apply "$PATCH" || { echo "PATCH DOES NOT APPLY"; exit 3; }
fi
cd $VE
for id in $IDS; do
  VERIF_REPO=$MR timeout 1500 ./check $id --tier quick > $VE/out_$id.txt 2>&1
  rc=$?
  echo "== $id exit=$rc"
  grep -E "^VIOLATION|^KNOWN-FINDING" $VE/out_$id.txt | head -5
  python3 - <<PY
import json
try:
    e=json.load(open('$VE/evidence/$id.json')); c=e['coverage']
    print("   discharged %s/%s  model_ne_impl=%s impl_ne_spec=%s broken=%s" % (c.get('discharged'),c.get('obligations'),c.get('model_ne_impl'),c.get('impl_ne_spec'),c.get('broken_obligations')))
except Exception as ex: print("   no evidence", ex)
PY
  for f in $(grep -oE "replay=[^ ]+" $VE/out_$id.txt | head -2 | cut -d= -f2); do python3 -c "
import json; b=json.load(open('$VE/$f')); print('   replay:', {k:(str(v)[:160]) for k,v in b.items() if k in ('kind','suite','case','expected','observed','obligation')})"; done
done
git -C $MR checkout -q -- . ; git -C $MR clean -fdq
