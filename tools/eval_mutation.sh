#!/bin/bash
# Evaluate seeded mutations without touching /repo (agents are working against it):
#   tools/eval_mutation.sh <property id> <patch file> [more check ids...]
# Uses a private copy of /verif (/tmp/veval) whose harness links a private worktree of /repo (/tmp/mutrepo).
set -u
PID=$1; PATCH=$2; shift 2
IDS="$PID $*"
if [ ! -d /tmp/mutrepo ]; then git -C /repo worktree add -q --detach /tmp/mutrepo HEAD; fi
git -C /tmp/mutrepo checkout -q --detach $(git -C /repo rev-parse HEAD) 2>/dev/null
git -C /tmp/mutrepo checkout -q -- . ; git -C /tmp/mutrepo clean -fdq
mkdir -p /tmp/veval
# NOSYNC=1: keep the private copy as it is (other work may be half-way through an edit in /verif)
if [ "${NOSYNC:-0}" != "1" ]; then rsync -a --delete --exclude .git --exclude .build --exclude 'replays/*' /verif/ /tmp/veval/; fi
sed -i 's|=> /repo|=> /tmp/mutrepo|' /tmp/veval/harness/go.mod
if [ "$PATCH" != "none" ]; then
  git -C /tmp/mutrepo apply "$PATCH" || { echo "PATCH DOES NOT APPLY"; exit 3; }
fi
cd /tmp/veval
for id in $IDS; do
  VERIF_REPO=/tmp/mutrepo timeout 1500 ./check $id --tier quick > /tmp/veval/out_$id.txt 2>&1
  rc=$?
  echo "== $id exit=$rc"
  grep -E "^VIOLATION|^KNOWN-FINDING" /tmp/veval/out_$id.txt | head -5
  python3 - <<PY
import json
try:
    e=json.load(open('/tmp/veval/evidence/$id.json')); c=e['coverage']
    print("   discharged %s/%s  model_ne_impl=%s impl_ne_spec=%s broken=%s" % (c.get('discharged'),c.get('obligations'),c.get('model_ne_impl'),c.get('impl_ne_spec'),c.get('broken_obligations')))
except Exception as ex: print("   no evidence", ex)
PY
  for f in $(grep -oE "replay=[^ ]+" /tmp/veval/out_$id.txt | head -2 | cut -d= -f2); do python3 -c "
import json; b=json.load(open('/tmp/veval/$f')); print('   replay:', {k:(str(v)[:160]) for k,v in b.items() if k in ('kind','suite','case','expected','observed','obligation')})"; done
done
git -C /tmp/mutrepo checkout -q -- . ; git -C /tmp/mutrepo clean -fdq
