#!/bin/sh
# Rebuilds the generated part of coq/Proofs/SrvBase.v in place (between the GENERATED markers).
set -e
cd "$(dirname "$0")/../coq"
python3 - <<'PY'
import subprocess,re
p='Proofs/SrvBase.v'
s=open(p).read()
def gen(mode): return subprocess.check_output(['python3','../tools/gen_srvbase.py',mode],text=True)
body = "(* BEGIN GENERATED (tools/gen_srvbase.sh) *)\n" + gen('upd') + gen('fun') + "End Proj.\n" + gen('updhints') + gen('funhints') + "(* END GENERATED *)\n"
i=s.index("(* BEGIN GENERATED"); j=s.index("(* END GENERATED *)\n")+len("(* END GENERATED *)\n")
open(p,'w').write(s[:i]+body+s[j:])
PY
