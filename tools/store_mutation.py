#!/usr/bin/env python3
"""Store a confirmed seeded mutation under /verif/seeded/<pid>-<mN>/.

  tools/store_mutation.py <pid> <mN> <detection> <caught_by>[;<caught_by>...]

Reads /tmp/mut/<pid>.out/<mN>.diff, <mN>_demo_test.go and <mN>.txt (the sub-agent's own description).
"""
import json, os, shutil, sys

pid, m, detection, caught = sys.argv[1:5]
src = "/tmp/mut/%s.out" % pid
dst = "/verif/seeded/%s-%s" % (pid, m)
os.makedirs(dst, exist_ok=True)
shutil.copy(os.path.join(src, m + ".diff"), os.path.join(dst, "patch.diff"))
shutil.copy(os.path.join(src, m + "_demo_test.go"), os.path.join(dst, "demo_test.go.txt"))
txt = open(os.path.join(src, m + ".txt")).read().strip() if os.path.exists(os.path.join(src, m + ".txt")) else ""
meta = {
    "property": pid,
    "source": "independent sub-agent given only the property text and a private worktree",
    "what_it_needs_to_manifest": txt,
    "confirmed_here": "tools/confirm_mutation.sh in a scratch worktree of /repo: patch applies, builds, the whole existing suite passes with it "
                      "(load-sensitive tests re-run alone when the box was busy), the demonstration fails with the change and passes without it",
    "evaluated_with": "tools/eval_mutation.sh <property> <patch> (private copy of /verif against a private worktree of /repo with the patch applied)",
    "caught_by_checks": [c.strip() for c in caught.split(";") if c.strip()],
    "detection": detection,
    "demo": "demo_test.go.txt is the demonstration test (kept with a .txt suffix so that it is never compiled into anything)",
}
json.dump(meta, open(os.path.join(dst, "meta.json"), "w"), indent=1)
print("stored", dst)
