#!/usr/bin/env python3
# Generates the mechanical part of coq/Proofs/SrvBase.v (projection lemmas). Output on stdout.
fields = ["sc_strms","sc_gone","sc_open","sc_initWin","sc_ring","sc_oldest","sc_lastID","sc_highestID","sc_clientWindow",
 "sc_currentWindow","sc_enc","sc_dec","sc_closing","sc_closeRef","sc_expectCont","sc_readerQ","sc_rl_done",
 "sc_sl_done","sc_closer","sc_wl_dead","sc_now","sc_discardID","sc_discardPrev","sc_discardFields","sc_out"]
# upd function -> (args, {field: value})
upds = {
 "upd_out": (["o"], {"sc_out":"o"}),
 "upd_strms": (["l"], {"sc_strms":"l"}),
 "upd_gone": (["l"], {"sc_gone":"l"}),
 "upd_open": (["n"], {"sc_open":"n"}),
 "upd_initWin": (["n"], {"sc_initWin":"n"}),
 "upd_ring": (["r","o"], {"sc_ring":"r","sc_oldest":"o"}),
 "upd_lastID": (["n"], {"sc_lastID":"n"}),
 "upd_highestID": (["n"], {"sc_highestID":"n"}),
 "upd_clientWindow": (["n"], {"sc_clientWindow":"n"}),
 "upd_currentWindow": (["n"], {"sc_currentWindow":"n"}),
 "upd_enc": (["h"], {"sc_enc":"h"}),
 "upd_dec": (["h"], {"sc_dec":"h"}),
 "upd_closing": (["b","r"], {"sc_closing":"b","sc_closeRef":"r"}),
 "upd_expectCont": (["n"], {"sc_expectCont":"n"}),
 "upd_readerQ": (["q"], {"sc_readerQ":"q"}),
 "upd_done": (["rl","sl"], {"sc_rl_done":"rl","sc_sl_done":"sl"}),
 "upd_closer": (["b"], {"sc_closer":"b"}),
 "upd_wl_dead": (["b"], {"sc_wl_dead":"b"}),
 "upd_now": (["t"], {"sc_now":"t"}),
 "upd_discard": (["id","prev","n"], {"sc_discardID":"id","sc_discardPrev":"prev","sc_discardFields":"n"}),
}
import sys
mode = sys.argv[1]
out = []
names = []
for u,(args,m) in (upds.items() if mode=="upd" else []):
    for f in fields:
        rhs = m.get(f, "%s c" % f)
        nm = "%s_%s" % (f,u)
        names.append(nm)
        out.append("Lemma %s (c : sconn hstate) %s : %s (%s c %s) = %s. Proof. reflexivity. Qed." % (nm, " ".join(args), f, u, " ".join(args), rhs))

# helper functions: name -> (binders, application, changed fields)
funs = [
 ("emit", "o", "emit c o", ["sc_out"]),
 ("note", "o", "note c o", ["sc_out"]),
 ("write_reset", "sid code", "write_reset c sid code", ["sc_out"]),
 ("write_window_update", "sid inc", "write_window_update c sid inc", ["sc_out"]),
 ("write_goaway", "sid code", "write_goaway c sid code", ["sc_out","sc_closing","sc_closeRef"]),
 ("write_error", "s e", "fst (write_error c s e)", ["sc_out","sc_closing","sc_closeRef"]),
 ("mark_closed", "id w", "mark_closed c id w", ["sc_ring","sc_oldest"]),
 ("release_stream", "s", "release_stream c s", ["sc_open","sc_out"]),
 ("close_stream", "s", "close_stream c s", ["sc_ring","sc_oldest","sc_strms","sc_gone","sc_open","sc_out","sc_discardID","sc_discardPrev","sc_discardFields"]),
 ("put", "x", "put c x", ["sc_strms"]),
 ("credit_conn_window", "cfg n", "credit_conn_window cfg c n", ["sc_currentWindow","sc_out"]),
 ("consume_recv_window", "cfg s fr n", "consume_recv_window cfg c s fr n", ["sc_currentWindow","sc_out"]),
 ("rl_exit", "why", "rl_exit c why", ["sc_rl_done","sc_out"]),
 ("forward", "fr", "forward c fr", ["sc_readerQ","sc_rl_done","sc_out"]),
 ("brk", "", "fst (brk c)", ["sc_sl_done","sc_out"]),
]
for (fn,bs,app,changed) in (funs if mode=="fun" else []):
    for f in fields:
        if f in changed: continue
        nm = "%s_%s" % (f,fn)
        names.append(nm)
        out.append("Lemma %s (c : sconn hstate) %s : %s (%s) = %s c. Proof. sc_unf. Qed." % (nm, bs, f, app, f))
print("\n".join(out))
if mode.endswith("hints"):
  import itertools
  src = upds.items() if mode=="updhints" else []
  for u,(args,m) in src:
    for f in fields: names.append("%s_%s" % (f,u))
  if mode=="funhints":
    for (fn,bs,app,changed) in funs:
      for f in fields:
        if f not in changed: names.append("%s_%s" % (f,fn))
  for i in range(0,len(names),8):
    print("#[export] Hint Rewrite @%s : sc." % " @".join(names[i:i+8]))
