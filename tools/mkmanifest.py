#!/usr/bin/env python3
"""Regenerate MANIFEST.json from the table below (run from /verif)."""
import json, subprocess

props = [json.loads(l) for l in open('properties.jsonl')]
TB = ("Trusted: Coq 8.16.1 kernel + vm_compute (no native_compute), no axioms (Print Assumptions per theorem is in the evidence); "
      "the hand-written Gallina model is tied to /repo by tables generated from the built package and by the differential run "
      "(extraction with ExtrOcamlBasic only, OCaml driver, Go harness with -tags verif); specs in coq/Spec are my transcription of the RFCs. ")

CLAIMED = {
 "C15": dict(design="6/C15", technique="Coq proof (induction + vm_compute finite table checks) + differential correspondence vs extracted model, spec and x/net",
   text="Seven theorems about the Gallina model of huffman.go hold for ALL byte strings: tables = RFC 7541 App. B and canonical/complete/prefix-free, encode = spec, decode accepts exactly spec encodings (strict padding/EOS), round-trip, totality, output bound. The model is re-tied to the code on every run (tables regenerated from the built package; HuffmanEncode/HuffmanDecode vs extracted model vs extracted spec vs x/net on ~28k inputs).",
   note=TB + "Modelled not verified: Go semantics of huffman.go (hand translation, uint8/uint32/uint64 wrap written out)."),
 "C03": dict(design="6/C03", technique="Coq proof (refinement of an RFC 7541 spec decoder, induction over block histories, split invariance) + differential correspondence vs extracted model, spec and x/net",
   text="Thirteen theorems over the model of hpack.go's decoder (readInt, readString, peek, addDynamic/shrink, nextField incl. the server's frame-by-frame loop): for all blocks and table states the decoder accepts exactly what the RFC 7541 spec decoder accepts and yields the same ordered (name, value, sensitive) triples and the same table; same over whole connection histories; HEADERS/CONTINUATION split at any byte does not change the result; the spec decodes everything its own encoder (all representation choices) emits; never panics, each step consumes input, output bounded. Correspondence: ~6.4k decoder histories/frames/malformed inputs per run vs extracted model, extracted spec and x/net.",
   note=TB + "Modelled not verified: Go semantics of hpack.go (uint32/uint64/int conversions written out). Statement bound: block_small (2*len b + 2*max settings + 64 < 2^32). Spec integer limit: at most 9 continuation octets (RFC 7541 5.1 allows an implementation limit)."),
 "C04": dict(design="6/C04", technique="Coq proof (per-field lemma + invariant over encoder histories: decoder table = abs(encoder table)) + differential correspondence incl. x/net decoding of emitted bytes",
   text="Eight theorems over the model of hpack.go's encoder (appendInt, appendString, search, AppendHeader, SetMaxTableSize): for every history of SetMaxTableSize / field(name, value, store, sensitive) / block boundaries and both Disable* flags, the spec decoder turns the emitted blocks back into exactly the same fields, its table equals the encoder's after every block with a field, the table never exceeds the peer's limit, size changes (smallest then final) are announced at the start of the next block, sensitive fields are never-indexed literals and not stored; integers/strings equal the RFC encoding; never panics. Correspondence: ~3.3k encoder histories per run, emitted bytes also decoded by x/net.",
   note=TB + "Modelled not verified: Go semantics of hpack.go. C04_search_sound needs the Go slice-length bound (dynamic table length < 2^63), proved necessary by C04_search_sound_needs_bound."),
 "C05": dict(design="6/C05", technique="Coq proof (spec_write/spec_parse inverse, model read/write = spec for all frames) + differential correspondence vs x/net Framer",
   text="Ten theorems over the model of frameHeader.go, frame.go, the ten frame files and http2utils: for all well-formed frames of the 10 types reading yields the view and consumes 9+len (reserved bits ignored, padding stripped); for all publicly buildable frame values, flags, stream ids and pad lengths the bytes written equal the RFC 7540 layout and parse back; writing twice is idempotent; SETTINGS carry the accessor state. Correspondence: ~143k read/write cases vs extracted model, extracted spec and x/net Framer.",
   note=TB + "Modelled not verified: Go semantics of the frame files; bufio.Reader as a byte list; AddPadding's random pad length is an oracle input read from the observed output. Forwarding a SETTINGS frame re-encodes state (C05_forward_faithful_refuted, outside the property's statement)."),
 "C16": dict(design="6/C16", technique="Coq proof (totality, soundness vs spec parser, truncation, structure rejection, pool linearity) + differential correspondence with the pool tracker hook",
   text="Eleven theorems over ARBITRARY bytes for the frame reader: never panics, Ok results are a correct reading of exactly 9+len consumed bytes within the limit, unknown types skipped whole, over-size refused before allocation, impossible fixed sizes/padding never returned, every strict prefix is an error, pool event log linear on every path, frame streams read back frame by frame. The HPACK half (no panic, progress, output bound for arbitrary bytes) is C03's next_field theorems. Correspondence: ~130k inputs (all prefixes of valid streams, all type/flag bytes, soups) incl. the pool tracker's verdict.",
   note=TB + "Modelled not verified: Go semantics; sync.Pool as an event log with an ownership automaton (Impl/Pools.v); allocation = requested buffer size."),
}

SRV = ("Modelled not verified: Go semantics of serverConn.go/stream.go/streams.go (hand translation: one Gallina function per Go function; each loop iteration / critical section an atomic step; channels as unbounded FIFO queues = a superset of the real schedules); fasthttp, bufio, net.Conn, timers' real time, the Go scheduler and memory model are outside the model. The model is tied to the code by the lockstep run: the real Server.ServeConn against a scripted peer, quiescence by hook counters, frames / dispatches / gauges (table, slots, ring, both connection windows) compared per event with the extracted model; schedules include the stream loop held at a tick gate while the read loop runs ahead. ")
CLAIMED.update({
 "C06": dict(design="6/C06", technique="Coq proof (invariant over all event lists: peer-side window ledger, no-stall, END_STREAM once) + lockstep correspondence + ledger oracle on the observed trace",
   text="Ten theorems over ALL event lists of the server model: every DATA frame fits the peer's connection and stream window at the moment it is queued (ledger of Spec/FlowLedger.v over the grants the stream loop has applied, which is also where SETTINGS are acknowledged), totals form, payload <= 16384, SETTINGS ACK is the first output of the applying step, at most one END_STREAM per stream and nothing after it, no-stall (a waiting response never has both windows positive), sendData sends exactly min(left, windows) and finishes iff nothing is left, a stream grant resumes a blocked body. Partial: completion is proved per step/grant for buffered bodies, not as one whole-run theorem in terms of the peer's ledger totals.",
   note=TB + SRV + "C06 safety counted at the read loop is false by RFC 6.9.2 while a lowering SETTINGS is in flight (C06_read_loop_order_counterexample); the statement counts grants where they are applied and acknowledged."),
 "C13": dict(design="6/C13", technique="Coq proof (structural invariants closed under ~25 primitive moves, all event lists) + lockstep correspondence incl. gauges + gauge oracle",
   text="Thirteen theorems over ALL event lists: running handlers <= open slots <= MaxConcurrentStreams (a cancelled stream keeps its slot until its handler returns), slots = HEADERS-opened table streams + abandoned streams, closed-stream ring <= 256, table length <= slots + 1, every dispatched request within MaxRequestBodySize and MaxHeaderListSize, buffered header bytes (per stream and for discarded blocks) within the header-list limit while the loop runs.",
   note=TB + SRV + "Not covered (stated in Props/C13.v): queue capacities — the model's queues are unbounded, the Go channels block at 128."),
 "C10": dict(design="6/C10", technique="Coq proof (GOAWAY last-stream-id invariant over all event lists and schedules) + lockstep correspondence incl. gated schedules + oracle; termination half partial",
   text="Seven theorems over ALL event lists: every GOAWAY (also one queued after the stream loop ended) carries last-stream-id >= every stream dispatched anywhere in the trace; the connection is closing from then on, lastID is frozen and no new HEADERS-opened stream appears; GOAWAY codes are the RFC's for the emitting site; the stream loop returns once the reader is closed and drained. PARTIAL: 'returns within a bounded time even if the peer keeps sending or stops reading' is about blocking and real time, which this model cannot exhibit (Impl/Teardown.v covers the blocking structure).",
   note=TB + SRV),
 "C17": dict(design="6/C17", technique="Coq proof (no panic item in any trace, ownership automaton of request contexts) + lockstep correspondence (logger output, ServeConn return, pool tracker); goroutine-leak half partial",
   text="Seven theorems over ALL event lists: no panic item in any trace (for the instance: discharged by C03's next_field_no_panic), the per-stream ownership automaton Owned -> Lent -> Returned -> InPool never goes wrong: a request context is never released while its handler runs, released at most once, never dispatched after release, dispatched once. PARTIAL: 'returns once the peer is gone, leaves no goroutine behind' is runtime behaviour: the harness observes ServeConn returning in every scenario, the blocking structure is Impl/Teardown.v.",
   note=TB + SRV),
 "C19": dict(design="6/C19", technique="Coq proof (ownership automaton + frame conditions per loop) + lockstep correspondence with the pool tracker + the same scenarios under the Go race detector",
   text="Eight theorems: the ownership automaton over pooled streams/contexts; frame conditions: the read loop leaves all 19 stream-loop-owned components unchanged (it only sets the shared closing flag, under goAwayMu), the stream loop leaves the read loop's components alone and only takes the head of the reader queue. PARTIAL: the data-race half is about the Go memory model, which no Gallina model can exhibit; as supporting validation the lockstep scenarios run under the race detector on every check (60 quick / 1500 thorough), and a report is a violation.",
   note=TB + SRV + "Client role: the pool tracker runs in the client suite too; client frame conditions are not proved."),
 "C14": dict(design="6/C14", technique="Coq proof (receive-window invariant, credit accounting, peer-view bound; both roles) + lockstep correspondence + increment oracle",
   text="Server role, five theorems over ALL event lists: every WINDOW_UPDATE increment is in 1..2^31-1; maxWindow/2 <= receive window <= maxWindow always; exactly which DATA frames are debited (full wire length, padding included): all accepted or discarded ones, the rest end the connection; the peer's connection window is >= maxWindow/2 once the stream loop has caught up; an accepted DATA frame without END_STREAM is credited to its stream in the same step. Client role: theorems in Props/C14_client.v (see evidence), correspondence on the client suite.",
   note=TB + SRV + "The handshake's WINDOW_UPDATE is outside the model (the peer's connection window starts at maxWindow)."),
})

CLAIMED.update({
 "C09": dict(design="6/C09", technique="Coq proof (decoder state = reference decoder over all fragments whatever happens to streams; stream errors stay stream errors; per-catalogue lemmas) + lockstep correspondence; one known finding",
   text="Twenty-eight theorems, generic in the HPACK coder: after any clean run the decoder state is the reference decoder folded over the header-block fragments the stream loop handled, independent of stream fates (dispatched, stream error at any field, refused, reset, in flight after reset); no other step touches it; two runs with the same fragment sequence end with the same decoder; a step with no error output leaves closing/closeRef/read-loop state unchanged; one lemma per item of the catalogue (malformed field, body over limit, refusal, peer RST at any point, window overflow, in-flight DATA/HEADERS/CONTINUATION on a server-reset stream): stream error or ignored, never GOAWAY; other streams' request views untouched. KNOWN FINDING (listed): a header LIST over MaxHeaderListSize is a connection error (pinned by the baseline's TestContinuationFlood). PARTIAL: full two-run non-interference for dropped in-flight frames stays a Definition (C09_noninterference_statement).",
   note=TB + SRV + "'Clean run' = every header-fragment step had a live write loop and emitted no GOAWAY/panic (after an error GOAWAY that lets the loop continue, skipped blocks do desynchronise the decoder - the connection is going away)."),
 "C01": dict(design="6/C01", technique="Coq proof (request assembly invariant under any interleaving/split/padding; response framing) + lockstep correspondence (random HPACK representations, splits, interleavings, completion orders)",
   text="Ten theorems: the request handed to the handler is exactly what the accepted field list spells (pseudo-header values, regular fields and trailers in order), DATA payloads are appended without padding, and in any clean run under any interleaving every stream's header state and body equal the replay of its own fragments and DATA frames (split invariance via the reference decoder); dispatch emits that request; a buffered response that fits the windows goes out as HEADERS (END_STREAM iff no body) then DATA chunks <= 16384 concatenating to the body with END_STREAM on the last; other streams untouched. PARTIAL: 'exactly one dispatch per request over the whole run' is proved as at-most-once (C17_dispatch_once) plus the per-step lemmas; the whole-run existence statement (C01_request_integrity_statement) and streamed/late-window response bodies beyond framing (C06_end_stream_once) are not closed theorems.",
   note=TB + SRV + "Response header lists are read back from the observed HEADERS frames (fasthttp is outside the model)."),
})

NA_REASON = "check not built yet in this commit (planned, DESIGN.md section 6); nothing is claimed until its theorems and correspondence run exist"

hooks = subprocess.check_output(["git","-C","/repo","log","--format=%h %s"]).decode().split("\n")
hook_commits = [l.split(" ")[0] for l in hooks if " verif:" in l]
man = {
 "version": 1,
 "setup_cmd": "./check setup",
 "hooks": {"guard": "verif", "enable": "go build -tags verif (the harness in /verif/harness links /repo through a replace directive)",
   "baseline_off_cmd": "cd /repo && GOFLAGS=-mod=mod GOPROXY=off go test -vet=off -count=1 -timeout 25m ./...",
   "source_commits": hook_commits, "add_only": False},
 "engines": [{"name": "coq-proof+correspondence", "path": "check", "serves_properties": sorted(CLAIMED),
   "kind_free_text": "Coq 8.16.1 theorems about an executable Gallina model; model tied to /repo by tables generated from the built package and by a differential run of the extracted model against the implementation"}],
 "checks": [], "notes": "see DESIGN.md. hooks.add_only is false for one line: AcquireHeaderField's `return pool.Get()` was split into three lines so the acquired object can be reported to the pool tracker; every other hook is an added line or an added file.",
 "not_applicable": [],
}
for p in props:
    i = p["id"]
    if i in CLAIMED:
        c = CLAIMED[i]
        man["checks"].append({
          "property_id": i, "quick_cmd": "./check %s --tier quick" % i, "thorough_cmd": "./check %s --tier thorough" % i,
          "evidence_file": "evidence/%s.json" % i, "replay_cmd_template": "./check replay {path}", "engine": "coq-proof+correspondence",
          "level_claimed": {"category": "proof", "text": c["text"], "design_ref": c["design"]},
          "level_note": c["note"], "technique": c["technique"]})
    else:
        man["not_applicable"].append({"property_id": i, "reason": NA_REASON})
json.dump(man, open('MANIFEST.json', 'w'), indent=1)
print("claimed:", sorted(CLAIMED))
