#!/usr/bin/env python3
"""Regenerate MANIFEST.json from the table below (run from /verif)."""
import json, subprocess

props = [json.loads(l) for l in open('properties.jsonl')]
TB = ("Trusted: Coq 8.16.1 kernel + vm_compute (no native_compute), no axioms (Print Assumptions per theorem is in the evidence); "
      "the hand-written Gallina model is tied to /repo by tables generated from the built package and by the differential run "
      "(extraction with ExtrOcamlBasic only, OCaml driver, Go harness with -tags verif); specs in coq/Spec are my transcription of the RFCs. ")

CLAIMED = {
 "C15": dict(design="6/C15", technique="Coq proof (induction + vm_compute finite table checks) + differential correspondence vs extracted model, spec and x/net",
   text="Seven theorems about the Gallina model of huffman.go hold for ALL byte strings: tables = RFC 7541 App. B and canonical/complete/prefix-free, encode = spec, decode accepts exactly spec encodings (strict padding/EOS), round-trip, totality, output bound. The model is re-tied to the code on every run (tables regenerated from the built package; HuffmanEncode/HuffmanDecode vs extracted model vs extracted spec vs x/net on ~28k inputs).",
   note=TB + "Modelled not verified: Go semantics of huffman.go (hand translation, uint8/uint32/uint64 wrap written out)."),
 "C03": dict(design="6/C03", technique="Coq proof (refinement of an RFC 7541 spec decoder, induction over block histories, split invariance) + differential correspondence vs extracted model, spec and x/net",
   text="Thirteen theorems over the model of hpack.go's decoder (readInt, readString, peek, addDynamic/shrink, nextField incl. the server's frame-by-frame loop): for all blocks and table states the decoder accepts exactly what the RFC 7541 spec decoder accepts and yields the same ordered (name, value, sensitive) triples and the same table; same over whole connection histories; HEADERS/CONTINUATION split at any byte does not change the result; the spec decodes everything its own encoder (all representation choices) emits; never panics, each step consumes input, output bounded. Correspondence: ~6.4k decoder histories/frames/malformed inputs per run vs extracted model, extracted spec and x/net.",
   note=TB + "Modelled not verified: Go semantics of hpack.go (uint32/uint64/int conversions written out). Statement bound: block_small (2*len b + 2*max settings + 64 < 2^32). Spec integer limit: at most 9 continuation octets (RFC 7541 5.1 allows an implementation limit)."),
 "C04": dict(design="6/C04", technique="Coq proof (per-field lemma + invariant over encoder histories: decoder table = abs(encoder table)) + differential correspondence incl. x/net decoding of emitted bytes",
   text="Eight theorems over the model of hpack.go's encoder (appendInt, appendString, search, AppendHeader, SetMaxTableSize): for every history of SetMaxTableSize / field(name, value, store, sensitive) / block boundaries and both Disable* flags, the spec decoder turns the emitted blocks back into exactly the same fields, its table equals the encoder's after every block with a field, the table never exceeds the peer's limit, size changes (smallest then final) are announced at the start of the next block, sensitive fields are never-indexed literals and not stored; integers/strings equal the RFC encoding; never panics. Correspondence: ~3.3k encoder histories per run, emitted bytes also decoded by x/net.",
   note=TB + "Modelled not verified: Go semantics of hpack.go. C04_search_sound needs the Go slice-length bound (dynamic table length < 2^63), proved necessary by C04_search_sound_needs_bound."),
 "C05": dict(design="6/C05", technique="Coq proof (spec_write/spec_parse inverse, model read/write = spec for all frames) + differential correspondence vs x/net Framer",
   text="Ten theorems over the model of frameHeader.go, frame.go, the ten frame files and http2utils: for all well-formed frames of the 10 types reading yields the view and consumes 9+len (reserved bits ignored, padding stripped); for all publicly buildable frame values, flags, stream ids and pad lengths the bytes written equal the RFC 7540 layout and parse back; writing twice is idempotent; SETTINGS carry the accessor state. Correspondence: ~143k read/write cases vs extracted model, extracted spec and x/net Framer.",
   note=TB + "Modelled not verified: Go semantics of the frame files; bufio.Reader as a byte list; AddPadding's random pad length is an oracle input read from the observed output. Forwarding a SETTINGS frame re-encodes state (C05_forward_faithful_refuted, outside the property's statement)."),
 "C16": dict(design="6/C16", technique="Coq proof (totality, soundness vs spec parser, truncation, structure rejection, pool linearity) + differential correspondence with the pool tracker hook",
   text="Eleven theorems over ARBITRARY bytes for the frame reader: never panics, Ok results are a correct reading of exactly 9+len consumed bytes within the limit, unknown types skipped whole, over-size refused before allocation, impossible fixed sizes/padding never returned, every strict prefix is an error, pool event log linear on every path, frame streams read back frame by frame. The HPACK half (no panic, progress, output bound for arbitrary bytes) is C03's next_field theorems. Correspondence: ~130k inputs (all prefixes of valid streams, all type/flag bytes, soups) incl. the pool tracker's verdict.",
   note=TB + "Modelled not verified: Go semantics; sync.Pool as an event log with an ownership automaton (Impl/Pools.v); allocation = requested buffer size."),
}
NA_REASON = "check not built yet in this commit (planned, DESIGN.md section 6); nothing is claimed until its theorems and correspondence run exist"

hooks = subprocess.check_output(["git","-C","/repo","log","--format=%h %s"]).decode().split("\n")
hook_commits = [l.split(" ")[0] for l in hooks if " verif:" in l]
man = {
 "version": 1,
 "setup_cmd": "./check setup",
 "hooks": {"guard": "verif", "enable": "go build -tags verif (the harness in /verif/harness links /repo through a replace directive)",
   "baseline_off_cmd": "cd /repo && GOFLAGS=-mod=mod GOPROXY=off go test -vet=off -count=1 -timeout 25m ./...",
   "source_commits": hook_commits, "add_only": False},
 "engines": [{"name": "coq-proof+correspondence", "path": "check", "serves_properties": sorted(CLAIMED),
   "kind_free_text": "Coq 8.16.1 theorems about an executable Gallina model; model tied to /repo by tables generated from the built package and by a differential run of the extracted model against the implementation"}],
 "checks": [], "notes": "see DESIGN.md. hooks.add_only is false for one line: AcquireHeaderField's `return pool.Get()` was split into three lines so the acquired object can be reported to the pool tracker; every other hook is an added line or an added file.",
 "not_applicable": [],
}
for p in props:
    i = p["id"]
    if i in CLAIMED:
        c = CLAIMED[i]
        man["checks"].append({
          "property_id": i, "quick_cmd": "./check %s --tier quick" % i, "thorough_cmd": "./check %s --tier thorough" % i,
          "evidence_file": "evidence/%s.json" % i, "replay_cmd_template": "./check replay {path}", "engine": "coq-proof+correspondence",
          "level_claimed": {"category": "proof", "text": c["text"], "design_ref": c["design"]},
          "level_note": c["note"], "technique": c["technique"]})
    else:
        man["not_applicable"].append({"property_id": i, "reason": NA_REASON})
json.dump(man, open('MANIFEST.json', 'w'), indent=1)
print("claimed:", sorted(CLAIMED))
