(* Spec/FlowLedger.v - RFC 7540 6.9 flow control as the ghost ledgers a peer keeps.
   No reference to the implementation model.

   SEND SIDE (property C06).  The peer of a DATA sender keeps, for the connection and for every stream it has
   opened, the window it has granted:
     connection:  65535 + sum of WINDOW_UPDATE(0) increments - DATA payload bytes sent
     stream sid:  the SETTINGS_INITIAL_WINDOW_SIZE in force (in frame order) when sid was opened
                  + sum of the deltas of later SETTINGS_INITIAL_WINDOW_SIZE changes (6.9.2; may drive it negative)
                  + sum of WINDOW_UPDATE(sid) increments - DATA payload bytes sent on sid.
   A history is a list of ledger events in the order in which they take effect at the sender.  `lvalid` says that
   every DATA frame fits both windows at the moment it is sent (6.9.1: "A sender MUST NOT send a flow-controlled
   frame with a length that exceeds the space available in either of the flow-control windows"); an empty DATA
   frame is always allowed (6.9: "Frames with zero length with the END_STREAM flag set ... MAY be sent if there
   is no available space").

   RECEIVE SIDE (property C14).  The sender of DATA sees its own send windows:
     initial + sum of the WINDOW_UPDATE increments the receiver sent - flow-controlled DATA lengths it sent
   (payload + padding, 6.9.1). *)
From Coq Require Import ZArith List Bool.
Import ListNotations.
Local Open Scope bool_scope.
Local Open Scope Z_scope.

Definition DEFAULT_WINDOW : Z := 65535.          (* 6.9.2 *)
Definition MAX_WINDOW : Z := 2147483647.         (* 2^31-1, 6.9.1 *)
Definition MIN_MAX_FRAME_SIZE : Z := 16384.      (* 6.5.2: the smallest SETTINGS_MAX_FRAME_SIZE a peer can announce *)

(* ---------- send side ---------- *)

Inductive levent : Type :=
| LInit (v : Z)                 (* the peer's SETTINGS_INITIAL_WINDOW_SIZE = v takes effect *)
| LOpen (sid : N)               (* the peer opens stream sid (first HEADERS); a no-op on a stream already open *)
| LGrant (sid : N) (inc : Z)    (* WINDOW_UPDATE; sid = 0: the connection *)
| LData (sid : N) (n : Z).      (* a DATA frame with n payload bytes is sent on sid *)

Record ledger : Type := mkLedger {
  l_init : Z;                   (* the initial stream window in force *)
  l_conn : Z;                   (* the connection window *)
  l_strm : N -> option Z        (* the window of every stream opened so far *)
}.

Definition ledger0 : ledger := mkLedger DEFAULT_WINDOW DEFAULT_WINDOW (fun _ => None).

Definition strm_upd (f : N -> option Z) (sid : N) (v : option Z) : N -> option Z :=
  fun x => if N.eqb x sid then v else f x.

Definition lstep (L : ledger) (e : levent) : ledger :=
  match e with
  | LInit v =>
    mkLedger v (l_conn L) (fun x => match l_strm L x with Some w => Some (w + (v - l_init L)) | None => None end)
  | LOpen sid =>
    match l_strm L sid with
    | Some _ => L
    | None => mkLedger (l_init L) (l_conn L) (strm_upd (l_strm L) sid (Some (l_init L)))
    end
  | LGrant sid inc =>
    if N.eqb sid 0 then mkLedger (l_init L) (l_conn L + inc) (l_strm L)
    else match l_strm L sid with
         | Some w => mkLedger (l_init L) (l_conn L) (strm_upd (l_strm L) sid (Some (w + inc)))
         | None => L    (* WINDOW_UPDATE on a stream that was never opened: a protocol error of the peer, grants nothing *)
         end
  | LData sid n =>
    mkLedger (l_init L) (l_conn L - n)
             (match l_strm L sid with Some w => strm_upd (l_strm L) sid (Some (w - n)) | None => l_strm L end)
  end.

Definition lrun (L : ledger) (evs : list levent) : ledger := fold_left lstep evs L.

(* what the sender may do in ledger state L *)
Definition lallowed (L : ledger) (e : levent) : Prop :=
  match e with
  | LData sid n =>
    exists w, l_strm L sid = Some w /\ (n = 0 \/ (0 < n /\ n <= l_conn L /\ n <= w))
  | _ => True
  end.

Fixpoint lvalid (L : ledger) (evs : list levent) : Prop :=
  match evs with
  | [] => True
  | e :: t => lallowed L e /\ lvalid (lstep L e) t
  end.

(* the totals of the property's text: granted and sent, as sums over the history *)
Fixpoint granted_conn (evs : list levent) : Z :=
  match evs with
  | [] => DEFAULT_WINDOW
  | LGrant sid inc :: t => (if N.eqb sid 0 then inc else 0) + granted_conn t
  | _ :: t => granted_conn t
  end.

Fixpoint sent_conn (evs : list levent) : Z :=
  match evs with
  | [] => 0
  | LData _ n :: t => n + sent_conn t
  | _ :: t => sent_conn t
  end.

Fixpoint sent_strm (sid : N) (evs : list levent) : Z :=
  match evs with
  | [] => 0
  | LData s n :: t => (if N.eqb s sid then n else 0) + sent_strm sid t
  | _ :: t => sent_strm sid t
  end.

(* granted on stream sid: `init` is the setting in force, `opened` whether sid is open already *)
Fixpoint granted_strm_from (sid : N) (init : Z) (opened : bool) (evs : list levent) : Z :=
  match evs with
  | [] => 0
  | LInit v :: t => (if opened then v - init else 0) + granted_strm_from sid v opened t
  | LOpen s :: t =>
    if N.eqb s sid && negb opened then init + granted_strm_from sid init true t
    else granted_strm_from sid init opened t
  | LGrant s inc :: t =>
    (if negb (N.eqb s 0) && N.eqb s sid && opened then inc else 0) + granted_strm_from sid init opened t
  | LData _ _ :: t => granted_strm_from sid init opened t
  end.
Definition granted_strm (sid : N) (evs : list levent) : Z := granted_strm_from sid DEFAULT_WINDOW false evs.

Fixpoint opened_in (sid : N) (evs : list levent) : bool :=
  match evs with
  | [] => false
  | LOpen s :: t => N.eqb s sid || opened_in sid t
  | _ :: t => opened_in sid t
  end.

(* C06 safety, totals form: at every moment at which DATA is sent, what has been sent (that frame included)
   is within what has been granted.  (Between two DATA frames a SETTINGS decrease can make `granted` smaller
   than `sent`: RFC 6.9.2 allows the window to go negative; the sender then has to wait.) *)
Definition within_grants (evs : list levent) : Prop :=
  forall pre sid n post, evs = pre ++ LData sid n :: post -> 0 < n ->
    sent_conn (pre ++ [LData sid n]) <= granted_conn pre /\
    sent_strm sid (pre ++ [LData sid n]) <= granted_strm sid pre.

(* ---------- receive side ---------- *)

Inductive revent : Type :=
| RCredit (sid : N) (inc : Z)   (* the receiver sends WINDOW_UPDATE(sid, inc); sid = 0: the connection *)
| RData (sid : N) (n : Z).      (* the peer sends DATA on sid whose flow-controlled length (payload + padding) is n *)

Fixpoint peer_conn_window (w0 : Z) (evs : list revent) : Z :=
  match evs with
  | [] => w0
  | RCredit sid inc :: t => peer_conn_window (if N.eqb sid 0 then w0 + inc else w0) t
  | RData _ n :: t => peer_conn_window (w0 - n) t
  end.

Fixpoint peer_strm_window (sid : N) (w0 : Z) (evs : list revent) : Z :=
  match evs with
  | [] => w0
  | RCredit s inc :: t => peer_strm_window sid (if N.eqb s sid then w0 + inc else w0) t
  | RData s n :: t => peer_strm_window sid (if N.eqb s sid then w0 - n else w0) t
  end.

(* 6.9.1: an increment of 0 is an error, and a window must not exceed 2^31-1 *)
Definition credit_ok (inc : Z) : Prop := 0 < inc <= MAX_WINDOW.
