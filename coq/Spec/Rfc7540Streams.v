(* RFC 7540 sections 5.1 (stream states), 5.1.1 (stream identifiers), 5.4 (error
   handling) and the receiving rules of 6.1-6.10, seen from a SERVER: for every frame a
   client can send, the set of reactions the RFC lets the server have.

   Independent of the implementation model: imports only Base and the generated
   error-code names.  A frame is abstracted to what the stream rules look at. *)
From H2V Require Import Base.Bytes Gen.GenConsts.
Local Open Scope N_scope.

(* ---------- frames, as far as the stream rules care ---------- *)

Inductive kind : Type :=
| DATA | HEADERS | PRIORITY | RST_STREAM | SETTINGS | PUSH_PROMISE | PING | GOAWAY | WINDOW_UPDATE | CONTINUATION.

Record frame : Type := mkF {
  f_kind : kind;
  f_sid : N;       (* stream identifier *)
  f_es : bool;     (* END_STREAM: defined on DATA and HEADERS only (4.1: other flags are ignored) *)
  f_eh : bool;     (* END_HEADERS: defined on HEADERS and CONTINUATION *)
  f_self : bool;   (* HEADERS priority section / PRIORITY frame makes the stream depend on itself (5.3.1) *)
  f_inc : N        (* WINDOW_UPDATE increment *)
}.

Inductive input : Type :=
| Frame (f : frame)
| UnknownType              (* a frame of a type this endpoint does not know (4.1) *)
| Malformed (code : N)     (* a frame breaking a size / padding rule of 4.2, 6.1-6.9, for which the RFC
                              names connection error `code` (FRAME_SIZE_ERROR or PROTOCOL_ERROR) *)
| Eof.                     (* the peer has closed the connection *)

(* ---------- reactions ---------- *)

Inductive reaction : Type :=
| Process                  (* the frame takes effect *)
| Ignore                   (* the frame is dropped; nothing is sent *)
| StreamErr (code : N)     (* RST_STREAM(code) on the frame's stream (5.4.2) *)
| ConnErr (code : N)       (* GOAWAY(code) (5.4.1) *)
| ConnClose.               (* the connection is closed without GOAWAY (5.4.1: GOAWAY is a SHOULD) *)

(* What the table lists.  SE c: stream error c.  CE c: connection error c.
   PE c: a reset the server decides on for reasons of its own (refusal, limits, cancellation). *)
Inductive verdict : Type := VProcess | VIgnore | SE (code : N) | CE (code : N) | PE (code : N).

(* 5.4.1/5.4.2 + the property: a stream error the peer caused may be escalated to the connection
   error of the same code; any connection error may be delivered by just closing.  A reset of the
   server's own stays a reset: nothing in it is the connection's fault. *)
Definition admits (v : verdict) (r : reaction) : bool :=
  match v, r with
  | VProcess, Process | VIgnore, Ignore => true
  | SE c, StreamErr c' | SE c, ConnErr c' | CE c, ConnErr c' | PE c, StreamErr c' => c =? c'
  | SE _, ConnClose | CE _, ConnClose => true
  | _, _ => false
  end.

(* ---------- state ---------- *)

Inductive why : Type :=
| PeerEnd     (* both sides sent END_STREAM *)
| PeerRst     (* the peer sent RST_STREAM *)
| WeRst       (* we sent RST_STREAM (error, refusal, cancellation) *)
| Implicit.   (* an idle id skipped by a higher one (5.1.1), or a closed stream we no longer remember *)

Inductive sstate : Type := Idle | Open | HalfClosedRemote | HalfClosedLocal | Closed (w : why).

Record state : Type := mkS {
  highest : N;                  (* highest stream id the peer has opened *)
  known : list (N * sstate);    (* streams a frame has moved out of "idle"; first binding wins *)
  block : option N;             (* a header block is open on this stream (6.2, 6.10) *)
  goaway : bool;                (* we have sent GOAWAY *)
  dead : bool                   (* we have signalled a connection error or closed *)
}.

Definition init : state := mkS 0 [] None false false.

Fixpoint lookup (l : list (N * sstate)) (id : N) : option sstate :=
  match l with
  | [] => None
  | (i, x) :: t => if i =? id then Some x else lookup t id
  end.

(* 5.1.1: client streams are odd; opening a stream closes every lower idle one.  This
   server never pushes, so even ids stay idle for ever. *)
Definition st_of (s : state) (id : N) : sstate :=
  if N.even id then Idle
  else match lookup (known s) id with
       | Some x => x
       | None => if id <=? highest s then Closed Implicit else Idle
       end.

Definition set_st (s : state) (id : N) (x : sstate) : state :=
  mkS (N.max (highest s) id) ((id, x) :: known s) (block s) (goaway s) (dead s).

(* ---------- the table ---------- *)

(* Resets a server may decide on for reasons of its own while a request is coming in:
   8.1.4 REFUSED_STREAM, 10.5 ENHANCE_YOUR_CALM, CANCEL, INTERNAL_ERROR, and 8.1.2.6
   PROTOCOL_ERROR for a malformed message (also 5.1.2 for the concurrency limit). *)
Definition policy : list verdict :=
  [PE c_RefusedStreamError; PE c_EnhanceYourCalm; PE c_StreamCanceled; PE c_InternalError; PE c_ProtocolError].

(* Any frame carrying a header block fragment: 4.3 decoding failure, 10.5.1 header list
   too large, 7 internal error, 8.1.2.6 malformed message (a stream error the peer caused,
   here escalated).  The block is decoded whatever happens to the stream. *)
Definition block_errors : list verdict :=
  [CE c_CompressionError; CE c_EnhanceYourCalm; CE c_InternalError; CE c_ProtocolError].

(* A closed stream of which nothing is remembered but that its id is not above the
   highest one: 5.1.1 PROTOCOL_ERROR, or the closed-stream rule's STREAM_CLOSED. *)
Definition unknown_closed : list verdict := [CE c_ProtocolError; CE c_StreamClosedError].

Definition priority_frame (f : frame) : list verdict :=      (* 5.3.1, 6.3: allowed in every state *)
  if f_self f then [SE c_ProtocolError] else [VProcess; VIgnore].

Definition window_update (f : frame) : list verdict :=       (* 6.9, 6.9.1 *)
  if f_inc f =? 0 then [SE c_ProtocolError] else [VProcess; SE c_FlowControlError].

(* the frame is for a stream and respects the header-block sequencing rule: section 5.1 *)
Definition by_state (s : state) (f : frame) : list verdict :=
  match st_of s (f_sid f), f_kind f with
  (* idle: HEADERS opens it, PRIORITY is fine, anything else is a connection error *)
  | Idle, HEADERS =>
    if N.even (f_sid f) then [CE c_ProtocolError]                        (* 5.1.1 *)
    else (if f_self f then [SE c_ProtocolError]                          (* 5.3.1 *)
          else if goaway s then [VIgnore] else [VProcess])               (* 6.8: no new streams after GOAWAY *)
         ++ policy ++ block_errors
  | Idle, PRIORITY => priority_frame f
  | Idle, _ => [CE c_ProtocolError]
  (* open, half-closed (local): everything may arrive *)
  | (Open | HalfClosedLocal), DATA => [VProcess; SE c_FlowControlError]
  | (Open | HalfClosedLocal), HEADERS =>                                (* trailers, 8.1 *)
    if negb (f_es f) || f_self f then [SE c_ProtocolError] else VProcess :: block_errors
  | (Open | HalfClosedLocal | HalfClosedRemote), CONTINUATION => VProcess :: block_errors
  | (Open | HalfClosedLocal | HalfClosedRemote), WINDOW_UPDATE => window_update f
  | (Open | HalfClosedLocal | HalfClosedRemote), PRIORITY => priority_frame f
  | (Open | HalfClosedLocal | HalfClosedRemote), RST_STREAM => [VProcess]
  (* half-closed (remote): only WINDOW_UPDATE, PRIORITY, RST_STREAM (and the CONTINUATIONs
     of the HEADERS that carried END_STREAM) *)
  | HalfClosedRemote, (DATA | HEADERS) => [SE c_StreamClosedError]
  (* closed *)
  | Closed _, PRIORITY => VIgnore :: (if f_self f then [SE c_ProtocolError] else [])
  | Closed _, CONTINUATION => VIgnore :: block_errors      (* the rest of a block whose HEADERS was answered *)
  | Closed Implicit, HEADERS => unknown_closed              (* 5.1.1: an id cannot be used again *)
  | Closed Implicit, _ => VIgnore :: unknown_closed         (* as if remembered, or an error *)
  | Closed _, RST_STREAM => [VIgnore]                       (* 6.4: never answered by RST_STREAM *)
  | Closed WeRst, HEADERS => VIgnore :: block_errors        (* we reset it: frames in flight are ignored *)
  | Closed WeRst, _ => [VIgnore]
  | Closed PeerRst, _ => [SE c_StreamClosedError]
  | Closed PeerEnd, WINDOW_UPDATE => [VIgnore]
  | Closed PeerEnd, _ => [CE c_StreamClosedError; SE c_StreamClosedError]
  | _, _ => [CE c_ProtocolError]       (* SETTINGS PING GOAWAY PUSH_PROMISE: filtered out before *)
  end.

(* a stream that is not closed can be reset for the server's own reasons at any moment,
   except in answer to RST_STREAM (6.4) *)
Definition on_stream (s : state) (f : frame) : list verdict :=
  by_state s f ++
  match st_of s (f_sid f), f_kind f with
  | _, RST_STREAM => []
  | (Open | HalfClosedLocal | HalfClosedRemote), _ => policy
  | _, _ => []
  end.

(* frames on stream 0 *)
Definition on_connection (f : frame) : list verdict :=
  match f_kind f with
  | SETTINGS => [VProcess; CE c_FlowControlError]      (* 6.5.2/6.9.2: the new initial window overflows a stream *)
  | PING => [VProcess]
  | GOAWAY => [VProcess; CE c_NoError]                 (* 6.8: the peer leaves; we may close *)
  | WINDOW_UPDATE => if f_inc f =? 0 then [CE c_ProtocolError] else [VProcess; CE c_FlowControlError]
  | _ => [CE c_ProtocolError]                          (* 6.1-6.4, 6.6, 6.10 *)
  end.

Definition verdicts (s : state) (i : input) : list verdict :=
  match i with
  | Malformed code => [CE code]
  | Eof => [CE c_NoError]                                                                      (* we close as well *)
  | UnknownType => match block s with Some _ => [CE c_ProtocolError] | None => [VIgnore] end    (* 4.1, 6.2 *)
  | Frame f =>
    match block s, f_kind f with
    | Some b, CONTINUATION => if f_sid f =? b then on_stream s f else [CE c_ProtocolError]
    | Some _, _ => [CE c_ProtocolError]                                  (* 6.2 *)
    | None, CONTINUATION => [CE c_ProtocolError]                         (* 6.10 *)
    | None, _ =>
      if f_sid f =? 0 then on_connection f
      else match f_kind f with
           | SETTINGS | PING | GOAWAY | PUSH_PROMISE => [CE c_ProtocolError]   (* 6.5, 6.7, 6.8, 8.2 *)
           | _ => on_stream s f
           end
    end
  end.

(* Once we have signalled a connection error the connection is over (5.4.1: the endpoint
   MUST close it): how further frames are turned down no longer matters - but nothing
   the table does not allow may take effect or be silently dropped. *)
Definition is_error (r : reaction) : bool := match r with Process | Ignore => false | _ => true end.

Definition allowed (s : state) (i : input) (r : reaction) : bool :=
  existsb (fun v => admits v r) (verdicts s i)
  || (dead s && is_error r)
  || (goaway s && match r with ConnClose => true | _ => false end).   (* 6.8: we announced we are leaving *)

(* ---------- transitions ---------- *)

(* 5.1: what a frame the peer sent does to its stream when it takes effect *)
Definition receive (x : sstate) (f : frame) : sstate :=
  match x, f_kind f with
  | Idle, HEADERS => if f_es f then HalfClosedRemote else Open
  | Open, (DATA | HEADERS) => if f_es f then HalfClosedRemote else Open
  | HalfClosedLocal, (DATA | HEADERS) => if f_es f then Closed PeerEnd else HalfClosedLocal
  | (Open | HalfClosedLocal | HalfClosedRemote), RST_STREAM => Closed PeerRst
  | _, _ => x
  end.

(* 5.1: what our RST_STREAM does (6.3: a PRIORITY frame leaves an idle stream idle) *)
Definition reset (x : sstate) (f : frame) : sstate :=
  match x, f_kind f with
  | Idle, HEADERS => Closed WeRst
  | (Open | HalfClosedLocal | HalfClosedRemote), _ => Closed WeRst
  | _, _ => x
  end.

Definition upd_st (s : state) (id : N) (x : sstate) : state :=
  match st_of s id, x with
  | Idle, Idle => s
  | _, _ => set_st s id x
  end.

Definition with_block (s : state) (b : option N) : state := mkS (highest s) (known s) b (goaway s) (dead s).

(* 6.2, 6.10: a HEADERS frame outside a header block, or the CONTINUATION the open block expects *)
Definition in_sequence (s : state) (f : frame) : bool :=
  match f_kind f, block s with
  | HEADERS, None => true
  | CONTINUATION, Some b => f_sid f =? b
  | _, _ => false
  end.

Definition die (s : state) : state := mkS (highest s) (known s) (block s) true true.

Definition spec_next (s : state) (i : input) (r : reaction) : state :=
  match i with
  | Frame f =>
    (* 4.3: a header block stays open until END_HEADERS, whatever became of its stream *)
    let s1 := if in_sequence s f then with_block s (if f_eh f then None else Some (f_sid f)) else s in
    let x := st_of s (f_sid f) in
    match r with
    | Process => if f_sid f =? 0 then s1 else upd_st s1 (f_sid f) (receive x f)
    | StreamErr _ => if f_sid f =? 0 then s1 else upd_st s1 (f_sid f) (reset x f)
    | Ignore => s1
    | ConnErr _ | ConnClose => die s1
    end
  | _ => match r with ConnErr _ | ConnClose => die s | _ => s end
  end.

(* what we send on our own account (responses, cancellations, shutdown) *)
Inductive sent : Type := SentEndStream (sid : N) | SentRst (sid : N) | SentGoAway | Closed_connection.

Definition spec_sent (s : state) (o : sent) : state :=
  match o with
  | SentEndStream id =>
    match st_of s id with
    | Open => set_st s id HalfClosedLocal
    | HalfClosedRemote => set_st s id (Closed PeerEnd)
    | _ => s
    end
  | SentRst id =>
    match st_of s id with
    | Open | HalfClosedLocal | HalfClosedRemote => set_st s id (Closed WeRst)
    | _ => s
    end
  | SentGoAway => mkS (highest s) (known s) (block s) true (dead s)
  | Closed_connection => die s
  end.

(* 5.1 "closed": an endpoint may limit the period over which it remembers how a stream
   was closed ("treat frames that arrive after this time as being in error"). *)
Definition forget (s : state) (id : N) : state :=
  match st_of s id with
  | Closed _ => set_st s id (Closed Implicit)
  | _ => s
  end.

(* ---------- legal sequences ---------- *)

(* A sequence the RFC lets a client send, whatever the server answers short of an error:
   every frame may take effect in the state the earlier ones produced.  Per stream this is
   PRIORITY* HEADERS CONTINUATION* (DATA | WINDOW_UPDATE | PRIORITY)* [HEADERS(END_STREAM) CONTINUATION*]
   (WINDOW_UPDATE | PRIORITY)*, cut short by RST_STREAM at any point after HEADERS, with odd
   increasing ids and contiguous header blocks. *)
Definition may_process (s : state) (i : input) : bool := existsb (fun v => admits v Process) (verdicts s i).

Fixpoint legal_from (s : state) (fs : list frame) : bool :=
  match fs with
  | [] => true
  | f :: t => may_process s (Frame f) && legal_from (spec_next s (Frame f) Process) t
  end.

Definition legal (fs : list frame) : bool := legal_from init fs.

(* The frames of one request as the RFC's section 8.1 has them: one HEADERS, its
   CONTINUATIONs, DATA frames, optionally a trailer block, END_STREAM on the last DATA or
   on the HEADERS of the last block, END_HEADERS closing each block; PRIORITY and
   WINDOW_UPDATE frames anywhere after the first block do not count. *)
Inductive phase : Type :=
| PStart              (* nothing but PRIORITY frames so far *)
| PHead (es : bool)   (* inside a header block; es: its HEADERS frame carried END_STREAM *)
| PBody               (* request headers complete, END_STREAM not seen *)
| PDone               (* complete *)
| PBad.

Definition request_step (p : phase) (f : frame) : phase :=
  match p, f_kind f with
  | PStart, PRIORITY => PStart
  | PStart, HEADERS => if f_eh f then (if f_es f then PDone else PBody) else PHead (f_es f)
  | PHead es, CONTINUATION => if f_eh f then (if es then PDone else PBody) else PHead es
  | PBody, DATA => if f_es f then PDone else PBody
  | PBody, HEADERS => if f_es f then (if f_eh f then PDone else PHead true) else PBad   (* trailers *)
  | (PBody | PDone), (PRIORITY | WINDOW_UPDATE) => p
  | _, _ => PBad
  end.

Definition complete_request (fs : list frame) : bool :=
  match fold_left request_step fs PStart with PDone => true | _ => false end.
