(* RFC 7540 section 4.1 (frame format) and 6.1-6.10 (the ten frame types), as a
   specification of the wire layout: an AST with every field the RFC defines, a writer,
   a parser, and the RFC's view of a frame reader. Contains no reference to the
   implementation model and no generated constant: every number is the RFC's. *)
From H2V Require Import Base.Bytes.
Local Open Scope N_scope.

(* ---- integers in network byte order ---- *)

(* the n low-order octets of x, most significant first *)
Fixpoint be (n : nat) (x : N) : bytes :=
  match n with
  | O => []
  | S n' => (x / 256 ^ N.of_nat n') mod 256 :: be n' x
  end.

Definition unbe (bs : bytes) : N := fold_left (fun a b => a * 256 + b) bs 0.

(* a 32-bit word made of one leading bit (R or E) and a 31-bit value *)
Definition word31 (r : bool) (v : N) : N := (if r then 2 ^ 31 else 0) + v.
Definition top_bit (x : N) : bool := 2 ^ 31 <=? x.
Definition low31 (x : N) : N := x mod 2 ^ 31.

(* ---- flags (bit numbers within the flags octet) ---- *)
Definition flag (fl bit : N) : bool := N.testbit fl bit.
Definition END_STREAM : N := 0.   (* 0x1  DATA, HEADERS *)
Definition ACK : N := 0.          (* 0x1  SETTINGS, PING *)
Definition END_HEADERS : N := 2.  (* 0x4  HEADERS, PUSH_PROMISE, CONTINUATION *)
Definition PADDED : N := 3.       (* 0x8  DATA, HEADERS, PUSH_PROMISE *)
Definition PRIORITY_FLAG : N := 5.  (* 0x20 HEADERS *)

(* ---- frames ---- *)

Record priority := mkPrio { p_excl : bool; p_dep : N; p_weight : N }.

(* Padding: None = the PADDED flag is clear; Some p = Pad Length is |p| and p are the
   padding octets (the RFC wants zeros from a sender, a receiver need not verify). *)
Inductive payload :=
| Data (pad : option bytes) (data : bytes)                                   (* 6.1  type 0 *)
| Headers (pad : option bytes) (prio : option priority) (frag : bytes)       (* 6.2  type 1 *)
| Priority (p : priority)                                                    (* 6.3  type 2 *)
| RstStream (code : N)                                                       (* 6.4  type 3 *)
| Settings (items : list (N * N))                                            (* 6.5  type 4 *)
| PushPromise (pad : option bytes) (rsv : bool) (promised : N) (frag : bytes) (* 6.6 type 5 *)
| Ping (data : bytes)                                                        (* 6.7  type 6 *)
| GoAway (rsv : bool) (last : N) (code : N) (debug : bytes)                  (* 6.8  type 7 *)
| WindowUpdate (rsv : bool) (incr : N)                                       (* 6.9  type 8 *)
| Continuation (frag : bytes).                                               (* 6.10 type 9 *)

(* 4.1: Length(24) Type(8) Flags(8) R(1) Stream Identifier(31) payload *)
Record frame := mkFrame { f_flags : N; f_rsv : bool; f_stream : N; f_body : payload }.

Definition type_code (b : payload) : N :=
  match b with
  | Data _ _ => 0 | Headers _ _ _ => 1 | Priority _ => 2 | RstStream _ => 3 | Settings _ => 4
  | PushPromise _ _ _ _ => 5 | Ping _ => 6 | GoAway _ _ _ _ => 7 | WindowUpdate _ _ => 8
  | Continuation _ => 9
  end.

(* ---- writer ---- *)

Definition with_pad (pad : option bytes) (content : bytes) : bytes :=
  match pad with
  | None => content
  | Some p => len p :: content ++ p
  end.

Definition prio_bytes (p : priority) : bytes := be 4 (word31 (p_excl p) (p_dep p)) ++ [p_weight p].

Definition setting_bytes (kv : N * N) : bytes := be 2 (fst kv) ++ be 4 (snd kv).

Definition payload_bytes (b : payload) : bytes :=
  match b with
  | Data pad d => with_pad pad d
  | Headers pad prio frag =>
      with_pad pad ((match prio with Some p => prio_bytes p | None => [] end) ++ frag)
  | Priority p => prio_bytes p
  | RstStream code => be 4 code
  | Settings items => flat_map setting_bytes items
  | PushPromise pad r promised frag => with_pad pad (be 4 (word31 r promised) ++ frag)
  | Ping d => d
  | GoAway r last code debug => be 4 (word31 r last) ++ be 4 code ++ debug
  | WindowUpdate r incr => be 4 (word31 r incr)
  | Continuation frag => frag
  end.

Definition payload_len (f : frame) : N := len (payload_bytes (f_body f)).

Definition header_bytes (length ty fl : N) (r : bool) (sid : N) : bytes :=
  be 3 length ++ [ty; fl] ++ be 4 (word31 r sid).

Definition spec_write (f : frame) : bytes :=
  header_bytes (payload_len f) (type_code (f_body f)) (f_flags f) (f_rsv f) (f_stream f)
  ++ payload_bytes (f_body f).

(* ---- well-formed frames: every field fits its width, and the flags that announce an
   optional section agree with the presence of that section ---- *)

Definition wf_pad (fl : N) (pad : option bytes) : Prop :=
  match pad with
  | None => flag fl PADDED = false
  | Some p => flag fl PADDED = true /\ bytes_ok p = true /\ len p < 256
  end.

Definition wf_prio (p : priority) : Prop := p_dep p < 2 ^ 31 /\ p_weight p < 256.

Definition wf_setting (kv : N * N) : Prop := fst kv < 2 ^ 16 /\ snd kv < 2 ^ 32.

Definition wf_body (fl : N) (b : payload) : Prop :=
  match b with
  | Data pad d => wf_pad fl pad /\ bytes_ok d = true
  | Headers pad prio frag =>
      wf_pad fl pad /\ bytes_ok frag = true /\
      match prio with
      | None => flag fl PRIORITY_FLAG = false
      | Some p => flag fl PRIORITY_FLAG = true /\ wf_prio p
      end
  | Priority p => wf_prio p
  | RstStream code => code < 2 ^ 32
  | Settings items => Forall wf_setting items /\ (flag fl ACK = true -> items = [])
  | PushPromise pad _ promised frag => wf_pad fl pad /\ promised < 2 ^ 31 /\ bytes_ok frag = true
  | Ping d => bytes_ok d = true /\ len d = 8
  | GoAway _ last code debug => last < 2 ^ 31 /\ code < 2 ^ 32 /\ bytes_ok debug = true
  | WindowUpdate _ incr => incr < 2 ^ 31
  | Continuation frag => bytes_ok frag = true
  end.

Definition wf (f : frame) : Prop :=
  f_flags f < 256 /\ f_stream f < 2 ^ 31 /\ payload_len f < 2 ^ 24 /\ wf_body (f_flags f) (f_body f).

(* ---- parser ---- *)

(* 6.1: "Pad Length ... If the length of the padding is the length of the frame payload
   or greater, the recipient MUST treat this as a connection error". q is the payload
   after the Pad Length octet. *)
Definition unpad (fl : N) (p : bytes) : option (option bytes * bytes) :=
  if flag fl PADDED then
    match p with
    | [] => None
    | pl :: q =>
        if pl <=? len q then Some (Some (dropN (len q - pl) q), takeN (len q - pl) q) else None
    end
  else Some (None, p).

Definition parse_prio (a b c d w : N) : priority :=
  let x := unbe [a; b; c; d] in mkPrio (top_bit x) (low31 x) w.

(* 6.5: a sequence of 6-octet (identifier, value) pairs; any other length is a FRAME_SIZE_ERROR *)
Fixpoint parse_settings (p : bytes) : option (list (N * N)) :=
  match p with
  | [] => Some []
  | k1 :: k0 :: v3 :: v2 :: v1 :: v0 :: rest =>
      match parse_settings rest with
      | Some items => Some ((unbe [k1; k0], unbe [v3; v2; v1; v0]) :: items)
      | None => None
      end
  | _ => None
  end.

Definition parse_payload (ty fl : N) (p : bytes) : option payload :=
  match ty with
  | 0 => match unpad fl p with Some (pad, d) => Some (Data pad d) | None => None end
  | 1 =>
      match unpad fl p with
      | None => None
      | Some (pad, c) =>
          if flag fl PRIORITY_FLAG then
            match c with
            | a :: b :: c' :: d :: w :: frag => Some (Headers pad (Some (parse_prio a b c' d w)) frag)
            | _ => None
            end
          else Some (Headers pad None c)
      end
  | 2 => match p with [a; b; c; d; w] => Some (Priority (parse_prio a b c d w)) | _ => None end
  | 3 => match p with [a; b; c; d] => Some (RstStream (unbe [a; b; c; d])) | _ => None end
  | 4 =>
      if flag fl ACK && negb (len p =? 0) then None
      else match parse_settings p with Some items => Some (Settings items) | None => None end
  | 5 =>
      match unpad fl p with
      | Some (pad, a :: b :: c :: d :: frag) =>
          let x := unbe [a; b; c; d] in Some (PushPromise pad (top_bit x) (low31 x) frag)
      | _ => None
      end
  | 6 => if len p =? 8 then Some (Ping p) else None
  | 7 =>
      match p with
      | a :: b :: c :: d :: e :: f :: g :: h :: debug =>
          let x := unbe [a; b; c; d] in Some (GoAway (top_bit x) (low31 x) (unbe [e; f; g; h]) debug)
      | _ => None
      end
  | 8 =>
      match p with
      | [a; b; c; d] => let x := unbe [a; b; c; d] in Some (WindowUpdate (top_bit x) (low31 x))
      | _ => None
      end
  | 9 => Some (Continuation p)
  | _ => None
  end.

(* the 9-octet header: (length, type, flags, R, stream id, what follows the header) *)
Definition parse_header (b : bytes) : option (N * N * N * bool * N * bytes) :=
  match b with
  | l2 :: l1 :: l0 :: ty :: fl :: s3 :: s2 :: s1 :: s0 :: rest =>
      let x := unbe [s3; s2; s1; s0] in
      Some (unbe [l2; l1; l0], ty, fl, top_bit x, low31 x, rest)
  | _ => None
  end.

(* one frame off the front of a byte string; None = not a (complete, structurally
   possible) frame of one of the ten types *)
Definition spec_parse (b : bytes) : option (frame * bytes) :=
  match parse_header b with
  | None => None
  | Some (n, ty, fl, r, sid, rest) =>
      if n <=? len rest then
        match parse_payload ty fl (takeN n rest) with
        | Some body => Some (mkFrame fl r sid body, dropN n rest)
        | None => None
        end
      else None
  end.

(* ---- the RFC's view of a reader with receive limit SETTINGS_MAX_FRAME_SIZE = limit ---- *)

Inductive outcome :=
| Short                       (* the input ends inside the header or inside the announced payload *)
| TooLarge                    (* 4.2: length above the limit: FRAME_SIZE_ERROR *)
| UnknownType (used : N)      (* 4.1: "implementations MUST ignore and discard any frame that has a type that is unknown" *)
| Malformed (used : N)        (* impossible fixed size / padding: FRAME_SIZE_ERROR or PROTOCOL_ERROR *)
| Frame (f : frame) (used : N).

Definition spec_read (limit : N) (b : bytes) : outcome :=
  match parse_header b with
  | None => Short
  | Some (n, ty, fl, r, sid, rest) =>
      if limit <? n then TooLarge
      else if len rest <? n then Short
      else if 9 <? ty then UnknownType (9 + n)
      else match parse_payload ty fl (takeN n rest) with
           | Some body => Frame (mkFrame fl r sid body) (9 + n)
           | None => Malformed (9 + n)
           end
  end.

(* ---- 6.5.2: defined SETTINGS parameters ---- *)

(* values that are a connection error whatever the state of the connection *)
Definition setting_valid (kv : N * N) : bool :=
  match fst kv with
  | 2 => snd kv <=? 1                                   (* ENABLE_PUSH: 0 or 1 *)
  | 4 => snd kv <=? 2 ^ 31 - 1                          (* INITIAL_WINDOW_SIZE *)
  | 5 => (2 ^ 14 <=? snd kv) && (snd kv <=? 2 ^ 24 - 1) (* MAX_FRAME_SIZE *)
  | _ => true
  end.

Definition settings_valid (b : payload) : bool :=
  match b with
  | Settings items => forallb setting_valid items
  | _ => true
  end.

(* what a peer knows after receiving the parameters: a SETTINGS frame changes only the
   parameters it lists, in order; unknown identifiers are ignored; a parameter never
   sent keeps its initial value *)
Record params := mkParams {
  header_table_size : N; enable_push : N; max_concurrent_streams : option N;
  initial_window_size : N; max_frame_size : N; max_header_list_size : option N }.

Definition initial_params : params := mkParams 4096 1 None 65535 16384 None.

Definition apply_setting (ps : params) (kv : N * N) : params :=
  let '(mkParams a b c d e f) := ps in
  match fst kv with
  | 1 => mkParams (snd kv) b c d e f
  | 2 => mkParams a (snd kv) c d e f
  | 3 => mkParams a b (Some (snd kv)) d e f
  | 4 => mkParams a b c (snd kv) e f
  | 5 => mkParams a b c d (snd kv) f
  | 6 => mkParams a b c d e (Some (snd kv))
  | _ => ps
  end.

Definition apply_settings (ps : params) (items : list (N * N)) : params :=
  fold_left apply_setting items ps.

(* ---- payloads that cannot be a frame of their type (4.2, 6.1-6.9): a fixed size that is
   not met, or padding that does not fit ---- *)

Definition pad_impossible (p : bytes) : Prop :=
  match p with
  | [] => True                 (* no Pad Length octet *)
  | pl :: q => len q < pl      (* padding as long as the rest of the payload, or longer *)
  end.

Definition impossible (ty fl : N) (p : bytes) : Prop :=
  (ty = 2 /\ len p <> 5) \/                                      (* PRIORITY *)
  (ty = 3 /\ len p <> 4) \/                                      (* RST_STREAM *)
  (ty = 4 /\ (len p mod 6 <> 0 \/ (flag fl ACK = true /\ len p <> 0))) \/   (* SETTINGS *)
  (ty = 6 /\ len p <> 8) \/                                      (* PING *)
  (ty = 7 /\ len p < 8) \/                                       (* GOAWAY *)
  (ty = 8 /\ len p <> 4) \/                                      (* WINDOW_UPDATE *)
  ((ty = 0 \/ ty = 1 \/ ty = 5) /\ flag fl PADDED = true /\ pad_impossible p) \/
  (ty = 5 /\ exists pad c, unpad fl p = Some (pad, c) /\ len c < 4) \/      (* no room for the promised id *)
  (ty = 1 /\ flag fl PRIORITY_FLAG = true /\ exists pad c, unpad fl p = Some (pad, c) /\ len c < 5).
