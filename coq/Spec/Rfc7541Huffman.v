(* RFC 7541 section 5.2 and Appendix B: the static Huffman code, as a specification.
   Contains no reference to the implementation model. *)
From H2V Require Import Base.Bytes Spec.XNetTables.
Local Open Scope N_scope.

(* the n low bits of code, most significant first *)
Definition bits_of (n : nat) (code : N) : list bool :=
  map (fun i => N.testbit code (N.of_nat i)) (rev (seq 0 n)).

Definition rfc_len (sym : N) : N := nth (N.to_nat sym) rfc_code_len 0.
Definition rfc_code (sym : N) : N := nth (N.to_nat sym) rfc_codes 0.

Definition code_bits (sym : N) : list bool := bits_of (N.to_nat (rfc_len sym)) (rfc_code sym).

(* eight bits, most significant first, as a byte *)
Definition byte_of_bits (bs : list bool) : N :=
  fold_left (fun acc (b : bool) => 2 * acc + (if b then 1 else 0)) bs 0.

(* pack a bit string whose length is a multiple of 8 (a shorter tail is dropped;
   spec_encode never produces one) *)
Fixpoint pack (fuel : nat) (bs : list bool) : bytes :=
  match fuel with
  | O => []
  | S fuel' =>
    match bs with
    | b0 :: b1 :: b2 :: b3 :: b4 :: b5 :: b6 :: b7 :: rest =>
        byte_of_bits [b0; b1; b2; b3; b4; b5; b6; b7] :: pack fuel' rest
    | _ => []
    end
  end.

Definition pad_len (n : nat) : nat := (8 - n mod 8) mod 8.

Definition code_string (s : bytes) : list bool := flat_map code_bits s.

(* "the Huffman code of each octet, concatenated, padded with the most significant
   bits of EOS (all ones) to the next octet boundary" *)
Definition spec_encode (s : bytes) : bytes :=
  let bs := code_string s in
  let padded := bs ++ repeat true (pad_len (length bs)) in
  pack (length padded) padded.

(* A byte string b is a valid Huffman encoding of s. Because total length is a multiple
   of 8 the padding is < 8 bits, all ones; RFC 7541 5.2: longer padding, padding that is
   not EOS-prefix, and an encoded EOS are decoding errors. *)
Definition spec_valid (b s : bytes) : Prop := bytes_ok s = true /\ spec_encode s = b.

(* ---- what "the table is the RFC 7541 Appendix B code" means (used by C15_table_is_rfc) ---- *)

Definition is_prefix (a b : list bool) : Prop := exists r, b = a ++ r.

Definition eos_bits : list bool := bits_of (N.to_nat rfc_eos_len) rfc_eos_code.

(* all 257 code words: symbols 0..255, then EOS *)
Definition code_words : list (list bool) :=
  map (fun i => code_bits (N.of_nat i)) (seq 0 256) ++ [eos_bits].

(* no code word is a prefix of a different one *)
Definition prefix_free (ws : list (list bool)) : Prop :=
  forall i j a b, nth_error ws i = Some a -> nth_error ws j = Some b -> is_prefix a b -> i = j.

(* Kraft sum of a length vector, scaled by 2^30 (every length is <= 30) *)
Definition kraft_sum (lens : list N) : N := fold_right (fun l acc => 2 ^ (30 - l) + acc) 0 lens.

(* Canonical Huffman code of a length vector: symbols are ordered by (length, symbol);
   the code word of s, left-aligned in 30 bits, is the sum of the widths 2^(30-len) of all
   symbols that precede s. *)
Definition precedes (lens : list N) (t s : nat) : bool :=
  let lt := nth t lens 0 in let ls := nth s lens 0 in
  (lt <? ls) || ((lt =? ls) && (t <? s)%nat).

Definition canonical_code (lens : list N) (s : nat) : N :=
  N.shiftr
    (fold_right (fun t acc => if precedes lens t s then 2 ^ (30 - nth t lens 0) + acc else acc)
                0 (seq 0 (length lens)))
    (30 - nth s lens 0).

Definition is_canonical (codes lens : list N) : Prop :=
  forallb (fun l => (1 <=? l) && (l <=? 30)) lens = true /\
  codes = map (canonical_code lens) (seq 0 (length lens)).

(* the RFC table with EOS appended as symbol 256 *)
Definition rfc_codes_eos : list N := rfc_codes ++ [rfc_eos_code].
Definition rfc_lens_eos : list N := rfc_code_len ++ [rfc_eos_len].
