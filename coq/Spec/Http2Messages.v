(* RFC 7540 section 8.1.2 - 8.1.2.6: when is an HTTP/2 REQUEST well formed?

   Independent of the implementation model: imports only Base.Bytes.

   A request, as the server receives it, is
     - its header list: the fields of the first header block IN ORDER, pseudo-header fields
       included (a field is a (name, value) pair of octet strings, as HPACK hands them over),
     - its trailer list: the fields of the second header block, if there is one ([] otherwise),
     - the number of octets received in its DATA frames (padding excluded).

   [wf_request fields trailers datalen] is the conjunction of the MUSTs of 8.1.2 whose violation makes
   a request "malformed" (8.1.2.6: to be treated as a stream error of type PROTOCOL_ERROR):

     8.1.2    field names are lower case                                         names_lower_case
     8.1.2.1  only the request pseudo-header fields of 8.1.2.3 occur             pseudo_defined
              pseudo-header fields come before every regular field               pseudo_first
              no pseudo-header field in trailers                                 (no_pseudo trailers)
     8.1.2.2  no connection-specific field; TE, if present, says "trailers"      no_connection_fields, te_ok
     8.1.2.3  exactly one :method, :scheme and :path; :path is not empty;
              (hence, with pseudo_defined) no pseudo-header field twice          once / at_most_once
     8.1.2.6  every content-length field is a decimal number equal to the total
              length of the DATA payloads                                        content_length_ok

   Out of scope (the property this file serves leaves them out):
     - CONNECT requests (8.3: no :scheme / :path, :authority mandatory). A list whose :method is
       CONNECT is judged by the rules above like any other.
     - octets outside the HTTP grammar: names that are not tokens (the empty name included), values that
       are not field-content (RFC 7230 3.2), a :path that is not a request-target, an :authority with
       userinfo. Names and values are arbitrary octet strings here and only the rules above are applied.
     - an :authority that disagrees with a Host field; Cookie splitting (8.1.2.5): not malformedness.
     - policy: a server may ADDITIONALLY refuse a well-formed request that is larger than it cares to
       handle (SETTINGS_MAX_HEADER_LIST_SIZE 6.5.2 / 10.5.1, a body-size limit); such limits are not part
       of well-formedness and are not expressed here. *)
From H2V Require Import Base.Bytes.
From Coq Require Import String Ascii.
Local Open Scope N_scope.

Definition field : Type := (bytes * bytes)%type.   (* name, value *)

Fixpoint octets (s : string) : bytes :=
  match s with
  | EmptyString => []
  | String a r => N_of_ascii a :: octets r
  end.

Definition has_name (n : bytes) (f : field) : bool := bytes_eqb (fst f) n.
Definition name_in (l : list bytes) (f : field) : bool := existsb (fun n => has_name n f) l.
Definition occurrences (n : bytes) (fs : list field) : nat := List.length (filter (has_name n) fs).

(* ---- 8.1.2: "header field names MUST be converted to lowercase prior to their encoding" ---- *)
Definition upper_case_octet (c : N) : bool := (65 <=? c) && (c <=? 90).         (* 'A' .. 'Z' *)
Definition lower_case (name : bytes) : bool := negb (existsb upper_case_octet name).

(* ---- 8.1.2.1: pseudo-header fields: the name starts with ':' ---- *)
Definition is_pseudo (f : field) : bool := match fst f with 58 :: _ => true | _ => false end.

(* 8.1.2.3: the pseudo-header fields defined for requests *)
Definition P_method : bytes := octets ":method".
Definition P_scheme : bytes := octets ":scheme".
Definition P_authority : bytes := octets ":authority".
Definition P_path : bytes := octets ":path".
Definition request_pseudo : list bytes := [P_method; P_scheme; P_authority; P_path].

(* "Endpoints MUST NOT generate pseudo-header fields other than those defined in this document";
   "pseudo-header fields defined for responses MUST NOT appear in requests" *)
Definition pseudo_defined (fs : list field) : bool :=
  forallb (fun f => if is_pseudo f then name_in request_pseudo f else true) fs.

(* "All pseudo-header fields MUST appear in the header block before regular header fields" *)
Fixpoint pseudo_first (fs : list field) : bool :=
  match fs with
  | [] => true
  | f :: rest => if is_pseudo f then pseudo_first rest else negb (existsb is_pseudo rest)
  end.

(* "Pseudo-header fields MUST NOT appear in trailers" *)
Definition no_pseudo (fs : list field) : bool := negb (existsb is_pseudo fs).

(* ---- 8.1.2.2: connection-specific header fields ---- *)
Definition connection_specific : list bytes :=
  [octets "connection"; octets "keep-alive"; octets "proxy-connection"; octets "transfer-encoding"; octets "upgrade"].

Definition no_connection_fields (fs : list field) : bool := negb (existsb (name_in connection_specific) fs).

(* "The only exception to this is the TE header field, which MAY be present in an HTTP/2 request;
   when it is, it MUST NOT contain any value other than "trailers"" *)
Definition H_te : bytes := octets "te".
Definition V_trailers : bytes := octets "trailers".
Definition te_ok (fs : list field) : bool :=
  forallb (fun f => if has_name H_te f then bytes_eqb (snd f) V_trailers else true) fs.

(* ---- 8.1.2.3: "All HTTP/2 requests MUST include exactly one valid value for the :method, :scheme,
   and :path pseudo-header fields"; ":path ... MUST NOT be empty for http or https URIs" ---- *)
Definition once (n : bytes) (fs : list field) : bool := Nat.eqb (occurrences n fs) 1.
Definition at_most_once (n : bytes) (fs : list field) : bool := Nat.leb (occurrences n fs) 1.

Definition path_not_empty (fs : list field) : bool :=
  forallb (fun f => if has_name P_path f then negb (bytes_eqb (snd f) []) else true) fs.

(* ---- 8.1.2.6: content-length = 1*DIGIT (RFC 7230 3.3.2), as a number of any size ---- *)
Definition digit (c : N) : bool := (48 <=? c) && (c <=? 57).
Definition decimal (v : bytes) : option N :=
  match v with
  | [] => None
  | _ => if forallb digit v then Some (fold_left (fun acc c => 10 * acc + (c - 48)) v 0) else None
  end.

(* "A request or response is also malformed if the value of a content-length header field does not equal
   the sum of the DATA frame payload lengths that form the body": every such field, wherever it stands *)
Definition H_content_length : bytes := octets "content-length".
Definition content_length_ok (datalen : N) (fs : list field) : bool :=
  forallb (fun f => if has_name H_content_length f
                    then match decimal (snd f) with Some n => n =? datalen | None => false end
                    else true) fs.

(* ---- the request ---- *)
Definition wf_request (fields trailers : list field) (datalen : N) : bool :=
  let all := fields ++ trailers in
  forallb (fun f => lower_case (fst f)) all
  && pseudo_defined fields && pseudo_first fields && no_pseudo trailers
  && no_connection_fields all && te_ok all
  && once P_method fields && once P_scheme fields && once P_path fields && at_most_once P_authority fields
  && path_not_empty fields
  && content_length_ok datalen all.

(* the RFC's own example (8.1.3) and a few malformed variations *)
Definition ex_get : list field :=
  [(octets ":method", octets "GET"); (octets ":scheme", octets "https"); (octets ":path", octets "/resource");
   (octets "host", octets "example.org"); (octets "accept", octets "image/jpeg")].
Definition ex_post : list field :=
  [(octets ":method", octets "POST"); (octets ":scheme", octets "https"); (octets ":path", octets "/resource");
   (octets "content-type", octets "image/jpeg"); (octets "host", octets "example.org");
   (octets "content-length", octets "123")].

Example wf_get : wf_request ex_get [] 0 = true. Proof. reflexivity. Qed.
Example wf_post : wf_request ex_post [(octets "foo", octets "bar")] 123 = true. Proof. reflexivity. Qed.
Example bad_length : wf_request ex_post [] 122 = false. Proof. reflexivity. Qed.
Example bad_upper : wf_request (ex_get ++ [(octets "Accept", octets "x")]) [] 0 = false. Proof. reflexivity. Qed.
Example bad_order : wf_request (ex_get ++ [(octets ":authority", octets "x")]) [] 0 = false. Proof. reflexivity. Qed.
Example bad_trailer : wf_request ex_get [(octets ":authority", octets "x")] 0 = false. Proof. reflexivity. Qed.
Example bad_te : wf_request (ex_get ++ [(octets "te", octets "gzip")]) [] 0 = false. Proof. reflexivity. Qed.
Example ok_te : wf_request (ex_get ++ [(octets "te", octets "trailers")]) [] 0 = true. Proof. reflexivity. Qed.
Example bad_two_lengths :
  wf_request (ex_post ++ [(octets "content-length", octets "5")]) [] 5 = false. Proof. reflexivity. Qed.
