(* RFC 7540 section 8.1 and 8.1.2 - 8.1.2.6: when is an HTTP/2 RESPONSE well formed?

   Independent of the implementation model: imports only Base.Bytes and the vocabulary of
   Spec/Http2Messages.v (field, octets, lower_case, is_pseudo, pseudo_first, no_pseudo,
   no_connection_fields, decimal, H_content_length), which is the request half of the same section.

   A response, as the client receives it on ONE stream, is the list of what the server sent there, in
   order, each item being
     - a complete header block (HEADERS and its CONTINUATION frames) given by its field list IN ORDER,
       pseudo-header fields included, and its END_STREAM flag, or
     - a DATA frame given by its payload (padding removed) and its END_STREAM flag.

   RFC 7540 8.1: "An HTTP message (request or response) consists of:
     1. for a response only, zero or more HEADERS frames (each followed by zero or more CONTINUATION
        frames) containing the message headers of informational (1xx) HTTP responses,
     2. one HEADERS frame (followed by zero or more CONTINUATION frames) containing the message headers,
     3. zero or more DATA frames containing the payload body, and
     4. optionally, one HEADERS frame, followed by zero or more CONTINUATION frames containing the
        trailer-part, if present."
   "The last frame in the sequence bears an END_STREAM flag"; 8.1: a HEADERS frame without END_STREAM
   after the final response headers is malformed; an informational response does not end the stream.

   [wf_response items] is the conjunction of
     the shape above                                                               wf_response / wf_after_final
     8.1.2    field names are lower case                                           lower_case
     8.1.2.1  the only pseudo-header field of a response is :status                response_pseudo_defined
              pseudo-header fields come before every regular field                 pseudo_first
              no pseudo-header field in trailers                                   no_pseudo
     8.1.2.2  no connection-specific field                                         no_connection_fields
     8.1.2.4  exactly one :status, a three-digit status code (RFC 7231 6)          once, status_of
     8.1.2.6  every content-length field is a decimal number                       content_lengths_numeric

   Out of scope:
     - content-length = the sum of the DATA payload lengths (8.1.2.6): whether a response "is defined
       to have no payload" depends on the request (HEAD) and the status (1xx, 204, 304), which the
       stream's items do not tell. [content_length_consistent] below is the part that does not depend
       on it: all content-length fields of the final header list and the trailers carry the same number
       (RFC 7230 3.3.2 / 3.3.3 item 4); it is kept OUT of wf_response and offered as
       [wf_response_strict].
     - status 101 (8.1.1: not used in HTTP/2), status classes above 5xx: any three digits not starting
       with 0 are a status here.
     - octets outside the HTTP grammar (names that are not tokens, the empty name included; values
       that are not field-content), as in Spec/Http2Messages.v.
     - PUSH_PROMISE (8.2); RST_STREAM (the response is then not complete: not a message at all). *)
From H2V Require Import Base.Bytes Spec.Http2Messages.
From Coq Require Import String.
Local Open Scope N_scope.

Inductive ritem : Type :=
| RBlock (fields : list field) (end_stream : bool)
| RData (payload : bytes) (end_stream : bool).

Definition P_status : bytes := octets ":status".

(* ---- 8.1.2.4 / RFC 7231 6: status-code = 3DIGIT, the first digit is the class (not 0) ---- *)
Definition three_digits (v : bytes) : option N :=
  match v with
  | [a; b; c] => if digit a && digit b && digit c && negb (a =? 48)
                 then Some ((a - 48) * 100 + (b - 48) * 10 + (c - 48)) else None
  | _ => None
  end.

(* the status of a header list: the value of its one :status field *)
Definition status_of (fs : list field) : option N :=
  match filter (has_name P_status) fs with
  | [f] => three_digits (snd f)
  | _ => None
  end.

(* 8.1.2.1: "Pseudo-header fields defined for requests MUST NOT appear in responses"; endpoints MUST NOT
   generate others: the only one left is :status *)
Definition response_pseudo_defined (fs : list field) : bool :=
  forallb (fun f => if is_pseudo f then has_name P_status f else true) fs.

(* content-length = 1*DIGIT *)
Definition content_lengths_numeric (fs : list field) : bool :=
  forallb (fun f => if has_name H_content_length f
                    then match decimal (snd f) with Some _ => true | None => false end else true) fs.

(* a response header list (informational or final) *)
Definition wf_head (fs : list field) : bool :=
  forallb (fun f => lower_case (fst f)) fs
  && response_pseudo_defined fs && pseudo_first fs && no_connection_fields fs
  && once P_status fs && (match status_of fs with Some _ => true | None => false end)
  && content_lengths_numeric fs.

(* a trailer list *)
Definition wf_trailers (fs : list field) : bool :=
  forallb (fun f => lower_case (fst f)) fs && no_pseudo fs && no_connection_fields fs
  && content_lengths_numeric fs.

Definition informational (n : N) : bool := n <? 200.

(* after the final header list: DATA*, then either the last DATA frame or a trailer block carries END_STREAM *)
Fixpoint wf_after_final (items : list ritem) : bool :=
  match items with
  | [] => false                                 (* the stream has not been ended: not a complete message *)
  | RData _ true :: rest => match rest with [] => true | _ => false end
  | RData _ false :: rest => wf_after_final rest
  | RBlock fs true :: rest => wf_trailers fs && match rest with [] => true | _ => false end
  | RBlock _ false :: _ => false                (* 8.1: a second header block has to end the stream *)
  end.

Fixpoint wf_response (items : list ritem) : bool :=
  match items with
  | RBlock fs es :: rest =>
    wf_head fs &&
    match status_of fs with
    | Some n =>
      if informational n then negb es && wf_response rest          (* 1xx: does not end the stream, something follows *)
      else if es then match rest with [] => true | _ => false end
      else wf_after_final rest
    | None => false
    end
  | _ => false                                  (* DATA before the response headers, or nothing at all *)
  end.

(* ---- what the response is: status, regular fields of the FINAL header list, body, trailer fields ---- *)
Definition regular (fs : list field) : list field := filter (fun f => negb (is_pseudo f)) fs.

Fixpoint final_head (items : list ritem) : option (N * list field) :=
  match items with
  | RBlock fs _ :: rest =>
    match status_of fs with
    | Some n => if informational n then final_head rest else Some (n, regular fs)
    | None => None
    end
  | _ => None
  end.
Definition body_of (items : list ritem) : bytes :=
  flat_map (fun i => match i with RData p _ => p | RBlock _ _ => [] end) items.

(* ---- the part of 8.1.2.6 / RFC 7230 3.3.2 that needs no knowledge of the request ---- *)
Definition content_length_values (items : list ritem) : list (option N) :=
  flat_map (fun i => match i with
                     | RBlock fs _ =>
                       match status_of fs with
                       | Some n => if informational n then [] else map (fun f => decimal (snd f)) (filter (has_name H_content_length) fs)
                       | None => map (fun f => decimal (snd f)) (filter (has_name H_content_length) fs)   (* trailers *)
                       end
                     | RData _ _ => []
                     end) items.
Definition option_N_eqb (a b : option N) : bool :=
  match a, b with Some x, Some y => x =? y | None, None => true | _, _ => false end.
Definition content_length_consistent (items : list ritem) : bool :=
  match content_length_values items with
  | [] => true
  | v :: rest => forallb (option_N_eqb v) rest
  end.
Definition wf_response_strict (items : list ritem) : bool := wf_response items && content_length_consistent items.

(* ---- examples: RFC 7540 8.1.3 ---- *)
Definition ex_304 : list ritem :=
  [RBlock [(octets ":status", octets "304"); (octets "etag", octets "xyzzy"); (octets "expires", octets "Thu, 23 Jan")] true].
Definition ex_200 : list ritem :=
  [RBlock [(octets ":status", octets "200"); (octets "content-type", octets "image/jpeg"); (octets "content-length", octets "3")] false;
   RData [1; 2] false; RData [3] true].
Definition ex_100_200_trailers : list ritem :=
  [RBlock [(octets ":status", octets "100"); (octets "extension-field", octets "bar")] false;
   RBlock [(octets ":status", octets "200"); (octets "content-type", octets "image/jpeg")] false;
   RData [1; 2; 3] false;
   RBlock [(octets "foo", octets "bar")] true].

Example wf_304 : wf_response ex_304 = true. Proof. reflexivity. Qed.
Example wf_200 : wf_response ex_200 = true /\ final_head ex_200 = Some (200, [(octets "content-type", octets "image/jpeg"); (octets "content-length", octets "3")])
  /\ body_of ex_200 = [1; 2; 3]. Proof. repeat split; reflexivity. Qed.
Example wf_100_200 : wf_response ex_100_200_trailers = true. Proof. reflexivity. Qed.
Example bad_no_status : wf_response [RBlock [(octets "server", octets "x")] true] = false. Proof. reflexivity. Qed.
Example bad_two_status :
  wf_response [RBlock [(octets ":status", octets "200"); (octets ":status", octets "200")] true] = false. Proof. reflexivity. Qed.
Example bad_status_digits : wf_response [RBlock [(octets ":status", octets "0200")] true] = false. Proof. reflexivity. Qed.
Example bad_status_order :
  wf_response [RBlock [(octets "server", octets "x"); (octets ":status", octets "200")] true] = false. Proof. reflexivity. Qed.
Example bad_request_pseudo :
  wf_response [RBlock [(octets ":status", octets "200"); (octets ":path", octets "/")] true] = false. Proof. reflexivity. Qed.
Example bad_upper : wf_response [RBlock [(octets ":status", octets "200"); (octets "Server", octets "x")] true] = false.
Proof. reflexivity. Qed.
Example bad_connection :
  wf_response [RBlock [(octets ":status", octets "200"); (octets "connection", octets "close")] true] = false. Proof. reflexivity. Qed.
Example bad_content_length :
  wf_response [RBlock [(octets ":status", octets "200"); (octets "content-length", octets "1x")] true] = false. Proof. reflexivity. Qed.
Example bad_data_first : wf_response [RData [1] true] = false. Proof. reflexivity. Qed.
Example bad_interim_ends : wf_response [RBlock [(octets ":status", octets "100")] true] = false. Proof. reflexivity. Qed.
Example bad_interim_after_final :
  wf_response [RBlock [(octets ":status", octets "200")] false; RBlock [(octets ":status", octets "103")] true] = false.
Proof. reflexivity. Qed.
Example bad_trailers_open :
  wf_response [RBlock [(octets ":status", octets "200")] false; RBlock [(octets "foo", octets "bar")] false; RData [] true] = false.
Proof. reflexivity. Qed.
Example bad_trailer_pseudo :
  wf_response [RBlock [(octets ":status", octets "200")] false; RBlock [(octets ":status", octets "200")] true] = false.
Proof. reflexivity. Qed.
Example bad_not_ended : wf_response [RBlock [(octets ":status", octets "200")] false; RData [1] false] = false.
Proof. reflexivity. Qed.
Example strict_two_lengths :
  let m := [RBlock [(octets ":status", octets "200"); (octets "content-length", octets "1"); (octets "content-length", octets "2")] true] in
  wf_response m = true /\ wf_response_strict m = false.
Proof. split; reflexivity. Qed.
