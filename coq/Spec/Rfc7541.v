(* RFC 7541 (HPACK) sections 2-6 and Appendix A, as a specification.
   Contains no reference to the implementation model. Integers are unbounded (N).

   Reading guide
     1. static table (Appendix A)                   rfc_static_table
     2. primitive encodings (5.1, 5.2)              spec_enc_int / spec_dec_int, spec_enc_str / spec_dec_str
     3. representations (6.1-6.3)                   repr, spec_enc_repr, spec_dec_repr, spec_parse_block
     4. dynamic table (2.3, 4.1-4.4)                dtable, add_entry, set_max, lookup
     5. meaning of a representation list            spec_step, spec_sem
     6. decoding a header block                     spec_decode_block = parse, then spec_sem *)
From Coq Require Import String Ascii.
From H2V Require Import Base.Bytes Spec.Rfc7541Huffman.
Local Open Scope N_scope.

(* ------------------------------------------------------------------ *)
(* 1. Appendix A: the static table, index 1..61                        *)

Fixpoint bytes_of_string (s : string) : bytes :=
  match s with
  | EmptyString => []
  | String a r => N_of_ascii a :: bytes_of_string r
  end.

Definition rfc_static_strings : list (string * string) :=
  [ (":authority", "");                 (":method", "GET");              (":method", "POST");
    (":path", "/");                     (":path", "/index.html");        (":scheme", "http");
    (":scheme", "https");               (":status", "200");              (":status", "204");
    (":status", "206");                 (":status", "304");              (":status", "400");
    (":status", "404");                 (":status", "500");              ("accept-charset", "");
    ("accept-encoding", "gzip, deflate"); ("accept-language", "");       ("accept-ranges", "");
    ("accept", "");                     ("access-control-allow-origin", ""); ("age", "");
    ("allow", "");                      ("authorization", "");           ("cache-control", "");
    ("content-disposition", "");        ("content-encoding", "");        ("content-language", "");
    ("content-length", "");             ("content-location", "");        ("content-range", "");
    ("content-type", "");               ("cookie", "");                  ("date", "");
    ("etag", "");                       ("expect", "");                  ("expires", "");
    ("from", "");                       ("host", "");                    ("if-match", "");
    ("if-modified-since", "");          ("if-none-match", "");           ("if-range", "");
    ("if-unmodified-since", "");        ("last-modified", "");           ("link", "");
    ("location", "");                   ("max-forwards", "");            ("proxy-authenticate", "");
    ("proxy-authorization", "");        ("range", "");                   ("referer", "");
    ("refresh", "");                    ("retry-after", "");             ("server", "");
    ("set-cookie", "");                 ("strict-transport-security", ""); ("transfer-encoding", "");
    ("user-agent", "");                 ("vary", "");                    ("via", "");
    ("www-authenticate", "") ]%string.

Definition entry : Type := (bytes * bytes)%type.   (* name, value *)

(* the same table as octets (evaluated here, so that users of the table -- and the extracted
   code -- see plain numbers) *)
Definition rfc_static_table : list entry :=
  Eval vm_compute in map (fun kv => (bytes_of_string (fst kv), bytes_of_string (snd kv))) rfc_static_strings.

Definition static_len : N := N.of_nat (length rfc_static_table).   (* 61 *)

(* ------------------------------------------------------------------ *)
(* 2. Primitive types                                                   *)

(* 5.1 Integer representation: value v on an n-bit prefix; [pattern] is the part of the first
   octet above the prefix (a multiple of 2^n, below 256). *)
Fixpoint enc_cont (fuel : nat) (v : N) : bytes :=
  match fuel with
  | O => []
  | S fuel' => if v <? 128 then [v] else (v mod 128 + 128) :: enc_cont fuel' (v / 128)
  end.

Definition spec_enc_int (n pattern v : N) : bytes :=
  let full := 2 ^ n - 1 in
  if v <? full then [pattern + v]
  else (pattern + full) :: enc_cont (S (N.size_nat (v - full))) (v - full).

(* "Integer encodings that exceed implementation limits -- in value or octet length -- MUST be
   treated as decoding errors" (5.1). The only limit this specification chooses is one on the
   octet length: at most [max_cont_octets] continuation octets after the prefix octet. Values
   are never limited; every value up to 2^63-1+prefix fits, and the indices, string lengths and
   table sizes a block may legally use are far smaller. *)
Definition max_cont_octets : nat := 9.

(* the continuation octets: least significant group first, bit 7 = "more follow";
   m is the weight (in bits) of the group being read *)
Fixpoint dec_cont (allowed : nat) (b : bytes) (m : N) : option (N * bytes) :=
  match allowed, b with
  | S allowed', x :: rest =>
      if x <? 128 then Some (x * 2 ^ m, rest)
      else match dec_cont allowed' rest (m + 7) with
           | Some (v, r) => Some ((x - 128) * 2 ^ m + v, r)
           | None => None
           end
  | _, _ => None      (* truncated, or longer than the limit *)
  end.

Definition spec_dec_int (n : N) (b : bytes) : option (N * bytes) :=
  match b with
  | [] => None
  | x :: rest =>
      let full := 2 ^ n - 1 in
      let v := x mod 2 ^ n in
      if v <? full then Some (v, rest)
      else match dec_cont max_cont_octets rest 0 with
           | Some (w, r) => Some (full + w, r)
           | None => None
           end
  end.

(* 5.2 String literal: H bit, length on a 7-bit prefix, then the octets (raw or Huffman). *)
Definition spec_enc_str (huff : bool) (s : bytes) : bytes :=
  let d := if huff then spec_encode s else s in
  spec_enc_int 7 (if huff then 128 else 0) (len d) ++ d.

(* An executable Huffman decoder at specification level: read code words greedily; what is left
   when no code word fits must be fewer than 8 bits, all ones (5.2: padding longer than 7 bits,
   padding that is not a prefix of EOS, and a coded EOS are errors). Its defining property,
   [spec_huff_decode b = Some s <-> spec_valid b s], is an obligation of C03. *)
Definition byte_bits (b : N) : list bool := bits_of 8 b.

Definition code_words_by_symbol : list (N * list bool) :=
  map (fun i => (N.of_nat i, code_bits (N.of_nat i))) (seq 0 256).

Fixpoint strip_prefix (p l : list bool) : option (list bool) :=
  match p, l with
  | [], _ => Some l
  | x :: p', y :: l' => if Bool.eqb x y then strip_prefix p' l' else None
  | _ :: _, [] => None
  end.

Fixpoint first_symbol (tbl : list (N * list bool)) (bits : list bool) : option (N * list bool) :=
  match tbl with
  | [] => None
  | (sym, w) :: tbl' =>
      match strip_prefix w bits with
      | Some rest => Some (sym, rest)
      | None => first_symbol tbl' bits
      end
  end.

Fixpoint huff_dec_bits (fuel : nat) (bits : list bool) : option bytes :=
  match fuel with
  | O => None
  | S fuel' =>
      match first_symbol code_words_by_symbol bits with
      | Some (sym, rest) =>
          match huff_dec_bits fuel' rest with Some s => Some (sym :: s) | None => None end
      | None => if (Nat.ltb (length bits) 8) && forallb (fun x => x) bits then Some [] else None
      end
  end.

Definition spec_huff_decode (b : bytes) : option bytes :=
  let bits := flat_map byte_bits b in huff_dec_bits (S (length bits)) bits.

(* returns (H bit, the string, what follows it) *)
Definition spec_dec_str (b : bytes) : option (bool * bytes * bytes) :=
  match b with
  | [] => None
  | x :: _ =>
      let huff := 128 <=? x in
      match spec_dec_int 7 b with
      | None => None
      | Some (n, rest) =>
          if len rest <? n then None
          else
            let d := takeN n rest in
            if huff then
              match spec_huff_decode d with
              | Some s => Some (true, s, dropN n rest)
              | None => None
              end
            else Some (false, d, dropN n rest)
      end
  end.

(* ------------------------------------------------------------------ *)
(* 3. Header field representations (section 6)                          *)

Inductive mode : Type := Incremental | Without | Never.   (* 6.2.1, 6.2.2, 6.2.3 *)

Inductive nameref : Type :=
| NameIdx (i : N)          (* name taken from table entry i, i >= 1 *)
| NameLit (name : bytes).  (* name given as a string literal *)

Inductive repr : Type :=
| Indexed (i : N)                                                     (* 6.1  1xxxxxxx *)
| Literal (m : mode) (name : nameref) (hname hval : bool) (value : bytes)
                                                                       (* 6.2  01xxxxxx / 0000xxxx / 0001xxxx *)
| SizeUpdate (n : N).                                                 (* 6.3  001xxxxx *)
(* hname / hval: whether the name / value string is Huffman coded (hname is unused with NameIdx) *)

Definition mode_prefix (m : mode) : N := match m with Incremental => 6 | _ => 4 end.
Definition mode_pattern (m : mode) : N := match m with Incremental => 64 | Without => 0 | Never => 16 end.

Definition spec_enc_repr (r : repr) : bytes :=
  match r with
  | Indexed i => spec_enc_int 7 128 i
  | Literal m (NameIdx i) _ hval value =>
      spec_enc_int (mode_prefix m) (mode_pattern m) i ++ spec_enc_str hval value
  | Literal m (NameLit name) hname hval value =>
      [mode_pattern m] ++ spec_enc_str hname name ++ spec_enc_str hval value
  | SizeUpdate n => spec_enc_int 5 32 n
  end.

Definition spec_enc_block (rs : list repr) : bytes := flat_map spec_enc_repr rs.

Definition dec_literal (m : mode) (b : bytes) : option (repr * bytes) :=
  match spec_dec_int (mode_prefix m) b with
  | None => None
  | Some (i, rest) =>
      if i =? 0 then
        match spec_dec_str rest with
        | None => None
        | Some (hname, name, rest1) =>
            match spec_dec_str rest1 with
            | None => None
            | Some (hval, value, rest2) => Some (Literal m (NameLit name) hname hval value, rest2)
            end
        end
      else
        match spec_dec_str rest with
        | None => None
        | Some (hval, value, rest1) => Some (Literal m (NameIdx i) false hval value, rest1)
        end
  end.

(* one representation off the front of b; None = truncated or malformed *)
Definition spec_dec_repr (b : bytes) : option (repr * bytes) :=
  match b with
  | [] => None
  | x :: _ =>
      if 128 <=? x then
        match spec_dec_int 7 b with Some (i, rest) => Some (Indexed i, rest) | None => None end
      else if 64 <=? x then dec_literal Incremental b
      else if 32 <=? x then
        match spec_dec_int 5 b with Some (n, rest) => Some (SizeUpdate n, rest) | None => None end
      else if 16 <=? x then dec_literal Never b
      else dec_literal Without b
  end.

(* a header block is a concatenation of representations (section 3.2 / 4) *)
Fixpoint parse_reprs (fuel : nat) (b : bytes) : option (list repr) :=
  match b with
  | [] => Some []
  | _ :: _ =>
      match fuel with
      | O => None
      | S fuel' =>
          match spec_dec_repr b with
          | None => None
          | Some (r, rest) =>
              match parse_reprs fuel' rest with Some rs => Some (r :: rs) | None => None end
          end
      end
  end.

Definition spec_parse_block (b : bytes) : option (list repr) := parse_reprs (length b) b.

(* ------------------------------------------------------------------ *)
(* 4. The dynamic table (2.3.2, 4)                                      *)

Record dtable : Type := mkDT {
  dt_entries : list entry;   (* newest first: dynamic index 62 is the head *)
  dt_max : N;                (* current maximum size, chosen by the encoder (4.2) *)
  dt_limit : N               (* SETTINGS_HEADER_TABLE_SIZE: the limit set by the decoder's protocol *)
}.

Definition entry_size (e : entry) : N := len (fst e) + len (snd e) + 32.              (* 4.1 *)
Definition table_size (es : list entry) : N := fold_right (fun e a => entry_size e + a) 0 es.

(* 4.3 / 4.4 "entries are evicted from the end of the dynamic table until the size of the dynamic
   table is less than or equal to" budget: what remains is the longest newest-first prefix that
   fits (every entry has a positive size). *)
Fixpoint evict_to (budget : N) (es : list entry) : list entry :=
  match es with
  | [] => []
  | e :: rest => if entry_size e <=? budget then e :: evict_to (budget - entry_size e) rest else []
  end.

(* 4.4 adding an entry: evict until there is room for it; an entry larger than the maximum size
   empties the table and is not added *)
Definition add_entry (t : dtable) (e : entry) : dtable :=
  let es := if entry_size e <=? dt_max t
            then e :: evict_to (dt_max t - entry_size e) (dt_entries t)
            else [] in
  mkDT es (dt_max t) (dt_limit t).

(* 4.3 / 6.3 change of the maximum size (the caller checks n <= dt_limit) *)
Definition set_max (t : dtable) (n : N) : dtable := mkDT (evict_to n (dt_entries t)) n (dt_limit t).

(* the decoder's side announces a new SETTINGS_HEADER_TABLE_SIZE (4.2); the table itself changes
   only when the encoder's size update arrives *)
Definition spec_set_limit (t : dtable) (n : N) : dtable := mkDT (dt_entries t) (dt_max t) n.

(* 2.3.3 the index address space: 1..61 static, 62.. dynamic, newest first *)
Definition lookup (t : dtable) (i : N) : option entry :=
  if i =? 0 then None
  else if i <=? static_len then idx rfc_static_table (i - 1)
  else if i <=? static_len + N.of_nat (length (dt_entries t)) then idx (dt_entries t) (i - static_len - 1)
  else None.

(* ------------------------------------------------------------------ *)
(* 5. Meaning of representations                                        *)

Definition hfield : Type := (bytes * bytes * bool)%type.   (* name, value, never-indexed (sensitive) *)

(* One representation. [at_start]: no header field representation has been processed yet in this
   block -- the only place where a size update may appear (4.2). None = decoding error. *)
Definition spec_step (t : dtable) (at_start : bool) (r : repr) : option (option hfield * dtable) :=
  match r with
  | Indexed i =>
      match lookup t i with
      | Some (n, v) => Some (Some (n, v, false), t)
      | None => None
      end
  | Literal m nr _ _ value =>
      let name := match nr with
                  | NameLit n => Some n
                  | NameIdx i => match lookup t i with Some (n, _) => Some n | None => None end
                  end in
      match name with
      | None => None
      | Some n =>
          match m with
          | Incremental => Some (Some (n, value, false), add_entry t (n, value))
          | Without => Some (Some (n, value, false), t)
          | Never => Some (Some (n, value, true), t)
          end
      end
  | SizeUpdate n =>
      if at_start && (n <=? dt_limit t) then Some (None, set_max t n) else None
  end.

Fixpoint sem_from (t : dtable) (at_start : bool) (rs : list repr) : option (list hfield * dtable) :=
  match rs with
  | [] => Some ([], t)
  | r :: rs' =>
      match spec_step t at_start r with
      | None => None
      | Some (None, t') => sem_from t' at_start rs'
      | Some (Some f, t') =>
          match sem_from t' false rs' with
          | Some (fs, t'') => Some (f :: fs, t'')
          | None => None
          end
      end
  end.

(* the header list and the table a representation list produces *)
Definition spec_sem (t : dtable) (rs : list repr) : option (list hfield * dtable) := sem_from t true rs.

(* ------------------------------------------------------------------ *)
(* 6. Decoding a header block                                           *)

Definition spec_decode_block (t : dtable) (b : bytes) : option (list hfield * dtable) :=
  match spec_parse_block b with
  | Some rs => spec_sem t rs
  | None => None
  end.

(* a connection: successive header blocks share the table; the first error is fatal (RFC 7540 4.3) *)
Fixpoint spec_decode_blocks (t : dtable) (bs : list bytes) : option (list (list hfield) * dtable) :=
  match bs with
  | [] => Some ([], t)
  | b :: bs' =>
      match spec_decode_block t b with
      | None => None
      | Some (fs, t') =>
          match spec_decode_blocks t' bs' with
          | Some (fss, t'') => Some (fs :: fss, t'')
          | None => None
          end
      end
  end.

Definition dtable_init (limit : N) : dtable := mkDT [] limit limit.
