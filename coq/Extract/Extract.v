(* Extraction of the executable models and spec oracles to OCaml for the
   correspondence runs. ExtrOcamlBasic only: bool, option, unit, list, prod,
   sumbool map to OCaml's; N, Z, positive stay the extracted inductives.
   Run from /verif/ocaml:  coqc -Q ../coq H2V ../coq/Extract/Extract.v *)
Require Extraction.
Require Import ExtrOcamlBasic.
From H2V Require Import Base.Bytes Base.MachineInt Base.Result.
From H2V Require Import Impl.Huffman Spec.Rfc7541Huffman.

Extraction Language OCaml.
Extraction "model.ml"
  Z.add Z.sub N.div N.modulo
  huffman_encode huffman_decode spec_encode.
