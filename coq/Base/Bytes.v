(* Bytes: byte strings are lists of N with a boolean range predicate. *)
From Coq Require Export List NArith ZArith Bool Lia.
Export ListNotations.
Local Open Scope N_scope.

Definition byte := N.
Definition bytes := list N.

Definition byte_ok (b : N) : bool := b <? 256.
Definition bytes_ok (bs : bytes) : bool := forallb byte_ok bs.

Definition len (bs : bytes) : N := N.of_nat (length bs).

(* b[n:] and b[:n] with n an N *)
Definition dropN (n : N) (bs : bytes) : bytes := skipn (N.to_nat n) bs.
Definition takeN (n : N) (bs : bytes) : bytes := firstn (N.to_nat n) bs.

Fixpoint bytes_eqb (a b : bytes) : bool :=
  match a, b with
  | [], [] => true
  | x :: a', y :: b' => (x =? y) && bytes_eqb a' b'
  | _, _ => false
  end.

(* list index with an N, Go-style: None is an out-of-range panic *)
Definition idx {A} (l : list A) (i : N) : option A := nth_error l (N.to_nat i).
