(* Results of modelled Go functions: a value, an error of some class, or a
   run-time panic. "Never panics" is a theorem about Panic, not totality. *)
From Coq Require Export NArith.

Inductive result (A : Type) : Type :=
| Ok (a : A)
| Err (cls : N)
| Panic (why : N).
Arguments Ok {A} a.
Arguments Err {A} cls.
Arguments Panic {A} why.

Definition bind {A B} (r : result A) (f : A -> result B) : result B :=
  match r with
  | Ok a => f a
  | Err c => Err c
  | Panic w => Panic w
  end.

Definition is_ok {A} (r : result A) : bool := match r with Ok _ => true | _ => false end.
Definition is_panic {A} (r : result A) : bool := match r with Panic _ => true | _ => false end.
