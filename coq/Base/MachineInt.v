(* Fixed-width unsigned arithmetic as Go performs it, over N. *)
From Coq Require Export NArith ZArith Lia.
Local Open Scope N_scope.

Definition wrap (w : N) (x : N) : N := x mod 2 ^ w.
Definition u8 (x : N) : N := wrap 8 x.
Definition u32 (x : N) : N := wrap 32 x.
Definition u64 (x : N) : N := wrap 64 x.

(* a - b in width w, Go semantics (wraps around) *)
Definition subw (w : N) (a b : N) : N := (a + 2 ^ w - b mod 2 ^ w) mod 2 ^ w.

(* Go shifts: a shift count >= width yields 0 for unsigned x << n *)
Definition shlw (w : N) (x n : N) : N := wrap w (N.shiftl x n).
Definition shrw (x n : N) : N := N.shiftr x n.

(* two's complement reinterpretation of a w-bit pattern *)
Definition signed (w : N) (x : N) : Z :=
  let m := x mod 2 ^ w in
  if m <? 2 ^ (w - 1) then Z.of_N m else (Z.of_N m - Z.of_N (2 ^ w))%Z.
(* the w-bit pattern of a Z *)
Definition of_signed (w : N) (z : Z) : N := Z.to_N (z mod Z.of_N (2 ^ w)).
