(* Model of /repo/conn.go + client.go: the client connection. The write loop, the
   read loop, the callers (Conn.Write, roundTripOnce), the cancel timer and
   Conn.Close as step functions over events, at the grain of parsed frames.
   Definitions only. The HPACK coder is a parameter of the section (instantiated
   with Impl/Hpack.v in Impl/ClientInst.v). Frames the client receives are the
   parsed views of Impl/ServerConn.v (sframe, rl_input), with two conventions of
   this file: for SETTINGS sf_payload is the raw payload (the model runs
   Settings.Deserialize/Read itself), for GOAWAY sf_dep is the last stream id.

   Go function                           model
   -----------------------------------  ------------------------------------------
   doHandshake (reading the SETTINGS)    cl_init
   Conn.Write: first select              cl_submit          (with roundTripOnce's acquireCtx/arming)
   Conn.Write: second select             cl_submit_check
   roundTripOnce after <-ctx.Err         cl_receive         (reusable, takeBack, releaseCtx, retryable)
   Ctx.acquireFor / acquire              cl_acquire_for / inside cl_write_request
   Ctx.resolve markFinished              cl_ctx_resolve / ctu_finished
   Ctx.fireTimeout                       cl_timeout_fire ; cl_timeout_cancel (Conn.cancel)
   Conn.Close                            cl_close_begin ; cl_close_net   (cl_conn_close = both)
   runWriteLoop: case in / out / winCh / ticker / done    cl_wl_in / cl_wl_out / cl_wl_win / cl_wl_ping / cl_wl_done
   writeLoop (after runWriteLoop)        cl_wl_exit
   CanOpenStream writeRequest            cl_can_open_stream cl_write_request (cl_request_block)
   sendPending refillPending writeData flushData   cl_send_pending cl_refill cl_data_frames
   flushPending pendingIDs               cl_flush_pending  (the map order is an event payload)
   dropPending deletePending closeBodyStream       inside cl_delete_pending / cl_close_body
   applyInitialWindow addWindow signalWindow       cl_apply_initial_window cl_add_window
   readLoop body / readNext              cl_rl_frame / cl_rl_step (cl_handle_settings, GOAWAY: cl_goaway)
   Settings.Deserialize/Read MergeTo     cl_settings_deserialize cl_settings_read cl_settings_merge
   dispatch finish goneAway              cl_dispatch cl_finish cl_gone_away
   readStream readHeaderFragment readHeaderField updateWindow    cl_read_stream cl_read_header_fragment cl_read_header_field

   Atomicity: one select case of the write loop, one frame of the read loop, each
   of the two selects of Conn.Write, each of the two halves of Close and of fireTimeout, and
   the tail of roundTripOnce are single steps. Mutexes other than Ctx.lck are
   taken and released inside one Go function and never nested in themselves;
   Ctx.lck is tracked: every function that can lock one gets the list of the
   Ctx locks its goroutine holds, and locking one of them again is the outcome
   COSelfDeadlock (the goroutine then stays parked holding what it holds). *)
From H2V Require Import Base.Bytes Base.MachineInt Base.Result Gen.GenConsts Impl.ServerConn.
From Coq Require Import ZArith.
Local Open Scope N_scope.

(* ---------- errors delivered to callers, by class ---------- *)

Inductive cerr : Type :=
| CENil                 (* nil *)
| CETimeout             (* ErrRequestCanceled *)
| CEGoAway              (* ErrGoAway *)
| CEConnClosed          (* ErrConnectionClosed *)
| CENoStreams           (* ErrNotAvailableStreams *)
| CENoIDs               (* ErrNoMoreStreamIDs *)
| CEReset (code : N)    (* NewResetStreamError(code, "stream reset by the server") *)
| CEMalformed           (* errInvalidStatus errPseudoAfterRegular errUpperCaseHeader errConnectionSpecific errInvalidContentLength, invalid pseudo-header *)
| CEConn                (* whatever ended the connection: read errors, GOAWAY-type Errors, io.ErrUnexpectedEOF, ErrTimeout *)
| CEWrite               (* a failed socket write, bare or as WriteError *)
| CEBody.               (* "reading the request body: ...": the caller's body reader failed *)

(* retryable(err) *)
Definition cl_retryable (e : cerr) : bool :=
  match e with CEConnClosed | CENoStreams | CEGoAway | CENoIDs => true | _ => false end.

Definition cerr_is_nil (e : cerr) : bool := match e with CENil => true | _ => false end.

(* ---------- fasthttp.Request / Response as the connection reads and writes them ---------- *)

Inductive cbody : Type :=
| CBuf (b : bytes)                                    (* Request.Body(), not a stream *)
| CStream (reads : list (bytes * rerr)) (size : Z).   (* IsBodyStream: what the reader answers; Header.ContentLength() *)

Record crequest : Type := mkCReq {
  cq_host : bytes;                       (* req.URI().Host() *)
  cq_method : bytes;                     (* req.Header.Method() *)
  cq_path : bytes;                       (* req.URI().RequestURI() *)
  cq_scheme : bytes;                     (* req.URI().Scheme() *)
  cq_ua : bytes;                         (* req.Header.UserAgent() *)
  cq_fields : list (bytes * bytes);      (* req.Header.All(), in the order fasthttp yields them *)
  cq_body : cbody
}.

Record cresponse : Type := mkCResp {
  cr_status : Z;                         (* SetStatusCode; 0 = never set *)
  cr_cl : Z;                             (* Header.SetContentLength; -3 = never set *)
  cr_fields : list (bytes * bytes);      (* Header.AddBytesKV, in order *)
  cr_body : list bytes                   (* AppendBody: the pieces appended, in order; Body() is their concatenation *)
}.
Definition cl_empty_resp : cresponse := mkCResp 0 (-3) [] [].
Definition cl_resp_body (r : cresponse) : bytes := concat (cr_body r).

(* ---------- what the client writes, and what callers observe ---------- *)

Inductive coutev : Type :=
| COHeaders (sid : N) (es : bool) (block : bytes)
| COData (sid : N) (es : bool) (payload : bytes)
| CORst (sid code : N)
| COWinUpd (sid : N) (inc : Z)
| COSettingsAck
| COPing                                   (* the client's own ping (payload: a timestamp) *)
| COPingAck (data : bytes)
| COGoAway (last code : N)                 (* Close *)
| COResult (tag : N) (retry : bool) (e : cerr) (resp : cresponse)   (* roundTripOnce returns *)
| COPoolPut (tag : N)                      (* releaseCtx *)
| COBodyClosed (tag : N)                   (* Request.CloseBodyStream *)
| COSelfDeadlock (who : N) (tag : N)       (* goroutine who locks the Ctx.lck it already holds *)
| COBlocked (who : N) (tag : N)            (* goroutine who waits for ever for a Ctx.lck a dead goroutine holds *)
| COExit (who : N) (why : N)               (* a loop returns. who: 0 read loop, 1 write loop *)
| COPanic (who : N).
(* who: 0 read loop, 1 write loop, 2 a caller, 3 a timer goroutine *)

(* ---------- SETTINGS ---------- *)

Record csettings : Type := mkCS {
  cs_table : N; cs_push : bool; cs_streams : N; cs_window : N; cs_frame : N; cs_hdr : N;
  cs_hasWin : bool;        (* hasWindowSize *)
  cs_present : N           (* present: bit id set for each parameter read *)
}.
(* Settings.Reset *)
Definition cl_settings_default : csettings :=
  mkCS c_defaultHeaderTableSize false c_defaultConcurrentStreams c_defaultWindowSize c_defaultDataFrameSize 0 false 0.

Definition cl_settings_has (st : csettings) (id : N) : bool :=
  (1 <=? id) && (id <=? 6) && N.testbit (cs_present st) id.

(* one parameter of Settings.Read. None: the value is refused (GOAWAY-type error) *)
Definition cl_settings_apply (st : csettings) (key value : N) : option csettings :=
  let present := if (1 <=? key) && (key <=? 6) then N.lor (cs_present st) (N.shiftl 1 key) else cs_present st in
  let st := mkCS (cs_table st) (cs_push st) (cs_streams st) (cs_window st) (cs_frame st) (cs_hdr st) (cs_hasWin st) present in
  if key =? c_HeaderTableSize then
    Some (mkCS value (cs_push st) (cs_streams st) (cs_window st) (cs_frame st) (cs_hdr st) (cs_hasWin st) present)
  else if key =? c_EnablePush then
    if negb (value =? 0) && negb (value =? 1) then None
    else Some (mkCS (cs_table st) (negb (value =? 0)) (cs_streams st) (cs_window st) (cs_frame st) (cs_hdr st) (cs_hasWin st) present)
  else if key =? c_MaxConcurrentStreams then
    Some (mkCS (cs_table st) (cs_push st) value (cs_window st) (cs_frame st) (cs_hdr st) (cs_hasWin st) present)
  else if key =? c_MaxWindowSize then
    if 2147483647 <? value then None
    else Some (mkCS (cs_table st) (cs_push st) (cs_streams st) value (cs_frame st) (cs_hdr st) true present)
  else if key =? c_MaxFrameSize then
    if (value <? 16384) || (16777215 <? value) then None
    else Some (mkCS (cs_table st) (cs_push st) (cs_streams st) (cs_window st) value (cs_hdr st) (cs_hasWin st) present)
  else if key =? c_MaxHeaderListSize then
    Some (mkCS (cs_table st) (cs_push st) (cs_streams st) (cs_window st) (cs_frame st) value (cs_hasWin st) present)
  else Some st.

(* Settings.Read: six bytes at a time, a shorter tail is not looked at *)
Fixpoint cl_settings_read (d : bytes) (st : csettings) : option csettings :=
  match d with
  | k1 :: k0 :: v3 :: v2 :: v1 :: v0 :: rest =>
    match cl_settings_apply st (k1 * 256 + k0) (((v3 * 256 + v2) * 256 + v1) * 256 + v0) with
    | Some st' => cl_settings_read rest st'
    | None => None
    end
  | _ => Some st
  end.

(* Settings.Deserialize on a frame fresh from the pool *)
Definition cl_settings_deserialize (ack : bool) (payload : bytes) : option csettings :=
  if negb (len payload mod 6 =? 0) then None
  else if ack && negb (len payload =? 0) then None
  else cl_settings_read payload cl_settings_default.

(* st.MergeTo(dst) *)
Definition cl_settings_merge (st dst : csettings) : csettings :=
  mkCS (if cl_settings_has st c_HeaderTableSize then cs_table st else cs_table dst)
       (if cl_settings_has st c_EnablePush then cs_push st else cs_push dst)
       (if cl_settings_has st c_MaxConcurrentStreams then cs_streams st else cs_streams dst)
       (if cl_settings_has st c_MaxWindowSize then cs_window st else cs_window dst)
       (if cl_settings_has st c_MaxFrameSize then cs_frame st else cs_frame dst)
       (if cl_settings_has st c_MaxHeaderListSize then cs_hdr st else cs_hdr dst)
       (cs_hasWin dst) (cs_present dst).

(* ---------- small helpers ---------- *)

(* a Z computed in Go's int32 *)
Definition cl_i32 (z : Z) : Z := signed 32 (of_signed 32 z).

Definition cl_maxStreamID : N := 2147483647.
Definition cl_maxWindow : Z := 1048576.            (* NewConn: maxWindow = 1 << 20 *)
Definition cl_maxHeaderPrev : N := 1048576.        (* DefaultMaxHeaderListSize *)
Definition S_user_agent : bytes := [117; 115; 101; 114; 45; 97; 103; 101; 110; 116].

(* ToLower: only 'A'..'Z' change (c | 32 = c + 32 there); also bytes.EqualFold(k, StringUserAgent) on ASCII names *)
Definition cl_fold_ascii (b : bytes) : bytes := map (fun c => if (65 <=? c) && (c <=? 90) then c + 32 else c) b.
Definition cl_to_lower (b : bytes) : bytes := cl_fold_ascii b.
Definition cl_is_user_agent (k : bytes) : bool := bytes_eqb (cl_fold_ascii k) S_user_agent.

Definition cl_is_nil {A} (l : list A) : bool := match l with [] => true | _ => false end.

(* ---------- Ctx ---------- *)

(* BEGIN generated: cctx *)
Record cctx : Type := mkCCtx {
  ct_tag : N;   (* the caller's name for this Ctx object *)
  ct_req : crequest;   (* Request *)
  ct_resp : cresponse;   (* Response *)
  ct_sid : N;   (* streamID (atomic) *)
  ct_conn : bool;   (* conn.Load() == this connection *)
  ct_done : bool;   (* done (under lck) *)
  ct_resolved : bool;   (* resolved (under resLck) *)
  ct_finished : bool;   (* finished (under resLck) *)
  ct_err : option cerr;   (* the buffer of Err (capacity 1) *)
  ct_armed : bool;   (* armed *)
  ct_fired : bool;   (* the cancel timer has run out: fireTimeout has started *)
  ct_cancelled : bool;   (* fireTimeout has got past its resolve and run cancel *)
  ct_gotStatus : bool;   (* gotStatus *)
  ct_bodyClosed : bool;   (* the connection has called Request.CloseBodyStream *)
  ct_writing : bool;   (* the caller is inside Conn.Write, between its two selects *)
  ct_returned : bool;   (* roundTripOnce has returned to its caller *)
  ct_pooled : bool;   (* releaseCtx: back in clientCtxPool *)
  ct_lckStuck : bool   (* lck is held by a goroutine that will never release it *)
}.

Definition ctu_tag (r : cctx) (v : N) : cctx :=
  mkCCtx v (ct_req r) (ct_resp r) (ct_sid r) (ct_conn r) (ct_done r) (ct_resolved r) (ct_finished r) (ct_err r) (ct_armed r) (ct_fired r) (ct_cancelled r) (ct_gotStatus r) (ct_bodyClosed r) (ct_writing r) (ct_returned r) (ct_pooled r) (ct_lckStuck r).
Definition ctu_req (r : cctx) (v : crequest) : cctx :=
  mkCCtx (ct_tag r) v (ct_resp r) (ct_sid r) (ct_conn r) (ct_done r) (ct_resolved r) (ct_finished r) (ct_err r) (ct_armed r) (ct_fired r) (ct_cancelled r) (ct_gotStatus r) (ct_bodyClosed r) (ct_writing r) (ct_returned r) (ct_pooled r) (ct_lckStuck r).
Definition ctu_resp (r : cctx) (v : cresponse) : cctx :=
  mkCCtx (ct_tag r) (ct_req r) v (ct_sid r) (ct_conn r) (ct_done r) (ct_resolved r) (ct_finished r) (ct_err r) (ct_armed r) (ct_fired r) (ct_cancelled r) (ct_gotStatus r) (ct_bodyClosed r) (ct_writing r) (ct_returned r) (ct_pooled r) (ct_lckStuck r).
Definition ctu_sid (r : cctx) (v : N) : cctx :=
  mkCCtx (ct_tag r) (ct_req r) (ct_resp r) v (ct_conn r) (ct_done r) (ct_resolved r) (ct_finished r) (ct_err r) (ct_armed r) (ct_fired r) (ct_cancelled r) (ct_gotStatus r) (ct_bodyClosed r) (ct_writing r) (ct_returned r) (ct_pooled r) (ct_lckStuck r).
Definition ctu_conn (r : cctx) (v : bool) : cctx :=
  mkCCtx (ct_tag r) (ct_req r) (ct_resp r) (ct_sid r) v (ct_done r) (ct_resolved r) (ct_finished r) (ct_err r) (ct_armed r) (ct_fired r) (ct_cancelled r) (ct_gotStatus r) (ct_bodyClosed r) (ct_writing r) (ct_returned r) (ct_pooled r) (ct_lckStuck r).
Definition ctu_done (r : cctx) (v : bool) : cctx :=
  mkCCtx (ct_tag r) (ct_req r) (ct_resp r) (ct_sid r) (ct_conn r) v (ct_resolved r) (ct_finished r) (ct_err r) (ct_armed r) (ct_fired r) (ct_cancelled r) (ct_gotStatus r) (ct_bodyClosed r) (ct_writing r) (ct_returned r) (ct_pooled r) (ct_lckStuck r).
Definition ctu_resolved (r : cctx) (v : bool) : cctx :=
  mkCCtx (ct_tag r) (ct_req r) (ct_resp r) (ct_sid r) (ct_conn r) (ct_done r) v (ct_finished r) (ct_err r) (ct_armed r) (ct_fired r) (ct_cancelled r) (ct_gotStatus r) (ct_bodyClosed r) (ct_writing r) (ct_returned r) (ct_pooled r) (ct_lckStuck r).
Definition ctu_finished (r : cctx) (v : bool) : cctx :=
  mkCCtx (ct_tag r) (ct_req r) (ct_resp r) (ct_sid r) (ct_conn r) (ct_done r) (ct_resolved r) v (ct_err r) (ct_armed r) (ct_fired r) (ct_cancelled r) (ct_gotStatus r) (ct_bodyClosed r) (ct_writing r) (ct_returned r) (ct_pooled r) (ct_lckStuck r).
Definition ctu_err (r : cctx) (v : option cerr) : cctx :=
  mkCCtx (ct_tag r) (ct_req r) (ct_resp r) (ct_sid r) (ct_conn r) (ct_done r) (ct_resolved r) (ct_finished r) v (ct_armed r) (ct_fired r) (ct_cancelled r) (ct_gotStatus r) (ct_bodyClosed r) (ct_writing r) (ct_returned r) (ct_pooled r) (ct_lckStuck r).
Definition ctu_armed (r : cctx) (v : bool) : cctx :=
  mkCCtx (ct_tag r) (ct_req r) (ct_resp r) (ct_sid r) (ct_conn r) (ct_done r) (ct_resolved r) (ct_finished r) (ct_err r) v (ct_fired r) (ct_cancelled r) (ct_gotStatus r) (ct_bodyClosed r) (ct_writing r) (ct_returned r) (ct_pooled r) (ct_lckStuck r).
Definition ctu_fired (r : cctx) (v : bool) : cctx :=
  mkCCtx (ct_tag r) (ct_req r) (ct_resp r) (ct_sid r) (ct_conn r) (ct_done r) (ct_resolved r) (ct_finished r) (ct_err r) (ct_armed r) v (ct_cancelled r) (ct_gotStatus r) (ct_bodyClosed r) (ct_writing r) (ct_returned r) (ct_pooled r) (ct_lckStuck r).
Definition ctu_cancelled (r : cctx) (v : bool) : cctx :=
  mkCCtx (ct_tag r) (ct_req r) (ct_resp r) (ct_sid r) (ct_conn r) (ct_done r) (ct_resolved r) (ct_finished r) (ct_err r) (ct_armed r) (ct_fired r) v (ct_gotStatus r) (ct_bodyClosed r) (ct_writing r) (ct_returned r) (ct_pooled r) (ct_lckStuck r).
Definition ctu_gotStatus (r : cctx) (v : bool) : cctx :=
  mkCCtx (ct_tag r) (ct_req r) (ct_resp r) (ct_sid r) (ct_conn r) (ct_done r) (ct_resolved r) (ct_finished r) (ct_err r) (ct_armed r) (ct_fired r) (ct_cancelled r) v (ct_bodyClosed r) (ct_writing r) (ct_returned r) (ct_pooled r) (ct_lckStuck r).
Definition ctu_bodyClosed (r : cctx) (v : bool) : cctx :=
  mkCCtx (ct_tag r) (ct_req r) (ct_resp r) (ct_sid r) (ct_conn r) (ct_done r) (ct_resolved r) (ct_finished r) (ct_err r) (ct_armed r) (ct_fired r) (ct_cancelled r) (ct_gotStatus r) v (ct_writing r) (ct_returned r) (ct_pooled r) (ct_lckStuck r).
Definition ctu_writing (r : cctx) (v : bool) : cctx :=
  mkCCtx (ct_tag r) (ct_req r) (ct_resp r) (ct_sid r) (ct_conn r) (ct_done r) (ct_resolved r) (ct_finished r) (ct_err r) (ct_armed r) (ct_fired r) (ct_cancelled r) (ct_gotStatus r) (ct_bodyClosed r) v (ct_returned r) (ct_pooled r) (ct_lckStuck r).
Definition ctu_returned (r : cctx) (v : bool) : cctx :=
  mkCCtx (ct_tag r) (ct_req r) (ct_resp r) (ct_sid r) (ct_conn r) (ct_done r) (ct_resolved r) (ct_finished r) (ct_err r) (ct_armed r) (ct_fired r) (ct_cancelled r) (ct_gotStatus r) (ct_bodyClosed r) (ct_writing r) v (ct_pooled r) (ct_lckStuck r).
Definition ctu_pooled (r : cctx) (v : bool) : cctx :=
  mkCCtx (ct_tag r) (ct_req r) (ct_resp r) (ct_sid r) (ct_conn r) (ct_done r) (ct_resolved r) (ct_finished r) (ct_err r) (ct_armed r) (ct_fired r) (ct_cancelled r) (ct_gotStatus r) (ct_bodyClosed r) (ct_writing r) (ct_returned r) v (ct_lckStuck r).
Definition ctu_lckStuck (r : cctx) (v : bool) : cctx :=
  mkCCtx (ct_tag r) (ct_req r) (ct_resp r) (ct_sid r) (ct_conn r) (ct_done r) (ct_resolved r) (ct_finished r) (ct_err r) (ct_armed r) (ct_fired r) (ct_cancelled r) (ct_gotStatus r) (ct_bodyClosed r) (ct_writing r) (ct_returned r) (ct_pooled r) v.
(* END generated: cctx *)

Definition cl_new_ctx (tag : N) (rq : crequest) (armed : bool) : cctx :=
  mkCCtx tag rq cl_empty_resp 0 false false false false None armed false false false false false false false false.

(* ctx.resolve(err) *)
Definition cl_ctx_resolve (x : cctx) (e : cerr) : cctx :=
  if ct_resolved x then x
  else match ct_err x with
       | None => ctu_err x (Some e)
       | Some _ => x          (* the buffer is full: select default *)
       end.

Fixpoint cl_ctxs_get (l : list cctx) (tag : N) : option cctx :=
  match l with
  | [] => None
  | x :: t => if ct_tag x =? tag then Some x else cl_ctxs_get t tag
  end.
Fixpoint cl_ctxs_put (l : list cctx) (x : cctx) : list cctx :=
  match l with
  | [] => []
  | y :: t => if ct_tag y =? ct_tag x then x :: t else y :: cl_ctxs_put t x
  end.

(* ---------- pending request bodies ---------- *)

(* BEGIN generated: cpending *)
Record cpending : Type := mkCPB {
  pb_id : N;   (* key in c.pending *)
  pb_tag : N;   (* ctx *)
  pb_body : bytes;   (* body *)
  pb_window : Z;   (* window int32 *)
  pb_stream : option (list (bytes * rerr));   (* stream: the reads the caller's reader will answer with; None = nil *)
  pb_size : Z;   (* size *)
  pb_read : Z;   (* read *)
  pb_drained : bool   (* drained *)
}.

Definition pbu_id (r : cpending) (v : N) : cpending :=
  mkCPB v (pb_tag r) (pb_body r) (pb_window r) (pb_stream r) (pb_size r) (pb_read r) (pb_drained r).
Definition pbu_tag (r : cpending) (v : N) : cpending :=
  mkCPB (pb_id r) v (pb_body r) (pb_window r) (pb_stream r) (pb_size r) (pb_read r) (pb_drained r).
Definition pbu_body (r : cpending) (v : bytes) : cpending :=
  mkCPB (pb_id r) (pb_tag r) v (pb_window r) (pb_stream r) (pb_size r) (pb_read r) (pb_drained r).
Definition pbu_window (r : cpending) (v : Z) : cpending :=
  mkCPB (pb_id r) (pb_tag r) (pb_body r) v (pb_stream r) (pb_size r) (pb_read r) (pb_drained r).
Definition pbu_stream (r : cpending) (v : option (list (bytes * rerr))) : cpending :=
  mkCPB (pb_id r) (pb_tag r) (pb_body r) (pb_window r) v (pb_size r) (pb_read r) (pb_drained r).
Definition pbu_size (r : cpending) (v : Z) : cpending :=
  mkCPB (pb_id r) (pb_tag r) (pb_body r) (pb_window r) (pb_stream r) v (pb_read r) (pb_drained r).
Definition pbu_read (r : cpending) (v : Z) : cpending :=
  mkCPB (pb_id r) (pb_tag r) (pb_body r) (pb_window r) (pb_stream r) (pb_size r) v (pb_drained r).
Definition pbu_drained (r : cpending) (v : bool) : cpending :=
  mkCPB (pb_id r) (pb_tag r) (pb_body r) (pb_window r) (pb_stream r) (pb_size r) (pb_read r) v.
(* END generated: cpending *)

(* hasMore *)
Definition cl_has_more (pb : cpending) : bool :=
  negb (cl_is_nil (pb_body pb))
  || (match pb_stream pb with Some _ => true | None => false end && negb (pb_drained pb)).

Fixpoint cl_pend_get (l : list cpending) (id : N) : option cpending :=
  match l with
  | [] => None
  | p :: t => if pb_id p =? id then Some p else cl_pend_get t id
  end.
Fixpoint cl_pend_del (l : list cpending) (id : N) : list cpending :=
  match l with
  | [] => []
  | p :: t => if pb_id p =? id then t else p :: cl_pend_del t id
  end.
Fixpoint cl_pend_put (l : list cpending) (x : cpending) : list cpending :=
  match l with
  | [] => []
  | p :: t => if pb_id p =? pb_id x then x :: t else p :: cl_pend_put t x
  end.

(* refillPending. None: the reader failed (or returned 0, nil) *)
Definition cl_refill (pb : cpending) : option cpending :=
  match pb_stream pb with
  | None => Some pb
  | Some reads =>
    let '(chunk, err, rest) :=
      match reads with
      | [] => ([], REof, [])
      | (ch, e) :: t => (ch, e, t)
      end in
    let n := Z.of_N (len chunk) in
    let pb1 := pbu_stream (pbu_read (if cl_is_nil chunk then pb else pbu_body pb chunk) (pb_read pb + n)%Z) (Some rest) in
    let by_size (p : cpending) :=
      if ((0 <=? pb_size p) && (pb_size p <=? pb_read p))%Z then pbu_drained p true else p in
    match err with
    | REof => Some (by_size (pbu_drained pb1 true))
    | RFail => None
    | RNil => if cl_is_nil chunk then None else Some (by_size pb1)
    end
  end.

(* writeData: the DATA frames one call writes. fuel >= length body *)
Fixpoint cl_data_frames (fuel : nat) (sid step : N) (body : bytes) (endb : bool) : list coutev :=
  match fuel with
  | O => [COData sid endb body]
  | S fuel' =>
    if len body <=? step then [COData sid endb body]
    else COData sid false (takeN step body) :: cl_data_frames fuel' sid step (dropN step body) endb
  end.

Definition cl_write_data (maxFrame : N) (sid : N) (body : bytes) (endb : bool) : list coutev :=
  let step := if (maxFrame =? 0) || (c_maxFrameSize <? maxFrame) then c_defaultDataFrameSize else maxFrame in
  match body with
  | [] => if endb then [COData sid true []] else []
  | _ => cl_data_frames (length body) sid step body endb
  end.

(* ---------- response header fields ---------- *)

Definition cl_resp_set_status (r : cresponse) (n : Z) := mkCResp n (cr_cl r) (cr_fields r) (cr_body r).
(* fasthttp's ResponseHeader.SetContentLength does nothing while the status is one that cannot have a body
   (mustSkipContentLength: 1xx, 204, 304) *)
Definition cl_resp_set_cl (r : cresponse) (n : Z) :=
  let st := cr_status r in
  if (negb (st =? 0) && ((st <? 200) || (st =? 204) || (st =? 304)))%Z then r
  else mkCResp (cr_status r) n (cr_fields r) (cr_body r).
Definition cl_resp_add_field (r : cresponse) (k v : bytes) := mkCResp (cr_status r) (cr_cl r) (cr_fields r ++ [(k, v)]) (cr_body r).
Definition cl_resp_append_body (r : cresponse) (d : bytes) := mkCResp (cr_status r) (cr_cl r) (cr_fields r) (cr_body r ++ [d]).

(* readHeaderField: (hdrRegularSeen, hdrStatus, res) and the error *)
Definition cl_read_header_field (rseen : bool) (status : Z) (r : cresponse) (k v : bytes)
  : bool * Z * cresponse * option cerr :=
  if is_pseudo k then
    if rseen then (rseen, status, r, Some CEMalformed)
    else if negb (bytes_eqb k S_status) then (rseen, status, r, Some CEMalformed)
    else
      match parse_uint v with
      | Some n =>
        if negb (len v =? 3) || ((n <? 100) || (999 <? n) || negb (status =? 0))%Z then (rseen, status, r, Some CEMalformed)
        else (rseen, n, cl_resp_set_status r n, None)
      | None => (rseen, status, r, Some CEMalformed)
      end
  else if has_upper_case k then (true, status, r, Some CEMalformed)
  else if is_connection_specific k then (true, status, r, Some CEMalformed)
  else if bytes_eqb k S_content_length then
    match parse_uint v with
    | Some n => (true, status, cl_resp_set_cl r n, None)
    | None => (true, status, r, Some CEMalformed)
    end
  else (true, status, cl_resp_add_field r k v, None).

Section Client.

(* ---------- the HPACK coder (parameter, as in Impl/ServerConn.v) ---------- *)
Variable hstate : Type.
Variable dec_field : hstate -> N -> bytes -> dec_res hstate.
Variable enc_field : hstate -> bytes -> bytes -> bool -> bytes * hstate.
Variable enc_set_max : hstate -> N -> hstate.

(* ---------- configuration ---------- *)
Record cl_config : Type := mkCCfg {
  ccf_armTimers : bool;      (* ClientOpts.MaxResponseTime > 0: roundTripOnce arms the cancel timer *)
  ccf_disableAcks : bool     (* ConnOpts.DisablePingChecking *)
}.
Variable cfg : cl_config.

(* ---------- connection state ---------- *)

(* BEGIN generated: cconn *)
Record cconn : Type := mkCConn {
  cc_ctxs : list cctx;   (* every Ctx handed to the connection, oldest first *)
  cc_nextID : N;   (* nextID (atomic) *)
  cc_open : Z;   (* openStreams (atomic int32) *)
  cc_maxStreams : N;   (* maxStreams (atomic uint32) *)
  cc_maxFrame : N;   (* maxFrameSize (atomic uint32) *)
  cc_goAway : bool;   (* goAway != 0 (atomic) *)
  cc_closed : bool;   (* closed == 1, i.e. done is closed *)
  cc_closing : bool;   (* a Close call is between close(done) and closing the socket *)
  cc_netClosed : bool;   (* c.c.Close() has been called *)
  cc_writeFail : bool;   (* writes to the socket fail from now on (environment) *)
  cc_enc : hstate;   (* enc (write loop) *)
  cc_encTableSize : N;   (* encTableSize (atomic) *)
  cc_encTableSeen : N;   (* encTableSizeSeen (write loop) *)
  cc_dec : hstate;   (* dec (read loop) *)
  cc_currentWindow : Z;   (* currentWindow int32 (read loop) *)
  cc_serverS : csettings;   (* serverS (read loop) *)
  cc_hdrStream : N;   (* hdrStream *)
  cc_hdrPrev : bytes;   (* hdrPrev *)
  cc_hdrFields : N;   (* hdrFields *)
  cc_hdrEndStream : bool;   (* hdrEndStream *)
  cc_hdrRegularSeen : bool;   (* hdrRegularSeen *)
  cc_hdrStatus : Z;   (* hdrStatus *)
  cc_hdrErr : option cerr;   (* hdrErr *)
  cc_stateClosed : bool;   (* state == connStateClosed (read loop) *)
  cc_closeRef : N;   (* closeRef *)
  cc_reqQueued : list (N * N);   (* reqQueued: stream id -> tag of the Ctx (reqLck) *)
  cc_pending : list cpending;   (* pending (sendLck) *)
  cc_connWindow : Z;   (* connWindow int32 (sendLck) *)
  cc_streamWindow : Z;   (* streamWindow int32 (sendLck) *)
  cc_inQ : list N;   (* in: tags of the queued Ctx *)
  cc_outQ : list coutev;   (* out: frames queued by writeOut *)
  cc_winCh : bool;   (* winCh holds its token *)
  cc_lastErr : option cerr;   (* lastErr (lastErrLck) *)
  cc_unacks : Z;   (* unacks (atomic) *)
  cc_rl_done : bool;   (* readLoop has returned *)
  cc_wl_done : bool;   (* writeLoop has returned *)
  cc_rl_stuck : bool;   (* the read loop is parked on a mutex for ever *)
  cc_wl_stuck : bool;   (* the write loop is parked on a mutex for ever *)
  cc_out : list coutev   (* the trace, newest first *)
}.

Definition ccu_ctxs (r : cconn) (v : list cctx) : cconn :=
  mkCConn v (cc_nextID r) (cc_open r) (cc_maxStreams r) (cc_maxFrame r) (cc_goAway r) (cc_closed r) (cc_closing r) (cc_netClosed r) (cc_writeFail r) (cc_enc r) (cc_encTableSize r) (cc_encTableSeen r) (cc_dec r) (cc_currentWindow r) (cc_serverS r) (cc_hdrStream r) (cc_hdrPrev r) (cc_hdrFields r) (cc_hdrEndStream r) (cc_hdrRegularSeen r) (cc_hdrStatus r) (cc_hdrErr r) (cc_stateClosed r) (cc_closeRef r) (cc_reqQueued r) (cc_pending r) (cc_connWindow r) (cc_streamWindow r) (cc_inQ r) (cc_outQ r) (cc_winCh r) (cc_lastErr r) (cc_unacks r) (cc_rl_done r) (cc_wl_done r) (cc_rl_stuck r) (cc_wl_stuck r) (cc_out r).
Definition ccu_nextID (r : cconn) (v : N) : cconn :=
  mkCConn (cc_ctxs r) v (cc_open r) (cc_maxStreams r) (cc_maxFrame r) (cc_goAway r) (cc_closed r) (cc_closing r) (cc_netClosed r) (cc_writeFail r) (cc_enc r) (cc_encTableSize r) (cc_encTableSeen r) (cc_dec r) (cc_currentWindow r) (cc_serverS r) (cc_hdrStream r) (cc_hdrPrev r) (cc_hdrFields r) (cc_hdrEndStream r) (cc_hdrRegularSeen r) (cc_hdrStatus r) (cc_hdrErr r) (cc_stateClosed r) (cc_closeRef r) (cc_reqQueued r) (cc_pending r) (cc_connWindow r) (cc_streamWindow r) (cc_inQ r) (cc_outQ r) (cc_winCh r) (cc_lastErr r) (cc_unacks r) (cc_rl_done r) (cc_wl_done r) (cc_rl_stuck r) (cc_wl_stuck r) (cc_out r).
Definition ccu_open (r : cconn) (v : Z) : cconn :=
  mkCConn (cc_ctxs r) (cc_nextID r) v (cc_maxStreams r) (cc_maxFrame r) (cc_goAway r) (cc_closed r) (cc_closing r) (cc_netClosed r) (cc_writeFail r) (cc_enc r) (cc_encTableSize r) (cc_encTableSeen r) (cc_dec r) (cc_currentWindow r) (cc_serverS r) (cc_hdrStream r) (cc_hdrPrev r) (cc_hdrFields r) (cc_hdrEndStream r) (cc_hdrRegularSeen r) (cc_hdrStatus r) (cc_hdrErr r) (cc_stateClosed r) (cc_closeRef r) (cc_reqQueued r) (cc_pending r) (cc_connWindow r) (cc_streamWindow r) (cc_inQ r) (cc_outQ r) (cc_winCh r) (cc_lastErr r) (cc_unacks r) (cc_rl_done r) (cc_wl_done r) (cc_rl_stuck r) (cc_wl_stuck r) (cc_out r).
Definition ccu_maxStreams (r : cconn) (v : N) : cconn :=
  mkCConn (cc_ctxs r) (cc_nextID r) (cc_open r) v (cc_maxFrame r) (cc_goAway r) (cc_closed r) (cc_closing r) (cc_netClosed r) (cc_writeFail r) (cc_enc r) (cc_encTableSize r) (cc_encTableSeen r) (cc_dec r) (cc_currentWindow r) (cc_serverS r) (cc_hdrStream r) (cc_hdrPrev r) (cc_hdrFields r) (cc_hdrEndStream r) (cc_hdrRegularSeen r) (cc_hdrStatus r) (cc_hdrErr r) (cc_stateClosed r) (cc_closeRef r) (cc_reqQueued r) (cc_pending r) (cc_connWindow r) (cc_streamWindow r) (cc_inQ r) (cc_outQ r) (cc_winCh r) (cc_lastErr r) (cc_unacks r) (cc_rl_done r) (cc_wl_done r) (cc_rl_stuck r) (cc_wl_stuck r) (cc_out r).
Definition ccu_maxFrame (r : cconn) (v : N) : cconn :=
  mkCConn (cc_ctxs r) (cc_nextID r) (cc_open r) (cc_maxStreams r) v (cc_goAway r) (cc_closed r) (cc_closing r) (cc_netClosed r) (cc_writeFail r) (cc_enc r) (cc_encTableSize r) (cc_encTableSeen r) (cc_dec r) (cc_currentWindow r) (cc_serverS r) (cc_hdrStream r) (cc_hdrPrev r) (cc_hdrFields r) (cc_hdrEndStream r) (cc_hdrRegularSeen r) (cc_hdrStatus r) (cc_hdrErr r) (cc_stateClosed r) (cc_closeRef r) (cc_reqQueued r) (cc_pending r) (cc_connWindow r) (cc_streamWindow r) (cc_inQ r) (cc_outQ r) (cc_winCh r) (cc_lastErr r) (cc_unacks r) (cc_rl_done r) (cc_wl_done r) (cc_rl_stuck r) (cc_wl_stuck r) (cc_out r).
Definition ccu_goAway (r : cconn) (v : bool) : cconn :=
  mkCConn (cc_ctxs r) (cc_nextID r) (cc_open r) (cc_maxStreams r) (cc_maxFrame r) v (cc_closed r) (cc_closing r) (cc_netClosed r) (cc_writeFail r) (cc_enc r) (cc_encTableSize r) (cc_encTableSeen r) (cc_dec r) (cc_currentWindow r) (cc_serverS r) (cc_hdrStream r) (cc_hdrPrev r) (cc_hdrFields r) (cc_hdrEndStream r) (cc_hdrRegularSeen r) (cc_hdrStatus r) (cc_hdrErr r) (cc_stateClosed r) (cc_closeRef r) (cc_reqQueued r) (cc_pending r) (cc_connWindow r) (cc_streamWindow r) (cc_inQ r) (cc_outQ r) (cc_winCh r) (cc_lastErr r) (cc_unacks r) (cc_rl_done r) (cc_wl_done r) (cc_rl_stuck r) (cc_wl_stuck r) (cc_out r).
Definition ccu_closed (r : cconn) (v : bool) : cconn :=
  mkCConn (cc_ctxs r) (cc_nextID r) (cc_open r) (cc_maxStreams r) (cc_maxFrame r) (cc_goAway r) v (cc_closing r) (cc_netClosed r) (cc_writeFail r) (cc_enc r) (cc_encTableSize r) (cc_encTableSeen r) (cc_dec r) (cc_currentWindow r) (cc_serverS r) (cc_hdrStream r) (cc_hdrPrev r) (cc_hdrFields r) (cc_hdrEndStream r) (cc_hdrRegularSeen r) (cc_hdrStatus r) (cc_hdrErr r) (cc_stateClosed r) (cc_closeRef r) (cc_reqQueued r) (cc_pending r) (cc_connWindow r) (cc_streamWindow r) (cc_inQ r) (cc_outQ r) (cc_winCh r) (cc_lastErr r) (cc_unacks r) (cc_rl_done r) (cc_wl_done r) (cc_rl_stuck r) (cc_wl_stuck r) (cc_out r).
Definition ccu_closing (r : cconn) (v : bool) : cconn :=
  mkCConn (cc_ctxs r) (cc_nextID r) (cc_open r) (cc_maxStreams r) (cc_maxFrame r) (cc_goAway r) (cc_closed r) v (cc_netClosed r) (cc_writeFail r) (cc_enc r) (cc_encTableSize r) (cc_encTableSeen r) (cc_dec r) (cc_currentWindow r) (cc_serverS r) (cc_hdrStream r) (cc_hdrPrev r) (cc_hdrFields r) (cc_hdrEndStream r) (cc_hdrRegularSeen r) (cc_hdrStatus r) (cc_hdrErr r) (cc_stateClosed r) (cc_closeRef r) (cc_reqQueued r) (cc_pending r) (cc_connWindow r) (cc_streamWindow r) (cc_inQ r) (cc_outQ r) (cc_winCh r) (cc_lastErr r) (cc_unacks r) (cc_rl_done r) (cc_wl_done r) (cc_rl_stuck r) (cc_wl_stuck r) (cc_out r).
Definition ccu_netClosed (r : cconn) (v : bool) : cconn :=
  mkCConn (cc_ctxs r) (cc_nextID r) (cc_open r) (cc_maxStreams r) (cc_maxFrame r) (cc_goAway r) (cc_closed r) (cc_closing r) v (cc_writeFail r) (cc_enc r) (cc_encTableSize r) (cc_encTableSeen r) (cc_dec r) (cc_currentWindow r) (cc_serverS r) (cc_hdrStream r) (cc_hdrPrev r) (cc_hdrFields r) (cc_hdrEndStream r) (cc_hdrRegularSeen r) (cc_hdrStatus r) (cc_hdrErr r) (cc_stateClosed r) (cc_closeRef r) (cc_reqQueued r) (cc_pending r) (cc_connWindow r) (cc_streamWindow r) (cc_inQ r) (cc_outQ r) (cc_winCh r) (cc_lastErr r) (cc_unacks r) (cc_rl_done r) (cc_wl_done r) (cc_rl_stuck r) (cc_wl_stuck r) (cc_out r).
Definition ccu_writeFail (r : cconn) (v : bool) : cconn :=
  mkCConn (cc_ctxs r) (cc_nextID r) (cc_open r) (cc_maxStreams r) (cc_maxFrame r) (cc_goAway r) (cc_closed r) (cc_closing r) (cc_netClosed r) v (cc_enc r) (cc_encTableSize r) (cc_encTableSeen r) (cc_dec r) (cc_currentWindow r) (cc_serverS r) (cc_hdrStream r) (cc_hdrPrev r) (cc_hdrFields r) (cc_hdrEndStream r) (cc_hdrRegularSeen r) (cc_hdrStatus r) (cc_hdrErr r) (cc_stateClosed r) (cc_closeRef r) (cc_reqQueued r) (cc_pending r) (cc_connWindow r) (cc_streamWindow r) (cc_inQ r) (cc_outQ r) (cc_winCh r) (cc_lastErr r) (cc_unacks r) (cc_rl_done r) (cc_wl_done r) (cc_rl_stuck r) (cc_wl_stuck r) (cc_out r).
Definition ccu_enc (r : cconn) (v : hstate) : cconn :=
  mkCConn (cc_ctxs r) (cc_nextID r) (cc_open r) (cc_maxStreams r) (cc_maxFrame r) (cc_goAway r) (cc_closed r) (cc_closing r) (cc_netClosed r) (cc_writeFail r) v (cc_encTableSize r) (cc_encTableSeen r) (cc_dec r) (cc_currentWindow r) (cc_serverS r) (cc_hdrStream r) (cc_hdrPrev r) (cc_hdrFields r) (cc_hdrEndStream r) (cc_hdrRegularSeen r) (cc_hdrStatus r) (cc_hdrErr r) (cc_stateClosed r) (cc_closeRef r) (cc_reqQueued r) (cc_pending r) (cc_connWindow r) (cc_streamWindow r) (cc_inQ r) (cc_outQ r) (cc_winCh r) (cc_lastErr r) (cc_unacks r) (cc_rl_done r) (cc_wl_done r) (cc_rl_stuck r) (cc_wl_stuck r) (cc_out r).
Definition ccu_encTableSize (r : cconn) (v : N) : cconn :=
  mkCConn (cc_ctxs r) (cc_nextID r) (cc_open r) (cc_maxStreams r) (cc_maxFrame r) (cc_goAway r) (cc_closed r) (cc_closing r) (cc_netClosed r) (cc_writeFail r) (cc_enc r) v (cc_encTableSeen r) (cc_dec r) (cc_currentWindow r) (cc_serverS r) (cc_hdrStream r) (cc_hdrPrev r) (cc_hdrFields r) (cc_hdrEndStream r) (cc_hdrRegularSeen r) (cc_hdrStatus r) (cc_hdrErr r) (cc_stateClosed r) (cc_closeRef r) (cc_reqQueued r) (cc_pending r) (cc_connWindow r) (cc_streamWindow r) (cc_inQ r) (cc_outQ r) (cc_winCh r) (cc_lastErr r) (cc_unacks r) (cc_rl_done r) (cc_wl_done r) (cc_rl_stuck r) (cc_wl_stuck r) (cc_out r).
Definition ccu_encTableSeen (r : cconn) (v : N) : cconn :=
  mkCConn (cc_ctxs r) (cc_nextID r) (cc_open r) (cc_maxStreams r) (cc_maxFrame r) (cc_goAway r) (cc_closed r) (cc_closing r) (cc_netClosed r) (cc_writeFail r) (cc_enc r) (cc_encTableSize r) v (cc_dec r) (cc_currentWindow r) (cc_serverS r) (cc_hdrStream r) (cc_hdrPrev r) (cc_hdrFields r) (cc_hdrEndStream r) (cc_hdrRegularSeen r) (cc_hdrStatus r) (cc_hdrErr r) (cc_stateClosed r) (cc_closeRef r) (cc_reqQueued r) (cc_pending r) (cc_connWindow r) (cc_streamWindow r) (cc_inQ r) (cc_outQ r) (cc_winCh r) (cc_lastErr r) (cc_unacks r) (cc_rl_done r) (cc_wl_done r) (cc_rl_stuck r) (cc_wl_stuck r) (cc_out r).
Definition ccu_dec (r : cconn) (v : hstate) : cconn :=
  mkCConn (cc_ctxs r) (cc_nextID r) (cc_open r) (cc_maxStreams r) (cc_maxFrame r) (cc_goAway r) (cc_closed r) (cc_closing r) (cc_netClosed r) (cc_writeFail r) (cc_enc r) (cc_encTableSize r) (cc_encTableSeen r) v (cc_currentWindow r) (cc_serverS r) (cc_hdrStream r) (cc_hdrPrev r) (cc_hdrFields r) (cc_hdrEndStream r) (cc_hdrRegularSeen r) (cc_hdrStatus r) (cc_hdrErr r) (cc_stateClosed r) (cc_closeRef r) (cc_reqQueued r) (cc_pending r) (cc_connWindow r) (cc_streamWindow r) (cc_inQ r) (cc_outQ r) (cc_winCh r) (cc_lastErr r) (cc_unacks r) (cc_rl_done r) (cc_wl_done r) (cc_rl_stuck r) (cc_wl_stuck r) (cc_out r).
Definition ccu_currentWindow (r : cconn) (v : Z) : cconn :=
  mkCConn (cc_ctxs r) (cc_nextID r) (cc_open r) (cc_maxStreams r) (cc_maxFrame r) (cc_goAway r) (cc_closed r) (cc_closing r) (cc_netClosed r) (cc_writeFail r) (cc_enc r) (cc_encTableSize r) (cc_encTableSeen r) (cc_dec r) v (cc_serverS r) (cc_hdrStream r) (cc_hdrPrev r) (cc_hdrFields r) (cc_hdrEndStream r) (cc_hdrRegularSeen r) (cc_hdrStatus r) (cc_hdrErr r) (cc_stateClosed r) (cc_closeRef r) (cc_reqQueued r) (cc_pending r) (cc_connWindow r) (cc_streamWindow r) (cc_inQ r) (cc_outQ r) (cc_winCh r) (cc_lastErr r) (cc_unacks r) (cc_rl_done r) (cc_wl_done r) (cc_rl_stuck r) (cc_wl_stuck r) (cc_out r).
Definition ccu_serverS (r : cconn) (v : csettings) : cconn :=
  mkCConn (cc_ctxs r) (cc_nextID r) (cc_open r) (cc_maxStreams r) (cc_maxFrame r) (cc_goAway r) (cc_closed r) (cc_closing r) (cc_netClosed r) (cc_writeFail r) (cc_enc r) (cc_encTableSize r) (cc_encTableSeen r) (cc_dec r) (cc_currentWindow r) v (cc_hdrStream r) (cc_hdrPrev r) (cc_hdrFields r) (cc_hdrEndStream r) (cc_hdrRegularSeen r) (cc_hdrStatus r) (cc_hdrErr r) (cc_stateClosed r) (cc_closeRef r) (cc_reqQueued r) (cc_pending r) (cc_connWindow r) (cc_streamWindow r) (cc_inQ r) (cc_outQ r) (cc_winCh r) (cc_lastErr r) (cc_unacks r) (cc_rl_done r) (cc_wl_done r) (cc_rl_stuck r) (cc_wl_stuck r) (cc_out r).
Definition ccu_hdrStream (r : cconn) (v : N) : cconn :=
  mkCConn (cc_ctxs r) (cc_nextID r) (cc_open r) (cc_maxStreams r) (cc_maxFrame r) (cc_goAway r) (cc_closed r) (cc_closing r) (cc_netClosed r) (cc_writeFail r) (cc_enc r) (cc_encTableSize r) (cc_encTableSeen r) (cc_dec r) (cc_currentWindow r) (cc_serverS r) v (cc_hdrPrev r) (cc_hdrFields r) (cc_hdrEndStream r) (cc_hdrRegularSeen r) (cc_hdrStatus r) (cc_hdrErr r) (cc_stateClosed r) (cc_closeRef r) (cc_reqQueued r) (cc_pending r) (cc_connWindow r) (cc_streamWindow r) (cc_inQ r) (cc_outQ r) (cc_winCh r) (cc_lastErr r) (cc_unacks r) (cc_rl_done r) (cc_wl_done r) (cc_rl_stuck r) (cc_wl_stuck r) (cc_out r).
Definition ccu_hdrPrev (r : cconn) (v : bytes) : cconn :=
  mkCConn (cc_ctxs r) (cc_nextID r) (cc_open r) (cc_maxStreams r) (cc_maxFrame r) (cc_goAway r) (cc_closed r) (cc_closing r) (cc_netClosed r) (cc_writeFail r) (cc_enc r) (cc_encTableSize r) (cc_encTableSeen r) (cc_dec r) (cc_currentWindow r) (cc_serverS r) (cc_hdrStream r) v (cc_hdrFields r) (cc_hdrEndStream r) (cc_hdrRegularSeen r) (cc_hdrStatus r) (cc_hdrErr r) (cc_stateClosed r) (cc_closeRef r) (cc_reqQueued r) (cc_pending r) (cc_connWindow r) (cc_streamWindow r) (cc_inQ r) (cc_outQ r) (cc_winCh r) (cc_lastErr r) (cc_unacks r) (cc_rl_done r) (cc_wl_done r) (cc_rl_stuck r) (cc_wl_stuck r) (cc_out r).
Definition ccu_hdrFields (r : cconn) (v : N) : cconn :=
  mkCConn (cc_ctxs r) (cc_nextID r) (cc_open r) (cc_maxStreams r) (cc_maxFrame r) (cc_goAway r) (cc_closed r) (cc_closing r) (cc_netClosed r) (cc_writeFail r) (cc_enc r) (cc_encTableSize r) (cc_encTableSeen r) (cc_dec r) (cc_currentWindow r) (cc_serverS r) (cc_hdrStream r) (cc_hdrPrev r) v (cc_hdrEndStream r) (cc_hdrRegularSeen r) (cc_hdrStatus r) (cc_hdrErr r) (cc_stateClosed r) (cc_closeRef r) (cc_reqQueued r) (cc_pending r) (cc_connWindow r) (cc_streamWindow r) (cc_inQ r) (cc_outQ r) (cc_winCh r) (cc_lastErr r) (cc_unacks r) (cc_rl_done r) (cc_wl_done r) (cc_rl_stuck r) (cc_wl_stuck r) (cc_out r).
Definition ccu_hdrEndStream (r : cconn) (v : bool) : cconn :=
  mkCConn (cc_ctxs r) (cc_nextID r) (cc_open r) (cc_maxStreams r) (cc_maxFrame r) (cc_goAway r) (cc_closed r) (cc_closing r) (cc_netClosed r) (cc_writeFail r) (cc_enc r) (cc_encTableSize r) (cc_encTableSeen r) (cc_dec r) (cc_currentWindow r) (cc_serverS r) (cc_hdrStream r) (cc_hdrPrev r) (cc_hdrFields r) v (cc_hdrRegularSeen r) (cc_hdrStatus r) (cc_hdrErr r) (cc_stateClosed r) (cc_closeRef r) (cc_reqQueued r) (cc_pending r) (cc_connWindow r) (cc_streamWindow r) (cc_inQ r) (cc_outQ r) (cc_winCh r) (cc_lastErr r) (cc_unacks r) (cc_rl_done r) (cc_wl_done r) (cc_rl_stuck r) (cc_wl_stuck r) (cc_out r).
Definition ccu_hdrRegularSeen (r : cconn) (v : bool) : cconn :=
  mkCConn (cc_ctxs r) (cc_nextID r) (cc_open r) (cc_maxStreams r) (cc_maxFrame r) (cc_goAway r) (cc_closed r) (cc_closing r) (cc_netClosed r) (cc_writeFail r) (cc_enc r) (cc_encTableSize r) (cc_encTableSeen r) (cc_dec r) (cc_currentWindow r) (cc_serverS r) (cc_hdrStream r) (cc_hdrPrev r) (cc_hdrFields r) (cc_hdrEndStream r) v (cc_hdrStatus r) (cc_hdrErr r) (cc_stateClosed r) (cc_closeRef r) (cc_reqQueued r) (cc_pending r) (cc_connWindow r) (cc_streamWindow r) (cc_inQ r) (cc_outQ r) (cc_winCh r) (cc_lastErr r) (cc_unacks r) (cc_rl_done r) (cc_wl_done r) (cc_rl_stuck r) (cc_wl_stuck r) (cc_out r).
Definition ccu_hdrStatus (r : cconn) (v : Z) : cconn :=
  mkCConn (cc_ctxs r) (cc_nextID r) (cc_open r) (cc_maxStreams r) (cc_maxFrame r) (cc_goAway r) (cc_closed r) (cc_closing r) (cc_netClosed r) (cc_writeFail r) (cc_enc r) (cc_encTableSize r) (cc_encTableSeen r) (cc_dec r) (cc_currentWindow r) (cc_serverS r) (cc_hdrStream r) (cc_hdrPrev r) (cc_hdrFields r) (cc_hdrEndStream r) (cc_hdrRegularSeen r) v (cc_hdrErr r) (cc_stateClosed r) (cc_closeRef r) (cc_reqQueued r) (cc_pending r) (cc_connWindow r) (cc_streamWindow r) (cc_inQ r) (cc_outQ r) (cc_winCh r) (cc_lastErr r) (cc_unacks r) (cc_rl_done r) (cc_wl_done r) (cc_rl_stuck r) (cc_wl_stuck r) (cc_out r).
Definition ccu_hdrErr (r : cconn) (v : option cerr) : cconn :=
  mkCConn (cc_ctxs r) (cc_nextID r) (cc_open r) (cc_maxStreams r) (cc_maxFrame r) (cc_goAway r) (cc_closed r) (cc_closing r) (cc_netClosed r) (cc_writeFail r) (cc_enc r) (cc_encTableSize r) (cc_encTableSeen r) (cc_dec r) (cc_currentWindow r) (cc_serverS r) (cc_hdrStream r) (cc_hdrPrev r) (cc_hdrFields r) (cc_hdrEndStream r) (cc_hdrRegularSeen r) (cc_hdrStatus r) v (cc_stateClosed r) (cc_closeRef r) (cc_reqQueued r) (cc_pending r) (cc_connWindow r) (cc_streamWindow r) (cc_inQ r) (cc_outQ r) (cc_winCh r) (cc_lastErr r) (cc_unacks r) (cc_rl_done r) (cc_wl_done r) (cc_rl_stuck r) (cc_wl_stuck r) (cc_out r).
Definition ccu_stateClosed (r : cconn) (v : bool) : cconn :=
  mkCConn (cc_ctxs r) (cc_nextID r) (cc_open r) (cc_maxStreams r) (cc_maxFrame r) (cc_goAway r) (cc_closed r) (cc_closing r) (cc_netClosed r) (cc_writeFail r) (cc_enc r) (cc_encTableSize r) (cc_encTableSeen r) (cc_dec r) (cc_currentWindow r) (cc_serverS r) (cc_hdrStream r) (cc_hdrPrev r) (cc_hdrFields r) (cc_hdrEndStream r) (cc_hdrRegularSeen r) (cc_hdrStatus r) (cc_hdrErr r) v (cc_closeRef r) (cc_reqQueued r) (cc_pending r) (cc_connWindow r) (cc_streamWindow r) (cc_inQ r) (cc_outQ r) (cc_winCh r) (cc_lastErr r) (cc_unacks r) (cc_rl_done r) (cc_wl_done r) (cc_rl_stuck r) (cc_wl_stuck r) (cc_out r).
Definition ccu_closeRef (r : cconn) (v : N) : cconn :=
  mkCConn (cc_ctxs r) (cc_nextID r) (cc_open r) (cc_maxStreams r) (cc_maxFrame r) (cc_goAway r) (cc_closed r) (cc_closing r) (cc_netClosed r) (cc_writeFail r) (cc_enc r) (cc_encTableSize r) (cc_encTableSeen r) (cc_dec r) (cc_currentWindow r) (cc_serverS r) (cc_hdrStream r) (cc_hdrPrev r) (cc_hdrFields r) (cc_hdrEndStream r) (cc_hdrRegularSeen r) (cc_hdrStatus r) (cc_hdrErr r) (cc_stateClosed r) v (cc_reqQueued r) (cc_pending r) (cc_connWindow r) (cc_streamWindow r) (cc_inQ r) (cc_outQ r) (cc_winCh r) (cc_lastErr r) (cc_unacks r) (cc_rl_done r) (cc_wl_done r) (cc_rl_stuck r) (cc_wl_stuck r) (cc_out r).
Definition ccu_reqQueued (r : cconn) (v : list (N * N)) : cconn :=
  mkCConn (cc_ctxs r) (cc_nextID r) (cc_open r) (cc_maxStreams r) (cc_maxFrame r) (cc_goAway r) (cc_closed r) (cc_closing r) (cc_netClosed r) (cc_writeFail r) (cc_enc r) (cc_encTableSize r) (cc_encTableSeen r) (cc_dec r) (cc_currentWindow r) (cc_serverS r) (cc_hdrStream r) (cc_hdrPrev r) (cc_hdrFields r) (cc_hdrEndStream r) (cc_hdrRegularSeen r) (cc_hdrStatus r) (cc_hdrErr r) (cc_stateClosed r) (cc_closeRef r) v (cc_pending r) (cc_connWindow r) (cc_streamWindow r) (cc_inQ r) (cc_outQ r) (cc_winCh r) (cc_lastErr r) (cc_unacks r) (cc_rl_done r) (cc_wl_done r) (cc_rl_stuck r) (cc_wl_stuck r) (cc_out r).
Definition ccu_pending (r : cconn) (v : list cpending) : cconn :=
  mkCConn (cc_ctxs r) (cc_nextID r) (cc_open r) (cc_maxStreams r) (cc_maxFrame r) (cc_goAway r) (cc_closed r) (cc_closing r) (cc_netClosed r) (cc_writeFail r) (cc_enc r) (cc_encTableSize r) (cc_encTableSeen r) (cc_dec r) (cc_currentWindow r) (cc_serverS r) (cc_hdrStream r) (cc_hdrPrev r) (cc_hdrFields r) (cc_hdrEndStream r) (cc_hdrRegularSeen r) (cc_hdrStatus r) (cc_hdrErr r) (cc_stateClosed r) (cc_closeRef r) (cc_reqQueued r) v (cc_connWindow r) (cc_streamWindow r) (cc_inQ r) (cc_outQ r) (cc_winCh r) (cc_lastErr r) (cc_unacks r) (cc_rl_done r) (cc_wl_done r) (cc_rl_stuck r) (cc_wl_stuck r) (cc_out r).
Definition ccu_connWindow (r : cconn) (v : Z) : cconn :=
  mkCConn (cc_ctxs r) (cc_nextID r) (cc_open r) (cc_maxStreams r) (cc_maxFrame r) (cc_goAway r) (cc_closed r) (cc_closing r) (cc_netClosed r) (cc_writeFail r) (cc_enc r) (cc_encTableSize r) (cc_encTableSeen r) (cc_dec r) (cc_currentWindow r) (cc_serverS r) (cc_hdrStream r) (cc_hdrPrev r) (cc_hdrFields r) (cc_hdrEndStream r) (cc_hdrRegularSeen r) (cc_hdrStatus r) (cc_hdrErr r) (cc_stateClosed r) (cc_closeRef r) (cc_reqQueued r) (cc_pending r) v (cc_streamWindow r) (cc_inQ r) (cc_outQ r) (cc_winCh r) (cc_lastErr r) (cc_unacks r) (cc_rl_done r) (cc_wl_done r) (cc_rl_stuck r) (cc_wl_stuck r) (cc_out r).
Definition ccu_streamWindow (r : cconn) (v : Z) : cconn :=
  mkCConn (cc_ctxs r) (cc_nextID r) (cc_open r) (cc_maxStreams r) (cc_maxFrame r) (cc_goAway r) (cc_closed r) (cc_closing r) (cc_netClosed r) (cc_writeFail r) (cc_enc r) (cc_encTableSize r) (cc_encTableSeen r) (cc_dec r) (cc_currentWindow r) (cc_serverS r) (cc_hdrStream r) (cc_hdrPrev r) (cc_hdrFields r) (cc_hdrEndStream r) (cc_hdrRegularSeen r) (cc_hdrStatus r) (cc_hdrErr r) (cc_stateClosed r) (cc_closeRef r) (cc_reqQueued r) (cc_pending r) (cc_connWindow r) v (cc_inQ r) (cc_outQ r) (cc_winCh r) (cc_lastErr r) (cc_unacks r) (cc_rl_done r) (cc_wl_done r) (cc_rl_stuck r) (cc_wl_stuck r) (cc_out r).
Definition ccu_inQ (r : cconn) (v : list N) : cconn :=
  mkCConn (cc_ctxs r) (cc_nextID r) (cc_open r) (cc_maxStreams r) (cc_maxFrame r) (cc_goAway r) (cc_closed r) (cc_closing r) (cc_netClosed r) (cc_writeFail r) (cc_enc r) (cc_encTableSize r) (cc_encTableSeen r) (cc_dec r) (cc_currentWindow r) (cc_serverS r) (cc_hdrStream r) (cc_hdrPrev r) (cc_hdrFields r) (cc_hdrEndStream r) (cc_hdrRegularSeen r) (cc_hdrStatus r) (cc_hdrErr r) (cc_stateClosed r) (cc_closeRef r) (cc_reqQueued r) (cc_pending r) (cc_connWindow r) (cc_streamWindow r) v (cc_outQ r) (cc_winCh r) (cc_lastErr r) (cc_unacks r) (cc_rl_done r) (cc_wl_done r) (cc_rl_stuck r) (cc_wl_stuck r) (cc_out r).
Definition ccu_outQ (r : cconn) (v : list coutev) : cconn :=
  mkCConn (cc_ctxs r) (cc_nextID r) (cc_open r) (cc_maxStreams r) (cc_maxFrame r) (cc_goAway r) (cc_closed r) (cc_closing r) (cc_netClosed r) (cc_writeFail r) (cc_enc r) (cc_encTableSize r) (cc_encTableSeen r) (cc_dec r) (cc_currentWindow r) (cc_serverS r) (cc_hdrStream r) (cc_hdrPrev r) (cc_hdrFields r) (cc_hdrEndStream r) (cc_hdrRegularSeen r) (cc_hdrStatus r) (cc_hdrErr r) (cc_stateClosed r) (cc_closeRef r) (cc_reqQueued r) (cc_pending r) (cc_connWindow r) (cc_streamWindow r) (cc_inQ r) v (cc_winCh r) (cc_lastErr r) (cc_unacks r) (cc_rl_done r) (cc_wl_done r) (cc_rl_stuck r) (cc_wl_stuck r) (cc_out r).
Definition ccu_winCh (r : cconn) (v : bool) : cconn :=
  mkCConn (cc_ctxs r) (cc_nextID r) (cc_open r) (cc_maxStreams r) (cc_maxFrame r) (cc_goAway r) (cc_closed r) (cc_closing r) (cc_netClosed r) (cc_writeFail r) (cc_enc r) (cc_encTableSize r) (cc_encTableSeen r) (cc_dec r) (cc_currentWindow r) (cc_serverS r) (cc_hdrStream r) (cc_hdrPrev r) (cc_hdrFields r) (cc_hdrEndStream r) (cc_hdrRegularSeen r) (cc_hdrStatus r) (cc_hdrErr r) (cc_stateClosed r) (cc_closeRef r) (cc_reqQueued r) (cc_pending r) (cc_connWindow r) (cc_streamWindow r) (cc_inQ r) (cc_outQ r) v (cc_lastErr r) (cc_unacks r) (cc_rl_done r) (cc_wl_done r) (cc_rl_stuck r) (cc_wl_stuck r) (cc_out r).
Definition ccu_lastErr (r : cconn) (v : option cerr) : cconn :=
  mkCConn (cc_ctxs r) (cc_nextID r) (cc_open r) (cc_maxStreams r) (cc_maxFrame r) (cc_goAway r) (cc_closed r) (cc_closing r) (cc_netClosed r) (cc_writeFail r) (cc_enc r) (cc_encTableSize r) (cc_encTableSeen r) (cc_dec r) (cc_currentWindow r) (cc_serverS r) (cc_hdrStream r) (cc_hdrPrev r) (cc_hdrFields r) (cc_hdrEndStream r) (cc_hdrRegularSeen r) (cc_hdrStatus r) (cc_hdrErr r) (cc_stateClosed r) (cc_closeRef r) (cc_reqQueued r) (cc_pending r) (cc_connWindow r) (cc_streamWindow r) (cc_inQ r) (cc_outQ r) (cc_winCh r) v (cc_unacks r) (cc_rl_done r) (cc_wl_done r) (cc_rl_stuck r) (cc_wl_stuck r) (cc_out r).
Definition ccu_unacks (r : cconn) (v : Z) : cconn :=
  mkCConn (cc_ctxs r) (cc_nextID r) (cc_open r) (cc_maxStreams r) (cc_maxFrame r) (cc_goAway r) (cc_closed r) (cc_closing r) (cc_netClosed r) (cc_writeFail r) (cc_enc r) (cc_encTableSize r) (cc_encTableSeen r) (cc_dec r) (cc_currentWindow r) (cc_serverS r) (cc_hdrStream r) (cc_hdrPrev r) (cc_hdrFields r) (cc_hdrEndStream r) (cc_hdrRegularSeen r) (cc_hdrStatus r) (cc_hdrErr r) (cc_stateClosed r) (cc_closeRef r) (cc_reqQueued r) (cc_pending r) (cc_connWindow r) (cc_streamWindow r) (cc_inQ r) (cc_outQ r) (cc_winCh r) (cc_lastErr r) v (cc_rl_done r) (cc_wl_done r) (cc_rl_stuck r) (cc_wl_stuck r) (cc_out r).
Definition ccu_rl_done (r : cconn) (v : bool) : cconn :=
  mkCConn (cc_ctxs r) (cc_nextID r) (cc_open r) (cc_maxStreams r) (cc_maxFrame r) (cc_goAway r) (cc_closed r) (cc_closing r) (cc_netClosed r) (cc_writeFail r) (cc_enc r) (cc_encTableSize r) (cc_encTableSeen r) (cc_dec r) (cc_currentWindow r) (cc_serverS r) (cc_hdrStream r) (cc_hdrPrev r) (cc_hdrFields r) (cc_hdrEndStream r) (cc_hdrRegularSeen r) (cc_hdrStatus r) (cc_hdrErr r) (cc_stateClosed r) (cc_closeRef r) (cc_reqQueued r) (cc_pending r) (cc_connWindow r) (cc_streamWindow r) (cc_inQ r) (cc_outQ r) (cc_winCh r) (cc_lastErr r) (cc_unacks r) v (cc_wl_done r) (cc_rl_stuck r) (cc_wl_stuck r) (cc_out r).
Definition ccu_wl_done (r : cconn) (v : bool) : cconn :=
  mkCConn (cc_ctxs r) (cc_nextID r) (cc_open r) (cc_maxStreams r) (cc_maxFrame r) (cc_goAway r) (cc_closed r) (cc_closing r) (cc_netClosed r) (cc_writeFail r) (cc_enc r) (cc_encTableSize r) (cc_encTableSeen r) (cc_dec r) (cc_currentWindow r) (cc_serverS r) (cc_hdrStream r) (cc_hdrPrev r) (cc_hdrFields r) (cc_hdrEndStream r) (cc_hdrRegularSeen r) (cc_hdrStatus r) (cc_hdrErr r) (cc_stateClosed r) (cc_closeRef r) (cc_reqQueued r) (cc_pending r) (cc_connWindow r) (cc_streamWindow r) (cc_inQ r) (cc_outQ r) (cc_winCh r) (cc_lastErr r) (cc_unacks r) (cc_rl_done r) v (cc_rl_stuck r) (cc_wl_stuck r) (cc_out r).
Definition ccu_rl_stuck (r : cconn) (v : bool) : cconn :=
  mkCConn (cc_ctxs r) (cc_nextID r) (cc_open r) (cc_maxStreams r) (cc_maxFrame r) (cc_goAway r) (cc_closed r) (cc_closing r) (cc_netClosed r) (cc_writeFail r) (cc_enc r) (cc_encTableSize r) (cc_encTableSeen r) (cc_dec r) (cc_currentWindow r) (cc_serverS r) (cc_hdrStream r) (cc_hdrPrev r) (cc_hdrFields r) (cc_hdrEndStream r) (cc_hdrRegularSeen r) (cc_hdrStatus r) (cc_hdrErr r) (cc_stateClosed r) (cc_closeRef r) (cc_reqQueued r) (cc_pending r) (cc_connWindow r) (cc_streamWindow r) (cc_inQ r) (cc_outQ r) (cc_winCh r) (cc_lastErr r) (cc_unacks r) (cc_rl_done r) (cc_wl_done r) v (cc_wl_stuck r) (cc_out r).
Definition ccu_wl_stuck (r : cconn) (v : bool) : cconn :=
  mkCConn (cc_ctxs r) (cc_nextID r) (cc_open r) (cc_maxStreams r) (cc_maxFrame r) (cc_goAway r) (cc_closed r) (cc_closing r) (cc_netClosed r) (cc_writeFail r) (cc_enc r) (cc_encTableSize r) (cc_encTableSeen r) (cc_dec r) (cc_currentWindow r) (cc_serverS r) (cc_hdrStream r) (cc_hdrPrev r) (cc_hdrFields r) (cc_hdrEndStream r) (cc_hdrRegularSeen r) (cc_hdrStatus r) (cc_hdrErr r) (cc_stateClosed r) (cc_closeRef r) (cc_reqQueued r) (cc_pending r) (cc_connWindow r) (cc_streamWindow r) (cc_inQ r) (cc_outQ r) (cc_winCh r) (cc_lastErr r) (cc_unacks r) (cc_rl_done r) (cc_wl_done r) (cc_rl_stuck r) v (cc_out r).
Definition ccu_out (r : cconn) (v : list coutev) : cconn :=
  mkCConn (cc_ctxs r) (cc_nextID r) (cc_open r) (cc_maxStreams r) (cc_maxFrame r) (cc_goAway r) (cc_closed r) (cc_closing r) (cc_netClosed r) (cc_writeFail r) (cc_enc r) (cc_encTableSize r) (cc_encTableSeen r) (cc_dec r) (cc_currentWindow r) (cc_serverS r) (cc_hdrStream r) (cc_hdrPrev r) (cc_hdrFields r) (cc_hdrEndStream r) (cc_hdrRegularSeen r) (cc_hdrStatus r) (cc_hdrErr r) (cc_stateClosed r) (cc_closeRef r) (cc_reqQueued r) (cc_pending r) (cc_connWindow r) (cc_streamWindow r) (cc_inQ r) (cc_outQ r) (cc_winCh r) (cc_lastErr r) (cc_unacks r) (cc_rl_done r) (cc_wl_done r) (cc_rl_stuck r) (cc_wl_stuck r) v.
(* END generated: cconn *)

Definition cl_note (c : cconn) (o : coutev) : cconn := ccu_out c (o :: cc_out c).
Fixpoint cl_notes (c : cconn) (l : list coutev) : cconn :=
  match l with [] => c | o :: t => cl_notes (cl_note c o) t end.

(* a write reaches the socket *)
Definition cl_can_write (c : cconn) : bool := negb (cc_writeFail c) && negb (cc_netClosed c).

Definition cl_ctx_get (c : cconn) (tag : N) : option cctx := cl_ctxs_get (cc_ctxs c) tag.
Definition cl_ctx_put (c : cconn) (x : cctx) : cconn := ccu_ctxs c (cl_ctxs_put (cc_ctxs c) x).
Definition cl_ctx_upd (c : cconn) (tag : N) (f : cctx -> cctx) : cconn :=
  match cl_ctx_get c tag with Some x => cl_ctx_put c (f x) | None => c end.
Definition cl_resolve (c : cconn) (tag : N) (e : cerr) : cconn := cl_ctx_upd c tag (fun x => cl_ctx_resolve x e).
Fixpoint cl_resolve_all (c : cconn) (tags : list N) (e : cerr) : cconn :=
  match tags with [] => c | t :: r => cl_resolve_all (cl_resolve c t e) r e end.

(* setLastErr / closeErr *)
Definition cl_set_last_err (c : cconn) (e : cerr) : cconn :=
  match cc_lastErr c with None => ccu_lastErr c (Some e) | Some _ => c end.
Definition cl_close_err (c : cconn) : cerr :=
  match cc_lastErr c with Some e => e | None => CEConnClosed end.

(* reqQueued *)
Fixpoint cl_req_find (l : list (N * N)) (id : N) : option N :=
  match l with
  | [] => None
  | (i, t) :: r => if i =? id then Some t else cl_req_find r id
  end.
Definition cl_req_del (c : cconn) (id : N) : cconn :=
  ccu_reqQueued c (filter (fun e => negb (fst e =? id)) (cc_reqQueued c)).
(* if c.takeReq(id) { atomic.AddInt32(&c.openStreams, -1) } *)
Definition cl_take_req_count (c : cconn) (id : N) : cconn :=
  match cl_req_find (cc_reqQueued c) id with
  | Some _ => ccu_open (cl_req_del c id) (cc_open c - 1)%Z
  | None => c
  end.

(* writeOut: once done is closed the frame is dropped (the select may also queue it;
   nobody is left to write it once the write loop has seen done) *)
Definition cl_write_out (c : cconn) (o : coutev) : cconn :=
  if cc_closed c then c else ccu_outQ c (cc_outQ c ++ [o]).

Definition cl_signal_window (c : cconn) : cconn := ccu_winCh c true.

(* ---------- Close ---------- *)

(* CompareAndSwap(closed) + close(done) *)
Definition cl_close_begin (c : cconn) : cconn * bool :=
  if cc_closed c then (c, false) else (ccu_closed c true, true).
(* GOAWAY(0, NoError) under bwLck, then c.c.Close() *)
Definition cl_close_net (c : cconn) : cconn :=
  let c1 := if cl_can_write c then cl_note c (COGoAway 0 c_NoError) else c in
  ccu_netClosed c1 true.
(* Close called from a loop: both halves in the same step *)
Definition cl_conn_close (c : cconn) : cconn :=
  let '(c1, first) := cl_close_begin c in
  if first then cl_close_net c1 else c1.

(* ---------- Ctx.lck ---------- *)

Inductive cl_lockres : Type := CLOk | CLRefused | CLSelf | CLBlocked.

(* ctx.acquireFor(c, id) by a goroutine holding the locks of the Ctx in held *)
Definition cl_acquire_for (held : list N) (c : cconn) (tag id : N) : cl_lockres :=
  match cl_ctx_get c tag with
  | None => CLRefused
  | Some x =>
    if existsb (N.eqb tag) held then CLSelf
    else if ct_lckStuck x then CLBlocked
    else if ct_done x || negb (ct_conn x) || negb (ct_sid x =? id) then CLRefused
    else CLOk
  end.

(* the goroutine parks for ever, holding what it holds *)
Definition cl_go_stuck (who : N) (held : list N) (c : cconn) (self : bool) (tag : N) : cconn :=
  let c1 := fold_left (fun c t => cl_ctx_upd c t (fun x => ctu_lckStuck x true)) held c in
  let c2 := cl_note c1 (if self then COSelfDeadlock who tag else COBlocked who tag) in
  if who =? 0 then ccu_rl_stuck c2 true
  else if who =? 1 then ccu_wl_stuck c2 true
  else c2.

(* closeBodyStream on a pendingBody that has been taken off the map *)
Definition cl_close_body (c : cconn) (pb : cpending) : cconn :=
  match pb_stream pb with
  | None => c
  | Some _ => cl_note (cl_ctx_upd c (pb_tag pb) (fun x => ctu_bodyClosed x true)) (COBodyClosed (pb_tag pb))
  end.

(* deletePending. true: the goroutine is stuck *)
Definition cl_delete_pending (who : N) (held : list N) (c : cconn) (id : N) : cconn * bool :=
  match cl_pend_get (cc_pending c) id with
  | None => (c, false)
  | Some pb =>
    let c1 := ccu_pending c (cl_pend_del (cc_pending c) id) in
    match pb_stream pb with
    | None => (c1, false)
    | Some _ =>
      match cl_acquire_for held c1 (pb_tag pb) id with
      | CLRefused => (c1, false)
      | CLOk => (cl_close_body c1 pb, false)
      | CLSelf => (cl_go_stuck who held c1 true (pb_tag pb), true)
      | CLBlocked => (cl_go_stuck who held c1 false (pb_tag pb), true)
      end
    end
  end.

(* cancelStream *)
Definition cl_cancel_stream (c : cconn) (id code : N) : cconn := cl_write_out c (CORst id code).

(* ---------- send windows ---------- *)

Definition cl_apply_initial_window (c : cconn) (size : Z) : cconn :=
  let delta := cl_i32 (size - cc_streamWindow c) in
  let c1 := ccu_streamWindow c size in
  let c2 := ccu_pending c1 (map (fun pb => pbu_window pb (cl_i32 (pb_window pb + delta))) (cc_pending c1)) in
  cl_signal_window c2.

Definition cl_add_window (c : cconn) (sid : N) (inc : Z) : cconn :=
  let c1 :=
    if sid =? 0 then ccu_connWindow c (cl_i32 (cc_connWindow c + inc))
    else match cl_pend_get (cc_pending c) sid with
         | Some pb => ccu_pending c (cl_pend_put (cc_pending c) (pbu_window pb (cl_i32 (pb_window pb + inc))))
         | None => c
         end in
  cl_signal_window c1.

(* ---------- sendPending ---------- *)

Inductive cl_spres : Type := CSPOk | CSPWriteErr | CSPStuck.

Definition cl_zmin (a b : Z) : Z := if (a <? b)%Z then a else b.

(* the loop of sendPending, run by the write loop holding no Ctx.
   fuel: cl_send_fuel; every iteration takes a scripted read or sends and stops *)
Fixpoint cl_send_pending (fuel : nat) (c : cconn) (id : N) : cconn * cl_spres :=
  match fuel with
  | O => (c, CSPOk)
  | S fuel' =>
    match cl_pend_get (cc_pending c) id with
    | None => (c, CSPOk)
    | Some pb =>
      if cl_is_nil (pb_body pb) && match pb_stream pb with Some _ => true | None => false end && negb (pb_drained pb) then
        match cl_refill pb with
        | None =>
          let '(c1, stuck) := cl_delete_pending 1 [] c id in
          if stuck then (c1, CSPStuck)
          else
            (* whoever takes the request off the table ends it; the write loop writes the
               RST_STREAM itself (writeReset): queued on c.out it would wait for this very loop *)
            match cl_req_find (cc_reqQueued c1) id with
            | None => (c1, CSPOk)
            | Some _ =>
              let c2 := cl_take_req_count c1 id in
              let c3 := cl_ctx_upd c2 (pb_tag pb) (fun x => cl_ctx_resolve (ctu_finished x true) CEBody) in
              if cl_can_write c3 then (cl_note c3 (CORst id c_InternalError), CSPOk) else (c3, CSPWriteErr)
            end
        | Some pb' => cl_send_pending fuel' (ccu_pending c (cl_pend_put (cc_pending c) pb')) id
        end
      else
        let n0 := cl_zmin (cl_zmin (Z.of_N (len (pb_body pb))) (pb_window pb)) (cc_connWindow c) in
        let n := if (n0 <? 0)%Z then 0%Z else n0 in
        let chunk := takeN (Z.to_N n) (pb_body pb) in
        let pb' := pbu_body (pbu_window pb (cl_i32 (pb_window pb - n))) (dropN (Z.to_N n) (pb_body pb)) in
        let endb := negb (cl_has_more pb') in
        let c1 := ccu_connWindow c (cl_i32 (cc_connWindow c - n)) in
        let c2 := ccu_pending c1 (if endb then cl_pend_del (cc_pending c1) id else cl_pend_put (cc_pending c1) pb') in
        if (n =? 0)%Z && negb endb then (c2, CSPOk)
        else
          match cl_acquire_for [] c2 (pb_tag pb) id with
          | CLRefused =>
            (* nothing of the chunk goes out: the connection window gets it back (addWindow(0, n)) *)
            let c2' := if (0 <? n)%Z then cl_add_window c2 0 n else c2 in
            let '(c3, stuck) := cl_delete_pending 1 [] c2' id in
            (c3, if stuck then CSPStuck else CSPOk)
          | CLBlocked | CLSelf => (cl_go_stuck 1 [] c2 false (pb_tag pb), CSPStuck)
          | CLOk =>
            if cl_can_write c2 then
              let c3 := cl_notes c2 (cl_write_data (cc_maxFrame c2) id chunk endb) in
              if endb then (cl_close_body c3 pb', CSPOk) else cl_send_pending fuel' c3 id
            else (c2, CSPWriteErr)
          end
    end
  end.

Definition cl_send_fuel (c : cconn) (id : N) : nat :=
  match cl_pend_get (cc_pending c) id with
  | Some pb => 2 * (match pb_stream pb with Some r => length r | None => 0 end) + 6
  | None => 1
  end.

(* flushPending over the ids in the order the map yielded them *)
Fixpoint cl_flush_pending (c : cconn) (ids : list N) : cconn * cl_spres :=
  match ids with
  | [] => (c, CSPOk)
  | id :: t =>
    match cl_send_pending (cl_send_fuel c id) c id with
    | (c1, CSPOk) => cl_flush_pending c1 t
    | r => r
    end
  end.

(* pendingIDs as Go's map iteration gave them: the observed order first, the rest after *)
Definition cl_pending_order (c : cconn) (order : list N) : list N :=
  let ids := map pb_id (cc_pending c) in
  filter (fun i => existsb (N.eqb i) ids) order ++ filter (fun i => negb (existsb (N.eqb i) order)) ids.

(* ---------- writeRequest ---------- *)

Definition cl_can_open_stream (c : cconn) : bool :=
  negb (cc_goAway c) && (cc_nextID c <=? cl_maxStreamID) && (cc_open c <? Z.of_N (cc_maxStreams c))%Z.

(* the header block of a request, field by field as writeRequest appends them *)
Fixpoint cl_enc_req_fields (e : hstate) (l : list (bytes * bytes)) : bytes * hstate :=
  match l with
  | [] => ([], e)
  | (k, v) :: t =>
    if cl_is_user_agent k then cl_enc_req_fields e t
    else
      let k' := cl_to_lower k in
      if is_connection_specific k' then cl_enc_req_fields e t
      else
        let '(b1, e1) := enc_field e k' v false in
        let '(b2, e2) := cl_enc_req_fields e1 t in
        (b1 ++ b2, e2)
  end.

Definition cl_request_block (e : hstate) (rq : crequest) : bytes * hstate :=
  let '(b1, e1) := enc_field e S_authority (cq_host rq) true in
  let '(b2, e2) := enc_field e1 S_method (cq_method rq) true in
  let '(b3, e3) := enc_field e2 S_path (cq_path rq) true in
  let '(b4, e4) := enc_field e3 S_scheme (cq_scheme rq) true in
  let '(b5, e5) := enc_field e4 S_user_agent (cq_ua rq) true in
  let '(b6, e6) := cl_enc_req_fields e5 (cq_fields rq) in
  (b1 ++ b2 ++ b3 ++ b4 ++ b5 ++ b6, e6).

Inductive cl_wrres : Type := CWRNil | CWRErr (e : cerr) | CWRStuck.

Definition cl_write_request (c : cconn) (tag : N) : cconn * cl_wrres :=
  if negb (cl_can_open_stream c) then (c, CWRErr CENoStreams)
  else
    match cl_ctx_get c tag with
    | None => (c, CWRNil)
    | Some x =>
      (* ctx.acquire() *)
      if ct_lckStuck x then (cl_go_stuck 1 [] c false tag, CWRStuck)
      else if ct_done x then (c, CWRNil)
      else
        let rq := ct_req x in
        let bodyStream := match cq_body rq with CStream _ _ => true | CBuf _ => false end in
        let hasBody := match cq_body rq with CStream _ _ => true | CBuf b => negb (cl_is_nil b) end in
        let c1 :=
          if negb (cc_encTableSize c =? cc_encTableSeen c)
          then ccu_enc (ccu_encTableSeen c (cc_encTableSize c)) (enc_set_max (cc_enc c) (cc_encTableSize c))
          else c in
        let id := cc_nextID c1 in
        if cl_maxStreamID <? id then (c1, CWRErr CENoIDs)
        else
          let c2 := ccu_nextID c1 (u32 (id + 2)) in
          let '(blk, e') := cl_request_block (cc_enc c2) rq in
          let c3 := ccu_enc c2 e' in
          (* ctx.conn.Store(c); streamID = id; queueReq; openStreams++ *)
          let c4 := cl_ctx_put c3 (ctu_sid (ctu_conn x true) id) in
          let c5 := ccu_open (ccu_reqQueued c4 (cc_reqQueued c4 ++ [(id, tag)])) (cc_open c4 + 1)%Z in
          if cc_goAway c5 then (cl_take_req_count c5 id, CWRErr CENoStreams)
          else
            let c6 :=
              if hasBody then
                let pb :=
                  match cq_body rq with
                  | CStream reads size => mkCPB id tag [] (cc_streamWindow c5) (Some reads) size 0 (size =? 0)%Z
                  | CBuf b => mkCPB id tag b (cc_streamWindow c5) None (-1) 0 false
                  end in
                ccu_pending c5 (cc_pending c5 ++ [pb])
              else c5 in
            if cl_can_write c6 then
              let c7 := cl_note c6 (COHeaders id (negb hasBody) blk) in
              if hasBody then
                (* release(); sendPending(id) *)
                match cl_send_pending (cl_send_fuel c7 id) c7 id with
                | (c8, CSPOk) => (c8, CWRNil)
                | (c8, CSPWriteErr) => (c8, CWRErr CEWrite)
                | (c8, CSPStuck) => (c8, CWRStuck)
                end
              else (c7, CWRNil)
            else
              (* the HEADERS write failed. release() comes before deletePending, which takes the Ctx again *)
              let c7 := cl_take_req_count (cl_set_last_err c6 CEWrite) id in
              let '(c8, stuck) := cl_delete_pending 1 [] c7 id in
              if stuck then (c8, CWRStuck) else (c8, CWRErr CEWrite)
    end.

(* ---------- the write loop ---------- *)

(* writeLoop once runWriteLoop has returned lastErr (None: nil) *)
Definition cl_wl_exit (c : cconn) (lastErr : option cerr) (why : N) : cconn :=
  let le := match lastErr with Some e => e | None => CEConn (* io.ErrUnexpectedEOF *) end in
  let c1 := cl_conn_close (cl_set_last_err c le) in
  (* takeAllReqs *)
  let c2 := ccu_reqQueued (cl_resolve_all c1 (map snd (cc_reqQueued c1)) le) [] in
  (* what is on the queues right now *)
  let c3 := ccu_outQ (ccu_inQ (cl_resolve_all c2 (cc_inQ c2) le) []) [] in
  cl_note (ccu_wl_done c3 true) (COExit 1 why).

(* the bottom of the loop *)
Definition cl_wl_after (c : cconn) : cconn :=
  if negb (ccf_disableAcks cfg) && (3 <=? cc_unacks c)%Z then cl_wl_exit c (Some CEConn (* ErrTimeout *)) 2 else c.

Definition cl_wl_in (c : cconn) : cconn :=
  match cc_inQ c with
  | [] => c
  | tag :: q =>
    match cl_write_request (ccu_inQ c q) tag with
    | (c1, CWRNil) => cl_wl_after c1
    | (c1, CWRStuck) => c1
    | (c1, CWRErr e) =>
      let c2 := cl_resolve c1 tag e in
      match e with
      | CENoStreams => c2                                    (* continue *)
      | CENoIDs => cl_wl_exit c2 (Some CENoIDs) 3            (* WriteError{ErrNoMoreStreamIDs} *)
      | _ => cl_wl_exit c2 (Some CEWrite) 1
      end
    end
  end.

Definition cl_wl_out (c : cconn) : cconn :=
  match cc_outQ c with
  | [] => c
  | o :: q =>
    let c1 := ccu_outQ c q in
    if cl_can_write c1 then cl_wl_after (cl_note c1 o) else cl_wl_exit c1 (Some CEWrite) 1
  end.

Definition cl_wl_win (c : cconn) (order : list N) : cconn :=
  if negb (cc_winCh c) then c
  else
    let c1 := ccu_winCh c false in
    match cl_flush_pending c1 (cl_pending_order c1 order) with
    | (c2, CSPOk) => cl_wl_after c2
    | (c2, CSPWriteErr) => cl_wl_exit c2 (Some CEWrite) 1
    | (c2, CSPStuck) => c2
    end.

Definition cl_wl_ping (c : cconn) : cconn :=
  if cl_can_write c then cl_wl_after (ccu_unacks (cl_note c COPing) (cc_unacks c + 1)%Z)
  else cl_wl_exit c (Some CEWrite) 1.

Definition cl_wl_done (c : cconn) : cconn :=
  if cc_closed c then cl_wl_exit c None 0 else c.

(* ---------- the read loop ---------- *)

(* readLoop returns: the deferred Close *)
Definition cl_rl_exit (c : cconn) (why : N) : cconn :=
  cl_note (ccu_rl_done (cl_conn_close c) true) (COExit 0 why).

(* the read failed, or the frame did not deserialize *)
Definition cl_rl_fail (c : cconn) : cconn := cl_rl_exit (cl_set_last_err c CEConn) 0.

(* the deferred recover of readLoop *)
Definition cl_rl_panic (c : cconn) : cconn :=
  let c1 := cl_set_last_err (cl_note c (COPanic 0)) CEConn in
  let c2 := ccu_reqQueued (cl_resolve_all c1 (map snd (cc_reqQueued c1)) CEConn) [] in
  cl_rl_exit c2 5.

Definition cl_handle_settings (c : cconn) (st : csettings) : cconn :=
  let s := cl_settings_merge st (cc_serverS c) in
  let c1 := ccu_maxFrame (ccu_maxStreams (ccu_serverS c s) (cs_streams s)) (cs_frame s) in
  let c2 := if cl_settings_has st c_HeaderTableSize then ccu_encTableSize c1 (cs_table st) else c1 in
  let c3 := if cs_hasWin st then cl_apply_initial_window c2 (cl_i32 (Z.of_N (cs_window st))) else c2 in
  cl_write_out c3 COSettingsAck.

(* finish(r, stream, err), called by dispatch holding r *)
Definition cl_finish (c : cconn) (tag id : N) (e : cerr) : cconn :=
  let c1 := cl_take_req_count c id in
  let c2 :=
    match cl_pend_get (cc_pending c1) id with
    | Some pb => cl_close_body (ccu_pending c1 (cl_pend_del (cc_pending c1) id)) pb
    | None => c1
    end in
  cl_ctx_upd c2 tag (fun x => cl_ctx_resolve (ctu_finished x true) e).

Definition cl_gone_away (c : cconn) : bool := cc_stateClosed c && cl_is_nil (cc_reqQueued c).

(* the GOAWAY arm of readNext. true: the read loop is stuck *)
Fixpoint cl_goaway_fail (c : cconn) (l : list (N * N)) : cconn * bool :=
  match l with
  | [] => (c, false)
  | (id, tag) :: t =>
    let c1 := ccu_open c (cc_open c - 1)%Z in
    let '(c2, stuck) := cl_delete_pending 0 [] c1 id in
    if stuck then (c2, true)
    else cl_goaway_fail (cl_ctx_upd c2 tag (fun x => cl_ctx_resolve (ctu_finished x true) CEGoAway)) t
  end.

Definition cl_goaway (c : cconn) (last : N) : cconn * bool :=
  let c1 := ccu_closeRef (ccu_stateClosed (ccu_goAway c true) true) last in
  let above := filter (fun e => last <? fst e) (cc_reqQueued c1) in
  let c2 := ccu_reqQueued c1 (filter (fun e => negb (last <? fst e)) (cc_reqQueued c1)) in
  cl_goaway_fail c2 above.

(* updateWindow *)
Definition cl_update_window (c : cconn) (sid : N) (n : Z) : cconn := cl_write_out c (COWinUpd sid n).

Inductive cl_rserr : Type :=
| CRSNone
| CRSStream (e : cerr)      (* an error of this response only *)
| CRSConn (e : cerr)        (* a GOAWAY-type Error *)
| CRSPanic.

(* the decoding loop of readHeaderFragment. fuel >= length b + 1 *)
Fixpoint cl_hdr_loop (fuel : nat) (eh : bool) (d : hstate) (fields : N) (rseen : bool) (status : Z) (herr : option cerr)
         (res : option cresponse) (b : bytes)
  : hstate * N * bool * Z * option cerr * option cresponse * bytes * cl_rserr :=
  match fuel with
  | O => (d, fields, rseen, status, herr, res, [], CRSConn CEConn)   (* unreachable *)
  | S fuel' =>
    match b with
    | [] => (d, fields, rseen, status, herr, res, [], CRSNone)
    | _ =>
      match dec_field d fields b with
      | DNone _ d' => (d', fields, rseen, status, herr, res, [], CRSNone)
      | DShort _ d' =>
        if negb eh then (d', fields, rseen, status, herr, res, b, CRSNone)
        else (d', fields, rseen, status, herr, res, [], CRSConn CEConn)
      | DFail _ d' => (d', fields, rseen, status, herr, res, [], CRSConn CEConn)
      | DPanic _ => (d, fields, rseen, status, herr, res, [], CRSPanic)
      | DField _ k v rest d' =>
        match res, herr with
        | Some r, None =>
          let '(rseen', status', r', e) := cl_read_header_field rseen status r k v in
          cl_hdr_loop fuel' eh d' (fields + 1) rseen' status' e (Some r') rest
        | _, _ => cl_hdr_loop fuel' eh d' (fields + 1) rseen status herr res rest
        end
      end
    end
  end.

(* readHeaderFragment: (connection, res, ended, err) *)
Definition cl_read_header_fragment (c : cconn) (id : N) (fragment : bytes) (eh : bool) (res : option cresponse)
  : cconn * option cresponse * bool * cl_rserr :=
  let b := cc_hdrPrev c ++ fragment in
  let '(d', fields, rseen, status, herr, res', prev, e) :=
    cl_hdr_loop (S (length b)) eh (cc_dec c) (cc_hdrFields c) (cc_hdrRegularSeen c) (cc_hdrStatus c) (cc_hdrErr c) res b in
  let c1 := ccu_hdrErr (ccu_hdrStatus (ccu_hdrRegularSeen (ccu_hdrFields (ccu_hdrPrev (ccu_dec c d') prev) fields) rseen) status) herr in
  match e with
  | CRSNone =>
    if negb eh then
      if cl_maxHeaderPrev <? len prev then (ccu_hdrStream c1 0, res', false, CRSConn CEConn)
      else (ccu_hdrStream c1 id, res', false, CRSNone)
    else
      let c2 := ccu_hdrPrev (ccu_hdrStream c1 0) [] in
      match herr with
      | Some he => (c2, res', false, CRSStream he)
      | None => (c2, res', cc_hdrEndStream c2, CRSNone)
      end
  | CRSPanic => (c1, res', false, CRSPanic)
  | _ => (ccu_hdrStream c1 0, res', false, e)
  end.

(* readStream *)
Definition cl_read_stream (c : cconn) (fr : sframe) (res : option cresponse)
  : cconn * option cresponse * bool * cl_rserr :=
  match sf_kind fr with
  | KHeaders =>
    let c1 := ccu_hdrEndStream (ccu_hdrErr (ccu_hdrStatus (ccu_hdrRegularSeen (ccu_hdrFields (ccu_hdrPrev c []) 0) false) 0%Z) None)
                               (flag_has (sf_flags fr) FL_ES) in
    cl_read_header_fragment c1 (sf_sid fr) (sf_payload fr) (flag_has (sf_flags fr) FL_EH) res
  | KCont => cl_read_header_fragment c (sf_sid fr) (sf_payload fr) (flag_has (sf_flags fr) FL_EH) res
  | KRst => (c, res, false, CRSStream (CEReset (sf_code fr)))
  | KData =>
    let cur := cl_i32 (cc_currentWindow c - Z.of_N (sf_len fr)) in
    let c1 := ccu_currentWindow c cur in
    let res' := match res with
                | Some r => if cl_is_nil (sf_payload fr) then Some r else Some (cl_resp_append_body r (sf_payload fr))
                | None => None
                end in
    let ended := flag_has (sf_flags fr) FL_ES in
    let c2 := match res with
              | Some _ => if negb (sf_len fr =? 0) && negb ended then cl_update_window c1 (sf_sid fr) (Z.of_N (sf_len fr)) else c1
              | None => c1
              end in
    let c3 := if (cur <? cl_maxWindow / 2)%Z
              then cl_update_window (ccu_currentWindow c2 cl_maxWindow) 0 (cl_maxWindow - cur)
              else c2 in
    (c3, res', ended, CRSNone)
  | _ => (c, res, false, CRSNone)
  end.

Inductive cl_dres : Type := CDCont | CDStop | CDStuck | CDPanic.

(* dispatch *)
Definition cl_dispatch (c : cconn) (fr : sframe) : cconn * cl_dres :=
  let id := sf_sid fr in
  (* loadReq + acquireFor *)
  let pre : (cconn * option cctx) + cconn :=
    match cl_req_find (cc_reqQueued c) id with
    | None => inl (c, None)
    | Some tag =>
      match cl_acquire_for [] c tag id with
      | CLOk => inl (c, cl_ctx_get c tag)
      | CLRefused => inl (cl_take_req_count c id, None)    (* whoever takes the stream off the table counts it down *)
      | CLBlocked | CLSelf => inr (cl_go_stuck 0 [] c false tag)
      end
    end in
  match pre with
  | inr c' => (c', CDStuck)
  | inl (c0, ok) =>
    let '(c1, res', ended, err) := cl_read_stream c0 fr (match ok with Some x => Some (ct_resp x) | None => None end) in
    (* what readStream wrote into r.Response *)
    let ok1 := match ok, res' with Some x, Some r => Some (ctu_resp x r) | _, _ => ok end in
    (* the header block has to be right for where the response stands *)
    let '(ok2, err2) :=
      match ok1, err with
      | Some x, CRSNone =>
        if (cc_hdrStream c1 =? 0) && (fkind_eqb (sf_kind fr) KHeaders || fkind_eqb (sf_kind fr) KCont) then
          if (cc_hdrStatus c1 =? 0)%Z then
            if negb (ct_gotStatus x) || negb (cc_hdrEndStream c1) then (ok1, CRSStream CEMalformed) else (ok1, CRSNone)
          else if ct_gotStatus x then (ok1, CRSStream CEMalformed)
          else
            let final := (200 <=? cc_hdrStatus c1)%Z in
            (* an interim response cannot be what ends the stream *)
            (Some (ctu_gotStatus x final), if negb final && cc_hdrEndStream c1 then CRSStream CEMalformed else CRSNone)
        else (ok1, err)
      | _, _ => (ok1, err)
      end in
    (* a body has to come after the response headers *)
    let err2 :=
      match ok2, err2 with
      | Some x, CRSNone => if fkind_eqb (sf_kind fr) KData && negb (ct_gotStatus x) then CRSStream CEMalformed else err2
      | _, _ => err2
      end in
    let c2 := match ok2 with Some x => cl_ctx_put c1 x | None => c1 end in
    match err2 with
    | CRSPanic => (c2, CDPanic)
    | CRSConn e =>
      let c3 := cl_set_last_err c2 e in
      (match ok2 with Some x => cl_finish c3 (ct_tag x) id e | None => c3 end, CDStop)
    | CRSStream e =>
      let c3 := match ok2 with Some x => cl_finish c2 (ct_tag x) id e | None => c2 end in
      (c3, if cl_gone_away c3 then CDStop else CDCont)
    | CRSNone =>
      let c3 := match ok2 with
                | Some x => if ended then cl_finish c2 (ct_tag x) id CENil else c2
                | None => c2
                end in
      (c3, if cl_gone_away c3 then CDStop else CDCont)
    end
  end.

(* the body of readLoop once readNext has returned a frame *)
Definition cl_rl_frame (c : cconn) (fr : sframe) : cconn :=
  if fkind_eqb (sf_kind fr) KPush then cl_rl_exit (cl_set_last_err c CEConn) 1
  else if negb (cc_hdrStream c =? 0) && (negb (fkind_eqb (sf_kind fr) KCont) || negb (sf_sid fr =? cc_hdrStream c))
  then cl_rl_exit (cl_set_last_err c CEConn) 1
  else if (cc_hdrStream c =? 0) && fkind_eqb (sf_kind fr) KCont then cl_rl_exit (cl_set_last_err c CEConn) 1
  else
    let c1 := if fkind_eqb (sf_kind fr) KWinUpd then cl_add_window c (sf_sid fr) (Z.of_N (sf_inc fr)) else c in
    match cl_dispatch c1 fr with
    | (c2, CDCont) => c2
    | (c2, CDStop) => cl_rl_exit c2 2
    | (c2, CDStuck) => c2
    | (c2, CDPanic) => cl_rl_panic c2
    end.

(* one frame through readNext and the loop body *)
Definition cl_rl_step (c : cconn) (i : rl_input) : cconn :=
  if cc_netClosed c then cl_rl_fail c     (* the socket was closed under the read loop *)
  else
    match i with
    | RLEof => cl_rl_fail c
    | RBadFrame _ => cl_rl_fail c
    | RUnknownType => c
    | RFrame fr =>
      if sf_sid fr =? 0 then
        match sf_kind fr with
        | KSettings =>
          match cl_settings_deserialize (flag_has (sf_flags fr) FL_ES) (sf_payload fr) with
          | None => cl_rl_fail c
          | Some st => if flag_has (sf_flags fr) FL_ES then c else cl_handle_settings c st
          end
        | KWinUpd => cl_add_window c 0 (Z.of_N (sf_inc fr))
        | KPing =>
          if flag_has (sf_flags fr) FL_ES then ccu_unacks c (cc_unacks c - 1)%Z
          else cl_write_out c (COPingAck (sf_payload fr))
        | KGoAway =>
          match cl_goaway c (sf_dep fr) with
          | (c1, true) => c1
          | (c1, false) => cl_rl_frame c1 fr
          end
        | _ => c
        end
      else cl_rl_frame c fr
    end.

(* ---------- callers, timers, Close ---------- *)

(* roundTripOnce up to the first select of c.Write(ctx). viaQueue: which case that select
   took when both were ready (done closed) *)
Definition cl_submit (c : cconn) (tag : N) (rq : crequest) (viaQueue : bool) : cconn :=
  match cl_ctx_get c tag with
  | Some _ => c          (* tags name Ctx objects: never submitted twice *)
  | None =>
    let c1 := ccu_ctxs c (cc_ctxs c ++ [cl_new_ctx tag rq (ccf_armTimers cfg)]) in
    if cc_closed c1 && negb viaQueue then cl_resolve c1 tag (cl_close_err c1)      (* case <-c.done: resolve, return *)
    else cl_ctx_upd (ccu_inQ c1 (cc_inQ c1 ++ [tag])) tag (fun x => ctu_writing x true)
  end.

(* the second select of Write: if done is closed by now the Ctx is taken back, unless the write
   loop has already given it a stream, and only then answered *)
Definition cl_submit_check (c : cconn) (tag : N) : cconn :=
  match cl_ctx_get c tag with
  | None => c
  | Some x =>
    if negb (ct_writing x) then c
    else
      let x1 := ctu_writing x false in
      if negb (cc_closed c) then cl_ctx_put c x1
      else if ct_lckStuck x1 then cl_go_stuck 2 [] (cl_ctx_put c x1) false tag
      else if ct_sid x1 =? 0 then cl_ctx_put c (cl_ctx_resolve (ctu_done x1 true) (cl_close_err c))
      else cl_ctx_put c x1
  end.

(* the caller receives from Err: reusable, takeBack, releaseCtx, and RoundTrip's retryable *)
Definition cl_receive (c : cconn) (tag : N) : cconn :=
  match cl_ctx_get c tag with
  | None => c
  | Some x =>
    if ct_returned x then c
    else
      match ct_err x with
      | None => c
      | Some e =>
        let stopped := if ct_armed x then negb (ct_fired x) else true in
        let x1 := ctu_armed (ctu_err x None) false in
        let reuse := stopped && ct_finished x1 in
        if ct_lckStuck x1 then cl_go_stuck 2 [] (cl_ctx_put c x1) false tag     (* takeBack never returns *)
        else
          let x2 := ctu_pooled (ctu_returned (ctu_resolved (ctu_done x1 true) true) true) reuse in
          let c1 := cl_note (cl_ctx_put c x2) (COResult tag (cl_retryable e) e (ct_resp x2)) in
          if reuse then cl_note c1 (COPoolPut tag) else c1
      end
  end.

(* fireTimeout, first half: the timer runs out, ctx.resolve(ErrRequestCanceled) *)
Definition cl_timeout_fire (c : cconn) (tag : N) : cconn :=
  match cl_ctx_get c tag with
  | None => c
  | Some x =>
    if ct_armed x && negb (ct_fired x) then cl_ctx_put c (cl_ctx_resolve (ctu_fired x true) CETimeout) else c
  end.

(* fireTimeout, second half: if c := ctx.conn.Load(); c != nil { c.cancel(ctx) } *)
Definition cl_timeout_cancel (c : cconn) (tag : N) : cconn :=
  match cl_ctx_get c tag with
  | None => c
  | Some x =>
    if ct_fired x && negb (ct_cancelled x) then
      let c1 := cl_ctx_put c (ctu_cancelled x true) in
      if negb (ct_conn x) || (ct_sid x =? 0) then c1
      else
        let id := ct_sid x in
        let '(c2, stuck) := cl_delete_pending 3 [] c1 id in
        if stuck then c2
        else cl_cancel_stream (cl_take_req_count c2 id) id c_StreamCanceled
    else c
  end.

(* Conn.Close from a caller, first half *)
Definition cl_close_call (c : cconn) : cconn :=
  let '(c1, first) := cl_close_begin c in
  if first then ccu_closing c1 true else c1.
(* second half *)
Definition cl_close_finish (c : cconn) : cconn :=
  if cc_closing c then ccu_closing (cl_close_net c) false else c.

(* ---------- events and run ---------- *)

Inductive cevent : Type :=
| CEvSubmit (tag : N) (rq : crequest) (viaQueue : bool)   (* a caller runs roundTripOnce up to the first select of Conn.Write *)
| CEvSubmitCheck (tag : N)     (* the second select of that Write *)
| CEvWLIn                      (* the write loop takes case ctx := <-c.in *)
| CEvWLOut                     (* ... case fr := <-c.out *)
| CEvWLWin (order : list N)    (* ... case <-c.winCh; order: the ids as pendingIDs' map iteration gave them *)
| CEvWLPing                    (* ... case <-ticker.C *)
| CEvWLDone                    (* ... case <-c.done *)
| CEvRL (i : rl_input)         (* the read loop gets its next frame *)
| CEvTimeout (tag : N)         (* the cancel timer of tag runs out: fireTimeout up to its resolve *)
| CEvTimeoutCancel (tag : N)   (* the rest of fireTimeout *)
| CEvReceive (tag : N)         (* the caller receives from Err and roundTripOnce returns *)
| CEvClose                     (* a caller's Conn.Close: closed, close(done) *)
| CEvCloseNet                  (* the rest of that Close: GOAWAY, socket closed *)
| CEvWriteFail.                (* from now on writes to the socket fail *)

Definition cl_wl_live (c : cconn) : bool := negb (cc_wl_done c) && negb (cc_wl_stuck c).
Definition cl_rl_live (c : cconn) : bool := negb (cc_rl_done c) && negb (cc_rl_stuck c).

Definition cl_step (c : cconn) (e : cevent) : cconn :=
  match e with
  | CEvSubmit tag rq q => cl_submit c tag rq q
  | CEvSubmitCheck tag => cl_submit_check c tag
  | CEvWLIn => if cl_wl_live c then cl_wl_in c else c
  | CEvWLOut => if cl_wl_live c then cl_wl_out c else c
  | CEvWLWin order => if cl_wl_live c then cl_wl_win c order else c
  | CEvWLPing => if cl_wl_live c then cl_wl_ping c else c
  | CEvWLDone => if cl_wl_live c then cl_wl_done c else c
  | CEvRL i => if cl_rl_live c then cl_rl_step c i else c
  | CEvTimeout tag => cl_timeout_fire c tag
  | CEvTimeoutCancel tag => cl_timeout_cancel c tag
  | CEvReceive tag => cl_receive c tag
  | CEvClose => cl_close_call c
  | CEvCloseNet => cl_close_finish c
  | CEvWriteFail => ccu_writeFail c true
  end.

(* the state after a successful doHandshake, from the payload of the server's first SETTINGS *)
Definition cl_init (h0 : hstate) (first : bytes) : cconn :=
  match cl_settings_deserialize false first with
  | Some st =>
    let s := cl_settings_merge st cl_settings_default in
    let small := cs_table st <=? c_defaultHeaderTableSize in
    let ets := if small then cs_table st else c_defaultHeaderTableSize in
    mkCConn [] 1 0 (cs_streams s) (cs_frame s) false false false false false
            (if small then enc_set_max h0 (cs_table st) else h0) ets ets h0 cl_maxWindow s
            0 [] 0 false false 0 None false 0 [] [] (Z.of_N c_defaultWindowSize) (cl_i32 (Z.of_N (cs_window s)))
            [] [] false None 0 false false false false []
  | None =>
    (* the handshake fails: no loop is started, the socket is closed *)
    mkCConn [] 1 0 c_defaultConcurrentStreams c_defaultDataFrameSize false true false true false
            h0 c_defaultHeaderTableSize c_defaultHeaderTableSize h0 cl_maxWindow cl_settings_default
            0 [] 0 false false 0 None false 0 [] [] (Z.of_N c_defaultWindowSize) (Z.of_N c_defaultWindowSize)
            [] [] false (Some CEConn) 0 true true false false []
  end.

Definition cl_run (h0 : hstate) (first : bytes) (evs : list cevent) : cconn :=
  fold_left cl_step evs (cl_init h0 first).

Definition cl_trace (c : cconn) : list coutev := rev (cc_out c).

End Client.
