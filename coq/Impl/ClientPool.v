(* Model of the connection pool of client.go: Client.Close, onConnectionDropped, createConn, pickConn,
   and of the two halves of Conn.Close as the pool sees them (the CAS on `closed`, then the
   onDisconnect callback).  One Gallina function per Go function; the list is cl.conns, front first.

   A connection is named by the number of the dial that produced its transport (0, 1, 2, ...); what the
   pool reads of a connection is Conn.Closed() and Conn.CanOpenStream(), kept here per connection and
   changed by environment events (the connection's own life is the subject of Impl/ClientConn.v).

   Tie to the code: the `pool` correspondence suite (harness/cmd/h2v/pool.go) runs the real Client on
   transports handed out by the harness and compares, after every event, the result of the call, the
   dials made, the transports closed and the list (order included) with this model. *)
From Coq Require Import List NArith Bool.
Import ListNotations.
Open Scope N_scope.

(* what cl.d.Dial does when it is called *)
Inductive pl_dial := PDialOk | PDialErr | PDialHsFail.
(* PDialOk:     tryDial gives a transport and the handshake succeeds
   PDialErr:    tryDial fails, no Conn is made
   PDialHsFail: tryDial gives a transport, the handshake fails: Dial returns (nc, err), the transport is closed *)

Record pl_conn := { plc_id : N; plc_closed : bool; plc_can : bool }.

Record pool := {
  pl_closed : bool;          (* cl.closed *)
  pl_conns : list N;         (* cl.conns, front first *)
  pl_stat : list pl_conn;    (* every Conn made so far: Closed(), CanOpenStream() *)
  pl_closing : list N;       (* Conn.Close calls between their CAS and their onDisconnect callback *)
  pl_next : N;               (* number of the next transport *)
}.

Definition pl_init : pool :=
  {| pl_closed := false; pl_conns := []; pl_stat := []; pl_closing := []; pl_next := 0 |}.

Fixpoint pl_find (st : list pl_conn) (id : N) : option pl_conn :=
  match st with
  | [] => None
  | c :: r => if N.eqb (plc_id c) id then Some c else pl_find r id
  end.

Definition pl_is_closed (p : pool) (id : N) : bool :=
  match pl_find (pl_stat p) id with Some c => plc_closed c | None => true end.
Definition pl_can_open (p : pool) (id : N) : bool :=
  match pl_find (pl_stat p) id with Some c => plc_can c | None => false end.

Fixpoint pl_set (st : list pl_conn) (id : N) (f : pl_conn -> pl_conn) : list pl_conn :=
  match st with
  | [] => []
  | c :: r => if N.eqb (plc_id c) id then f c :: r else c :: pl_set r id f
  end.

Definition pl_mark_closed (c : pl_conn) := {| plc_id := plc_id c; plc_closed := true; plc_can := plc_can c |}.
Definition pl_mark_can (b : bool) (c : pl_conn) := {| plc_id := plc_id c; plc_closed := plc_closed c; plc_can := b |}.

Definition pl_upd_conns (p : pool) l :=
  {| pl_closed := pl_closed p; pl_conns := l; pl_stat := pl_stat p; pl_closing := pl_closing p; pl_next := pl_next p |}.
Definition pl_upd_stat (p : pool) s :=
  {| pl_closed := pl_closed p; pl_conns := pl_conns p; pl_stat := s; pl_closing := pl_closing p; pl_next := pl_next p |}.
Definition pl_upd_closing (p : pool) l :=
  {| pl_closed := pl_closed p; pl_conns := pl_conns p; pl_stat := pl_stat p; pl_closing := l; pl_next := pl_next p |}.

Fixpoint pl_remove (l : list N) (id : N) : list N :=
  match l with
  | [] => []
  | x :: r => if N.eqb x id then r else x :: pl_remove r id
  end.

Fixpoint pl_mem (l : list N) (id : N) : bool :=
  match l with
  | [] => false
  | x :: r => if N.eqb x id then true else pl_mem r id
  end.

(* what happened, in order *)
Inductive pl_out :=
| PODial (d : pl_dial) (id : option N)     (* cl.d.Dial was called; the transport it used, if it got one *)
| POShut (id : N).                         (* a transport was closed *)

(* createConn: Dial, PushFront on success.  Returns the connection (if any). *)
Definition pl_create_conn (p : pool) (d : pl_dial) : pool * option N * list pl_out :=
  match d with
  | PDialErr => (p, None, [PODial d None])
  | PDialHsFail =>
      (* the Conn that Dial returns with its error is dropped by createConn: nothing refers to it again *)
      let id := pl_next p in
      ({| pl_closed := pl_closed p; pl_conns := pl_conns p; pl_stat := pl_stat p;
          pl_closing := pl_closing p; pl_next := id + 1 |},
       None, [PODial d (Some id); POShut id])
  | PDialOk =>
      let id := pl_next p in
      ({| pl_closed := pl_closed p; pl_conns := id :: pl_conns p;
          pl_stat := {| plc_id := id; plc_closed := false; plc_can := true |} :: pl_stat p;
          pl_closing := pl_closing p; pl_next := id + 1 |},
       Some id, [PODial d (Some id)])
  end.

(* the loop of pickConn over the list: drops closed connections, stops at the first one with room.
   Returns the list as the loop leaves it and the connection found. *)
Fixpoint pl_walk (p : pool) (l : list N) : list N * option N :=
  match l with
  | [] => ([], None)
  | id :: r =>
      if pl_is_closed p id then pl_walk p r
      else if pl_can_open p id then (id :: r, Some id)
      else let '(r', f) := pl_walk p r in (id :: r', f)
  end.

Inductive pl_res :=
| PRConn (id : N)        (* pickConn: a connection *)
| PRErrClosed            (* pickConn: ErrClientClosed *)
| PRErrDial              (* pickConn: the dial's error *)
| PRNone.                (* other events *)

Definition pl_pick_conn (p : pool) (d : pl_dial) : pool * pl_res * list pl_out :=
  if pl_closed p then (p, PRErrClosed, [])
  else
    let '(l, f) := pl_walk p (pl_conns p) in
    let p1 := pl_upd_conns p l in
    match f with
    | Some id => (p1, PRConn id, [])
    | None =>
        let '(p2, c, o) := pl_create_conn p1 d in
        (p2, match c with Some id => PRConn id | None => PRErrDial end, o)
    end.

(* onConnectionDropped *)
Definition pl_on_dropped (p : pool) (id : N) (d : pl_dial) : pool * list pl_out :=
  if pl_closed p then (p, [])
  else if pl_mem (pl_conns p) id then
    let '(p1, _, o) := pl_create_conn (pl_upd_conns p (pl_remove (pl_conns p) id)) d in (p1, o)
  else (p, []).

(* Conn.Close, first half: the CAS on closed, GOAWAY, the transport is closed *)
Definition pl_close_begin (p : pool) (id : N) : pool * list pl_out :=
  match pl_find (pl_stat p) id with
  | None => (p, [])
  | Some c =>
      if plc_closed c then (p, [])
      else (pl_upd_closing (pl_upd_stat p (pl_set (pl_stat p) id pl_mark_closed)) (id :: pl_closing p), [POShut id])
  end.

(* Conn.Close, second half: the onDisconnect callback *)
Definition pl_close_end (p : pool) (id : N) (d : pl_dial) : pool * list pl_out :=
  if pl_mem (pl_closing p) id then pl_on_dropped (pl_upd_closing p (pl_remove (pl_closing p) id)) id d
  else (p, []).

(* Client.Close: every connection of the list is closed, in list order; the callbacks find cl.closed set *)
Fixpoint pl_close_all (p : pool) (l : list N) : pool * list pl_out :=
  match l with
  | [] => (p, [])
  | id :: r =>
      if pl_is_closed p id then pl_close_all p r
      else let '(p1, o) := pl_close_all (pl_upd_stat p (pl_set (pl_stat p) id pl_mark_closed)) r in (p1, POShut id :: o)
  end.

Definition pl_client_close (p : pool) : pool * list pl_out :=
  if pl_closed p then (p, [])
  else
    let l := pl_conns p in
    pl_close_all {| pl_closed := true; pl_conns := []; pl_stat := pl_stat p; pl_closing := pl_closing p; pl_next := pl_next p |} l.

Inductive pl_event :=
| PEvPick (d : pl_dial)              (* a caller runs pickConn; d is what Dial does if it is called *)
| PEvSetCan (id : N) (b : bool)      (* CanOpenStream() of a connection changes (streams, GOAWAY, ids used up) *)
| PEvCloseBegin (id : N)             (* Conn.Close up to and including the transport's Close *)
| PEvCloseEnd (id : N) (d : pl_dial) (* ... its onDisconnect callback *)
| PEvClientClose.                    (* Client.Close *)

Definition pl_step (p : pool) (e : pl_event) : pool * pl_res * list pl_out :=
  match e with
  | PEvPick d => pl_pick_conn p d
  | PEvSetCan id b => (pl_upd_stat p (pl_set (pl_stat p) id (pl_mark_can b)), PRNone, [])
  | PEvCloseBegin id => let '(p1, o) := pl_close_begin p id in (p1, PRNone, o)
  | PEvCloseEnd id d => let '(p1, o) := pl_close_end p id d in (p1, PRNone, o)
  | PEvClientClose => let '(p1, o) := pl_client_close p in (p1, PRNone, o)
  end.

Definition pl_state_of (x : pool * pl_res * list pl_out) : pool := fst (fst x).

Definition pl_run_from (p : pool) (evs : list pl_event) : pool :=
  fold_left (fun q e => pl_state_of (pl_step q e)) evs p.
Definition pl_run (evs : list pl_event) : pool := pl_run_from pl_init evs.

(* all outputs of a run, oldest first *)
Fixpoint pl_outs_from (p : pool) (evs : list pl_event) : list pl_out :=
  match evs with
  | [] => []
  | e :: r => let '(q, _, o) := pl_step p e in o ++ pl_outs_from q r
  end.

(* what the harness compares after each event *)
Definition pl_observe (p : pool) (e : pl_event) : pool * (pl_res * list pl_out * list N * bool) :=
  let '(q, r, o) := pl_step p e in (q, (r, o, pl_conns q, pl_closed q)).
