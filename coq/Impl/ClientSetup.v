(* What a client connection says first (conn.go: NewConn's settings, Handshake(true, ...); http2.go: WritePreface):
   the connection preface, a SETTINGS frame with the client's own settings, WINDOW_UPDATE(0, maxWindow - 65535).
   Written with the frame model of Impl/Frames.v; the preface bytes are generated from the package (Gen/GenSetup.v).

   Tie to the code: the first item of every result line of the `client` correspondence suite ("hs:...") is the preface
   and the two frames as the scripted server read them; the driver prints this model's bytes. *)
From Coq Require Import List NArith ZArith Bool.
From H2V Require Import Base.Bytes Base.MachineInt Base.Result Gen.GenConsts Gen.GenSetup Impl.Frames.
Import ListNotations.
Local Open Scope Z_scope.

Definition cli_preface : bytes := map Z.to_N c_preface_z.

Definition cli_max_window : Z := 1048576.          (* nc.maxWindow = 1 << 20 *)

(* nc.current: Reset, SetMaxWindowSize(1 << 20), SetPush(false) *)
Definition cli_own_settings : settings_v :=
  st_set_enablePush (st_set_windowSize settings_reset (Z.to_N cli_max_window)) false.

(* Handshake(true, c.bw, &c.current, c.maxWindow-65535) *)
Definition cli_handshake_frames : result bytes :=
  match write_to (build 0 0 (BSettings cli_own_settings)) 0 with
  | Ok (b1, _) =>
      match write_to (build 0 0 (BWindowUpdate (cli_max_window - 65535))) 0 with
      | Ok (b2, _) => Ok (b1 ++ b2)
      | Err e => Err e
      | Panic w => Panic w
      end
  | Err e => Err e
  | Panic w => Panic w
  end.

Definition cli_announced : list (N * N) :=
  [(c_EnablePush, 0%N); (c_MaxConcurrentStreams, st_maxStreams cli_own_settings); (c_MaxWindowSize, st_windowSize cli_own_settings)].
