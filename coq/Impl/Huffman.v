(* Model of /repo/huffman.go, bug for bug: HuffmanEncode, huffmanNode.add,
   rootHuffmanNode, HuffmanDecode. Definitions only. *)
From H2V Require Import Base.Bytes Base.MachineInt Base.Result Gen.GenHuffman.
Local Open Scope N_scope.

Definition code_of (b : N) : N := nth (N.to_nat b) huffman_codes 0.
Definition len_of (b : N) : N := nth (N.to_nat b) huffman_code_len 0.

(* ---- HuffmanEncode ---- *)

(* for length >= 8 { length -= 8; dst = append(dst, byte(code>>length)) }
   length is a uint8, so the loop runs at most 31 times. *)
Fixpoint enc_drain (fuel : nat) (code length : N) : bytes * N :=
  match fuel with
  | O => ([], length)
  | S fuel' =>
    if 8 <=? length then
      let length' := length - 8 in
      let '(out, l) := enc_drain fuel' code length' in
      (u8 (N.shiftr code length') :: out, l)
    else ([], length)
  end.

Fixpoint enc_loop (src : bytes) (code length : N) : bytes :=
  match src with
  | [] =>
    if 0 <? length then
      let n := 8 - length in
      [u8 (N.lor (u64 (N.shiftl code n)) (2 ^ n - 1))]
    else []
  | b :: rest =>
    let n := len_of b in
    let c := code_of b in
    let length1 := u8 (length + n) in
    let code1 := N.lor (u64 (N.shiftl code n)) c in
    let '(out, length2) := enc_drain 32 code1 length1 in
    out ++ enc_loop rest code1 length2
  end.

Definition huffman_encode (src : bytes) : bytes := enc_loop src 0 0.

(* ---- the decoding table ---- *)

(* *huffmanNode: nil is None; a node whose sub is nil is a leaf *)
Inductive hnode : Type :=
| HLeaf (sym codeLen : N)
| HSub (sub : list (option hnode)).

Fixpoint set_nth {A} (l : list A) (i : nat) (x : A) : list A :=
  match l, i with
  | [], _ => []
  | _ :: t, O => x :: t
  | h :: t, S i' => h :: set_nth t i' x
  end.

(* for i := start; i < start+cnt; i++ { sub[i] = leaf }; None = index out of range *)
Fixpoint fill {A} (l : list A) (start cnt : nat) (x : A) : option (list A) :=
  match cnt with
  | O => Some l
  | S cnt' => if Nat.ltb start (length l) then fill (set_nth l start x) (S start) cnt' x else None
  end.

Definition empty_sub : hnode := HSub (repeat None 256).

(* (node *huffmanNode).add; None = the Go code would panic (nil map of a leaf / index) *)
Fixpoint add_node (fuel : nat) (node : hnode) (sym code length : N) : option hnode :=
  match node with
  | HLeaf _ _ => None
  | HSub sub =>
    if 8 <? length then
      match fuel with
      | O => None
      | S fuel' =>
        let length' := length - 8 in
        let i := u8 (N.shiftr code length') in
        match idx sub i with
        | None => None
        | Some child =>
          let child0 := match child with None => empty_sub | Some c => c end in
          match add_node fuel' child0 sym code length' with
          | None => None
          | Some c' => Some (HSub (set_nth sub (N.to_nat i) (Some c')))
          end
        end
      end
    else
      let n := 8 - length in
      let start := u8 (N.shiftl code n) in
      match fill sub (N.to_nat start) (N.to_nat (2 ^ n)) (Some (HLeaf sym length)) with
      | None => None
      | Some sub' => Some (HSub sub')
      end
  end.

(* rootHuffmanNode: for i, code := range huffmanCodes { node.add(byte(i), code, huffmanCodeLen[i]) } *)
Fixpoint build_from (i : N) (codes lens : list N) (node : hnode) : option hnode :=
  match codes, lens with
  | c :: codes', l :: lens' =>
    match add_node 32 node i c l with
    | None => None
    | Some node' => build_from (i + 1) codes' lens' node'
    end
  | _, _ => Some node
  end.

Definition build_root : option hnode := build_from 0 huffman_codes huffman_code_len empty_sub.

(* ---- HuffmanDecode ---- *)

(* error classes *)
Definition E_huff_index : N := 1.   (* "invalid huffman index" *)
Definition E_huff_left : N := 2.    (* "bits left decoding huffman bytes" *)
Definition E_huff_zero : N := 3.    (* "bits has a zero prefix" *)
Definition P_nil : N := 0.          (* nil dereference / index out of range *)
Definition P_fuel : N := 99.        (* the Go loop would not terminate *)

Record dstate := mkD { d_acc : N; d_bits : N; d_left : N; d_node : hnode; d_out : bytes (* reversed *) }.

(* root = root.sub[idx] *)
Definition step_node (node : hnode) (i : N) : result (option hnode) :=
  match node with
  | HLeaf _ _ => Panic P_nil
  | HSub sub => match idx sub i with None => Panic P_nil | Some c => Ok c end
  end.

(* for bits >= 8 { ... } *)
Fixpoint dec_inner (fuel : nat) (root : hnode) (s : dstate) : result dstate :=
  match fuel with
  | O => Panic P_fuel
  | S fuel' =>
    if 8 <=? d_bits s then
      let i := u8 (N.shiftr (d_acc s) (d_bits s - 8)) in
      match step_node (d_node s) i with
      | Panic w => Panic w
      | Err e => Err e
      | Ok None => Err E_huff_index
      | Ok (Some (HSub sub)) =>
          dec_inner fuel' root (mkD (d_acc s) (u8 (d_bits s - 8)) (d_left s) (HSub sub) (d_out s))
      | Ok (Some (HLeaf sym cl)) =>
          let bits' := subw 8 (d_bits s) cl in
          dec_inner fuel' root (mkD (d_acc s) bits' bits' root (sym :: d_out s))
      end
    else Ok s
  end.

Fixpoint dec_bytes (root : hnode) (src : bytes) (s : dstate) : result dstate :=
  match src with
  | [] => Ok s
  | b :: rest =>
    let s1 := mkD (N.lor (u32 (N.shiftl (d_acc s) 8)) b) (u8 (d_bits s + 8)) (u8 (d_left s + 8)) (d_node s) (d_out s) in
    match dec_inner 40 root s1 with
    | Ok s2 => dec_bytes root rest s2
    | Err e => Err e
    | Panic w => Panic w
    end
  end.

(* for bits > 0 { ... } *)
Fixpoint dec_tail (fuel : nat) (root : hnode) (s : dstate) : result dstate :=
  match fuel with
  | O => Panic P_fuel
  | S fuel' =>
    if 0 <? d_bits s then
      let i := u8 (N.shiftl (d_acc s) (8 - d_bits s)) in
      match step_node (d_node s) i with
      | Panic w => Panic w
      | Err e => Err e
      | Ok None => Err E_huff_index
      | Ok (Some (HSub sub)) => Ok (mkD (d_acc s) (d_bits s) (d_left s) (HSub sub) (d_out s))
      | Ok (Some (HLeaf sym cl)) =>
          if d_bits s <? cl then Ok (mkD (d_acc s) (d_bits s) (d_left s) (HLeaf sym cl) (d_out s))
          else
            let bits' := subw 8 (d_bits s) cl in
            dec_tail fuel' root (mkD (d_acc s) bits' bits' root (sym :: d_out s))
      end
    else Ok s
  end.

Definition dec_finish (s : dstate) : result bytes :=
  if 7 <? d_left s then Err E_huff_left
  else
    let mask := u32 (2 ^ d_bits s - 1) in
    if N.land (d_acc s) mask =? mask then Ok (rev (d_out s)) else Err E_huff_zero.

Definition huffman_decode_with (root : hnode) (src : bytes) : result bytes :=
  match dec_bytes root src (mkD 0 0 0 root []) with
  | Ok s1 =>
    match dec_tail 16 root s1 with
    | Ok s2 => dec_finish s2
    | Err e => Err e
    | Panic w => Panic w
    end
  | Err e => Err e
  | Panic w => Panic w
  end.

(* the table is built once (package initialisation); its value is pinned by
   the lemma root_built in Proofs *)
Definition huffman_root : hnode :=
  match build_root with Some r => r | None => HLeaf 0 0 end.

Definition huffman_decode (src : bytes) : result bytes := huffman_decode_with huffman_root src.
