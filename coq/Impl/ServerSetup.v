(* How a server connection comes by its configuration and what it tells the peer first
   (server.go: ServerConfig.defaults, ServeConn, maxRequestBodySize; configure.go: ConfigureServer,
   ConfigureServerAndConfig; conn.go: Handshake; serverConn.go: serverConn.Handshake).

   The connection model (Impl/ServerConn.v) starts from a `config`; this file is the code between the
   user's ServerConfig / fasthttp.Server and that config, and the bytes of the server's handshake
   (SETTINGS, then WINDOW_UPDATE), written with the frame model of Impl/Frames.v.

   Tie to the code: in the `server` correspondence suite the harness builds the server from the RAW
   values (zero and negative ones included, through either constructor), the extracted `srv_serve_config`
   gives the model its config, and the handshake bytes the peer reads are compared with
   `srv_handshake_bytes` (the " !hs=" item of every result line). *)
From Coq Require Import List NArith ZArith Bool.
From H2V Require Import Base.Bytes Base.MachineInt Base.Result Gen.GenConsts Gen.GenSetup Impl.Frames Impl.ServerConn.
Import ListNotations.
Local Open Scope Z_scope.

(* what the user gives: ServerConfig.MaxConcurrentStreams, .MaxHeaderListSize (Go ints),
   fasthttp.Server.MaxRequestBodySize, ReadTimeout (ms) *)
Record srv_user := mkSrvUser { su_maxStreams : Z; su_maxHeaderList : Z; su_maxBody : Z; su_readTimeout : Z }.

(* ServerConfig.defaults (the two fields the connection uses) *)
Definition srv_defaults (ms hl : Z) : Z * Z :=
  ((if ms <=? 0 then c_srvDefaultMaxStreams else ms),
   (if hl =? 0 then c_srvDefaultMaxHeaderListSize else hl)).

(* ConfigureServer(s, cnf): cnf.defaults().  ConfigureServerAndConfig(s, tlsConfig): there is no ServerConfig, the
   zero value's defaults apply. *)
Definition srv_configure (and_config : bool) (u : srv_user) : Z * Z :=
  if and_config then srv_defaults 0 0 else srv_defaults (su_maxStreams u) (su_maxHeaderList u).

(* maxRequestBodySize(s.s) *)
Definition srv_max_body (mb : Z) : Z := if 0 <? mb then mb else c_fasthttpDefaultMaxBody.

Definition srv_max_window : Z := 4194304.   (* sc.maxWindow = 1 << 22 *)

Definition to_u32 (z : Z) : N := Z.to_N (z mod 4294967296).   (* uint32(int) *)

(* sc.st after ServeConn has set it up: Reset, SetMaxWindowSize, SetMaxConcurrentStreams,
   SetMaxHeaderListSize when the limit is positive *)
Definition srv_own_settings (and_config : bool) (u : srv_user) : settings_v :=
  let '(ms, hl) := srv_configure and_config u in
  let st := st_set_maxStreams (st_set_windowSize settings_reset (to_u32 srv_max_window)) (to_u32 ms) in
  if 0 <? hl then st_set_headerSize st (to_u32 hl) else st.

(* the config the connection enforces: sc.st.maxStreams (compared as int(uint32)), sc.maxHeaderList,
   sc.maxRequestBodySize, sc.maxRequestTime, sc.maxWindow *)
Definition srv_serve_config (and_config : bool) (u : srv_user) : config :=
  let '(ms, hl) := srv_configure and_config u in
  {| cf_maxStreams := Z.of_N (st_maxStreams (srv_own_settings and_config u));
     cf_maxHeaderList := hl;
     cf_maxBody := srv_max_body (su_maxBody u);
     cf_maxRequestTime := su_readTimeout u;
     cf_maxWindow := srv_max_window |}.

(* Handshake(false, sc.bw, &sc.st, sc.maxWindow): a copy of the settings in a SETTINGS frame, then
   WINDOW_UPDATE(0, maxWin); both on fresh frame headers, stream 0, no flags *)
Definition srv_handshake_bytes (and_config : bool) (u : srv_user) : result bytes :=
  match write_to (build 0 0 (BSettings (srv_own_settings and_config u))) 0 with
  | Ok (b1, _) =>
      match write_to (build 0 0 (BWindowUpdate srv_max_window)) 0 with
      | Ok (b2, _) => Ok (b1 ++ b2)
      | Err e => Err e
      | Panic w => Panic w
      end
  | Err e => Err e
  | Panic w => Panic w
  end.

(* the (identifier, value) pairs of the handshake's SETTINGS frame, as Settings.Encode lays them out *)
Definition srv_announced (and_config : bool) (u : srv_user) : list (N * N) :=
  let st := srv_own_settings and_config u in
  [(c_EnablePush, 0%N); (c_MaxConcurrentStreams, st_maxStreams st); (c_MaxWindowSize, st_windowSize st)]
  ++ (if negb (st_headerSize st =? 0)%N then [(c_MaxHeaderListSize, st_headerSize st)] else []).
