(* The server model instantiated with the HPACK model of Impl/Hpack.v. *)
From H2V Require Import Base.Bytes Base.MachineInt Base.Result Gen.GenConsts Impl.Hpack Impl.ServerConn.
Local Open Scope N_scope.

(* dec.nextField(hf, true, fieldsProcessed, b) with hf as the server's loop holds it *)
Definition srv_dec_field (hp : hpack_state) (fieldsProcessed : N) (b : bytes) : dec_res hpack_state :=
  let o := next_field hp empty_field true fieldsProcessed b in
  match nf_res o with
  | Ok (rest, true) => DField _ (f_key (nf_hf o)) (f_value (nf_hf o)) rest (nf_hp o)
  | Ok (_, false) => DNone _ (nf_hp o)
  | Err e => if e =? E_unexpected_size then DShort _ (nf_hp o) else DFail _ (nf_hp o)
  | Panic _ => DPanic _
  end.

(* enc.AppendHeader(dst, hf, store) for a field that is not sensitive: the bytes appended *)
Definition srv_enc_field (hp : hpack_state) (k v : bytes) (store : bool) : bytes * hpack_state :=
  match append_header hp [] (mkF k v false) store with
  | Ok r => r
  | _ => ([], hp)
  end.

Definition srv_init_hpack : hpack_state := hpack_init false false.

Definition srv_step := step hpack_state srv_dec_field srv_enc_field set_max_table_size.
Definition srv_run (cfg : config) (evs : list event) : sconn hpack_state :=
  run hpack_state srv_dec_field srv_enc_field set_max_table_size cfg srv_init_hpack evs.
Definition srv_trace (c : sconn hpack_state) : list outev := trace hpack_state c.
