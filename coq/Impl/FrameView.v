(* The bridge between the RFC-level frame AST (Spec/Rfc7540Frames.v) and what the Go
   accessors expose (Impl/Frames.v): for a frame on the wire, the FrameHeader + body a
   correct reader hands back ("view"), and for a value built through the API, the
   frame that should be on the wire ("frame_of"). Definitions only; used both by the
   theorems and, extracted, by the correspondence driver. *)
From H2V Require Import Base.Bytes Base.MachineInt Base.Result Gen.GenConsts
  Spec.Rfc7540Frames Impl.Pools Impl.Frames.
Local Open Scope N_scope.

(* ReadFrameFromWithSize(br, 0): checkLen treats maxLen = 0 as "no limit"; the 24-bit
   length field is then the only bound *)
Definition effective_limit (max : N) : N := if max =? 0 then 2 ^ 24 - 1 else max.

(* ---- reading: frame -> what the accessors show ---- *)

(* Settings accessors after Deserialize: the listed parameters applied, in order, to
   the values Settings.Reset installs; unknown identifiers ignored. *)
Definition view_value (st : settings_v) (kv : N * N) : settings_v :=
  match fst kv with
  | 1 => st_set_tableSize st (snd kv)
  | 2 => st_set_enablePush st (negb (snd kv =? 0))
  | 3 => st_set_maxStreams st (snd kv)
  | 4 => st_set_windowSize st (snd kv)
  | 5 => st_set_frameSize st (snd kv)
  | 6 => st_set_headerSize st (snd kv)
  | _ => st
  end.

(* Has(id): a bit per defined identifier that the frame carried (kept in a uint8) *)
Definition view_mark (st : settings_v) (k : N) : settings_v :=
  if (1 <=? k) && (k <=? 6) then st_set_present st (u8 (N.lor (st_present st) (2 ^ k))) else st.

Definition view_setting (st : settings_v) (kv : N * N) : settings_v :=
  view_value (view_mark st (fst kv)) kv.

Definition view_body (fl : N) (b : payload) : body :=
  match b with
  | Data _ d => BData (flag fl END_STREAM) false d
  | Headers _ prio frag =>
      match prio with
      | Some p => BHeaders false (p_dep p) (p_weight p) (flag fl END_STREAM) (flag fl END_HEADERS) true frag
      | None => BHeaders false 0 0 (flag fl END_STREAM) (flag fl END_HEADERS) false frag
      end
  | Priority p => BPriority (p_dep p) (p_weight p)
  | RstStream c => BRstStream c
  | Settings items =>
      BSettings (fold_left view_setting items (st_set_ack settings_reset (flag fl ACK)))
  | PushPromise _ _ promised frag => BPushPromise false (flag fl END_HEADERS) promised frag
  | Ping d => BPing (flag fl ACK) d
  | GoAway _ last code debug => BGoAway last code debug
  | WindowUpdate _ incr => BWindowUpdate (Z.of_N incr)
  | Continuation frag => BContinuation (flag fl END_HEADERS) frag
  end.

(* the *FrameHeader ReadFrameFromWithSize(br, max) returns for frame f: Len, Type, Flags,
   Stream, MaxLen, the raw payload it keeps, and the body *)
Definition view (max : N) (f : frame) : fhdr :=
  mkFH (payload_len f) (Z.of_N (type_code (f_body f))) (f_flags f) (f_stream f) max
       (payload_bytes (f_body f)) (Some (view_body (f_flags f) (f_body f))).

(* ---- writing: API value -> the frame that has to be on the wire ---- *)

(* bit b of the octet set to on, the other bits as they were *)
Definition set_bit (fl bit : N) (on : bool) : N := if on then N.lor fl bit else N.ldiff fl bit.

(* the flags octet WriteTo sends: the bits the frame type defines come from the body,
   the other bits from what was pre-set on the header *)
Definition flags_of (pre : N) (bd : body) : N :=
  match bd with
  | BData es hp _ => set_bit (set_bit pre 1 es) 8 hp
  | BHeaders hp _ _ es eh pr _ => set_bit (set_bit (set_bit (set_bit pre 1 es) 4 eh) 32 pr) 8 hp
  | BSettings st => set_bit pre 1 (st_ack st)
  | BPushPromise _ ended _ _ => set_bit (set_bit pre 4 ended) 8 false
  | BPing ack _ => set_bit pre 1 ack
  | BContinuation eh _ => set_bit pre 4 eh
  | _ => pre
  end.

Definition pad_of (hp : bool) (padn : N) : option bytes :=
  if hp then Some (repeat 0 (N.to_nat padn)) else None.

(* the parameters Settings.Encode lists: those whose value is not the RFC's initial one
   (MAX_CONCURRENT_STREAMS always; MAX_FRAME_SIZE 0 means "not set") *)
Definition sent_settings (st : settings_v) : list (N * N) :=
  (if st_tableSize st =? 4096 then [] else [(1, st_tableSize st)])
  ++ (if st_enablePush st then [] else [(2, 0)])
  ++ [(3, st_maxStreams st)]
  ++ (if st_windowSize st =? 65535 then [] else [(4, st_windowSize st)])
  ++ (if (st_frameSize st =? 0) || (st_frameSize st =? 16384) then [] else [(5, st_frameSize st)])
  ++ (if st_headerSize st =? 0 then [] else [(6, st_headerSize st)]).

(* what the sender means the peer to know after the frame: the six accessor values
   (MaxHeaderListSize 0 is documented as "no limit", the RFC's initial value) *)
Definition params_of (st : settings_v) : params :=
  mkParams (st_tableSize st) (if st_enablePush st then 1 else 0) (Some (st_maxStreams st))
           (st_windowSize st) (st_frameSize st)
           (if st_headerSize st =? 0 then None else Some (st_headerSize st)).

(* values a conforming sender may announce (6.5.2) *)
Definition settings_value_ok (st : settings_v) : bool :=
  (st_windowSize st <=? 2 ^ 31 - 1) && (2 ^ 14 <=? st_frameSize st) && (st_frameSize st <=? 2 ^ 24 - 1).

Definition payload_of (bd : body) (padn : N) : payload :=
  match bd with
  | BData _ hp b => Data (pad_of hp padn) b
  | BHeaders hp st w _ _ pr raw =>
      Headers (pad_of hp padn) (if pr then Some (mkPrio false (st mod 2 ^ 31) w) else None) raw
  | BPriority st w => Priority (mkPrio false st w)
  | BRstStream c => RstStream c
  | BSettings st => Settings (if st_ack st then [] else sent_settings st)
  | BPushPromise _ _ st hdr => PushPromise None false (st mod 2 ^ 31) hdr
  | BPing _ d => Ping d
  | BGoAway st c d => GoAway false st c d
  | BWindowUpdate inc => WindowUpdate (top_bit (of_signed 32 inc)) (low31 (of_signed 32 inc))
  | BContinuation _ raw => Continuation raw
  end.

(* SetStream does not clear the reserved bit: a stream id >= 2^31 goes out with R set *)
Definition frame_of (pre stream : N) (bd : body) (padn : N) : frame :=
  mkFrame (flags_of pre bd) (top_bit stream) (low31 stream) (payload_of bd padn).

(* values the setters can produce: the Go field types bound every number *)
Definition body_ok (bd : body) : Prop :=
  match bd with
  | BData _ _ b => bytes_ok b = true
  | BHeaders _ st w _ _ _ raw => st < 2 ^ 32 /\ w < 256 /\ bytes_ok raw = true
  | BPriority st w => st < 2 ^ 31 /\ w < 256                  (* SetStream masks *)
  | BRstStream c => c < 2 ^ 32
  | BSettings st =>
      st_tableSize st < 2 ^ 32 /\ st_maxStreams st < 2 ^ 32 /\ st_windowSize st < 2 ^ 32 /\
      st_frameSize st < 2 ^ 32 /\ st_headerSize st < 2 ^ 32
  | BPushPromise _ _ st hdr => st < 2 ^ 32 /\ bytes_ok hdr = true
  | BPing _ d => bytes_ok d = true /\ len d = 8
  | BGoAway st c d => st < 2 ^ 31 /\ c < 2 ^ 32 /\ bytes_ok d = true   (* SetStream masks; SetCode masks to 31 bits, Deserialize keeps 32 *)
  | BWindowUpdate _ => True
  | BContinuation _ raw => bytes_ok raw = true
  end.

(* pre-set flags: any octet *)
Definition preset_ok (pre : N) : Prop := pre < 256.
