(* Model of /repo/hpack.go and /repo/headerField.go, bug for bug, plus the header-block loop of
   serverConn.handleHeaderFrame reduced to its decoding skeleton. Definitions only.

   Go construct                         here
     []byte                             bytes (list N), slices by takeN/dropN
     uint8/uint32/uint64/int            N (or Z for int) with the wrap-around written out
     *HeaderField                       field (value; CopyTo/SetKeyBytes copy, so no aliasing is lost)
     *HPACK                             hpack_state, threaded
     error                              Err class (classes below); errors.Is(err, ErrUnexpectedSize)
                                        is  class =? E_unexpected_size
     goto loop / for                    explicit fuel, Panic P_fuel when it runs out            *)
From H2V Require Import Base.Bytes Base.MachineInt Base.Result Gen.GenConsts Gen.GenStatic Impl.Huffman.
Local Open Scope N_scope.

(* ---- error classes (1..3 are the Huffman ones of Impl/Huffman.v) ---- *)
Definition E_unexpected_size : N := 10.     (* ErrUnexpectedSize *)
Definition E_int_overflow : N := 11.        (* ErrIntOverflow *)
Definition E_index_not_found : N := 13.     (* NewError(FlowControlError, "... field not found ...") *)
Definition E_dynamic_update : N := 14.      (* ErrDynamicUpdate *)
Definition E_dynamic_update_max : N := 15.  (* ErrDynamicUpdateMaxTableSize *)
Definition E_compression : N := 20.         (* NewGoAwayError(CompressionError, ...) in handleHeaderFrame *)
Definition E_headers_incomplete : N := 21.  (* "END_HEADERS received on an incomplete stream" *)
Definition P_hpack_index : N := 1.                (* index / slice bounds out of range *)

(* ---- headerField.go ---- *)

Record field : Type := mkF { f_key : bytes; f_value : bytes; f_sens : bool }.

Definition empty_field : field := mkF [] [] false.                 (* a HeaderField fresh from the pool *)
Definition set_key (hf : field) (k : bytes) : field := mkF k (f_value hf) (f_sens hf).      (* SetKeyBytes *)
Definition set_value (hf : field) (v : bytes) : field := mkF (f_key hf) v (f_sens hf).      (* SetValueBytes *)
Definition set_sens (hf : field) (s : bool) : field := mkF (f_key hf) (f_value hf) s.

(* func (hf *HeaderField) Size() uint32 { return uint32(len(hf.key) + len(hf.value) + 32) } *)
Definition field_size (hf : field) : N := u32 (len (f_key hf) + len (f_value hf) + 32).

(* ---- type HPACK ---- *)

Record hpack_state : Type := mkH {
  h_no_compress : bool;      (* DisableCompression *)
  h_no_dynamic : bool;       (* DisableDynamicTable *)
  h_dynamic : list field;    (* dynamic, OLDEST first: insertion at the end, eviction at the front *)
  h_max : N;                 (* maxTableSize uint32 *)
  h_max_settings : N;        (* maxTableSizeSettings uint32 *)
  h_pending : bool;          (* pendingSizeUpdate *)
  h_pending_min : N          (* pendingMinSize uint32 *)
}.

Definition with_dynamic (hp : hpack_state) (d : list field) : hpack_state :=
  mkH (h_no_compress hp) (h_no_dynamic hp) d (h_max hp) (h_max_settings hp) (h_pending hp) (h_pending_min hp).
Definition with_max (hp : hpack_state) (m : N) : hpack_state :=
  mkH (h_no_compress hp) (h_no_dynamic hp) (h_dynamic hp) m (h_max_settings hp) (h_pending hp) (h_pending_min hp).
Definition with_pending (hp : hpack_state) (p : bool) : hpack_state :=
  mkH (h_no_compress hp) (h_no_dynamic hp) (h_dynamic hp) (h_max hp) (h_max_settings hp) p (h_pending_min hp).

(* AcquireHPACK on a new object, with the two public option fields set by the caller *)
Definition hpack_init (no_compress no_dynamic : bool) : hpack_state :=
  mkH no_compress no_dynamic [] c_defaultHeaderTableSize c_defaultHeaderTableSize false 0.

Definition static_fields : list field := map (fun kv => mkF (fst kv) (snd kv) false) static_table.

(* ---- DynamicSize, shrink, addDynamic, SetMaxTableSize ---- *)

(* for _, hf := range hp.dynamic { n += hf.Size() }  (uint32) *)
Definition dynamic_size (dyn : list field) : N := fold_left (fun n hf => u32 (n + field_size hf)) dyn 0.

(* for n = 0; n < len(hp.dynamic) && tableSize > hp.maxTableSize; n++ { tableSize -= hp.dynamic[n].Size() }
   followed by hp.dynamic = hp.dynamic[n:] *)
Fixpoint shrink_loop (dyn : list field) (tableSize max : N) : list field :=
  match dyn with
  | [] => []
  | hf :: rest => if max <? tableSize then shrink_loop rest (subw 32 tableSize (field_size hf)) max else dyn
  end.

Definition shrink (hp : hpack_state) : hpack_state :=
  with_dynamic hp (shrink_loop (h_dynamic hp) (dynamic_size (h_dynamic hp)) (h_max hp)).

(* hf.CopyTo(hf2); hp.dynamic = append(hp.dynamic, hf2); hp.shrink() *)
Definition add_dynamic (hp : hpack_state) (hf : field) : hpack_state :=
  shrink (with_dynamic hp (h_dynamic hp ++ [hf])).

Definition set_max_table_size (hp : hpack_state) (size : N) : hpack_state :=
  if (h_max hp =? size) && (h_max_settings hp =? size) then hp
  else
    let pmin := if negb (h_pending hp) || (size <? h_pending_min hp) then size else h_pending_min hp in
    shrink (mkH (h_no_compress hp) (h_no_dynamic hp) (h_dynamic hp) size size true pmin).

(* ---- peek ---- *)

(* a Z computed in Go's int (64-bit two's complement) *)
Definition int64 (z : Z) : Z := signed 64 (of_signed 64 z).

(* if index < 0 || index >= len(table) { return nil }; return table[index] *)
Definition zidx {A} (l : list A) (i : Z) : option A :=
  if (i <? 0)%Z then None
  else if (Z.of_nat (length l) <=? i)%Z then None
  else nth_error l (Z.to_nat i).

Definition peek (hp : hpack_state) (n : N) : option field :=
  if n <? c_maxIndex then
    zidx static_fields (signed 64 (subw 64 n 1))                       (* int(n-1), n-1 in uint64 *)
  else
    let k := signed 64 (subw 64 n c_maxIndex) in                       (* int(n-maxIndex) *)
    zidx (h_dynamic hp) (int64 (int64 (Z.of_nat (length (h_dynamic hp)) - k) - 1)).

(* ---- search ---- *)

Fixpoint search_dynamic (dyn : list field) (i dlen : N) (hf : field) : N * bool :=
  match dyn with
  | [] => (0, false)
  | hf2 :: rest =>
      if bytes_eqb (f_key hf) (f_key hf2) && bytes_eqb (f_value hf) (f_value hf2)
      then (u64 (c_maxIndex + dlen - i - 1), true)
      else search_dynamic rest (i + 1) dlen hf
  end.

Fixpoint search_static (tbl : list field) (i : N) (hf : field) (n : N) (fullMatch : bool) : N * bool :=
  match tbl with
  | [] => (n, fullMatch)
  | hf2 :: rest =>
      if bytes_eqb (f_key hf) (f_key hf2) then
        if bytes_eqb (f_value hf) (f_value hf2) then (i + 1, true)
        else search_static rest (i + 1) hf (if n =? 0 then i + 1 else n) false
      else search_static rest (i + 1) hf n fullMatch
  end.

Definition search (hp : hpack_state) (hf : field) : N * bool :=
  let '(n, fullMatch) := search_dynamic (h_dynamic hp) 0 (N.of_nat (length (h_dynamic hp))) hf in
  if n =? 0 then search_static static_fields 0 hf 0 fullMatch else (n, fullMatch).

(* ---- readInt ---- *)

(* for i := 1; i < len(b); i++ { ... }   bs = b[i:] *)
Fixpoint read_int_loop (bs : bytes) (i nn b0 : N) : result (bytes * N) :=
  match bs with
  | [] => Err E_unexpected_size                     (* the bytes ran out with the continuation bit set *)
  | x :: rest =>
      let shift := (i - 1) * 7 in
      if 56 <? shift then Err E_int_overflow
      else
        let nn' := N.lor nn (shlw 64 (N.land x 127) shift) in
        if negb (N.land x 128 =? 128) then Ok (rest, u64 (nn' + b0))
        else read_int_loop rest (i + 1) nn' b0
  end.

Definition read_int (n : N) (b : bytes) : result (bytes * N) :=
  match b with
  | [] => Err E_unexpected_size
  | c :: rest =>
      let b0 := u8 (2 ^ n - 1) in                    (* byte(1<<n - 1) *)
      if negb (N.land b0 c =? b0) then Ok (rest, N.land c b0)
      else read_int_loop rest 1 0 b0
  end.

(* ---- readString (dst is always empty at the call sites: dst[:0]) ---- *)

Definition read_string (b : bytes) : result (bytes * bytes) :=        (* rest, string *)
  match b with
  | [] => Err E_unexpected_size                     (* nothing of the string has arrived yet *)
  | c :: _ =>
      let mustDecode := N.land c 128 =? 128 in
      match read_int 7 b with
      | Err e => Err e
      | Panic w => Panic w
      | Ok (b1, n) =>
          if len b1 <? n then Err E_unexpected_size
          else if mustDecode then
            match huffman_decode (takeN n b1) with
            | Ok dst => Ok (dropN n b1, dst)
            | Err e => Err e
            | Panic w => Panic w
            end
          else Ok (dropN n b1, takeN n b1)
      end
  end.

(* ---- nextField ---- *)

(* what a call leaves behind: the HPACK state, the caller's HeaderField, and (rest, decoded, nil)
   or the error *)
Record nf_out : Type := mkNF { nf_hp : hpack_state; nf_hf : field; nf_res : result (bytes * bool) }.

(* return b, err == nil, err   at the end of the switch *)
Definition nf_done (hp : hpack_state) (hf : field) (r : result bytes) : nf_out :=
  mkNF hp hf (match r with Ok b => Ok (b, true) | Err e => Err e | Panic w => Panic w end).

(* "Reading key" then "Reading value" of the two literal cases.
   by_index: the key is an index on a `bits`-bit prefix; otherwise b = b[1:] and a string follows. *)
Definition read_literal (hp : hpack_state) (hf : field) (by_index : bool) (bits : N) (b : bytes)
  : field * result bytes :=
  let key_read : field * result bytes :=
    if by_index then
      match read_int bits b with
      | Err e => (hf, Err e)
      | Panic w => (hf, Panic w)
      | Ok (b1, n) =>
          match peek hp n with
          | None => (hf, Err E_index_not_found)
          | Some hf2 => (set_key hf (f_key hf2), Ok b1)
          end
      end
    else
      match b with
      | [] => (hf, Panic P_hpack_index)
      | _ :: b1 =>
          match read_string b1 with
          | Err e => (hf, Err e)
          | Panic w => (hf, Panic w)
          | Ok (b2, dst) => (set_key hf dst, Ok b2)
          end
      end in
  match key_read with
  | (hf1, Ok b1) =>
      match b1 with
      | [] => (hf1, Err E_unexpected_size)          (* the field is cut short *)
      | _ :: _ =>
          match read_string b1 with
          | Err e => (hf1, Err e)
          | Panic w => (hf1, Panic w)
          | Ok (b2, dst) => (set_value hf1 dst, Ok b2)
          end
      end
  | other => other
  end.

Fixpoint next_field_loop (fuel : nat) (hp : hpack_state) (hf : field) (blockStart : bool)
         (fieldsProcessed : N) (b : bytes) : nf_out :=
  match b with
  | [] => mkNF hp hf (Ok ([], false))                (* loop: if len(b) == 0 { return b, false, nil } *)
  | c :: _ =>
      let hf := set_sens hf false in
      if N.land c 128 =? 128 then                    (* Indexed Header Field *)
        match read_int 7 b with
        | Err e => mkNF hp hf (Err e)
        | Panic w => mkNF hp hf (Panic w)
        | Ok (b1, n) =>
            match peek hp n with
            | None => mkNF hp hf (Err E_index_not_found)
            | Some hf2 => mkNF hp hf2 (Ok (b1, true))  (* hf2.CopyTo(hf): key, value and sensible *)
            end
        end
      else if N.land c 64 =? 64 then                 (* Literal with Incremental Indexing *)
        match read_literal hp hf (negb (c =? 64)) 6 b with
        | (hf1, Ok b1) => mkNF (add_dynamic hp hf1) hf1 (Ok (b1, true))
        | (hf1, r) => nf_done hp hf1 r
        end
      else if N.land c 240 =? 16 then                (* Never Indexed: hf.sensible = true; fallthrough *)
        let '(hf1, r) := read_literal hp (set_sens hf true) (negb (N.land c 15 =? 0)) 4 b in
        nf_done hp hf1 r
      else if N.land c 240 =? 0 then                 (* without Indexing *)
        let '(hf1, r) := read_literal hp hf (negb (N.land c 15 =? 0)) 4 b in
        nf_done hp hf1 r
      else if N.land c 32 =? 32 then                 (* Dynamic Table Size Update *)
        match read_int 5 b with
        | Err e => mkNF hp hf (Err e)
        | Panic w => mkNF hp hf (Panic w)
        | Ok (b1, n) =>
            if negb blockStart || (0 <? fieldsProcessed) then mkNF hp hf (Err E_dynamic_update)
            else if h_max_settings hp <? n then mkNF hp hf (Err E_dynamic_update_max)
            else
              match fuel with
              | O => mkNF hp hf (Panic P_fuel)
              | S fuel' =>                            (* hp.maxTableSize = uint32(n); hp.shrink(); goto loop *)
                  next_field_loop fuel' (shrink (with_max hp (u32 n))) hf blockStart fieldsProcessed b1
              end
        end
      else mkNF hp hf (Ok (b, true))                  (* no case of the switch: return b, err == nil, err *)
  end.

Definition next_field (hp : hpack_state) (hf : field) (blockStart : bool) (fieldsProcessed : N) (b : bytes)
  : nf_out := next_field_loop (S (length b)) hp hf blockStart fieldsProcessed b.

(* ---- the header-block loop of serverConn.handleHeaderFrame / handleFrame (decoding skeleton) ---- *)

(* what the stream keeps between the frames of a header block *)
Record strm_state : Type := mkS { s_prev : bytes (* previousHeaderBytes *); s_block_fields : N (* blockFields *) }.

(* for len(b) > 0 { pb := b; b, decoded, err = nextField(hf, true, strm.blockFields, b); ... }
   result: fields decoded by this frame (in order), HPACK state, previousHeaderBytes, blockFields *)
Fixpoint frame_loop (fuel : nat) (hp : hpack_state) (hf : field) (end_headers : bool)
         (blockFields : N) (b : bytes) : result (list field * hpack_state * strm_state) :=
  match b with
  | [] => Ok ([], hp, mkS [] blockFields)
  | _ :: _ =>
      match fuel with
      | O => Panic P_fuel
      | S fuel' =>
          let o := next_field hp hf true blockFields b in
          match nf_res o with
          | Panic w => Panic w
          | Ok (_, false) => Ok ([], nf_hp o, mkS [] blockFields)   (* err == nil && !decoded: break *)
          | Err e =>
              (* errors.Is(err, ErrUnexpectedSize) && len(pb) > 0 && !fr.Flags().Has(FlagEndHeaders) *)
              if (e =? E_unexpected_size) && (0 <? len b) && negb end_headers
              then Ok ([], nf_hp o, mkS b blockFields)              (* previousHeaderBytes = pb *)
              else Err E_compression
          | Ok (rest, true) =>
              match frame_loop fuel' (nf_hp o) (nf_hf o) end_headers (blockFields + 1) rest with
              | Ok (fs, hp', st) => Ok (nf_hf o :: fs, hp', st)
              | Err e => Err e
              | Panic w => Panic w
              end
          end
      end
  end.

(* payload, END_HEADERS, frame type is CONTINUATION *)
Definition hdr_frame : Type := (bytes * bool * bool)%type.

Definition handle_header_frame (hp : hpack_state) (st : strm_state) (fr : hdr_frame)
  : result (list field * hpack_state * strm_state) :=
  let '(payload, end_headers, is_continuation) := fr in
  let blockFields := if is_continuation then s_block_fields st else 0 in
  let b := s_prev st ++ payload in
  match frame_loop (S (length b)) hp empty_field end_headers blockFields b with
  | Ok (fs, hp', st') =>
      (* handleFrame: if END_HEADERS { headersFinished = len(previousHeaderBytes) == 0; if !... error } *)
      if end_headers && negb (len (s_prev st') =? 0) then Err E_headers_incomplete else Ok (fs, hp', st')
  | Err e => Err e
  | Panic w => Panic w
  end.

Fixpoint frames_from (hp : hpack_state) (st : strm_state) (frs : list hdr_frame) : result (list field * hpack_state) :=
  match frs with
  | [] => Ok ([], hp)
  | fr :: frs' =>
      match handle_header_frame hp st fr with
      | Ok (fs, hp', st') =>
          match frames_from hp' st' frs' with
          | Ok (fs', hp'') => Ok (fs ++ fs', hp'')
          | Err e => Err e
          | Panic w => Panic w
          end
      | Err e => Err e
      | Panic w => Panic w
      end
  end.

(* a new stream: NewStream resets previousHeaderBytes and blockFields *)
Definition block_decode_frames (hp : hpack_state) (frs : list hdr_frame) : result (list field * hpack_state) :=
  frames_from hp (mkS [] 0) frs.

(* a whole block in one HEADERS frame with END_HEADERS *)
Definition block_decode (hp : hpack_state) (b : bytes) : result (list field * hpack_state) :=
  block_decode_frames hp [(b, true, false)].

(* successive blocks on one connection; the first error is fatal (GOAWAY) *)
Fixpoint decode_history (hp : hpack_state) (bs : list bytes) : result (list (list field) * hpack_state) :=
  match bs with
  | [] => Ok ([], hp)
  | b :: bs' =>
      match block_decode hp b with
      | Ok (fs, hp') =>
          match decode_history hp' bs' with
          | Ok (fss, hp'') => Ok (fs :: fss, hp'')
          | Err e => Err e
          | Panic w => Panic w
          end
      | Err e => Err e
      | Panic w => Panic w
      end
  end.

(* ---- appendInt ---- *)

(* dst[len(dst)-1] |= v   /   &= v *)
Definition or_last (dst : bytes) (v : N) : result bytes :=
  match rev dst with [] => Panic P_hpack_index | x :: r => Ok (rev (N.lor x v :: r)) end.
Definition and_last (dst : bytes) (v : N) : result bytes :=
  match rev dst with [] => Panic P_hpack_index | x :: r => Ok (rev (N.land x v :: r)) end.

(* for index != 0 { dst = append(dst, 128|byte(index&127)); index >>= 7 } *)
Fixpoint append_int_loop (fuel : nat) (dst : bytes) (index : N) : result bytes :=
  if index =? 0 then Ok dst
  else match fuel with
       | O => Panic P_fuel
       | S fuel' => append_int_loop fuel' (dst ++ [N.lor 128 (u8 (N.land index 127))]) (N.shiftr index 7)
       end.

Definition append_int (dst : bytes) (bits index : N) : result bytes :=
  let dst := match dst with [] => [0] | _ :: _ => dst end in
  let b0 := subw 64 (shlw 64 1 bits) 1 in            (* uint64(1<<bits - 1) *)
  if index <? b0 then or_last dst (u8 index)
  else
    bind (or_last dst (u8 b0)) (fun d1 =>
    let index := subw 64 index b0 in
    if index =? 0 then Ok (d1 ++ [0])               (* the value 2^bits-1: the prefix and a zero byte *)
    else
      bind (append_int_loop 11 d1 index) (fun d2 =>
      and_last d2 127)).

(* ---- appendString ---- *)

(* dst[nn] |= v *)
Definition or_at (dst : bytes) (nn v : N) : result bytes :=
  match idx dst nn with
  | None => Panic P_hpack_index
  | Some x => Ok (takeN nn dst ++ N.lor x v :: dropN (nn + 1) dst)
  end.

Definition append_string (dst src : bytes) (encode : bool) : result bytes :=
  let b := if encode then huffman_encode src else src in
  let n := len b in
  let dst := dst ++ [0] in
  let nn := len dst - 1 in
  bind (append_int dst 7 n) (fun d1 =>
  let d2 := d1 ++ b in
  if encode then or_at d2 nn 128 else Ok d2).

(* ---- AppendHeader ---- *)

Definition append_header (hp : hpack_state) (dst : bytes) (hf : field) (store : bool)
  : result (bytes * hpack_state) :=
  (* if hp.pendingSizeUpdate { ... } *)
  bind (if h_pending hp then
          let hp := with_pending hp false in
          bind (if h_pending_min hp <? h_max hp
                then append_int (dst ++ [32]) 5 (h_pending_min hp) else Ok dst) (fun d1 =>
          bind (append_int (d1 ++ [32]) 5 (h_max hp)) (fun d2 => Ok (d2, hp)))
        else Ok (dst, hp)) (fun dh =>
  let '(dst, hp) := dh in
  let c := negb (h_no_compress hp) in
  let '(index, fullMatch) := search hp hf in
  (* c, bits, dst, hp after the if/else tree *)
  let '(c, bits, dst, hp) :=
    if f_sens hf then (false, 4, dst ++ [16], hp)
    else if 0 <? index then
      if fullMatch then (c, 7, dst ++ [128], hp)
      else if negb store then (c, 4, dst ++ [0], hp)
      else (c, 6, dst ++ [64], if index <? c_maxIndex then add_dynamic hp hf else hp)
    else if negb store || h_no_dynamic hp then (c, 6, dst ++ [0], hp)
    else (c, 6, dst ++ [64], add_dynamic hp hf) in
  bind (if 0 <? index then append_int dst bits index else append_string dst (f_key hf) c) (fun d1 =>
  bind (if negb (bits =? 7) then append_string d1 (f_value hf) c else Ok d1) (fun d2 =>
  Ok (d2, hp)))).

(* ---- callers of the encoder, reduced to "a block is a list of (field, store) calls" ---- *)

Fixpoint encode_fields (hp : hpack_state) (dst : bytes) (fs : list (field * bool)) : result (bytes * hpack_state) :=
  match fs with
  | [] => Ok (dst, hp)
  | (hf, store) :: fs' =>
      match append_header hp dst hf store with
      | Ok (dst', hp') => encode_fields hp' dst' fs'
      | Err e => Err e
      | Panic w => Panic w
      end
  end.

Definition encode_block (hp : hpack_state) (fs : list (field * bool)) : result (bytes * hpack_state) :=
  encode_fields hp [] fs.
