(* The client model instantiated with the HPACK model of Impl/Hpack.v. *)
From H2V Require Import Base.Bytes Base.MachineInt Base.Result Gen.GenConsts Impl.Hpack Impl.ServerConn Impl.ServerInst Impl.ClientConn.
Local Open Scope N_scope.

(* the decoder and the encoder are used exactly as the server uses them:
   dec.nextField(hf, true, hdrFields, b) and enc.AppendHeader(dst, hf, store) with hf not sensitive *)
Definition cli_dec_field := srv_dec_field.
Definition cli_enc_field := srv_enc_field.

(* AcquireHPACK() *)
Definition cli_init_hpack : hpack_state := hpack_init false false.

Definition cli_step (cfg : cl_config) := cl_step hpack_state cli_dec_field cli_enc_field set_max_table_size cfg.
Definition cli_init (first : bytes) : cconn hpack_state := cl_init hpack_state set_max_table_size cli_init_hpack first.
Definition cli_run (cfg : cl_config) (first : bytes) (evs : list cevent) : cconn hpack_state :=
  cl_run hpack_state cli_dec_field cli_enc_field set_max_table_size cfg cli_init_hpack first evs.
Definition cli_trace (c : cconn hpack_state) : list coutev := cl_trace hpack_state c.
