(* sync.Pool use as an event log, and the ownership automaton over it.
   The modelled functions emit Acq when they take an object out of a pool
   (AcquireFrameHeader, AcquireFrame) and Rel when they put one back
   (ReleaseFrame, ReleaseFrameHeader, frameHeaderPool.Put). Definitions only. *)
From Coq Require Import List NArith Bool.
Import ListNotations.
Local Open Scope N_scope.

Inductive pool_kind := PFrame | PFrameHeader.

Definition pool_kind_eqb (a b : pool_kind) : bool :=
  match a, b with PFrame, PFrame => true | PFrameHeader, PFrameHeader => true | _, _ => false end.

(* oid names the object within one modelled call *)
Inductive pool_ev :=
| Acq (k : pool_kind) (oid : N)
| Rel (k : pool_kind) (oid : N).

Definition obj := (pool_kind * N)%type.
Definition obj_eqb (a b : obj) : bool := pool_kind_eqb (fst a) (fst b) && (snd a =? snd b).

Definition owns (o : list obj) (x : obj) : bool := existsb (obj_eqb x) o.
Definition drop_obj (o : list obj) (x : obj) : list obj := filter (fun y => negb (obj_eqb x y)) o.

Inductive pool_violation :=
| TwoOwners (x : obj)        (* handed out while somebody still owns it *)
| DoubleRelease (x : obj).   (* put back while it is already in its pool / not owned by the releaser *)

(* The automaton: the state is the set of objects that are out of their pools. *)
Definition pool_step (st : list obj + pool_violation) (e : pool_ev) : list obj + pool_violation :=
  match st with
  | inr v => inr v
  | inl o =>
    match e with
    | Acq k i => if owns o (k, i) then inr (TwoOwners (k, i)) else inl ((k, i) :: o)
    | Rel k i => if owns o (k, i) then inl (drop_obj o (k, i)) else inr (DoubleRelease (k, i))
    end
  end.

Definition pool_run (evs : list pool_ev) : list obj + pool_violation :=
  fold_left pool_step evs (inl []).

(* A call's log is linear when the automaton accepts it and the objects still out of
   their pools at the end are exactly the ones the call hands to its caller: nothing is
   released twice, nothing the caller receives has been released, nothing leaks. *)
Definition same_objs (a b : list obj) : bool :=
  forallb (owns b) a && forallb (owns a) b.

Definition linear (evs : list pool_ev) (handed : list obj) : bool :=
  match pool_run evs with
  | inl o => same_objs o handed
  | inr _ => false
  end.
