(* Impl/Teardown.v -- the blocking structure of a connection, data erased (DESIGN.md 4.5a, Appendix C).

   Two labelled transition systems, one per role.  A state keeps only what decides WHO CAN MOVE:
   the program point of every goroutine, the occupancy of every buffered channel against a SYMBOLIC
   capacity [cap] (128 in the Go code; the theorems hold for every cap >= 1), the closed flags of the
   channels that are only ever closed, and the holders of the mutexes that are held across a blocking
   operation.  Frames, streams, windows, HPACK state are gone.

   Shape: an action alphabet [act], a guard [guard a s : Prop] (the action is enabled) and an effect
   [eff a s : state]; [s -a-> eff a s] whenever [guard a s].  Actions of the environment (the peer, the
   user's handler, the clock) are marked by [is_env].  Every action carries the Go line it stands for.

   Over-approximations (all add behaviours, none removes one):
   - a select with several ready cases may take any of them;
   - the body of one stream-loop iteration is "any number of sc.write calls, then continue or break";
     the number is drawn from a ghost budget [bud] that the environment refills together with the
     event that causes the work (a frame arrives, a timer fires), so that one iteration is finite
     -- as it is in the code, where it is bounded by the size of a response -- yet unbounded;
   - a handler is spawned, and the idle timer re-armed, at the moment the frame is taken from
     [reader] rather than a few non-blocking statements later.
   Not modelled: panics (each loop recovers and takes its normal exit path), the values carried. *)
From Coq Require Import Arith Lia Bool List.
From RecordUpdate Require Import RecordSet.
Import RecordSetNotations.
Import ListNotations.

(* ------------------------------------------------------------------------------------------ *)
(** * Runs, fairness, leads-to: the vocabulary of the liveness statements (role-independent)     *)
(* ------------------------------------------------------------------------------------------ *)
Section Runs.
  Context {St Act : Type}.
  Variable guard : Act -> St -> Prop.
  Variable eff : Act -> St -> St.

  (* reachability from a set of initial states *)
  Inductive reach (init : St -> Prop) : St -> Prop :=
  | reach_init : forall s, init s -> reach init s
  | reach_step : forall s a, reach init s -> guard a s -> reach init (eff a s).

  (* finite paths whose actions all satisfy [ok] *)
  Inductive path (ok : Act -> Prop) : St -> list Act -> St -> Prop :=
  | path_nil : forall s, path ok s [] s
  | path_cons : forall s a l s', ok a -> guard a s -> path ok (eff a s) l s' -> path ok s (a :: l) s'.

  (* An infinite run: at each instant either an enabled action is taken or nothing happens
     (stuttering).  A maximal run of the system is a run that is fair (below): stuttering for ever
     is then only possible where nothing that fairness protects is enabled. *)
  Record run := {
    st : nat -> St;
    lab : nat -> option Act;
    run_ok : forall i, match lab i with
                       | Some a => guard a (st i) /\ st (S i) = eff a (st i)
                       | None => st (S i) = st i
                       end }.

  (* Weak fairness (justice) towards a group [G] of actions, in the form that needs no classical
     logic: infinitely often, an action of the group is taken or no action of the group is enabled.
     (Classically equivalent to: a group that is enabled continuously from some instant on is
     eventually served.) *)
  Definition disabled (G : Act -> Prop) (s : St) : Prop := forall a, G a -> ~ guard a s.
  Definition taken (G : Act -> Prop) (o : option Act) : Prop :=
    match o with Some a => G a | None => False end.
  Definition fair (G : Act -> Prop) (r : run) : Prop :=
    forall i, exists j, i <= j /\ (taken G (lab r j) \/ disabled G (st r j)).

  (* Strong fairness (compassion): the group is served infinitely often, or from some instant on
     it is never enabled again.  Needed where enabledness flickers: a mutex that is free now and
     then, a select that has other ready cases. *)
  Definition sfair (G : Act -> Prop) (r : run) : Prop :=
    forall i, (exists j, i <= j /\ taken G (lab r j)) \/
              (exists j, i <= j /\ forall k, j <= k -> disabled G (st r k)).

  Definition leadsto (r : run) (P Q : St -> Prop) : Prop :=
    forall i, P (st r i) -> exists j, i <= j /\ Q (st r j).
  Definition always_from (r : run) (i : nat) (P : St -> Prop) : Prop :=
    forall j, i <= j -> P (st r j).
End Runs.

Arguments run {St Act} guard eff.
Arguments st {St Act guard eff} r i.
Arguments lab {St Act guard eff} r i.
Arguments fair {St Act guard eff} G r.
Arguments sfair {St Act guard eff} G r.
Arguments leadsto {St Act guard eff} r P Q.
Arguments always_from {St Act guard eff} r i P.

(* ------------------------------------------------------------------------------------------ *)
(** * Mutex order: ordered acquisition admits no wait cycle (used by the client, 4.5a)          *)
(* ------------------------------------------------------------------------------------------ *)
Section WaitCycle.
  Context {Proc : Type}.
  (* [wants p = Some m]: p is parked in m.Lock(); [holds p m]: p holds m *)
  Variable wants : Proc -> option nat.
  Variable holds : Proc -> nat -> Prop.
  (* p waits for q: p wants a mutex that q holds *)
  Definition waits_for (p q : Proc) : Prop := exists m, wants p = Some m /\ holds q m.
  (* a wait cycle: p0 waits for p1 waits for ... waits for p0 *)
  Fixpoint wait_chain (p : Proc) (l : list Proc) (q : Proc) : Prop :=
    match l with
    | [] => waits_for p q
    | x :: l' => waits_for p x /\ wait_chain x l' q
    end.
  Definition wait_cycle : Prop := exists p l, wait_chain p l p.
  (* the discipline: whoever is parked on m holds only mutexes of smaller rank *)
  Definition ordered : Prop := forall p m m', wants p = Some m -> holds p m' -> m' < m.
End WaitCycle.

(* ------------------------------------------------------------------------------------------ *)
(** * Server: serverConn.Serve and the goroutines it starts                                    *)
(* ------------------------------------------------------------------------------------------ *)
Module Srv.

(* The goroutine that called Serve: it runs readLoop, then sc.close(), then the deferred teardown;
   ServeConn closes the socket as soon as Serve returns (server.go:ServeConn, deferred c.Close()). *)
Inductive sv_pc :=
| RRead               (* readLoop: parked in ReadFrameFromWithSize(sc.br) *)
| RFwd                (* forward: select { sc.reader <- fr ; <-sc.handlerStop } *)
| RWrite (ret : bool) (* sc.write from the read loop; ret: the loop returns afterwards
                         (writeGoAway ... return errConnClosed) or goes on (handlePing) *)
| VStop               (* readLoop has returned; about to run sc.close() *)
| VCloseRd            (* deferred: close(sc.reader) *)
| VWait               (* deferred: select { <-writeDone ; <-time.After(writeDrainTimeout) } *)
| VEnd.               (* Serve has returned and ServeConn has closed the socket *)

(* The goroutine running handleStreams, then the three statements after it. *)
Inductive sl_pc :=
| SSelect             (* handleStreams: select { closer ; handlerDone ; maxRequestTimer.C ; reader } *)
| SBody               (* inside one iteration, between two blocking points *)
| SWrite              (* sc.write from the stream loop *)
| SExitA              (* loop left (break loop / return): deferred close(sc.handlerStop) pending *)
| SExitB              (* sc.pingTimer.Stop() pending *)
| SExitC              (* close(sc.writeStop) pending *)
| SDone.

(* The goroutine running writeLoop, then its two deferred calls. *)
Inductive wl_pc :=
| WSelect             (* writeLoop: select { fr := <-sc.writer ; <-sc.writeStop } *)
| WSock (drain : bool)(* send(fr): fr.WriteTo(sc.bw) / sc.bw.Flush(), no write deadline *)
| WDrain              (* after writeStop: select { fr := <-sc.writer ; default } *)
| WFlush              (* default: _ = sc.bw.Flush() *)
| WCloseSock          (* deferred: sc.c.Close() *)
| WCloseDone          (* deferred: close(writeDone) *)
| WDone.

(* The ping timer (time.AfterFunc(sc.pingInterval, sc.sendPingAndSchedule)). *)
Inductive pg_pc :=
| PArmed              (* waiting for the interval to elapse *)
| PWrite              (* callback goroutine: writePing -> sc.write *)
| PReset              (* callback goroutine: select { case <-sc.writeStop: return ; default: } pending *)
| PReset2             (* callback goroutine: writeStop was open; sc.pingTimer.Reset(sc.pingInterval) pending *)
| PStopped.           (* stopped (or never created: PingInterval < 0) *)

Record state := mk {
  sv : sv_pc; sl : sl_pc; wl : wl_pc; pg : pg_pc;
  rd : nat;        (* len(sc.reader) *)
  wr : nat;        (* len(sc.writer) *)
  hd : nat;        (* len(sc.handlerDone) *)
  rdc : bool;      (* sc.reader closed *)
  hstop : bool;    (* sc.handlerStop closed *)
  wstop : bool;    (* sc.writeStop closed *)
  wdone : bool;    (* sc.writeDone closed *)
  closer : bool;   (* sc.closer closed *)
  h_run : nat;     (* handler goroutines inside sc.h(ctx): user code *)
  h_send : nat;    (* handler goroutines in select { sc.handlerDone <- strm ; <-sc.handlerStop } *)
  i_armed : bool;  (* sc.maxIdleTimer armed *)
  i_wr : nat;      (* closeIdleConn callbacks inside writeGoAway -> sc.write *)
  i_cl : nat;      (* closeIdleConn callbacks about to run sc.closeOnce.Do(close(sc.closer)) *)
  rt : bool;       (* sc.maxRequestTimer.C holds a tick *)
  rdy : bool;      (* a complete frame (or a framing error) is available to the read loop *)
  stalled : bool;  (* the peer has stopped reading and the kernel buffers are full *)
  gone : bool;     (* the peer has closed / reset the connection *)
  sclosed : bool;  (* the socket has been closed on our side *)
  tmo : bool;      (* time.After(writeDrainTimeout) has fired *)
  bud : nat        (* ghost: sc.write calls the stream loop may still start (see header) *)
}.
#[export] Instance eta_state : Settable _ :=
  settable! mk <sv; sl; wl; pg; rd; wr; hd; rdc; hstop; wstop; wdone; closer; h_run; h_send;
                i_armed; i_wr; i_cl; rt; rdy; stalled; gone; sclosed; tmo; bud>.

(* reads and writes on the socket fail *)
Definition dead (s : state) : bool := gone s || sclosed s.

(* serverConn.go:write -- select { sc.writer <- fr ; <-sc.writeStop ; <-sc.writeDone } *)
Inductive wchoice := ViaQueue | ViaStop | ViaDone.
Definition wguard (cap : nat) (c : wchoice) (s : state) : Prop :=
  match c with
  | ViaQueue => wr s < cap
  | ViaStop => wstop s = true
  | ViaDone => wdone s = true
  end.
Definition weff (c : wchoice) (s : state) : state :=
  match c with ViaQueue => s <| wr := S (wr s) |> | _ => s end.

(* time.Timer.Stop on an AfterFunc timer: disarms it, does not wait for a running callback *)
Definition pg_stop (p : pg_pc) : pg_pc := match p with PArmed => PStopped | p => p end.

Inductive act :=
(* -- environment -- *)
| EPeerSend (b : nat)  (* the peer sends a frame; b: sc.write calls its handling may cost the stream loop *)
| EPeerStall           (* the peer stops reading: socket writes block from now on *)
| EPeerClose           (* the peer closes: reads fail, writes fail *)
| EHandlerRet          (* a user handler returns (dispatchHandler's goroutine reaches its deferred select) *)
| EReqTimer (b : nat)  (* sc.maxRequestTimer fires *)
| EPingFire            (* the ping interval elapses *)
| EIdleFire            (* the idle timer elapses *)
| EDrainTimeout        (* writeDrainTimeout (1 s) elapses while Serve waits *)
(* -- read loop / Serve -- *)
| RGetFwd | RGetPing | RGetBad | RGetSkip | RGetEnd | RReadFail
| RFwdSend | RFwdStop
| RWr (c : wchoice)
| VStopTimers | VCloseReader | VWaitDone | VWaitTmo
(* -- stream loop -- *)
| SCloser | STakeHd | STakeTimer | STakeRd (d r : bool) | SRdClosed
| SBodyWrite | SBodyCont | SBodyBreak
| SWr (c : wchoice)
| SCloseHStop | SStopPing | SCloseWStop
(* -- write loop -- *)
| WTake | WStop | WSockOk | WSockFail | WDrainTake | WDrainEmpty | WFlushRet | WSockClose | WDoneClose
(* -- handler goroutines -- *)
| HSend | HStop
(* -- ping timer callback -- *)
| PWr (c : wchoice) | PCheckStop | PCheckOpen | PRearm
(* -- idle timer callbacks -- *)
| IWr (c : wchoice) | ICloseCloser.

Definition is_env (a : act) : bool :=
  match a with
  | EPeerSend _ | EPeerStall | EPeerClose | EHandlerRet | EReqTimer _ | EPingFire | EIdleFire
  | EDrainTimeout => true
  | _ => false
  end.

Section Sem.
Variable cap : nat.

Definition guard (a : act) (s : state) : Prop :=
  match a with
  | EPeerSend _ => gone s = false /\ sclosed s = false /\ rdy s = false
  | EPeerStall => stalled s = false
  | EPeerClose => gone s = false
  | EHandlerRet => 0 < h_run s
  | EReqTimer _ => rt s = false
  | EPingFire => pg s = PArmed
  | EIdleFire => i_armed s = true
  | EDrainTimeout => sv s = VWait /\ tmo s = false
  (* serverConn.go:readLoop -- fr, err = ReadFrameFromWithSize(sc.br, ...) returned a frame *)
  | RGetFwd | RGetPing | RGetBad | RGetSkip | RGetEnd => sv s = RRead /\ rdy s = true
  (* ... or failed: the peer is gone, or the socket was closed under the read *)
  | RReadFail => sv s = RRead /\ dead s = true
  (* serverConn.go:forward *)
  | RFwdSend => sv s = RFwd /\ rd s < cap
  | RFwdStop => sv s = RFwd /\ hstop s = true
  | RWr c => (exists b, sv s = RWrite b) /\ wguard cap c s
  | VStopTimers => sv s = VStop
  | VCloseReader => sv s = VCloseRd
  | VWaitDone => sv s = VWait /\ wdone s = true
  | VWaitTmo => sv s = VWait /\ tmo s = true
  (* serverConn.go:handleStreams select *)
  | SCloser => sl s = SSelect /\ closer s = true
  | STakeHd => sl s = SSelect /\ 0 < hd s
  | STakeTimer => sl s = SSelect /\ rt s = true
  | STakeRd _ _ => sl s = SSelect /\ 0 < rd s
  | SRdClosed => sl s = SSelect /\ rd s = 0 /\ rdc s = true
  | SBodyWrite => sl s = SBody /\ 0 < bud s
  | SBodyCont | SBodyBreak => sl s = SBody
  | SWr c => sl s = SWrite /\ wguard cap c s
  | SCloseHStop => sl s = SExitA
  | SStopPing => sl s = SExitB
  | SCloseWStop => sl s = SExitC
  (* serverConn.go:writeLoop *)
  | WTake => wl s = WSelect /\ 0 < wr s
  | WStop => wl s = WSelect /\ wstop s = true
  | WSockOk => (exists d, wl s = WSock d) /\ stalled s = false /\ dead s = false
  | WSockFail => (exists d, wl s = WSock d) /\ dead s = true
  | WDrainTake => wl s = WDrain /\ 0 < wr s
  | WDrainEmpty => wl s = WDrain /\ wr s = 0
  | WFlushRet => wl s = WFlush /\ (dead s = true \/ stalled s = false)
  | WSockClose => wl s = WCloseSock
  | WDoneClose => wl s = WCloseDone
  (* serverConn.go:dispatchHandler, the goroutine's deferred select *)
  | HSend => 0 < h_send s /\ hd s < cap
  | HStop => 0 < h_send s /\ hstop s = true
  (* serverConn.go:sendPingAndSchedule *)
  | PWr c => pg s = PWrite /\ wguard cap c s
  | PCheckStop => pg s = PReset /\ wstop s = true
  | PCheckOpen => pg s = PReset /\ wstop s = false
  | PRearm => pg s = PReset2
  (* serverConn.go:closeIdleConn *)
  | IWr c => 0 < i_wr s /\ wguard cap c s
  | ICloseCloser => 0 < i_cl s
  end.

Definition sv_after_write (p : sv_pc) : sv_pc :=
  match p with RWrite true => VStop | _ => RRead end.
Definition wl_after_sock (p : wl_pc) : wl_pc :=
  match p with WSock true => WDrain | _ => WSelect end.

Definition eff (a : act) (s : state) : state :=
  match a with
  | EPeerSend b => s <| rdy := true |> <| bud := bud s + b |>
  | EPeerStall => s <| stalled := true |>
  | EPeerClose => s <| gone := true |>
  | EHandlerRet => s <| h_run := pred (h_run s) |> <| h_send := S (h_send s) |>
  | EReqTimer b => s <| rt := true |> <| bud := bud s + b |>
  | EPingFire => s <| pg := PWrite |>
  | EIdleFire => s <| i_armed := false |> <| i_wr := S (i_wr s) |>
  | EDrainTimeout => s <| tmo := true |>
  (* readLoop: a frame that goes to the stream loop: any frame with a stream id, SETTINGS
     without ACK, WINDOW_UPDATE on stream 0 -- "if !sc.forward(fr) { return errConnClosed }" *)
  | RGetFwd => s <| rdy := false |> <| sv := RFwd |>
  (* readLoop: case FramePing: sc.handlePing(ping) -> sc.write(fr); the loop goes on *)
  | RGetPing => s <| rdy := false |> <| sv := RWrite false |>
  (* readLoop: every "sc.writeGoAway(...); return errConnClosed" and "sc.writeError(nil, cerr);
     return errConnClosed": malformed frame, CONTINUATION rules, invalid stream id, ... *)
  | RGetBad => s <| rdy := false |> <| sv := RWrite true |>
  (* readLoop: SETTINGS ACK, PING ACK, unknown frame type ("continue") *)
  | RGetSkip => s <| rdy := false |>
  (* readLoop: case FrameGoAway (err = io.EOF / goaway error), or a read error that is not one of
     ours ("break"): the loop ends without writing *)
  | RGetEnd => s <| rdy := false |> <| sv := VStop |>
  | RReadFail => s <| sv := VStop |>
  (* forward: case sc.reader <- fr: return true *)
  | RFwdSend => s <| rd := S (rd s) |> <| sv := RRead |>
  (* forward: case <-sc.handlerStop: return false -> readLoop returns errConnClosed *)
  | RFwdStop => s <| sv := VStop |>
  | RWr c => weff c s <| sv := sv_after_write (sv s) |>
  (* Serve: sc.close(): pingTimer.Stop(), maxIdleTimer.Stop(), maxRequestTimer.Stop() *)
  | VStopTimers => s <| pg := pg_stop (pg s) |> <| i_armed := false |> <| sv := VCloseRd |>
  (* Serve, deferred: close(sc.reader) *)
  | VCloseReader => s <| rdc := true |> <| sv := VWait |>
  (* Serve, deferred: case <-writeDone / case <-time.After(writeDrainTimeout); then Serve returns
     and ServeConn's deferred c.Close() runs *)
  | VWaitDone | VWaitTmo => s <| sclosed := true |> <| sv := VEnd |>
  (* handleStreams: case <-sc.closer: break loop *)
  | SCloser => s <| sl := SExitA |>
  (* handleStreams: case strm := <-sc.handlerDone *)
  | STakeHd => s <| hd := pred (hd s) |> <| sl := SBody |>
  (* handleStreams: case <-sc.maxRequestTimer.C *)
  | STakeTimer => s <| rt := false |> <| sl := SBody |>
  (* handleStreams: case fr, ok := <-sc.reader with ok; d: the frame completes a request and
     dispatchHandler starts a goroutine; r: it is a HEADERS frame and sc.maxIdleTimer.Reset runs *)
  | STakeRd d r => s <| rd := pred (rd s) |> <| h_run := (if d then S (h_run s) else h_run s) |>
                     <| i_armed := i_armed s || r |> <| sl := SBody |>
  (* handleStreams: case fr, ok := <-sc.reader with !ok: return *)
  | SRdClosed => s <| sl := SExitA |>
  (* handleStreams: any of writeReset/writeGoAway/writeWindowUpdate/writeSettingsAck/
     finishRequest/sendData -> sc.write *)
  | SBodyWrite => s <| bud := pred (bud s) |> <| sl := SWrite |>
  (* handleStreams: continue / end of the iteration *)
  | SBodyCont => s <| sl := SSelect |>
  (* handleStreams: break loop (connection error, or the GOAWAY's streams have finished) *)
  | SBodyBreak => s <| sl := SExitA |>
  | SWr c => weff c s <| sl := SBody |>
  (* handleStreams: defer close(sc.handlerStop) *)
  | SCloseHStop => s <| hstop := true |> <| sl := SExitB |>
  (* Serve, second goroutine: if sc.pingTimer != nil { sc.pingTimer.Stop() } *)
  | SStopPing => s <| pg := pg_stop (pg s) |> <| sl := SExitC |>
  (* Serve, second goroutine: close(sc.writeStop) *)
  | SCloseWStop => s <| wstop := true |> <| sl := SDone |>
  (* writeLoop: case fr := <-sc.writer: send(fr) *)
  | WTake => s <| wr := pred (wr s) |> <| wl := WSock false |>
  (* writeLoop: case <-sc.writeStop *)
  | WStop => s <| wl := WDrain |>
  (* writeLoop.send: the write/flush went through *)
  | WSockOk => s <| wl := wl_after_sock (wl s) |>
  (* writeLoop.send: err != nil -> return *)
  | WSockFail => s <| wl := WCloseSock |>
  (* writeLoop, drain: case fr := <-sc.writer *)
  | WDrainTake => s <| wr := pred (wr s) |> <| wl := WSock true |>
  (* writeLoop, drain: default *)
  | WDrainEmpty => s <| wl := WFlush |>
  (* writeLoop, drain: _ = sc.bw.Flush(); return *)
  | WFlushRet => s <| wl := WCloseSock |>
  (* Serve, first goroutine: defer sc.c.Close() *)
  | WSockClose => s <| sclosed := true |> <| wl := WCloseDone |>
  (* Serve, first goroutine: defer close(writeDone) *)
  | WDoneClose => s <| wdone := true |> <| wl := WDone |>
  (* dispatchHandler: case sc.handlerDone <- strm *)
  | HSend => s <| h_send := pred (h_send s) |> <| hd := S (hd s) |>
  (* dispatchHandler: case <-sc.handlerStop *)
  | HStop => s <| h_send := pred (h_send s) |>
  | PWr c => weff c s <| pg := PReset |>
  (* sendPingAndSchedule: select { case <-sc.writeStop: return ; default: } *)
  | PCheckStop => s <| pg := PStopped |>
  | PCheckOpen => s <| pg := PReset2 |>
  (* sendPingAndSchedule: sc.pingTimer.Reset(sc.pingInterval) *)
  | PRearm => s <| pg := PArmed |>
  | IWr c => weff c s <| i_wr := pred (i_wr s) |> <| i_cl := S (i_cl s) |>
  (* closeIdleConn: sc.closeOnce.Do(func() { close(sc.closer) }) *)
  | ICloseCloser => s <| i_cl := pred (i_cl s) |> <| closer := true |>
  end.

(* Serve up to the point where the goroutines exist.  [sv = VCloseRd] is the early
   "if err != nil { return err }" after SetWriteDeadline/SetReadDeadline: only the deferred
   teardown runs.  The ping and idle timers exist or not (PingInterval < 0, IdleTimeout = 0). *)
Definition init (s : state) : Prop :=
  (sv s = RRead \/ sv s = VCloseRd) /\ sl s = SSelect /\ wl s = WSelect /\
  (pg s = PArmed \/ pg s = PStopped) /\
  rd s = 0 /\ wr s = 0 /\ hd s = 0 /\
  rdc s = false /\ hstop s = false /\ wstop s = false /\ wdone s = false /\ closer s = false /\
  h_run s = 0 /\ h_send s = 0 /\ i_wr s = 0 /\ i_cl s = 0 /\ rt s = false /\
  gone s = false /\ sclosed s = false /\ tmo s = false.

Definition reachable : state -> Prop := reach guard eff init.

(* fairness groups: one per goroutine, plus the drain timeout *)
Definition g_sv (a : act) : Prop :=
  match a with
  | RGetFwd | RGetPing | RGetBad | RGetSkip | RGetEnd | RReadFail | RFwdSend | RFwdStop | RWr _
  | VStopTimers | VCloseReader | VWaitDone | VWaitTmo => True
  | _ => False
  end.
Definition g_sl (a : act) : Prop :=
  match a with
  | SCloser | STakeHd | STakeTimer | STakeRd _ _ | SRdClosed | SBodyWrite | SBodyCont | SBodyBreak
  | SWr _ | SCloseHStop | SStopPing | SCloseWStop => True
  | _ => False
  end.
Definition g_wl (a : act) : Prop :=
  match a with
  | WTake | WStop | WSockOk | WSockFail | WDrainTake | WDrainEmpty | WFlushRet | WSockClose
  | WDoneClose => True
  | _ => False
  end.
Definition g_hd (a : act) : Prop := match a with HSend | HStop => True | _ => False end.
Definition g_pg (a : act) : Prop :=
  match a with PWr _ | PCheckStop | PCheckOpen | PRearm => True | _ => False end.
Definition g_id (a : act) : Prop := match a with IWr _ | ICloseCloser => True | _ => False end.
Definition g_tmo (a : act) : Prop := match a with EDrainTimeout => True | _ => False end.

(* a maximal run: fair to every goroutine and to the drain timeout; nothing is assumed about the
   peer, the handlers or the other timers *)
Definition fair_run (r : run guard eff) : Prop :=
  fair g_sv r /\ fair g_sl r /\ fair g_wl r /\ fair g_hd r /\
  fair g_pg r /\ fair g_id r /\ fair g_tmo r.

(* -- the vocabulary of the theorems -- *)
Definition sl_exited (s : state) : Prop :=
  sl s = SExitA \/ sl s = SExitB \/ sl s = SExitC \/ sl s = SDone.
Definition loops_exited (s : state) : Prop := sv s = VEnd /\ sl s = SDone /\ wl s = WDone.
(* no goroutine of the connection is left except handlers inside user code and armed timers *)
Definition quiet (s : state) : Prop :=
  loops_exited s /\ h_send s = 0 /\ pg s <> PWrite /\ pg s <> PReset /\ pg s <> PReset2 /\
  i_wr s = 0 /\ i_cl s = 0.

(* the read loop is on its way out of readLoop: inside the sc.write of a GOAWAY it returns after,
   in forward with reader full (only the handlerStop case is left), or past the loop *)
Definition sv_leaving (s : state) : Prop :=
  sv s = RWrite true \/ (sv s = RFwd /\ cap <= rd s) \/
  sv s = VStop \/ sv s = VCloseRd \/ sv s = VWait \/ sv s = VEnd.

(* the rank: decreases on every action that is not the environment's *)
Definition sv_rank (p : sv_pc) : nat :=
  match p with
  | VEnd => 0 | VWait => 1 | VCloseRd => 2 | VStop => 3 | RRead => 4 | RWrite _ => 7 | RFwd => 16
  end.
Definition sl_rank (p : sl_pc) : nat :=
  match p with
  | SDone => 0 | SExitC => 1 | SExitB => 2 | SExitA => 3 | SSelect => 4 | SBody => 5 | SWrite => 8
  end.
Definition wl_rank (p : wl_pc) : nat :=
  match p with
  | WDone => 0 | WCloseDone => 1 | WCloseSock => 2 | WFlush => 3 | WDrain => 4 | WSock true => 5
  | WSelect => 5 | WSock false => 6
  end.
Definition pg_rank (p : pg_pc) : nat :=
  match p with PArmed => 0 | PStopped => 0 | PReset2 => 1 | PReset => 2 | PWrite => 5 end.
Definition b2n (b : bool) : nat := if b then 1 else 0.
Definition rank (s : state) : nat :=
  sv_rank (sv s) + sl_rank (sl s) + wl_rank (wl s) + pg_rank (pg s) +
  13 * b2n (rdy s) + 11 * rd s + 2 * wr s + 2 * hd s + 4 * h_run s + 3 * h_send s +
  5 * b2n (i_armed s) + 4 * i_wr s + i_cl s + 2 * b2n (rt s) + 4 * bud s +
  b2n (negb (tmo s)) + b2n (negb (stalled s)) + b2n (negb (gone s)).

(* once writeStop is closed the ping timer is on its way out: this potential never rises, and every
   step of the timer (firing included) lowers it *)
Definition pg_pot (p : pg_pc) : nat :=
  match p with PReset2 => 5 | PArmed => 4 | PWrite => 3 | PReset => 2 | PStopped => 0 end.
Definition pg_act (a : act) : bool :=
  match a with EPingFire | PWr _ | PCheckStop | PCheckOpen | PRearm => true | _ => false end.

Fixpoint count_pg (l : list act) : nat :=
  match l with [] => 0 | a :: l' => (if pg_act a then 1 else 0) + count_pg l' end.

(* the only actions that can raise the rank *)
Definition refills (a : act) : bool :=
  match a with EPeerSend _ | EReqTimer _ | EPingFire => true | _ => false end.

End Sem.
End Srv.

(* ------------------------------------------------------------------------------------------ *)
(** * Client: Conn and the goroutines of one connection, one request X followed individually   *)
(* ------------------------------------------------------------------------------------------ *)
Module Cli.

(* the seven mutexes of the client, with the rank of the lock order (derived from the code:
   the only mutex held while another is taken is a Ctx.lck) *)
Inductive mutex := MClient | MCtx | MReq | MSend | MLastErr | MRes | MBw.
Definition mrank (m : mutex) : nat :=
  match m with
  | MClient => 0 | MCtx => 1 | MReq => 2 | MSend => 3 | MLastErr => 4 | MRes => 5 | MBw => 6
  end.

(* whose Ctx.lck a loop holds: nobody's, the distinguished request X's, some other request's *)
Inductive hold := HNone | HX | HO.

(* Conn.Close, from whichever goroutine runs it *)
Inductive close_pc :=
| CCas     (* atomic.CompareAndSwapUint64(&c.closed, 0, 1) *)
| CDone    (* close(c.done) *)
| CLock    (* c.bwLck.Lock() *)
| CWrite.  (* fr.WriteTo(c.bw); c.bw.Flush() under bwLck; then Unlock, c.c.Close(), onDisconnect *)

(* the caller of RoundTrip for the distinguished request X (client.go:roundTripOnce) *)
Inductive xc_pc :=
| KW1      (* Conn.Write: select { c.in <- r ; <-c.done } *)
| KW2      (* Conn.Write: select { <-c.done ; default } *)
| KLck     (* Conn.Write, c.done seen after the send: r.lck.Lock() *)
| KSelf    (* Conn.Write, c.done seen before the send: r.resolve(c.closeErr()) *)
| KErr     (* err = <-ctx.Err *)
| KTb      (* ctx.reusable(); ctx.takeBack(): ctx.lck.Lock() *)
| KRet.    (* RoundTrip has returned *)

(* X's cancel timer (client.go:fireTimeout on its own goroutine) *)
Inductive tx_pc :=
| TOff     (* MaxResponseTime < 0, or stopped by reusable() *)
| TArmed
| TRes     (* ctx.resolve(ErrRequestCanceled) *)
| TDel     (* c.cancel: c.deletePending(id) *)
| TTake    (* c.cancel: c.takeReq(id) *)
| TOut     (* c.cancel: cancelStream -> writeOut: select { c.out <- fr ; <-c.done } *)
| TDone.

(* where the connection knows X from *)
Inductive xloc_t :=
| XOut     (* nowhere yet *)
| XIn      (* sitting in c.in *)
| XWl      (* taken from c.in by the write loop, not yet on the table *)
| XTab     (* in c.reqQueued *)
| XGone.   (* dropped by the connection *)

(* the write loop (conn.go:writeLoop / runWriteLoop) *)
Inductive wl_pc :=
| LSel               (* runWriteLoop: select { done ; in ; out ; winCh ; ticker.C } *)
| LIter              (* inside one iteration, between two blocking operations, nothing held *)
| LAcq               (* ctx.acquire() / pb.ctx.acquireFor(c, id) on X: ctx.lck.Lock() *)
| LLockB (h : hold)  (* c.bwLck.Lock(), holding h's Ctx.lck *)
| LWrite (h : hold)  (* fr.WriteTo(c.bw) / c.bw.Flush() under bwLck *)
| LRefill            (* sendPending -> refillPending: pb.stream.Read(buf), the caller's code *)
| LT0                (* writeLoop: c.setLastErr(lastErr); about to call c.Close() *)
| LClose (c : close_pc)
| LT2                (* for _, ctx := range c.takeAllReqs() { ctx.resolve(lastErr) } *)
| LT3                (* for { select { ctx := <-c.in ; fr := <-c.out ; default: return } } *)
| LDone.

(* the read loop (conn.go:readLoop) *)
Inductive rl_pc :=
| RRead              (* readNext: ReadFrameFrom(c.br) *)
| RIter (u : bool)   (* handling one frame, nothing held; u: its blocking unit is still to come *)
| RAcq               (* dispatchLocked: r.acquireFor(c, id) on X (also readNext's GOAWAY: deletePending) *)
| RHold (h : hold)   (* dispatchLocked holding h's Ctx.lck (updateWindow only appends to c.outBuf) *)
| RPost (k : nat) (stop : bool)  (* dispatch, after dispatchLocked has returned and released: up to
                                    k frames of c.outBuf still to be queued; stop: its result *)
| RPostW (k : nat) (stop : bool) (* dispatch: c.writeOut(out) for a frame of c.outBuf, nothing held *)
| ROut               (* readNext: writeOut holding nothing: handleSettings, handlePing *)
| RExit              (* loop left; deferred c.Close() pending *)
| RClose (c : close_pc)
| RDone.

(* a caller of Client.Close / Conn.Close *)
Inductive uc_pc := UIdle | UClose (c : close_pc) | UDone.

Inductive lx_t := LxNone | LxWl | LxRl.            (* holder of X's Ctx.lck *)
Inductive bw_t := BwNone | BwWl | BwRl | BwUc.     (* holder of c.bwLck *)

Record state := mk {
  xc : xc_pc; tx : tx_pc; wl : wl_pc; rl : rl_pc; uc : uc_pc;
  xloc : xloc_t;
  xerr : bool;      (* X's ctx.Err (cap 1) holds a value *)
  xres : bool;      (* X's ctx.resolved (set by takeBack) *)
  xdone : bool;     (* X's ctx.done (set by takeBack) *)
  xsid : bool;      (* X's ctx.streamID / ctx.conn are set *)
  xpend : bool;     (* X has an entry in c.pending *)
  lx : lx_t; bw : bw_t;
  closed : bool;    (* c.closed *)
  done : bool;      (* c.done closed *)
  inq : nat;        (* requests other than X in c.in *)
  outq : nat;       (* len(c.out) *)
  win : bool;       (* c.winCh holds its token *)
  tick : bool;      (* ticker.C holds a tick *)
  ow : nat;         (* other callers inside Conn.Write's first select *)
  rdy : bool; stalled : bool; gone : bool; sclosed : bool;
  bud : nat;        (* ghost: blocking units the write loop may still start in this iteration *)
  raced : bool      (* ghost: the write loop's own c.Close() lost the CAS and returned while
                       c.done was still open *)
}.
#[export] Instance eta_state : Settable _ :=
  settable! mk <xc; tx; wl; rl; uc; xloc; xerr; xres; xdone; xsid; xpend; lx; bw; closed; done;
                inq; outq; win; tick; ow; rdy; stalled; gone; sclosed; bud; raced>.

Definition dead (s : state) : bool := gone s || sclosed s.
Definition b2n (b : bool) : nat := if b then 1 else 0.
Definition xin (s : state) : nat := match xloc s with XIn => 1 | _ => 0 end.

(* client.go:resolve -- under resLck: if !ctx.resolved { select { case ctx.Err <- err: default: } } *)
Definition resolveX (s : state) : state :=
  if xres s then s else s <| xerr := true |>.
(* the Ctx.lck of h is released *)
Definition release (h : hold) (s : state) : state :=
  match h with HX => s <| lx := LxNone |> | _ => s end.

Inductive act :=
(* -- environment -- *)
| EPeerSend | EPeerStall | EPeerClose
| ETick               (* the ping ticker ticks *)
| ETimerFire          (* X's MaxResponseTime elapses *)
| EBodyRead (xfail : bool) (* the caller's body reader returns; xfail: X's, with an error *)
| EOtherCaller        (* another goroutine enters Conn.Write *)
| EUserClose          (* somebody calls Client.Close / Conn.Close *)
(* -- X's caller -- *)
| KSend | KSeeDone | KCheckDone | KCheckOpen | KLockChk | KResolve | KRecv | KTakeBack
(* -- other callers -- *)
| OSend | OSeeDone
(* -- X's timer -- *)
| TResolve | TDelLock | TDelSkip | TTakeReq | TOutSend | TOutDone
(* -- write loop -- *)
| LSelDone | LSelInX (b : nat) | LSelInO (b : nat) | LSelOut (b : nat) | LSelWin (b : nat)
| LSelTick (b : nat)
| LRejectX            (* writeRequest: ErrNotAvailableStreams / ErrNoMoreStreamIDs / GOAWAY race *)
| LGoAcqX | LAcqX | LAcqXFail
| LGoLockB (h : hold) (* h = HO: another request's Ctx.lck is taken on the way *)
| LGoAwayRace | LLock | LWriteOk | LWriteFail (hdr : bool)
| LGoRefill
| LIterEnd | LIterErr
| LSetErr
| LT2Take | LT3InX | LT3InO | LT3Out | LT3End
(* -- read loop -- *)
| RGet | RReadFail
| RGoOut | RGoAcqX | RAcqX | RAcqXFail | RGoHoldO | RGoPost (stop : bool)
| RHoldFinish (drop stop : bool)
| RPostGo | RPostSend | RPostDone | RPostEnd | ROutSend | ROutDone
| RIterEnd (stop : bool)
| RDeferClose
(* -- Conn.Close, run by the write loop / the read loop / a user goroutine -- *)
| CCasWin (p : nat) | CCasLose (p : nat) | CCloseDone (p : nat) | CLockB (p : nat)
| CWriteRet (p : nat).

Definition is_env (a : act) : bool :=
  match a with
  | EPeerSend | EPeerStall | EPeerClose | ETick | ETimerFire | EBodyRead _ | EOtherCaller
  | EUserClose => true
  | _ => false
  end.

(* who is inside Conn.Close: 0 the write loop, 1 the read loop, 2 the user goroutine *)
Definition cpc (p : nat) (s : state) : option close_pc :=
  match p with
  | 0 => match wl s with LClose c => Some c | _ => None end
  | 1 => match rl s with RClose c => Some c | _ => None end
  | 2 => match uc s with UClose c => Some c | _ => None end
  | _ => None
  end.
Definition set_cpc (p : nat) (c : close_pc) (s : state) : state :=
  match p with
  | 0 => s <| wl := LClose c |>
  | 1 => s <| rl := RClose c |>
  | _ => s <| uc := UClose c |>
  end.
(* Close returns *)
Definition end_cpc (p : nat) (s : state) : state :=
  match p with
  | 0 => s <| wl := LT2 |>
  | 1 => s <| rl := RDone |>
  | _ => s <| uc := UDone |>
  end.
Definition bw_of (p : nat) : bw_t := match p with 0 => BwWl | 1 => BwRl | _ => BwUc end.

Section Sem.
Variable cap : nat.

Definition guard (a : act) (s : state) : Prop :=
  match a with
  | EPeerSend => gone s = false /\ sclosed s = false /\ rdy s = false
  | EPeerStall => stalled s = false
  | EPeerClose => gone s = false
  | ETick => tick s = false
  | ETimerFire => tx s = TArmed
  | EBodyRead _ => wl s = LRefill
  | EOtherCaller => closed s = false
  | EUserClose => uc s = UIdle
  (* conn.go:Write *)
  | KSend => xc s = KW1 /\ inq s + xin s < cap
  | KSeeDone => xc s = KW1 /\ done s = true
  | KCheckDone => xc s = KW2 /\ done s = true
  | KCheckOpen => xc s = KW2 /\ done s = false
  | KLockChk => xc s = KLck /\ lx s = LxNone
  | KResolve => xc s = KSelf
  (* client.go:roundTripOnce *)
  | KRecv => xc s = KErr /\ xerr s = true
  | KTakeBack => xc s = KTb /\ lx s = LxNone
  | OSend => 0 < ow s /\ inq s + xin s < cap
  | OSeeDone => 0 < ow s /\ done s = true
  (* client.go:fireTimeout, conn.go:cancel *)
  | TResolve => tx s = TRes
  | TDelLock => tx s = TDel /\ lx s = LxNone
  | TDelSkip => tx s = TDel
  | TTakeReq => tx s = TTake
  | TOutSend => tx s = TOut /\ outq s < cap
  | TOutDone => tx s = TOut /\ done s = true
  (* conn.go:runWriteLoop *)
  | LSelDone => wl s = LSel /\ done s = true
  | LSelInX _ => wl s = LSel /\ xloc s = XIn
  | LSelInO _ => wl s = LSel /\ 0 < inq s
  | LSelOut _ => wl s = LSel /\ 0 < outq s
  | LSelWin _ => wl s = LSel /\ win s = true
  | LSelTick _ => wl s = LSel /\ tick s = true
  | LRejectX => wl s = LIter /\ xloc s = XWl
  | LGoAcqX => wl s = LIter /\ 0 < bud s /\ (xloc s = XWl \/ xloc s = XTab)
  | LAcqX => wl s = LAcq /\ lx s = LxNone /\ xdone s = false
  | LAcqXFail => wl s = LAcq /\ lx s = LxNone /\ xdone s = true
  | LGoLockB h => wl s = LIter /\ 0 < bud s /\ h <> HX /\ xloc s <> XWl
  | LLock => (exists h, wl s = LLockB h) /\ bw s = BwNone
  | LWriteOk => (exists h, wl s = LWrite h) /\ stalled s = false /\ dead s = false
  | LGoAwayRace => wl s = LLockB HX
  | LWriteFail _ => (exists h, wl s = LWrite h) /\ dead s = true
  | LGoRefill => wl s = LIter /\ 0 < bud s /\ xloc s <> XWl
  | LIterEnd | LIterErr => wl s = LIter /\ xloc s <> XWl
  | LSetErr => wl s = LT0
  | LT2Take => wl s = LT2
  | LT3InX => wl s = LT3 /\ xloc s = XIn
  | LT3InO => wl s = LT3 /\ 0 < inq s
  | LT3Out => wl s = LT3 /\ 0 < outq s
  | LT3End => wl s = LT3 /\ inq s = 0 /\ xloc s <> XIn /\ outq s = 0
  (* conn.go:readLoop *)
  | RGet => rl s = RRead /\ rdy s = true
  | RReadFail => rl s = RRead /\ dead s = true
  | RGoOut => rl s = RIter true
  | RGoAcqX => rl s = RIter true /\ xloc s = XTab
  | RAcqX => rl s = RAcq /\ lx s = LxNone /\ xdone s = false
  | RAcqXFail => rl s = RAcq /\ lx s = LxNone /\ xdone s = true
  | RGoHoldO | RGoPost _ => rl s = RIter true
  | RHoldFinish _ _ => exists h, rl s = RHold h
  | RPostGo => exists k st, rl s = RPost (S k) st
  | RPostSend => (exists k st, rl s = RPostW k st) /\ outq s < cap
  | RPostDone => (exists k st, rl s = RPostW k st) /\ done s = true
  | RPostEnd => exists k st, rl s = RPost k st
  | ROutSend => rl s = ROut /\ outq s < cap
  | ROutDone => rl s = ROut /\ done s = true
  | RIterEnd _ => exists u, rl s = RIter u
  | RDeferClose => rl s = RExit
  (* conn.go:Close *)
  | CCasWin p => p < 3 /\ cpc p s = Some CCas /\ closed s = false
  | CCasLose p => p < 3 /\ cpc p s = Some CCas /\ closed s = true
  | CCloseDone p => p < 3 /\ cpc p s = Some CDone
  | CLockB p => p < 3 /\ cpc p s = Some CLock /\ bw s = BwNone
  | CWriteRet p => p < 3 /\ cpc p s = Some CWrite /\ (dead s = true \/ stalled s = false)
  end.

Definition wl_hold (s : state) : hold :=
  match wl s with LLockB h | LWrite h => h | _ => HNone end.
Definition rl_hold (s : state) : hold :=
  match rl s with RHold h => h | _ => HNone end.
Definition rl_k (s : state) : nat :=
  match rl s with RPost k _ | RPostW k _ => k | _ => 0 end.
Definition rl_stop (s : state) : bool :=
  match rl s with RPost _ st | RPostW _ st => st | _ => false end.

Definition eff (a : act) (s : state) : state :=
  match a with
  (* the peer: a complete frame arrives / it stops reading / it closes *)
  | EPeerSend => s <| rdy := true |>
  | EPeerStall => s <| stalled := true |>
  | EPeerClose => s <| gone := true |>
  (* runWriteLoop: ticker := time.NewTicker(c.pingInterval) *)
  | ETick => s <| tick := true |>
  (* roundTripOnce: ctx.timer.Reset(cl.opts.MaxResponseTime) elapses -> fireTimeout *)
  | ETimerFire => s <| tx := TRes |>
  (* refillPending returned: more data, EOF, or an error.  sendPending on an error: deletePending;
     if c.takeReq(id): markFinished, resolve, and writeReset = writeFrame under bwLck (a socket
     write like the others: LGoLockB HNone) -- the write loop never sends on c.out *)
  | EBodyRead xfail =>
      (match xfail, xloc s with
       | true, XTab => resolveX s <| xloc := XGone |> <| xpend := false |>
       | _, _ => s
       end) <| wl := LIter |>
  (* roundTripOnce: another goroutine enters c.Write(ctx) (pickConn saw the connection open) *)
  | EOtherCaller => s <| ow := S (ow s) |>
  (* client.go:Client.Close (cl.lck taken and released first), or Conn.Close directly *)
  | EUserClose => s <| uc := UClose CCas |>
  (* Write: case c.in <- r *)
  | KSend => s <| xloc := XIn |> <| xc := KW2 |>
  (* Write: case <-c.done *)
  | KSeeDone => s <| xc := KSelf |>
  | KCheckDone => s <| xc := KLck |>
  (* Write: r.lck.Lock(); unsent := r.streamID == 0; if unsent { r.done = true }; r.lck.Unlock();
     if unsent { r.resolve(c.closeErr()) } *)
  | KLockChk => (if xsid s then s else resolveX (s <| xdone := true |>)) <| xc := KErr |>
  | KCheckOpen => s <| xc := KErr |>
  (* Write: r.resolve(c.closeErr()) -- lastErrLck, then resLck *)
  | KResolve => resolveX s <| xc := KErr |>
  (* roundTripOnce: err = <-ctx.Err; ctx.reusable() stops the timer (resLck) *)
  | KRecv => s <| xerr := false |> <| tx := (match tx s with TArmed => TOff | t => t end) |>
               <| xc := KTb |>
  (* takeBack: lck.Lock(); done = true; lck.Unlock(); resLck.Lock(); resolved = true; Unlock *)
  | KTakeBack => s <| xdone := true |> <| xres := true |> <| xc := KRet |>
  (* Write, another caller: case c.in <- r *)
  | OSend => s <| ow := pred (ow s) |> <| inq := S (inq s) |>
  (* Write: case <-c.done: r.resolve(c.closeErr()); return *)
  | OSeeDone => s <| ow := pred (ow s) |>
  (* fireTimeout: ctx.resolve(ErrRequestCanceled); if c := ctx.conn.Load(); c != nil { c.cancel }
     -- cancel returns at once while ctx.streamID == 0 *)
  | TResolve => resolveX s <| tx := (if xsid s then TDel else TDone) |>
  (* cancel: deletePending: dropPending (sendLck); streamed body: pb.ctx.acquireFor ...
     closeBodyStream ... release *)
  | TDelLock | TDelSkip => s <| xpend := false |> <| tx := TTake |>
  (* cancel: if c.takeReq(id) { openStreams-- } (reqLck) *)
  | TTakeReq => s <| xloc := (match xloc s with XTab => XGone | l => l end) |> <| tx := TOut |>
  (* cancel: cancelStream -> writeOut: case c.out <- fr / case <-c.done *)
  | TOutSend => s <| outq := S (outq s) |> <| tx := TDone |>
  | TOutDone => s <| tx := TDone |>
  (* runWriteLoop: case <-c.done: return lastErr *)
  | LSelDone => s <| wl := LT0 |>
  (* runWriteLoop: case ctx := <-c.in: c.writeRequest(ctx) *)
  | LSelInX b => s <| xloc := XWl |> <| bud := b |> <| wl := LIter |>
  | LSelInO b => s <| inq := pred (inq s) |> <| bud := b |> <| wl := LIter |>
  (* runWriteLoop: case fr := <-c.out: c.writeFrame(fr) *)
  | LSelOut b => s <| outq := pred (outq s) |> <| bud := b |> <| wl := LIter |>
  (* runWriteLoop: case <-c.winCh: c.flushPending() *)
  | LSelWin b => s <| win := false |> <| bud := b |> <| wl := LIter |>
  (* runWriteLoop: case <-ticker.C: c.writePing() *)
  | LSelTick b => s <| tick := false |> <| bud := b |> <| wl := LIter |>
  (* writeRequest returns an error before the request is on the table (or takes it off again:
     the GOAWAY race); runWriteLoop: ctx.resolve(err) *)
  | LRejectX => resolveX s <| xloc := XGone |>
  (* writeRequest: ctx.acquire() / sendPending: pb.ctx.acquireFor(c, id) on X -- ctx.lck.Lock() *)
  | LGoAcqX => s <| bud := pred (bud s) |> <| wl := LAcq |>
  (* ctx.acquire() / acquireFor succeeded.  In writeRequest the request then goes on the table:
     ctx.conn.Store(c); ctx.streamID = id; c.queueReq(id, ctx) (reqLck); c.pending[id] = pb
     (sendLck) *)
  | LAcqX => s <| lx := LxWl |>
               <| xsid := true |>
               <| xpend := (match xloc s with XWl => true | _ => xpend s end) |>
               <| xloc := (match xloc s with XWl => XTab | l => l end) |> <| wl := LLockB HX |>
  (* acquire / acquireFor found ctx.done: unlock, give the request up (deletePending) *)
  | LAcqXFail => s <| xloc := (match xloc s with XWl => XGone | l => l end) |> <| xpend := false |>
                   <| wl := LIter |>
  (* writeFrame / writePing (nothing held), or writeRequest / sendPending -> flushData for
     another request (its Ctx.lck held) *)
  | LGoLockB h => s <| bud := pred (bud s) |> <| wl := LLockB h |>
  (* writeRequest / flushData / writeFrame / writePing: c.bwLck.Lock() acquired *)
  | LLock => s <| bw := BwWl |> <| wl := LWrite (wl_hold s) |>
  (* the write went through: bwLck.Unlock(); ctx.release() *)
  | LWriteOk => release (wl_hold s) s <| bw := BwNone |> <| wl := LIter |>
  (* the write failed: bwLck.Unlock(); writeRequest: setLastErr, takeReq, release, deletePending,
     and runWriteLoop resolves the request and returns WriteError *)
  | LWriteFail hdr => release (wl_hold s)
                    (match wl_hold s, hdr with
                     | HX, true => resolveX s <| xloc := (match xloc s with XTab => XGone | l => l end) |>
                                     <| xpend := false |>
                     | _, _ => s
                     end) <| bw := BwNone |> <| wl := LT0 |>
  (* writeRequest: a GOAWAY came in since CanOpenStream was asked: takeReq, return
     ErrNotAvailableStreams (deferred release); runWriteLoop resolves the request and goes on *)
  | LGoAwayRace => resolveX s <| xloc := (match xloc s with XTab => XGone | l => l end) |>
                     <| lx := LxNone |> <| wl := LIter |>
  (* sendPending: c.refillPending(pb) -> pb.stream.Read(buf), sendLck released first *)
  | LGoRefill => s <| bud := pred (bud s) |> <| wl := LRefill |>
  (* the iteration ends: back to the select ... *)
  | LIterEnd => s <| wl := LSel |>
  (* ... or runWriteLoop returns: ErrTimeout (3 pings unanswered), a recovered panic *)
  | LIterErr => s <| wl := LT0 |>
  (* writeLoop: c.setLastErr(lastErr) (lastErrLck); _ = c.Close() *)
  | LSetErr => s <| wl := LClose CCas |>
  (* writeLoop: for _, ctx := range c.takeAllReqs() { ctx.resolve(lastErr) } (reqLck, resLck) *)
  | LT2Take => (match xloc s with XTab => resolveX s <| xloc := XGone |> | _ => s end) <| wl := LT3 |>
  (* writeLoop, drain: case ctx := <-c.in: ctx.resolve(lastErr) / case fr := <-c.out / default: return *)
  | LT3InX => resolveX s <| xloc := XGone |>
  | LT3InO => s <| inq := pred (inq s) |>
  | LT3Out => s <| outq := pred (outq s) |>
  | LT3End => s <| wl := LDone |>
  (* readNext / readLoop got a frame *)
  | RGet => s <| rdy := false |> <| rl := RIter true |>
  (* ... or an error: c.setLastErr(err); break *)
  | RReadFail => s <| rl := RExit |>
  (* readNext: handleSettings / handlePing -> writeOut *)
  | RGoOut => s <| rl := ROut |>
  (* dispatch: r, ok := c.loadReq(id) found X (reqLck); r.acquireFor(c, id): ctx.lck.Lock().
     Also readNext's GOAWAY: takeReqsAbove, deletePending -> acquireFor, markFinished, resolve *)
  | RGoAcqX => s <| rl := RAcq |>
  (* acquireFor succeeded *)
  | RAcqX => s <| lx := LxRl |> <| rl := RHold HX |>
  (* acquireFor found ctx.done: c.dequeueReq(id) *)
  | RAcqXFail => s <| xloc := (match xloc s with XTab => XGone | l => l end) |> <| rl := RIter false |>
  (* dispatch for another request: its Ctx.lck is taken *)
  | RGoHoldO => s <| rl := RHold HO |>
  (* dispatch with nobody waiting on the stream: dispatchLocked holds nothing; readStream may
     still have appended updateWindow(0, ...) to c.outBuf *)
  | RGoPost stop => s <| rl := RPost 2 stop |>
  (* dispatchLocked returns (deferred r.release()).  drop: c.finish(r, id, err) ran -- takeReq,
     dropPending, markFinished, resolve; stop: its result.  readStream has appended at most two
     frames to c.outBuf (updateWindow for the stream and for the connection) *)
  | RHoldFinish drop stop =>
      release (rl_hold s)
        (match rl_hold s, drop with
         | HX, true => resolveX s <| xloc := (match xloc s with XTab => XGone | l => l end) |>
                         <| xpend := false |>
         | _, _ => s
         end) <| rl := RPost 2 stop |>
  (* dispatch: for i, out := range c.outBuf { c.writeOut(out) } -- case c.out <- fr / <-c.done *)
  | RPostGo => s <| rl := RPostW (pred (rl_k s)) (rl_stop s) |>
  | RPostSend => s <| outq := S (outq s) |> <| rl := RPost (rl_k s) (rl_stop s) |>
  | RPostDone => s <| rl := RPost (rl_k s) (rl_stop s) |>
  (* dispatch returns stop to readLoop *)
  | RPostEnd => s <| rl := (if rl_stop s then RExit else RRead) |>
  (* writeOut with nothing held *)
  | ROutSend => s <| outq := S (outq s) |> <| rl := RIter false |>
  | ROutDone => s <| rl := RIter false |>
  (* the frame is dealt with (addWindow + signalWindow on the way: sendLck, winCh);
     stop: protocol error, GOAWAY with nothing left to wait for *)
  | RIterEnd stop => s <| win := true |> <| rl := (if stop then RExit else RRead) |>
  (* readLoop: defer func() { _ = c.Close() }() *)
  | RDeferClose => s <| rl := RClose CCas |>
  (* Close: the CAS *)
  | CCasWin p => set_cpc p CDone s <| closed := true |>
  (* Close: the CAS failed: return io.EOF at once *)
  | CCasLose p => end_cpc p s <| raced := (raced s || (match p with 0 => negb (done s) | _ => false end)) |>
  (* Close: close(c.done) *)
  | CCloseDone p => set_cpc p CLock s <| done := true |>
  (* Close: c.bwLck.Lock() acquired *)
  | CLockB p => set_cpc p CWrite s <| bw := bw_of p |>
  (* the GOAWAY write returned; bwLck.Unlock(); c.c.Close(); onDisconnect (Client.lck) *)
  | CWriteRet p => end_cpc p s <| bw := BwNone |> <| sclosed := true |>
  end.

Definition init (s : state) : Prop :=
  xc s = KW1 /\ (tx s = TArmed \/ tx s = TOff) /\ wl s = LSel /\ rl s = RRead /\ uc s = UIdle /\
  xloc s = XOut /\ xerr s = false /\ xres s = false /\ xdone s = false /\ xsid s = false /\
  xpend s = false /\ lx s = LxNone /\ bw s = BwNone /\ closed s = false /\ done s = false /\
  inq s <= cap /\ outq s <= cap /\ gone s = false /\ sclosed s = false /\ raced s = false.

Definition reachable : state -> Prop := reach guard eff init.

(* -- fairness groups: one per goroutine (Conn.Close belongs to whoever runs it), the done case and
   the c.out case of the write loop's select, and the caller's body reader -- *)
Definition g_x (a : act) : Prop :=
  match a with
  | KSend | KSeeDone | KCheckDone | KCheckOpen | KLockChk | KResolve | KRecv | KTakeBack => True
  | _ => False end.
Definition g_o (a : act) : Prop := match a with OSend | OSeeDone => True | _ => False end.
Definition g_t (a : act) : Prop :=
  match a with TResolve | TDelLock | TDelSkip | TTakeReq | TOutSend | TOutDone => True
  | _ => False end.
Definition g_close (p : nat) (a : act) : Prop :=
  match a with
  | CCasWin q | CCasLose q | CCloseDone q | CLockB q | CWriteRet q => q = p
  | _ => False
  end.
Definition g_wl (a : act) : Prop :=
  match a with
  | LSelDone | LSelInX _ | LSelInO _ | LSelOut _ | LSelWin _ | LSelTick _ | LRejectX | LGoAcqX
  | LAcqX | LAcqXFail | LGoLockB _ | LGoAwayRace | LLock | LWriteOk | LWriteFail _ | LGoRefill
  | LIterEnd | LIterErr | LSetErr | LT2Take | LT3InX
  | LT3InO | LT3Out | LT3End => True
  | a => g_close 0 a
  end.
Definition g_rl (a : act) : Prop :=
  match a with
  | RGet | RReadFail | RGoOut | RGoAcqX | RAcqX | RAcqXFail | RGoHoldO | RGoPost _
  | RHoldFinish _ _ | RPostGo | RPostSend | RPostDone | RPostEnd | ROutSend | ROutDone | RIterEnd _
  | RDeferClose => True
  | a => g_close 1 a
  end.
Definition g_uc (a : act) : Prop := g_close 2 a.
Definition g_seldone (a : act) : Prop := match a with LSelDone => True | _ => False end.
Definition g_body (a : act) : Prop := match a with EBodyRead _ => True | _ => False end.
Definition g_selout (a : act) : Prop := match a with LSelOut _ => True | _ => False end.

Definition fair_run (r : run guard eff) : Prop :=
  sfair g_x r /\ sfair g_o r /\ sfair g_t r /\ sfair g_wl r /\ sfair g_rl r /\ sfair g_uc r /\
  sfair g_seldone r /\ sfair g_body r /\ sfair g_selout r.

(* -- vocabulary -- *)
(* X's caller has received from ctx.Err *)
Definition delivered (s : state) : Prop := xc s = KTb \/ xc s = KRet.
Definition loops_exited (s : state) : Prop := wl s = LDone /\ rl s = RDone.

(* -- the wait-for graph of the mutexes that are held across blocking operations.
   Processes: 0 write loop, 1 read loop, 2 user goroutine in Close, 3 X's caller, 4 X's timer.
   Lock ids, ordered as the lock order: 1 = another request's Ctx.lck, 2 = X's Ctx.lck, 3 = bwLck.
   (The other five mutexes are never held across a blocking operation or another Lock; they are
   folded into the steps, and [nest] below lists what is taken under what.) -- *)
Definition wants (s : state) (p : nat) : option nat :=
  match p with
  | 0 => match wl s with LAcq => Some 2 | LLockB _ => Some 3 | LClose CLock => Some 3 | _ => None end
  | 1 => match rl s with RAcq => Some 2 | RClose CLock => Some 3 | _ => None end
  | 2 => match uc s with UClose CLock => Some 3 | _ => None end
  | 3 => match xc s with KTb | KLck => Some 2 | _ => None end
  | 4 => match tx s with TDel => Some 2 | _ => None end
  | _ => None
  end.
Definition holds (s : state) (p : nat) (m : nat) : Prop :=
  match p with
  | 0 => (m = 1 /\ wl_hold s = HO) \/ (m = 2 /\ lx s = LxWl) \/ (m = 3 /\ bw s = BwWl)
  | 1 => (m = 1 /\ rl_hold s = HO) \/ (m = 2 /\ lx s = LxRl) \/ (m = 3 /\ bw s = BwRl)
  | 2 => m = 3 /\ bw s = BwUc
  | _ => False
  end.

(* parked on a send into c.out (writeOut): 1 the read loop (readNext's replies; dispatch's c.outBuf
   after dispatchLocked has returned), 4 X's timer (cancel -> cancelStream).  Not the write loop:
   it writes its own RST_STREAM (writeReset). *)
Definition parked_on_out (s : state) (p : nat) : Prop :=
  match p with
  | 1 => rl s = ROut \/ exists k st, rl s = RPostW k st
  | 4 => tx s = TOut
  | _ => False
  end.
End Sem.

(* -- what each step locks under what (outer, inner): read off the Go code.  A step that is not
   listed takes its mutexes one at a time with nothing held. -- *)
Definition nest (a : act) : list (mutex * mutex) :=
  match a with
  (* writeRequest under ctx.lck: queueReq/takeReq (reqLck), c.pending (sendLck) *)
  | LAcqX => [(MCtx, MReq); (MCtx, MSend)]
  | LGoLockB HO => [(MCtx, MReq); (MCtx, MSend)]
  | LGoAwayRace => [(MCtx, MReq)]
  (* writeRequest / flushData: bwLck under ctx.lck *)
  | LLock => [(MCtx, MBw)]
  (* writeRequest, write error: setLastErr, takeReq still under ctx.lck *)
  | LWriteFail _ => [(MCtx, MLastErr); (MCtx, MReq)]
  (* dispatch under ctx.lck: finish -> takeReq, dropPending, markFinished, resolve; setLastErr;
     goneAway -> noReqs *)
  | RHoldFinish _ _ => [(MCtx, MReq); (MCtx, MSend); (MCtx, MRes); (MCtx, MLastErr)]
  | _ => []
  end.
End Cli.
