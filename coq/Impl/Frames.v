(* Model of the frame codec of /repo, bug for bug:
     http2utils/utils.go  Uint24ToBytes BytesToUint24 AppendUint32Bytes Uint32ToBytes
                          BytesToUint32 Resize CutPadding AddPadding
     frameHeader.go       Reset parseValues parseHeader checkLen readFrom ReadFrameFrom
                          ReadFrameFromWithSize WriteTo SetBody SetFlags SetStream
     frame.go             FrameFlags.Has/Add, AcquireFrame (Reset of each type)
     data.go headers.go continuation.go priority.go rststream.go settings.go ping.go
     goaway.go windowUpdate.go pushpromise.go    Serialize / Deserialize / Reset,
                          Settings.Read / Encode
   Conventions: the bufio.Reader is the list of bytes it will deliver before EOF;
   FrameFlags (an int8) is kept as its bit pattern 0..255 (Has/Add are bitwise, so the
   sign never matters; Flags() shows signed 8 of it); FrameType (an int8) is kept as the
   signed value, because readFrom compares it. Slice and index expressions that can
   panic in Go yield Panic. Definitions only. *)
From H2V Require Import Base.Bytes Base.MachineInt Base.Result Gen.GenConsts Impl.Pools.
Local Open Scope N_scope.

Notation "'do' x <- e ; k" := (bind e (fun x => k)) (at level 200, x pattern, e at level 100, k at level 200).

(* ---- error classes (the harness maps Go errors to the same small enum) ---- *)
Definition E_eof : N := 1.             (* io.EOF / io.ErrUnexpectedEOF from Peek or ReadFull *)
Definition E_too_large : N := 2.       (* ErrPayloadExceeds *)
Definition E_unknown_type : N := 3.    (* ErrUnknownFrameType *)
Definition E_frame_size : N := 4.      (* NewGoAwayError(FrameSizeError, ...) *)
Definition E_missing : N := 5.         (* ErrMissingBytes *)
Definition E_padding : N := 6.         (* the fmt.Errorf of CutPadding *)
Definition E_settings_proto : N := 7.  (* NewGoAwayError(ProtocolError, ...) from Settings.Read *)
Definition E_settings_flow : N := 8.   (* NewGoAwayError(FlowControlError, ...) from Settings.Read *)

Definition P_index : N := 0.   (* index out of range *)
Definition P_slice : N := 1.   (* slice bounds out of range *)
Definition P_nil : N := 2.     (* nil interface / pointer dereference *)

(* ---- Go slices and indices ---- *)
Definition go_index (b : bytes) (i : N) : result N :=
  match idx b i with Some x => Ok x | None => Panic P_index end.

(* b[lo:hi] within len(b) *)
Definition go_slice (b : bytes) (lo hi : N) : result bytes :=
  if (lo <=? hi) && (hi <=? len b) then Ok (takeN (hi - lo) (dropN lo b)) else Panic P_slice.

(* ---- http2utils ---- *)

(* b[0] = byte(n >> 16); b[1] = byte(n >> 8); b[2] = byte(n)  (n a uint32) *)
Definition uint24_to_bytes (n : N) : bytes := [u8 (N.shiftr n 16); u8 (N.shiftr n 8); u8 n].

(* the four bytes Uint32ToBytes stores / AppendUint32Bytes appends *)
Definition uint32_to_bytes (n : N) : bytes :=
  [u8 (N.shiftr n 24); u8 (N.shiftr n 16); u8 (N.shiftr n 8); u8 n].

(* _ = b[2]; uint32(b[0])<<16 | uint32(b[1])<<8 | uint32(b[2]) *)
Definition bytes_to_uint24 (b : bytes) : result N :=
  match b with
  | b0 :: b1 :: b2 :: _ => Ok (N.lor (N.lor (shlw 32 b0 16) (shlw 32 b1 8)) b2)
  | _ => Panic P_index
  end.

(* _ = b[3]; uint32(b[0])<<24 | uint32(b[1])<<16 | uint32(b[2])<<8 | uint32(b[3]) *)
Definition bytes_to_uint32 (b : bytes) : result N :=
  match b with
  | b0 :: b1 :: b2 :: b3 :: _ =>
      Ok (N.lor (N.lor (N.lor (shlw 32 b0 24) (shlw 32 b1 16)) (shlw 32 b2 8)) b3)
  | _ => Panic P_index
  end.

Definition mask31 : N := 2 ^ 31 - 1.   (* 1<<31 - 1 *)

(* CutPadding(payload, length): ints are signed, the comparisons are done in Z *)
Definition cut_padding (payload : bytes) (length : Z) : result bytes :=
  let n := Z.of_N (len payload) in
  if ((n =? 0) || (length <? 1) || (n <? length))%Z then Err E_padding
  else
    do p0 <- go_index payload 0;
    let pad := Z.of_N p0 in
    if ((n <? length - pad - 1) || (length - pad <? 1))%Z then Err E_padding
    else go_slice payload 1 (Z.to_N (length - pad)).

(* AddPadding(b) with the random pad length n = fastrand.Uint32n(256-9)+9 given:
   b = Resize(b, nn+n); b = append(b[:1], b...); b[0] = uint8(n); b[nn+1:] zeroed.
   b[:1] panics when the resized slice has capacity 0, i.e. nn+n = 0. *)
Definition add_padding (b : bytes) (n : N) : result bytes :=
  if len b + n =? 0 then Panic P_slice
  else Ok (u8 n :: b ++ repeat 0 (N.to_nat n)).

(* ---- FrameFlags ---- *)
Definition has (flags f : N) : bool := N.land flags f =? f.
Definition add_flag (flags f : N) : N := N.lor flags f.
(* with(f, on): if on { flags | f } else { flags &^ f } *)
Definition with_flag (flags f : N) (on : bool) : N := if on then N.lor flags f else N.ldiff flags f.

(* ---- frame bodies (the ten structs behind the Frame interface) ---- *)

Record settings_v := mkSt {
  st_ack : bool; st_raw : bytes; st_tableSize : N; st_enablePush : bool; st_maxStreams : N;
  st_windowSize : N; st_frameSize : N; st_headerSize : N; st_hasWindowSize : bool;
  st_present : N   (* uint8: bit id set when Read met parameter id (1..6); shown by Has(id) *) }.

Inductive body :=
| BData (endStream hasPadding : bool) (b : bytes)
| BHeaders (hasPadding : bool) (stream weight : N) (endStream endHeaders priority : bool) (raw : bytes)
| BPriority (stream weight : N)
| BRstStream (code : N)
| BSettings (st : settings_v)
| BPushPromise (pad ended : bool) (stream : N) (header : bytes)
| BPing (ack : bool) (data : bytes)          (* data [8]byte *)
| BGoAway (stream code : N) (data : bytes)
| BWindowUpdate (increment : Z)              (* increment int *)
| BContinuation (endHeaders : bool) (raw : bytes).

Definition body_type (b : body) : Z :=
  Z.of_N match b with
  | BData _ _ _ => c_FrameData | BHeaders _ _ _ _ _ _ _ => c_FrameHeaders
  | BPriority _ _ => c_FramePriority | BRstStream _ => c_FrameResetStream
  | BSettings _ => c_FrameSettings | BPushPromise _ _ _ _ => c_FramePushPromise
  | BPing _ _ => c_FramePing | BGoAway _ _ _ => c_FrameGoAway
  | BWindowUpdate _ => c_FrameWindowUpdate | BContinuation _ _ => c_FrameContinuation
  end.

(* Settings.Reset *)
Definition settings_reset : settings_v :=
  mkSt false [] c_defaultHeaderTableSize false c_defaultConcurrentStreams c_defaultWindowSize
       c_defaultDataFrameSize 0 false 0.

Definition zeros8 : bytes := [0; 0; 0; 0; 0; 0; 0; 0].

(* AcquireFrame(ftype): framePools[ftype].Get() then Reset(). Indexing the array of
   pools panics outside 0..FrameContinuation. Ping.Reset leaves data alone; a pooled
   Ping may carry stale data, which every successful Deserialize overwrites: the
   model starts from zeros. *)
Definition acquire_frame (kind : Z) : result body :=
  if (kind <? 0)%Z || (Z.of_N c_FrameContinuation <? kind)%Z then Panic P_index
  else
    let k := Z.to_N kind in
    if k =? c_FrameData then Ok (BData false false [])
    else if k =? c_FrameHeaders then Ok (BHeaders false 0 0 false false false [])
    else if k =? c_FramePriority then Ok (BPriority 0 0)
    else if k =? c_FrameResetStream then Ok (BRstStream 0)
    else if k =? c_FrameSettings then Ok (BSettings settings_reset)
    else if k =? c_FramePushPromise then Ok (BPushPromise false false 0 [])
    else if k =? c_FramePing then Ok (BPing false zeros8)
    else if k =? c_FrameGoAway then Ok (BGoAway 0 0 [])
    else if k =? c_FrameWindowUpdate then Ok (BWindowUpdate 0%Z)
    else if k =? c_FrameContinuation then Ok (BContinuation false [])
    else Panic P_nil.   (* a nil *sync.Pool: unreachable, the ten types fill 0..9 *)

(* ---- FrameHeader ---- *)
Record fhdr := mkFH {
  fh_length : N;          (* int, always >= 0 here *)
  fh_kind : Z;            (* FrameType, int8 *)
  fh_flags : N;           (* FrameFlags, bit pattern *)
  fh_stream : N;          (* uint32 *)
  fh_maxLen : N;          (* uint32 *)
  fh_payload : bytes;
  fh_body : option body }.

(* AcquireFrameHeader: Get + Reset *)
Definition acquire_header : fhdr := mkFH 0 0%Z 0 0 c_defaultMaxLen [] None.

Definition set_flags (f : fhdr) (fl : N) : fhdr :=
  mkFH (fh_length f) (fh_kind f) fl (fh_stream f) (fh_maxLen f) (fh_payload f) (fh_body f).
Definition set_stream (f : fhdr) (s : N) : fhdr :=
  mkFH (fh_length f) (fh_kind f) (fh_flags f) s (fh_maxLen f) (fh_payload f) (fh_body f).
Definition set_maxlen (f : fhdr) (m : N) : fhdr :=
  mkFH (fh_length f) (fh_kind f) (fh_flags f) (fh_stream f) m (fh_payload f) (fh_body f).
Definition set_payload (f : fhdr) (p : bytes) : fhdr :=
  mkFH (fh_length f) (fh_kind f) (fh_flags f) (fh_stream f) (fh_maxLen f) p (fh_body f).
Definition set_length (f : fhdr) (n : N) : fhdr :=
  mkFH n (fh_kind f) (fh_flags f) (fh_stream f) (fh_maxLen f) (fh_payload f) (fh_body f).
(* SetBody: f.kind = fr.Type(); f.fr = fr *)
Definition set_body (f : fhdr) (b : body) : fhdr :=
  mkFH (fh_length f) (body_type b) (fh_flags f) (fh_stream f) (fh_maxLen f) (fh_payload f) (Some b).
Definition put_body (f : fhdr) (b : option body) : fhdr :=
  mkFH (fh_length f) (fh_kind f) (fh_flags f) (fh_stream f) (fh_maxLen f) (fh_payload f) b.

(* parseValues(header): (length, kind, flags, stream) *)
Definition parse_values (header : bytes) : result (N * Z * N * N) :=
  do h3 <- go_slice header 0 3;
  do length <- bytes_to_uint24 h3;
  do k <- go_index header 3;
  do fl <- go_index header 4;
  do h5 <- go_slice header 5 (len header);
  do s <- bytes_to_uint32 h5;
  Ok (length, signed 8 k, fl, N.land s mask31).

(* parseHeader(f.rawHeader[:]): the nine bytes; rawHeader is an array, no bound can fail *)
Definition parse_header_bytes (f : fhdr) : bytes :=
  uint24_to_bytes (u32 (fh_length f)) ++ [of_signed 8 (fh_kind f); u8 (fh_flags f)]
  ++ uint32_to_bytes (fh_stream f).

(* checkLen: f.maxLen != 0 && f.length > int(f.maxLen) *)
Definition check_len (length maxLen : N) : bool := negb (maxLen =? 0) && (maxLen <? length).

(* ---- Settings.Read ---- *)
Definition st_set_tableSize (s : settings_v) v := mkSt (st_ack s) (st_raw s) v (st_enablePush s) (st_maxStreams s) (st_windowSize s) (st_frameSize s) (st_headerSize s) (st_hasWindowSize s) (st_present s).
Definition st_set_enablePush (s : settings_v) v := mkSt (st_ack s) (st_raw s) (st_tableSize s) v (st_maxStreams s) (st_windowSize s) (st_frameSize s) (st_headerSize s) (st_hasWindowSize s) (st_present s).
Definition st_set_maxStreams (s : settings_v) v := mkSt (st_ack s) (st_raw s) (st_tableSize s) (st_enablePush s) v (st_windowSize s) (st_frameSize s) (st_headerSize s) (st_hasWindowSize s) (st_present s).
Definition st_set_windowSize (s : settings_v) v := mkSt (st_ack s) (st_raw s) (st_tableSize s) (st_enablePush s) (st_maxStreams s) v (st_frameSize s) (st_headerSize s) true (st_present s).
Definition st_set_frameSize (s : settings_v) v := mkSt (st_ack s) (st_raw s) (st_tableSize s) (st_enablePush s) (st_maxStreams s) (st_windowSize s) v (st_headerSize s) (st_hasWindowSize s) (st_present s).
Definition st_set_headerSize (s : settings_v) v := mkSt (st_ack s) (st_raw s) (st_tableSize s) (st_enablePush s) (st_maxStreams s) (st_windowSize s) (st_frameSize s) v (st_hasWindowSize s) (st_present s).
Definition st_set_ack (s : settings_v) v := mkSt v (st_raw s) (st_tableSize s) (st_enablePush s) (st_maxStreams s) (st_windowSize s) (st_frameSize s) (st_headerSize s) (st_hasWindowSize s) (st_present s).
Definition st_set_present (s : settings_v) v := mkSt (st_ack s) (st_raw s) (st_tableSize s) (st_enablePush s) (st_maxStreams s) (st_windowSize s) (st_frameSize s) (st_headerSize s) (st_hasWindowSize s) v.
Definition st_set_raw (s : settings_v) v := mkSt (st_ack s) v (st_tableSize s) (st_enablePush s) (st_maxStreams s) (st_windowSize s) (st_frameSize s) (st_headerSize s) (st_hasWindowSize s) (st_present s).

(* the switch in Settings.Read *)
Definition settings_switch (st : settings_v) (key value : N) : result settings_v :=
  if key =? c_HeaderTableSize then Ok (st_set_tableSize st value)
  else if key =? c_EnablePush then
    if negb (value =? 0) && negb (value =? 1) then Err E_settings_proto
    else Ok (st_set_enablePush st (negb (value =? 0)))
  else if key =? c_MaxConcurrentStreams then Ok (st_set_maxStreams st value)
  else if key =? c_MaxWindowSize then
    if 2 ^ 31 - 1 <? value then Err E_settings_flow else Ok (st_set_windowSize st value)
  else if key =? c_MaxFrameSize then
    if (value <? 2 ^ 14) || (2 ^ 24 - 1 <? value) then Err E_settings_proto
    else Ok (st_set_frameSize st value)
  else if key =? c_MaxHeaderListSize then Ok (st_set_headerSize st value)
  else Ok st.

(* if key >= HeaderTableSize && key <= MaxHeaderListSize { st.present |= 1 << key }  (present is a uint8) *)
Definition mark_present (st : settings_v) (key : N) : settings_v :=
  if (c_HeaderTableSize <=? key) && (key <=? c_MaxHeaderListSize)
  then st_set_present st (u8 (N.lor (st_present st) (shlw 8 1 key))) else st.

(* one iteration of the loop of Settings.Read *)
Definition settings_apply (st : settings_v) (key value : N) : result settings_v :=
  settings_switch (mark_present st key) key value.

(* for i <= n { b = d[last:i]; ...; last = i; i += 6 }: whole groups of six, a shorter
   tail is not looked at *)
Fixpoint settings_read (d : bytes) (st : settings_v) : result settings_v :=
  match d with
  | b0 :: b1 :: b2 :: b3 :: b4 :: b5 :: rest =>
      let key := N.lor (shlw 16 b0 8) b1 in
      let value := N.lor (N.lor (N.lor (shlw 32 b2 24) (shlw 32 b3 16)) (shlw 32 b4 8)) b5 in
      match settings_apply st key value with
      | Ok st' => settings_read rest st'
      | Err e => Err e
      | Panic w => Panic w
      end
  | _ => Ok st
  end.

(* Settings.Encode: a parameter is written when its value is not the one the peer
   assumes anyway; ENABLE_PUSH only ever as 0; MAX_CONCURRENT_STREAMS always;
   appendSetting(dst, id, value) *)
Definition setting_entry (id v : N) : bytes :=
  [u8 (N.shiftr id 8); u8 id; u8 (N.shiftr v 24); u8 (N.shiftr v 16); u8 (N.shiftr v 8); u8 v].

Definition settings_encode (st : settings_v) : bytes :=
  (if negb (st_tableSize st =? c_defaultHeaderTableSize) then setting_entry c_HeaderTableSize (st_tableSize st) else [])
  ++ (if negb (st_enablePush st) then setting_entry c_EnablePush 0 else [])
  ++ setting_entry c_MaxConcurrentStreams (st_maxStreams st)
  ++ (if negb (st_windowSize st =? c_defaultWindowSize) then setting_entry c_MaxWindowSize (st_windowSize st) else [])
  ++ (if negb (st_frameSize st =? 0) && negb (st_frameSize st =? c_defaultDataFrameSize)
      then setting_entry c_MaxFrameSize (st_frameSize st) else [])
  ++ (if negb (st_headerSize st =? 0) then setting_entry c_MaxHeaderListSize (st_headerSize st) else []).

(* ---- Deserialize, per type: body state before, header flags, payload, fr.Len() ---- *)

(* copy(p.data[:], b): the first min(8, len b) bytes are replaced *)
Definition ping_set_data (data b : bytes) : bytes :=
  firstn 8 b ++ skipn (length (firstn 8 b)) data.

Definition deserialize (bd : body) (fl : N) (payload : bytes) (length : N) : result body :=
  match bd with
  | BData _ hp _ =>
      do p <- (if has fl c_FlagPadded then cut_padding payload (Z.of_N length) else Ok payload);
      Ok (BData (has fl c_FlagEndStream) hp p)
  | BHeaders hp st w _ _ pr raw =>
      do p <- (if has fl c_FlagPadded then cut_padding payload (Z.of_N (len payload)) else Ok payload);
      if has fl c_FlagPriority then
        if len p <? 5 then Err E_missing
        else
          do s <- bytes_to_uint32 p;
          do w' <- go_index p 4;
          do p' <- go_slice p 5 (len p);
          Ok (BHeaders hp (N.land s mask31) w' (has fl c_FlagEndStream) (has fl c_FlagEndHeaders) true (raw ++ p'))
      else Ok (BHeaders hp st w (has fl c_FlagEndStream) (has fl c_FlagEndHeaders) pr (raw ++ p))
  | BPriority st w =>
      if len payload <? 5 then Err E_missing
      else if negb (len payload =? 5) then Err E_frame_size
      else
        do s <- bytes_to_uint32 payload;
        do w' <- go_index payload 4;
        Ok (BPriority (N.land s mask31) w')
  | BRstStream _ =>
      if len payload <? 4 then Err E_missing
      else if negb (len payload =? 4) then Err E_frame_size
      else do c <- bytes_to_uint32 payload; Ok (BRstStream c)
  | BSettings st =>
      if negb (len payload mod 6 =? 0) then Err E_frame_size
      else
        let st1 := st_set_ack st (has fl c_FlagAck) in
        if st_ack st1 && (0 <? len payload) then Err E_frame_size
        else do st2 <- settings_read payload st1; Ok (BSettings st2)
  | BPushPromise pad _ st hdr =>
      do p <- (if has fl c_FlagPadded then cut_padding payload (Z.of_N length) else Ok payload);
      if len p <? 4 then Err E_missing
      else
        do s <- bytes_to_uint32 p;
        do p' <- go_slice p 4 (len p);
        Ok (BPushPromise pad (has fl c_FlagEndHeaders) (N.land s mask31) (hdr ++ p'))
  | BPing _ data =>
      if negb (len payload =? 8) then Err E_frame_size
      else Ok (BPing (has fl c_FlagAck) (ping_set_data data payload))
  | BGoAway st c data =>
      if len payload <? 8 then Err E_missing
      else
        do s <- bytes_to_uint32 payload;
        do p4 <- go_slice payload 4 (len payload);
        do c' <- bytes_to_uint32 p4;
        do p8 <- go_slice payload 8 (len payload);
        Ok (BGoAway (N.land s mask31) c' (if negb (len p8 =? 0) then p8 else data))
  | BWindowUpdate _ =>
      if len payload <? 4 then Err E_missing
      else if negb (len payload =? 4) then Err E_frame_size
      else do s <- bytes_to_uint32 payload; Ok (BWindowUpdate (Z.of_N (N.land s mask31)))
  | BContinuation _ _ => Ok (BContinuation (has fl c_FlagEndHeaders) payload)
  end.

(* ---- readFrom / ReadFrameFrom / ReadFrameFromWithSize ---- *)

Record rf_out := mkRF {
  rf_err : result unit;      (* Ok tt is a nil error *)
  rf_f : fhdr;               (* the FrameHeader afterwards *)
  rf_used : N;               (* bytes taken from the reader *)
  rf_alloc : N;              (* size asked of Resize for the payload buffer *)
  rf_events : list pool_ev }.

Definition oid_header : N := 0.
Definition oid_frame : N := 1.

(* readFrom with the frame pools' hand-off (AcquireFrame) as a parameter *)
Definition read_from_gen (acq : Z -> result body) (f : fhdr) (input : bytes) : rf_out :=
  (* header, err := br.Peek(9): a short read leaves the reader where it was *)
  if len input <? c_DefaultFrameSize then mkRF (Err E_eof) f 0 0 []
  else
    let header := takeN c_DefaultFrameSize input in
    let rest := dropN c_DefaultFrameSize input in     (* br.Discard(9) *)
    match parse_values header with
    | Panic w => mkRF (Panic w) f 9 0 []
    | Err e => mkRF (Err e) f 9 0 []
    | Ok (length, kind, fl, sid) =>
      let f1 := mkFH length kind fl sid (fh_maxLen f) (fh_payload f) (fh_body f) in
      if check_len length (fh_maxLen f) then mkRF (Err E_too_large) f1 9 0 []
      else if (kind <? Z.of_N c_FrameData)%Z || (Z.of_N c_FrameContinuation <? kind)%Z then
        (* br.Discard(f.length): skips what is there, its error is dropped *)
        mkRF (Err E_unknown_type) f1 (9 + N.min length (len rest)) 0 []
      else
        match acq kind with
        | Panic w => mkRF (Panic w) f1 9 0 []
        | Err e => mkRF (Err e) f1 9 0 []
        | Ok bd =>
          let f2 := put_body f1 (Some bd) in
          let evs := [Acq PFrame oid_frame] in
          if 0 <? length then
            (* f.payload = Resize(f.payload, n); io.ReadFull(br, f.payload[:n]) *)
            if len rest <? length then
              (* the buffer holds what arrived; its tail is whatever Resize left there, and
                 nobody sees it: the callers drop the frame *)
              mkRF (Err E_eof) (set_payload f2 rest) (9 + len rest) length evs
            else
              let f3 := set_payload f2 (takeN length rest) in
              match deserialize bd fl (fh_payload f3) length with
              | Ok bd' => mkRF (Ok tt) (put_body f3 (Some bd')) (9 + length) length evs
              | Err e => mkRF (Err e) f3 (9 + length) length evs
              | Panic w => mkRF (Panic w) f3 (9 + length) length evs
              end
          else
            match deserialize bd fl (fh_payload f2) length with
            | Ok bd' => mkRF (Ok tt) (put_body f2 (Some bd')) 9 0 evs
            | Err e => mkRF (Err e) f2 9 0 evs
            | Panic w => mkRF (Panic w) f2 9 0 evs
            end
        end
    end.

(* with every pool empty: AcquireFrame hands out a new, Reset object *)
Definition read_from (f : fhdr) (input : bytes) : rf_out := read_from_gen acquire_frame f input.

Record read_out := mkRO {
  ro_res : result fhdr;      (* the *FrameHeader handed to the caller, or the error *)
  ro_used : N;
  ro_alloc : N;
  ro_events : list pool_ev }.

(* fr := AcquireFrameHeader(); fr.maxLen = max; _, err := fr.ReadFrom(br);
   if err != nil { if fr.Body() != nil { ReleaseFrameHeader(fr) } else { frameHeaderPool.Put(fr) }; fr = nil } *)
Definition finish_read (r : rf_out) : read_out :=
  let evs := Acq PFrameHeader oid_header :: rf_events r in
  match rf_err r with
  | Ok _ => mkRO (Ok (rf_f r)) (rf_used r) (rf_alloc r) evs
  | Err e =>
      mkRO (Err e) (rf_used r) (rf_alloc r)
           (evs ++ match fh_body (rf_f r) with
                   | Some _ => [Rel PFrame oid_frame; Rel PFrameHeader oid_header]
                   | None => [Rel PFrameHeader oid_header]
                   end)
  | Panic w => mkRO (Panic w) (rf_used r) (rf_alloc r) evs
  end.

Definition read_frame_with_size (max : N) (input : bytes) : read_out :=
  finish_read (read_from (set_maxlen acquire_header max) input).

(* ReadFrameFrom: the same without the fr.maxLen = max line *)
Definition read_frame (input : bytes) : read_out := finish_read (read_from acquire_header input).

(* ---- the pools: what the objects held before ---- *)

(* FrameHeader.Reset: kind, flags, stream, length zeroed, maxLen = defaultMaxLen, fr = nil,
   payload = payload[:0] *)
Definition header_reset (f : fhdr) : fhdr :=
  mkFH 0 0%Z 0 0 c_defaultMaxLen (takeN 0 (fh_payload f)) None.

(* Reset of each frame type. Ping.Reset clears ack only: data keeps what it held. *)
Definition body_reset (b : body) : body :=
  match b with
  | BData _ _ d => BData false false (takeN 0 d)
  | BHeaders _ _ _ _ _ _ raw => BHeaders false 0 0 false false false (takeN 0 raw)
  | BPriority _ _ => BPriority 0 0
  | BRstStream _ => BRstStream 0
  | BSettings st =>
      BSettings (mkSt false (takeN 0 (st_raw st)) c_defaultHeaderTableSize false c_defaultConcurrentStreams
                      c_defaultWindowSize c_defaultDataFrameSize 0 false 0)
  | BPushPromise _ _ _ hdr => BPushPromise false false 0 (takeN 0 hdr)
  | BPing _ data => BPing false data
  | BGoAway _ _ d => BGoAway 0 0 (takeN 0 d)
  | BWindowUpdate _ => BWindowUpdate 0%Z
  | BContinuation _ raw => BContinuation false (takeN 0 raw)
  end.

(* What the pools will hand out next: a used FrameHeader (None: the pool is empty and New
   makes &FrameHeader{}), and per frame type a used body (None: New). Any state a caller
   can have left in them. *)
Record pools := mkPools { p_header : option fhdr; p_frame : Z -> option body }.

Definition new_header : fhdr := mkFH 0 0%Z 0 0 0 [] None.   (* &FrameHeader{} *)

(* AcquireFrameHeader: Get, Reset *)
Definition acquire_header_from (p : option fhdr) : fhdr :=
  header_reset (match p with Some f => f | None => new_header end).

(* AcquireFrame(ftype): framePools[ftype].Get(), Reset *)
Definition acquire_frame_from (pf : Z -> option body) (kind : Z) : result body :=
  if (kind <? 0)%Z || (Z.of_N c_FrameContinuation <? kind)%Z then Panic P_index
  else match pf kind with
       | Some prev => Ok (body_reset prev)
       | None => acquire_frame kind
       end.

(* ReadFrameFromWithSize(br, max) (lim = Some max) / ReadFrameFrom(br) (lim = None) on pools
   in state ps *)
Definition read_frame_pooled (ps : pools) (lim : option N) (input : bytes) : read_out :=
  let f0 := acquire_header_from (p_header ps) in
  let f1 := match lim with Some m => set_maxlen f0 m | None => f0 end in
  finish_read (read_from_gen (acquire_frame_from (p_frame ps)) f1 input).

(* the objects a call hands to its caller *)
Definition handed (r : read_out) : list obj :=
  match ro_res r with
  | Ok f => (PFrameHeader, oid_header) :: match fh_body f with Some _ => [(PFrame, oid_frame)] | None => [] end
  | _ => []
  end.

(* ---- Serialize, per type; padn is the pad length AddPadding draws. Every Serialize
   sets and clears the flags its type defines from the frame value and leaves the other
   bits of the header's flags alone; only Settings changes its own state (rawSettings). ---- *)

Definition serialize (f : fhdr) (bd : body) (padn : N) : result (fhdr * body) :=
  match bd with
  | BData es hp b =>
      let f1 := set_flags f (with_flag (with_flag (fh_flags f) c_FlagEndStream es) c_FlagPadded hp) in
      (* fr.setPayload(data.b); if hasPadding { fr.payload = AddPadding(fr.payload) } *)
      if hp then
        do b' <- add_padding b padn;
        Ok (set_payload f1 b', bd)
      else Ok (set_payload f1 b, bd)
  | BHeaders hp st w es eh pr raw =>
      let fl := with_flag (with_flag (with_flag (with_flag (fh_flags f) c_FlagEndStream es) c_FlagEndHeaders eh)
                                     c_FlagPriority pr) c_FlagPadded hp in
      let f1 := set_flags f fl in
      let p1 := (if pr then uint32_to_bytes (N.land st mask31) ++ [w] else []) ++ raw in
      if hp then
        do p2 <- add_padding p1 padn;
        Ok (set_payload f1 p2, bd)
      else Ok (set_payload f1 p1, bd)
  | BPriority st w => Ok (set_payload f (uint32_to_bytes st ++ [w]), bd)
  | BRstStream c => Ok (set_length (set_payload f (uint32_to_bytes c)) 4, bd)
  | BSettings st =>
      let f1 := set_flags f (with_flag (fh_flags f) c_FlagAck (st_ack st)) in
      if st_ack st then Ok (set_payload f1 [], bd)
      else
        let raw := settings_encode st in
        Ok (set_payload f1 raw, BSettings (st_set_raw st raw))
  | BPushPromise pad ended st hdr =>
      let f1 := set_flags f (with_flag (with_flag (fh_flags f) c_FlagEndHeaders ended) c_FlagPadded false) in
      Ok (set_payload f1 (uint32_to_bytes (N.land st mask31) ++ hdr), bd)
  | BPing ack data =>
      Ok (set_payload (set_flags f (with_flag (fh_flags f) c_FlagAck ack)) data, bd)
  | BGoAway st c data => Ok (set_payload f (uint32_to_bytes st ++ uint32_to_bytes c ++ data), bd)
  | BWindowUpdate inc => Ok (set_length (set_payload f (uint32_to_bytes (of_signed 32 inc))) 4, bd)
  | BContinuation eh raw =>
      Ok (set_payload (set_flags f (with_flag (fh_flags f) c_FlagEndHeaders eh)) raw, bd)
  end.

(* WriteTo: f.fr.Serialize(f); f.length = len(f.payload); f.parseHeader(f.rawHeader[:]);
   w.Write(f.rawHeader[:]); w.Write(f.payload). Returns the bytes written and the
   FrameHeader afterwards (Serialize changes both the header and the body). *)
Definition write_to (f : fhdr) (padn : N) : result (bytes * fhdr) :=
  match fh_body f with
  | None => Panic P_nil
  | Some bd =>
      do sb <- serialize f bd padn;
      let '(f1, bd1) := sb in
      let f2 := put_body (set_length f1 (len (fh_payload f1))) (Some bd1) in
      Ok (parse_header_bytes f2 ++ fh_payload f2, f2)
  end.

(* the frame a caller builds: AcquireFrameHeader, SetFlags, SetStream, SetBody *)
Definition build (flags stream : N) (bd : body) : fhdr :=
  set_body (set_stream (set_flags acquire_header flags) stream) bd.

(* the same on a FrameHeader in any state: one that has been read into, or written from,
   before (its payload buffer, length, kind, flags, stream, body whatever they were) *)
Definition build_on (prev : fhdr) (flags stream : N) (bd : body) : fhdr :=
  set_body (set_stream (set_flags prev flags) stream) bd.
