(* Model of /repo/serverConn.go (+ stream.go, streams.go): the read loop and the
   stream loop as step functions over events, at the grain of parsed frames.
   Definitions only. The HPACK coder is a parameter of the section (instantiated
   with Impl/Hpack.v in Impl/ServerInst.v); frame parsing is Impl/Frames.v's
   business and enters here as already-parsed frame views.

   Go function                      model
   ------------------------------  ----------------------------------------
   readLoop body                    rl_step
   checkFrameWithStream             check_frame_with_stream
   handleSettings / handlePing      inside rl_step
   forward                          forward
   handleStreams: case fr           sl_frame
   handleStreams: case handlerDone  sl_done
   handleStreams: case timer        sl_timer
   closeIdleConn / case closer      idle_fire / (sl_closer in step)
   markClosed releaseStream closeStream canCloseAfterGoAway   same names
   handleFrame verifyState handleState handleHeaderFrame validateRequestPseudoHeaders
   consumeRecvWindow creditConnWindow writeReset writeGoAway writeError
   dispatchHandler finishRequest refillPending sendData flushStreams          same names *)
From H2V Require Import Base.Bytes Base.MachineInt Base.Result Gen.GenConsts.
From Coq Require Import ZArith.
Local Open Scope N_scope.

(* ---------- frames as the server sees them after ReadFrameFromWithSize ---------- *)

Inductive fkind : Type :=
| KData | KHeaders | KPriority | KRst | KSettings | KPush | KPing | KGoAway | KWinUpd | KCont.

Definition fkind_eqb (a b : fkind) : bool :=
  match a, b with
  | KData, KData | KHeaders, KHeaders | KPriority, KPriority | KRst, KRst
  | KSettings, KSettings | KPush, KPush | KPing, KPing | KGoAway, KGoAway
  | KWinUpd, KWinUpd | KCont, KCont => true
  | _, _ => false
  end.

Record sframe : Type := mkSFrame {
  sf_kind : fkind;
  sf_flags : N;          (* the raw flags byte: the server tests bits on every frame type *)
  sf_sid : N;
  sf_len : N;            (* fr.Len(): payload length on the wire, padding included *)
  sf_payload : bytes;    (* DATA: data without padding; HEADERS/CONTINUATION: block fragment; PING: data *)
  sf_dep : N;            (* HEADERS: Headers.Stream() (0 without priority section); PRIORITY: dependency *)
  sf_code : N;           (* RST_STREAM / GOAWAY error code *)
  sf_inc : N;            (* WINDOW_UPDATE increment (31 bits) *)
  sf_set_hastable : bool; (* SETTINGS: Has(HeaderTableSize) *)
  sf_set_table : N;      (* SETTINGS after Reset+Read: HeaderTableSize() *)
  sf_set_haswin : bool;  (* hasWindowSize *)
  sf_set_win : N         (* windowSize *)
}.

Definition FL_ES : N := 1.   (* FlagEndStream / FlagAck *)
Definition FL_EH : N := 4.   (* FlagEndHeaders *)
Definition flag_has (fl m : N) : bool := N.land fl m =? m.

(* what the read loop gets from ReadFrameFromWithSize *)
Inductive rl_input : Type :=
| RFrame (fr : sframe)
| RUnknownType                 (* ErrUnknownFrameType: discarded *)
| RBadFrame (code : option N)  (* Deserialize/size error; Some c = an Error with frameType GOAWAY *)
| RLEof.                        (* io.EOF or any transport error *)

(* ---------- outputs ---------- *)

Record request : Type := mkReq {
  rq_method : bytes;
  rq_uri : bytes;
  rq_scheme : bytes;
  rq_authority : option bytes;
  rq_fields : list (bytes * bytes);   (* regular fields in arrival order (trailers included) *)
  rq_body : bytes
}.

Inductive outev : Type :=
| OHeaders (sid : N) (es : bool) (block : bytes)
| OData (sid : N) (es : bool) (payload : bytes)
| ORst (sid code : N)
| OGoAway (last code : N)
| OWinUpd (sid : N) (inc : Z)
| OSettingsAck
| OPingAck (data : bytes)
| ODispatch (sid : N) (rq : request)       (* the handler goroutine is started with this request *)
| ORelease (sid : N) (withctx : bool)      (* releaseStream: stream (and its ctx) go back to their pools *)
| OExit (who : N) (why : N)                (* a loop ends. who: 0 read loop, 1 stream loop *)
| OLate (o : outev)                        (* queued after the stream loop ended: sc.write picks between the
                                              writer queue and writeStop at random, so it may or may not be sent *)
| OPanic (who : N) (why : N).

(* ---------- handler responses (event payload, scripted in the harness) ---------- *)

Inductive rerr : Type := RNil | REof | RFail.

Inductive rbody : Type :=
| BBuffered (b : bytes)
| BStream (reads : list (bytes * rerr)) (size : Z).  (* size = Response.Header.ContentLength(); < 0 unknown *)

Record response : Type := mkResp {
  rs_status : N;                        (* Response.Header.StatusCode() *)
  rs_fields : list (bytes * bytes);     (* res.Header.All() after SetContentLength/Del, names as given *)
  rs_body : rbody
}.

(* ---------- streams ---------- *)

Inductive sstate : Type := SIdle | SReserved | SOpen | SHalfClosed | SClosed.
Definition sstate_rank (s : sstate) : N :=
  match s with SIdle => 0 | SReserved => 1 | SOpen => 2 | SHalfClosed => 3 | SClosed => 4 end.
Definition sstate_eqb (a b : sstate) : bool := sstate_rank a =? sstate_rank b.

Record stream : Type := mkStream {
  st_id : N;
  st_window : Z;
  st_state : sstate;
  st_orig : fkind;
  st_started : Z;
  st_headersFinished : bool;
  st_prev : bytes;                 (* previousHeaderBytes *)
  st_pMethod : bool; st_pScheme : bool; st_pPath : bool; st_pAuth : bool;
  st_regularSeen : bool;
  st_contentLength : Z; st_hasCL : bool; st_recvBody : Z;
  st_headerListSize : Z;
  st_blockFields : N;
  st_path : bytes;
  st_req : request;
  st_pending : bytes; st_pendingEnd : bool;
  st_bodyStream : option (list (bytes * rerr));
  st_bodySize : Z; st_bodyRead : Z;
  st_responded : bool; st_handlerRunning : bool; st_abandoned : bool;
  st_weReset : bool                (* the server itself reset the stream *)
}.

Definition empty_req : request := mkReq [] [] [104; 116; 116; 112; 115] (* "https" *) None [] [].

Definition new_stream (id : N) (win : Z) : stream :=
  mkStream id win SIdle KData 0 false [] false false false false false 0 false 0 0 0 [] empty_req
           [] false None 0 0 false false false false.

(* record updates, written out (no library dependency) *)
Definition set_state (s : stream) (st : sstate) : stream :=
  mkStream (st_id s) (st_window s) st (st_orig s) (st_started s) (st_headersFinished s) (st_prev s)
    (st_pMethod s) (st_pScheme s) (st_pPath s) (st_pAuth s) (st_regularSeen s) (st_contentLength s) (st_hasCL s)
    (st_recvBody s) (st_headerListSize s) (st_blockFields s) (st_path s) (st_req s) (st_pending s) (st_pendingEnd s)
    (st_bodyStream s) (st_bodySize s) (st_bodyRead s) (st_responded s) (st_handlerRunning s) (st_abandoned s) (st_weReset s).
Definition set_window (s : stream) (w : Z) : stream :=
  mkStream (st_id s) w (st_state s) (st_orig s) (st_started s) (st_headersFinished s) (st_prev s)
    (st_pMethod s) (st_pScheme s) (st_pPath s) (st_pAuth s) (st_regularSeen s) (st_contentLength s) (st_hasCL s)
    (st_recvBody s) (st_headerListSize s) (st_blockFields s) (st_path s) (st_req s) (st_pending s) (st_pendingEnd s)
    (st_bodyStream s) (st_bodySize s) (st_bodyRead s) (st_responded s) (st_handlerRunning s) (st_abandoned s) (st_weReset s).
Definition set_orig_started (s : stream) (k : fkind) (t : Z) : stream :=
  mkStream (st_id s) (st_window s) (st_state s) k t (st_headersFinished s) (st_prev s)
    (st_pMethod s) (st_pScheme s) (st_pPath s) (st_pAuth s) (st_regularSeen s) (st_contentLength s) (st_hasCL s)
    (st_recvBody s) (st_headerListSize s) (st_blockFields s) (st_path s) (st_req s) (st_pending s) (st_pendingEnd s)
    (st_bodyStream s) (st_bodySize s) (st_bodyRead s) (st_responded s) (st_handlerRunning s) (st_abandoned s) (st_weReset s).
(* the header-decoding part of a stream *)
Record hdr : Type := mkHdr {
  hd_headersFinished : bool; hd_prev : bytes;
  hd_pMethod : bool; hd_pScheme : bool; hd_pPath : bool; hd_pAuth : bool; hd_regularSeen : bool;
  hd_contentLength : Z; hd_hasCL : bool; hd_headerListSize : Z; hd_blockFields : N; hd_path : bytes; hd_req : request
}.
Definition get_hdr (s : stream) : hdr :=
  mkHdr (st_headersFinished s) (st_prev s) (st_pMethod s) (st_pScheme s) (st_pPath s) (st_pAuth s) (st_regularSeen s)
        (st_contentLength s) (st_hasCL s) (st_headerListSize s) (st_blockFields s) (st_path s) (st_req s).
Definition set_hdr (s : stream) (h : hdr) : stream :=
  mkStream (st_id s) (st_window s) (st_state s) (st_orig s) (st_started s) (hd_headersFinished h) (hd_prev h)
    (hd_pMethod h) (hd_pScheme h) (hd_pPath h) (hd_pAuth h) (hd_regularSeen h) (hd_contentLength h) (hd_hasCL h)
    (st_recvBody s) (hd_headerListSize h) (hd_blockFields h) (hd_path h) (hd_req h) (st_pending s) (st_pendingEnd s)
    (st_bodyStream s) (st_bodySize s) (st_bodyRead s) (st_responded s) (st_handlerRunning s) (st_abandoned s) (st_weReset s).
Definition set_recv (s : stream) (recv : Z) (rq : request) : stream :=
  mkStream (st_id s) (st_window s) (st_state s) (st_orig s) (st_started s) (st_headersFinished s) (st_prev s)
    (st_pMethod s) (st_pScheme s) (st_pPath s) (st_pAuth s) (st_regularSeen s) (st_contentLength s) (st_hasCL s)
    recv (st_headerListSize s) (st_blockFields s) (st_path s) rq (st_pending s) (st_pendingEnd s)
    (st_bodyStream s) (st_bodySize s) (st_bodyRead s) (st_responded s) (st_handlerRunning s) (st_abandoned s) (st_weReset s).
(* the response-sending part of a stream *)
Record sendst : Type := mkSnd {
  sn_window : Z; sn_pending : bytes; sn_pendingEnd : bool;
  sn_bodyStream : option (list (bytes * rerr)); sn_bodySize : Z; sn_bodyRead : Z
}.
Definition get_snd (s : stream) : sendst :=
  mkSnd (st_window s) (st_pending s) (st_pendingEnd s) (st_bodyStream s) (st_bodySize s) (st_bodyRead s).
Definition set_snd (s : stream) (n : sendst) : stream :=
  mkStream (st_id s) (sn_window n) (st_state s) (st_orig s) (st_started s) (st_headersFinished s) (st_prev s)
    (st_pMethod s) (st_pScheme s) (st_pPath s) (st_pAuth s) (st_regularSeen s) (st_contentLength s) (st_hasCL s)
    (st_recvBody s) (st_headerListSize s) (st_blockFields s) (st_path s) (st_req s) (sn_pending n) (sn_pendingEnd n)
    (sn_bodyStream n) (sn_bodySize n) (sn_bodyRead n) (st_responded s) (st_handlerRunning s) (st_abandoned s) (st_weReset s).
Definition set_flags (s : stream) (responded running abandoned : bool) : stream :=
  mkStream (st_id s) (st_window s) (st_state s) (st_orig s) (st_started s) (st_headersFinished s) (st_prev s)
    (st_pMethod s) (st_pScheme s) (st_pPath s) (st_pAuth s) (st_regularSeen s) (st_contentLength s) (st_hasCL s)
    (st_recvBody s) (st_headerListSize s) (st_blockFields s) (st_path s) (st_req s) (st_pending s) (st_pendingEnd s)
    (st_bodyStream s) (st_bodySize s) (st_bodyRead s) responded running abandoned (st_weReset s).

Definition set_weReset (s : stream) : stream :=
  mkStream (st_id s) (st_window s) (st_state s) (st_orig s) (st_started s) (st_headersFinished s) (st_prev s)
    (st_pMethod s) (st_pScheme s) (st_pPath s) (st_pAuth s) (st_regularSeen s) (st_contentLength s) (st_hasCL s)
    (st_recvBody s) (st_headerListSize s) (st_blockFields s) (st_path s) (st_req s) (st_pending s) (st_pendingEnd s)
    (st_bodyStream s) (st_bodySize s) (st_bodyRead s) (st_responded s) (st_handlerRunning s) (st_abandoned s) true.

Definition has_more_to_send (s : stream) : bool :=
  negb (match st_pending s with [] => true | _ => false end)
  || match st_bodyStream s with Some _ => true | None => false end.

(* ---------- errors (type Error{code, frameType}) ---------- *)

Inductive h2err : Type :=
| EGoAway (code : N)
| EReset (code : N)
| EPanic.              (* not an error value: the goroutine panics; handleStreams recovers and returns *)

(* ---------- configuration ---------- *)

Record config : Type := mkCfg {
  cf_maxStreams : Z;           (* sc.st.maxStreams *)
  cf_maxHeaderList : Z;        (* sc.maxHeaderList *)
  cf_maxBody : Z;              (* sc.maxRequestBodySize *)
  cf_maxRequestTime : Z;       (* sc.maxRequestTime; <= 0: requests do not time out *)
  cf_maxWindow : Z             (* sc.maxWindow *)
}.

Definition MAXWIN : Z := 2147483647.   (* 1<<31 - 1 *)
Definition maxDataFrameSize : N := 16384.
Definition closedStrmsCap : N := 256.

(* header names the server looks for *)
Definition S_method : bytes := [58; 109; 101; 116; 104; 111; 100].
Definition S_path : bytes := [58; 112; 97; 116; 104].
Definition S_scheme : bytes := [58; 115; 99; 104; 101; 109; 101].
Definition S_authority : bytes := [58; 97; 117; 116; 104; 111; 114; 105; 116; 121].
Definition S_status : bytes := [58; 115; 116; 97; 116; 117; 115].
Definition S_te : bytes := [116; 101].
Definition S_trailers : bytes := [116; 114; 97; 105; 108; 101; 114; 115].
Definition S_content_length : bytes := [99; 111; 110; 116; 101; 110; 116; 45; 108; 101; 110; 103; 116; 104].
Definition S_connection : bytes := [99; 111; 110; 110; 101; 99; 116; 105; 111; 110].
Definition S_keep_alive : bytes := [107; 101; 101; 112; 45; 97; 108; 105; 118; 101].
Definition S_proxy_connection : bytes := [112; 114; 111; 120; 121; 45; 99; 111; 110; 110; 101; 99; 116; 105; 111; 110].
Definition S_transfer_encoding : bytes :=
  [116; 114; 97; 110; 115; 102; 101; 114; 45; 101; 110; 99; 111; 100; 105; 110; 103].
Definition S_upgrade : bytes := [117; 112; 103; 114; 97; 100; 101].

(* strings.go *)
Definition has_upper_case (b : bytes) : bool := existsb (fun c => (65 <=? c) && (c <=? 90)) b.
Definition is_connection_specific (k : bytes) : bool :=
  bytes_eqb k S_connection || bytes_eqb k S_keep_alive || bytes_eqb k S_proxy_connection
  || bytes_eqb k S_transfer_encoding || bytes_eqb k S_upgrade.
Definition to_lower (b : bytes) : bytes := map (fun c => if (65 <=? c) && (c <=? 90) then N.lor c 32 else c) b.

Definition MAXINT : Z := 9223372036854775807.
(* parseUint: None = errInvalidUint *)
Fixpoint parse_uint_loop (b : bytes) (n : Z) : option Z :=
  match b with
  | [] => Some n
  | c :: rest =>
    if (c <? 48) || (57 <? c) then None
    else
      let d := Z.of_N (c - 48) in
      if Z.ltb (Z.div (MAXINT - d) 10) n then None
      else parse_uint_loop rest (n * 10 + d)
  end.
Definition parse_uint (b : bytes) : option Z :=
  match b with [] => None | _ => parse_uint_loop b 0 end.

(* statusBytes: the decimal form of a three-digit status; anything else is 500 *)
Definition status_bytes (code : N) : bytes :=
  let c := if (code <? 100) || (999 <? code) then 500 else code in
  [48 + c / 100; 48 + (c / 10) mod 10; 48 + c mod 10].

Section Server.

(* ---------- the HPACK coder (parameter) ---------- *)
Variable hstate : Type.
Inductive dec_res : Type :=
| DField (name value : bytes) (rest : bytes) (st : hstate)   (* a field was decoded *)
| DNone (st : hstate)                                        (* b ran out before a field started *)
| DShort (st : hstate)                                       (* ErrUnexpectedSize *)
| DFail (st : hstate)                                        (* any other decoding error *)
| DPanic.                                                    (* the decoder would panic (index out of range) *)
(* dec.nextField(hf, true, fieldsProcessed, b) *)
Variable dec_field : hstate -> N -> bytes -> dec_res.
(* enc.AppendHeader(dst, hf, store) with hf not sensitive: appended bytes and new state *)
Variable enc_field : hstate -> bytes -> bytes -> bool -> bytes * hstate.
(* enc.SetMaxTableSize *)
Variable enc_set_max : hstate -> N -> hstate.

(* ---------- connection state ---------- *)

Record sconn : Type := mkConn {
  sc_strms : list stream;   (* the stream table, in order *)
  sc_gone : list stream;   (* closed while their handler runs (abandoned), out of the table *)
  sc_open : Z;   (* openStreams *)
  sc_initWin : Z;   (* curInitialWindow *)
  sc_ring : list (N * bool);   (* closedRing with closedStrms' value: (id, reset by the server) *)
  sc_oldest : N;   (* closedOldest *)
  sc_lastID : N;
  sc_highestID : N;   (* highest id the peer has used to open a stream, accepted or refused *)
  sc_clientWindow : Z;
  sc_currentWindow : Z;
  sc_enc : hstate;
  sc_dec : hstate;
  sc_closing : bool;   (* sc.state == connStateClosed *)
  sc_closeRef : N;
  sc_expectCont : N;   (* read loop's expectContinuation *)
  sc_readerQ : list sframe;   (* sc.reader *)
  sc_rl_done : bool;
  sc_sl_done : bool;
  sc_closer : bool;   (* closer has been closed *)
  sc_wl_dead : bool;   (* the write loop has returned: queued frames are dropped *)
  sc_now : Z;
  sc_discardID : N;   (* stream whose header block is being decoded and thrown away *)
  sc_discardPrev : bytes;
  sc_discardFields : N;
  sc_out : list outev   (* everything emitted, newest first *)
}.

Definition upd_out (c : sconn) (o : list outev) : sconn :=
  mkConn (sc_strms c) (sc_gone c) (sc_open c) (sc_initWin c) (sc_ring c) (sc_oldest c) (sc_lastID c) (sc_highestID c) (sc_clientWindow c) (sc_currentWindow c) (sc_enc c) (sc_dec c) (sc_closing c) (sc_closeRef c) (sc_expectCont c) (sc_readerQ c) (sc_rl_done c) (sc_sl_done c) (sc_closer c) (sc_wl_dead c) (sc_now c) (sc_discardID c) (sc_discardPrev c) (sc_discardFields c) o.
Definition upd_strms (c : sconn) (l : list stream) : sconn :=
  mkConn l (sc_gone c) (sc_open c) (sc_initWin c) (sc_ring c) (sc_oldest c) (sc_lastID c) (sc_highestID c) (sc_clientWindow c) (sc_currentWindow c) (sc_enc c) (sc_dec c) (sc_closing c) (sc_closeRef c) (sc_expectCont c) (sc_readerQ c) (sc_rl_done c) (sc_sl_done c) (sc_closer c) (sc_wl_dead c) (sc_now c) (sc_discardID c) (sc_discardPrev c) (sc_discardFields c) (sc_out c).
Definition upd_gone (c : sconn) (l : list stream) : sconn :=
  mkConn (sc_strms c) l (sc_open c) (sc_initWin c) (sc_ring c) (sc_oldest c) (sc_lastID c) (sc_highestID c) (sc_clientWindow c) (sc_currentWindow c) (sc_enc c) (sc_dec c) (sc_closing c) (sc_closeRef c) (sc_expectCont c) (sc_readerQ c) (sc_rl_done c) (sc_sl_done c) (sc_closer c) (sc_wl_dead c) (sc_now c) (sc_discardID c) (sc_discardPrev c) (sc_discardFields c) (sc_out c).
Definition upd_open (c : sconn) (n : Z) : sconn :=
  mkConn (sc_strms c) (sc_gone c) n (sc_initWin c) (sc_ring c) (sc_oldest c) (sc_lastID c) (sc_highestID c) (sc_clientWindow c) (sc_currentWindow c) (sc_enc c) (sc_dec c) (sc_closing c) (sc_closeRef c) (sc_expectCont c) (sc_readerQ c) (sc_rl_done c) (sc_sl_done c) (sc_closer c) (sc_wl_dead c) (sc_now c) (sc_discardID c) (sc_discardPrev c) (sc_discardFields c) (sc_out c).
Definition upd_initWin (c : sconn) (n : Z) : sconn :=
  mkConn (sc_strms c) (sc_gone c) (sc_open c) n (sc_ring c) (sc_oldest c) (sc_lastID c) (sc_highestID c) (sc_clientWindow c) (sc_currentWindow c) (sc_enc c) (sc_dec c) (sc_closing c) (sc_closeRef c) (sc_expectCont c) (sc_readerQ c) (sc_rl_done c) (sc_sl_done c) (sc_closer c) (sc_wl_dead c) (sc_now c) (sc_discardID c) (sc_discardPrev c) (sc_discardFields c) (sc_out c).
Definition upd_ring (c : sconn) (r : list (N * bool)) (o : N) : sconn :=
  mkConn (sc_strms c) (sc_gone c) (sc_open c) (sc_initWin c) r o (sc_lastID c) (sc_highestID c) (sc_clientWindow c) (sc_currentWindow c) (sc_enc c) (sc_dec c) (sc_closing c) (sc_closeRef c) (sc_expectCont c) (sc_readerQ c) (sc_rl_done c) (sc_sl_done c) (sc_closer c) (sc_wl_dead c) (sc_now c) (sc_discardID c) (sc_discardPrev c) (sc_discardFields c) (sc_out c).
Definition upd_lastID (c : sconn) (n : N) : sconn :=
  mkConn (sc_strms c) (sc_gone c) (sc_open c) (sc_initWin c) (sc_ring c) (sc_oldest c) n (sc_highestID c) (sc_clientWindow c) (sc_currentWindow c) (sc_enc c) (sc_dec c) (sc_closing c) (sc_closeRef c) (sc_expectCont c) (sc_readerQ c) (sc_rl_done c) (sc_sl_done c) (sc_closer c) (sc_wl_dead c) (sc_now c) (sc_discardID c) (sc_discardPrev c) (sc_discardFields c) (sc_out c).
Definition upd_clientWindow (c : sconn) (n : Z) : sconn :=
  mkConn (sc_strms c) (sc_gone c) (sc_open c) (sc_initWin c) (sc_ring c) (sc_oldest c) (sc_lastID c) (sc_highestID c) n (sc_currentWindow c) (sc_enc c) (sc_dec c) (sc_closing c) (sc_closeRef c) (sc_expectCont c) (sc_readerQ c) (sc_rl_done c) (sc_sl_done c) (sc_closer c) (sc_wl_dead c) (sc_now c) (sc_discardID c) (sc_discardPrev c) (sc_discardFields c) (sc_out c).
Definition upd_currentWindow (c : sconn) (n : Z) : sconn :=
  mkConn (sc_strms c) (sc_gone c) (sc_open c) (sc_initWin c) (sc_ring c) (sc_oldest c) (sc_lastID c) (sc_highestID c) (sc_clientWindow c) n (sc_enc c) (sc_dec c) (sc_closing c) (sc_closeRef c) (sc_expectCont c) (sc_readerQ c) (sc_rl_done c) (sc_sl_done c) (sc_closer c) (sc_wl_dead c) (sc_now c) (sc_discardID c) (sc_discardPrev c) (sc_discardFields c) (sc_out c).
Definition upd_enc (c : sconn) (h : hstate) : sconn :=
  mkConn (sc_strms c) (sc_gone c) (sc_open c) (sc_initWin c) (sc_ring c) (sc_oldest c) (sc_lastID c) (sc_highestID c) (sc_clientWindow c) (sc_currentWindow c) h (sc_dec c) (sc_closing c) (sc_closeRef c) (sc_expectCont c) (sc_readerQ c) (sc_rl_done c) (sc_sl_done c) (sc_closer c) (sc_wl_dead c) (sc_now c) (sc_discardID c) (sc_discardPrev c) (sc_discardFields c) (sc_out c).
Definition upd_dec (c : sconn) (h : hstate) : sconn :=
  mkConn (sc_strms c) (sc_gone c) (sc_open c) (sc_initWin c) (sc_ring c) (sc_oldest c) (sc_lastID c) (sc_highestID c) (sc_clientWindow c) (sc_currentWindow c) (sc_enc c) h (sc_closing c) (sc_closeRef c) (sc_expectCont c) (sc_readerQ c) (sc_rl_done c) (sc_sl_done c) (sc_closer c) (sc_wl_dead c) (sc_now c) (sc_discardID c) (sc_discardPrev c) (sc_discardFields c) (sc_out c).
Definition upd_closing (c : sconn) (b : bool) (ref : N) : sconn :=
  mkConn (sc_strms c) (sc_gone c) (sc_open c) (sc_initWin c) (sc_ring c) (sc_oldest c) (sc_lastID c) (sc_highestID c) (sc_clientWindow c) (sc_currentWindow c) (sc_enc c) (sc_dec c) b ref (sc_expectCont c) (sc_readerQ c) (sc_rl_done c) (sc_sl_done c) (sc_closer c) (sc_wl_dead c) (sc_now c) (sc_discardID c) (sc_discardPrev c) (sc_discardFields c) (sc_out c).
Definition upd_expectCont (c : sconn) (n : N) : sconn :=
  mkConn (sc_strms c) (sc_gone c) (sc_open c) (sc_initWin c) (sc_ring c) (sc_oldest c) (sc_lastID c) (sc_highestID c) (sc_clientWindow c) (sc_currentWindow c) (sc_enc c) (sc_dec c) (sc_closing c) (sc_closeRef c) n (sc_readerQ c) (sc_rl_done c) (sc_sl_done c) (sc_closer c) (sc_wl_dead c) (sc_now c) (sc_discardID c) (sc_discardPrev c) (sc_discardFields c) (sc_out c).
Definition upd_readerQ (c : sconn) (q : list sframe) : sconn :=
  mkConn (sc_strms c) (sc_gone c) (sc_open c) (sc_initWin c) (sc_ring c) (sc_oldest c) (sc_lastID c) (sc_highestID c) (sc_clientWindow c) (sc_currentWindow c) (sc_enc c) (sc_dec c) (sc_closing c) (sc_closeRef c) (sc_expectCont c) q (sc_rl_done c) (sc_sl_done c) (sc_closer c) (sc_wl_dead c) (sc_now c) (sc_discardID c) (sc_discardPrev c) (sc_discardFields c) (sc_out c).
Definition upd_done (c : sconn) (rl sl : bool) : sconn :=
  mkConn (sc_strms c) (sc_gone c) (sc_open c) (sc_initWin c) (sc_ring c) (sc_oldest c) (sc_lastID c) (sc_highestID c) (sc_clientWindow c) (sc_currentWindow c) (sc_enc c) (sc_dec c) (sc_closing c) (sc_closeRef c) (sc_expectCont c) (sc_readerQ c) rl sl (sc_closer c) (sc_wl_dead c) (sc_now c) (sc_discardID c) (sc_discardPrev c) (sc_discardFields c) (sc_out c).
Definition upd_closer (c : sconn) (b : bool) : sconn :=
  mkConn (sc_strms c) (sc_gone c) (sc_open c) (sc_initWin c) (sc_ring c) (sc_oldest c) (sc_lastID c) (sc_highestID c) (sc_clientWindow c) (sc_currentWindow c) (sc_enc c) (sc_dec c) (sc_closing c) (sc_closeRef c) (sc_expectCont c) (sc_readerQ c) (sc_rl_done c) (sc_sl_done c) b (sc_wl_dead c) (sc_now c) (sc_discardID c) (sc_discardPrev c) (sc_discardFields c) (sc_out c).
Definition upd_wl_dead (c : sconn) (b : bool) : sconn :=
  mkConn (sc_strms c) (sc_gone c) (sc_open c) (sc_initWin c) (sc_ring c) (sc_oldest c) (sc_lastID c) (sc_highestID c) (sc_clientWindow c) (sc_currentWindow c) (sc_enc c) (sc_dec c) (sc_closing c) (sc_closeRef c) (sc_expectCont c) (sc_readerQ c) (sc_rl_done c) (sc_sl_done c) (sc_closer c) b (sc_now c) (sc_discardID c) (sc_discardPrev c) (sc_discardFields c) (sc_out c).
Definition upd_now (c : sconn) (t : Z) : sconn :=
  mkConn (sc_strms c) (sc_gone c) (sc_open c) (sc_initWin c) (sc_ring c) (sc_oldest c) (sc_lastID c) (sc_highestID c) (sc_clientWindow c) (sc_currentWindow c) (sc_enc c) (sc_dec c) (sc_closing c) (sc_closeRef c) (sc_expectCont c) (sc_readerQ c) (sc_rl_done c) (sc_sl_done c) (sc_closer c) (sc_wl_dead c) t (sc_discardID c) (sc_discardPrev c) (sc_discardFields c) (sc_out c).
Definition upd_highestID (c : sconn) (n : N) : sconn :=
  mkConn (sc_strms c) (sc_gone c) (sc_open c) (sc_initWin c) (sc_ring c) (sc_oldest c) (sc_lastID c) n (sc_clientWindow c) (sc_currentWindow c) (sc_enc c) (sc_dec c) (sc_closing c) (sc_closeRef c) (sc_expectCont c) (sc_readerQ c) (sc_rl_done c) (sc_sl_done c) (sc_closer c) (sc_wl_dead c) (sc_now c) (sc_discardID c) (sc_discardPrev c) (sc_discardFields c) (sc_out c).
Definition upd_discard (c : sconn) (id : N) (prev : bytes) (n : N) : sconn :=
  mkConn (sc_strms c) (sc_gone c) (sc_open c) (sc_initWin c) (sc_ring c) (sc_oldest c) (sc_lastID c) (sc_highestID c) (sc_clientWindow c) (sc_currentWindow c) (sc_enc c) (sc_dec c) (sc_closing c) (sc_closeRef c) (sc_expectCont c) (sc_readerQ c) (sc_rl_done c) (sc_sl_done c) (sc_closer c) (sc_wl_dead c) (sc_now c) id prev n (sc_out c).

Definition init_conn (cfg : config) (h0 : hstate) : sconn :=
  mkConn [] [] 0 65535 [] 0 0 0 65535 (cf_maxWindow cfg) h0 h0 false 0 0 [] false false false false 0 0 [] 0 [].

(* sc.write(fr): the frame reaches the peer unless the write loop has gone *)
Definition emit (c : sconn) (o : outev) : sconn :=
  if sc_wl_dead c then c
  else if sc_sl_done c then upd_out c (OLate o :: sc_out c)
  else upd_out c (o :: sc_out c).
(* trace items that are not frames (dispatch, release, exit) are always recorded *)
Definition note (c : sconn) (o : outev) : sconn := upd_out c (o :: sc_out c).

(* ---------- Streams ---------- *)

Fixpoint strms_search (l : list stream) (id : N) : option stream :=
  match l with
  | [] => None
  | s :: t => if st_id s =? id then Some s else strms_search t id
  end.
(* Streams.Del: removes the first stream with that id *)
Fixpoint strms_del (l : list stream) (id : N) : list stream :=
  match l with
  | [] => []
  | s :: t => if st_id s =? id then t else s :: strms_del t id
  end.
(* write a stream back over the first one with its id (the table holds pointers) *)
Fixpoint strms_put (l : list stream) (x : stream) : list stream :=
  match l with
  | [] => []
  | s :: t => if st_id s =? st_id x then x :: t else s :: strms_put t x
  end.
Definition put (c : sconn) (x : stream) : sconn := upd_strms c (strms_put (sc_strms c) x).

(* Streams.getPrevious(FrameHeaders): the last but one stream opened by HEADERS *)
Definition get_previous_headers (l : list stream) : option stream :=
  match filter (fun s => fkind_eqb (st_orig s) KHeaders) (rev l) with
  | _ :: p :: _ => Some p
  | _ => None
  end.

(* ---------- markClosed / releaseStream / closeStream ---------- *)

Definition in_ring (c : sconn) (id : N) : bool := existsb (fun e => N.eqb id (fst e)) (sc_ring c).
(* closedStrms[id]: Some weReset when the id is remembered *)
Definition ring_find (c : sconn) (id : N) : option bool :=
  match find (fun e => N.eqb id (fst e)) (sc_ring c) with Some e => Some (snd e) | None => None end.

Fixpoint set_nth_N (l : list (N * bool)) (i : nat) (x : N * bool) : list (N * bool) :=
  match l, i with
  | [], _ => []
  | _ :: t, O => x :: t
  | h :: t, S i' => h :: set_nth_N t i' x
  end.

Definition mark_closed (c : sconn) (id : N) (weReset : bool) : sconn :=
  if in_ring c id then c
  else if N.of_nat (length (sc_ring c)) <? closedStrmsCap then upd_ring c (sc_ring c ++ [(id, weReset)]) (sc_oldest c)
  else upd_ring c (set_nth_N (sc_ring c) (N.to_nat (sc_oldest c)) (id, weReset)) ((sc_oldest c + 1) mod closedStrmsCap).

Definition release_stream (c : sconn) (s : stream) : sconn :=
  let c1 := if fkind_eqb (st_orig s) KHeaders then upd_open c (sc_open c - 1) else c in
  note c1 (ORelease (st_id s) true).

(* closeStream; the stream's current value is passed in (the caller holds the pointer) *)
Definition close_stream (c : sconn) (s : stream) : sconn :=
  let c1 := mark_closed c (st_id s) (st_weReset s) in
  let c2 := upd_strms c1 (strms_del (sc_strms c1) (st_id s)) in
  (* reset while its header block is still arriving: the rest of the block is decoded and discarded *)
  let c2 := if st_weReset s && negb (st_headersFinished s) && negb (sc_discardID c2 =? st_id s)
            then upd_discard c2 (st_id s) (st_prev s) (st_blockFields s) else c2 in
  (* closeBodyStream *)
  let s1 := set_snd s (mkSnd (st_window s) (st_pending s) (st_pendingEnd s) None (st_bodySize s) (st_bodyRead s)) in
  if st_handlerRunning s1 then
    upd_gone c2 (set_flags s1 (st_responded s1) true true :: sc_gone c2)
  else release_stream c2 s1.

Definition can_close_after_goaway (c : sconn) : bool :=
  if sc_closeRef c =? 0 then false
  else negb (existsb (fun s => fkind_eqb (st_orig s) KHeaders && (st_id s <=? sc_closeRef c)) (sc_strms c)).

(* ---------- writeReset / writeGoAway / writeError / window updates ---------- *)

Definition write_reset (c : sconn) (sid code : N) : sconn := emit c (ORst sid code).

(* resetStream: the reset is the server's doing; returns the stream with the flag set *)
Definition reset_stream (c : sconn) (s : stream) (code : N) : sconn * stream :=
  (write_reset c (st_id s) code, set_weReset s).

Definition write_goaway (c : sconn) (sid code : N) : sconn :=
  let last := sc_lastID c in
  let c1 := upd_closing c true (if sid =? 0 then sc_closeRef c else last) in
  emit c1 (OGoAway last code).

(* writeError(strm, err) for an h2 Error; returns the connection and the stream *)
Definition write_error (c : sconn) (s : option stream) (e : h2err) : sconn * option stream :=
  match e, s with
  | EGoAway code, None => (write_goaway c 0 code, None)
  | EGoAway code, Some st => (write_goaway c (st_id st) code, Some (set_state st SClosed))
  | EReset code, None => (write_goaway c 0 code, None)
  | EReset code, Some st => (write_reset c (st_id st) code, Some (set_state (set_weReset st) SClosed))
  | EPanic, _ => (c, s)
  end.

Definition write_window_update (c : sconn) (sid : N) (inc : Z) : sconn := emit c (OWinUpd sid inc).

Definition credit_conn_window (cfg : config) (c : sconn) (n : Z) : sconn :=
  if (n <=? 0)%Z then c
  else
    let cur := (sc_currentWindow c - n)%Z in
    if (cur <? cf_maxWindow cfg / 2)%Z then
      write_window_update (upd_currentWindow c (cf_maxWindow cfg)) 0 (cf_maxWindow cfg - cur)
    else upd_currentWindow c cur.

Definition consume_recv_window (cfg : config) (c : sconn) (s : stream) (fr : sframe) (n : Z) : sconn :=
  if (n <=? 0)%Z then c
  else
    let c1 := if flag_has (sf_flags fr) FL_ES then c else write_window_update c (st_id s) n in
    credit_conn_window cfg c1 n.

(* ---------- handleHeaderFrame ---------- *)

Definition is_pseudo (k : bytes) : bool := match k with 58 :: _ => true | _ => false end.

Definition rq_set_method (r : request) (v : bytes) := mkReq v (rq_uri r) (rq_scheme r) (rq_authority r) (rq_fields r) (rq_body r).
Definition rq_set_uri (r : request) (v : bytes) := mkReq (rq_method r) v (rq_scheme r) (rq_authority r) (rq_fields r) (rq_body r).
Definition rq_set_scheme (r : request) (v : bytes) := mkReq (rq_method r) (rq_uri r) v (rq_authority r) (rq_fields r) (rq_body r).
Definition rq_set_authority (r : request) (v : bytes) := mkReq (rq_method r) (rq_uri r) (rq_scheme r) (Some v) (rq_fields r) (rq_body r).
Definition rq_add_field (r : request) (k v : bytes) := mkReq (rq_method r) (rq_uri r) (rq_scheme r) (rq_authority r) (rq_fields r ++ [(k, v)]) (rq_body r).
Definition rq_append_body (r : request) (d : bytes) := mkReq (rq_method r) (rq_uri r) (rq_scheme r) (rq_authority r) (rq_fields r) (rq_body r ++ d).

(* one decoded field: the validation and bookkeeping of the loop body.
   Left e: the function returns e at once; Right h: carry on with the next field *)
Definition header_field (cfg : config) (h : hdr) (k v : bytes) : h2err + hdr :=
  let size := (hd_headerListSize h + Z.of_N (len k) + Z.of_N (len v) + 32)%Z in
  let h1 := mkHdr (hd_headersFinished h) (hd_prev h) (hd_pMethod h) (hd_pScheme h) (hd_pPath h) (hd_pAuth h)
                  (hd_regularSeen h) (hd_contentLength h) (hd_hasCL h) size (hd_blockFields h) (hd_path h) (hd_req h) in
  if ((0 <? cf_maxHeaderList cfg) && (cf_maxHeaderList cfg <? size))%Z then inl (EGoAway c_EnhanceYourCalm)
  else if has_upper_case k then inl (EReset c_ProtocolError)
  else if is_pseudo k then
    if hd_regularSeen h1 then inl (EReset c_ProtocolError)
    else
      let bump (x : hdr) := mkHdr (hd_headersFinished x) (hd_prev x) (hd_pMethod x) (hd_pScheme x) (hd_pPath x) (hd_pAuth x)
                  (hd_regularSeen x) (hd_contentLength x) (hd_hasCL x) (hd_headerListSize x) (hd_blockFields x + 1) (hd_path x) (hd_req x) in
      if bytes_eqb k S_method then
        if hd_pMethod h1 then inl (EReset c_ProtocolError)
        else inr (bump (mkHdr (hd_headersFinished h1) (hd_prev h1) true (hd_pScheme h1) (hd_pPath h1) (hd_pAuth h1)
                  (hd_regularSeen h1) (hd_contentLength h1) (hd_hasCL h1) size (hd_blockFields h1) (hd_path h1)
                  (rq_set_method (hd_req h1) v)))
      else if bytes_eqb k S_path then
        if hd_pPath h1 then inl (EReset c_ProtocolError)
        else inr (bump (mkHdr (hd_headersFinished h1) (hd_prev h1) (hd_pMethod h1) (hd_pScheme h1) true (hd_pAuth h1)
                  (hd_regularSeen h1) (hd_contentLength h1) (hd_hasCL h1) size (hd_blockFields h1) v
                  (rq_set_uri (hd_req h1) v)))
      else if bytes_eqb k S_scheme then
        if hd_pScheme h1 then inl (EReset c_ProtocolError)
        else inr (bump (mkHdr (hd_headersFinished h1) (hd_prev h1) (hd_pMethod h1) true (hd_pPath h1) (hd_pAuth h1)
                  (hd_regularSeen h1) (hd_contentLength h1) (hd_hasCL h1) size (hd_blockFields h1) (hd_path h1)
                  (rq_set_scheme (hd_req h1) v)))
      else if bytes_eqb k S_authority then
        if hd_pAuth h1 then inl (EReset c_ProtocolError)
        else inr (bump (mkHdr (hd_headersFinished h1) (hd_prev h1) (hd_pMethod h1) (hd_pScheme h1) (hd_pPath h1) true
                  (hd_regularSeen h1) (hd_contentLength h1) (hd_hasCL h1) size (hd_blockFields h1) (hd_path h1)
                  (rq_set_authority (hd_req h1) v)))
      else inl (EReset c_ProtocolError)
  else
    (* a regular field *)
    if is_connection_specific k then inl (EReset c_ProtocolError)
    else if bytes_eqb k S_te && negb (bytes_eqb v S_trailers) then inl (EReset c_ProtocolError)
    else
      let cl :=
        if bytes_eqb k S_content_length then
          match parse_uint v with
          | Some n =>
            if ((0 <? cf_maxBody cfg) && (cf_maxBody cfg <? n))%Z then inl (EReset c_EnhanceYourCalm)
            else if hd_hasCL h1 && negb (n =? hd_contentLength h1)%Z then inl (EReset c_ProtocolError)
            else inr (n, true)
          | None => inl (EReset c_ProtocolError)
          end
        else inr (hd_contentLength h1, hd_hasCL h1) in
      match cl with
      | inl e => inl e
      | inr (n, hascl) =>
        inr (mkHdr (hd_headersFinished h1) (hd_prev h1) (hd_pMethod h1) (hd_pScheme h1) (hd_pPath h1) (hd_pAuth h1)
                   true n hascl size (hd_blockFields h1 + 1) (hd_path h1) (rq_add_field (hd_req h1) k v))
      end.

(* the decoding loop of handleHeaderFrame. fuel >= length b + 1: every DField consumes input.
   Note: a stream error returns at once, leaving the rest of the block undecoded. *)
Fixpoint header_loop (fuel : nat) (cfg : config) (eh : bool) (d : hstate) (h : hdr) (b : bytes)
  : hstate * hdr * option h2err * bytes :=
  match fuel with
  | O => (d, h, Some (EGoAway c_InternalError), [])   (* unreachable: fuel = length b + 1 *)
  | S fuel' =>
    match b with
    | [] => (d, h, None, [])
    | _ =>
      match dec_field d (hd_blockFields h) b with
      | DNone d' => (d', h, None, [])
      | DShort d' =>
        if negb eh then
          (d', mkHdr (hd_headersFinished h) (hd_prev h ++ b) (hd_pMethod h) (hd_pScheme h) (hd_pPath h) (hd_pAuth h)
                     (hd_regularSeen h) (hd_contentLength h) (hd_hasCL h) (hd_headerListSize h) (hd_blockFields h)
                     (hd_path h) (hd_req h), None, [])
        else (d', h, Some (EGoAway c_CompressionError), [])
      | DFail d' => (d', h, Some (EGoAway c_CompressionError), [])
      | DPanic => (d, h, Some EPanic, [])
      | DField k v rest d' =>
        match header_field cfg h k v with
        | inl e => (d', h, Some e, rest)       (* a stream error: rest is what is left of this frame *)
        | inr h' => header_loop fuel' cfg eh d' h' rest
        end
      end
    end
  end.

(* discardFragment: decode and throw away. Returns the decoder, the fields counted, what a
   frame boundary cut off, and the error if the block does not decode. *)
Fixpoint discard_loop (fuel : nat) (eh : bool) (d : hstate) (fields : N) (b : bytes)
  : hstate * N * bytes * option h2err :=
  match fuel with
  | O => (d, fields, [], Some (EGoAway c_InternalError))   (* unreachable: fuel = length b + 1 *)
  | S fuel' =>
    match b with
    | [] => (d, fields, [], None)
    | _ =>
      match dec_field d fields b with
      | DNone d' => (d', fields, [], None)
      | DShort d' => if negb eh then (d', fields, b, None) else (d', fields, [], Some (EGoAway c_CompressionError))
      | DFail d' => (d', fields, [], Some (EGoAway c_CompressionError))
      | DPanic => (d, fields, [], Some EPanic)
      | DField _ _ rest d' => discard_loop fuel' eh d' (fields + 1) rest
      end
    end
  end.

Definition discard_fragment (cfg : config) (c : sconn) (id : N) (fragment : bytes) (eh : bool) : sconn * option h2err :=
  let b := sc_discardPrev c ++ fragment in
  let '(d', fields, carry, e) := discard_loop (S (length b)) eh (sc_dec c) (sc_discardFields c) b in
  let c1 := upd_dec c d' in
  match e with
  | Some e => (upd_discard c1 0 [] fields, Some e)
  | None =>
    if eh then (upd_discard c1 0 [] fields, None)
    else
      let c2 := upd_discard c1 id carry fields in
      if ((0 <? cf_maxHeaderList cfg) && (cf_maxHeaderList cfg <? Z.of_N (len carry)))%Z
      then (c2, Some (EGoAway c_EnhanceYourCalm)) else (c2, None)
  end.

(* discardHeaderBlock: a whole HEADERS or CONTINUATION frame nobody wants *)
Definition discard_header_block (cfg : config) (c : sconn) (fr : sframe) : sconn * option h2err :=
  let c0 := if fkind_eqb (sf_kind fr) KCont then c else upd_discard c (sc_discardID c) [] 0 in
  discard_fragment cfg c0 (sf_sid fr) (sf_payload fr) (flag_has (sf_flags fr) FL_EH).

Definition set_headers_finished (s : stream) (b : bool) : stream :=
  let h := get_hdr s in
  set_hdr s (mkHdr b (hd_prev h) (hd_pMethod h) (hd_pScheme h) (hd_pPath h) (hd_pAuth h) (hd_regularSeen h)
                   (hd_contentLength h) (hd_hasCL h) (hd_headerListSize h) (hd_blockFields h) (hd_path h) (hd_req h)).

Definition handle_header_frame (cfg : config) (c : sconn) (s : stream) (fr : sframe) : sconn * stream * option h2err :=
  (* a second block on the stream is a trailer: HEADERS with END_STREAM; the headers are unfinished again while it lasts *)
  if st_headersFinished s && (negb (fkind_eqb (sf_kind fr) KHeaders) || negb (flag_has (sf_flags fr) FL_ES))
  then (c, s, Some (EGoAway c_ProtocolError))
  else if fkind_eqb (sf_kind fr) KHeaders && (sf_dep fr =? st_id s)
  then (c, set_headers_finished s false, Some (EGoAway c_ProtocolError))
  else
    let h0 := get_hdr s in
    let h1 := mkHdr false [] (hd_pMethod h0) (hd_pScheme h0) (hd_pPath h0) (hd_pAuth h0)
                    (hd_regularSeen h0 || hd_headersFinished h0) (* no pseudo-headers in trailers *)
                    (hd_contentLength h0) (hd_hasCL h0) (hd_headerListSize h0)
                    (if fkind_eqb (sf_kind fr) KCont then hd_blockFields h0 else 0) (hd_path h0) (hd_req h0) in
    let b := hd_prev h0 ++ sf_payload fr in
    let eh := flag_has (sf_flags fr) FL_EH in
    let '(d', h2, e, rest) := header_loop (S (length b)) cfg eh (sc_dec c) h1 b in
    let c1 := upd_dec c d' in
    let s1 := set_hdr s h2 in
    match e with
    | Some (EReset code) =>
      (* failHeaderBlock: the stream is lost, the rest of its block is still decoded *)
      let c2 := upd_discard c1 (sc_discardID c1) [] (hd_blockFields h2 + 1) in
      match discard_fragment cfg c2 (st_id s) rest eh with
      | (c3, Some de) => (c3, s1, Some de)
      | (c3, None) => (c3, s1, Some (EReset code))
      end
    | Some e => (c1, s1, Some e)
    | None =>
      if ((0 <? cf_maxHeaderList cfg) && (cf_maxHeaderList cfg <? Z.of_N (len (hd_prev h2))))%Z
      then (c1, s1, Some (EGoAway c_EnhanceYourCalm))
      else (c1, s1, None)
    end.

Definition validate_request_pseudo_headers (s : stream) : option h2err :=
  if negb (st_pMethod s) || negb (st_pScheme s) || negb (st_pPath s) then Some (EReset c_ProtocolError)
  else match st_path s with [] => Some (EReset c_ProtocolError) | _ => None end.

(* ---------- verifyState / handleFrame / handleState ---------- *)

Definition continuing_headers (s : stream) (fr : sframe) : bool :=
  fkind_eqb (sf_kind fr) KCont && negb (st_headersFinished s).

Definition verify_state (s : stream) (fr : sframe) : option h2err :=
  match st_state s with
  | SIdle =>
    if fkind_eqb (sf_kind fr) KHeaders || fkind_eqb (sf_kind fr) KPriority then None
    else Some (EGoAway c_ProtocolError)
  | SHalfClosed =>
    if continuing_headers s fr then None
    else if fkind_eqb (sf_kind fr) KWinUpd || fkind_eqb (sf_kind fr) KPriority || fkind_eqb (sf_kind fr) KRst then None
    else Some (EGoAway c_StreamClosedError)
  | _ => None
  end.

Definition handle_frame (cfg : config) (c : sconn) (s : stream) (fr : sframe) : sconn * stream * option h2err :=
  match verify_state s fr with
  | Some e => (c, s, Some e)
  | None =>
    match sf_kind fr with
    | KHeaders | KCont =>
      if (3 <=? sstate_rank (st_state s)) && negb (continuing_headers s fr) then (c, s, Some (EGoAway c_ProtocolError))
      else
        let '(c1, s1, e) := handle_header_frame cfg c s fr in
        match e with
        | Some e => (c1, s1, Some e)
        | None =>
          if flag_has (sf_flags fr) FL_EH then
            let fin := match st_prev s1 with [] => true | _ => false end in
            let s2 := set_headers_finished s1 fin in
            if negb fin then (c1, s2, Some (EGoAway c_ProtocolError))
            else
              match validate_request_pseudo_headers s2 with
              | Some e => (c1, s2, Some e)
              | None => (c1, s2, None)
              end
          else (c1, s1, None)
        end
    | KData =>
      if negb (st_headersFinished s) then (c, s, Some (EGoAway c_ProtocolError))
      else if 3 <=? sstate_rank (st_state s) then (c, s, Some (EGoAway c_StreamClosedError))
      else
        let recv := (st_recvBody s + Z.of_N (len (sf_payload fr)))%Z in
        if ((0 <? cf_maxBody cfg) && (cf_maxBody cfg <? recv))%Z then
          (credit_conn_window cfg c (Z.of_N (sf_len fr)), set_recv s recv (st_req s), Some (EReset c_EnhanceYourCalm))
        else
          let s1 := set_recv s recv (rq_append_body (st_req s) (sf_payload fr)) in
          (consume_recv_window cfg c s1 fr (Z.of_N (sf_len fr)), s1, None)
    | KRst =>
      if sstate_eqb (st_state s) SIdle then (c, s, Some (EGoAway c_ProtocolError)) else (c, s, None)
    | KPriority =>
      if negb (sstate_eqb (st_state s) SIdle) && negb (st_headersFinished s) then (c, s, Some (EGoAway c_ProtocolError))
      else if sf_dep fr =? st_id s then (c, s, Some (EGoAway c_ProtocolError))
      else (c, s, None)
    | KWinUpd =>
      if sstate_eqb (st_state s) SIdle then (c, s, Some (EGoAway c_ProtocolError))
      else if sf_inc fr =? 0 then (c, s, Some (EGoAway c_ProtocolError))
      else
        let w := (st_window s + Z.of_N (sf_inc fr))%Z in
        let s1 := set_window s w in
        if (MAXWIN <? w)%Z then (c, s1, Some (EReset c_FlowControlError)) else (c, s1, None)
    | _ => (c, s, Some (EGoAway c_ProtocolError))
    end
  end.

Definition handle_state (fr : sframe) (s : stream) : stream :=
  let s0 := if fkind_eqb (sf_kind fr) KRst then set_state s SClosed else s in
  match st_state s0 with
  | SIdle =>
    if fkind_eqb (sf_kind fr) KHeaders then
      if flag_has (sf_flags fr) FL_ES then set_state s0 SHalfClosed else set_state s0 SOpen
    else s0
  | SOpen =>
    if (fkind_eqb (sf_kind fr) KData || fkind_eqb (sf_kind fr) KHeaders) && flag_has (sf_flags fr) FL_ES
    then set_state s0 SHalfClosed
    else if fkind_eqb (sf_kind fr) KRst then set_state s0 SClosed else s0
  | SHalfClosed => if fkind_eqb (sf_kind fr) KRst then set_state s0 SClosed else s0
  | _ => s0
  end.

(* ---------- sending the response ---------- *)

(* refillPending: Some n' = ok, None = the reader failed *)
Definition refill_pending (n : sendst) : option sendst :=
  match sn_bodyStream n with
  | None => Some n
  | Some reads =>
    let '(chunk, err, rest) :=
      match reads with
      | [] => ([], REof, [])
      | (ch, e) :: t => (ch, e, t)
      end in
    let got := Z.of_N (len chunk) in
    let pend := match chunk with [] => sn_pending n | _ => chunk end in
    let read := (sn_bodyRead n + got)%Z in
    let fin (e : bool) :=
      let e' := e || ((0 <=? sn_bodySize n) && (sn_bodySize n <=? read))%Z in
      Some (mkSnd (sn_window n) pend e' (Some rest) (sn_bodySize n) read) in
    match err with
    | REof => fin true
    | RFail => None
    | RNil => match chunk with [] => None | _ => fin (sn_pendingEnd n) end
    end
  end.

Definition zmin (a b : Z) : Z := if (a <? b)%Z then a else b.

(* sendData. Returns true when the whole response flag_has been queued.
   fuel: see send_data_fuel; every iteration either queues >= 1 byte or takes a scripted read. *)
Fixpoint send_data_loop (fuel : nat) (c : sconn) (sid : N) (n : sendst) : sconn * sendst * bool * bool (* reset by us *) :=
  match fuel with
  | O => (c, n, false, false)
  | S fuel' =>
    let go (c : sconn) (n : sendst) :=
      let avail := zmin (sn_window n) (sc_clientWindow c) in
      if (avail <=? 0)%Z then (c, n, false, false)
      else
        let step := zmin (zmin (Z.of_N maxDataFrameSize) avail) (Z.of_N (len (sn_pending n))) in
        let chunk := takeN (Z.to_N step) (sn_pending n) in
        let rest := dropN (Z.to_N step) (sn_pending n) in
        let e := sn_pendingEnd n && match rest with [] => true | _ => false end in
        let c1 := emit c (OData sid e chunk) in
        let c2 := upd_clientWindow c1 (sc_clientWindow c1 - step) in
        let n' := mkSnd (sn_window n - step) rest (sn_pendingEnd n) (sn_bodyStream n) (sn_bodySize n) (sn_bodyRead n) in
        (* if end { break }: nothing follows END_STREAM *)
        if e then (c2, n', true, false) else send_data_loop fuel' c2 sid n' in
    match sn_pending n with
    | [] =>
      match sn_bodyStream n with
      | None => (c, n, true, false)
      | Some _ =>
        match refill_pending n with
        | None =>
          (* closeBodyStream; RST_STREAM(INTERNAL_ERROR) *)
          (write_reset c sid c_InternalError,
           mkSnd (sn_window n) (sn_pending n) (sn_pendingEnd n) None (sn_bodySize n) (sn_bodyRead n), true, true)
        | Some n1 =>
          match sn_pending n1 with
          | [] =>
            let c1 := if sn_pendingEnd n1 then emit c (OData sid true []) else c in
            (c1, n1, true, false)
          | _ => go c n1
          end
        end
      end
    | _ => go c n
    end
  end.

Definition send_data_fuel (n : sendst) : nat :=
  N.to_nat (len (sn_pending n) / maxDataFrameSize)
  + 3 * (match sn_bodyStream n with Some r => length r | None => 0 end) + 4
  + match sn_bodyStream n with
    | Some r => N.to_nat (fold_right (fun x acc => len (fst x) / maxDataFrameSize + 1 + acc) 0 r)
    | None => 0
    end.

Definition send_data (c : sconn) (s : stream) : sconn * stream * bool :=
  let '(c1, n1, done, weReset) := send_data_loop (send_data_fuel (get_snd s)) c (st_id s) (get_snd s) in
  let n2 := if done then mkSnd (sn_window n1) (sn_pending n1) (sn_pendingEnd n1) None (sn_bodySize n1) (sn_bodyRead n1) else n1 in
  let s1 := set_snd s n2 in
  (c1, if weReset then set_weReset s1 else s1, done).

(* fasthttpResponseHeaders: :status (stored), then every field lower-cased (not stored) *)
Fixpoint enc_fields (e : hstate) (l : list (bytes * bytes)) : bytes * hstate :=
  match l with
  | [] => ([], e)
  | (k, v) :: t =>
    let '(b1, e1) := enc_field e (to_lower k) v false in
    let '(b2, e2) := enc_fields e1 t in
    (b1 ++ b2, e2)
  end.

Definition response_block (e : hstate) (r : response) : bytes * hstate :=
  let '(b1, e1) := enc_field e S_status (status_bytes (rs_status r)) true in
  let '(b2, e2) := enc_fields e1 (rs_fields r) in
  (b1 ++ b2, e2).

Definition finish_request (c : sconn) (s : stream) (r : response) : sconn * stream * bool :=
  let hasBody := match rs_body r with BStream _ _ => true | BBuffered [] => false | BBuffered _ => true end in
  let '(blk, e') := response_block (sc_enc c) r in
  let c1 := emit (upd_enc c e') (OHeaders (st_id s) (negb hasBody) blk) in
  if negb hasBody then (c1, s, true)
  else
    let n :=
      match rs_body r with
      | BStream reads size => mkSnd (st_window s) [] false (Some reads) size 0
      | BBuffered b => mkSnd (st_window s) b true (st_bodyStream s) (st_bodySize s) (st_bodyRead s)
      end in
    send_data c1 (set_snd s n).

(* flushStreams *)
Fixpoint flush_loop (c : sconn) (ids : list N) (done : list N) : sconn * list N :=
  match ids with
  | [] => (c, done)
  | id :: t =>
    match strms_search (sc_strms c) id with
    | None => flush_loop c t done
    | Some s =>
      if st_responded s && negb (st_handlerRunning s) && has_more_to_send s then
        let '(c1, s1, fin) := send_data c s in
        flush_loop (put c1 s1) t (if fin then done ++ [id] else done)
      else flush_loop c t done
    end
  end.

Fixpoint close_all (c : sconn) (ids : list N) : sconn :=
  match ids with
  | [] => c
  | id :: t =>
    match strms_search (sc_strms c) id with
    | None => close_all c t
    | Some s => close_all (close_stream c (set_state s SClosed)) t
    end
  end.

Definition flush_streams (c : sconn) : sconn :=
  let '(c1, done) := flush_loop c (map st_id (sc_strms c)) [] in
  close_all c1 done.

(* ---------- the stream loop: one sframe ---------- *)

(* true = break loop *)
Definition brk (c : sconn) : sconn * bool := (note (upd_done c (sc_rl_done c) true) (OExit 1 0), true).
Definition cont (c : sconn) : sconn * bool := (c, false).

(* RFC 5.1.1 loop at the head of the table: idle HEADERS-opened streams below strm are closed *)
Fixpoint implicit_close (fuel : nat) (c : sconn) (sid : N) : sconn :=
  match fuel with
  | O => c
  | S fuel' =>
    match sc_strms c with
    | n :: _ =>
      if (st_id n <? sid) && sstate_eqb (st_state n) SIdle && fkind_eqb (st_orig n) KHeaders then
        let c1 := close_stream c (set_state (set_weReset n) SClosed) in
        implicit_close fuel' (write_reset c1 (st_id n) c_StreamCanceled) sid
      else c
    | [] => c
    end
  end.

Definition after_frame (cfg : config) (c : sconn) (s : stream) (fr : sframe) (wasClosing : bool) : sconn * bool :=
  let s1 := handle_state fr s in
  let '(c2, s2) :=
    if sstate_eqb (st_state s1) SHalfClosed && st_headersFinished s1 && negb (st_responded s1) then
      let s2 := set_flags s1 true (st_handlerRunning s1) (st_abandoned s1) in
      if st_hasCL s2 && negb (st_recvBody s2 =? st_contentLength s2)%Z then
        (write_reset c (st_id s2) c_ProtocolError, set_state (set_weReset s2) SClosed)
      else
        (note c (ODispatch (st_id s2) (st_req s2)), set_flags s2 true true (st_abandoned s2))
    else if st_responded s1 && negb (st_handlerRunning s1) && has_more_to_send s1 then
      let '(c1, s2, fin) := send_data c s1 in
      (c1, if fin then set_state s2 SClosed else s2)
    else (c, s1) in
  let c3 := if sstate_eqb (st_state s2) SClosed then close_stream (put c2 s2) s2 else put c2 s2 in
  if wasClosing && can_close_after_goaway c3 then brk c3 else cont c3.

(* if err := sc.discardHeaderBlock(fr); err != nil { sc.writeError(nil, err); break loop }; continue *)
Definition discard_or_break (r : sconn * option h2err) : sconn * bool :=
  match r with
  | (c1, Some EPanic) => brk (note c1 (OPanic 1 0))
  | (c1, Some e) => brk (fst (write_error c1 None e))
  | (c1, None) => cont c1
  end.

Definition sl_frame (cfg : config) (c : sconn) (fr : sframe) : sconn * bool :=
  if sf_sid fr =? 0 then
    match sf_kind fr with
    | KSettings =>
      let c0 := if sf_set_hastable fr then upd_enc c (enc_set_max (sc_enc c) (sf_set_table fr)) else c in
      if sf_set_haswin fr then
        let newInit := signed 32 (sf_set_win fr) in
        let delta := (newInit - sc_initWin c0)%Z in
        let c1 := upd_initWin c0 newInit in
        (* the loop stops at the first stream pushed over the limit, the earlier ones keep the delta *)
        let fix bumpall (pre : list stream) (l : list stream) : list stream * bool :=
          match l with
          | [] => (pre, false)
          | s :: t =>
            let s' := set_window s (st_window s + delta) in
            if (MAXWIN <? st_window s')%Z then (pre ++ s' :: t, true) else bumpall (pre ++ [s']) t
          end in
        let '(l', over) := bumpall [] (sc_strms c1) in
        let c2 := upd_strms c1 l' in
        if over then brk (write_goaway c2 0 c_FlowControlError)
        else cont (flush_streams (emit c2 OSettingsAck))   (* acknowledged once applied, before anything is sent *)
      else cont (emit c0 OSettingsAck)
    | KWinUpd =>
      let w := (sc_clientWindow c + Z.of_N (sf_inc fr))%Z in
      let c1 := upd_clientWindow c w in
      if (MAXWIN <? w)%Z then brk (write_goaway c1 0 c_FlowControlError)
      else cont (flush_streams c1)
    | _ => cont c
    end
  else
    if fkind_eqb (sf_kind fr) KCont && negb (sc_discardID c =? 0) && (sf_sid fr =? sc_discardID c) then
      (* the rest of a header block nobody wants *)
      discard_or_break (discard_header_block cfg c fr)
    else
    let wasClosing := sc_closing c in
    let found := if sf_sid fr <=? sc_lastID c then strms_search (sc_strms c) (sf_sid fr) else None in
    (* the stream to work on, or the outcome if the frame is dealt with without one *)
    let pre : (sconn * bool) + (sconn * stream) :=
      match found with
      | Some s => inr (c, s)
      | None =>
        if fkind_eqb (sf_kind fr) KRst then
          if (sc_lastID c <? sf_sid fr) && (sc_highestID c <? sf_sid fr)
          then inl (cont (write_goaway c (sf_sid fr) c_ProtocolError)) else inl (cont c)
        else if in_ring c (sf_sid fr) then
          let weReset := match ring_find c (sf_sid fr) with Some b => b | None => false end in
          match sf_kind fr with
          | KPriority | KWinUpd | KRst => inl (cont c)
          | KData =>
            if weReset then inl (cont (credit_conn_window cfg c (Z.of_N (sf_len fr))))
            else inl (cont (write_goaway c (sf_sid fr) c_StreamClosedError))
          | KHeaders =>
            if weReset then inl (discard_or_break (discard_header_block cfg c fr))
            else inl (cont (write_goaway c (sf_sid fr) c_StreamClosedError))
          | _ => inl (cont (write_goaway c (sf_sid fr) c_StreamClosedError))
          end
        else if fkind_eqb (sf_kind fr) KPriority then
          if sf_dep fr =? sf_sid fr then inl (cont (write_reset c (sf_sid fr) c_ProtocolError)) else inl (cont c)
        else if fkind_eqb (sf_kind fr) KHeaders && (sf_sid fr <=? sc_highestID c) then
          inl (cont (write_goaway c (sf_sid fr) c_ProtocolError))
        else
        let c := if fkind_eqb (sf_kind fr) KHeaders then upd_highestID c (sf_sid fr) else c in
        if fkind_eqb (sf_kind fr) KHeaders && ((cf_maxStreams cfg <=? sc_open c)%Z || wasClosing) then
          let c1 := mark_closed (write_reset c (sf_sid fr) c_RefusedStreamError) (sf_sid fr) true in
          inl (discard_or_break (discard_header_block cfg c1 fr))
        else if sf_sid fr <? sc_lastID c then inl (cont (write_goaway c (sf_sid fr) c_ProtocolError))
        else
          (* goAwayMu section: sc_closing is read again; in this model nothing can run in between *)
          if fkind_eqb (sf_kind fr) KHeaders && sc_closing c then
            let c1 := mark_closed (write_reset c (sf_sid fr) c_RefusedStreamError) (sf_sid fr) true in
            inl (discard_or_break (discard_header_block cfg c1 fr))
          else
            let c1 := if fkind_eqb (sf_kind fr) KHeaders then upd_lastID c (sf_sid fr) else c in
            let s := set_orig_started (new_stream (sf_sid fr) (sc_initWin c1)) (sf_kind fr) (sc_now c1) in
            let c2 := upd_strms c1 (sc_strms c1 ++ [s]) in
            let c3 := if fkind_eqb (sf_kind fr) KHeaders then upd_open c2 (sc_open c2 + 1) else c2 in
            inr (c3, s)
      end in
    match pre with
    | inl r => r
    | inr (c1, s) =>
      (* HEADERS prelude *)
      let pre2 : (sconn * bool) + sconn :=
        if fkind_eqb (sf_kind fr) KHeaders then
          match get_previous_headers (sc_strms c1) with
          | Some p =>
            if negb (st_headersFinished p) then
              let '(c2, p') := write_error c1 (Some p) (EGoAway c_ProtocolError) in
              inl (cont (match p' with Some p' => put c2 p' | None => c2 end))
            else inr (implicit_close (S (length (sc_strms c1))) c1 (st_id s))
          | None => inr (implicit_close (S (length (sc_strms c1))) c1 (st_id s))
          end
        else inr c1 in
      match pre2 with
      | inl r => r
      | inr c2 =>
        let '(c3, s3, e) := handle_frame cfg c2 s fr in
        match e with
        | Some e =>
          let '(c4, s4) := write_error c3 (Some s3) e in
          let s5 := match s4 with Some x => set_state x SClosed | None => set_state s3 SClosed end in
          match e with
          | EGoAway code => if negb (code =? c_NoError) then brk (put c4 s5) else after_frame cfg c4 s5 fr wasClosing
          | EReset _ => after_frame cfg c4 s5 fr wasClosing
          | EPanic => brk (note c3 (OPanic 1 0))
          end
        | None => after_frame cfg c3 s3 fr wasClosing
        end
      end
    end.

(* ---------- the stream loop: a handler reports back ---------- *)

Fixpoint take_stream (l : list stream) (id : N) : option (stream * list stream) :=
  match l with
  | [] => None
  | s :: t =>
    if st_id s =? id then Some (s, t)
    else match take_stream t id with Some (x, t') => Some (x, s :: t') | None => None end
  end.

Definition sl_done (cfg : config) (c : sconn) (sid : N) (r : response) : sconn * bool :=
  match take_stream (sc_gone c) sid with
  | Some (s, rest) =>
    (* abandoned: already out of the table *)
    cont (release_stream (upd_gone c rest) (set_flags s (st_responded s) false true))
  | None =>
    match strms_search (sc_strms c) sid with
    | None => cont c
    | Some s =>
      if negb (st_handlerRunning s) then cont c
      else
        let s1 := set_flags s (st_responded s) false (st_abandoned s) in
        let '(c1, s2, fin) := finish_request c s1 r in
        let c2 := if fin then close_stream (put c1 (set_state s2 SClosed)) (set_state s2 SClosed) else put c1 s2 in
        if sc_closing c2 && can_close_after_goaway c2 then brk c2 else cont c2
    end
  end.

(* ---------- the stream loop: the request timer ---------- *)

(* deleteUntil counts the due streams at the head first, then closes that many from the head *)
Fixpoint count_due (cfg : config) (now : Z) (l : list stream) : nat :=
  match l with
  | s :: t => if (st_started s + cf_maxRequestTime cfg <? now)%Z then S (count_due cfg now t) else O
  | [] => O
  end.
Fixpoint close_heads (n : nat) (c : sconn) : sconn :=
  match n with
  | O => c
  | S n' =>
    match sc_strms c with
    | s :: _ => close_heads n' (close_stream (write_reset c (st_id s) c_StreamCanceled) (set_state (set_weReset s) SClosed))
    | [] => c   (* strms[0] on an empty table would panic; count_due <= length makes it unreachable *)
    end
  end.

Definition sl_timer (cfg : config) (c : sconn) : sconn * bool :=
  if (cf_maxRequestTime cfg <=? 0)%Z then cont c
  else cont (close_heads (count_due cfg (sc_now c) (sc_strms c)) c).

(* ---------- the read loop ---------- *)

Definition check_frame_with_stream (fr : sframe) : option h2err :=
  if N.land (sf_sid fr) 1 =? 0 then Some (EGoAway c_ProtocolError)
  else match sf_kind fr with
       | KPing | KPush => Some (EGoAway c_ProtocolError)
       | _ => None
       end.

Definition rl_exit (c : sconn) (why : N) : sconn := note (upd_done c true (sc_sl_done c)) (OExit 0 why).

(* forward: false when the stream loop flag_has stopped *)
Definition forward (c : sconn) (fr : sframe) : sconn :=
  if sc_sl_done c then rl_exit c 2 else upd_readerQ c (sc_readerQ c ++ [fr]).

Definition rl_step (cfg : config) (c : sconn) (i : rl_input) : sconn :=
  match i with
  | RLEof => rl_exit c 0
  | RUnknownType =>
    if negb (sc_expectCont c =? 0) then rl_exit (write_goaway c 0 c_ProtocolError) 1 else c
  | RBadFrame (Some code) => rl_exit (write_goaway c 0 code) 1
  | RBadFrame None => rl_exit c 3
  | RFrame fr =>
    let r : sconn + sconn :=     (* inl: exit *)
      if negb (sc_expectCont c =? 0) then
        if negb (fkind_eqb (sf_kind fr) KCont) || negb (sf_sid fr =? sc_expectCont c) then
          inl (rl_exit (write_goaway c 0 c_ProtocolError) 1)
        else if flag_has (sf_flags fr) FL_EH then inr (upd_expectCont c 0) else inr c
      else if fkind_eqb (sf_kind fr) KCont then inl (rl_exit (write_goaway c 0 c_ProtocolError) 1)
      else if fkind_eqb (sf_kind fr) KHeaders && negb (flag_has (sf_flags fr) FL_EH) then inr (upd_expectCont c (sf_sid fr))
      else inr c in
    match r with
    | inl c' => c'
    | inr c1 =>
      if negb (sf_sid fr =? 0) then
        match check_frame_with_stream fr with
        | Some e => rl_exit (fst (write_error c1 None e)) 1
        | None => forward c1 fr
        end
      else
        match sf_kind fr with
        | KSettings =>
          if negb (flag_has (sf_flags fr) FL_ES) then forward c1 fr else c1
        | KWinUpd =>
          if sf_inc fr =? 0 then rl_exit (write_goaway c1 0 c_ProtocolError) 1 else forward c1 fr
        | KPing => if negb (flag_has (sf_flags fr) FL_ES) then emit c1 (OPingAck (sf_payload fr)) else c1
        | KGoAway => rl_exit c1 (if sf_code fr =? c_NoError then 0 else 4)
        | _ => rl_exit (write_goaway c1 0 c_ProtocolError) 1
        end
    end
  end.

(* ---------- events and run ---------- *)

Inductive event : Type :=
| EvRL (i : rl_input)           (* the read loop gets its next frame *)
| EvSL                          (* the stream loop takes the next forwarded sframe *)
| EvDone (sid : N) (r : response)  (* the handler of sid returns *)
| EvClock (t : Z)               (* time passes *)
| EvTimer                       (* maxRequestTimer fires *)
| EvIdle                        (* the idle timer fires: closeIdleConn *)
| EvCloser                      (* the stream loop's select takes the closed closer channel *)
| EvWriteFail.                  (* a write to the socket fails: the write loop returns *)

Definition lift (r : sconn * bool) : sconn := fst r.

Definition step (cfg : config) (c : sconn) (e : event) : sconn :=
  match e with
  | EvRL i => if sc_rl_done c then c else rl_step cfg c i
  | EvSL =>
    if sc_sl_done c then c
    else match sc_readerQ c with
         | [] => if sc_rl_done c then note (upd_done c true true) (OExit 1 1) else c   (* reader closed: return *)
         | fr :: q => lift (sl_frame cfg (upd_readerQ c q) fr)
         end
  | EvDone sid r =>
    if sc_sl_done c then c
    else lift (sl_done cfg c sid r)
  | EvClock t => if (sc_now c <? t)%Z then upd_now c t else c
  | EvTimer => if sc_sl_done c then c else lift (sl_timer cfg c)
  | EvIdle => upd_closer (write_goaway c 0 c_NoError) true
  | EvCloser => if sc_closer c && negb (sc_sl_done c) then lift (brk c) else c
  | EvWriteFail => upd_wl_dead c true
  end.

Definition run (cfg : config) (h0 : hstate) (evs : list event) : sconn :=
  fold_left (step cfg) evs (init_conn cfg h0).

Definition trace (c : sconn) : list outev := rev (sc_out c).

End Server.
