(* Proofs/SrvRfcFrame.v - C08: handleFrame on a stream of the table, frame type by frame type. *)
From H2V Require Import Base.Bytes Base.MachineInt Base.Result Gen.GenConsts Impl.ServerConn.
From H2V Require Import Proofs.SrvBase Proofs.SrvRfcDefs Proofs.SrvRfcSpec Proofs.SrvRfcModel Proofs.SrvRfcSim Proofs.SrvRfcEff
  Proofs.SrvRfcSend Proofs.SrvRfcStep Proofs.SrvRfcKit Proofs.SrvRfcRl Proofs.SrvRfcSl Proofs.SrvRfcKnown.
From Coq Require Import ZArith Lia ZifyN ZifyNat ZifyBool.
Local Open Scope N_scope.

Section Frame.
Variable hstate : Type.
Variable dec_field : hstate -> N -> bytes -> dec_res hstate.
Variable enc_field : hstate -> bytes -> bytes -> bool -> bytes * hstate.
Variable enc_set_max : hstate -> N -> hstate.
Variable cfg : config.
Notation sconn := (sconn hstate).
Notation feed := (feed hstate dec_field enc_field enc_set_max cfg).
Notation G := (G hstate).
Notation view := (view hstate).
Notation tbl := (tbl hstate).
Notation Sim := (Sim hstate).
Notation AuxT := (AuxT hstate).
Notation AuxH := (AuxH hstate).
Notation seq_ok := (seq_ok hstate).
Notation base := (base hstate).
Notation kctx := (kctx hstate).
Notation kfin := (kfin hstate).
Notation hf_eff := (hf_eff hstate).
Implicit Types c : sconn.

(* handleFrame returned a connection error: GOAWAY, and the stream loop ends *)
Lemma known_goaway c s ph fr ec' c2 l' h' cA s5 code :
  Sim c s ph -> sc_sl_done c = false -> kctx c ec' l' h' c2 -> hf_eff c2 cA ->
  feed c (IIn (RFrame fr)) = fst (brk (put (write_goaway cA (sf_sid fr) code) s5)) ->
  (RS.allowed s (RS.Frame (abs_frame fr)) (RS.ConnErr code) = true \/ known_deviation hstate c s (RFrame fr) = true) ->
  G c s ph (RFrame fr) (feed c (IIn (RFrame fr))).
Proof.
  intros HS Hsl KC HE E Ha. pose proof (S_aux _ _ _ _ HS) as [AT AH].
  destruct (kfin_of hstate c ec' l' h' c2 cA Hsl KC HE) as (dq & KF & Qq & Qnd).
  destruct KF as (K1 & K2 & K3 & K4 & K5 & K6 & K7 & K8 & K9 & K10 & K11 & K12).
  apply (G_over hstate dec_field enc_field enc_set_max cfg c s ph (RFrame fr) _ (OExit 1 0 :: OGoAway (sc_lastID cA) code :: dq) E).
  - reflexivity.
  - rewrite sc_out_brk, sc_out_put, sc_out_write_goaway, K7, K9, K12, (A_wl _ _ AT). reflexivity.
  - reflexivity.
  - cbn [abs_input input_sid filter noisy strip_late rev]. rewrite Qq. cbn [rev app]. unfold classify. cbn [first_some is_goaway strip_late]. exact Ha.
  - intros sid rq [H|[H|H]]; try discriminate. exfalso. exact (Qnd sid rq H).
Qed.

Lemma known_panic c s ph fr ec' c2 l' h' cA :
  Sim c s ph -> sc_sl_done c = false -> kctx c ec' l' h' c2 -> hf_eff c2 cA ->
  feed c (IIn (RFrame fr)) = fst (brk (note cA (OPanic 1 0))) ->
  (RS.allowed s (RS.Frame (abs_frame fr)) RS.ConnClose = true \/ known_deviation hstate c s (RFrame fr) = true) ->
  G c s ph (RFrame fr) (feed c (IIn (RFrame fr))).
Proof.
  intros HS Hsl KC HE E Ha. pose proof (S_aux _ _ _ _ HS) as [AT AH].
  destruct (kfin_of hstate c ec' l' h' c2 cA Hsl KC HE) as (dq & KF & Qq & Qnd).
  destruct KF as (K1 & K2 & K3 & K4 & K5 & K6 & K7 & K8 & K9 & K10 & K11 & K12).
  apply (G_over hstate dec_field enc_field enc_set_max cfg c s ph (RFrame fr) _ (OExit 1 0 :: OPanic 1 0 :: dq) E).
  - reflexivity.
  - rewrite sc_out_brk. cbn [sc_out note upd_out]. rewrite K12. reflexivity.
  - reflexivity.
  - cbn [abs_input input_sid filter noisy strip_late rev]. rewrite Qq. cbn [rev app]. rewrite classify_close; [exact Ha | | reflexivity].
    intros o [<-|[<-|[]]]; reflexivity.
  - intros sid rq [H|[H|H]]; try discriminate. exfalso. exact (Qnd sid rq H).
Qed.

(* ---------- the HEADERS prelude does nothing ---------- *)

Lemma get_previous_In l p : get_previous_headers l = Some p -> In p l.
Proof.
  unfold get_previous_headers. intro H.
  destruct (filter (fun s => fkind_eqb (st_orig s) KHeaders) (rev l)) as [|a [|b t]] eqn:F; try discriminate. inversion H; subst.
  assert (X : In p (filter (fun s => fkind_eqb (st_orig s) KHeaders) (rev l))) by (rewrite F; right; left; reflexivity).
  apply filter_In in X. destruct X as [X _]. apply in_rev in X. exact X.
Qed.

Lemma get_previous_snoc old new p : fkind_eqb (st_orig new) KHeaders = true ->
  get_previous_headers (old ++ [new]) = Some p -> In p old.
Proof.
  unfold get_previous_headers. rewrite rev_app_distr. cbn [rev app filter]. intros O H. rewrite O in H.
  destruct (filter (fun s => fkind_eqb (st_orig s) KHeaders) (rev old)) as [|b t] eqn:F; try discriminate. inversion H; subst.
  assert (X : In p (filter (fun s => fkind_eqb (st_orig s) KHeaders) (rev old))) by (rewrite F; left; reflexivity).
  apply filter_In in X. destruct X as [X _]. apply in_rev in X. exact X.
Qed.

Lemma implicit_close_noop k c sid :
  (forall n t, sc_strms c = n :: t -> ((st_id n <? sid) && sstate_eqb (st_state n) SIdle && fkind_eqb (st_orig n) KHeaders)%bool = false) ->
  implicit_close k c sid = c.
Proof.
  intro H. destruct k as [|k]; [reflexivity|]. cbn [implicit_close]. destruct (sc_strms c) as [|n t] eqn:E; [reflexivity|].
  rewrite (H n t eq_refl). reflexivity.
Qed.

(* ---------- what is known about the stream a frame is handled on ---------- *)

Record sfacts c (s : RS.state) (ph : N -> RS.phase) (fr : sframe) (st : stream) (l' h' : N) : Prop := {
  F_id : st_id st = sf_sid fr;
  F_state : st_state st = SIdle \/ st_state st = SOpen \/ st_state st = SHalfClosed;
  F_x : RS.st_of s (sf_sid fr) = abs_st (st_state st);
  F_h1 : st_state st = SIdle -> h' = sf_sid fr /\ sc_highestID c < sf_sid fr /\ sc_closing c = false /\ sf_kind fr = KHeaders /\
                                st_headersFinished st = false /\ st_responded st = false /\ st_handlerRunning st = false /\
                                ph (sf_sid fr) = RS.PStart /\ st_prev st = [] /\ st_pending st = [] /\ st_bodyStream st = None;
  F_h2 : st_state st <> SIdle -> h' = sc_highestID c /\ tbl c (sf_sid fr) = Some st /\ ph (sf_sid fr) = phase_of st /\
                                 (st_headersFinished st = false -> sf_sid fr = sc_expectCont c) /\
                                 (sc_expectCont c = sf_sid fr -> st_headersFinished st = false);
  F_wr : st_weReset st = false;
  F_resp : st_responded st = true \/ st_handlerRunning st = true -> st_state st = SHalfClosed /\ st_headersFinished st = true;
  F_once : st_state st = SHalfClosed -> st_headersFinished st = true -> st_responded st = true;
  F_send : send_ok st
}.

Lemma sfacts_found c s ph fr st : Sim c s ph -> N.odd (sf_sid fr) = true -> tbl c (sf_sid fr) = Some st ->
  sfacts c s ph fr st (sc_lastID c) (sc_highestID c).
Proof.
  intros HS Od T. pose proof (S_aux _ _ _ _ HS) as [AT AH].
  pose proof (search_In _ _ _ T) as HIn. pose proof (search_id _ _ _ T) as Hid.
  destruct (A_st _ _ AT st HIn) as (A & B & C & D).
  pose proof (S_str _ _ _ _ HS _ Od) as R. unfold SrvRfcDefs.view in R. rewrite T in R.
  constructor.
  - exact Hid.
  - destruct A as [A|A]; rewrite A; auto.
  - destruct A as [A|A]; rewrite A in *; cbn [rel abs_st] in *; exact R.
  - intro X. destruct A as [A|A]; congruence.
  - intros _. split; [reflexivity|]. split; [exact T|]. split; [rewrite <- Hid; apply (S_ph _ _ _ _ HS st HIn)|]. split.
    + intro F. rewrite <- Hid. apply (A_fin _ _ AH st HIn F).
    + intro E. apply (A_ec _ _ AH st); [rewrite E; intro Z; rewrite Z in Od; discriminate | rewrite E; exact T].
  - exact B.
  - exact C.
  - exact D.
  - exact (A_snd _ _ AT st HIn).
Qed.

Lemma sfacts_created c s ph fr ec' c2 st : Sim c s ph -> N.odd (sf_sid fr) = true -> tbl c (sf_sid fr) = None ->
  sf_kind fr = KHeaders -> created hstate (upd_expectCont c ec') fr c2 st ->
  sfacts c s ph fr st (sf_sid fr) (sf_sid fr).
Proof.
  intros HS Od Tn KH (-> & Rn & Ll & Hc). rewrite KH in Hc. destruct Hc as (Hgt & Hcl & _).
  change (sc_highestID (upd_expectCont c ec')) with (sc_highestID c) in Hgt. change (sc_closing (upd_expectCont c ec')) with (sc_closing c) in Hcl.
  destruct (proj2 (unknown_state hstate dec_field enc_set_max c s ph _ HS Od Tn) Hgt) as [Hidle _].
  constructor; cbn.
  - reflexivity.
  - left. reflexivity.
  - exact Hidle.
  - intros _. repeat split; auto. apply (S_new _ _ _ _ HS Hcl _ Od Hgt).
  - intro X. congruence.
  - reflexivity.
  - intros [X|X]; discriminate.
  - discriminate.
  - unfold send_ok, has_more_to_send. cbn. discriminate.
Qed.

(* ---------- the part of sl_known after handleFrame ---------- *)

Definition tail (r : sconn * stream * option h2err) (fr : sframe) (wasClosing : bool) : sconn * bool :=
  let '(c3, s3, e) := r in
  match e with
  | Some e =>
    let '(c4, s4) := write_error c3 (Some s3) e in
    let s5 := match s4 with Some x => set_state x SClosed | None => set_state s3 SClosed end in
    match e with
    | EGoAway code => if negb (code =? c_NoError) then brk (put c4 s5) else after_frame cfg c4 s5 fr wasClosing
    | EReset _ => after_frame cfg c4 s5 fr wasClosing
    | EPanic => brk (note c3 (OPanic 1 0))
    end
  | None => after_frame cfg c3 s3 fr wasClosing
  end.

Lemma sl_known_tail c2 st fr wc :
  (sf_kind fr = KHeaders ->
   implicit_close (S (length (sc_strms c2))) c2 (st_id st) = c2 /\
   forall p, get_previous_headers (sc_strms c2) = Some p -> st_headersFinished p = true) ->
  sl_known hstate dec_field cfg c2 st fr wc = tail (handle_frame dec_field cfg c2 st fr) fr wc.
Proof.
  intro H. unfold sl_known, tail. destruct (fkind_eqb (sf_kind fr) KHeaders) eqn:K.
  - apply fkind_eqb_eq in K. destruct (H K) as [IC GP].
    destruct (get_previous_headers (sc_strms c2)) as [p|] eqn:G.
    + rewrite (GP p eq_refl). cbn [negb]. rewrite IC. reflexivity.
    + rewrite IC. reflexivity.
  - reflexivity.
Qed.

(* the three ways a frame can end badly, once handleFrame has answered *)
Lemma tail_goaway c3 s3 code fr wc : code <> c_NoError ->
  tail (c3, s3, Some (EGoAway code)) fr wc = brk (put (write_goaway c3 (st_id s3) code) (set_state (set_state s3 SClosed) SClosed)).
Proof. intro H. unfold tail. cbn [write_error]. replace (code =? c_NoError) with false by (symmetry; apply N.eqb_neq; exact H). reflexivity. Qed.

Lemma tail_reset c3 s3 code fr wc :
  tail (c3, s3, Some (EReset code)) fr wc =
  after_frame cfg (write_reset c3 (st_id s3) code) (set_state (set_state (set_weReset s3) SClosed) SClosed) fr wc.
Proof. reflexivity. Qed.

Lemma tail_panic c3 s3 fr wc : tail (c3, s3, Some EPanic) fr wc = brk (note c3 (OPanic 1 0)).
Proof. reflexivity. Qed.

Lemma tail_ok c3 s3 fr wc : tail (c3, s3, None) fr wc = after_frame cfg c3 s3 fr wc.
Proof. reflexivity. Qed.

(* ---------- everything known when a frame reaches handleFrame ---------- *)

Record kin c (s : RS.state) (ph : N -> RS.phase) (fr : sframe) (ec' : N) (c2 : sconn) (st : stream) (l' h' : N) : Prop := {
  K_S : Sim c s ph;
  K_sl : sc_sl_done c = false;
  K_sq : seq_ok c fr ec';
  K_od : N.odd (sf_sid fr) = true;
  K_base : base c fr (sc_strms c2) l' h';
  K_ctx : kctx c ec' l' h' c2;
  K_cw : sc_clientWindow c2 = sc_clientWindow c;
  K_f : sfacts c s ph fr st l' h'
}.

Lemma kin_wr c s ph fr ec' c2 st l' h' : kin c s ph fr ec' c2 st l' h' -> sc_sl_done c2 = false /\ sc_wl_dead c2 = false.
Proof.
  intros [HS Hsl _ _ _ (K1 & K2 & K3 & K4 & K5 & K6 & K7 & K8 & K9 & K10 & K11 & K12) _ _].
  pose proof (S_aux _ _ _ _ HS) as [AT _]. rewrite K8, K6. split; [exact Hsl | apply (A_wl _ _ AT)].
Qed.

(* outside a header block (every frame but CONTINUATION): block is None, ec' is settled *)
Lemma kin_noblock c s ph fr ec' c2 st l' h' : kin c s ph fr ec' c2 st l' h' -> sf_kind fr <> KCont ->
  RS.block s = None /\ sc_expectCont c = 0 /\ ec' = (if fkind_eqb (sf_kind fr) KHeaders && negb (flag_has (sf_flags fr) FL_EH) then sf_sid fr else 0).
Proof.
  intros KI K. destruct (K_sq _ _ _ _ _ _ _ _ _ KI) as [(E0 & _ & E)|(_ & K' & _)]; [|congruence].
  split; [|auto]. rewrite (block_of_ec hstate c s (S_blk _ _ _ _ (K_S _ _ _ _ _ _ _ _ _ KI))), E0. reflexivity.
Qed.

(* a stream of the table that is outside a header block has all its headers *)
Lemma kin_fin c s ph fr ec' c2 st l' h' : kin c s ph fr ec' c2 st l' h' -> sf_kind fr <> KCont -> st_state st <> SIdle ->
  st_headersFinished st = true.
Proof.
  intros KI K NI. destruct (kin_noblock _ _ _ _ _ _ _ _ _ KI K) as (_ & E0 & _).
  destruct (F_h2 _ _ _ _ _ _ _ (K_f _ _ _ _ _ _ _ _ _ KI) NI) as (_ & _ & _ & A & _).
  destruct (st_headersFinished st); [reflexivity|]. specialize (A eq_refl). rewrite E0 in A.
  pose proof (K_od _ _ _ _ _ _ _ _ _ KI) as O. rewrite A in O. discriminate.
Qed.

Lemma K_data c s ph fr ec' c2 st l' h' :
  kin c s ph fr ec' c2 st l' h' -> sf_kind fr = KData ->
  feed c (IIn (RFrame fr)) = fst (tail (handle_frame dec_field cfg c2 st fr) fr (sc_closing c)) ->
  G c s ph (RFrame fr) (feed c (IIn (RFrame fr))).
Proof.
  intros KI KK E. pose proof KI as [HS Hsl SQ Od HB KC CW SF].
  destruct (kin_wr _ _ _ _ _ _ _ _ _ KI) as [Sl2 Wl2].
  assert (NC : sf_kind fr <> KCont) by congruence.
  destruct (kin_noblock _ _ _ _ _ _ _ _ _ KI NC) as (BN & E0 & EC). rewrite KK in EC. cbn [fkind_eqb andb] in EC.
  assert (Znn : sf_sid fr <> 0) by (intro Z; rewrite Z in Od; discriminate).
  assert (V : RS.verdicts s (RS.Frame (abs_frame fr)) = RS.on_stream s (abs_frame fr)) by (apply verdicts_stream; [exact BN | exact Znn | rewrite KK; exact I]).
  destruct (handle_frame dec_field cfg c2 st fr) as [[c3 s3] e] eqn:HF.
  pose proof (handle_frame_eff hstate dec_field cfg c2 st fr c3 s3 e Sl2 Wl2 HF) as HE.
  assert (NI : st_state st <> SIdle).
  { intro X. destruct (F_h1 _ _ _ _ _ _ _ SF X) as (_ & _ & _ & KH & _). congruence. }
  pose proof (kin_fin _ _ _ _ _ _ _ _ _ KI NC NI) as Fin.
  destruct (F_h2 _ _ _ _ _ _ _ SF NI) as (Hh & Tb & Hph & _).
  unfold handle_frame, verify_state in HF. rewrite KK in HF. cbn [fkind_eqb orb andb] in HF. unfold continuing_headers in HF. rewrite KK in HF. cbn [fkind_eqb andb] in HF.
  destruct (F_state _ _ _ _ _ _ _ SF) as [X|[X|X]]; [congruence | |]; rewrite X in HF; cbn [sstate_rank N.leb] in HF.
  - (* open *)
    assert (Xo : RS.st_of s (sf_sid fr) = RS.Open) by (rewrite (F_x _ _ _ _ _ _ _ SF), X; reflexivity).
    rewrite Fin in HF. cbn [negb] in HF. replace (3 <=? 2) with false in HF by reflexivity.
    match type of HF with (if ?b then _ else _) = _ => destruct b eqn:OV end; injection HF as Ec Es Ee; subst e.
    + (* body too large: RST_STREAM(ENHANCE_YOUR_CALM) *)
      assert (Id3 : st_id s3 = sf_sid fr) by (rewrite <- Es; apply (F_id _ _ _ _ _ _ _ SF)).
      rewrite tail_reset, Id3 in E.
      assert (A1 : RS.st_of s (sf_sid fr) = RS.Open \/ RS.st_of s (sf_sid fr) = RS.HalfClosedRemote \/
                   (RS.st_of s (sf_sid fr) = RS.Idle /\ sf_kind fr = KHeaders)) by (left; exact Xo).
      assert (A2 : RS.st_of s (sf_sid fr) = RS.Idle -> h' = sf_sid fr /\ sc_highestID c < sf_sid fr) by (intro Y; congruence).
      assert (A3 : RS.st_of s (sf_sid fr) <> RS.Idle -> h' = sc_highestID c) by (intros _; exact Hh).
      assert (A4 : send_ok s3) by (rewrite <- Es; exact (F_send _ _ _ _ _ _ _ SF)).
      assert (A5 : st_headersFinished s3 = false \/ sc_discardID c3 = sc_discardID c).
      { right. rewrite <- Ec. destruct KC as (_ & _ & _ & _ & _ & _ & _ & _ & _ & _ & K11 & _). sc_rw. exact K11. }
      assert (A6 : ec' <> 0 -> st_headersFinished s3 = false) by (intro Hne; congruence).
      assert (A7 : RS.allowed s (RS.Frame (abs_frame fr)) (RS.StreamErr c_EnhanceYourCalm) = true) by (apply policy_allowed; auto; congruence).
      assert (A8 : sf_kind fr <> KRst) by congruence.
      exact (after_reset hstate dec_field enc_field enc_set_max cfg c s ph fr ec' c2 l' h' c3 s3 c_EnhanceYourCalm HS Hsl SQ Od HB KC HE Id3 A1 A2 A3 A4 A5 A6 A7 A8 E).
    + (* accepted *)
      assert (Id3 : st_id s3 = sf_sid fr) by (rewrite <- Es; apply (F_id _ _ _ _ _ _ _ SF)).
      rewrite tail_ok in E.
      assert (B1 : sc_discardID c3 = sc_discardID c).
      { rewrite <- Ec. destruct KC as (_ & _ & _ & _ & _ & _ & _ & _ & _ & _ & K11 & _). sc_rw. exact K11. }
      assert (B2 : (st_state s3 = SIdle /\ sf_kind fr = KHeaders) \/ st_state s3 = SOpen \/ st_state s3 = SHalfClosed) by (rewrite <- Es; cbn; auto).
      assert (B3 : RS.st_of s (sf_sid fr) = abs_st (st_state s3)) by (rewrite <- Es; cbn; rewrite X; exact Xo).
      assert (B4 : st_state s3 = SIdle -> h' = sf_sid fr /\ sc_highestID c < sf_sid fr) by (rewrite <- Es; cbn; intro Y; congruence).
      assert (B5 : st_state s3 <> SIdle -> h' = sc_highestID c) by (intros _; exact Hh).
      assert (B6 : st_weReset s3 = false) by (rewrite <- Es; exact (F_wr _ _ _ _ _ _ _ SF)).
      assert (B7 : st_responded s3 = true \/ st_handlerRunning s3 = true -> st_state s3 = SHalfClosed /\ st_headersFinished s3 = true)
        by (rewrite <- Es; exact (F_resp _ _ _ _ _ _ _ SF)).
      assert (B8 : send_ok s3) by (rewrite <- Es; exact (F_send _ _ _ _ _ _ _ SF)).
      assert (B9 : RS.may_process s (RS.Frame (abs_frame fr)) = true).
      { unfold RS.may_process. rewrite V. unfold RS.on_stream, RS.by_state. change (RS.f_sid (abs_frame fr)) with (sf_sid fr). rewrite Xo.
        unfold abs_frame. cbn [RS.f_kind]. rewrite KK. reflexivity. }
      assert (B10 : st_headersFinished s3 = false -> ec' = sf_sid fr) by (rewrite <- Es; cbn; rewrite Fin; discriminate).
      assert (B11 : ec' <> 0 -> st_headersFinished s3 = false) by (intro Hne; congruence).
      assert (B12 : st_state (handle_state fr s3) <> SClosed -> RS.request_step (ph (sf_sid fr)) (abs_frame fr) = phase_of (handle_state fr s3)).
      { intros _. rewrite Hph, phase_of_handle, <- Es. cbn [st_state st_headersFinished set_recv].
        unfold phase_of, hs_state, abs_frame, RS.request_step. cbn [RS.f_kind RS.f_es]. rewrite KK, X, Fin. cbn.
        destruct (flag_has (sf_flags fr) FL_ES); reflexivity. }
      assert (B13 : sf_kind fr = KRst -> st_responded s3 = true -> st_handlerRunning s3 = false -> has_more_to_send s3 = true ->
                    (st_pending s3 = [] \/ (0 < zmin (st_window s3) (sc_clientWindow c3))%Z) ->
                    known_deviation hstate c s (RFrame fr) = true) by (intro Y; congruence).
      exact (after_ok hstate dec_field enc_field enc_set_max cfg c s ph fr ec' c2 l' h' c3 s3 HS Hsl SQ Od HB KC HE B1 Id3 B2 B3 B4 B5 B6 B7 B8 V B9 B10 B11 B12 B13 E).
  - (* half-closed (remote): STREAM_CLOSED *)
    injection HF as Ec Es Ee; subst e.
    rewrite tail_goaway in E by discriminate. rewrite <- Es, (F_id _ _ _ _ _ _ _ SF) in E.
    apply (known_goaway c s ph fr ec' c2 l' h' c3 _ _ HS Hsl KC HE E).
    left. apply allowed_table. rewrite V. unfold RS.on_stream, RS.by_state. change (RS.f_sid (abs_frame fr)) with (sf_sid fr).
    rewrite (F_x _ _ _ _ _ _ _ SF), X. unfold abs_frame. cbn [RS.f_kind abs_st]. rewrite KK. reflexivity.
Qed.

(* shared preamble for frames that are not part of a header block, on a stream of the table *)
Lemma kin_plain c s ph fr ec' c2 st l' h' :
  kin c s ph fr ec' c2 st l' h' -> sf_kind fr <> KCont -> sf_kind fr <> KHeaders ->
  sc_sl_done c2 = false /\ sc_wl_dead c2 = false /\ RS.block s = None /\ ec' = 0 /\ sf_sid fr <> 0 /\
  st_state st <> SIdle /\ st_headersFinished st = true /\ h' = sc_highestID c /\ tbl c (sf_sid fr) = Some st /\
  ph (sf_sid fr) = phase_of st /\ sc_discardID c2 = sc_discardID c /\
  ((st_state st = SOpen /\ RS.st_of s (sf_sid fr) = RS.Open) \/ (st_state st = SHalfClosed /\ RS.st_of s (sf_sid fr) = RS.HalfClosedRemote)).
Proof.
  intros KI NC NH. pose proof KI as [HS Hsl SQ Od HB KC CW SF].
  destruct (kin_wr _ _ _ _ _ _ _ _ _ KI) as [Sl2 Wl2].
  destruct (kin_noblock _ _ _ _ _ _ _ _ _ KI NC) as (BN & E0 & EC).
  apply fkind_eqb_neq in NH. rewrite NH in EC. cbn [andb] in EC.
  assert (NI : st_state st <> SIdle).
  { intro X. destruct (F_h1 _ _ _ _ _ _ _ SF X) as (_ & _ & _ & KH & _). apply fkind_eqb_neq in NH. congruence. }
  destruct (F_h2 _ _ _ _ _ _ _ SF NI) as (Hh & Tb & Hph & _).
  repeat split; auto.
  - intro Z. rewrite Z in Od. discriminate.
  - apply (kin_fin _ _ _ _ _ _ _ _ _ KI NC NI).
  - destruct KC as (_ & _ & _ & _ & _ & _ & _ & _ & _ & _ & K11 & _). exact K11.
  - destruct (F_state _ _ _ _ _ _ _ SF) as [X|[X|X]]; [congruence | left | right]; (split; [exact X|]); rewrite (F_x _ _ _ _ _ _ _ SF), X; reflexivity.
Qed.

Lemma K_rst c s ph fr ec' c2 st l' h' :
  kin c s ph fr ec' c2 st l' h' -> sf_kind fr = KRst ->
  feed c (IIn (RFrame fr)) = fst (tail (handle_frame dec_field cfg c2 st fr) fr (sc_closing c)) ->
  G c s ph (RFrame fr) (feed c (IIn (RFrame fr))).
Proof.
  intros KI KK E. pose proof KI as [HS Hsl SQ Od HB KC CW SF].
  destruct (kin_plain _ _ _ _ _ _ _ _ _ KI ltac:(congruence) ltac:(congruence)) as (Sl2 & Wl2 & BN & EC & Znn & NI & Fin & Hh & Tb & Hph & DI & XS).
  assert (V : RS.verdicts s (RS.Frame (abs_frame fr)) = RS.on_stream s (abs_frame fr)) by (apply verdicts_stream; [exact BN | exact Znn | rewrite KK; exact I]).
  assert (HF : handle_frame dec_field cfg c2 st fr = (c2, st, None)).
  { unfold handle_frame, verify_state. rewrite KK. cbn [fkind_eqb orb andb]. unfold continuing_headers. rewrite KK. cbn [fkind_eqb andb orb].
    destruct XS as [[X _]|[X _]]; rewrite X; reflexivity. }
  rewrite HF, tail_ok in E.
  assert (B2 : (st_state st = SIdle /\ sf_kind fr = KHeaders) \/ st_state st = SOpen \/ st_state st = SHalfClosed) by (destruct XS as [[X _]|[X _]]; auto).
  assert (B4 : st_state st = SIdle -> h' = sf_sid fr /\ sc_highestID c < sf_sid fr) by (intro Y; congruence).
  assert (B5 : st_state st <> SIdle -> h' = sc_highestID c) by (intros _; exact Hh).
  assert (B9 : RS.may_process s (RS.Frame (abs_frame fr)) = true).
  { unfold RS.may_process. rewrite V. unfold RS.on_stream, RS.by_state. change (RS.f_sid (abs_frame fr)) with (sf_sid fr).
    destruct XS as [[_ X]|[_ X]]; rewrite X; unfold abs_frame; cbn [RS.f_kind]; rewrite KK; reflexivity. }
  assert (B10 : st_headersFinished st = false -> ec' = sf_sid fr) by (rewrite Fin; discriminate).
  assert (B11 : ec' <> 0 -> st_headersFinished st = false) by (intro Hne; congruence).
  assert (B12 : st_state (handle_state fr st) <> SClosed -> RS.request_step (ph (sf_sid fr)) (abs_frame fr) = phase_of (handle_state fr st)).
  { intro Y. exfalso. apply Y. rewrite handle_state_st. unfold hs_state. rewrite KK. reflexivity. }
  assert (B13 : sf_kind fr = KRst -> st_responded st = true -> st_handlerRunning st = false -> has_more_to_send st = true ->
                (st_pending st = [] \/ (0 < zmin (st_window st) (sc_clientWindow c2))%Z) ->
                known_deviation hstate c s (RFrame fr) = true).
  { intros _ R1 R2 R3 R4. unfold known_deviation. rewrite KK. unfold SrvRfcDefs.tbl in Tb. rewrite Tb, R1, R2, R3. cbn [negb andb].
    destruct R4 as [R4|R4]; [rewrite R4; reflexivity|]. rewrite <- CW. apply Z.ltb_lt in R4. rewrite R4. apply orb_true_r. }
  exact (after_ok hstate dec_field enc_field enc_set_max cfg c s ph fr ec' c2 l' h' c2 st HS Hsl SQ Od HB KC (hf_eff_refl hstate c2) DI
           (F_id _ _ _ _ _ _ _ SF) B2 (F_x _ _ _ _ _ _ _ SF) B4 B5 (F_wr _ _ _ _ _ _ _ SF) (F_resp _ _ _ _ _ _ _ SF) (F_send _ _ _ _ _ _ _ SF)
           V B9 B10 B11 B12 B13 E).
Qed.

Lemma K_prio c s ph fr ec' c2 st l' h' :
  kin c s ph fr ec' c2 st l' h' -> sf_kind fr = KPriority ->
  feed c (IIn (RFrame fr)) = fst (tail (handle_frame dec_field cfg c2 st fr) fr (sc_closing c)) ->
  G c s ph (RFrame fr) (feed c (IIn (RFrame fr))).
Proof.
  intros KI KK E. pose proof KI as [HS Hsl SQ Od HB KC CW SF].
  destruct (kin_plain _ _ _ _ _ _ _ _ _ KI ltac:(congruence) ltac:(congruence)) as (Sl2 & Wl2 & BN & EC & Znn & NI & Fin & Hh & Tb & Hph & DI & XS).
  assert (V : RS.verdicts s (RS.Frame (abs_frame fr)) = RS.on_stream s (abs_frame fr)) by (apply verdicts_stream; [exact BN | exact Znn | rewrite KK; exact I]).
  assert (HF : handle_frame dec_field cfg c2 st fr = if sf_dep fr =? sf_sid fr then (c2, st, Some (EGoAway c_ProtocolError)) else (c2, st, None)).
  { unfold handle_frame, verify_state. rewrite KK. cbn [fkind_eqb orb andb]. unfold continuing_headers. rewrite KK. cbn [fkind_eqb andb orb].
    rewrite Fin, (F_id _ _ _ _ _ _ _ SF). destruct XS as [[X _]|[X _]]; rewrite X; cbn [sstate_eqb sstate_rank N.eqb negb andb]; reflexivity. }
  rewrite HF in E. clear HF.
  destruct (sf_dep fr =? sf_sid fr) eqn:SD.
  - rewrite tail_goaway in E by discriminate. rewrite (F_id _ _ _ _ _ _ _ SF) in E.
    apply (known_goaway c s ph fr ec' c2 l' h' c2 _ _ HS Hsl KC (hf_eff_refl hstate c2) E).
    left. apply allowed_table. rewrite V. unfold RS.on_stream, RS.by_state, RS.priority_frame. change (RS.f_sid (abs_frame fr)) with (sf_sid fr).
    destruct XS as [[_ X]|[_ X]]; rewrite X; unfold abs_frame; cbn [RS.f_kind RS.f_self]; rewrite KK, SD; reflexivity.
  - rewrite tail_ok in E.
    assert (B2 : (st_state st = SIdle /\ sf_kind fr = KHeaders) \/ st_state st = SOpen \/ st_state st = SHalfClosed) by (destruct XS as [[X _]|[X _]]; auto).
    assert (B4 : st_state st = SIdle -> h' = sf_sid fr /\ sc_highestID c < sf_sid fr) by (intro Y; congruence).
    assert (B5 : st_state st <> SIdle -> h' = sc_highestID c) by (intros _; exact Hh).
    assert (B9 : RS.may_process s (RS.Frame (abs_frame fr)) = true).
    { unfold RS.may_process. rewrite V. unfold RS.on_stream, RS.by_state, RS.priority_frame. change (RS.f_sid (abs_frame fr)) with (sf_sid fr).
      destruct XS as [[_ X]|[_ X]]; rewrite X; unfold abs_frame; cbn [RS.f_kind RS.f_self]; rewrite KK, SD; reflexivity. }
    assert (B10 : st_headersFinished st = false -> ec' = sf_sid fr) by (rewrite Fin; discriminate).
    assert (B11 : ec' <> 0 -> st_headersFinished st = false) by (intro Hne; congruence).
    assert (B12 : st_state (handle_state fr st) <> SClosed -> RS.request_step (ph (sf_sid fr)) (abs_frame fr) = phase_of (handle_state fr st)).
    { intros _. rewrite Hph, phase_of_handle. unfold phase_of, hs_state, abs_frame, RS.request_step. cbn [RS.f_kind]. rewrite KK, Fin.
      destruct XS as [[X _]|[X _]]; rewrite X; reflexivity. }
    assert (B13 : sf_kind fr = KRst -> st_responded st = true -> st_handlerRunning st = false -> has_more_to_send st = true ->
                    (st_pending st = [] \/ (0 < zmin (st_window st) (sc_clientWindow c2))%Z) ->
                  known_deviation hstate c s (RFrame fr) = true) by (intro Y; congruence).
    exact (after_ok hstate dec_field enc_field enc_set_max cfg c s ph fr ec' c2 l' h' c2 st HS Hsl SQ Od HB KC (hf_eff_refl hstate c2) DI
             (F_id _ _ _ _ _ _ _ SF) B2 (F_x _ _ _ _ _ _ _ SF) B4 B5 (F_wr _ _ _ _ _ _ _ SF) (F_resp _ _ _ _ _ _ _ SF) (F_send _ _ _ _ _ _ _ SF)
             V B9 B10 B11 B12 B13 E).
Qed.

Lemma K_winupd c s ph fr ec' c2 st l' h' :
  kin c s ph fr ec' c2 st l' h' -> sf_kind fr = KWinUpd ->
  feed c (IIn (RFrame fr)) = fst (tail (handle_frame dec_field cfg c2 st fr) fr (sc_closing c)) ->
  G c s ph (RFrame fr) (feed c (IIn (RFrame fr))).
Proof.
  intros KI KK E. pose proof KI as [HS Hsl SQ Od HB KC CW SF].
  destruct (kin_plain _ _ _ _ _ _ _ _ _ KI ltac:(congruence) ltac:(congruence)) as (Sl2 & Wl2 & BN & EC & Znn & NI & Fin & Hh & Tb & Hph & DI & XS).
  assert (V : RS.verdicts s (RS.Frame (abs_frame fr)) = RS.on_stream s (abs_frame fr)) by (apply verdicts_stream; [exact BN | exact Znn | rewrite KK; exact I]).
  set (w := (st_window st + Z.of_N (sf_inc fr))%Z).
  assert (HF : handle_frame dec_field cfg c2 st fr =
               if sf_inc fr =? 0 then (c2, st, Some (EGoAway c_ProtocolError))
               else if (MAXWIN <? w)%Z then (c2, set_window st w, Some (EReset c_FlowControlError)) else (c2, set_window st w, None)).
  { unfold handle_frame, verify_state. rewrite KK. cbn [fkind_eqb orb andb]. unfold continuing_headers. rewrite KK. cbn [fkind_eqb andb orb].
    destruct XS as [[X _]|[X _]]; rewrite X; cbn [sstate_eqb sstate_rank N.eqb]; reflexivity. }
  rewrite HF in E. clear HF.
  assert (WUv : RS.on_stream s (abs_frame fr) = RS.window_update (abs_frame fr) ++ RS.policy).
  { unfold RS.on_stream, RS.by_state. change (RS.f_sid (abs_frame fr)) with (sf_sid fr).
    destruct XS as [[_ X]|[_ X]]; rewrite X; unfold abs_frame; cbn [RS.f_kind]; rewrite KK; reflexivity. }
  assert (A1 : RS.st_of s (sf_sid fr) = RS.Open \/ RS.st_of s (sf_sid fr) = RS.HalfClosedRemote \/
               (RS.st_of s (sf_sid fr) = RS.Idle /\ sf_kind fr = KHeaders)) by (destruct XS as [[_ X]|[_ X]]; auto).
  assert (A2 : RS.st_of s (sf_sid fr) = RS.Idle -> h' = sf_sid fr /\ sc_highestID c < sf_sid fr) by (intro Y; destruct XS as [[_ X]|[_ X]]; congruence).
  assert (A3 : RS.st_of s (sf_sid fr) <> RS.Idle -> h' = sc_highestID c) by (intros _; exact Hh).
  destruct (sf_inc fr =? 0) eqn:I0.
  - rewrite tail_goaway in E by discriminate. rewrite (F_id _ _ _ _ _ _ _ SF) in E.
    apply (known_goaway c s ph fr ec' c2 l' h' c2 _ _ HS Hsl KC (hf_eff_refl hstate c2) E).
    left. apply allowed_table. rewrite V, WUv. unfold RS.window_update, abs_frame. cbn [RS.f_inc]. rewrite I0. reflexivity.
  - destruct (MAXWIN <? w)%Z eqn:OV.
    + (* the window overflows: RST_STREAM(FLOW_CONTROL_ERROR) *)
      rewrite tail_reset in E. cbn [st_id set_window] in E. rewrite (F_id _ _ _ _ _ _ _ SF) in E.
      assert (A4 : send_ok (set_window st w)) by exact (F_send _ _ _ _ _ _ _ SF).
      assert (A5 : st_headersFinished (set_window st w) = false \/ sc_discardID c2 = sc_discardID c) by (right; exact DI).
      assert (A6 : ec' <> 0 -> st_headersFinished (set_window st w) = false) by (intro Hne; congruence).
      assert (A7 : RS.allowed s (RS.Frame (abs_frame fr)) (RS.StreamErr c_FlowControlError) = true).
      { apply allowed_table. rewrite V, WUv. unfold RS.window_update, abs_frame. cbn [RS.f_inc]. rewrite I0. reflexivity. }
      assert (A8 : sf_kind fr <> KRst) by congruence.
      exact (after_reset hstate dec_field enc_field enc_set_max cfg c s ph fr ec' c2 l' h' c2 (set_window st w) c_FlowControlError
               HS Hsl SQ Od HB KC (hf_eff_refl hstate c2) (F_id _ _ _ _ _ _ _ SF) A1 A2 A3 A4 A5 A6 A7 A8 E).
    + rewrite tail_ok in E.
      assert (B2 : (st_state (set_window st w) = SIdle /\ sf_kind fr = KHeaders) \/ st_state (set_window st w) = SOpen \/ st_state (set_window st w) = SHalfClosed)
        by (cbn; destruct XS as [[X _]|[X _]]; auto).
      assert (B4 : st_state (set_window st w) = SIdle -> h' = sf_sid fr /\ sc_highestID c < sf_sid fr) by (cbn; intro Y; congruence).
      assert (B5 : st_state (set_window st w) <> SIdle -> h' = sc_highestID c) by (intros _; exact Hh).
      assert (B9 : RS.may_process s (RS.Frame (abs_frame fr)) = true).
      { unfold RS.may_process. rewrite V, WUv. unfold RS.window_update, abs_frame. cbn [RS.f_inc]. rewrite I0. reflexivity. }
      assert (B10 : st_headersFinished (set_window st w) = false -> ec' = sf_sid fr) by (cbn; rewrite Fin; discriminate).
      assert (B11 : ec' <> 0 -> st_headersFinished (set_window st w) = false) by (intro Hne; congruence).
      assert (B12 : st_state (handle_state fr (set_window st w)) <> SClosed ->
                    RS.request_step (ph (sf_sid fr)) (abs_frame fr) = phase_of (handle_state fr (set_window st w))).
      { intros _. rewrite Hph, phase_of_handle. cbn [st_state st_headersFinished set_window].
        unfold phase_of, hs_state, abs_frame, RS.request_step. cbn [RS.f_kind]. rewrite KK, Fin.
        destruct XS as [[X _]|[X _]]; rewrite X; reflexivity. }
      assert (B13 : sf_kind fr = KRst -> st_responded (set_window st w) = true -> st_handlerRunning (set_window st w) = false ->
                    has_more_to_send (set_window st w) = true ->
                    (st_pending (set_window st w) = [] \/ (0 < zmin (st_window (set_window st w)) (sc_clientWindow c2))%Z) -> known_deviation hstate c s (RFrame fr) = true) by (intro Y; congruence).
      exact (after_ok hstate dec_field enc_field enc_set_max cfg c s ph fr ec' c2 l' h' c2 (set_window st w) HS Hsl SQ Od HB KC (hf_eff_refl hstate c2) DI
               (F_id _ _ _ _ _ _ _ SF) B2 (F_x _ _ _ _ _ _ _ SF) B4 B5 (F_wr _ _ _ _ _ _ _ SF) (F_resp _ _ _ _ _ _ _ SF) (F_send _ _ _ _ _ _ _ SF)
               V B9 B10 B11 B12 B13 E).
Qed.

(* SETTINGS, GOAWAY (and the like) carrying a stream id *)
Lemma K_other c s ph fr ec' c2 st l' h' :
  kin c s ph fr ec' c2 st l' h' -> (sf_kind fr = KSettings \/ sf_kind fr = KGoAway) ->
  feed c (IIn (RFrame fr)) = fst (tail (handle_frame dec_field cfg c2 st fr) fr (sc_closing c)) ->
  G c s ph (RFrame fr) (feed c (IIn (RFrame fr))).
Proof.
  intros KI KK E. pose proof KI as [HS Hsl SQ Od HB KC CW SF].
  destruct (kin_plain _ _ _ _ _ _ _ _ _ KI ltac:(destruct KK; congruence) ltac:(destruct KK; congruence))
    as (Sl2 & Wl2 & BN & EC & Znn & NI & Fin & Hh & Tb & Hph & DI & XS).
  assert (V : RS.verdicts s (RS.Frame (abs_frame fr)) = [RS.CE c_ProtocolError]).
  { apply verdicts_stream_bad; [exact BN | exact Znn | destruct KK as [-> | ->]; exact I]. }
  assert (HF : exists code, handle_frame dec_field cfg c2 st fr = (c2, st, Some (EGoAway code)) /\ code <> c_NoError /\
                 (code = c_ProtocolError \/ (code = c_StreamClosedError /\ st_state st = SHalfClosed))).
  { unfold handle_frame, verify_state, continuing_headers.
    destruct XS as [[X _]|[X _]]; rewrite X; destruct KK as [K | K]; rewrite K; cbn [fkind_eqb orb andb];
      eexists; (split; [reflexivity|]); (split; [discriminate|]); auto. }
  destruct HF as (code & HF & NE & CD). rewrite HF, tail_goaway in E by exact NE. rewrite (F_id _ _ _ _ _ _ _ SF) in E.
  apply (known_goaway c s ph fr ec' c2 l' h' c2 _ _ HS Hsl KC (hf_eff_refl hstate c2) E).
  destruct CD as [-> | [-> X]].
  - left. apply allowed_table. rewrite V. reflexivity.
  - right. unfold known_deviation. unfold SrvRfcDefs.tbl in Tb. rewrite Tb, X.
    replace (sf_sid fr =? 0) with false by (symmetry; apply N.eqb_neq; exact Znn).
    destruct KK as [-> | ->]; cbn; apply orb_true_r.
Qed.

(* ---------- handleFrame on HEADERS / CONTINUATION ---------- *)

(* the checks handleHeaderFrame makes before it decodes anything *)
Definition hdr_refused (st : stream) (fr : sframe) : bool :=
  (st_headersFinished st && (negb (fkind_eqb (sf_kind fr) KHeaders) || negb (flag_has (sf_flags fr) FL_ES)))
  || (fkind_eqb (sf_kind fr) KHeaders && (sf_dep fr =? st_id st)).

Lemma hf_hdr c st fr c3 s3 e :
  sf_kind fr = KHeaders \/ sf_kind fr = KCont ->
  verify_state st fr = None -> ((3 <=? sstate_rank (st_state st)) && negb (continuing_headers st fr))%bool = false ->
  handle_frame dec_field cfg c st fr = (c3, s3, e) ->
  same_ctl st s3 /\
  if hdr_refused st fr then e = Some (EGoAway c_ProtocolError)
  else match e with
       | None => st_headersFinished s3 = flag_has (sf_flags fr) FL_EH /\ sc_discardID c3 = sc_discardID c
       | Some (EReset code) =>
         (code = c_ProtocolError \/ code = c_EnhanceYourCalm) /\
         ((st_headersFinished s3 = false /\ sc_discardID c3 = (if flag_has (sf_flags fr) FL_EH then 0 else st_id st)) \/
          (flag_has (sf_flags fr) FL_EH = true /\ st_headersFinished s3 = true /\ sc_discardID c3 = sc_discardID c))
       | Some e => hdr_err e
       end.
Proof.
  intros KK VS R3 HF. unfold handle_frame in HF. rewrite VS in HF.
  assert (HF' : (let '(c1, s1, e0) := handle_header_frame dec_field cfg c st fr in
                 match e0 with
                 | Some e1 => (c1, s1, Some e1)
                 | None =>
                   if flag_has (sf_flags fr) FL_EH then
                     let fin := match st_prev s1 with [] => true | _ => false end in
                     let s2 := set_headers_finished s1 fin in
                     if negb fin then (c1, s2, Some (EGoAway c_ProtocolError))
                     else match validate_request_pseudo_headers s2 with Some e1 => (c1, s2, Some e1) | None => (c1, s2, None) end
                   else (c1, s1, None)
                 end) = (c3, s3, e)).
  { destruct KK as [K|K]; rewrite K in HF; rewrite R3 in HF; exact HF. }
  clear HF.
  destruct (handle_header_frame dec_field cfg c st fr) as [[c1 s1] e0] eqn:HH.
  pose proof (handle_header_frame_spec hstate dec_field cfg c st fr c1 s1 e0 HH) as (DD & SC & Sp).
  (* the two early exits *)
  unfold handle_header_frame in HH. unfold hdr_refused.
  destruct (st_headersFinished st && (negb (fkind_eqb (sf_kind fr) KHeaders) || negb (flag_has (sf_flags fr) FL_ES)))%bool eqn:C1.
  { inversion HH; subst c1 s1 e0. inversion HF'; subst. cbn [orb]. split; [apply same_ctl_refl | reflexivity]. }
  destruct (fkind_eqb (sf_kind fr) KHeaders && (sf_dep fr =? st_id st))%bool eqn:C2.
  { inversion HH; subst c1 s1 e0. inversion HF'; subst. cbn [orb]. split; [apply same_ctl_set_headers_finished | reflexivity]. }
  clear HH. cbn [orb].
  destruct e0 as [e0|].
  - inversion HF'; subst c3 s3 e. split; [exact SC|].
    destruct e0 as [code|code|]; [exact Sp | | exact I].
    destruct Sp as (F & Cd & Di). split; [exact Cd|]. left. split; [exact F | exact Di].
  - destruct Sp as (F & Di & Pv).
    destruct (flag_has (sf_flags fr) FL_EH) eqn:EH.
    + cbv zeta in HF'. rewrite (Pv eq_refl) in HF'. cbn [negb] in HF'.
      destruct (validate_request_pseudo_headers (set_headers_finished s1 true)) as [ev|] eqn:VR; inversion HF'; subst c3 s3 e.
      * split; [eapply same_ctl_trans; [exact SC | apply same_ctl_set_headers_finished]|].
        assert (ev = EReset c_ProtocolError) as ->.
        { revert VR. unfold validate_request_pseudo_headers.
          repeat match goal with
                 | |- context [if ?b then _ else _] => destruct b
                 | |- context [match ?l with [] => _ | _ :: _ => _ end] => destruct l
                 end; intro VR; inversion VR; reflexivity. }
        split; [left; reflexivity|]. right. split; [reflexivity|]. split; [reflexivity | exact Di].
      * split; [eapply same_ctl_trans; [exact SC | apply same_ctl_set_headers_finished]|]. split; [reflexivity | exact Di].
    + inversion HF'; subst c3 s3 e. split; [exact SC|]. split; [exact F | exact Di].
Qed.

(* what the table must allow for a header block frame that is decoded *)
Definition hdr_open_verdicts (s : RS.state) (fr : sframe) : Prop :=
  RS.may_process s (RS.Frame (abs_frame fr)) = true /\
  (forall code, code = c_ProtocolError \/ code = c_EnhanceYourCalm -> RS.allowed s (RS.Frame (abs_frame fr)) (RS.StreamErr code) = true) /\
  (forall code, code = c_ProtocolError \/ code = c_EnhanceYourCalm \/ code = c_CompressionError \/ code = c_InternalError ->
                RS.allowed s (RS.Frame (abs_frame fr)) (RS.ConnErr code) = true) /\
  RS.allowed s (RS.Frame (abs_frame fr)) RS.ConnClose = true.

Lemma hdr_open_of s fr l : RS.verdicts s (RS.Frame (abs_frame fr)) = RS.VProcess :: l ->
  (forall v, In v RS.policy -> In v l) -> (forall v, In v RS.block_errors -> In v l) -> hdr_open_verdicts s fr.
Proof.
  intros V P B.
  assert (AL : forall r, (exists v, In v (RS.VProcess :: l) /\ RS.admits v r = true) -> RS.allowed s (RS.Frame (abs_frame fr)) r = true).
  { intros r (v & Hin & Ha). apply allowed_table. rewrite V. apply existsb_exists. eauto. }
  split; [unfold RS.may_process; rewrite V; reflexivity|]. split; [|split].
  - intros code [-> | ->]; apply AL; [exists (RS.PE c_ProtocolError) | exists (RS.PE c_EnhanceYourCalm)]; (split; [right; apply P; cbn; tauto | reflexivity]).
  - intros code [-> | [-> | [-> | ->]]]; apply AL.
    + exists (RS.CE c_ProtocolError). split; [right; apply B; cbn; tauto | reflexivity].
    + exists (RS.CE c_EnhanceYourCalm). split; [right; apply B; cbn; tauto | reflexivity].
    + exists (RS.CE c_CompressionError). split; [right; apply B; cbn; tauto | reflexivity].
    + exists (RS.CE c_InternalError). split; [right; apply B; cbn; tauto | reflexivity].
  - apply AL. exists (RS.CE c_ProtocolError). split; [right; apply B; cbn; tauto | reflexivity].
Qed.

Lemma K_hdr_core c s ph fr ec' c2 st l' h' :
  kin c s ph fr ec' c2 st l' h' -> sf_kind fr = KHeaders \/ sf_kind fr = KCont ->
  verify_state st fr = None -> ((3 <=? sstate_rank (st_state st)) && negb (continuing_headers st fr))%bool = false ->
  RS.verdicts s (RS.Frame (abs_frame fr)) = RS.on_stream s (abs_frame fr) ->
  (hdr_refused st fr = true -> RS.allowed s (RS.Frame (abs_frame fr)) (RS.ConnErr c_ProtocolError) = true) ->
  (hdr_refused st fr = false -> hdr_open_verdicts s fr) ->
  (* the phase the frame leads to, if it is decoded *)
  (hdr_refused st fr = false ->
   RS.request_step (ph (sf_sid fr)) (abs_frame fr) =
   match hs_state (sf_kind fr) (flag_has (sf_flags fr) FL_ES) (st_state st), flag_has (sf_flags fr) FL_EH with
   | SOpen, false => RS.PHead false | SOpen, true => RS.PBody | SHalfClosed, false => RS.PHead true | SHalfClosed, true => RS.PDone
   | _, _ => RS.PBad end) ->
  feed c (IIn (RFrame fr)) = fst (tail (handle_frame dec_field cfg c2 st fr) fr (sc_closing c)) ->
  G c s ph (RFrame fr) (feed c (IIn (RFrame fr))).
Proof.
  intros KI KK VS R3 V Hrefd Hopen Hphase E. pose proof KI as [HS Hsl SQ Od HB KC CW SF].
  destruct (kin_wr _ _ _ _ _ _ _ _ _ KI) as [Sl2 Wl2].
  pose proof (ec'_hdr hstate c fr ec' SQ KK) as EC.
  destruct (handle_frame dec_field cfg c2 st fr) as [[c3 s3] e] eqn:HF.
  pose proof (handle_frame_eff hstate dec_field cfg c2 st fr c3 s3 e Sl2 Wl2 HF) as HE.
  destruct (hf_hdr c2 st fr c3 s3 e KK VS R3 HF) as (SC & Sp).
  destruct SC as (C1 & C2 & C3 & C4 & C5 & C6 & C7 & C8 & C9).
  assert (Id3 : st_id s3 = sf_sid fr) by (rewrite C1; apply (F_id _ _ _ _ _ _ _ SF)).
  assert (DI2 : sc_discardID c2 = sc_discardID c) by (destruct KC as (_ & _ & _ & _ & _ & _ & _ & _ & _ & _ & K11 & _); exact K11).
  (* the stream in the specification *)
  assert (A1 : RS.st_of s (sf_sid fr) = RS.Open \/ RS.st_of s (sf_sid fr) = RS.HalfClosedRemote \/
               (RS.st_of s (sf_sid fr) = RS.Idle /\ sf_kind fr = KHeaders)).
  { rewrite (F_x _ _ _ _ _ _ _ SF). destruct (F_state _ _ _ _ _ _ _ SF) as [X|[X|X]]; rewrite X; cbn [abs_st]; auto.
    right. right. split; [reflexivity|]. apply (F_h1 _ _ _ _ _ _ _ SF X). }
  assert (A2 : RS.st_of s (sf_sid fr) = RS.Idle -> h' = sf_sid fr /\ sc_highestID c < sf_sid fr).
  { rewrite (F_x _ _ _ _ _ _ _ SF). intro Y. assert (X : st_state st = SIdle) by (destruct (st_state st); try discriminate; reflexivity).
    destruct (F_h1 _ _ _ _ _ _ _ SF X) as (P1 & P2 & _). auto. }
  assert (A3 : RS.st_of s (sf_sid fr) <> RS.Idle -> h' = sc_highestID c).
  { rewrite (F_x _ _ _ _ _ _ _ SF). intro Y. apply (F_h2 _ _ _ _ _ _ _ SF). intro X. rewrite X in Y. apply Y. reflexivity. }
  assert (Snd3 : send_ok s3).
  { unfold send_ok, has_more_to_send. rewrite C6, C7, C8. exact (F_send _ _ _ _ _ _ _ SF). }
  destruct (hdr_refused st fr) eqn:RF.
  - (* refused before decoding *)
    subst e. rewrite tail_goaway in E by discriminate. rewrite Id3 in E.
    apply (known_goaway c s ph fr ec' c2 l' h' c3 _ _ HS Hsl KC HE E). left. apply Hrefd. reflexivity.
  - destruct (Hopen eq_refl) as (Hmp & Hse & Hce & Hcc).
    destruct e as [[code|code|]|].
    + (* connection error *)
      assert (NE : code <> c_NoError) by (destruct Sp as [-> | [-> | [-> | ->]]]; discriminate).
      rewrite tail_goaway in E by exact NE. rewrite Id3 in E.
      apply (known_goaway c s ph fr ec' c2 l' h' c3 _ _ HS Hsl KC HE E). left. apply Hce. exact Sp.
    + (* stream error *)
      destruct Sp as (Cd & Sp).
      rewrite tail_reset, Id3 in E.
      assert (A5 : st_headersFinished s3 = false \/ sc_discardID c3 = sc_discardID c).
      { destruct Sp as [[F _]|(_ & _ & D)]; [left; exact F | right; rewrite D; exact DI2]. }
      assert (A6 : ec' <> 0 -> st_headersFinished s3 = false).
      { intro Hne. destruct Sp as [[F _]|(EH & _ & _)]; [exact F|]. rewrite EC, EH in Hne. exfalso. apply Hne. reflexivity. }
      assert (A8 : sf_kind fr <> KRst) by (destruct KK; congruence).
      exact (after_reset hstate dec_field enc_field enc_set_max cfg c s ph fr ec' c2 l' h' c3 s3 code HS Hsl SQ Od HB KC HE Id3 A1 A2 A3 Snd3 A5 A6 (Hse code Cd) A8 E).
    + (* the decoder panicked *)
      rewrite tail_panic in E. apply (known_panic c s ph fr ec' c2 l' h' c3 HS Hsl KC HE E). left. exact Hcc.
    + (* decoded *)
      destruct Sp as (Fin3 & Di3).
      rewrite tail_ok in E.
      assert (B1 : sc_discardID c3 = sc_discardID c) by (rewrite Di3; exact DI2).
      assert (B2 : (st_state s3 = SIdle /\ sf_kind fr = KHeaders) \/ st_state s3 = SOpen \/ st_state s3 = SHalfClosed).
      { rewrite C2. destruct (F_state _ _ _ _ _ _ _ SF) as [X|[X|X]]; auto. left. split; [exact X|]. apply (F_h1 _ _ _ _ _ _ _ SF X). }
      assert (B3 : RS.st_of s (sf_sid fr) = abs_st (st_state s3)) by (rewrite C2; exact (F_x _ _ _ _ _ _ _ SF)).
      assert (B4 : st_state s3 = SIdle -> h' = sf_sid fr /\ sc_highestID c < sf_sid fr).
      { rewrite C2. intro X. destruct (F_h1 _ _ _ _ _ _ _ SF X) as (P1 & P2 & _). auto. }
      assert (B5 : st_state s3 <> SIdle -> h' = sc_highestID c) by (rewrite C2; intro X; apply (F_h2 _ _ _ _ _ _ _ SF X)).
      assert (B6 : st_weReset s3 = false) by (rewrite C3; exact (F_wr _ _ _ _ _ _ _ SF)).
      assert (B7 : st_responded s3 = true \/ st_handlerRunning s3 = true -> st_state s3 = SHalfClosed /\ st_headersFinished s3 = true).
      { rewrite C4, C5, C2. intro H. destruct (F_resp _ _ _ _ _ _ _ SF H) as [X Y]. exfalso.
        (* a stream that is being answered does not take header frames *)
        unfold verify_state in VS. rewrite X in VS. unfold continuing_headers in VS, R3. rewrite Y in VS, R3. rewrite X in R3.
        rewrite andb_false_r in VS, R3. cbn in R3. discriminate. }
      assert (B10 : st_headersFinished s3 = false -> ec' = sf_sid fr).
      { rewrite Fin3, EC. destruct (flag_has (sf_flags fr) FL_EH); [discriminate | reflexivity]. }
      assert (B11 : ec' <> 0 -> st_headersFinished s3 = false).
      { rewrite Fin3, EC. destruct (flag_has (sf_flags fr) FL_EH); [intro Hne; exfalso; apply Hne; reflexivity | reflexivity]. }
      assert (B12 : st_state (handle_state fr s3) <> SClosed -> RS.request_step (ph (sf_sid fr)) (abs_frame fr) = phase_of (handle_state fr s3)).
      { intros _. rewrite phase_of_handle, C2, Fin3. apply Hphase. reflexivity. }
      assert (B13 : sf_kind fr = KRst -> st_responded s3 = true -> st_handlerRunning s3 = false -> has_more_to_send s3 = true ->
                    (st_pending s3 = [] \/ (0 < zmin (st_window s3) (sc_clientWindow c3))%Z) ->
                    known_deviation hstate c s (RFrame fr) = true) by (intro Y; destruct KK; congruence).
      exact (after_ok hstate dec_field enc_field enc_set_max cfg c s ph fr ec' c2 l' h' c3 s3 HS Hsl SQ Od HB KC HE B1 Id3 B2 B3 B4 B5 B6 B7 Snd3 V Hmp B10 B11 B12 B13 E).
Qed.

Lemma K_hdr c s ph fr ec' c2 st l' h' :
  kin c s ph fr ec' c2 st l' h' -> sf_kind fr = KHeaders \/ sf_kind fr = KCont ->
  feed c (IIn (RFrame fr)) = fst (tail (handle_frame dec_field cfg c2 st fr) fr (sc_closing c)) ->
  G c s ph (RFrame fr) (feed c (IIn (RFrame fr))).
Proof.
  intros KI KK E. pose proof KI as [HS Hsl SQ Od HB KC CW SF].
  assert (Znn : sf_sid fr <> 0) by (intro Z; rewrite Z in Od; discriminate).
  pose proof (F_id _ _ _ _ _ _ _ SF) as Hid.
  destruct KK as [KH|KCn].
  - (* HEADERS *)
    assert (NC : sf_kind fr <> KCont) by congruence.
    destruct (kin_noblock _ _ _ _ _ _ _ _ _ KI NC) as (BN & E0 & _).
    assert (V : RS.verdicts s (RS.Frame (abs_frame fr)) = RS.on_stream s (abs_frame fr)) by (apply verdicts_stream; [exact BN | exact Znn | rewrite KH; exact I]).
    destruct (F_state _ _ _ _ _ _ _ SF) as [X|[X|X]].
    + (* a new stream *)
      destruct (F_h1 _ _ _ _ _ _ _ SF X) as (_ & _ & Hcl & _ & Fin & _ & _ & Hph & _).
      assert (Hidle : RS.st_of s (sf_sid fr) = RS.Idle) by (rewrite (F_x _ _ _ _ _ _ _ SF), X; reflexivity).
      pose proof (idle_headers_verdicts s fr BN Od KH Hidle) as IV. rewrite (S_ga _ _ _ _ HS), Hcl in IV.
      assert (RF : hdr_refused st fr = (sf_dep fr =? sf_sid fr)).
      { unfold hdr_refused. rewrite Fin, KH, Hid. reflexivity. }
      apply (K_hdr_core c s ph fr ec' c2 st l' h' KI (or_introl KH)); auto.
      * unfold verify_state. rewrite X, KH. reflexivity.
      * rewrite X. reflexivity.
      * rewrite RF. intro SD. apply allowed_table. rewrite IV, SD. reflexivity.
      * rewrite RF. intro SD. rewrite SD in IV. apply (hdr_open_of s fr (RS.policy ++ RS.block_errors) IV); intros v H; apply in_or_app; auto.
      * intros _. rewrite Hph. unfold RS.request_step, hs_state, abs_frame. cbn [RS.f_kind RS.f_es RS.f_eh]. rewrite X, KH. cbn.
        destruct (flag_has (sf_flags fr) FL_EH), (flag_has (sf_flags fr) FL_ES); reflexivity.
    + (* trailers *)
      assert (NI : st_state st <> SIdle) by congruence.
      pose proof (kin_fin _ _ _ _ _ _ _ _ _ KI NC NI) as Fin.
      destruct (F_h2 _ _ _ _ _ _ _ SF NI) as (_ & _ & Hph & _).
      assert (Xo : RS.st_of s (sf_sid fr) = RS.Open) by (rewrite (F_x _ _ _ _ _ _ _ SF), X; reflexivity).
      assert (OV : RS.on_stream s (abs_frame fr) =
                   (if negb (flag_has (sf_flags fr) FL_ES) || (sf_dep fr =? sf_sid fr) then [RS.SE c_ProtocolError] else RS.VProcess :: RS.block_errors) ++ RS.policy).
      { unfold RS.on_stream, RS.by_state. change (RS.f_sid (abs_frame fr)) with (sf_sid fr). rewrite Xo. unfold abs_frame. cbn [RS.f_kind RS.f_es RS.f_self].
        rewrite KH. reflexivity. }
      assert (RF : hdr_refused st fr = (negb (flag_has (sf_flags fr) FL_ES) || (sf_dep fr =? sf_sid fr))%bool).
      { unfold hdr_refused. rewrite Fin, KH, Hid. reflexivity. }
      apply (K_hdr_core c s ph fr ec' c2 st l' h' KI (or_introl KH)); auto.
      * unfold verify_state. rewrite X. reflexivity.
      * rewrite X. reflexivity.
      * rewrite RF. intro SD. apply allowed_table. rewrite V, OV, SD. reflexivity.
      * rewrite RF. intro SD. rewrite SD in OV. rewrite OV in V. apply (hdr_open_of s fr (RS.block_errors ++ RS.policy) V); intros v H; apply in_or_app; auto.
      * rewrite RF. intro SD. apply orb_false_iff in SD. destruct SD as [ES _]. apply negb_false_iff in ES.
        rewrite Hph. unfold phase_of, RS.request_step, hs_state, abs_frame. cbn [RS.f_kind RS.f_es RS.f_eh]. rewrite X, Fin, KH, ES. cbn.
        destruct (flag_has (sf_flags fr) FL_EH); reflexivity.
    + (* half-closed (remote): STREAM_CLOSED *)
      destruct (kin_wr _ _ _ _ _ _ _ _ _ KI) as [Sl2 Wl2].
      assert (HF : handle_frame dec_field cfg c2 st fr = (c2, st, Some (EGoAway c_StreamClosedError))).
      { unfold handle_frame, verify_state, continuing_headers. rewrite X, KH. reflexivity. }
      rewrite HF, tail_goaway in E by discriminate. rewrite Hid in E.
      apply (known_goaway c s ph fr ec' c2 l' h' c2 _ _ HS Hsl KC (hf_eff_refl hstate c2) E).
      left. apply allowed_table. rewrite V. unfold RS.on_stream, RS.by_state. change (RS.f_sid (abs_frame fr)) with (sf_sid fr).
      rewrite (F_x _ _ _ _ _ _ _ SF), X. unfold abs_frame. cbn [RS.f_kind abs_st]. rewrite KH. reflexivity.
  - (* CONTINUATION *)
    destruct SQ as [(_ & K & _)|(E0 & _ & Sd & _)]; [congruence|].
    assert (BS : RS.block s = Some (sf_sid fr)).
    { rewrite (block_of_ec hstate c s (S_blk _ _ _ _ HS)). replace (sc_expectCont c =? 0) with false by (symmetry; apply N.eqb_neq; exact E0). congruence. }
    assert (V : RS.verdicts s (RS.Frame (abs_frame fr)) = RS.on_stream s (abs_frame fr)) by (apply verdicts_cont; assumption).
    assert (NI : st_state st <> SIdle).
    { intro X. destruct (F_h1 _ _ _ _ _ _ _ SF X) as (_ & _ & _ & KHx & _). congruence. }
    destruct (F_h2 _ _ _ _ _ _ _ SF NI) as (_ & _ & Hph & _ & Fe). pose proof (Fe (eq_sym Sd)) as Fin.
    assert (RF : hdr_refused st fr = false) by (unfold hdr_refused; rewrite Fin, KCn; reflexivity).
    assert (XS : (st_state st = SOpen /\ RS.st_of s (sf_sid fr) = RS.Open) \/ (st_state st = SHalfClosed /\ RS.st_of s (sf_sid fr) = RS.HalfClosedRemote)).
    { destruct (F_state _ _ _ _ _ _ _ SF) as [X|[X|X]]; [congruence | left | right]; (split; [exact X|]); rewrite (F_x _ _ _ _ _ _ _ SF), X; reflexivity. }
    assert (OV : RS.on_stream s (abs_frame fr) = (RS.VProcess :: RS.block_errors) ++ RS.policy).
    { unfold RS.on_stream, RS.by_state. change (RS.f_sid (abs_frame fr)) with (sf_sid fr).
      destruct XS as [[_ X]|[_ X]]; rewrite X; unfold abs_frame; cbn [RS.f_kind]; rewrite KCn; reflexivity. }
    apply (K_hdr_core c s ph fr ec' c2 st l' h' KI (or_intror KCn)); auto.
    + unfold verify_state, continuing_headers. rewrite KCn, Fin. destruct XS as [[X _]|[X _]]; rewrite X; reflexivity.
    + unfold continuing_headers. rewrite KCn, Fin. destruct XS as [[X _]|[X _]]; rewrite X; reflexivity.
    + rewrite RF. discriminate.
    + intros _. rewrite OV in V. apply (hdr_open_of s fr (RS.block_errors ++ RS.policy) V); intros v H; apply in_or_app; auto.
    + intros _. rewrite Hph. unfold phase_of, RS.request_step, hs_state, abs_frame. cbn [RS.f_kind RS.f_es RS.f_eh]. rewrite Fin, KCn. cbn.
      destruct XS as [[X _]|[X _]]; rewrite X; cbn; destruct (flag_has (sf_flags fr) FL_EH); reflexivity.
Qed.

(* ---------- a frame on a stream: putting the pieces together ---------- *)

Lemma K_any c s ph fr ec' c2 st l' h' :
  kin c s ph fr ec' c2 st l' h' -> match sf_kind fr with KPing | KPush => False | _ => True end ->
  feed c (IIn (RFrame fr)) = fst (tail (handle_frame dec_field cfg c2 st fr) fr (sc_closing c)) ->
  G c s ph (RFrame fr) (feed c (IIn (RFrame fr))).
Proof.
  intros KI Kok E. destruct (sf_kind fr) eqn:KK; try contradiction.
  - apply (K_data c s ph fr ec' c2 st l' h' KI KK E).
  - apply (K_hdr c s ph fr ec' c2 st l' h' KI (or_introl KK) E).
  - apply (K_prio c s ph fr ec' c2 st l' h' KI KK E).
  - apply (K_rst c s ph fr ec' c2 st l' h' KI KK E).
  - apply (K_other c s ph fr ec' c2 st l' h' KI (or_introl KK) E).
  - apply (K_other c s ph fr ec' c2 st l' h' KI (or_intror KK) E).
  - apply (K_winupd c s ph fr ec' c2 st l' h' KI KK E).
  - apply (K_hdr c s ph fr ec' c2 st l' h' KI (or_intror KK) E).
Qed.

(* a stream made for a frame that cannot open one: PROTOCOL_ERROR *)
Lemma K_created_other c s ph fr ec' c2 st :
  Sim c s ph -> sc_sl_done c = false -> seq_ok c fr ec' -> N.odd (sf_sid fr) = true -> tbl c (sf_sid fr) = None ->
  sf_kind fr <> KHeaders -> match sf_kind fr with KPing | KPush => False | _ => True end ->
  (fkind_eqb (sf_kind fr) KCont && negb (sc_discardID c =? 0) && (sf_sid fr =? sc_discardID c) = false)%bool ->
  created hstate (upd_expectCont c ec') fr c2 st ->
  feed c (IIn (RFrame fr)) = fst (sl_known hstate dec_field cfg c2 st fr (sc_closing c)) ->
  G c s ph (RFrame fr) (feed c (IIn (RFrame fr))).
Proof.
  intros HS Hsl SQ Od Tn NH Kok ND (Hst & Rn & Ll & Hc) E.
  pose proof (S_aux _ _ _ _ HS) as [AT AH].
  assert (Znn : sf_sid fr <> 0) by (intro Z; rewrite Z in Od; discriminate).
  assert (C2 : c2 = upd_strms (upd_expectCont c ec') (sc_strms c ++ [st])).
  { revert Hc Kok NH. destruct (sf_kind fr); intros; try contradiction; try congruence; exact Hc. }
  assert (KC : kctx c ec' (sc_lastID c) (sc_highestID c) c2) by (rewrite C2; repeat split).
  assert (Sst : st_state st = SIdle /\ st_id st = sf_sid fr) by (rewrite Hst; split; reflexivity).
  destruct Sst as [X Hid].
  assert (HF : handle_frame dec_field cfg c2 st fr = (c2, st, Some (EGoAway c_ProtocolError))).
  { unfold handle_frame, verify_state. rewrite X. revert Hc Kok NH. destruct (sf_kind fr); intros; try contradiction; try congruence; reflexivity. }
  rewrite sl_known_tail in E by (intro K; congruence).
  rewrite HF, tail_goaway in E by discriminate. rewrite Hid in E.
  apply (known_goaway c s ph fr ec' c2 _ _ c2 _ _ HS Hsl KC (hf_eff_refl hstate c2) E).
  (* the specification: idle, or closed long ago *)
  destruct (unknown_state hstate dec_field enc_set_max c s ph _ HS Od Tn) as [Hle Hgt].
  change (ring_find (upd_expectCont c ec') (sf_sid fr)) with (ring_find c (sf_sid fr)) in Rn.
  assert (St : RS.st_of s (sf_sid fr) = RS.Idle \/ RS.st_of s (sf_sid fr) = RS.Closed RS.Implicit).
  { pose proof (S_str _ _ _ _ HS _ Od) as R. rewrite (view_none hstate c _ Tn), Rn in R.
    destruct (sf_sid fr <=? sc_highestID c); cbn [rel] in R; auto. }
  destruct SQ as [(E0 & K & _)|(E0 & K & Sd & _)].
  - assert (BN : RS.block s = None) by (rewrite (block_of_ec hstate c s (S_blk _ _ _ _ HS)), E0; reflexivity).
    left. apply allowed_table.
    revert Hc Kok NH K. destruct (sf_kind fr) eqn:KK; intros; try contradiction; try congruence;
      try (rewrite verdicts_stream_bad; [reflexivity | exact BN | exact Znn | rewrite KK; exact I]);
      (rewrite verdicts_stream; [|exact BN | exact Znn | rewrite KK; exact I];
       unfold RS.on_stream, RS.by_state, abs_frame; cbn [RS.f_kind RS.f_sid]; destruct St as [-> | ->]; rewrite KK; reflexivity).
  - (* CONTINUATION: the HEADERS of this block was a connection error *)
    left. apply allowed_dead; [|reflexivity].
    destruct (S_cont _ _ _ _ HS E0) as [Y|Y]; [rewrite <- Sd; exact Tn | | exact Y].
    exfalso. rewrite K in ND. cbn [fkind_eqb andb] in ND. rewrite Y, <- Sd in ND.
    replace (sf_sid fr =? 0) with false in ND by (symmetry; apply N.eqb_neq; exact Znn). rewrite N.eqb_refl in ND. discriminate.
Qed.

End Frame.
