(* Proofs/SrvRfcFrame.v - C08: handleFrame on a stream of the table, frame type by frame type. *)
From H2V Require Import Base.Bytes Base.MachineInt Base.Result Gen.GenConsts Impl.ServerConn.
From H2V Require Import Proofs.SrvBase Proofs.SrvRfcDefs Proofs.SrvRfcSpec Proofs.SrvRfcModel Proofs.SrvRfcSim Proofs.SrvRfcEff
  Proofs.SrvRfcSend Proofs.SrvRfcStep Proofs.SrvRfcKit Proofs.SrvRfcRl Proofs.SrvRfcSl Proofs.SrvRfcKnown.
From Coq Require Import ZArith Lia ZifyN ZifyNat ZifyBool.
Local Open Scope N_scope.

Section Frame.
Variable hstate : Type.
Variable dec_field : hstate -> N -> bytes -> dec_res hstate.
Variable enc_field : hstate -> bytes -> bytes -> bool -> bytes * hstate.
Variable enc_set_max : hstate -> N -> hstate.
Variable cfg : config.
Notation sconn := (sconn hstate).
Notation feed := (feed hstate dec_field enc_field enc_set_max cfg).
Notation G := (G hstate).
Notation view := (view hstate).
Notation tbl := (tbl hstate).
Notation Sim := (Sim hstate).
Notation AuxT := (AuxT hstate).
Notation AuxH := (AuxH hstate).
Notation seq_ok := (seq_ok hstate).
Notation base := (base hstate).
Notation kctx := (kctx hstate).
Notation kfin := (kfin hstate).
Notation hf_eff := (hf_eff hstate).
Implicit Types c : sconn.

(* handleFrame returned a connection error: GOAWAY, and the stream loop ends *)
Lemma known_goaway c s ph fr ec' c2 l' h' cA s5 code :
  Sim c s ph -> sc_sl_done c = false -> kctx c ec' l' h' c2 -> hf_eff c2 cA ->
  feed c (IIn (RFrame fr)) = fst (brk (put (write_goaway cA (sf_sid fr) code) s5)) ->
  (RS.allowed s (RS.Frame (abs_frame fr)) (RS.ConnErr code) = true \/ known_deviation hstate c s (RFrame fr) = true) ->
  G c s ph (RFrame fr) (feed c (IIn (RFrame fr))).
Proof.
  intros HS Hsl KC HE E Ha. pose proof (S_aux _ _ _ _ HS) as [AT AH].
  destruct (kfin_of hstate c ec' l' h' c2 cA Hsl KC HE) as (dq & KF & Qq & Qnd).
  destruct KF as (K1 & K2 & K3 & K4 & K5 & K6 & K7 & K8 & K9 & K10 & K11 & K12).
  apply (G_over hstate dec_field enc_field enc_set_max cfg c s ph (RFrame fr) _ (OExit 1 0 :: OGoAway (sc_lastID cA) code :: dq) E).
  - reflexivity.
  - rewrite sc_out_brk, sc_out_put, sc_out_write_goaway, K7, K9, K12, (A_wl _ _ AT). reflexivity.
  - reflexivity.
  - cbn [abs_input input_sid filter noisy strip_late rev]. rewrite Qq. cbn [rev app]. unfold classify. cbn [first_some is_goaway strip_late]. exact Ha.
  - intros sid rq [H|[H|H]]; try discriminate. exfalso. exact (Qnd sid rq H).
Qed.

Lemma known_panic c s ph fr ec' c2 l' h' cA :
  Sim c s ph -> sc_sl_done c = false -> kctx c ec' l' h' c2 -> hf_eff c2 cA ->
  feed c (IIn (RFrame fr)) = fst (brk (note cA (OPanic 1 0))) ->
  (RS.allowed s (RS.Frame (abs_frame fr)) RS.ConnClose = true \/ known_deviation hstate c s (RFrame fr) = true) ->
  G c s ph (RFrame fr) (feed c (IIn (RFrame fr))).
Proof.
  intros HS Hsl KC HE E Ha. pose proof (S_aux _ _ _ _ HS) as [AT AH].
  destruct (kfin_of hstate c ec' l' h' c2 cA Hsl KC HE) as (dq & KF & Qq & Qnd).
  destruct KF as (K1 & K2 & K3 & K4 & K5 & K6 & K7 & K8 & K9 & K10 & K11 & K12).
  apply (G_over hstate dec_field enc_field enc_set_max cfg c s ph (RFrame fr) _ (OExit 1 0 :: OPanic 1 0 :: dq) E).
  - reflexivity.
  - rewrite sc_out_brk. cbn [sc_out note upd_out]. rewrite K12. reflexivity.
  - reflexivity.
  - cbn [abs_input input_sid filter noisy strip_late rev]. rewrite Qq. cbn [rev app]. rewrite classify_close; [exact Ha | | reflexivity].
    intros o [<-|[<-|[]]]; reflexivity.
  - intros sid rq [H|[H|H]]; try discriminate. exfalso. exact (Qnd sid rq H).
Qed.

(* ---------- the HEADERS prelude does nothing ---------- *)

Lemma get_previous_In l p : get_previous_headers l = Some p -> In p l.
Proof.
  unfold get_previous_headers. intro H.
  destruct (filter (fun s => fkind_eqb (st_orig s) KHeaders) (rev l)) as [|a [|b t]] eqn:F; try discriminate. inversion H; subst.
  assert (X : In p (filter (fun s => fkind_eqb (st_orig s) KHeaders) (rev l))) by (rewrite F; right; left; reflexivity).
  apply filter_In in X. destruct X as [X _]. apply in_rev in X. exact X.
Qed.

Lemma get_previous_snoc old new p : fkind_eqb (st_orig new) KHeaders = true ->
  get_previous_headers (old ++ [new]) = Some p -> In p old.
Proof.
  unfold get_previous_headers. rewrite rev_app_distr. cbn [rev app filter]. intros O H. rewrite O in H.
  destruct (filter (fun s => fkind_eqb (st_orig s) KHeaders) (rev old)) as [|b t] eqn:F; try discriminate. inversion H; subst.
  assert (X : In p (filter (fun s => fkind_eqb (st_orig s) KHeaders) (rev old))) by (rewrite F; left; reflexivity).
  apply filter_In in X. destruct X as [X _]. apply in_rev in X. exact X.
Qed.

Lemma implicit_close_noop k c sid :
  (forall n t, sc_strms c = n :: t -> ((st_id n <? sid) && sstate_eqb (st_state n) SIdle && fkind_eqb (st_orig n) KHeaders)%bool = false) ->
  implicit_close k c sid = c.
Proof.
  intro H. destruct k as [|k]; [reflexivity|]. cbn [implicit_close]. destruct (sc_strms c) as [|n t] eqn:E; [reflexivity|].
  rewrite (H n t eq_refl). reflexivity.
Qed.

(* ---------- what is known about the stream a frame is handled on ---------- *)

Record sfacts c (s : RS.state) (ph : N -> RS.phase) (fr : sframe) (st : stream) (l' h' : N) : Prop := {
  F_id : st_id st = sf_sid fr;
  F_state : st_state st = SIdle \/ st_state st = SOpen \/ st_state st = SHalfClosed;
  F_x : RS.st_of s (sf_sid fr) = abs_st (st_state st);
  F_h1 : st_state st = SIdle -> h' = sf_sid fr /\ sc_highestID c < sf_sid fr /\ sc_closing c = false /\ sf_kind fr = KHeaders /\
                                st_headersFinished st = false /\ st_responded st = false /\ st_handlerRunning st = false /\
                                ph (sf_sid fr) = RS.PStart /\ st_prev st = [] /\ st_pending st = [] /\ st_bodyStream st = None;
  F_h2 : st_state st <> SIdle -> h' = sc_highestID c /\ tbl c (sf_sid fr) = Some st /\ ph (sf_sid fr) = phase_of st /\
                                 (st_headersFinished st = false -> sf_sid fr = sc_expectCont c) /\
                                 (sc_expectCont c = sf_sid fr -> st_headersFinished st = false);
  F_wr : st_weReset st = false;
  F_resp : st_responded st = true \/ st_handlerRunning st = true -> st_state st = SHalfClosed /\ st_headersFinished st = true;
  F_once : st_state st = SHalfClosed -> st_headersFinished st = true -> st_responded st = true;
  F_send : send_ok st
}.

Lemma sfacts_found c s ph fr st : Sim c s ph -> N.odd (sf_sid fr) = true -> tbl c (sf_sid fr) = Some st ->
  sfacts c s ph fr st (sc_lastID c) (sc_highestID c).
Proof.
  intros HS Od T. pose proof (S_aux _ _ _ _ HS) as [AT AH].
  pose proof (search_In _ _ _ T) as HIn. pose proof (search_id _ _ _ T) as Hid.
  destruct (A_st _ _ AT st HIn) as (A & B & C & D).
  pose proof (S_str _ _ _ _ HS _ Od) as R. unfold SrvRfcDefs.view in R. rewrite T in R.
  constructor.
  - exact Hid.
  - destruct A as [A|A]; rewrite A; auto.
  - destruct A as [A|A]; rewrite A in *; cbn [rel abs_st] in *; exact R.
  - intro X. destruct A as [A|A]; congruence.
  - intros _. split; [reflexivity|]. split; [exact T|]. split; [rewrite <- Hid; apply (S_ph _ _ _ _ HS st HIn)|]. split.
    + intro F. rewrite <- Hid. apply (A_fin _ _ AH st HIn F).
    + intro E. apply (A_ec _ _ AH st); [rewrite E; intro Z; rewrite Z in Od; discriminate | rewrite E; exact T].
  - exact B.
  - exact C.
  - exact D.
  - exact (A_snd _ _ AT st HIn).
Qed.

Lemma sfacts_created c s ph fr ec' c2 st : Sim c s ph -> N.odd (sf_sid fr) = true -> tbl c (sf_sid fr) = None ->
  sf_kind fr = KHeaders -> created hstate (upd_expectCont c ec') fr c2 st ->
  sfacts c s ph fr st (sf_sid fr) (sf_sid fr).
Proof.
  intros HS Od Tn KH (-> & Rn & Ll & Hc). rewrite KH in Hc. destruct Hc as (Hgt & Hcl & _).
  change (sc_highestID (upd_expectCont c ec')) with (sc_highestID c) in Hgt. change (sc_closing (upd_expectCont c ec')) with (sc_closing c) in Hcl.
  destruct (proj2 (unknown_state hstate dec_field enc_set_max c s ph _ HS Od Tn) Hgt) as [Hidle _].
  constructor; cbn.
  - reflexivity.
  - left. reflexivity.
  - exact Hidle.
  - intros _. repeat split; auto. apply (S_new _ _ _ _ HS Hcl _ Od Hgt).
  - intro X. congruence.
  - reflexivity.
  - intros [X|X]; discriminate.
  - discriminate.
  - unfold send_ok, has_more_to_send. cbn. discriminate.
Qed.

(* ---------- the part of sl_known after handleFrame ---------- *)

Definition tail (r : sconn * stream * option h2err) (fr : sframe) (wasClosing : bool) : sconn * bool :=
  let '(c3, s3, e) := r in
  match e with
  | Some e =>
    let '(c4, s4) := write_error c3 (Some s3) e in
    let s5 := match s4 with Some x => set_state x SClosed | None => set_state s3 SClosed end in
    match e with
    | EGoAway code => if negb (code =? c_NoError) then brk (put c4 s5) else after_frame cfg c4 s5 fr wasClosing
    | EReset _ => after_frame cfg c4 s5 fr wasClosing
    | EPanic => brk (note c3 (OPanic 1 0))
    end
  | None => after_frame cfg c3 s3 fr wasClosing
  end.

Lemma sl_known_tail c2 st fr wc :
  (sf_kind fr = KHeaders ->
   implicit_close (S (length (sc_strms c2))) c2 (st_id st) = c2 /\
   forall p, get_previous_headers (sc_strms c2) = Some p -> st_headersFinished p = true) ->
  sl_known hstate dec_field cfg c2 st fr wc = tail (handle_frame dec_field cfg c2 st fr) fr wc.
Proof.
  intro H. unfold sl_known, tail. destruct (fkind_eqb (sf_kind fr) KHeaders) eqn:K.
  - apply fkind_eqb_eq in K. destruct (H K) as [IC GP].
    destruct (get_previous_headers (sc_strms c2)) as [p|] eqn:G.
    + rewrite (GP p eq_refl). cbn [negb]. rewrite IC. reflexivity.
    + rewrite IC. reflexivity.
  - reflexivity.
Qed.

(* the three ways a frame can end badly, once handleFrame has answered *)
Lemma tail_goaway c3 s3 code fr wc : code <> c_NoError ->
  tail (c3, s3, Some (EGoAway code)) fr wc = brk (put (write_goaway c3 (st_id s3) code) (set_state (set_state s3 SClosed) SClosed)).
Proof. intro H. unfold tail. cbn [write_error]. replace (code =? c_NoError) with false by (symmetry; apply N.eqb_neq; exact H). reflexivity. Qed.

Lemma tail_reset c3 s3 code fr wc :
  tail (c3, s3, Some (EReset code)) fr wc =
  after_frame cfg (write_reset c3 (st_id s3) code) (set_state (set_state (set_weReset s3) SClosed) SClosed) fr wc.
Proof. reflexivity. Qed.

Lemma tail_panic c3 s3 fr wc : tail (c3, s3, Some EPanic) fr wc = brk (note c3 (OPanic 1 0)).
Proof. reflexivity. Qed.

Lemma tail_ok c3 s3 fr wc : tail (c3, s3, None) fr wc = after_frame cfg c3 s3 fr wc.
Proof. reflexivity. Qed.

End Frame.
