(* Proofs/SrvIsoInst.v - the abstract reference of Proofs/SrvIsoRef.v, for the server instantiated with the real
   HPACK model (Impl/ServerInst.v): it is the header-block loop of Impl/Hpack.v (frame_loop), the function that
   C03 (Props/C03.v) proves to be RFC 7541 and split-invariant. *)
From H2V Require Import Base.Bytes Base.MachineInt Base.Result Gen.GenConsts Impl.Hpack Impl.ServerConn Impl.ServerInst
  Proofs.SrvBase Proofs.SrvIsoRef Proofs.HpackTotal.
From Coq Require Import ZArith Lia ZifyN ZifyNat ZifyBool.
Local Open Scope N_scope.

Definition kv_of (f : field) : bytes * bytes := (f_key f, f_value f).

(* whenever the HPACK model's frame loop accepts a fragment, the server's reference decodes it the same way *)
Lemma ref_run_of_frame_loop fuel : forall hp hf eh n b fs hp' st,
  frame_loop fuel hp hf eh n b = Ok (fs, hp', st) ->
  ref_run srv_dec_field eh hp n b (map kv_of fs) hp' (s_block_fields st) (s_prev st).
Proof.
  induction fuel as [|fuel IH]; intros hp hf eh n b fs hp' st; destruct b as [|x b]; cbn [frame_loop].
  - intro H; inversion H; subst. constructor.
  - discriminate.
  - intro H; inversion H; subst. constructor.
  - pose proof (next_field_ignores_hf hp hf empty_field true n (x :: b)) as (ER & EH & EF). cbv zeta in *.
    assert (SD : srv_dec_field hp n (x :: b) =
                 match nf_res (next_field hp hf true n (x :: b)) with
                 | Ok (rest, true) => DField _ (f_key (nf_hf (next_field hp hf true n (x :: b)))) (f_value (nf_hf (next_field hp hf true n (x :: b)))) rest (nf_hp (next_field hp hf true n (x :: b)))
                 | Ok (_, false) => DNone _ (nf_hp (next_field hp hf true n (x :: b)))
                 | Err e => if e =? E_unexpected_size then DShort _ (nf_hp (next_field hp hf true n (x :: b))) else DFail _ (nf_hp (next_field hp hf true n (x :: b)))
                 | Panic _ => DPanic _
                 end).
    { unfold srv_dec_field. rewrite <- ER, <- EH. destruct (nf_res (next_field hp hf true n (x :: b))) as [[rest [|]]|e|w] eqn:R; try reflexivity.
      rewrite <- (EF rest eq_refl). reflexivity. }
    destruct (nf_res (next_field hp hf true n (x :: b))) as [[rest [|]]|e|w] eqn:R.
    + destruct (frame_loop fuel _ _ eh (n + 1) rest) as [[[fs1 hp1] st1]|e1|w1] eqn:FL; try discriminate.
      intro H; inversion H; subst. cbn [map]. eapply rr_field; [discriminate | exact SD | eapply IH; exact FL].
    + intro H; inversion H; subst. cbn [map s_block_fields s_prev]. apply rr_none; [discriminate | exact SD].
    + destruct ((e =? E_unexpected_size) && (0 <? len (x :: b)) && negb eh)%bool eqn:C; [|discriminate].
      apply andb_prop in C. destruct C as [C C3]. apply andb_prop in C. destruct C as [C1 C2].
      intro H; inversion H; subst. cbn [map s_block_fields s_prev]. rewrite C1 in SD.
      apply rr_short; [discriminate | apply negb_true_iff; exact C3 | exact SD].
    + discriminate.
Qed.

(* one frame of a block (Impl/Hpack.v handle_header_frame: payload, END_HEADERS, CONTINUATION?) *)
Lemma ref_run_of_hpack_frame hp st payload eh ic fs hp' st' :
  Hpack.handle_header_frame hp st (payload, eh, ic) = Ok (fs, hp', st') ->
  ref_run srv_dec_field eh hp (if ic then s_block_fields st else 0) (s_prev st ++ payload) (map kv_of fs) hp'
          (s_block_fields st') (s_prev st').
Proof.
  unfold Hpack.handle_header_frame.
  destruct (frame_loop _ hp empty_field eh (if ic then s_block_fields st else 0) (s_prev st ++ payload)) as [[[fs1 hp1] st1]|e|w] eqn:FL;
    try discriminate.
  destruct (eh && negb (len (s_prev st1) =? 0))%bool; [discriminate|]. intro H; inversion H; subst.
  eapply ref_run_of_frame_loop. exact FL.
Qed.

(* the hypothesis of header_frame_not_fatal (Proofs/SrvIsoErr.v) holds for the real decoder: a decoded field
   consumes at least one octet *)
From H2V Require Import Proofs.HpackBlock.
Lemma srv_dec_shrinks : forall d n b k v rest d',
  srv_dec_field d n b = DField _ k v rest d' -> (length rest < length b)%nat.
Proof.
  intros d n b k v rest d'. unfold srv_dec_field.
  destruct (nf_res (next_field d empty_field true n b)) as [[rest0 [|]]|e|w] eqn:R; try discriminate.
  - intro H; inversion H; subst. destruct b as [|x b].
    + exfalso. revert R. unfold next_field. cbn. discriminate.
    + destruct (next_field_progress d empty_field true n (x :: b) rest true) as [L _]; [discriminate | exact R | exact L].
  - destruct (e =? E_unexpected_size); discriminate.
Qed.
