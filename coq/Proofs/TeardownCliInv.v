(* Proofs/TeardownCliInv.v -- blocking-structure model (Impl/Teardown.v), client: the invariants (definitions, initial states).
   Statements: Props/Teardown.v; overview: Proofs/TeardownProofs.v. *)
From Coq Require Import Arith Lia Bool List.
From RecordUpdate Require Import RecordSet.
Import RecordSetNotations.
Import ListNotations.
From H2V Require Import Impl.Teardown.

Module CliP.
Import Cli.

Ltac break :=
  repeat match goal with
         | H : _ /\ _ |- _ => destruct H
         | H : exists _, _ |- _ => destruct H
         end.
Ltac rw_pcs :=
  repeat match goal with
         | H : xc ?s = _ |- _ => rewrite H in *; clear H
         | H : tx ?s = _ |- _ => rewrite H in *; clear H
         | H : wl ?s = _ |- _ => rewrite H in *; clear H
         | H : rl ?s = _ |- _ => rewrite H in *; clear H
         | H : uc ?s = _ |- _ => rewrite H in *; clear H
         end.
Ltac rwk :=
  repeat match goal with
         | H : xc ?s = _ |- _ => progress (rewrite H in * )
         | H : tx ?s = _ |- _ => progress (rewrite H in * )
         | H : wl ?s = _ |- _ => progress (rewrite H in * )
         | H : rl ?s = _ |- _ => progress (rewrite H in * )
         | H : uc ?s = _ |- _ => progress (rewrite H in * )
         end.
Ltac bools :=
  repeat match goal with
         | H : ?f ?s = true |- _ => rewrite H in *; clear H
         | H : ?f ?s = false |- _ => rewrite H in *; clear H
         end.

Definition lx_of (hw hr : hold) : lx_t :=
  match hw, hr with HX, _ => LxWl | _, HX => LxRl | _, _ => LxNone end.
Definition bw_of_state (s : state) : bw_t :=
  match wl s, rl s, uc s with
  | LWrite _, _, _ | LClose CWrite, _, _ => BwWl
  | _, RClose CWrite, _ => BwRl
  | _, _, UClose CWrite => BwUc
  | _, _, _ => BwNone
  end.
Definition bcount (s : state) : nat :=
  b2n (match wl s with LWrite _ | LClose CWrite => true | _ => false end) +
  b2n (match rl s with RClose CWrite => true | _ => false end) +
  b2n (match uc s with UClose CWrite => true | _ => false end).
Definition is_mid (o : option close_pc) : bool :=
  match o with Some CDone | Some CLock | Some CWrite => true | _ => false end.
Definition is_cdone (o : option close_pc) : bool :=
  match o with Some CDone => true | _ => false end.
Definition is_late (o : option close_pc) : bool :=
  match o with Some CLock | Some CWrite => true | _ => false end.
Definition midn (s : state) : nat :=
  b2n (is_mid (cpc 0 s)) + b2n (is_mid (cpc 1 s)) + b2n (is_mid (cpc 2 s)).
Definition wl_torn (p : wl_pc) : bool := match p with LT2 | LT3 | LDone => true | _ => false end.
Definition wl_drained (p : wl_pc) : bool := match p with LT3 | LDone => true | _ => false end.
Definition wl_early (p : wl_pc) : bool := match p with LIter | LAcq => true | _ => false end.
Definition waiting (p : xc_pc) : bool :=
  match p with KW1 | KW2 | KLck | KSelf | KErr => true | _ => false end.
Definition tx_fired (p : tx_pc) : bool := match p with TDel | TTake | TOut | TDone => true | _ => false end.
Definition is_ret (p : xc_pc) : bool := match p with KRet => true | _ => false end.

Section P.
Variable cap : nat.
Notation guard := (Cli.guard cap).
Notation reachable := (Cli.reachable cap).

Record inv1 (s : state) : Prop := {
  i_lx : lx s = lx_of (wl_hold s) (rl_hold s);
  i_lx2 : wl_hold s = HX -> rl_hold s = HX -> False;
  i_bw : bw s = bw_of_state s;
  i_bw1 : bcount s <= 1 }.

(* the same, one goroutine at a time (this is the form that is proved inductive) *)
Definition is_hx (h : hold) : bool := match h with HX => true | _ => false end.
Definition lx_is_wl (l : lx_t) : bool := match l with LxWl => true | _ => false end.
Definition lx_is_rl (l : lx_t) : bool := match l with LxRl => true | _ => false end.
Definition bw_is_wl (b : bw_t) : bool := match b with BwWl => true | _ => false end.
Definition bw_is_rl (b : bw_t) : bool := match b with BwRl => true | _ => false end.
Definition bw_is_uc (b : bw_t) : bool := match b with BwUc => true | _ => false end.
Definition wl_has_b (p : wl_pc) : bool := match p with LWrite _ | LClose CWrite => true | _ => false end.
Definition rl_has_b (p : rl_pc) : bool := match p with RClose CWrite => true | _ => false end.
Definition uc_has_b (p : uc_pc) : bool := match p with UClose CWrite => true | _ => false end.
Record inv1c (s : state) : Prop := {
  c_lxw : lx_is_wl (lx s) = is_hx (wl_hold s);
  c_lxr : lx_is_rl (lx s) = is_hx (rl_hold s);
  c_bww : bw_is_wl (bw s) = wl_has_b (wl s);
  c_bwr : bw_is_rl (bw s) = rl_has_b (rl s);
  c_bwu : bw_is_uc (bw s) = uc_has_b (uc s) }.
Record inv2 (s : state) : Prop := {
  i_done : done s = true -> closed s = true;
  i_mid0 : closed s = false -> midn s = 0;
  i_mid1 : midn s <= 1;
  i_cd : closed s && negb (done s) = is_cdone (cpc 0 s) || is_cdone (cpc 1 s) || is_cdone (cpc 2 s);
  i_late0 : is_late (cpc 0 s) = true -> done s = true;
  i_late1 : is_late (cpc 1 s) = true -> done s = true;
  i_late2 : is_late (cpc 2 s) = true -> done s = true;
  i_scl : sclosed s = true -> done s = true;
  i_raced : wl_torn (wl s) = true -> done s = true \/ raced s = true }.
Record inv3 (s : state) : Prop := {
  i_in : inq s + xin s <= cap;
  i_out : outq s <= cap }.
Record inv4 (s : state) : Prop := {
  i_w1 : xc s = KW1 -> xloc s = XOut;
  i_w2 : xc s = KW2 -> xloc s <> XOut;
  i_w3 : xc s = KLck -> xloc s <> XOut;
  i_sid : xsid s = true -> xloc s = XTab \/ xloc s = XGone;
  i_acq : wl s = LAcq -> xloc s = XWl \/ xloc s = XTab \/ xloc s = XGone;
  i_res : xres s = true -> xc s = KRet;
  i_xdone : waiting (xc s) = true -> xdone s = true -> xerr s = true;
  i_gone : waiting (xc s) = true -> xloc s = XGone -> xerr s = true;
  i_fired : waiting (xc s) = true -> tx_fired (tx s) = true -> xerr s = true;
  i_out_err : xc s = KErr -> xloc s = XOut -> xerr s = true;
  i_xwl : xloc s = XWl -> wl_early (wl s) = true;
  i_drained : wl_drained (wl s) = true -> xloc s <> XTab /\ xloc s <> XWl;
  i_j : xc s = KErr -> xloc s = XIn -> wl s = LDone -> raced s = true \/ xerr s = true }.
Definition inv (s : state) : Prop := inv1 s /\ inv2 s /\ inv3 s /\ inv4 s.

Ltac unf := unfold lx_of, bcount, wl_hold, rl_hold, rl_k, rl_stop, bw_of_state, midn, cpc, xin, resolveX, release, set_cpc, end_cpc,
  bw_of, dead in *.
Ltac act_cases a :=
  destruct a;
  try match goal with p : nat |- _ => destruct p as [|[|[|p]]] end.
Ltac dm :=
  match goal with
  | |- context[match ?x with _ => _ end] =>
      lazymatch x with
      | context[match _ with _ => _ end] => fail
      | _ => destruct x eqn:?
      end
  | H : context[match ?x with _ => _ end] |- _ =>
      lazymatch x with
      | context[match _ with _ => _ end] => fail
      | _ => destruct x eqn:?
      end
  end.
Ltac easy_fin := solve [auto | congruence | lia | tauto | (intuition congruence) ].
Ltac fwd :=
  repeat match goal with
         | H : ?A -> _, H' : ?A |- _ => specialize (H H')
         | H : ?x = ?x -> _ |- _ => specialize (H eq_refl)
         end.
Ltac rwx :=
  repeat match goal with
         | H : xloc ?s = _ |- _ => progress (rewrite H in * )
         end.
Ltac fin := cbn in *; intros; subst; rwk; rwx; fwd; rwk; cbn in *; rewrite ?orb_false_r in *;
  first [ easy_fin | dm; fin ].
Ltac prep G := cbn in G; break; try lia;
  repeat match goal with b : bool |- _ => destruct b | h : hold |- _ => destruct h end;
  unf; rwk; cbn in *; unf;
  try match goal with |- context[xres ?s] => destruct (xres s) eqn:? end; cbn in *.

Lemma inv_init : forall s, init cap s -> inv s.
Proof.
  unfold init; intros s H; break.
  repeat split; unfold bcount, midn, bw_of_state, cpc, wl_hold, rl_hold, xin in *; rw_pcs; bools; cbn; auto;
    try congruence; try lia; try (intros; discriminate).
  all: try (rewrite H4; lia); try (destruct H0 as [-> | ->]; cbn; intros; discriminate).
  all: try (rewrite H4; intros; discriminate).
Qed.

End P.
End CliP.
