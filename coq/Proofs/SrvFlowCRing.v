(* Proofs/SrvFlowCRing.v - C06 completion: the ids remembered in the ring of closed streams, and the ids in the table,
   are at most sc_highestID (for every event list, while the stream loop runs). Needed to know that a stream that
   is created in the table has never been opened in the peer's ledger before. *)
From H2V Require Import Base.Bytes Base.MachineInt Base.Result Gen.GenConsts Impl.ServerConn Proofs.SrvBase
  Spec.FlowLedger Proofs.SrvFlowLedger Proofs.SrvFlowDefs Proofs.SrvFlowSend Proofs.SrvFlowEff Proofs.SrvFlowSafe
  Proofs.SrvFlowSafeB Proofs.SrvFlowSafeC Proofs.SrvFlowCDecomp.
From Coq Require Import ZArith Lia ZifyN ZifyNat ZifyBool List.
Import ListNotations.
Local Open Scope N_scope.
Set Default Proof Using "Type".

Section Ring.
Variable hstate : Type.
Variable dec_field : hstate -> N -> bytes -> dec_res hstate.
Variable enc_field : hstate -> bytes -> bytes -> bool -> bytes * hstate.
Variable enc_set_max : hstate -> N -> hstate.
Variable cfg : config.
Notation sconn := (sconn hstate).
Implicit Types c : sconn.
Notation RI := (RI hstate).
Notation RIP := (RIP hstate).

Lemma RIP_close_id c s : st_id s <= sc_highestID c -> RIP c (close_stream c s).
Proof.
  intros Hid [A B]. split.
  - rewrite sc_highestID_close_stream, sc_ring_close_stream. intros e He.
    destruct (mark_closed_ring_In _ _ _ _ _ He) as [->|H]; [exact Hid | auto].
  - rewrite sc_highestID_close_stream, sc_strms_close_stream. intros x Hx. apply B. eapply strms_del_In. exact Hx.
Qed.

Lemma SDL_RIP sid c n r k : SDL sid c n r k -> RIP c (fst (fst (fst r))).
Proof. intro H. rewrite (SDL_nf _ _ _ _ _ _ H). apply RIP_same; sc_cbn; try reflexivity; flia. Qed.

Lemma send_data_RIP c s : RIP c (fst (fst (send_data c s))).
Proof.
  unfold send_data.
  destruct (send_data_loop_SDL _ (st_id s) (send_data_fuel (get_snd s)) c (get_snd s)) as [k H].
  pose proof (SDL_RIP _ _ _ _ _ H) as R.
  destruct (send_data_loop (send_data_fuel (get_snd s)) c (st_id s) (get_snd s)) as [[[c1 n1] done] wr]. exact R.
Qed.

Lemma send_data_hi c s : sc_highestID (fst (fst (send_data c s))) = sc_highestID c.
Proof.
  unfold send_data.
  destruct (send_data_loop_SDL _ (st_id s) (send_data_fuel (get_snd s)) c (get_snd s)) as [k H].
  pose proof (SDL_Frame _ _ _ _ _ _ H) as (_ & _ & _ & _ & E).
  destruct (send_data_loop (send_data_fuel (get_snd s)) c (st_id s) (get_snd s)) as [[[c1 n1] done] wr]. exact E.
Qed.

Lemma send_data_id c s : st_id (snd (fst (send_data c s))) = st_id s.
Proof.
  unfold send_data.
  destruct (send_data_loop (send_data_fuel (get_snd s)) c (st_id s) (get_snd s)) as [[[c1 n1] done] wr].
  cbn [fst snd]. destruct wr; reflexivity.
Qed.

Lemma finish_request_RIP c s r : RIP c (fst (fst (finish_request enc_field c s r))).
Proof.
  unfold finish_request. destruct (response_block enc_field (sc_enc c) r) as [blk e'].
  match goal with |- context [if ?b then _ else _] => destruct b end; cbn [fst].
  - eapply RIP_trans; [apply RIP_upd_enc | apply RIP_emit].
  - eapply RIP_trans; [apply RIP_upd_enc|]. eapply RIP_trans; [apply RIP_emit | apply send_data_RIP].
Qed.

Lemma finish_request_id_hi c s r :
  st_id (snd (fst (finish_request enc_field c s r))) = st_id s /\
  sc_highestID (fst (fst (finish_request enc_field c s r))) = sc_highestID c.
Proof.
  unfold finish_request. destruct (response_block enc_field (sc_enc c) r) as [blk e'].
  match goal with |- context [if ?b then _ else _] => destruct b end; cbn [fst snd].
  - split; [reflexivity | rewrite sc_highestID_emit; reflexivity].
  - rewrite send_data_id, send_data_hi, sc_highestID_emit. split; reflexivity.
Qed.

Lemma flush_loop_RIP ids : forall c done, RIP c (fst (flush_loop c ids done)).
Proof.
  induction ids as [|id t IH]; intros c done; cbn [flush_loop]; [apply RIP_refl|].
  destruct (strms_search (sc_strms c) id) as [s|]; [|apply IH].
  destruct (st_responded s && negb (st_handlerRunning s) && has_more_to_send s); [|apply IH].
  pose proof (send_data_RIP c s) as R. destruct (send_data c s) as [[c1 s1] fin]. cbn [fst] in R.
  eapply RIP_trans; [exact R|]. eapply RIP_trans; [apply RIP_put | apply IH].
Qed.

Lemma close_all_RIP ids : forall c, RIP c (close_all c ids).
Proof.
  induction ids as [|id t IH]; intro c; cbn [close_all]; [apply RIP_refl|].
  destruct (strms_search (sc_strms c) id) as [s|] eqn:F; [|apply IH].
  eapply RIP_trans; [|apply IH]. apply RIP_close_stream. cbn [st_id set_state].
  apply strms_search_In in F. destruct F as [Hin <-]. apply in_map. exact Hin.
Qed.

Lemma flush_streams_RIP c : RIP c (flush_streams c).
Proof.
  unfold flush_streams. pose proof (flush_loop_RIP (map st_id (sc_strms c)) c []) as R.
  destruct (flush_loop c (map st_id (sc_strms c)) []) as [c1 done]. cbn [fst] in R.
  eapply RIP_trans; [exact R | apply close_all_RIP].
Qed.

Lemma after_frame_RIP c s fr wc : st_id s <= sc_highestID c -> RIP c (fst (after_frame cfg c s fr wc)).
Proof.
  intro Hid. unfold after_frame. cbv zeta.
  destruct (handle_state_eff fr s) as ((I1 & _) & _). set (s1 := handle_state fr s) in *.
  match goal with |- context [let '(c2, s2) := ?X in _] =>
    assert (M : RIP c (fst X) /\ st_id (snd X) = st_id s /\ sc_highestID (fst X) = sc_highestID c) end.
  { destruct (sstate_eqb (st_state s1) SHalfClosed && st_headersFinished s1 && negb (st_responded s1)).
    - match goal with |- context [if ?b then _ else _] => destruct b end; cbn [fst snd].
      + split; [apply RIP_write_reset|]. split; [exact I1 | apply sc_highestID_write_reset].
      + split; [apply RIP_note|]. split; [exact I1 | reflexivity].
    - destruct (st_responded s1 && negb (st_handlerRunning s1) && has_more_to_send s1).
      + pose proof (send_data_RIP c s1) as R. pose proof (send_data_id c s1) as E. pose proof (send_data_hi c s1) as E'.
        destruct (send_data c s1) as [[c1 s2] fin]. cbn [fst snd] in *.
        split; [exact R|]. split; [destruct fin; cbn [st_id set_state]; congruence | exact E'].
      + cbn [fst snd]. split; [apply RIP_refl|]. split; [exact I1 | reflexivity]. }
  match goal with |- context [let '(c2, s2) := ?X in _] => destruct X as [c2 s2] end. cbn [fst snd] in M.
  destruct M as (R & I2 & H2).
  assert (G : RIP c (if sstate_eqb (st_state s2) SClosed then close_stream (put c2 s2) s2 else put c2 s2)).
  { eapply RIP_trans; [exact R|]. destruct (sstate_eqb (st_state s2) SClosed).
    - eapply RIP_trans; [apply RIP_put|]. apply RIP_close_id. rewrite sc_highestID_put, I2, H2. exact Hid.
    - apply RIP_put. }
  match goal with |- context [if ?b then brk ?x else cont ?x] => destruct b end; cbn [fst cont]; [|exact G].
  eapply RIP_trans; [exact G | apply RIP_brk].
Qed.

Lemma sc_ring_handle_frame c s fr : sc_ring (fst (fst (handle_frame dec_field cfg c s fr))) = sc_ring c.
Proof.
  destruct (fkind_eqb (sf_kind fr) KData) eqn:K.
  - assert (K' : sf_kind fr = KData) by (destruct (sf_kind fr); try discriminate; reflexivity).
    pose proof (handle_frame_data _ dec_field cfg c s fr K') as D. cbv zeta in D. destruct (data_accepts s).
    + rewrite D. match goal with |- context [if ?b then _ else _] => destruct b end; cbn [fst]; sc_rw; reflexivity.
    + destruct D as (code & _ & ->). reflexivity.
  - destruct (handle_frame_eff _ dec_field cfg c s fr) as (_ & _ & D).
    destruct D as (d & i & p & n & ->); [intro K'; rewrite K' in K; discriminate | reflexivity].
Qed.

Lemma HFok_RIP c2 s fr cX sX : HFok dec_field cfg c2 s fr cX sX -> RIP c2 cX /\ st_id sX = st_id s.
Proof.
  unfold HFok. intro HF.
  pose proof (sc_ring_handle_frame c2 s fr) as RG.
  pose proof (handle_frame_Recv _ dec_field cfg c2 s fr) as R.
  pose proof (handle_frame_eff _ dec_field cfg c2 s fr) as (SS & _ & _).
  destruct (handle_frame dec_field cfg c2 s fr) as [[c3 s3] e]. cbn [fst snd] in *.
  assert (I3 : st_id s3 = st_id s) by apply SS.
  assert (R3 : RIP c2 c3) by (apply RIP_Recv_ring; assumption).
  destruct e as [[code|code|]|].
  - destruct HF as (_ & -> & ->). split; [eapply RIP_trans; [exact R3 | apply RIP_write_goaway] | exact I3].
  - destruct HF as (-> & ->). split; [eapply RIP_trans; [exact R3 | apply RIP_write_reset] | exact I3].
  - contradiction.
  - destruct HF as (-> & ->). split; [exact R3 | exact I3].
Qed.

Lemma Origin_RIP c fr c1 s : Origin c fr c1 s -> RI c -> RI c1 /\ st_id s <= sc_highestID c1.
Proof.
  intros O [A B]. destruct O as [s LE F | KH FD HI LA].
  - split; [split; assumption|]. apply strms_search_In in F. destruct F as [Hin _]. auto.
  - sc_cbn. split; [|unfold new_strm; cbn; flia]. split.
    + sc_cbn. intros e He. specialize (A e He). flia.
    + sc_cbn. intros x Hx. apply in_app_or in Hx. destruct Hx as [Hx|[<-|[]]]; [specialize (B x Hx); flia | unfold new_strm; cbn; flia].
Qed.

Lemma Quiet_hi c c' : Quiet c c' -> sc_highestID c <= sc_highestID c'.
Proof. intro Q. apply Q. Qed.

Lemma sl_frame_RI c fr : RI c ->
  sc_sl_done (fst (sl_frame dec_field enc_set_max cfg c fr)) = true \/ RI (fst (sl_frame dec_field enc_set_max cfg c fr)).
Proof.
  intro H.
  destruct (sl_frame_SLX _ dec_field enc_set_max cfg c fr)
    as [c' Q R G0 G1 HH | c' F O SD | Z K HW c0 newInit delta Fa | Z K W | NZ K | c1 s p NZ Or KH Hp | c1 s c2 cX sX NZ Or CL HF].
  - right. apply R, H.
  - left. exact SD.
  - right. apply flush_streams_RIP. destruct H as [A B]. split.
    + rewrite sc_ring_emit, sc_highestID_emit. sc_cbn. unfold c0, settings_c0. destruct (sf_set_hastable fr); exact A.
    + rewrite sc_strms_emit, sc_highestID_emit. sc_cbn. intros x Hx. apply in_map_iff in Hx. destruct Hx as (x0 & <- & H0).
      cbn [bump st_id set_window]. unfold c0, settings_c0. destruct (sf_set_hastable fr); apply B, H0.
  - right. apply flush_streams_RIP. revert H. apply RIP_same; sc_cbn; try reflexivity; flia.
  - right. revert H. apply RIP_credit.
  - right. destruct (Origin_RIP _ _ _ _ Or H) as [H1 _]. revert H1.
    eapply RIP_trans; [apply RIP_write_goaway | apply RIP_put].
  - right. destruct (Origin_RIP _ _ _ _ Or H) as [H1 I1].
    pose proof (cr_ri _ _ _ CL H1) as H2.
    destruct (HFok_RIP _ _ _ _ _ HF) as [RX IX]. pose proof (RX H2) as HX.
    apply after_frame_RIP; [|exact HX]. rewrite IX.
    destruct (HFok_eff _ dec_field cfg c2 s fr cX sX HF) as (c3 & s3 & Rc & Qc & _).
    pose proof (Quiet_hi _ _ Qc). pose proof (rv_highestID _ _ _ Rc). pose proof (cl_highestID _ _ _ (cr_closes _ _ _ CL)). flia.
Qed.

Lemma sc_ring_rl_step c i : sc_ring (rl_step cfg c i) = sc_ring c.
Proof.
  destruct i as [fr| |code|]; cbn [rl_step].
  - match goal with |- context [match ?R with inl c' => c' | inr c1 => _ end] => set (r := R) end.
    assert (HR : match r with inl c' => sc_ring c' = sc_ring c | inr c1 => sc_ring c1 = sc_ring c end).
    { subst r. repeat match goal with |- context [if ?b then _ else _] => destruct b end; sc_rw; sc_cbn; reflexivity. }
    destruct r as [c'|c1]; [exact HR|].
    destruct (negb (sf_sid fr =? 0)).
    + destruct (check_frame_with_stream fr); sc_rw; exact HR.
    + destruct (sf_kind fr); repeat match goal with |- context [if ?b then _ else _] => destruct b end; sc_rw; exact HR.
  - destruct (negb (sc_expectCont c =? 0)); sc_rw; reflexivity.
  - destruct code; sc_rw; reflexivity.
  - sc_rw. reflexivity.
Qed.

Lemma sl_done_RI c sid r : RI c -> RI (fst (sl_done enc_field cfg c sid r)).
Proof.
  intro H. unfold sl_done. destruct (take_stream (sc_gone c) sid) as [[s rest]|].
  - cbn [fst cont]. revert H. apply RIP_same; sc_rw; sc_cbn; try reflexivity; flia.
  - destruct (strms_search (sc_strms c) sid) as [s|] eqn:F; [|exact H].
    destruct (negb (st_handlerRunning s)); [exact H|].
    apply strms_search_In in F. destruct F as [Hin Hid].
    set (s1 := set_flags s (st_responded s) false (st_abandoned s)).
    pose proof (finish_request_RIP c s1 r H) as H1. destruct (finish_request_id_hi c s1 r) as [I1 E1].
    destruct (finish_request enc_field c s1 r) as [[c1 s2] fin]. cbn [fst snd] in *.
    assert (Hle : st_id s2 <= sc_highestID c1).
    { rewrite I1, E1. subst s1. cbn [st_id set_flags]. apply H, Hin. }
    match goal with |- context [if ?b then brk ?x else cont ?x] => assert (G : RI x) end.
    { destruct fin.
      - apply RIP_close_id; [rewrite sc_highestID_put; exact Hle | apply RIP_put, H1].
      - apply RIP_put, H1. }
    match goal with |- context [if ?b then brk ?x else cont ?x] => destruct b end; cbn [fst cont]; [|exact G].
    apply RIP_brk, G.
Qed.

Variable h0 : hstate.
Notation step := (step dec_field enc_field enc_set_max cfg).

Definition RInv c : Prop := sc_sl_done c = true \/ RI c.

Lemma step_RI c e : RInv c -> RInv (step c e).
Proof.
  intro H. destruct e as [i| |sid r|t| | | |].
  - rewrite step_EvRL. destruct (sc_rl_done c); [exact H|].
    destruct (rl_step_eff _ cfg c i) as [[r1 r2 r3 r4 r5 r6 r7 r8 r9 r10] _].
    destruct H as [H|H]; [left; congruence | right]. revert H.
    apply RIP_same; [apply sc_ring_rl_step | exact r1 | rewrite r6; flia].
  - rewrite step_EvSL. destruct (sc_sl_done c) eqn:SD; [left; exact SD|]. destruct H as [H|H]; [congruence|].
    destruct (sc_readerQ c) as [|fr q].
    + destruct (sc_rl_done c); [left; reflexivity | right; exact H].
    + apply sl_frame_RI. revert H. apply RIP_same; sc_cbn; try reflexivity; flia.
  - rewrite step_EvDone. destruct (sc_sl_done c) eqn:SD; [left; exact SD|]. destruct H as [H|H]; [congruence|].
    right. apply sl_done_RI, H.
  - rewrite step_EvClock. destruct (sc_now c <? t)%Z; [|exact H].
    destruct H as [H|H]; [left; exact H | right]. revert H. apply RIP_same; sc_cbn; try reflexivity; flia.
  - rewrite step_EvTimer. destruct (sc_sl_done c) eqn:SD; [left; exact SD|]. destruct H as [H|H]; [congruence|].
    right. unfold sl_timer. destruct (cf_maxRequestTime cfg <=? 0)%Z; cbn [fst cont]; [exact H|].
    apply (cr_ri _ _ _ (close_heads_ClosesR _ _ c)), H.
  - rewrite step_EvIdle. destruct H as [H|H]; [left; sc_cbn; rewrite sc_sl_done_write_goaway; exact H | right]. revert H.
    eapply RIP_trans; [apply RIP_write_goaway|]. apply RIP_same; sc_cbn; try reflexivity; flia.
  - rewrite step_EvCloser. destruct (sc_closer c && negb (sc_sl_done c)); [left; reflexivity | exact H].
  - rewrite step_EvWriteFail. destruct H as [H|H]; [left; exact H | right]. revert H. apply RIP_same; sc_cbn; try reflexivity; flia.
Qed.

Lemma RI_from evs : forall c, RInv c -> RInv (run_from dec_field enc_field enc_set_max cfg c evs).
Proof. induction evs as [|e evs IH]; intros c H; [exact H|]. rewrite run_from_cons. apply IH, step_RI, H. Qed.

Theorem RI_run evs : RInv (run dec_field enc_field enc_set_max cfg h0 evs).
Proof. rewrite run_eq. apply RI_from. right. split; [intros e [] | intros s []]. Qed.

End Ring.
