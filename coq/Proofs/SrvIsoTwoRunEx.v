(* Proofs/SrvIsoTwoRunEx.v - C09 (c), two-run non-interference on a concrete connection (real HPACK instance; everything
   by computation).
     stream 1: POST, body to come;   stream 3: a field with an upper-case name: the server resets it;
     [the cut] a padded DATA frame for stream 3 that was in flight (3 octets of data, 40000 on the wire);
     stream 5: GET that refers to the HPACK table entry added by stream 1's block; DATA (END_STREAM) for stream 1;
     both handlers return; stream 1's response body is sent.
   With the frame the connection window falls under half and a connection-level WINDOW_UPDATE is queued at once;
   without it nothing is queued: the two traces differ there, and only there. *)
From H2V Require Import Base.Bytes Base.MachineInt Base.Result Gen.GenConsts Impl.Hpack Impl.ServerConn Impl.ServerInst
  Proofs.SrvBase Proofs.SrvIsoRun Proofs.SrvIsoExamples Proofs.SrvIsoTwoRun.
Local Open Scope N_scope.

Definition t_cfg : config := mkCfg 10 0 0 0 65535.
Definition t_evs1 : list event :=
  rx (xfr KHeaders 4 1 [131;132;135; 64;1;97;1;98]) ++
  rx (xfr KHeaders 4 3 [131;132;135; 0;1;65;1;98]).
Definition t_fr : sframe := pfr KData 0 3 40000 [1;2;3] 0.
Definition t_evs2 : list event :=
  rx (xfr KHeaders 5 5 [130;132;135; 190]) ++
  rx (xfr KData 1 1 [120]) ++
  [EvDone 5 (mkResp 200 [] (BBuffered [53])); EvDone 1 (mkResp 200 [] (BBuffered [49]))].

Definition t_rq1 : request := mkReq [80;79;83;84] [47] [104;116;116;112;115] None [([97],[98])] [120].

Lemma t_hyps :
  let c1 := srv_run t_cfg t_evs1 in
  sf_kind t_fr = KData /\ sf_sid t_fr = 3 /\ N.land (sf_sid t_fr) 1 = 1 /\ len (sf_payload t_fr) < sf_len t_fr /\
  strms_search (sc_strms c1) (sf_sid t_fr) = None /\ ring_find c1 (sf_sid t_fr) = Some true /\
  map st_id (sc_strms c1) = [1] /\
  sc_readerQ c1 = [] /\ sc_rl_done c1 = false /\ sc_sl_done c1 = false /\ sc_expectCont c1 = 0.
Proof. vm_compute. repeat split; reflexivity. Qed.

Lemma t_cleanb : s_cleanb t_cfg srv_init_hpack (t_evs1 ++ [EvRL (RFrame t_fr); EvSL] ++ t_evs2) = true.
Proof. vm_compute. reflexivity. Qed.

Lemma t_trace_with : srv_trace (srv_run t_cfg (t_evs1 ++ [EvRL (RFrame t_fr); EvSL] ++ t_evs2)) =
  [ORst 3 c_ProtocolError; ORelease 3 true; OWinUpd 0 40000; ODispatch 5 (ex_req [([97],[98])]); ODispatch 1 t_rq1;
   OHeaders 5 false [136]; OData 5 true [53]; ORelease 5 true; OHeaders 1 false [136]; OData 1 true [49]; ORelease 1 true].
Proof. vm_compute. reflexivity. Qed.

Lemma t_trace_without : srv_trace (srv_run t_cfg (t_evs1 ++ t_evs2)) =
  [ORst 3 c_ProtocolError; ORelease 3 true; ODispatch 5 (ex_req [([97],[98])]); ODispatch 1 t_rq1;
   OHeaders 5 false [136]; OData 5 true [53]; ORelease 5 true; OHeaders 1 false [136]; OData 1 true [49]; ORelease 1 true].
Proof. vm_compute. reflexivity. Qed.

Lemma t_about_1 :
  filter (about_stream 1) (srv_trace (srv_run t_cfg (t_evs1 ++ [EvRL (RFrame t_fr); EvSL] ++ t_evs2))) =
    [ODispatch 1 t_rq1; OHeaders 1 false [136]; OData 1 true [49]; ORelease 1 true] /\
  filter (about_stream 1) (srv_trace (srv_run t_cfg (t_evs1 ++ t_evs2))) =
    [ODispatch 1 t_rq1; OHeaders 1 false [136]; OData 1 true [49]; ORelease 1 true].
Proof. vm_compute. split; reflexivity. Qed.

(* the two final states: same stream table, ring, coders, flags; only the receive window to announce differs *)
Lemma t_windows :
  sc_currentWindow (srv_run t_cfg (t_evs1 ++ [EvRL (RFrame t_fr); EvSL] ++ t_evs2)) = 65534%Z /\
  sc_currentWindow (srv_run t_cfg (t_evs1 ++ t_evs2)) = 65534%Z /\
  sc_currentWindow (srv_run t_cfg (t_evs1 ++ [EvRL (RFrame (pfr KData 0 3 100 [1;2;3] 0)); EvSL] ++ t_evs2)) = 65434%Z.
Proof. vm_compute. repeat split; reflexivity. Qed.
