(* Proofs/CliFlowCEx.v - C07, "and finishes": sample runs for the examples of Props/C07.v (the instance with the real
   HPACK coder), and the completion corollary for that instance. ex_leak is the run that refuted the corollary before
   /repo 35b3178: sendPending debited c.connWindow in its critical section and did not give the bytes back when the
   request turned out to have been taken back (acquireFor failed), so the client's connection window stayed below the
   server's for ever. It hands them back now (addWindow(0, n)), and the run completes. *)
From Coq Require Import List NArith ZArith Bool.
From H2V Require Import Base.Bytes Base.MachineInt Base.Result Gen.GenConsts Impl.Hpack Impl.ServerConn Impl.ServerInst
  Impl.ClientConn Impl.ClientInst Proofs.CliDefs Spec.FlowLedger Proofs.SrvFlowLedger
  Proofs.CliFlowMoves Proofs.CliFlowOut Proofs.CliFlowSettings Proofs.CliFlowSafe Proofs.CliFlowEs Proofs.CliFlowStall Proofs.CliFlowExamples
  Proofs.CliFlowCBody Proofs.CliFlowCInv Proofs.CliFlowCThm.
Import ListNotations.
Local Open Scope N_scope.

Definition ex_chunk (n v : N) : bytes := repeat v (N.to_nat n).

(* a body of 100000 bytes streamed in eight reads of odd sizes, the last one with EOF; a buffered body of 70000 bytes *)
Definition ex_reads8 : list (bytes * rerr) :=
  [(ex_chunk 7001 1, RNil); (ex_chunk 12345 2, RNil); (ex_chunk 16384 3, RNil); (ex_chunk 9999 4, RNil); (ex_chunk 16383 5, RNil);
   (ex_chunk 16001 6, RNil); (ex_chunk 11111 7, RNil); (ex_chunk 10776 8, REof)].
Definition ex_up_streamed : crequest := ex_post (CStream ex_reads8 (-1)).
Definition ex_up_buffered : crequest := ex_post (CBuf (ex_chunk 70000 9)).

(* both uploads share the connection window (65535): the streamed one takes all of it; then a connection grant, a stream
   grant, SETTINGS lowering INITIAL_WINDOW_SIZE to 60000 and raising MAX_FRAME_SIZE to 32768: both bodies blocked by the
   connection window *)
Definition ex_two_uploads_blocked : list cevent :=
  [CEvSubmit 0 ex_up_streamed true; CEvSubmit 1 ex_up_buffered true; CEvWLIn; CEvWLIn;
   CEvRL (ex_winupd 0 30000); CEvWLWin [];
   CEvRL (ex_winupd 1 20000); CEvRL (ex_settings 4 60000); CEvRL (ex_settings 5 32768); CEvWLWin [3; 1]; CEvWLOut; CEvWLOut].
(* more grants, in pieces: both bodies go out completely *)
Definition ex_two_uploads_done : list cevent :=
  ex_two_uploads_blocked ++
  [CEvRL (ex_winupd 0 100000); CEvWLWin [1; 3];
   CEvRL (ex_winupd 1 50000); CEvRL (ex_winupd 3 50000); CEvWLWin []].

(* what a state looks like to flow control: (stream, bytes buffered, stream window) of every pending body, the
   connection window, the winCh token, MAX_FRAME_SIZE, the request table *)
Definition ex_flow (c : cst) : list (N * N * Z) * Z * bool * N * list (N * N) :=
  (map (fun pb => (pb_id pb, len (pb_body pb), pb_window pb)) (cc_pending c), cc_connWindow c, cc_winCh c, cc_maxFrame c, cc_reqQueued c).

(* the former leak. INITIAL_WINDOW_SIZE 10, cancel timers armed. A 65000-byte upload sends 10 bytes and waits; its timer
   runs out and the caller takes the Ctx back before the timer goroutine has cancelled the stream; the server, which
   knows nothing of this, grants the stream 65000: the write loop debits 64990 bytes from the stream and the connection,
   finds the Ctx gone, drops the body and (since 35b3178) hands the 64990 bytes back to c.connWindow. The next upload
   (1000 bytes) is granted its stream window and goes out completely. Before the fix it stopped after 535 bytes: the
   client's connection window was 0, the server's 64990 *)
Definition ex_leak : list cevent :=
  [CEvSubmit 0 (ex_post (CBuf (ex_chunk 65000 7))) true; CEvWLIn;
   CEvTimeout 0; CEvReceive 0;
   CEvRL (ex_winupd 1 65000); CEvWLWin []; CEvTimeoutCancel 0; CEvWLOut;
   CEvSubmit 1 (ex_post (CBuf (ex_chunk 1000 8))) true; CEvWLIn;
   CEvRL (ex_winupd 3 2000); CEvWLWin []].

(* the completion corollary for the instance, with no hypothesis about the client's own windows *)
Definition completes_when_granted_strong_statement : Prop :=
  forall (cfg : cl_config) (first : bytes) (evs : list cevent) (tag : N) (x : cctx) (w : Z),
    let c := cli_run cfg first evs in
    let L := lrun ledger0 (cli_ledger cfg first evs) in
    cl_settings_deserialize false first <> None -> GOK ledger0 (cli_ledger cfg first evs) ->
    cl_ctx_get c tag = Some x -> cl_wl_live c = true -> cc_winCh c = false ->
    In (ct_sid x, tag) (cc_reqQueued c) -> ct_done x = false ->
    (0 < l_conn L)%Z -> l_strm L (ct_sid x) = Some w -> (0 < w)%Z ->
    data_bytes (ct_sid x) (cl_trace c) = fst (rq_body (ct_req x)) /\ end_streams (ct_sid x) (cl_trace c) = 1%nat.

Theorem completes_when_granted_strong : completes_when_granted_strong_statement.
Proof.
  intros cfg first evs tag x w c L NN GK G LV WC HT DN CP SW WP.
  destruct (completes_when_granted hpack_state cli_dec_field cli_enc_field set_max_table_size cfg cli_init_hpack first evs tag x w NN GK G LV WC HT DN CP SW WP)
    as (A & B & _).
  split; assumption.
Qed.
