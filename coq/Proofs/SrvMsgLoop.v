(* Proofs/SrvMsgLoop.v - C20: the decoding loops of handleHeaderFrame / discardFragment, run over a fragment that the
   (abstract) decoder reads as a given field list (frag_dec). *)
From H2V Require Import Base.Bytes Base.MachineInt Base.Result Gen.GenConsts Impl.ServerConn Spec.Http2Messages
     Proofs.SrvBase Proofs.SrvMsgDefs Proofs.SrvMsgPure.
From Coq Require Import ZArith Lia ZifyN ZifyNat ZifyBool.
Local Open Scope N_scope.

Definition add_prev (h : hdr) (carry : bytes) : hdr :=
  mkHdr (hd_headersFinished h) (hd_prev h ++ carry) (hd_pMethod h) (hd_pScheme h) (hd_pPath h) (hd_pAuth h)
        (hd_regularSeen h) (hd_contentLength h) (hd_hasCL h) (hd_headerListSize h) (hd_blockFields h) (hd_path h) (hd_req h).

Lemma add_prev_nil h : add_prev h [] = h.
Proof. destruct h. unfold add_prev. cbn. rewrite app_nil_r. reflexivity. Qed.

Lemma header_field_inr cfg h k v h' :
  header_field cfg h k v = inr h' ->
  hd_blockFields h' = hd_blockFields h + 1 /\ hd_headersFinished h' = hd_headersFinished h /\ hd_prev h' = hd_prev h.
Proof.
  rewrite header_field_vstep. cbv zeta. destruct (list_over cfg _); [discriminate|].
  destruct (vstep cfg (vabs h) (classify k) v); [discriminate|]. intro E. inversion E; subst. repeat split.
Qed.

Section Loop.
Variable hstate : Type.
Variable dec_field : hstate -> N -> bytes -> dec_res hstate.
Variable cfg : config.

Notation frag_dec := (frag_dec dec_field).

(* with END_HEADERS nothing is carried over *)
Lemma frag_dec_eh d n b fs d' n' carry : frag_dec true d n b fs d' n' carry -> carry = [].
Proof. induction 1; auto. discriminate. Qed.

Lemma frag_dec_count eh d n b fs d' n' carry : frag_dec eh d n b fs d' n' carry -> n' = n + N.of_nat (length fs).
Proof. induction 1; cbn [length]; lia. Qed.

Lemma frag_dec_carry_len eh d n b fs d' n' carry : frag_dec eh d n b fs d' n' carry -> (length carry <= length b)%nat.
Proof. induction 1; cbn [length]; lia. Qed.

(* all fields accepted *)
Lemma header_loop_ok eh d n b fs d' n' carry :
  frag_dec eh d n b fs d' n' carry ->
  forall h h' fuel, hd_blockFields h = n -> fields_loop cfg h fs = inr h' -> (length b < fuel)%nat ->
  header_loop dec_field fuel cfg eh d h b = (d', add_prev h' carry, None, []).
Proof.
  induction 1 as [d n | d n b d' Hb Hd | d n b d' Hb He Hd | d n b k v rest d1 fs d' n' carry Hb Hd Hl _ IH];
    intros h h' fuel Hn Hf Hfu; (destruct fuel as [|fuel]; [lia|]); cbn [header_loop].
  - cbn [fields_loop] in Hf. inversion Hf; subst. rewrite add_prev_nil. reflexivity.
  - destruct b; [congruence|]. rewrite Hn, Hd. cbn [fields_loop] in Hf. inversion Hf; subst. rewrite add_prev_nil. reflexivity.
  - destruct b; [congruence|]. rewrite Hn, Hd, He. cbn [negb fields_loop] in *. inversion Hf; subst. reflexivity.
  - destruct b; [congruence|]. rewrite Hn, Hd. cbn [fields_loop] in Hf.
    destruct (header_field cfg h k v) as [e|h1] eqn:E; [discriminate|].
    destruct (header_field_inr _ _ _ _ _ E) as (B & _ & _).
    apply IH; [lia | assumption | lia].
Qed.

(* a field is refused: the loop stops there; what is left of the fragment still decodes *)
Lemma header_loop_err eh d n b fs d' n' carry :
  frag_dec eh d n b fs d' n' carry ->
  forall h e fuel, hd_blockFields h = n -> fields_loop cfg h fs = inl e -> (length b < fuel)%nat ->
  exists d1 h1 rest fs2,
    header_loop dec_field fuel cfg eh d h b = (d1, h1, Some e, rest) /\
    frag_dec eh d1 (hd_blockFields h1 + 1) rest fs2 d' n' carry /\
    hd_headersFinished h1 = hd_headersFinished h /\ hd_prev h1 = hd_prev h.
Proof.
  induction 1 as [d n | d n b d' Hb Hd | d n b d' Hb He Hd | d n b k v rest d1 fs d' n' carry Hb Hd Hl Hrest IH];
    intros h e fuel Hn Hf Hfu; try (cbn [fields_loop] in Hf; discriminate).
  destruct fuel as [|fuel]; [lia|]. cbn [header_loop]. destruct b; [congruence|]. rewrite Hn, Hd.
  cbn [fields_loop] in Hf. destruct (header_field cfg h k v) as [e1|h1] eqn:E.
  - inversion Hf; subst. exists d1, h, rest, fs. repeat split; assumption.
  - destruct (header_field_inr _ _ _ _ _ E) as (B & F & P).
    destruct (IH h1 e fuel) as (d2 & h2 & rest2 & fs2 & A1 & A2 & A3 & A4); [lia | assumption | lia |].
    exists d2, h2, rest2, fs2. repeat split; try assumption; congruence.
Qed.

Lemma discard_loop_ok eh d n b fs d' n' carry :
  frag_dec eh d n b fs d' n' carry ->
  forall fuel, (length b < fuel)%nat -> discard_loop dec_field fuel eh d n b = (d', n', carry, None).
Proof.
  induction 1 as [d n | d n b d' Hb Hd | d n b d' Hb He Hd | d n b k v rest d1 fs d' n' carry Hb Hd Hl _ IH];
    intros fuel Hfu; (destruct fuel as [|fuel]; [lia|]); cbn [discard_loop].
  - reflexivity.
  - destruct b; [congruence|]. rewrite Hd. reflexivity.
  - destruct b; [congruence|]. rewrite Hd, He. reflexivity.
  - destruct b; [congruence|]. rewrite Hd. apply IH. lia.
Qed.

Notation sconn := (sconn hstate).

(* discardFragment over a fragment that decodes *)
Lemma discard_fragment_ok (c : sconn) id frag eh fs d' n' carry :
  frag_dec eh (sc_dec c) (sc_discardFields c) (sc_discardPrev c ++ frag) fs d' n' carry ->
  discard_fragment dec_field cfg c id frag eh =
  if eh then (upd_discard (upd_dec c d') 0 [] n', None)
  else (upd_discard (upd_dec c d') id carry n',
        if list_over cfg (Z.of_N (len carry)) then Some (EGoAway c_EnhanceYourCalm) else None).
Proof.
  intro H. unfold discard_fragment. rewrite (discard_loop_ok _ _ _ _ _ _ _ _ H) by lia.
  destruct eh; [reflexivity|]. unfold list_over. destruct ((0 <? cf_maxHeaderList cfg)%Z && _)%bool; reflexivity.
Qed.

End Loop.
