(* Proofs/CliMsgRef.v - C02 (c) / C20 (client), part 1: the decoding loop of readHeaderFragment against the
   reference "decode everything" semantics of Proofs/SrvIsoRef.v (the one the server's C09 (a) is stated with).

   cl_hdr_loop threads dec_field over carry ++ fragment exactly as the reference does, WHETHER OR NOT a response
   is there to take the fields (res = None: the request was cancelled / timed out / never existed) and whether or
   not an earlier field was refused (herr): the decoder state, the field count, the carry and the class of the
   error are functions of (fuel, eh, d, n, b) alone; the response and the validation registers are the fold of
   readHeaderField over the decoded fields.  No assumption on dec_field. *)
From H2V Require Import Base.Bytes Base.MachineInt Base.Result Gen.GenConsts Impl.ServerConn Impl.ClientConn
  Proofs.SrvIsoRef.
From Coq Require Import ZArith Lia.
Local Open Scope N_scope.
Set Default Proof Using "Type".

(* ---------- readHeaderField folded over a field list ---------- *)
(* (hdrRegularSeen, hdrStatus, hdrErr, res) *)
Definition hacc : Type := (bool * Z * option cerr * option cresponse)%type.

Definition hf_step (a : hacc) (kv : bytes * bytes) : hacc :=
  let '(rseen, status, herr, res) := a in
  match res, herr with
  | Some r, None =>
    let '(rseen', status', r', e) := cl_read_header_field rseen status r (fst kv) (snd kv) in
    (rseen', status', e, Some r')
  | _, _ => a
  end.
Definition hf_fold (a : hacc) (fs : list (bytes * bytes)) : hacc := fold_left hf_step fs a.

Lemma hf_fold_app a fs1 fs2 : hf_fold a (fs1 ++ fs2) = hf_fold (hf_fold a fs1) fs2.
Proof. apply fold_left_app. Qed.

Lemma hf_fold_none rs st he fs : hf_fold (rs, st, he, None) fs = (rs, st, he, None).
Proof. induction fs as [|kv t IH]; [reflexivity|]. cbn [hf_fold fold_left hf_step]. exact IH. Qed.

Lemma hf_fold_err rs st e r fs : hf_fold (rs, st, Some e, r) fs = (rs, st, Some e, r).
Proof.
  induction fs as [|kv t IH]; [reflexivity|]. cbn [hf_fold fold_left hf_step].
  destruct r; exact IH.
Qed.

(* the response is there afterwards iff it was there before *)
Lemma hf_fold_some rs st he r fs : exists rs' st' he' r', hf_fold (rs, st, he, Some r) fs = (rs', st', he', Some r').
Proof.
  revert rs st he r. induction fs as [|kv t IH]; intros rs st he r; [repeat eexists|].
  cbn [hf_fold fold_left hf_step]. destruct he as [e|].
  - apply IH.
  - destruct (cl_read_header_field rs st r (fst kv) (snd kv)) as [[[rs1 st1] r1] e1]. apply IH.
Qed.

Definition err_class {hstate} (r : ref_res hstate) : cl_rserr :=
  match r with
  | ROk _ _ _ _ => CRSNone
  | RBad => CRSConn CEConn
  | RFuel => CRSConn CEConn
  | RPanic => CRSPanic
  end.

Section Ref.
Variable hstate : Type.
Variable dec_field : hstate -> N -> bytes -> dec_res hstate.

Local Arguments DField {hstate}. Local Arguments DNone {hstate}. Local Arguments DShort {hstate}.
Local Arguments DFail {hstate}. Local Arguments DPanic {hstate}.

(* the class of the error is the reference's *)
Lemma cl_hdr_loop_class fuel : forall eh d n rs st he res b,
  snd (cl_hdr_loop hstate dec_field fuel eh d n rs st he res b) = err_class (ref_loop dec_field fuel eh d n b).
Proof.
  induction fuel as [|fuel IH]; intros eh d n rs st he res b; cbn [cl_hdr_loop ref_loop]; [reflexivity|].
  destruct b as [|x b]; [reflexivity|].
  destruct (dec_field d n (x :: b)) as [k v rest d1|d1|d1|d1|] eqn:E; try reflexivity.
  - assert (G : forall rs st he res,
               snd (cl_hdr_loop hstate dec_field fuel eh d1 (n + 1) rs st he res rest) =
               err_class (match ref_loop dec_field fuel eh d1 (n + 1) rest with
                          | ROk fs d'' n'' carry => ROk ((k, v) :: fs) d'' n'' carry
                          | r => r end)).
    { intros. rewrite IH. destruct (ref_loop dec_field fuel eh d1 (n + 1) rest); reflexivity. }
    destruct res as [r|]; [destruct he as [e|]|]; try apply G.
    destruct (cl_read_header_field rs st r k v) as [[[rs1 st1] r1] e1]. apply G.
  - destruct eh; reflexivity.
Qed.

(* when the bytes decode, everything is the reference's, and the response is the fold *)
Lemma cl_hdr_loop_ok fuel : forall eh d n rs st he res b fs d' n' carry,
  ref_loop dec_field fuel eh d n b = ROk fs d' n' carry ->
  cl_hdr_loop hstate dec_field fuel eh d n rs st he res b =
  (let '(rs', st', he', res') := hf_fold (rs, st, he, res) fs in (d', n', rs', st', he', res', carry, CRSNone)).
Proof.
  induction fuel as [|fuel IH]; intros eh d n rs st he res b fs d' n' carry; cbn [cl_hdr_loop ref_loop]; [discriminate|].
  destruct b as [|x b]; [intro H; inversion H; subst; reflexivity|].
  destruct (dec_field d n (x :: b)) as [k v rest d1|d1|d1|d1|] eqn:E; try discriminate.
  - destruct (ref_loop dec_field fuel eh d1 (n + 1) rest) as [fs1 d2 n2 c2| | |] eqn:R; try discriminate.
    intro H; inversion H; subst. cbn [hf_fold fold_left hf_step fst snd].
    destruct res as [r|]; [destruct he as [e|]|].
    + exact (IH _ _ _ _ _ _ _ _ _ _ _ _ R).
    + destruct (cl_read_header_field rs st r k v) as [[[rs1 st1] r1] e1]. exact (IH _ _ _ _ _ _ _ _ _ _ _ _ R).
    + exact (IH _ _ _ _ _ _ _ _ _ _ _ _ R).
  - intro H; inversion H; subst. reflexivity.
  - destruct eh; cbn [negb]; [discriminate|]. intro H; inversion H; subst. reflexivity.
Qed.

(* the decoder part of the result never depends on the response side *)
Lemma cl_hdr_loop_dec_indep fuel : forall eh d n rs st he res rs2 st2 he2 res2 b,
  let o1 := cl_hdr_loop hstate dec_field fuel eh d n rs st he res b in
  let o2 := cl_hdr_loop hstate dec_field fuel eh d n rs2 st2 he2 res2 b in
  match o1, o2 with
  | (d1, n1, _, _, _, _, p1, e1), (d2, n2, _, _, _, _, p2, e2) => d1 = d2 /\ n1 = n2 /\ p1 = p2 /\ e1 = e2
  end.
Proof.
  induction fuel as [|fuel IH]; intros eh d n rs st he res rs2 st2 he2 res2 b; cbn [cl_hdr_loop]; [auto|].
  destruct b as [|x b]; [auto|].
  destruct (dec_field d n (x :: b)) as [k v rest d1|d1|d1|d1|] eqn:E; auto.
  - destruct res as [r|]; [destruct he as [e|]|]; (destruct res2 as [r2|]; [destruct he2 as [e2|]|]);
      repeat match goal with |- context [cl_read_header_field ?a ?b ?c ?d ?e] =>
               destruct (cl_read_header_field a b c d e) as [[[? ?] ?] ?] end; apply IH.
  - destruct eh; cbn [negb]; auto.
Qed.

End Ref.
