(* Proofs/SrvFlowDefs.v - how a run of the server model is read as a history of the ghost ledgers of
   Spec/FlowLedger.v (properties C06 and C14). Definitions and their list algebra only. *)
From H2V Require Import Base.Bytes Base.MachineInt Base.Result Gen.GenConsts Impl.ServerConn Proofs.SrvBase
  Spec.FlowLedger Proofs.SrvFlowLedger.
From Coq Require Import ZArith Lia ZifyN ZifyNat ZifyBool List.
Import ListNotations.
Local Open Scope N_scope.
Set Default Proof Using "Type".

(* lia, without letting it capture the HPACK coder (section variables whose types mention N or bool) *)
Ltac flia :=
  repeat match goal with
         | H : ?h -> N -> bytes -> dec_res ?h |- _ => clear H
         | H : ?h -> bytes -> bytes -> bool -> bytes * ?h |- _ => clear H
         | H : ?h -> N -> ?h |- _ => clear H
         end; lia.

(* ---------- outputs as ledger events ---------- *)

(* an output queued after the stream loop ended (OLate) is counted like any other: the strongest reading *)
Fixpoint strip (o : outev) : outev := match o with OLate o' => strip o' | _ => o end.

Definition ldata_of (o : outev) : list levent :=
  match strip o with OData sid _ pl => [LData sid (Z.of_N (len pl))] | _ => [] end.
Definition ldatas (l : list outev) : list levent := flat_map ldata_of l.

Definition rcredit_of (o : outev) : list revent :=
  match strip o with OWinUpd sid inc => [RCredit sid inc] | _ => [] end.
Definition rcredits (l : list outev) : list revent := flat_map rcredit_of l.

Lemma ldatas_app a b : ldatas (a ++ b) = ldatas a ++ ldatas b.
Proof. apply flat_map_app. Qed.
Lemma rcredits_app a b : rcredits (a ++ b) = rcredits a ++ rcredits b.
Proof. apply flat_map_app. Qed.
Lemma ldatas_cons o l : ldatas (o :: l) = ldata_of o ++ ldatas l.
Proof. reflexivity. Qed.
Lemma rcredits_cons o l : rcredits (o :: l) = rcredit_of o ++ rcredits l.
Proof. reflexivity. Qed.

Lemma ldatas_is_ldata l : Forall is_ldata (ldatas l).
Proof.
  induction l as [|o l IH]; [constructor|]. rewrite ldatas_cons. apply Forall_app. split; [|assumption].
  unfold ldata_of. destruct (strip o); constructor; [exact I | constructor].
Qed.

(* ---------- frames as ledger events ---------- *)

(* the grants a frame carries, as the stream loop applies them (sl_frame) *)
Definition lgrants_of (fr : sframe) : list levent :=
  if sf_sid fr =? 0 then
    match sf_kind fr with
    | KSettings => if sf_set_haswin fr then [LInit (signed 32 (sf_set_win fr))] else []
    | KWinUpd => [LGrant 0 (Z.of_N (sf_inc fr))]
    | _ => []
    end
  else
    match sf_kind fr with
    | KHeaders => [LOpen (sf_sid fr)]
    | KWinUpd => [LGrant (sf_sid fr) (Z.of_N (sf_inc fr))]
    | _ => []
    end.

(* the flow-controlled length of a DATA frame the peer sent (payload + padding) *)
Definition rdata_of (fr : sframe) : list revent :=
  match sf_kind fr with KData => [RData (sf_sid fr) (Z.of_N (sf_len fr))] | _ => [] end.

Section Defs.
Variable hstate : Type.
Variable dec_field : hstate -> N -> bytes -> dec_res hstate.
Variable enc_field : hstate -> bytes -> bytes -> bool -> bytes * hstate.
Variable enc_set_max : hstate -> N -> hstate.
Variable cfg : config.
Variable h0 : hstate.

Notation step := (step dec_field enc_field enc_set_max cfg).
Notation run := (run dec_field enc_field enc_set_max cfg h0).
Notation run_from := (run_from dec_field enc_field enc_set_max cfg).
Notation sconn := (sconn hstate).

(* what a step added to the trace, oldest first *)
Definition new_out (c c' : sconn) : list outev :=
  rev (firstn (length (sc_out c') - length (sc_out c)) (sc_out c')).

Lemma new_out_ext (c c' : sconn) new : sc_out c' = new ++ sc_out c -> new_out c c' = rev new.
Proof.
  intro H. unfold new_out. rewrite H, app_length.
  replace (length new + length (sc_out c) - length (sc_out c))%nat with (length new + 0)%nat by flia.
  rewrite firstn_app_2. cbn [firstn]. rewrite app_nil_r. reflexivity.
Qed.

Lemma new_out_same (c c' : sconn) : sc_out c' = sc_out c -> new_out c c' = [].
Proof. intro H. apply (new_out_ext c c' []). assumption. Qed.

(* the frame the stream loop takes off sc.reader in this step / the frame the read loop gets *)
Definition sl_takes (c : sconn) (e : event) : option sframe :=
  match e with
  | EvSL => if sc_sl_done c then None else hd_error (sc_readerQ c)
  | _ => None
  end.
Definition rl_takes (c : sconn) (e : event) : option sframe :=
  match e with
  | EvRL (RFrame fr) => if sc_rl_done c then None else Some fr
  | _ => None
  end.

(* C06, the sender's history: grants take effect when the stream loop handles the frame that carries them
   (that is when the server starts to use them), DATA when it is queued for the peer *)
Definition tl_step (c : sconn) (e : event) : list levent :=
  match sl_takes c e with Some fr => lgrants_of fr | None => [] end ++ ldatas (new_out c (step c e)).

Fixpoint timeline_from (c : sconn) (evs : list event) : list levent :=
  match evs with
  | [] => []
  | e :: t => tl_step c e ++ timeline_from (step c e) t
  end.
Definition timeline (evs : list event) : list levent := timeline_from (init_conn cfg h0) evs.

Lemma timeline_from_app c a b : timeline_from c (a ++ b) = timeline_from c a ++ timeline_from (run_from c a) b.
Proof.
  revert c. induction a as [|e a IH]; intro c; [reflexivity|].
  cbn [app timeline_from]. rewrite IH, <- app_assoc. reflexivity.
Qed.

(* the same history with grants taking effect when the READ loop gets the frame, i.e. in the order the peer
   sent them relative to the server's output: what the peer itself can observe *)
Definition lgrants_rl (fr : sframe) : list levent :=
  if (sf_sid fr =? 0) && fkind_eqb (sf_kind fr) KSettings && flag_has (sf_flags fr) FL_ES then []   (* a SETTINGS ACK *)
  else lgrants_of fr.
Definition tl_step_rl (c : sconn) (e : event) : list levent :=
  match rl_takes c e with Some fr => lgrants_rl fr | None => [] end ++ ldatas (new_out c (step c e)).
Fixpoint timeline_rl_from (c : sconn) (evs : list event) : list levent :=
  match evs with
  | [] => []
  | e :: t => tl_step_rl c e ++ timeline_rl_from (step c e) t
  end.
Definition timeline_rl (evs : list event) : list levent := timeline_rl_from (init_conn cfg h0) evs.

(* C14, the peer's history of its own send windows: DATA counts when the read loop gets it,
   credit when the WINDOW_UPDATE is queued *)
Definition rtl_step (c : sconn) (e : event) : list revent :=
  match rl_takes c e with Some fr => rdata_of fr | None => [] end ++ rcredits (new_out c (step c e)).
Fixpoint rtimeline_from (c : sconn) (evs : list event) : list revent :=
  match evs with
  | [] => []
  | e :: t => rtl_step c e ++ rtimeline_from (step c e) t
  end.
Definition rtimeline (evs : list event) : list revent := rtimeline_from (init_conn cfg h0) evs.

Lemma rtimeline_from_app c a b : rtimeline_from c (a ++ b) = rtimeline_from c a ++ rtimeline_from (run_from c a) b.
Proof.
  revert c. induction a as [|e a IH]; intro c; [reflexivity|].
  cbn [app rtimeline_from]. rewrite IH, <- app_assoc. reflexivity.
Qed.

End Defs.
