(* C04, part 4: search (hpack.go) returns an index of the encoder's own table, read as the
   RFC 7541 2.3.3 index space, whose entry has the field's name (and value on a full match).

   The dynamic table is kept oldest first, so position k is index 62 + len - k - 1, computed in
   uint64: the statement needs len(hp.dynamic) to be a Go slice length (below 2^63); see
   [search_sound_needs_bound] for what happens otherwise. *)
From Coq Require Import List NArith ZArith Bool Lia.
From H2V Require Import Base.Bytes Base.MachineInt Base.Result Gen.GenConsts Gen.GenStatic
     Impl.Huffman Impl.Hpack Spec.Rfc7541Huffman Spec.Rfc7541
     Proofs.HpackDefs Proofs.HpackBytes Proofs.HpackStatic.
Import ListNotations.
Local Open Scope N_scope.

Lemma nth_error_rev {A} (l : list A) k : (k < length l)%nat ->
  nth_error (rev l) (length l - S k) = nth_error l k.
Proof.
  revert k. induction l as [|a l IH]; intros k H; [simpl in H; lia|].
  cbn [rev length]. destruct k as [|k].
  - rewrite nth_error_app2 by (rewrite rev_length; lia).
    rewrite rev_length. replace (S (length l) - 1 - length l)%nat with 0%nat by lia. reflexivity.
  - cbn [nth_error]. simpl in H.
    rewrite nth_error_app1 by (rewrite rev_length; lia).
    replace (S (length l) - S (S k))%nat with (length l - S k)%nat by lia.
    apply IH. lia.
Qed.

(* ---- the dynamic part ---- *)

(* position k of the whole table, and its index *)
Definition dyn_hit (all : list field) (hf : field) (n : N) : Prop :=
  exists k f2, nth_error all k = Some f2 /\ f_key f2 = f_key hf /\ f_value f2 = f_value hf /\
               n = u64 (c_maxIndex + N.of_nat (length all) - N.of_nat k - 1).

Lemma search_dynamic_spec hf dlen : forall dyn pre n fm,
  search_dynamic dyn (N.of_nat (length pre)) dlen hf = (n, fm) ->
  dlen = N.of_nat (length (pre ++ dyn)) ->
  (n = 0 /\ fm = false) \/ (fm = true /\ dyn_hit (pre ++ dyn) hf n).
Proof.
  induction dyn as [|f2 dyn IH]; intros pre n fm H Hlen.
  - cbn in H. injection H as <- <-. left. split; reflexivity.
  - cbn [search_dynamic] in H.
    destruct (bytes_eqb (f_key hf) (f_key f2) && bytes_eqb (f_value hf) (f_value f2)) eqn:E.
    + injection H as <- <-. right. split; [reflexivity|].
      apply andb_prop in E. destruct E as [E1 E2].
      apply bytes_eqb_eq in E1. apply bytes_eqb_eq in E2.
      exists (length pre), f2. repeat split.
      * rewrite nth_error_app2 by lia. rewrite Nat.sub_diag. reflexivity.
      * symmetry. exact E1.
      * symmetry. exact E2.
      * rewrite Hlen. reflexivity.
    + replace (N.of_nat (length pre) + 1) with (N.of_nat (length (pre ++ [f2]))) in H
        by (rewrite app_length; simpl; lia).
      replace (pre ++ f2 :: dyn) with ((pre ++ [f2]) ++ dyn) in * by (rewrite <- app_assoc; reflexivity).
      apply IH; assumption.
Qed.

(* ---- the static part ---- *)

(* n is 0, or an index whose entry has the name (and the value when fm) *)
Definition stat_hit (hf : field) (n : N) (fm : bool) : Prop :=
  n = 0 \/ exists f2, 1 <= n /\ nth_error static_fields (N.to_nat (n - 1)) = Some f2 /\
                      f_key f2 = f_key hf /\ (fm = true -> f_value f2 = f_value hf).

Lemma search_static_spec hf : forall tbl pre n0 fm0 n fm,
  static_fields = pre ++ tbl -> stat_hit hf n0 fm0 ->
  search_static tbl (N.of_nat (length pre)) hf n0 fm0 = (n, fm) -> stat_hit hf n fm.
Proof.
  induction tbl as [|f2 tbl IH]; intros pre n0 fm0 n fm Hall H0 H.
  - cbn in H. injection H as <- <-. exact H0.
  - cbn [search_static] in H.
    assert (nth_error static_fields (length pre) = Some f2) as Hnth.
    { rewrite Hall, nth_error_app2 by lia. rewrite Nat.sub_diag. reflexivity. }
    assert (N.of_nat (length pre) + 1 = N.of_nat (length (pre ++ [f2]))) as Hi
      by (rewrite app_length; simpl; lia).
    assert (static_fields = (pre ++ [f2]) ++ tbl) as Hall' by (rewrite <- app_assoc; exact Hall).
    destruct (bytes_eqb (f_key hf) (f_key f2)) eqn:E1.
    + apply bytes_eqb_eq in E1.
      destruct (bytes_eqb (f_value hf) (f_value f2)) eqn:E2.
      * apply bytes_eqb_eq in E2. injection H as <- <-. right. exists f2.
        replace (N.to_nat (N.of_nat (length pre) + 1 - 1)) with (length pre) by lia.
        repeat split; [lia | exact Hnth | symmetry; exact E1 | intros _; symmetry; exact E2].
      * rewrite Hi in H. apply (IH _ _ _ _ _ Hall') in H; [exact H|].
        destruct (n0 =? 0) eqn:En.
        -- right. exists f2. rewrite <- Hi.
           replace (N.to_nat (N.of_nat (length pre) + 1 - 1)) with (length pre) by lia.
           repeat split; [lia | exact Hnth | symmetry; exact E1 | discriminate].
        -- apply N.eqb_neq in En. destruct H0 as [H0|[g [G1 [G2 [G3 G4]]]]]; [contradiction|].
           right. exists g. repeat split; [exact G1 | exact G2 | exact G3 | discriminate].
    + rewrite Hi in H. apply (IH _ _ _ _ _ Hall') in H; [exact H | exact H0].
Qed.

(* ---- search ---- *)

(* what an index returned by search is, in terms of the encoder's own table *)
Definition search_hit (st : hpack_state) (hf : field) (n : N) (fm : bool) : Prop :=
  (fm = true /\ c_maxIndex <= n /\ dyn_hit (h_dynamic st) hf n) \/
  (n <= static_len /\ stat_hit hf n fm).

Lemma dyn_hit_range all hf n : N.of_nat (length all) < 2 ^ 63 -> dyn_hit all hf n ->
  c_maxIndex <= n < c_maxIndex + N.of_nat (length all).
Proof.
  intros Hlen [k [f2 [Hnth [_ [_ ->]]]]].
  assert (k < length all)%nat as Hk by (apply nth_error_Some; rewrite Hnth; discriminate).
  unfold c_maxIndex in *. rewrite u64_small; [lia|].
  change (2 ^ 63) with 9223372036854775808 in Hlen. change (2 ^ 64) with 18446744073709551616. lia.
Qed.

Lemma stat_hit_range hf n fm : stat_hit hf n fm -> n <= static_len.
Proof.
  intros [->|[f2 [H1 [Hnth _]]]]; [rewrite static_len_61; lia|].
  assert (N.to_nat (n - 1) < length static_fields)%nat as Hk by (apply nth_error_Some; rewrite Hnth; discriminate).
  rewrite static_fields_length in Hk. rewrite static_len_61. lia.
Qed.

Lemma search_static_spec0 hf n fm :
  search_static static_fields 0 hf 0 false = (n, fm) -> stat_hit hf n fm.
Proof.
  intros H.
  exact (search_static_spec hf static_fields [] 0 false n fm eq_refl (or_introl eq_refl) H).
Qed.

Lemma search_dynamic_spec0 hf dyn n fm :
  search_dynamic dyn 0 (N.of_nat (length dyn)) hf = (n, fm) ->
  (n = 0 /\ fm = false) \/ (fm = true /\ dyn_hit dyn hf n).
Proof.
  intros H.
  exact (search_dynamic_spec hf (N.of_nat (length dyn)) dyn [] n fm H eq_refl).
Qed.

Lemma search_unfold st hf : search st hf =
  let '(n, fullMatch) := search_dynamic (h_dynamic st) 0 (N.of_nat (length (h_dynamic st))) hf in
  if n =? 0 then search_static static_fields 0 hf 0 fullMatch else (n, fullMatch).
Proof. reflexivity. Qed.

Theorem search_spec st hf n fm : N.of_nat (length (h_dynamic st)) < 2 ^ 63 ->
  search st hf = (n, fm) -> search_hit st hf n fm.
Proof.
  intros Hlen H. rewrite search_unfold in H.
  destruct (search_dynamic (h_dynamic st) 0 (N.of_nat (length (h_dynamic st))) hf) as [n1 fm1] eqn:E.
  apply search_dynamic_spec0 in E.
  destruct E as [[-> ->]|[-> Hd]].
  - rewrite N.eqb_refl in H.
    apply search_static_spec0 in H.
    right. split; [eapply stat_hit_range; exact H | exact H].
  - pose proof (dyn_hit_range _ _ _ Hlen Hd) as R.
    replace (n1 =? 0) with false in H by (symmetry; apply N.eqb_neq; unfold c_maxIndex in R; lia).
    injection H as <- <-. left. split; [reflexivity|]. split; [apply R | exact Hd].
Qed.

(* a name-only match is always a static index *)
Corollary search_name_only_static st hf n : N.of_nat (length (h_dynamic st)) < 2 ^ 63 ->
  search st hf = (n, false) -> n <= static_len.
Proof.
  intros Hlen H. destruct (search_spec st hf n false Hlen H) as [[F _]|[R _]]; [discriminate | exact R].
Qed.

(* ---- ... in the index space of the specification ---- *)

Lemma lookup_dyn_hit st hf n : N.of_nat (length (h_dynamic st)) < 2 ^ 63 ->
  dyn_hit (h_dynamic st) hf n -> lookup (abs st) n = Some (f_key hf, f_value hf).
Proof.
  intros Hlen Hd. pose proof (dyn_hit_range _ _ _ Hlen Hd) as R.
  destruct Hd as [k [f2 [Hnth [K [V ->]]]]].
  assert (k < length (h_dynamic st))%nat as Hk by (apply nth_error_Some; rewrite Hnth; discriminate).
  set (L := length (h_dynamic st)) in *.
  assert (u64 (c_maxIndex + N.of_nat L - N.of_nat k - 1) = c_maxIndex + N.of_nat L - N.of_nat k - 1) as Eu.
  { apply u64_small. unfold c_maxIndex.
    change (2 ^ 63) with 9223372036854775808 in Hlen. change (2 ^ 64) with 18446744073709551616. lia. }
  rewrite Eu in *. unfold c_maxIndex in *.
  unfold lookup. rewrite static_len_61. cbn [abs dt_entries].
  rewrite rev_length, map_length. fold L.
  replace (62 + N.of_nat L - N.of_nat k - 1 =? 0) with false by (symmetry; apply N.eqb_neq; lia).
  replace (62 + N.of_nat L - N.of_nat k - 1 <=? 61) with false by (symmetry; apply N.leb_gt; lia).
  replace (62 + N.of_nat L - N.of_nat k - 1 <=? 61 + N.of_nat L) with true by (symmetry; apply N.leb_le; lia).
  unfold idx.
  replace (N.to_nat (62 + N.of_nat L - N.of_nat k - 1 - 61 - 1)) with (length (map (fun f => (f_key f, f_value f)) (h_dynamic st)) - S k)%nat
    by (rewrite map_length; fold L; lia).
  rewrite nth_error_rev by (rewrite map_length; exact Hk).
  rewrite (map_nth_error _ _ _ Hnth). rewrite K, V. reflexivity.
Qed.

Lemma lookup_stat_hit t hf n fm : 0 < n -> stat_hit hf n fm ->
  exists v, lookup t n = Some (f_key hf, v) /\ (fm = true -> v = f_value hf).
Proof.
  intros Hpos [->|[f2 [H1 [Hnth [K V]]]]]; [lia|].
  assert (N.to_nat (n - 1) < length static_fields)%nat as Hk by (apply nth_error_Some; rewrite Hnth; discriminate).
  rewrite static_fields_length in Hk.
  exists (f_value f2). split; [|exact V].
  unfold lookup. rewrite static_len_61.
  replace (n =? 0) with false by (symmetry; apply N.eqb_neq; lia).
  replace (n <=? 61) with true by (symmetry; apply N.leb_le; lia).
  unfold idx. rewrite <- static_fields_map.
  rewrite (map_nth_error _ _ _ Hnth). unfold entry_of. rewrite K. reflexivity.
Qed.

Theorem search_lookup st hf n fm : N.of_nat (length (h_dynamic st)) < 2 ^ 63 ->
  search st hf = (n, fm) -> 0 < n ->
  exists v, lookup (abs st) n = Some (f_key hf, v) /\ (fm = true -> v = f_value hf).
Proof.
  intros Hlen H Hpos. destruct (search_spec st hf n fm Hlen H) as [[-> [_ Hd]]|[_ Hs]].
  - exists (f_value hf). split; [apply lookup_dyn_hit; assumption | reflexivity].
  - apply lookup_stat_hit; assumption.
Qed.

(* C04_search_sound (with the bound on the slice length) *)
Theorem search_sound : forall st hf i full, N.of_nat (length (h_dynamic st)) < 2 ^ 63 ->
  search st hf = (i, full) -> 0 < i ->
  exists n v, lookup (abs st) i = Some (n, v) /\ n = f_key hf /\ (full = true -> v = f_value hf).
Proof.
  intros st hf i full Hlen H Hpos.
  destruct (search_lookup st hf i full Hlen H Hpos) as [v [L V]].
  exists (f_key hf), v. split; [exact L|]. split; [reflexivity | exact V].
Qed.

(* ---- why the bound is there ----

   [search] computes the index in uint64. A Coq list can be longer than any Go slice: with
   2^64 - 60 entries the newest-first index of the oldest one, 62 + (2^64 - 60) - 0 - 1, wraps
   around to 1, which is ":authority" of the static table. The statement without the bound on
   len(hp.dynamic) is therefore false of the model (and vacuous for the Go code, whose slices are
   shorter than 2^63). *)

Definition xy : field := mkF [120] [121] false.

Lemma search_wraps k : N.of_nat (S k) = 2 ^ 64 - 60 ->
  search (mkH false false (repeat xy (S k)) 0 0 false 0) xy = (1, true).
Proof.
  intros Hk. rewrite search_unfold. cbn [h_dynamic]. rewrite repeat_length.
  cbn [repeat search_dynamic].
  change (bytes_eqb (f_key xy) (f_key xy) && bytes_eqb (f_value xy) (f_value xy)) with true.
  cbv iota. rewrite Hk.
  change (u64 (c_maxIndex + (2 ^ 64 - 60) - 0 - 1)) with 1. reflexivity.
Qed.

Theorem search_sound_needs_bound :
  ~ (forall st hf i full, search st hf = (i, full) -> 0 < i ->
       exists n v, lookup (abs st) i = Some (n, v) /\ n = f_key hf /\ (full = true -> v = f_value hf)).
Proof.
  intros H.
  assert (exists k, N.of_nat (S k) = 2 ^ 64 - 60) as [k Hk].
  { exists (N.to_nat (2 ^ 64 - 61)). rewrite Nat2N.inj_succ, N2Nat.id. reflexivity. }
  destruct (H _ xy 1 true (search_wraps k Hk) eq_refl) as [n [v [L [E _]]]].
  unfold lookup in L. rewrite static_len_61 in L. cbn [N.eqb N.leb N.compare Pos.compare Pos.compare_cont] in L.
  change (idx rfc_static_table (1 - 1)) with (Some ([58; 97; 117; 116; 104; 111; 114; 105; 116; 121], @nil N)) in L.
  injection L as <- _. discriminate E.
Qed.
