(* Proofs/SrvFlowCDecomp.v - C06 completion: a finer decomposition of the stream loop's frame arm than SLF
   (Proofs/SrvFlowEff.v): the quiet leaves also say what they do to the ring of closed ids and which grants
   of the frame can touch a table stream; closing streams says why a stream left the table. *)
From H2V Require Import Base.Bytes Base.MachineInt Base.Result Gen.GenConsts Impl.ServerConn Proofs.SrvBase
  Spec.FlowLedger Proofs.SrvFlowLedger Proofs.SrvFlowDefs Proofs.SrvFlowSend Proofs.SrvFlowEff.
From Coq Require Import ZArith Lia ZifyN ZifyNat ZifyBool List.
Import ListNotations.
Local Open Scope N_scope.
Set Default Proof Using "Type".

Section Decomp.
Variable hstate : Type.
Variable dec_field : hstate -> N -> bytes -> dec_res hstate.
Variable enc_set_max : hstate -> N -> hstate.
Variable cfg : config.
Notation sconn := (sconn hstate).
Implicit Types c : sconn.

(* ids in the ring of closed streams and in the table are ids the peer has used *)
Definition RI c : Prop :=
  (forall e, In e (sc_ring c) -> fst e <= sc_highestID c) /\ (forall s, In s (sc_strms c) -> st_id s <= sc_highestID c).
Definition RIP c c' : Prop := RI c -> RI c'.

Lemma RIP_refl c : RIP c c. Proof. intro H; exact H. Qed.
Lemma RIP_trans a b c : RIP a b -> RIP b c -> RIP a c. Proof. unfold RIP; auto. Qed.
Lemma RIP_same c c' : sc_ring c' = sc_ring c -> sc_strms c' = sc_strms c -> sc_highestID c <= sc_highestID c' -> RIP c c'.
Proof.
  intros E1 E2 E3 [A B]. split; [rewrite E1 | rewrite E2].
  - intros e He. specialize (A e He). flia.
  - intros s Hs. specialize (B s Hs). flia.
Qed.

Lemma set_nth_N_In l i x e : In e (set_nth_N l i x) -> e = x \/ In e l.
Proof.
  revert i. induction l as [|h t IH]; intros i; cbn [set_nth_N]; [destruct i; intros []|].
  destruct i; cbn [In]; intros [H|H]; auto. destruct (IH _ H); auto.
Qed.

Lemma mark_closed_ring_In c id w e : In e (sc_ring (mark_closed c id w)) -> e = (id, w) \/ In e (sc_ring c).
Proof.
  unfold mark_closed. destruct (in_ring c id); [auto|]. destruct (_ <? _); sc_cbn.
  - intro H. apply in_app_or in H. destruct H as [H|[H|[]]]; auto.
  - apply set_nth_N_In.
Qed.

Lemma RIP_mark_closed c id w : id <= sc_highestID c -> RIP c (mark_closed c id w).
Proof.
  intros Hid [A B]. split.
  - intros e He. rewrite sc_highestID_mark_closed. destruct (mark_closed_ring_In _ _ _ _ He) as [->|H]; [exact Hid | auto].
  - rewrite sc_strms_mark_closed, sc_highestID_mark_closed. exact B.
Qed.

Lemma RIP_write_goaway c sid code : RIP c (write_goaway c sid code).
Proof. apply RIP_same; sc_rw; try reflexivity; flia. Qed.
Lemma RIP_write_reset c sid code : RIP c (write_reset c sid code).
Proof. apply RIP_same; sc_rw; try reflexivity; flia. Qed.
Lemma RIP_emit c o : RIP c (emit c o).
Proof. apply RIP_same; sc_rw; try reflexivity; flia. Qed.
Lemma RIP_note c o : RIP c (note c o).
Proof. apply RIP_same; sc_rw; try reflexivity; flia. Qed.
Lemma RIP_brk c : RIP c (fst (brk c)).
Proof. apply RIP_same; sc_rw; try reflexivity; flia. Qed.
Lemma RIP_write_error c s e : RIP c (fst (write_error c s e)).
Proof. apply RIP_same; sc_rw; try reflexivity; flia. Qed.
Lemma RIP_upd_enc c h : RIP c (upd_enc c h).
Proof. apply RIP_same; sc_cbn; try reflexivity; flia. Qed.
Lemma RIP_upd_highestID c n : sc_highestID c <= n -> RIP c (upd_highestID c n).
Proof. intro H. apply RIP_same; sc_cbn; try reflexivity; flia. Qed.
Lemma RIP_DD c c' : DD c c' -> RIP c c'.
Proof. intros (d & i & p & n & ->). apply RIP_same; sc_cbn; try reflexivity; flia. Qed.
Lemma RIP_Recv_ring c c' : Recv c c' -> sc_ring c' = sc_ring c -> RIP c c'.
Proof. intros R E. apply RIP_same; [exact E | apply R | rewrite (rv_highestID _ _ _ R); flia]. Qed.
Lemma RIP_credit c n : RIP c (credit_conn_window cfg c n).
Proof. apply RIP_same; sc_rw; try reflexivity; flia. Qed.
Lemma RIP_put c x : RIP c (put c x).
Proof.
  intros [A B]. split; [rewrite sc_ring_put, sc_highestID_put; exact A|].
  rewrite sc_highestID_put. unfold put. sc_cbn. intros s Hs.
  assert (I : In (st_id s) (map st_id (strms_put (sc_strms c) x))) by (apply in_map; exact Hs).
  rewrite strms_put_ids in I. apply in_map_iff in I. destruct I as (s0 & <- & H0). auto.
Qed.

Lemma discard_or_break_RIP c r : RIP c (fst r) -> RIP c (fst (discard_or_break r)).
Proof.
  destruct r as [c1 [e|]]; cbn [fst discard_or_break]; intro H; [|assumption].
  destruct e; (eapply RIP_trans; [eassumption|]).
  - eapply RIP_trans; [apply RIP_write_error | apply RIP_brk].
  - eapply RIP_trans; [apply RIP_write_error | apply RIP_brk].
  - eapply RIP_trans; [apply RIP_note | apply RIP_brk].
Qed.

(* a stream left the table for a reason the peer can see, or the connection is going down *)
Definition reset_seen (sid : N) c : Prop := exists o code, In o (sc_out c) /\ strip o = ORst sid code.
Definition AbortS (sid : N) c : Prop :=
  sc_sl_done c = true \/ sc_wl_dead c = true \/ sc_closing c = true \/ reset_seen sid c.

Lemma reset_seen_ext sid c c' P : out_ext P c c' -> reset_seen sid c -> reset_seen sid c'.
Proof. intros (new & E & _) (o & code & Hin & Ho). exists o, code. rewrite E. split; [apply in_or_app; right; exact Hin | exact Ho]. Qed.

Lemma AbortS_Frame sid c c' P : Frame c c' -> out_ext P c c' -> AbortS sid c -> AbortS sid c'.
Proof.
  intros F O [H|[H|[H|H]]].
  - left. destruct (f_sl_done _ _ _ F) as [E|E]; congruence.
  - right; left. rewrite (f_wl_dead _ _ _ F). exact H.
  - right; right; left. apply (f_closing _ _ _ F H).
  - right; right; right. eapply reset_seen_ext; eassumption.
Qed.

Lemma write_reset_seen c sid code : sc_wl_dead c = true \/ reset_seen sid (write_reset c sid code).
Proof.
  unfold write_reset, reset_seen. rewrite sc_out_emit. destruct (sc_wl_dead c); [left; reflexivity|]. right.
  destruct (sc_sl_done c); eexists _, code; (split; [left; reflexivity | reflexivity]).
Qed.

Lemma search_del_other l id id' : id <> id' -> strms_search (strms_del l id') id = strms_search l id.
Proof.
  intro Hn. induction l as [|y t IH]; cbn [strms_search strms_del]; [reflexivity|].
  destruct (st_id y =? id') eqn:E.
  - replace (st_id y =? id) with false by flia. reflexivity.
  - cbn [strms_search]. rewrite IH. reflexivity.
Qed.

(* streams are closed by the server's own doing: each with an RST_STREAM *)
Record ClosesR c c' : Prop := mkClosesR {
  cr_closes : Closes c c';
  cr_ri : RIP c c';
  cr_why : forall sid, strms_search (sc_strms c') sid = strms_search (sc_strms c) sid \/ AbortS sid c'
}.

Lemma ClosesR_refl c : ClosesR c c.
Proof. constructor; [apply Closes_refl | apply RIP_refl | auto]. Qed.
Lemma ClosesR_trans a b c : ClosesR a b -> ClosesR b c -> ClosesR a c.
Proof.
  intros [A1 A2 A3] [B1 B2 B3]. constructor; [eapply Closes_trans; eassumption | eapply RIP_trans; eassumption|].
  intro sid. destruct (B3 sid) as [E|E]; [|right; exact E]. rewrite E. destruct (A3 sid) as [E'|E']; [left; exact E'|].
  right. eapply AbortS_Frame; [apply B1 | apply B1 | exact E'].
Qed.

Lemma RIP_close_stream c s : In (st_id s) (map st_id (sc_strms c)) -> RIP c (close_stream c s).
Proof.
  intros Hin [A B].
  assert (Hid : st_id s <= sc_highestID c).
  { apply in_map_iff in Hin. destruct Hin as (s0 & <- & H0). auto. }
  split.
  - rewrite sc_highestID_close_stream, sc_ring_close_stream. intros e He.
    destruct (mark_closed_ring_In _ _ _ _ He) as [->|H]; [exact Hid | auto].
  - rewrite sc_highestID_close_stream, sc_strms_close_stream. intros x Hx. apply B. eapply strms_del_In. exact Hx.
Qed.

(* one stream of the table is closed with an RST_STREAM, in either order *)
Lemma ClosesR_reset_close c s code : In (st_id s) (map st_id (sc_strms c)) ->
  ClosesR c (close_stream (write_reset c (st_id s) code) s).
Proof.
  intro Hin. constructor.
  - eapply Closes_trans; [apply Closes_write_reset | apply Closes_close_stream].
  - eapply RIP_trans; [apply RIP_write_reset|]. apply RIP_close_stream. rewrite sc_strms_write_reset. exact Hin.
  - intro sid. destruct (N.eq_dec sid (st_id s)) as [->|NE].
    + right. eapply AbortS_Frame; [apply Frame_close_stream | apply close_stream_out|].
      destruct (write_reset_seen c (st_id s) code) as [H|H]; [right; left; rewrite sc_wl_dead_write_reset; exact H|].
      right; right; right. exact H.
    + left. rewrite sc_strms_close_stream, sc_strms_write_reset. apply search_del_other. exact NE.
Qed.
Lemma ClosesR_close_reset c s code : In (st_id s) (map st_id (sc_strms c)) ->
  ClosesR c (write_reset (close_stream c s) (st_id s) code).
Proof.
  intro Hin. constructor.
  - eapply Closes_trans; [apply Closes_close_stream | apply Closes_write_reset].
  - eapply RIP_trans; [apply RIP_close_stream; exact Hin | apply RIP_write_reset].
  - intro sid. destruct (N.eq_dec sid (st_id s)) as [->|NE].
    + right. destruct (write_reset_seen (close_stream c s) (st_id s) code) as [H|H];
        [right; left; rewrite sc_wl_dead_write_reset; exact H | right; right; right; exact H].
    + left. rewrite sc_strms_write_reset, sc_strms_close_stream. apply search_del_other. exact NE.
Qed.

Lemma implicit_close_ClosesR fuel : forall c sid, ClosesR c (implicit_close fuel c sid).
Proof.
  induction fuel as [|fuel IH]; intros c sid; cbn [implicit_close]; [apply ClosesR_refl|].
  destruct (sc_strms c) as [|n t] eqn:E; [apply ClosesR_refl|].
  match goal with |- context [if ?b then _ else _] => destruct b end; [|apply ClosesR_refl].
  eapply ClosesR_trans; [|apply IH].
  apply (ClosesR_close_reset c (set_state (set_weReset n) SClosed) c_StreamCanceled).
  rewrite E. left. reflexivity.
Qed.

Lemma close_heads_ClosesR n : forall c, ClosesR c (close_heads n c).
Proof.
  induction n as [|n IH]; intro c; cbn [close_heads]; [apply ClosesR_refl|].
  destruct (sc_strms c) as [|s t] eqn:E; [apply ClosesR_refl|].
  eapply ClosesR_trans; [|apply IH].
  apply (ClosesR_reset_close c (set_state (set_weReset s) SClosed) c_StreamCanceled).
  rewrite E. left. reflexivity.
Qed.

(* the table stream a frame is for, as the stream loop looks it up *)
Definition found c (fr : sframe) : option stream :=
  if sf_sid fr <=? sc_lastID c then strms_search (sc_strms c) (sf_sid fr) else None.

Inductive SLX c (fr : sframe) : sconn -> Prop :=
| SLX_quiet c' : Quiet c c' -> RIP c c' ->
    (sf_sid fr = 0 -> lgrants_of fr = []) ->
    (sf_sid fr <> 0 -> lgrants_of fr = [] \/ found c fr = None) ->
    (sf_sid fr <> 0 -> sf_kind fr = KHeaders -> RI c -> sc_lastID c <= sc_highestID c -> sf_sid fr <= sc_highestID c') ->
    SLX c fr c'
| SLX_dead c' : Frame c c' -> out_ext quiet_out c c' -> sc_sl_done c' = true -> SLX c fr c'
| SLX_settings : sf_sid fr = 0 -> sf_kind fr = KSettings -> sf_set_haswin fr = true ->
    let c0 := settings_c0 enc_set_max c fr in
    let newInit := signed 32 (sf_set_win fr) in
    let delta := (newInit - sc_initWin c)%Z in
    Forall (fun s => (st_window s + delta <= MAXWIN)%Z) (sc_strms c) ->
    SLX c fr (flush_streams (emit (upd_strms (upd_initWin c0 newInit) (map (bump delta) (sc_strms c))) OSettingsAck))
| SLX_winupd : sf_sid fr = 0 -> sf_kind fr = KWinUpd -> (sc_clientWindow c + Z.of_N (sf_inc fr) <= MAXWIN)%Z ->
    SLX c fr (flush_streams (upd_clientWindow c (sc_clientWindow c + Z.of_N (sf_inc fr))))
| SLX_credit : sf_sid fr <> 0 -> sf_kind fr = KData ->
    SLX c fr (credit_conn_window cfg c (Z.of_N (sf_len fr)))
| SLX_prev c1 s p : sf_sid fr <> 0 -> Origin c fr c1 s -> sf_kind fr = KHeaders -> In p (sc_strms c1) ->
    SLX c fr (put (write_goaway c1 (st_id p) c_ProtocolError) (set_state p SClosed))
| SLX_after c1 s c2 cX sX : sf_sid fr <> 0 -> Origin c fr c1 s -> ClosesR c1 c2 -> HFok dec_field cfg c2 s fr cX sX ->
    SLX c fr (fst (after_frame cfg cX sX fr (sc_closing c))).


Ltac ris :=
  lazymatch goal with
  | |- RIP ?a ?a => apply RIP_refl
  | |- RIP _ (fst (cont ?x)) => change (fst (cont x)) with x; ris
  | |- RIP _ (write_goaway _ _ _) => eapply RIP_trans; [|apply RIP_write_goaway]; ris
  | |- RIP _ (write_reset _ _ _) => eapply RIP_trans; [|apply RIP_write_reset]; ris
  | |- RIP _ (mark_closed _ _ _) => eapply RIP_trans; [|apply RIP_mark_closed; sc_rw; sc_cbn; flia]; ris
  | |- RIP _ (fst (brk _)) => eapply RIP_trans; [|apply RIP_brk]; ris
  | |- RIP _ (fst (write_error _ _ _)) => eapply RIP_trans; [|apply RIP_write_error]; ris
  | |- RIP _ (upd_enc _ _) => eapply RIP_trans; [|apply RIP_upd_enc]; ris
  | |- RIP _ (upd_highestID _ _) => eapply RIP_trans; [|apply RIP_upd_highestID; sc_cbn; flia]; ris
  | |- RIP _ (emit _ OSettingsAck) => eapply RIP_trans; [|apply RIP_emit]; ris
  | |- RIP _ (credit_conn_window _ _ _) => eapply RIP_trans; [|apply RIP_credit]; ris
  | |- RIP _ (fst (discard_or_break _)) => apply discard_or_break_RIP; ris
  | |- RIP _ (fst (discard_header_block _ _ _ _)) => eapply RIP_trans; [|apply RIP_DD, discard_header_block_DD]; ris
  | |- RIP ?a ?b => constr_eq a b; apply RIP_refl
  end.

Ltac qs :=
  lazymatch goal with
  | |- Quiet ?a ?a => apply Quiet_refl
  | |- Quiet _ (fst (cont ?x)) => change (fst (cont x)) with x; qs
  | |- Quiet _ (write_goaway _ _ _) => eapply Quiet_trans; [|apply Quiet_write_goaway]; qs
  | |- Quiet _ (write_reset _ _ _) => eapply Quiet_trans; [|apply Quiet_write_reset]; qs
  | |- Quiet _ (mark_closed _ _ _) => eapply Quiet_trans; [|apply Quiet_mark_closed]; qs
  | |- Quiet _ (fst (brk _)) => eapply Quiet_trans; [|apply Quiet_brk]; qs
  | |- Quiet _ (fst (write_error _ _ _)) => eapply Quiet_trans; [|apply Quiet_write_error]; qs
  | |- Quiet _ (upd_enc _ _) => eapply Quiet_trans; [|apply Quiet_upd_enc]; qs
  | |- Quiet _ (upd_highestID _ _) => eapply Quiet_trans; [|apply Quiet_upd_highestID; sc_cbn; flia]; qs
  | |- Quiet _ (emit _ OSettingsAck) => eapply Quiet_trans; [|apply Quiet_emit; exact I]; qs
  | |- Quiet _ (fst (discard_or_break _)) => apply discard_or_break_Quiet; qs
  | |- Quiet _ (fst (discard_header_block _ _ _ _)) => eapply Quiet_trans; [|apply DD_Quiet, discard_header_block_DD]; qs
  | |- Quiet ?a ?b => constr_eq a b; apply Quiet_refl
  end.

Ltac fs :=
  lazymatch goal with
  | |- Frame _ (fst (cont ?x)) => change (fst (cont x)) with x; fs
  | |- Frame _ (upd_clientWindow _ _) => eapply Frame_trans; [|apply Frame_upd_clientWindow]; fs
  | |- Frame _ (upd_strms _ _) => eapply Frame_trans; [|apply Frame_upd_strms]; fs
  | |- Frame _ (upd_initWin _ _) => eapply Frame_trans; [|apply Frame_upd_initWin]; fs
  | |- Frame _ (upd_enc _ _) => eapply Frame_trans; [|apply Frame_upd_enc]; fs
  | |- Frame _ (upd_open _ _) => eapply Frame_trans; [|apply Frame_upd_open]; fs
  | |- Frame _ (put _ _) => eapply Frame_trans; [|apply Frame_put]; fs
  | |- Frame _ (upd_lastID _ _) => eapply Frame_trans; [|apply Frame_upd_lastID; sc_cbn; flia]; fs
  | |- Frame _ (upd_highestID _ _) => eapply Frame_trans; [|apply Frame_upd_highestID; sc_cbn; flia]; fs
  | |- Frame _ (write_goaway _ _ _) => eapply Frame_trans; [|apply Quiet_Frame, Quiet_write_goaway]; fs
  | |- Frame _ (write_reset _ _ _) => eapply Frame_trans; [|apply Quiet_Frame, Quiet_write_reset]; fs
  | |- Frame _ (fst (brk _)) => eapply Frame_trans; [|apply Quiet_Frame, Quiet_brk]; fs
  | |- Frame _ (note _ _) => eapply Frame_trans; [|apply Frame_note]; fs
  | |- Frame _ (emit _ _) => eapply Frame_trans; [|apply Frame_emit]; fs
  | |- Frame _ (settings_c0 _ _ _) => unfold settings_c0; match goal with |- context [if ?b then _ else _] => destruct b end; fs
  | |- Frame ?a ?b => constr_eq a b; apply Frame_refl
  end.

Ltac os :=
  lazymatch goal with
  | |- out_ext _ _ (fst (cont ?x)) => change (fst (cont x)) with x; os
  | |- out_ext ?P ?a (upd_clientWindow ?x _) => apply (out_ext_trans _ P a x); [|apply out_ext_same; reflexivity]; os
  | |- out_ext ?P ?a (upd_strms ?x _) => apply (out_ext_trans _ P a x); [|apply out_ext_same; reflexivity]; os
  | |- out_ext ?P ?a (upd_initWin ?x _) => apply (out_ext_trans _ P a x); [|apply out_ext_same; reflexivity]; os
  | |- out_ext ?P ?a (upd_enc ?x _) => apply (out_ext_trans _ P a x); [|apply out_ext_same; reflexivity]; os
  | |- out_ext ?P ?a (upd_open ?x _) => apply (out_ext_trans _ P a x); [|apply out_ext_same; reflexivity]; os
  | |- out_ext ?P ?a (upd_lastID ?x _) => apply (out_ext_trans _ P a x); [|apply out_ext_same; reflexivity]; os
  | |- out_ext ?P ?a (upd_highestID ?x _) => apply (out_ext_trans _ P a x); [|apply out_ext_same; reflexivity]; os
  | |- out_ext ?P ?a (put ?x _) => apply (out_ext_trans _ P a x); [|apply out_ext_same; reflexivity]; os
  | |- out_ext _ _ (write_goaway _ _ _) => eapply out_ext_trans; [|apply q_out, Quiet_write_goaway]; os
  | |- out_ext _ _ (write_reset _ _ _) => eapply out_ext_trans; [|apply q_out, Quiet_write_reset]; os
  | |- out_ext _ _ (fst (brk _)) => eapply out_ext_trans; [|apply q_out, Quiet_brk]; os
  | |- out_ext _ _ (note _ (OPanic _ _)) => eapply out_ext_trans; [|apply out_ext_note; exact I]; os
  | |- out_ext _ _ (settings_c0 _ _ _) => unfold settings_c0; match goal with |- context [if ?b then _ else _] => destruct b end; os
  | |- out_ext _ ?a ?b => constr_eq a b; apply out_ext_refl
  end.

Lemma sl_tail_SLX c fr c1 s : sf_sid fr <> 0 ->
  Origin c fr c1 s \/
  (sf_kind fr <> KHeaders /\ sf_kind fr <> KPriority /\ st_state s = SIdle /\ Frame c c1 /\ out_ext quiet_out c c1) ->
  SLX c fr (fst (sl_tail dec_field cfg fr (sc_closing c) c1 s)).
Proof.
  intros NZ HO.
  assert (FO : Frame c c1 /\ out_ext quiet_out c c1).
  { destruct HO as [HO|(_ & _ & _ & A & B)]; [eapply Origin_Frame; eassumption | auto]. }
  destruct FO as [FO OO].
  unfold sl_tail.
  assert (P2 : (exists p, sf_kind fr = KHeaders /\ In p (sc_strms c1) /\
                  SLX c fr (put (write_goaway c1 (st_id p) c_ProtocolError) (set_state p SClosed)) /\
                  (if fkind_eqb (sf_kind fr) KHeaders then
                     match get_previous_headers (sc_strms c1) with
                     | Some p =>
                       if negb (st_headersFinished p) then
                         let '(c2, p') := write_error c1 (Some p) (EGoAway c_ProtocolError) in
                         inl (cont (match p' with Some p' => put c2 p' | None => c2 end))
                       else inr (implicit_close (S (length (sc_strms c1))) c1 (st_id s))
                     | None => inr (implicit_close (S (length (sc_strms c1))) c1 (st_id s))
                     end
                   else inr c1) = inl (cont (put (write_goaway c1 (st_id p) c_ProtocolError) (set_state p SClosed))))
               \/
               (exists c2, ClosesR c1 c2 /\
                  (if fkind_eqb (sf_kind fr) KHeaders then
                     match get_previous_headers (sc_strms c1) with
                     | Some p =>
                       if negb (st_headersFinished p) then
                         let '(c2, p') := write_error c1 (Some p) (EGoAway c_ProtocolError) in
                         inl (cont (match p' with Some p' => put c2 p' | None => c2 end))
                       else inr (implicit_close (S (length (sc_strms c1))) c1 (st_id s))
                     | None => inr (implicit_close (S (length (sc_strms c1))) c1 (st_id s))
                     end
                   else inr c1) = inr c2)).
  { destruct (fkind_eqb (sf_kind fr) KHeaders) eqn:KH.
    - apply fkind_eqb_eq in KH.
      destruct (get_previous_headers (sc_strms c1)) as [p|] eqn:GP.
      + destruct (negb (st_headersFinished p)).
        * left. exists p. apply get_previous_headers_In in GP.
          split; [assumption|]. split; [assumption|]. split; [|reflexivity].
          destruct HO as [HO|(NH & _)]; [|contradiction]. eapply SLX_prev; eassumption.
        * right. eexists. split; [apply implicit_close_ClosesR | reflexivity].
      + right. eexists. split; [apply implicit_close_ClosesR | reflexivity].
    - right. exists c1. split; [apply ClosesR_refl | reflexivity]. }
  destruct P2 as [(p & KH & Hp & HS & ->) | (c2 & CLR & ->)]; [exact HS|].
  pose proof (cr_closes _ _ CLR) as CL.
  destruct (handle_frame dec_field cfg c2 s fr) as [[c3 s3] e] eqn:HF.
  assert (F2 : Frame c c2) by (eapply Frame_trans; [exact FO | apply CL]).
  assert (O2 : out_ext quiet_out c c2) by (eapply out_ext_trans; [exact OO | apply CL]).
  destruct e as [e|].
  - destruct e as [code|code|].
    + pose proof (handle_frame_fatal _ _ _ _ _ _ _ _ _ HF I) as D.
      cbn [write_error]. destruct (negb (code =? c_NoError)) eqn:NE.
      * apply SLX_dead; [| |reflexivity].
        -- eapply Frame_trans; [exact F2|]. eapply Frame_trans; [apply Quiet_Frame, DD_Quiet, D|]. fs.
        -- eapply out_ext_trans; [exact O2|]. eapply out_ext_trans; [apply q_out, DD_Quiet, D|]. os.
      * destruct HO as [HO|(NH & NP & SI & _)].
        -- eapply SLX_after; [exact NZ | exact HO | exact CLR|]. unfold HFok. rewrite HF. repeat split. flia.
        -- exfalso. unfold handle_frame, verify_state in HF. rewrite SI in HF.
           destruct (sf_kind fr); try contradiction; cbn in HF; inversion HF; subst; discriminate.
    + destruct HO as [HO|(NH & NP & SI & _)].
      * cbn [write_error]. eapply SLX_after; [exact NZ | exact HO | exact CLR|]. unfold HFok. rewrite HF. repeat split.
      * exfalso. unfold handle_frame, verify_state in HF. rewrite SI in HF.
        destruct (sf_kind fr); try contradiction; cbn in HF; inversion HF.
    + pose proof (handle_frame_fatal _ _ _ _ _ _ _ _ _ HF I) as D. cbn [write_error].
      apply SLX_dead; [| |reflexivity].
      * eapply Frame_trans; [exact F2|]. eapply Frame_trans; [apply Quiet_Frame, DD_Quiet, D|]. fs.
      * eapply out_ext_trans; [exact O2|]. eapply out_ext_trans; [apply q_out, DD_Quiet, D|]. os.
  - destruct HO as [HO|(NH & NP & SI & _)].
    + eapply SLX_after; [exact NZ | exact HO | exact CLR|]. unfold HFok. rewrite HF. split; reflexivity.
    + exfalso. unfold handle_frame, verify_state in HF. rewrite SI in HF.
      destruct (sf_kind fr); try contradiction; cbn in HF; inversion HF.
Qed.

Lemma in_ring_In c id : in_ring c id = true -> exists e, In e (sc_ring c) /\ fst e = id.
Proof.
  unfold in_ring. intro H. apply existsb_exists in H. destruct H as (e & He & E). exists e. split; [exact He|].
  apply N.eqb_eq in E. symmetry. exact E.
Qed.

Lemma quiet_hi cm c' sid : sid <= sc_highestID cm -> Quiet cm c' -> sid <= sc_highestID c'.
Proof. intros H Q. pose proof (q_highestID _ _ _ Q). flia. Qed.

Lemma lgrants_conn_nil fr : (sf_sid fr =? 0) = true -> sf_kind fr <> KWinUpd ->
  (sf_kind fr = KSettings -> sf_set_haswin fr = false) -> lgrants_of fr = [].
Proof.
  intros Z K1 K2. unfold lgrants_of. rewrite Z. destruct (sf_kind fr); try reflexivity; [rewrite K2; reflexivity | congruence].
Qed.
Lemma lgrants_strm_nil fr : (sf_sid fr =? 0) = false -> sf_kind fr <> KHeaders -> sf_kind fr <> KWinUpd -> lgrants_of fr = [].
Proof. intros Z K1 K2. unfold lgrants_of. rewrite Z. destruct (sf_kind fr); try reflexivity; congruence. Qed.

Theorem sl_frame_SLX c fr : SLX c fr (fst (sl_frame dec_field enc_set_max cfg c fr)).
Proof.
  destruct (sf_sid fr =? 0) eqn:Z0.
  - (* connection-level frames *)
    assert (ZZ : sf_sid fr = 0) by flia.
    destruct (sf_kind fr) eqn:K.
    5:{ rewrite sl_frame_settings by assumption. cbv zeta.
      destruct (sf_set_haswin fr) eqn:HW.
      - destruct (bumpall _ [] _) as [l' over] eqn:B. destruct over.
        + apply SLX_dead; [fs | os | reflexivity].
        + apply bumpall_false in B. destruct B as [-> F]. cbn [app fst cont].
          replace (sc_strms (upd_initWin (settings_c0 enc_set_max c fr) (signed 32 (sf_set_win fr)))) with (sc_strms c) in *
            by (unfold settings_c0; destruct (sf_set_hastable fr); reflexivity).
          replace (sc_initWin (settings_c0 enc_set_max c fr)) with (sc_initWin c) in *
            by (unfold settings_c0; destruct (sf_set_hastable fr); reflexivity).
          apply SLX_settings; try assumption.
      - apply SLX_quiet.
        + cbn [fst cont]. unfold settings_c0. destruct (sf_set_hastable fr); qs.
        + cbn [fst cont]. unfold settings_c0. destruct (sf_set_hastable fr); ris.
        + intros _. apply lgrants_conn_nil; [assumption | congruence | intros _; exact HW].
        + intro X; contradiction.
        + intro X; contradiction. }
    all: unfold sl_frame; rewrite Z0, K.
    all: try (apply SLX_quiet; [qs | ris | (intros _; apply lgrants_conn_nil; [assumption | congruence | congruence])
                               | (intro X; contradiction) | (intro X; contradiction)]).
    destruct (MAXWIN <? sc_clientWindow c + Z.of_N (sf_inc fr))%Z eqn:E.
    + apply SLX_dead; [fs | os | reflexivity].
    + apply SLX_winupd; [flia | assumption | flia].
  - (* stream frames *)
    assert (NZ : sf_sid fr <> 0) by flia.
    destruct (fkind_eqb (sf_kind fr) KCont && negb (sc_discardID c =? 0) && (sf_sid fr =? sc_discardID c)) eqn:DC.
    + assert (K : sf_kind fr = KCont).
      { destruct (fkind_eqb (sf_kind fr) KCont) eqn:E; [apply fkind_eqb_eq in E; exact E | discriminate]. }
      unfold sl_frame. rewrite Z0, DC. apply SLX_quiet; [qs | ris | (intro X; contradiction) | | ].
      * intros _. left. apply lgrants_strm_nil; [assumption | congruence | congruence].
      * intros _ K'. congruence.
    + rewrite sl_frame_stream by assumption. unfold sl_pre. cbv zeta.
      destruct (if sf_sid fr <=? sc_lastID c then strms_search (sc_strms c) (sf_sid fr) else None) as [s|] eqn:FD.
      { destruct (sf_sid fr <=? sc_lastID c) eqn:LE; [|discriminate].
        apply sl_tail_SLX; [exact NZ|]. left. apply Or_found; [flia | assumption]. }
      assert (G1 : sf_sid fr <> 0 -> lgrants_of fr = [] \/ found c fr = None) by (intros _; right; exact FD).
      assert (G0 : sf_sid fr = 0 -> lgrants_of fr = []) by (intro X; contradiction).
      destruct (fkind_eqb (sf_kind fr) KRst) eqn:KR.
      { apply fkind_eqb_eq in KR.
        destruct ((sc_lastID c <? sf_sid fr) && (sc_highestID c <? sf_sid fr));
          (apply SLX_quiet; [qs | ris | exact G0 | exact G1 | intros _ K'; congruence]). }
      destruct (in_ring c (sf_sid fr)) eqn:IR.
      { assert (HH : forall c', Quiet c c' -> RI c -> sf_sid fr <= sc_highestID c').
        { intros c' Q [A _]. destruct (in_ring_In _ _ IR) as (e & He & <-). eapply quiet_hi; [apply A, He | exact Q]. }
        destruct (sf_kind fr) eqn:K;
          try (apply SLX_quiet; [qs | ris | exact G0 | exact G1 | intros _ _ RR _; apply HH; [qs | exact RR]]).
        - destruct (match ring_find c (sf_sid fr) with Some b => b | None => false end).
          + apply SLX_credit; [exact NZ | exact K].
          + apply SLX_quiet; [qs | ris | exact G0 | exact G1 | intros _ _ RR _; apply HH; [qs | exact RR]].
        - destruct (match ring_find c (sf_sid fr) with Some b => b | None => false end);
            (apply SLX_quiet; [qs | ris | exact G0 | exact G1 | intros _ _ RR _; apply HH; [qs | exact RR]]). }
      destruct (fkind_eqb (sf_kind fr) KPriority) eqn:KP.
      { apply fkind_eqb_eq in KP. destruct (sf_dep fr =? sf_sid fr);
          (apply SLX_quiet; [qs | ris | exact G0 | exact G1 | intros _ K'; congruence]). }
      destruct (fkind_eqb (sf_kind fr) KHeaders) eqn:KH; cbn [andb].
      * apply fkind_eqb_eq in KH.
        destruct (sf_sid fr <=? sc_highestID c) eqn:HI.
        { apply SLX_quiet; [qs | ris | exact G0 | exact G1 |]. intros _ _ _ _. apply (quiet_hi c); [flia | qs]. }
        sc_cbn.
        assert (HU : forall c', Quiet (upd_highestID c (sf_sid fr)) c' -> sf_sid fr <= sc_highestID c').
        { intros c' Q. eapply quiet_hi; [|exact Q]. sc_cbn. flia. }
        destruct ((cf_maxStreams cfg <=? sc_open c)%Z || sc_closing c).
        { apply SLX_quiet; [qs | ris | exact G0 | exact G1 | intros _ _ _ _; apply HU; qs]. }
        destruct (sf_sid fr <? sc_lastID c) eqn:LT.
        { apply SLX_quiet; [qs | ris | exact G0 | exact G1 | intros _ _ _ _; apply HU; qs]. }
        destruct (sc_closing c) eqn:CLO.
        { apply SLX_quiet; [qs | ris | exact G0 | exact G1 | intros _ _ _ _; apply HU; qs]. }
        pose proof (Or_created _ c fr KH FD) as OC. unfold new_strm in OC.
        match goal with |- SLX c fr (fst (sl_tail _ _ fr false ?c1 ?s)) => pose proof (sl_tail_SLX c fr c1 s NZ) as T end.
        rewrite CLO in T. apply T. left. apply OC; flia.
      * destruct (sf_sid fr <? sc_lastID c) eqn:LT.
        { apply SLX_quiet; [qs | ris | exact G0 | exact G1 | intros _ K'; rewrite K' in KH; discriminate]. }
        apply sl_tail_SLX; [exact NZ|]. right.
        split; [intro E; rewrite E in KH; discriminate|].
        split; [intro E; rewrite E in KP; discriminate|].
        split; [reflexivity|]. split; [fs | os].
Qed.

End Decomp.
