(* Proofs/TeardownCliLive4.v -- blocking-structure model (Impl/Teardown.v), client, S3 liveness (4): the winner of the CAS closes the socket.
   Statements: Props/Teardown.v; overview: Proofs/TeardownProofs.v. *)
From Coq Require Import Arith Lia Bool List.
From RecordUpdate Require Import RecordSet.
Import RecordSetNotations.
Import ListNotations.
From H2V Require Import Impl.Teardown Proofs.TeardownGen Proofs.TeardownCliInv Proofs.TeardownCliInv1 Proofs.TeardownCliInv2 Proofs.TeardownCliInv3 Proofs.TeardownCliInv4 Proofs.TeardownCliLocks Proofs.TeardownCliInv5 Proofs.TeardownCliLive1.

Module CliL5.
Import Cli CliP CliP2 CliL CliL2.

Ltac easy_fin ::= solve [auto | congruence | lia | tauto | (intuition congruence)
                         | (intuition (try congruence; try lia))
                         | (repeat split; eauto; try congruence; try lia)
                         | (left; repeat split; eauto; try congruence; try lia)
                         | (right; right; right; repeat split; eauto; try congruence; try lia) ].
Ltac solve_side ::= cbn; unf; rwk; rwx; cbn;
  first [ solve [repeat split; eauto; try congruence; try lia]
        | match goal with |- _ \/ _ => first [ solve [left; solve_side] | solve [right; solve_side] ] end
        | solve [timeout 10 fin] ].
Ltac wunf := unfold iterQ, wl_t, wl_iter, wm, pcw in *.

Section P.
Variable cap : nat.
Hypothesis cap_pos : 1 <= cap.
Notation guard := (Cli.guard cap).
Notation reachable := (Cli.reachable cap).
Notation inv := (CliP.inv cap).
Variable r : run guard eff.
Hypothesis F : fair_run cap r.
Hypothesis R0 : reachable (st r 0).
Hypothesis NS : forall i, stalled (st r i) = false \/ dead (st r i) = true.

Notation Inv_run := (CliL2.Inv_run cap cap_pos r R0 NS).
Notation "P ~> Q" := (leadsto r P Q) (at level 70).
Notation ensures := (lt_ensures guard eff r (Inv cap) Inv_run).
Notation ensures_s := (lt_ensures_s guard eff r (Inv cap) Inv_run).
Let Fwl : sfair g_wl r := proj1 (proj2 (proj2 (proj2 F))).
Let Fbody : sfair g_body r := proj1 (proj2 (proj2 (proj2 (proj2 (proj2 (proj2 (proj2 F))))))).
Let Wwl := sfair_fair guard eff r g_wl Fwl.
Let Wbody := sfair_fair guard eff r g_body Fbody.
Notation rl_release := (CliL2.rl_release cap cap_pos r F R0 NS).

Notation done_stable := (CliL2.done_stable cap cap_pos r NS).
Let Frl : sfair g_rl r := proj1 (proj2 (proj2 (proj2 (proj2 F)))).
Let Fuc : sfair g_uc r := proj1 (proj2 (proj2 (proj2 (proj2 (proj2 F))))).
Let Wrl := sfair_fair guard eff r g_rl Frl.
Let Wuc := sfair_fair guard eff r g_uc Fuc.
Lemma W_of : forall p, fair (g_of p) r.
Proof. intros [|[|p]]; cbn; auto. Qed.
Lemma S_of : forall p, sfair (g_of p) r.
Proof. intros [|[|p]]; cbn; auto. Qed.

(* -- (C) whoever won the CAS gets through Close: the socket is closed -- *)
Lemma lwrite_release : (fun s => exists h, wl s = LWrite h) ~> (fun s => bw s = BwNone).
Proof.
  apply (ensures g_wl); auto.
  - cens1.
  - cens2.
  - intros s (_ & _ & Hs) (h & Hw). destruct (dead s) eqn:E.
    + exists (LWriteFail false); cbn; eauto.
    + destruct Hs as [Hs|Hs]; [|congruence]. exists LWriteOk; cbn; eauto.
Qed.

Lemma clock_holder : forall s p, p < 3 -> CliP.inv cap s -> cpc p s = Some CLock ->
  bw s = BwNone \/ exists h, wl s = LWrite h.
Proof.
  intros s p Hp (I1 & I2 & _) Hc. pose proof (i_bw _ I1) as Hb. pose proof (i_mid1 _ I2) as Hm.
  unfold bw_of_state, midn, cpc in *.
  destruct p as [|[|[|p]]]; try lia.
  - destruct (wl s) as [| | |?|?| | |[]| | |]; try discriminate.
    destruct (rl s) as [|?| |?|? ?|? ?| | |[]|]; cbn in *; try lia; auto;
      destruct (uc s) as [|[]|]; cbn in *; try lia; auto.
  - destruct (rl s) as [|?| |?|? ?|? ?| | |[]|]; try discriminate.
    destruct (wl s) as [| | |?|?| | |[]| | |]; cbn in *; try lia; eauto;
      destruct (uc s) as [|[]|]; cbn in *; try lia; auto.
  - destruct (uc s) as [|[]|]; try discriminate.
    destruct (wl s) as [| | |?|?| | |[]| | |]; cbn in *; try lia; eauto;
      destruct (rl s) as [|?| |?|? ?|? ?| | |[]|]; cbn in *; try lia; auto.
Qed.

Lemma clock_unless : forall p, p < 3 -> forall s a, Inv cap s ->
  cpc p s = Some CLock -> guard a s ->
  cpc p (eff a s) = Some CLock \/ cpc p (eff a s) = Some CWrite.
Proof. intros p Hp. destruct p as [|[|[|p]]]; try lia; cens1. Qed.

Lemma clock_step : forall p, p < 3 ->
  (fun s => cpc p s = Some CLock) ~> (fun s => cpc p s = Some CWrite).
Proof.
  intros p Hp. apply (ensures_s (g_of p)); [apply S_of | apply clock_unless; auto | | ].
  - destruct p as [|[|[|p]]]; try lia; cens2.
  - intros i HP.
    assert (forall s, cpc p s = Some CLock -> bw s = BwNone -> exists a, g_of p a /\ guard a s) as En.
    { intros s Hc Hb. exists (CLockB p). split; [destruct p as [|[|[|p]]]; try lia; cbn; auto|].
      cbn; auto. }
    destruct (Inv_run i) as (I & _). destruct (clock_holder _ p Hp I HP) as [Hb|Hw].
    + exists i; auto.
    + destruct (lt_unless guard eff r (Inv cap) Inv_run (fun s => cpc p s = Some CLock)
                  (fun s => cpc p s = Some CWrite) _ _ (clock_unless p Hp) lwrite_release i)
        as (j & Hj & [Hq|(HP' & Hr)]); [split; auto | exists j; auto | exists j; split; auto].
Qed.

Lemma cwrite_step : forall p, p < 3 ->
  (fun s => cpc p s = Some CWrite) ~> (fun s => sclosed s = true).
Proof.
  intros p Hp. apply (ensures (g_of p)); [apply W_of | | | ].
  - destruct p as [|[|[|p]]]; try lia; cens1.
  - destruct p as [|[|[|p]]]; try lia; cens2.
  - intros s (_ & _ & Hs) H. exists (CWriteRet p). split.
    + destruct p as [|[|[|p]]]; try lia; cbn; auto.
    + cbn; repeat split; auto; tauto.
Qed.

Lemma done_to_sclosed : (fun s => done s = true) ~> (fun s => sclosed s = true).
Proof.
  intros i Hd. destruct (Inv_run i) as (_ & I5 & _). destruct (i_fin _ I5 Hd) as [Hs|Hl].
  { exists i; auto. }
  assert (forall p, p < 3 -> is_late (cpc p (st r i)) = true ->
            exists j, i <= j /\ sclosed (st r j) = true) as K.
  { intros p Hp Hl'. destruct (cpc p (st r i)) as [[]|] eqn:E; try discriminate.
    - eapply (lt_trans _ _ _ _ _ _ (clock_step p Hp) (cwrite_step p Hp)); eauto.
    - eapply (cwrite_step p Hp); eauto. }
  apply orb_true_iff in Hl. destruct Hl as [Hl|Hl]; [apply orb_true_iff in Hl; destruct Hl as [Hl|Hl]|].
  - apply (K 0); auto.
  - apply (K 1); auto.
  - apply (K 2); auto.
Qed.
End P.
End CliL5.
