(* C03/C04: the dynamic table. shrink / addDynamic (uint32 sizes, oldest-first slice) against
   evict_to / add_entry of the specification (newest-first list); peek against lookup. *)
From Coq Require Import List NArith ZArith Bool Lia.
From H2V Require Import Base.Bytes Base.MachineInt Base.Result Gen.GenConsts Gen.GenStatic
     Impl.Huffman Impl.Hpack Spec.Rfc7541Huffman Spec.Rfc7541
     Proofs.HpackDefs Proofs.HpackBytes Proofs.HpackStatic.
Import ListNotations.
Local Open Scope N_scope.

(* ---- exact sizes ---- *)

Definition fsize (f : field) : N := len (f_key f) + len (f_value f) + 32.
Definition fsum (dyn : list field) : N := fold_right (fun f a => fsize f + a) 0 dyn.

Lemma fsum_cons f dyn : fsum (f :: dyn) = fsize f + fsum dyn.
Proof. reflexivity. Qed.

Lemma fsum_app a b : fsum (a ++ b) = fsum a + fsum b.
Proof. induction a as [|f a IH]; [reflexivity|]. cbn [app]. rewrite !fsum_cons, IH. lia. Qed.

Lemma fsize_ge f : 32 <= fsize f.
Proof. unfold fsize. lia. Qed.

Lemma fsum_length dyn : 32 * N.of_nat (length dyn) <= fsum dyn.
Proof.
  induction dyn as [|f dyn IH]; [cbn; lia|]. rewrite fsum_cons. pose proof (fsize_ge f).
  cbn [length]. lia.
Qed.

Lemma fsum_in f dyn : In f dyn -> fsize f <= fsum dyn.
Proof.
  induction dyn as [|g dyn IH]; [contradiction|]. rewrite fsum_cons. intros [->|Hin]; [lia|].
  specialize (IH Hin). lia.
Qed.

Lemma entry_size_of f : entry_size (entry_of f) = fsize f.
Proof. reflexivity. Qed.

Lemma table_size_app l e : table_size (l ++ [e]) = table_size l + entry_size e.
Proof.
  induction l as [|x l IH]; [cbn [app table_size fold_right]; lia|].
  cbn [app]. change (table_size (x :: l ++ [e])) with (entry_size x + table_size (l ++ [e])).
  change (table_size (x :: l)) with (entry_size x + table_size l). rewrite IH. lia.
Qed.

Lemma table_size_rev_map dyn : table_size (rev (map entry_of dyn)) = fsum dyn.
Proof.
  induction dyn as [|f dyn IH]; [reflexivity|].
  cbn [map rev]. rewrite table_size_app, IH, entry_size_of, fsum_cons. lia.
Qed.

Lemma abs_entries st : dt_entries (abs st) = rev (map entry_of (h_dynamic st)).
Proof. reflexivity. Qed.

Lemma table_size_abs st : table_size (dt_entries (abs st)) = fsum (h_dynamic st).
Proof. rewrite abs_entries. apply table_size_rev_map. Qed.

(* ---- DynamicSize in uint32 ---- *)

Lemma field_size_exact f : fsize f < 2 ^ 32 -> field_size f = fsize f.
Proof. intros H. unfold field_size. apply u32_small. exact H. Qed.

Lemma dynamic_size_from : forall dyn a, a + fsum dyn < 2 ^ 32 ->
  fold_left (fun n hf => u32 (n + field_size hf)) dyn a = a + fsum dyn.
Proof.
  induction dyn as [|f dyn IH]; intros a H; [cbn; lia|].
  rewrite fsum_cons in H. cbn [fold_left]. rewrite field_size_exact by lia.
  rewrite u32_small by lia. rewrite IH by lia. rewrite fsum_cons. lia.
Qed.

Lemma dynamic_size_exact dyn : fsum dyn < 2 ^ 32 -> dynamic_size dyn = fsum dyn.
Proof. intros H. unfold dynamic_size. rewrite dynamic_size_from by lia. lia. Qed.

(* ---- shrink: the longest suffix (newest entries) that fits ---- *)

Fixpoint fit (mx : N) (dyn : list field) : list field :=
  match dyn with
  | [] => []
  | f :: rest => if mx <? fsum dyn then fit mx rest else dyn
  end.

Lemma shrink_loop_fit_from : forall dyn mx, fsum dyn < 2 ^ 32 -> shrink_loop dyn (fsum dyn) mx = fit mx dyn.
Proof.
  induction dyn as [|f dyn IH]; intros mx H; [reflexivity|].
  cbn [shrink_loop fit]. destruct (mx <? fsum (f :: dyn)); [|reflexivity].
  rewrite fsum_cons in *. rewrite field_size_exact by lia.
  rewrite subw32_small by lia. replace (fsize f + fsum dyn - fsize f) with (fsum dyn) by lia.
  apply IH. lia.
Qed.

Lemma shrink_loop_fit dyn mx : fsum dyn < 2 ^ 32 -> shrink_loop dyn (dynamic_size dyn) mx = fit mx dyn.
Proof. intros H. rewrite dynamic_size_exact by exact H. apply shrink_loop_fit_from. exact H. Qed.

Lemma fit_all mx dyn : fsum dyn <= mx -> fit mx dyn = dyn.
Proof.
  destruct dyn as [|f dyn]; [reflexivity|]. intros H. cbn [fit].
  replace (mx <? fsum (f :: dyn)) with false by (symmetry; apply N.ltb_ge; exact H). reflexivity.
Qed.

Lemma fsum_fit_le mx dyn : fsum (fit mx dyn) <= mx.
Proof.
  induction dyn as [|f dyn IH]; [cbn; lia|]. cbn [fit].
  destruct (N.ltb_spec mx (fsum (f :: dyn))); [exact IH | assumption].
Qed.

Lemma fit_suffix mx dyn : exists pre, dyn = pre ++ fit mx dyn.
Proof.
  induction dyn as [|f dyn [pre IH]]; [exists []; reflexivity|]. cbn [fit].
  destruct (mx <? fsum (f :: dyn)).
  - exists (f :: pre). cbn [app]. f_equal. exact IH.
  - exists []. reflexivity.
Qed.

Lemma fit_fit a b dyn : fit a (fit b dyn) = fit (N.min a b) dyn.
Proof.
  induction dyn as [|f dyn IH]; [reflexivity|]. cbn [fit].
  destruct (N.ltb_spec b (fsum (f :: dyn))) as [Hb|Hb].
  - rewrite IH. replace (N.min a b <? fsum (f :: dyn)) with true by (symmetry; apply N.ltb_lt; lia).
    reflexivity.
  - destruct (N.ltb_spec (N.min a b) (fsum (f :: dyn))) as [Hm|Hm].
    + cbn [fit]. replace (a <? fsum (f :: dyn)) with true by (symmetry; apply N.ltb_lt; lia).
      replace (N.min a b) with a by lia. reflexivity.
    + cbn [fit]. replace (a <? fsum (f :: dyn)) with false by (symmetry; apply N.ltb_ge; lia). reflexivity.
Qed.

Lemma fit_app_new mx dyn f : fit mx (dyn ++ [f]) = fit mx (fit mx dyn ++ [f]).
Proof.
  induction dyn as [|g dyn IH]; [reflexivity|].
  cbn [app fit].
  destruct (N.ltb_spec mx (fsum (g :: dyn))) as [H1|H1].
  - replace (mx <? fsum (g :: dyn ++ [f])) with true.
    + exact IH.
    + symmetry. apply N.ltb_lt. change (g :: dyn ++ [f]) with ((g :: dyn) ++ [f]). rewrite fsum_app. lia.
  - reflexivity.
Qed.

(* ---- evict_to ---- *)

Lemma evict_fits : forall l budget, table_size l <= budget -> evict_to budget l = l.
Proof.
  induction l as [|e l IH]; intros budget H; [reflexivity|].
  change (table_size (e :: l)) with (entry_size e + table_size l) in H.
  cbn [evict_to]. replace (entry_size e <=? budget) with true by (symmetry; apply N.leb_le; lia).
  f_equal. apply IH. lia.
Qed.

Lemma evict_app_over : forall l e budget, budget < table_size (l ++ [e]) ->
  evict_to budget (l ++ [e]) = evict_to budget l.
Proof.
  induction l as [|x l IH]; intros e budget H.
  - cbn [app] in *. cbn [evict_to]. cbn [table_size fold_right] in H.
    replace (entry_size e <=? budget) with false by (symmetry; apply N.leb_gt; lia). reflexivity.
  - cbn [app] in *. change (table_size (x :: l ++ [e])) with (entry_size x + table_size (l ++ [e])) in H.
    cbn [evict_to]. destruct (N.leb_spec (entry_size x) budget) as [Hx|Hx]; [|reflexivity].
    f_equal. apply IH. lia.
Qed.

Lemma evict_size_le : forall l budget, table_size (evict_to budget l) <= budget.
Proof.
  induction l as [|e l IH]; intros budget; [cbn; lia|].
  cbn [evict_to]. destruct (N.leb_spec (entry_size e) budget) as [He|He]; [|cbn; lia].
  change (table_size (e :: evict_to (budget - entry_size e) l))
    with (entry_size e + table_size (evict_to (budget - entry_size e) l)).
  specialize (IH (budget - entry_size e)). lia.
Qed.

Lemma fit_evict mx dyn : rev (map entry_of (fit mx dyn)) = evict_to mx (rev (map entry_of dyn)).
Proof.
  induction dyn as [|f dyn IH]; [reflexivity|].
  cbn [fit]. destruct (N.ltb_spec mx (fsum (f :: dyn))) as [H|H].
  - rewrite IH. cbn [map rev]. symmetry. apply evict_app_over.
    rewrite table_size_app, table_size_rev_map, entry_size_of. rewrite fsum_cons in H. lia.
  - symmetry. apply evict_fits. rewrite table_size_rev_map. exact H.
Qed.

(* ---- shrink and addDynamic on the abstraction ---- *)

Lemma shrink_dynamic st : fsum (h_dynamic st) < 2 ^ 32 ->
  shrink st = with_dynamic st (fit (h_max st) (h_dynamic st)).
Proof. intros H. unfold shrink. rewrite shrink_loop_fit by exact H. reflexivity. Qed.

Lemma abs_shrink st : fsum (h_dynamic st) < 2 ^ 32 ->
  abs (shrink st) = mkDT (evict_to (h_max st) (dt_entries (abs st))) (h_max st) (h_max_settings st).
Proof.
  intros H. rewrite shrink_dynamic by exact H. unfold abs at 1. cbn [with_dynamic h_dynamic h_max h_max_settings].
  rewrite abs_entries. f_equal. apply fit_evict.
Qed.

Lemma add_dynamic_fit st f : fsum (h_dynamic st) + fsize f < 2 ^ 32 ->
  add_dynamic st f = with_dynamic st (fit (h_max st) (h_dynamic st ++ [f])).
Proof.
  intros H. unfold add_dynamic. rewrite shrink_dynamic.
  - destruct st; reflexivity.
  - cbn [with_dynamic h_dynamic]. rewrite fsum_app. cbn [fsum fold_right]. lia.
Qed.

Lemma abs_add_dynamic st f : fsum (h_dynamic st) + fsize f < 2 ^ 32 ->
  abs (add_dynamic st f) = add_entry (abs st) (entry_of f).
Proof.
  intros H. rewrite add_dynamic_fit by exact H. unfold abs at 1, add_entry.
  cbn [with_dynamic h_dynamic h_max h_max_settings]. f_equal.
  change (map (fun f0 => (f_key f0, f_value f0))) with (map entry_of).
  rewrite fit_evict, map_app, rev_app_distr. cbn [map rev app].
  cbn [evict_to]. change (dt_max (abs st)) with (h_max st). rewrite abs_entries. reflexivity.
Qed.

(* ---- peek against lookup ---- *)

Lemma nth_error_rev {A} (l : list A) k : (k < length l)%nat ->
  nth_error (rev l) k = nth_error l (length l - 1 - k).
Proof.
  intros H. assert (d : A) by (destruct l as [|d l0]; [simpl in H; lia | exact d]).
  rewrite (nth_error_nth' (rev l) d) by (rewrite rev_length; exact H).
  rewrite (nth_error_nth' l d) by lia. f_equal.
  rewrite rev_nth by exact H. f_equal. lia.
Qed.

Lemma signed64_small x : x < 2 ^ 63 -> signed 64 x = Z.of_N x.
Proof.
  intros H. unfold signed. rewrite N.mod_small by (change (2 ^ 64) with (2 * 2 ^ 63); lia).
  change (64 - 1) with 63. replace (x <? 2 ^ 63) with true by (symmetry; apply N.ltb_lt; exact H). reflexivity.
Qed.

Lemma signed64_big x : 2 ^ 63 <= x -> x < 2 ^ 64 -> signed 64 x = (Z.of_N x - 2 ^ 64)%Z.
Proof.
  intros H1 H2. unfold signed. rewrite N.mod_small by exact H2.
  change (64 - 1) with 63. replace (x <? 2 ^ 63) with false by (symmetry; apply N.ltb_ge; exact H1). reflexivity.
Qed.

Lemma int64_spec z : exists q : Z, int64 z = (z + q * 2 ^ 64)%Z /\ (- 2 ^ 63 <= int64 z < 2 ^ 63)%Z.
Proof.
  unfold int64, of_signed. change (Z.of_N (2 ^ 64)) with (2 ^ 64)%Z.
  pose proof (Z.mod_pos_bound z (2 ^ 64) ltac:(lia)) as Hb.
  pose proof (Z.div_mod z (2 ^ 64) ltac:(lia)) as Hd.
  set (m := (z mod 2 ^ 64)%Z) in *.
  assert (Hm : Z.of_N (Z.to_N m) = m) by (apply Z2N.id; lia).
  destruct (Z.ltb_spec m (2 ^ 63)) as [Hlt|Hge].
  - rewrite signed64_small by (apply N2Z.inj_lt; rewrite Hm; exact Hlt).
    rewrite Hm. exists (- (z / 2 ^ 64))%Z. lia.
  - rewrite signed64_big.
    + rewrite Hm. exists (- (z / 2 ^ 64) - 1)%Z. lia.
    + apply N2Z.inj_le. rewrite Hm. exact Hge.
    + apply N2Z.inj_lt. rewrite Hm. lia.
Qed.

Lemma subw64_small a b : b <= a -> a < 2 ^ 64 -> subw 64 a b = a - b.
Proof.
  intros H1 H2. unfold subw. rewrite (N.mod_small b) by lia.
  replace (a + 2 ^ 64 - b) with (a - b + 1 * 2 ^ 64) by lia.
  rewrite N.mod_add by (compute; discriminate). apply N.mod_small. lia.
Qed.

Lemma zidx_some {A} (l : list A) i x : zidx l i = Some x ->
  (0 <= i < Z.of_nat (length l))%Z /\ nth_error l (Z.to_nat i) = Some x.
Proof.
  unfold zidx. destruct (Z.ltb_spec i 0); [discriminate|].
  destruct (Z.leb_spec (Z.of_nat (length l)) i); [discriminate|]. intros Hn. split; [lia | exact Hn].
Qed.

Lemma zidx_in_range {A} (l : list A) i : (0 <= i < Z.of_nat (length l))%Z -> zidx l i = nth_error l (Z.to_nat i).
Proof.
  intros H. unfold zidx. destruct (Z.ltb_spec i 0); [lia|].
  destruct (Z.leb_spec (Z.of_nat (length l)) i); [lia|]. reflexivity.
Qed.

Lemma zidx_out_of_range {A} (l : list A) i : (i < 0 \/ Z.of_nat (length l) <= i)%Z -> zidx l i = None.
Proof.
  intros H. unfold zidx. destruct (Z.ltb_spec i 0); [reflexivity|].
  destruct (Z.leb_spec (Z.of_nat (length l)) i); [reflexivity|]. lia.
Qed.

Theorem peek_lookup st n : n < 2 ^ 64 -> N.of_nat (length (h_dynamic st)) < 2 ^ 62 ->
  option_map entry_of (peek st n) = lookup (abs st) n.
Proof.
  intros Hn HL. unfold peek, lookup. rewrite static_len_61. change c_maxIndex with 62.
  destruct (N.ltb_spec n 62) as [Hlt|Hge].
  - destruct (N.eqb_spec n 0) as [->|Hn0].
    + reflexivity.
    + replace (n <=? 61) with true by (symmetry; apply N.leb_le; lia).
      rewrite subw64_small by lia. rewrite signed64_small by lia.
      rewrite zidx_in_range by (rewrite static_fields_length; lia).
      unfold idx. rewrite <- static_fields_map, nth_error_map. replace (Z.to_nat (Z.of_N (n - 1))) with (N.to_nat (n - 1)) by lia. reflexivity.
  - replace (n =? 0) with false by (symmetry; apply N.eqb_neq; lia).
    replace (n <=? 61) with false by (symmetry; apply N.leb_gt; lia).
    rewrite subw64_small by lia.
    set (L := length (h_dynamic st)) in *.
    rewrite abs_entries, rev_length, map_length. fold L.
    destruct (int64_spec (Z.of_nat L - signed 64 (n - 62))) as [q1 [E1 R1]].
    destruct (int64_spec (int64 (Z.of_nat L - signed 64 (n - 62)) - 1)) as [q2 [E2 R2]].
    assert (HL' : (Z.of_nat L < 2 ^ 62)%Z) by lia.
    destruct (N.ltb_spec (n - 62) (2 ^ 63)) as [Hk|Hk].
    + rewrite signed64_small in * by exact Hk.
      assert (q1 = 0%Z) by lia. subst q1.
      assert (q2 = 0%Z) by lia. subst q2.
      rewrite E2, E1.
      destruct (N.leb_spec n (61 + N.of_nat L)) as [Hin|Hout].
      * rewrite zidx_in_range by lia. unfold idx.
        rewrite nth_error_rev by (rewrite map_length; fold L; lia).
        rewrite nth_error_map, map_length. fold L. do 2 f_equal. lia.
      * rewrite zidx_out_of_range by lia. reflexivity.
    + rewrite signed64_big in * by lia.
      replace (n <=? 61 + N.of_nat L) with false by (symmetry; apply N.leb_gt; lia).
      rewrite zidx_out_of_range; [reflexivity|]. lia.
Qed.

Lemma peek_in st n f : peek st n = Some f -> In f static_fields \/ In f (h_dynamic st).
Proof.
  unfold peek. destruct (n <? c_maxIndex); intros H; apply zidx_some in H; destruct H as [_ H];
    apply nth_error_In in H; auto.
Qed.

(* ---- table_ok ---- *)

Lemma table_ok_fsum st : table_ok st -> fsum (h_dynamic st) <= h_max st /\ h_max st < 2 ^ 32.
Proof. intros [_ [H2 [H3 H4]]]. rewrite table_size_abs in H2. lia. Qed.

Lemma table_ok_length st : table_ok st -> N.of_nat (length (h_dynamic st)) < 2 ^ 62.
Proof.
  intros H. apply table_ok_fsum in H. pose proof (fsum_length (h_dynamic st)).
  change (2 ^ 62) with 4611686018427387904. change (2 ^ 32) with 4294967296 in H. lia.
Qed.

Lemma forallb_suffix {A} (P : A -> bool) pre l : forallb P (pre ++ l) = true -> forallb P l = true.
Proof. rewrite forallb_app. intros H. apply andb_prop in H. tauto. Qed.

Lemma forallb_fit mx dyn : forallb field_ok dyn = true -> forallb field_ok (fit mx dyn) = true.
Proof.
  intros H. destruct (fit_suffix mx dyn) as [pre Hp]. rewrite Hp in H. eapply forallb_suffix. exact H.
Qed.
