(* Arithmetic behind the frame codec: the shift/or/mask expressions of the Go code are the
   big-endian encodings of the specification. *)
From Coq Require Import List NArith ZArith Bool Lia.
From Coq Require Import ZifyN ZifyNat ZifyBool.
From H2V Require Import Base.Bytes Base.MachineInt Base.Result Spec.Rfc7540Frames Impl.Pools Impl.Frames.
Import ListNotations.
Local Open Scope N_scope.
Ltac Zify.zify_post_hook ::= Z.div_mod_to_equations.

Lemma land_shift_low a b k : b < 2 ^ k -> N.land (a * 2 ^ k) b = 0.
Proof.
  intros H. apply N.bits_inj. intros n. rewrite N.land_spec, N.bits_0.
  destruct (N.lt_ge_cases n k) as [L|G].
  - rewrite N.mul_pow2_bits_low by assumption. reflexivity.
  - replace (N.testbit b n) with false; [apply andb_false_r|].
    symmetry. rewrite <- (N.mod_small b (2 ^ k)) by assumption.
    apply N.mod_pow2_bits_high. assumption.
Qed.

Lemma lor_shift_add a b k : b < 2 ^ k -> N.lor (a * 2 ^ k) b = a * 2 ^ k + b.
Proof.
  intros H. pose proof (land_shift_low a b k H) as L.
  rewrite (N.add_nocarry_lxor _ _ L). symmetry. apply N.lxor_lor. assumption.
Qed.

Lemma shlw32_byte b n : b < 256 -> n <= 24 -> shlw 32 b n = b * 2 ^ n.
Proof.
  intros Hb Hn. unfold shlw, wrap. rewrite N.shiftl_mul_pow2.
  apply N.mod_small.
  assert (2 ^ n <= 2 ^ 24) by (apply N.pow_le_mono_r; lia).
  change (2 ^ 32) with (256 * 2 ^ 24). change (2 ^ 24) with 16777216 in *. nia.
Qed.

Lemma shlw16_byte b : b < 256 -> shlw 16 b 8 = b * 256.
Proof.
  intros Hb. unfold shlw, wrap. rewrite N.shiftl_mul_pow2. change (2 ^ 8) with 256. change (2 ^ 16) with 65536.
  apply N.mod_small. lia.
Qed.

Lemma unbe2 a b : unbe [a; b] = a * 256 + b.
Proof. reflexivity. Qed.
Lemma unbe3 a b c : unbe [a; b; c] = (a * 256 + b) * 256 + c.
Proof. reflexivity. Qed.
Lemma unbe4 a b c d : unbe [a; b; c; d] = ((a * 256 + b) * 256 + c) * 256 + d.
Proof. reflexivity. Qed.

Lemma unbe2_lt a b : a < 256 -> b < 256 -> unbe [a; b] < 2 ^ 16.
Proof. rewrite unbe2. change (2 ^ 16) with 65536. lia. Qed.
Lemma unbe3_lt a b c : a < 256 -> b < 256 -> c < 256 -> unbe [a; b; c] < 2 ^ 24.
Proof. rewrite unbe3. change (2 ^ 24) with 16777216. lia. Qed.
Lemma unbe4_lt a b c d : a < 256 -> b < 256 -> c < 256 -> d < 256 -> unbe [a; b; c; d] < 2 ^ 32.
Proof. rewrite unbe4. change (2 ^ 32) with 4294967296. lia. Qed.

Lemma be2_eq x : be 2 x = [(x / 256) mod 256; x mod 256].
Proof. cbn [be]. change (256 ^ N.of_nat 1) with 256. change (256 ^ N.of_nat 0) with 1. rewrite N.div_1_r. reflexivity. Qed.
Lemma be3_eq x : be 3 x = [(x / 65536) mod 256; (x / 256) mod 256; x mod 256].
Proof.
  cbn [be]. change (256 ^ N.of_nat 2) with 65536. change (256 ^ N.of_nat 1) with 256.
  change (256 ^ N.of_nat 0) with 1. rewrite N.div_1_r. reflexivity.
Qed.
Lemma be4_eq x : be 4 x = [(x / 16777216) mod 256; (x / 65536) mod 256; (x / 256) mod 256; x mod 256].
Proof.
  cbn [be]. change (256 ^ N.of_nat 3) with 16777216. change (256 ^ N.of_nat 2) with 65536.
  change (256 ^ N.of_nat 1) with 256. change (256 ^ N.of_nat 0) with 1. rewrite N.div_1_r. reflexivity.
Qed.

Lemma be2_unbe a b : a < 256 -> b < 256 -> be 2 (unbe [a; b]) = [a; b].
Proof. intros. rewrite be2_eq, unbe2. f_equal; [|f_equal]; lia. Qed.
Lemma be3_unbe a b c : a < 256 -> b < 256 -> c < 256 -> be 3 (unbe [a; b; c]) = [a; b; c].
Proof. intros. rewrite be3_eq, unbe3. f_equal; [|f_equal; [|f_equal]]; lia. Qed.
Lemma be4_unbe a b c d : a < 256 -> b < 256 -> c < 256 -> d < 256 -> be 4 (unbe [a; b; c; d]) = [a; b; c; d].
Proof. intros. rewrite be4_eq, unbe4. f_equal; [|f_equal; [|f_equal; [|f_equal]]]; lia. Qed.

Lemma unbe_be2 x : x < 2 ^ 16 -> unbe (be 2 x) = x.
Proof. change (2 ^ 16) with 65536. intros. rewrite be2_eq, unbe2. lia. Qed.
Lemma unbe_be3 x : x < 2 ^ 24 -> unbe (be 3 x) = x.
Proof. change (2 ^ 24) with 16777216. intros. rewrite be3_eq, unbe3. lia. Qed.
Lemma unbe_be4 x : x < 2 ^ 32 -> unbe (be 4 x) = x.
Proof. change (2 ^ 32) with 4294967296. intros. rewrite be4_eq, unbe4. lia. Qed.

Lemma be_length n x : length (be n x) = n.
Proof. induction n; cbn [be length]; congruence. Qed.

Lemma be_bytes_ok n x : bytes_ok (be n x) = true.
Proof.
  induction n; cbn [be bytes_ok forallb]; [reflexivity|].
  fold (bytes_ok (be n x)). rewrite IHn, andb_true_r. unfold byte_ok. apply N.ltb_lt.
  apply N.mod_lt. discriminate.
Qed.

(* ---- the Go expressions ---- *)

Lemma lor_add_num a b k m : m = 2 ^ k -> b < m -> N.lor (a * m) b = a * m + b.
Proof. intros -> H. apply lor_shift_add. assumption. Qed.

Lemma bytes_to_uint32_unbe a b c d r :
  a < 256 -> b < 256 -> c < 256 -> d < 256 ->
  bytes_to_uint32 (a :: b :: c :: d :: r) = Ok (unbe [a; b; c; d]).
Proof.
  intros. unfold bytes_to_uint32. f_equal.
  rewrite !shlw32_byte by lia.
  change (2 ^ 24) with 16777216. change (2 ^ 16) with 65536. change (2 ^ 8) with 256.
  rewrite (lor_add_num a (b * 65536) 24 16777216 eq_refl) by lia.
  replace (a * 16777216 + b * 65536) with ((a * 256 + b) * 65536) by lia.
  rewrite (lor_add_num _ (c * 256) 16 65536 eq_refl) by lia.
  replace ((a * 256 + b) * 65536 + c * 256) with (((a * 256 + b) * 256 + c) * 256) by lia.
  rewrite (lor_add_num _ d 8 256 eq_refl) by lia.
  rewrite unbe4. reflexivity.
Qed.

Lemma bytes_to_uint24_unbe a b c r :
  a < 256 -> b < 256 -> c < 256 -> bytes_to_uint24 (a :: b :: c :: r) = Ok (unbe [a; b; c]).
Proof.
  intros. unfold bytes_to_uint24. f_equal.
  rewrite !shlw32_byte by lia.
  change (2 ^ 16) with 65536. change (2 ^ 8) with 256.
  rewrite (lor_add_num a (b * 256) 16 65536 eq_refl) by lia.
  replace (a * 65536 + b * 256) with ((a * 256 + b) * 256) by lia.
  rewrite (lor_add_num _ c 8 256 eq_refl) by lia.
  rewrite unbe3. reflexivity.
Qed.

Lemma key16_unbe a b : a < 256 -> b < 256 -> N.lor (shlw 16 a 8) b = unbe [a; b].
Proof.
  intros. rewrite shlw16_byte by assumption.
  rewrite (lor_add_num a b 8 256 eq_refl) by lia. reflexivity.
Qed.

Lemma value32_unbe a b c d : a < 256 -> b < 256 -> c < 256 -> d < 256 ->
  N.lor (N.lor (N.lor (shlw 32 a 24) (shlw 32 b 16)) (shlw 32 c 8)) d = unbe [a; b; c; d].
Proof.
  intros Ha Hb Hc Hd. pose proof (bytes_to_uint32_unbe a b c d [] Ha Hb Hc Hd) as E.
  unfold bytes_to_uint32 in E. injection E. trivial.
Qed.

Lemma mask31_low31 s : N.land s mask31 = low31 s.
Proof. unfold mask31, low31. change (2 ^ 31 - 1) with (N.ones 31). apply N.land_ones. Qed.

Lemma u8_shiftr n k : u8 (N.shiftr n k) = (n / 2 ^ k) mod 256.
Proof. unfold u8, wrap. rewrite N.shiftr_div_pow2. reflexivity. Qed.

Lemma uint32_to_bytes_be n : uint32_to_bytes n = be 4 n.
Proof.
  unfold uint32_to_bytes. rewrite be4_eq, !u8_shiftr. unfold u8, wrap. reflexivity.
Qed.

Lemma uint24_to_bytes_be n : uint24_to_bytes n = be 3 n.
Proof.
  unfold uint24_to_bytes. rewrite be3_eq, !u8_shiftr. unfold u8, wrap. reflexivity.
Qed.

Lemma setting_entry_be id v : setting_entry id v = be 2 id ++ be 4 v.
Proof.
  unfold setting_entry. rewrite be2_eq, be4_eq, !u8_shiftr. unfold u8, wrap. reflexivity.
Qed.

Lemma u32_small n : n < 2 ^ 32 -> u32 n = n.
Proof. intros. unfold u32, wrap. apply N.mod_small. assumption. Qed.
Lemma u8_small n : n < 256 -> u8 n = n.
Proof. intros. unfold u8, wrap. apply N.mod_small. assumption. Qed.

(* word31: one leading bit and 31 value bits *)
Lemma word31_lt r v : v < 2 ^ 31 -> word31 r v < 2 ^ 32.
Proof. unfold word31. change (2 ^ 32) with 4294967296. change (2 ^ 31) with 2147483648. destruct r; lia. Qed.
Lemma top_bit_word31 r v : v < 2 ^ 31 -> top_bit (word31 r v) = r.
Proof.
  unfold top_bit, word31. change (2 ^ 31) with 2147483648. intros. destruct r.
  - apply N.leb_le. lia.
  - apply N.leb_gt. lia.
Qed.
Lemma low31_word31 r v : v < 2 ^ 31 -> low31 (word31 r v) = v.
Proof. unfold low31, word31. change (2 ^ 31) with 2147483648. intros. destruct r; lia. Qed.
Lemma word31_top_low x : x < 2 ^ 32 -> word31 (top_bit x) (low31 x) = x.
Proof.
  unfold word31, top_bit, low31. change (2 ^ 32) with 4294967296. change (2 ^ 31) with 2147483648. intros.
  destruct (2147483648 <=? x) eqn:E; [apply N.leb_le in E|apply N.leb_gt in E]; lia.
Qed.
Lemma low31_lt x : low31 x < 2 ^ 31.
Proof. unfold low31. apply N.mod_lt. discriminate. Qed.

(* ---- flags: Has with the Go constants is the RFC's bit test; all 256 octets checked ---- *)
Definition flag_table_ok (fl : N) : bool :=
  Bool.eqb (has fl 1) (flag fl 0) && Bool.eqb (has fl 4) (flag fl 2) &&
  Bool.eqb (has fl 8) (flag fl 3) && Bool.eqb (has fl 32) (flag fl 5).

Lemma flag_table : forallb flag_table_ok (map N.of_nat (seq 0 256)) = true.
Proof. vm_compute. reflexivity. Qed.

Lemma has_flag fl : fl < 256 ->
  has fl 1 = flag fl 0 /\ has fl 4 = flag fl 2 /\ has fl 8 = flag fl 3 /\ has fl 32 = flag fl 5.
Proof.
  intros H. pose proof flag_table as T. rewrite forallb_forall in T.
  assert (In fl (map N.of_nat (seq 0 256))) as I.
  { replace fl with (N.of_nat (N.to_nat fl)) by apply N2Nat.id. apply in_map. apply in_seq. lia. }
  specialize (T _ I). unfold flag_table_ok in T.
  repeat (apply andb_prop in T; destruct T as [T ?]).
  repeat split; apply Bool.eqb_prop; assumption.
Qed.
