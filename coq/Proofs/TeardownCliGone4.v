(* Proofs/TeardownCliGone4.v -- blocking-structure model (Impl/Teardown.v), client, S3 with the peer gone (4): the write loop lets go, c.out gets a slot.
   Statements: Props/Teardown.v; overview: Proofs/TeardownProofs.v. *)
From Coq Require Import Arith Lia Bool List.
From RecordUpdate Require Import RecordSet.
Import RecordSetNotations.
Import ListNotations.
From H2V Require Import Impl.Teardown Proofs.TeardownGen Proofs.TeardownCliInv Proofs.TeardownCliInv1 Proofs.TeardownCliInv2 Proofs.TeardownCliInv3 Proofs.TeardownCliInv4 Proofs.TeardownCliLocks Proofs.TeardownCliInv5 Proofs.TeardownCliLive1 Proofs.TeardownCliLive2a Proofs.TeardownCliLive2b Proofs.TeardownCliLive2c Proofs.TeardownCliLive2d Proofs.TeardownCliLive3 Proofs.TeardownCliLive4 Proofs.TeardownCliLive5 Proofs.TeardownCliGone0 Proofs.TeardownCliGone2 Proofs.TeardownCliGone3.

Module CliL10.
Import Cli CliP CliP2 CliL CliL2 CliL3a CliL3b CliL3c CliL3d CliL4 CliL5 CliL6 CliGd CliG2 CliL9.

Ltac easy_fin ::= solve [auto | congruence | lia | tauto | (intuition congruence)
                         | (intuition (try congruence; try lia))
                         | (repeat split; eauto; try congruence; try lia)
                         | (left; repeat split; eauto; try congruence; try lia)
                         | (right; right; right; repeat split; eauto; try congruence; try lia) ].
Ltac solve_side ::= cbn; unf; rwk; rwx; cbn;
  first [ solve [repeat split; eauto; try congruence; try lia]
        | match goal with |- _ \/ _ => first [ solve [left; solve_side] | solve [right; solve_side] ] end
        | solve [timeout 10 fin] ].
Ltac stab := let s := fresh "s" in let a := fresh "a" in let I := fresh "I" in
  let H := fresh "H" in let G := fresh "G" in
  intros s a I H G; clear I; act_cases a; cbn in G; break; try lia; params; unf; rwk; cbn in *;
  try congruence; try solve [solve_side].
Ltac wunf := unfold iterQ, wl_t, wl_iter, wm, pcw in *.

Section P.
Variable cap : nat.
Hypothesis cap_pos : 1 <= cap.
Notation guard := (Cli.guard cap).
Notation reachable := (Cli.reachable cap).
Notation inv := (CliP.inv cap).
Variable r : run guard eff.
Hypothesis F : fair_run cap r.
Hypothesis R0 : reachable (st r 0).
Hypothesis NS : forall i, stalled (st r i) = false \/ dead (st r i) = true.

Notation Inv_run := (CliL2.Inv_run cap cap_pos r R0 NS).
Notation "P ~> Q" := (leadsto r P Q) (at level 70).
Notation ensures := (lt_ensures guard eff r (Inv cap) Inv_run).
Notation ensures_s := (lt_ensures_s guard eff r (Inv cap) Inv_run).
Let Fwl : sfair g_wl r := proj1 (proj2 (proj2 (proj2 F))).
Let Fbody : sfair g_body r := proj1 (proj2 (proj2 (proj2 (proj2 (proj2 (proj2 (proj2 F))))))).
Let Wwl := sfair_fair guard eff r g_wl Fwl.
Let Wbody := sfair_fair guard eff r g_body Fbody.
Notation rl_release := (CliL2.rl_release cap cap_pos r F R0 NS).

Notation closed_stable := (CliL2.closed_stable cap cap_pos r NS).
Let Frl : sfair g_rl r := proj1 (proj2 (proj2 (proj2 (proj2 F)))).
Let Wrl := sfair_fair guard eff r g_rl Frl.
Let Fso : sfair g_selout r := proj2 (proj2 (proj2 (proj2 (proj2 (proj2 (proj2 (proj2 F))))))).
Notation wl_iter_end := (CliL4.wl_iter_end cap cap_pos r F R0 NS).
Notation inv6_run := (CliL9.inv6_run cap cap_pos r R0).
Ltac gunf := unfold PG, QG, OB, rm, rlr in *.

Lemma gone_stable : stable guard eff (Inv cap) (fun s => gone s = true).
Proof. stab. Qed.

(* the write loop does not sit on X's Ctx.lck: its socket write fails, bwLck is free *)
Lemma wlWriteFails : (fun s => gone s = true /\ exists h, wl s = LWrite h) ~> (fun s => wl s = LT0).
Proof.
  apply (ensures g_wl); auto;
    [cens1; unfold dead in *; bools; cbn in *; congruence
    |cens2; unfold dead in *; bools; cbn in *; congruence | ].
  intros s I (Hg & h & Hw). exists (LWriteFail false); cbn; repeat split; eauto.
  unfold dead; rewrite Hg; auto.
Qed.
Lemma wlLockMoves : (fun s => wl s = LLockB HX) ~> (fun s => wl s <> LLockB HX).
Proof.
  apply (ensures g_wl); auto; [cens1 | cens2 | ].
  intros s I Hw. exists LGoAwayRace; cbn; auto.
Qed.
Lemma wx_release : (fun s => gone s = true /\ wl_hold s = HX) ~> (fun s => wl s = LT0 \/ wl_hold s <> HX).
Proof.
  assert ((fun s => gone s = true /\ wl s = LWrite HX) ~> (fun s => wl s = LT0 \/ wl_hold s <> HX)) as K.
  { intros i (Hg & Hw). destruct (wlWriteFails i) as (j & Hj & Hq); eauto. }
  intros i (Hg & Hh). unfold wl_hold in Hh.
  destruct (wl (st r i)) as [| | |[]|[]| | |?| | |] eqn:E; try discriminate.
  - destruct (wlLockMoves i E) as (j & Hj & Hq).
    pose proof (stable_run guard eff r (Inv cap) Inv_run _ gone_stable i j Hj Hg) as Hg'.
    destruct (wl (st r j)) as [| | |[]|[]| | |?| | |] eqn:E'; try congruence;
      try (exists j; split; auto; right; unfold wl_hold; rewrite E'; discriminate).
    destruct (K j (conj Hg' E')) as (k & Hk & Hq'). exists k; split; auto; lia.
  - apply K; auto.
Qed.

(* a full c.out gets a free slot: the write loop comes back to its select, and the c.out case
   is served (strong fairness to that case) -- or the write loop leaves *)
Notation P3 := (CliGd.P3 cap).
Notation Q3 := (CliGd.Q3 cap).
Notation p3_unless := (CliG2.p3_unless cap cap_pos r NS).
Lemma out_slot : P3 ~> Q3.
Proof.
  apply (ensures_s g_selout); auto.
  - apply p3_unless.
  - unfold CliGd.P3, CliGd.Q3; wunf.
    intros s a I HP Ga G.
    clear I; act_cases a; cbn in Ga; try contradiction. cbn in G |- *. break. right; right. lia.
  - intros i ((Hc & Ho & Ho2) & [Hs|Hi]).
    + exists i; split; auto. right. exists (LSelOut 0); cbn; repeat split; auto; lia.
    + destruct (lt_unless guard eff r (Inv cap) Inv_run P3 Q3 _ _ p3_unless wl_iter_end i)
        as (j & Hj & [Hq|(((Hc' & Ho' & Ho2') & _) & [Hs|Ht])]).
      * unfold CliGd.P3; tauto.
      * exists j; auto.
      * exists j; split; auto. right. exists (LSelOut 0); cbn; repeat split; auto; lia.
      * exists j; split; auto. left. unfold CliGd.Q3; auto.
Qed.
End P.
End CliL10.
