(* The RFC 7540 frame writer and parser of Spec/Rfc7540Frames.v are inverse of each other
   on well-formed frames. *)
From Coq Require Import List NArith ZArith Bool Lia.
From Coq Require Import ZifyN ZifyNat ZifyBool.
From H2V Require Import Base.Bytes Base.MachineInt Base.Result Spec.Rfc7540Frames Impl.Pools Impl.Frames
  Proofs.FramesBits.
Import ListNotations.
Local Open Scope N_scope.
Ltac Zify.zify_post_hook ::= Z.div_mod_to_equations.

(* ---- lists indexed by N ---- *)
Lemma len_app (a b : bytes) : len (a ++ b) = len a + len b.
Proof. unfold len. rewrite app_length. lia. Qed.
Lemma len_cons x (a : bytes) : len (x :: a) = 1 + len a.
Proof. unfold len. cbn [length]. lia. Qed.
Lemma len_nil : len [] = 0.
Proof. reflexivity. Qed.

Lemma takeN_len_app (a b : bytes) : takeN (len a) (a ++ b) = a.
Proof.
  unfold takeN, len. rewrite Nat2N.id. rewrite firstn_app, Nat.sub_diag, firstn_all. cbn. apply app_nil_r.
Qed.
Lemma dropN_len_app (a b : bytes) : dropN (len a) (a ++ b) = b.
Proof.
  unfold dropN, len. rewrite Nat2N.id. rewrite skipn_app, Nat.sub_diag, skipn_all. reflexivity.
Qed.
Lemma takeN_all (a : bytes) : takeN (len a) a = a.
Proof. unfold takeN, len. rewrite Nat2N.id. apply firstn_all. Qed.
Lemma dropN_all (a : bytes) : dropN (len a) a = [].
Proof. unfold dropN, len. rewrite Nat2N.id. apply skipn_all. Qed.

Lemma bytes_ok_app a b : bytes_ok (a ++ b) = bytes_ok a && bytes_ok b.
Proof. unfold bytes_ok. apply forallb_app. Qed.
Lemma bytes_ok_cons x a : bytes_ok (x :: a) = (x <? 256) && bytes_ok a.
Proof. reflexivity. Qed.

(* ---- header ---- *)
Lemma parse_header_write n ty fl r sid p :
  n < 2 ^ 24 -> sid < 2 ^ 31 ->
  parse_header (header_bytes n ty fl r sid ++ p) = Some (n, ty, fl, r, sid, p).
Proof.
  intros Hn Hs. unfold header_bytes. rewrite be3_eq, be4_eq. cbn [app]. unfold parse_header.
  assert (E3 : unbe [n / 65536 mod 256; n / 256 mod 256; n mod 256] = n).
  { rewrite <- be3_eq. apply unbe_be3. assumption. }
  set (w := word31 r sid) in *.
  assert (E4 : unbe [w / 16777216 mod 256; w / 65536 mod 256; w / 256 mod 256; w mod 256] = w).
  { rewrite <- be4_eq. apply unbe_be4. apply word31_lt. assumption. }
  rewrite E3, E4. unfold w. rewrite top_bit_word31, low31_word31 by assumption. reflexivity.
Qed.

(* ---- padding ---- *)
Lemma unpad_with_pad fl pad c :
  wf_pad fl pad -> unpad fl (with_pad pad c) = Some (pad, c).
Proof.
  unfold wf_pad, unpad, with_pad. destruct pad as [p|].
  - intros [F [_ L]]. rewrite F.
    assert (len p <=? len (c ++ p) = true) as ->. { apply N.leb_le. rewrite len_app. lia. }
    replace (len (c ++ p) - len p) with (len c) by (rewrite len_app; lia).
    rewrite dropN_len_app, takeN_len_app. reflexivity.
  - intros ->. reflexivity.
Qed.

Lemma parse_prio_bytes p :
  wf_prio p ->
  forall frag, exists a b c d,
    prio_bytes p ++ frag = a :: b :: c :: d :: p_weight p :: frag /\ parse_prio a b c d (p_weight p) = p.
Proof.
  intros [Hd Hw] frag. unfold prio_bytes. rewrite be4_eq. cbn [app].
  do 4 eexists. split; [reflexivity|].
  unfold parse_prio. rewrite <- be4_eq, unbe_be4 by (apply word31_lt; assumption).
  rewrite top_bit_word31, low31_word31 by assumption. destruct p; reflexivity.
Qed.

Lemma parse_settings_write items :
  Forall wf_setting items -> parse_settings (flat_map setting_bytes items) = Some items.
Proof.
  induction 1 as [|[k v] items [Hk Hv] _ IH]; [reflexivity|].
  cbn [flat_map]. unfold setting_bytes at 1. cbn [fst snd] in *. rewrite be2_eq, be4_eq. cbn [app parse_settings].
  rewrite IH. rewrite <- be2_eq, <- be4_eq, unbe_be2, unbe_be4 by assumption. reflexivity.
Qed.

Lemma word31_4 r v p :
  v < 2 ^ 31 -> exists a b c d, be 4 (word31 r v) ++ p = a :: b :: c :: d :: p /\
    top_bit (unbe [a; b; c; d]) = r /\ low31 (unbe [a; b; c; d]) = v.
Proof.
  intros H. rewrite be4_eq. cbn [app]. do 4 eexists. split; [reflexivity|].
  rewrite <- be4_eq, unbe_be4 by (apply word31_lt; assumption).
  split; [apply top_bit_word31|apply low31_word31]; assumption.
Qed.

Lemma be4_4 x p : x < 2 ^ 32 -> exists a b c d, be 4 x ++ p = a :: b :: c :: d :: p /\ unbe [a; b; c; d] = x.
Proof.
  intros H. rewrite be4_eq. cbn [app]. do 4 eexists. split; [reflexivity|].
  rewrite <- be4_eq. apply unbe_be4. assumption.
Qed.

(* ---- payload ---- *)
Lemma parse_payload_write fl b :
  wf_body fl b -> parse_payload (type_code b) fl (payload_bytes b) = Some b.
Proof.
  destruct b as [pad d|pad prio frag|p|code|items|pad r promised frag|d|r last code debug|r incr|frag];
    cbn [type_code payload_bytes wf_body]; unfold parse_payload.
  - intros [P _]. rewrite (unpad_with_pad fl pad d P). reflexivity.
  - intros [P [_ Q]]. rewrite (unpad_with_pad fl pad _ P). destruct prio as [p|].
    + destruct Q as [F W]. rewrite F.
      destruct (parse_prio_bytes p W frag) as (a & b & c & d & E & PP). rewrite E, PP. reflexivity.
    + rewrite Q. reflexivity.
  - intros W. destruct (parse_prio_bytes p W []) as (a & b & c & d & E & PP).
    rewrite app_nil_r in E. rewrite E, PP. reflexivity.
  - intros H. destruct (be4_4 code [] H) as (a & b & c & d & E & U). rewrite app_nil_r in E. rewrite E, U. reflexivity.
  - intros [W A]. rewrite (parse_settings_write items W).
    destruct (flag fl ACK) eqn:F; [rewrite (A eq_refl); reflexivity|reflexivity].
  - intros [P [H _]]. rewrite (unpad_with_pad fl pad _ P).
    destruct (word31_4 r promised frag H) as (a & b & c & d & E & T & L). rewrite E, T, L. reflexivity.
  - intros [_ L]. rewrite L. reflexivity.
  - intros [Hl [Hc _]].
    destruct (word31_4 r last (be 4 code ++ debug) Hl) as (a & b & c & d & E & T & L).
    destruct (be4_4 code debug Hc) as (e & f & g & h & E2 & U).
    rewrite E, E2, T, L, U. reflexivity.
  - intros H. destruct (word31_4 r incr [] H) as (a & b & c & d & E & T & L). rewrite app_nil_r in E.
    rewrite E, T, L. reflexivity.
  - reflexivity.
Qed.

(* ---- the whole frame ---- *)
Theorem spec_parse_write f rest :
  wf f -> spec_parse (spec_write f ++ rest) = Some (f, rest).
Proof.
  intros (Hfl & Hs & Hn & Hb). unfold spec_parse, spec_write. rewrite <- app_assoc.
  rewrite parse_header_write by assumption.
  unfold payload_len in *.
  assert (len (payload_bytes (f_body f)) <=? len (payload_bytes (f_body f) ++ rest) = true) as ->.
  { apply N.leb_le. rewrite len_app. lia. }
  rewrite takeN_len_app, dropN_len_app, parse_payload_write by assumption.
  destruct f; reflexivity.
Qed.

(* the RFC reader on a written frame *)
Theorem spec_read_write limit f rest :
  wf f -> payload_len f <= limit -> spec_read limit (spec_write f ++ rest) = Frame f (9 + payload_len f).
Proof.
  intros W L. pose proof W as (Hfl & Hs & Hn & Hb). unfold spec_read, spec_write. rewrite <- app_assoc.
  rewrite parse_header_write by assumption.
  assert (limit <? payload_len f = false) as -> by (apply N.ltb_ge; assumption).
  unfold payload_len in *.
  assert (len (payload_bytes (f_body f) ++ rest) <? len (payload_bytes (f_body f)) = false) as ->.
  { apply N.ltb_ge. rewrite len_app. lia. }
  assert (9 <? type_code (f_body f) = false) as -> by (destruct (f_body f); reflexivity).
  rewrite takeN_len_app, parse_payload_write by assumption.
  destruct f; reflexivity.
Qed.

(* ---- the other direction: what the parser accepts is what the writer writes ---- *)

Lemma bytes_ok_split n (a : bytes) :
  bytes_ok a = true -> bytes_ok (takeN n a) = true /\ bytes_ok (dropN n a) = true.
Proof.
  intros H. unfold takeN, dropN. rewrite <- (firstn_skipn (N.to_nat n) a), bytes_ok_app in H.
  apply andb_prop in H. exact H.
Qed.
Lemma bytes_ok_takeN n (a : bytes) : bytes_ok a = true -> bytes_ok (takeN n a) = true.
Proof. intros H. apply (bytes_ok_split n a H). Qed.
Lemma bytes_ok_dropN n (a : bytes) : bytes_ok a = true -> bytes_ok (dropN n a) = true.
Proof. intros H. apply (bytes_ok_split n a H). Qed.

Lemma takeN_dropN n (a : bytes) : takeN n a ++ dropN n a = a.
Proof. apply firstn_skipn. Qed.
Lemma len_dropN n (a : bytes) : len (dropN n a) = len a - n.
Proof. unfold len, dropN. rewrite skipn_length. lia. Qed.
Lemma len_takeN n (a : bytes) : n <= len a -> len (takeN n a) = n.
Proof. unfold len, takeN. intros H. rewrite firstn_length_le by lia. lia. Qed.

Lemma bytes_ok_4 a b c d r : bytes_ok (a :: b :: c :: d :: r) = true ->
  a < 256 /\ b < 256 /\ c < 256 /\ d < 256 /\ bytes_ok r = true.
Proof.
  rewrite !bytes_ok_cons. intros H. repeat (apply andb_prop in H; destruct H as [?%N.ltb_lt H]). auto.
Qed.
Lemma bytes_ok_1 a r : bytes_ok (a :: r) = true -> a < 256 /\ bytes_ok r = true.
Proof. rewrite bytes_ok_cons. intros H. apply andb_prop in H. destruct H as [?%N.ltb_lt H]. auto. Qed.

Lemma with_pad_unpad fl p pad c :
  bytes_ok p = true -> unpad fl p = Some (pad, c) ->
  with_pad pad c = p /\ wf_pad fl pad /\ bytes_ok c = true.
Proof.
  unfold unpad. intros B. destruct (flag fl PADDED) eqn:F.
  - destruct p as [|pl q]; [discriminate|]. destruct (pl <=? len q) eqn:L; [|discriminate].
    apply N.leb_le in L. intros [= <- <-]. apply bytes_ok_1 in B. destruct B as [Hpl Bq].
    unfold with_pad. rewrite takeN_dropN, len_dropN.
    replace (len q - (len q - pl)) with pl by lia.
    split; [reflexivity|]. split.
    + unfold wf_pad. split; [assumption|]. split; [apply bytes_ok_dropN; assumption|]. rewrite len_dropN. lia.
    + apply bytes_ok_takeN. assumption.
  - intros [= <- <-]. split; [reflexivity|]. split; [exact F|assumption].
Qed.

Lemma prio_bytes_parse a b c d w :
  a < 256 -> b < 256 -> c < 256 -> d < 256 -> w < 256 ->
  prio_bytes (parse_prio a b c d w) = [a; b; c; d; w] /\ wf_prio (parse_prio a b c d w).
Proof.
  intros. unfold prio_bytes, parse_prio, wf_prio. cbn [p_excl p_dep p_weight].
  rewrite word31_top_low by (apply unbe4_lt; assumption). rewrite be4_unbe by assumption.
  split; [reflexivity|]. split; [apply low31_lt|assumption].
Qed.

Lemma list6_ind (P : bytes -> Prop) :
  P [] -> (forall a, P [a]) -> (forall a b, P [a; b]) -> (forall a b c, P [a; b; c]) ->
  (forall a b c d, P [a; b; c; d]) -> (forall a b c d e, P [a; b; c; d; e]) ->
  (forall a b c d e f rest, P rest -> P (a :: b :: c :: d :: e :: f :: rest)) ->
  forall l, P l.
Proof.
  intros H0 H1 H2 H3 H4 H5 H6. fix IH 1.
  intros [|a [|b [|c [|d [|e [|f rest]]]]]];
    [apply H0|apply H1|apply H2|apply H3|apply H4|apply H5|apply H6; apply IH].
Qed.

Lemma settings_bytes_parse p : bytes_ok p = true ->
  forall items, parse_settings p = Some items ->
  flat_map setting_bytes items = p /\ Forall wf_setting items.
Proof.
  induction p as [| | | | | |a b c d e f rest IH] using list6_ind; intros B items; cbn [parse_settings]; try discriminate.
  - intros [= <-]. split; [reflexivity|constructor].
  - destruct (parse_settings rest) as [its|] eqn:E; [|discriminate]. intros [= <-].
    rewrite !bytes_ok_cons in B.
    repeat (apply andb_prop in B; destruct B as [?%N.ltb_lt B]).
    destruct (IH B its eq_refl) as [W F]. split.
    + cbn [flat_map]. unfold setting_bytes at 1. cbn [fst snd].
      rewrite be2_unbe, be4_unbe by assumption. cbn [app]. rewrite W. reflexivity.
    + constructor; [|assumption]. split; cbn [fst snd]; [apply unbe2_lt|apply unbe4_lt]; assumption.
Qed.

Lemma parse_payload_unknown ty fl p : 9 < ty -> parse_payload ty fl p = None.
Proof.
  intros H. destruct ty as [|q]; [lia|]. unfold parse_payload.
  repeat (destruct q as [q|q|]; try reflexivity; try lia).
Qed.

Lemma payload_bytes_parse ty fl p b :
  bytes_ok p = true -> parse_payload ty fl p = Some b ->
  payload_bytes b = p /\ type_code b = ty /\ wf_body fl b.
Proof.
  intros B. destruct (N.le_gt_cases ty 9) as [Lty|Gty]; [|rewrite parse_payload_unknown by assumption; discriminate].
  assert (ty = 0 \/ ty = 7 \/ ty = 3 \/ ty = 5 \/ ty = 9 \/ ty = 1 \/ ty = 6 \/ ty = 2 \/ ty = 4 \/ ty = 8) as C by lia.
  unfold parse_payload.
  destruct C as [->|[->|[->|[->|[->|[->|[->|[->|[->| ->]]]]]]]]].
  - (* 0 DATA *)
    destruct (unpad fl p) as [[pad d]|] eqn:U; [|discriminate]. intros [= <-].
    destruct (with_pad_unpad fl p pad d B U) as (E & W & Bd). cbn. auto.
  - (* 7 GOAWAY *)
    destruct p as [|a [|b0 [|c [|d [|e [|f [|g [|h debug]]]]]]]]; try discriminate. intros [= <-].
    apply bytes_ok_4 in B. destruct B as (Ha & Hb & Hc & Hd & B).
    apply bytes_ok_4 in B. destruct B as (He & Hf & Hg & Hh & B).
    cbn [payload_bytes type_code wf_body].
    rewrite word31_top_low by (apply unbe4_lt; assumption). rewrite !be4_unbe by assumption.
    split; [reflexivity|]. split; [reflexivity|]. split; [apply low31_lt|]. split; [apply unbe4_lt; assumption|assumption].
  - (* 3 RST_STREAM *)
    destruct p as [|a [|b0 [|c [|d [|]]]]]; try discriminate. intros [= <-].
    apply bytes_ok_4 in B. destruct B as (Ha & Hb & Hc & Hd & B).
    cbn [payload_bytes type_code wf_body]. rewrite be4_unbe by assumption.
    split; [reflexivity|]. split; [reflexivity|]. apply unbe4_lt; assumption.
  - (* 5 PUSH_PROMISE *)
    destruct (unpad fl p) as [[pad [|a [|b0 [|c [|d frag]]]]]|] eqn:U; try discriminate. intros [= <-].
    destruct (with_pad_unpad fl p pad _ B U) as (E & W & Bc).
    apply bytes_ok_4 in Bc. destruct Bc as (Ha & Hb & Hc & Hd & Bf).
    cbn [payload_bytes type_code wf_body].
    rewrite word31_top_low by (apply unbe4_lt; assumption). rewrite be4_unbe by assumption.
    split; [exact E|]. split; [reflexivity|]. split; [assumption|]. split; [apply low31_lt|assumption].
  - (* 9 CONTINUATION *)
    intros [= <-]. cbn. auto.
  - (* 1 HEADERS *)
    destruct (unpad fl p) as [[pad c]|] eqn:U; [|discriminate].
    destruct (with_pad_unpad fl p pad c B U) as (E & W & Bc).
    destruct (flag fl PRIORITY_FLAG) eqn:F.
    + destruct c as [|a [|b0 [|c' [|d [|w frag]]]]]; try discriminate. intros [= <-].
      apply bytes_ok_4 in Bc. destruct Bc as (Ha & Hb & Hc & Hd & Bf).
      apply bytes_ok_1 in Bf. destruct Bf as [Hw Bf].
      destruct (prio_bytes_parse a b0 c' d w Ha Hb Hc Hd Hw) as [PB PW].
      cbn [payload_bytes type_code wf_body]. rewrite PB. cbn [app].
      split; [exact E|]. split; [reflexivity|]. split; [assumption|]. split; [assumption|]. split; assumption.
    + intros [= <-]. cbn [payload_bytes type_code wf_body app].
      split; [exact E|]. split; [reflexivity|]. split; [assumption|]. split; assumption.
  - (* 6 PING *)
    destruct (len p =? 8) eqn:L; [|discriminate]. intros [= <-]. apply N.eqb_eq in L. cbn. auto.
  - (* 2 PRIORITY *)
    destruct p as [|a [|b0 [|c [|d [|w [|]]]]]]; try discriminate. intros [= <-].
    apply bytes_ok_4 in B. destruct B as (Ha & Hb & Hc & Hd & B).
    apply bytes_ok_1 in B. destruct B as [Hw _].
    destruct (prio_bytes_parse a b0 c d w Ha Hb Hc Hd Hw) as [PB PW].
    cbn [payload_bytes type_code wf_body]. rewrite PB. auto.
  - (* 4 SETTINGS *)
    destruct (flag fl ACK && negb (len p =? 0)) eqn:A; [discriminate|].
    destruct (parse_settings p) as [items|] eqn:S; [|discriminate]. intros [= <-].
    destruct (settings_bytes_parse p B items S) as [E W].
    cbn [payload_bytes type_code wf_body]. split; [exact E|]. split; [reflexivity|]. split; [assumption|].
    intros F. rewrite F in A. cbn in A. apply negb_false_iff, N.eqb_eq in A.
    destruct p; [cbn in S; injection S as <-; reflexivity|]. rewrite len_cons in A. lia.
  - (* 8 WINDOW_UPDATE *)
    destruct p as [|a [|b0 [|c [|d [|]]]]]; try discriminate. intros [= <-].
    apply bytes_ok_4 in B. destruct B as (Ha & Hb & Hc & Hd & B).
    cbn [payload_bytes type_code wf_body].
    rewrite word31_top_low by (apply unbe4_lt; assumption). rewrite be4_unbe by assumption.
    split; [reflexivity|]. split; [reflexivity|]. apply low31_lt.
Qed.

Theorem spec_write_parse b f rest :
  bytes_ok b = true -> spec_parse b = Some (f, rest) -> b = spec_write f ++ rest /\ wf f.
Proof.
  intros B. unfold spec_parse.
  destruct b as [|l2 [|l1 [|l0 [|ty [|fl [|s3 [|s2 [|s1 [|s0 rest0]]]]]]]]]; try discriminate.
  unfold parse_header.
  apply bytes_ok_4 in B. destruct B as (Hl2 & Hl1 & Hl0 & Hty & B).
  apply bytes_ok_1 in B. destruct B as (Hfl & B).
  apply bytes_ok_4 in B. destruct B as (Hs3 & Hs2 & Hs1 & Hs0 & B).
  set (n := unbe [l2; l1; l0]). set (x := unbe [s3; s2; s1; s0]).
  destruct (n <=? len rest0) eqn:L; [|discriminate]. apply N.leb_le in L.
  destruct (parse_payload ty fl (takeN n rest0)) as [body|] eqn:P; [|discriminate].
  intros [= <- <-].
  destruct (payload_bytes_parse ty fl _ body (bytes_ok_takeN n rest0 B) P) as (E & T & W).
  assert (Hn : n < 2 ^ 24) by (apply unbe3_lt; assumption).
  assert (Hx : x < 2 ^ 32) by (apply unbe4_lt; assumption).
  split.
  - unfold spec_write, payload_len, header_bytes. cbn [f_body f_flags f_rsv f_stream].
    rewrite E, T, len_takeN by assumption. rewrite word31_top_low by assumption.
    unfold n, x. rewrite be3_unbe, be4_unbe by assumption. cbn [app].
    repeat f_equal. symmetry. apply takeN_dropN.
  - unfold wf, payload_len. cbn [f_body f_flags f_rsv f_stream].
    split; [assumption|]. split; [apply low31_lt|]. split; [|assumption].
    rewrite E, len_takeN by assumption. assumption.
Qed.

(* ---- a written frame consists of octets ---- *)
Lemma bytes_ok_repeat0 n : bytes_ok (repeat 0 n) = true.
Proof. induction n; [reflexivity|]. cbn [repeat]. rewrite bytes_ok_cons, IHn. reflexivity. Qed.

Lemma with_pad_bytes_ok fl pad c : wf_pad fl pad -> bytes_ok c = true -> bytes_ok (with_pad pad c) = true.
Proof.
  unfold wf_pad, with_pad. destruct pad as [p|]; [|auto]. intros (_ & Bp & L) Bc.
  rewrite bytes_ok_cons, bytes_ok_app, Bp, Bc. apply N.ltb_lt in L. rewrite L. reflexivity.
Qed.

Lemma prio_bytes_ok p : wf_prio p -> bytes_ok (prio_bytes p) = true.
Proof.
  intros [_ W]. unfold prio_bytes. rewrite bytes_ok_app, be_bytes_ok, bytes_ok_cons. apply N.ltb_lt in W. rewrite W. reflexivity.
Qed.

Lemma payload_bytes_ok fl b : wf_body fl b -> bytes_ok (payload_bytes b) = true.
Proof.
  destruct b as [pad d|pad prio frag|p|code|items|pad r promised frag|d|r last code debug|r incr|frag];
    cbn [payload_bytes wf_body].
  - intros [P B]. eapply with_pad_bytes_ok; eassumption.
  - intros (P & B & Q). eapply with_pad_bytes_ok; [eassumption|]. rewrite bytes_ok_app, B.
    destruct prio as [p|]; [|reflexivity]. destruct Q as [_ W]. rewrite (prio_bytes_ok p W). reflexivity.
  - apply prio_bytes_ok.
  - intros _. apply be_bytes_ok.
  - intros [_ _]. induction items as [|kv items IH]; [reflexivity|]. cbn [flat_map].
    rewrite bytes_ok_app, IH. unfold setting_bytes. rewrite bytes_ok_app, !be_bytes_ok. reflexivity.
  - intros (P & _ & B). eapply with_pad_bytes_ok; [eassumption|]. rewrite bytes_ok_app, be_bytes_ok, B. reflexivity.
  - intros [B _]. exact B.
  - intros (_ & _ & B). rewrite !bytes_ok_app, !be_bytes_ok, B. reflexivity.
  - intros _. apply be_bytes_ok.
  - auto.
Qed.

Lemma type_code_le9 b : type_code b <= 9.
Proof. destruct b; cbn; lia. Qed.

Lemma spec_write_bytes_ok f : wf f -> bytes_ok (spec_write f) = true.
Proof.
  intros (Hfl & _ & _ & W). unfold spec_write, header_bytes.
  rewrite !bytes_ok_app, !be_bytes_ok, (payload_bytes_ok _ _ W), !bytes_ok_cons.
  pose proof (type_code_le9 (f_body f)).
  assert (type_code (f_body f) <? 256 = true) as -> by (apply N.ltb_lt; lia).
  apply N.ltb_lt in Hfl. rewrite Hfl. reflexivity.
Qed.

Lemma spec_write_len f : len (spec_write f) = 9 + payload_len f.
Proof.
  unfold spec_write, header_bytes, payload_len. rewrite !len_app.
  assert (forall n x, len (be n x) = N.of_nat n) as LB by (intros; unfold len; rewrite be_length; reflexivity).
  rewrite !LB. change (len [type_code (f_body f); f_flags f]) with 2. lia.
Qed.
